import PoolModel.Float64
import Mathlib.Tactic.Linarith
import Mathlib.Tactic.Ring
import Mathlib.Tactic.Positivity
import Mathlib.Tactic.NormNum
import Mathlib.Tactic.FieldSimp
import Mathlib.Algebra.Order.Field.Basic
import Mathlib.Algebra.Order.AbsoluteValue.Basic
/-! # Lemmas about the binary64 model `Pool.Float64`

`rnd_relerr`   : `|rnd(n/d) − n/d| ≤ 2^-53 · n/d` (every positive rational; the exponent is unbounded in the model)
`premium_near` : `c·(1−2^-50) − 1 < premium amt rate dur ≤ c·(1+2^-50)` with `c = amt·rate·dur/10^9`
`rnd_mono`     : rounding is monotone (see the end of the file) -/
namespace Pool.Float64

/-- the rational value of a float -/
def F.val (x : F) : ℚ := (x.m : ℚ) * (2 : ℚ) ^ x.e

theorem two_zpow_pos (e : ℤ) : (0 : ℚ) < (2 : ℚ) ^ e := zpow_pos (by norm_num) e

theorem F.val_nonneg (x : F) : 0 ≤ x.val := by
  unfold F.val; have := two_zpow_pos x.e; positivity

theorem F.den_pos (x : F) : 0 < x.den := by
  unfold F.den; split <;> simp

theorem F.num_div_den (x : F) : (x.num : ℚ) / x.den = x.val := by
  obtain ⟨m, e⟩ := x
  unfold F.num F.den F.val
  by_cases h : 0 ≤ e
  · obtain ⟨k, rfl⟩ := Int.eq_ofNat_of_zero_le h
    simp only [h, if_true, Int.toNat_natCast, zpow_natCast]
    push_cast; simp
  · have h' : e < 0 := by omega
    obtain ⟨k, rfl⟩ := Int.exists_eq_neg_ofNat (le_of_lt h')
    simp only [h, if_false, neg_neg, Int.toNat_natCast, zpow_neg, zpow_natCast]
    push_cast; rw [div_eq_mul_inv]

theorem scale_eq (n d : Nat) (e : ℤ) :
    (scaleNum n e : ℚ) / scaleDen d e = ((n : ℚ) / d) / (2 : ℚ) ^ e := by
  unfold scaleNum scaleDen
  by_cases h : 0 ≤ e
  · obtain ⟨k, rfl⟩ := Int.eq_ofNat_of_zero_le h
    simp only [h, if_true, Int.toNat_natCast, zpow_natCast]
    push_cast; rw [div_div]
  · have h' : e < 0 := by omega
    obtain ⟨k, rfl⟩ := Int.exists_eq_neg_ofNat (le_of_lt h')
    simp only [h, if_false, neg_neg, Int.toNat_natCast, zpow_neg, zpow_natCast]
    push_cast; rw [div_inv_eq_mul]; ring

theorem scaleDen_pos {d : Nat} (hd : 0 < d) (e : ℤ) : 0 < scaleDen d e := by
  unfold scaleDen; split
  · exact Nat.mul_pos hd (Nat.pow_pos (by norm_num))
  · exact hd

/-- rounding to the nearest integer is off by at most 1/2 -/
theorem roundNE_err (N D : Nat) (hD : 0 < D) : |(roundNE N D : ℚ) - (N : ℚ) / D| ≤ 1 / 2 := by
  have hDq : (0 : ℚ) < D := by exact_mod_cast hD
  have hdm := Nat.div_add_mod N D
  have hr : N % D < D := Nat.mod_lt _ hD
  have hN : (N : ℚ) / D = (N / D : Nat) + ((N % D : Nat) : ℚ) / D := by
    have : (N : ℚ) = D * (N / D : Nat) + (N % D : Nat) := by exact_mod_cast hdm.symm
    field_simp
    linarith
  have hfrac0 : (0 : ℚ) ≤ ((N % D : Nat) : ℚ) / D := by positivity
  unfold roundNE
  simp only
  split
  · rename_i hup
    have h2 : D ≤ 2 * (N % D) := by rcases hup with h | ⟨h, _⟩ <;> omega
    have h2q : (D : ℚ) ≤ 2 * ((N % D : Nat) : ℚ) := by exact_mod_cast h2
    have hfrac : (1 : ℚ) / 2 ≤ ((N % D : Nat) : ℚ) / D := by
      rw [le_div_iff₀ hDq]; linarith
    have hfrac1 : ((N % D : Nat) : ℚ) / D ≤ 1 := by
      rw [div_le_one hDq]; exact_mod_cast le_of_lt hr
    rw [hN, abs_le]; push_cast; constructor <;> linarith
  · rename_i hdn
    have h2 : 2 * (N % D) ≤ D := by
      by_contra hc
      exact hdn (Or.inl (by omega))
    have h2q : 2 * ((N % D : Nat) : ℚ) ≤ (D : ℚ) := by exact_mod_cast h2
    have hfrac : ((N % D : Nat) : ℚ) / D ≤ 1 / 2 := by
      rw [div_le_iff₀ hDq]; linarith
    rw [hN, abs_le]; constructor <;> linarith

/-- the exponent chosen by `expOf` normalises the significand to at least 2^52 -/
theorem expOf_lb (n d : Nat) (hn : 0 < n) (hd : 0 < d) :
    (2 : ℚ) ^ 52 ≤ ((n : ℚ) / d) / (2 : ℚ) ^ (expOf n d) := by
  have hdq : (0 : ℚ) < d := by exact_mod_cast hd
  unfold expOf
  simp only
  split
  · -- adjusted: e = e0 - 1
    have hnl : (2 : ℚ) ^ (Nat.log2 n) ≤ n := by exact_mod_cast Nat.log2_self_le (Nat.pos_iff_ne_zero.mp hn)
    have hdl : (d : ℚ) < (2 : ℚ) ^ (Nat.log2 d + 1) := by exact_mod_cast (Nat.lt_log2_self (n := d))
    have hne : (2 : ℚ) ≠ 0 := by norm_num
    have e1 : (2 : ℚ) ^ (expGuess n d - 1) = (2 : ℚ) ^ (Nat.log2 n) / ((2 : ℚ) ^ (Nat.log2 d + 1) * 2 ^ 52) := by
      unfold expGuess
      rw [show ((Nat.log2 n : ℤ) - (Nat.log2 d : ℤ) - 52 - 1) = (Nat.log2 n : ℤ) + (-(((Nat.log2 d + 1 : ℕ) : ℤ)) + (-((52 : ℕ) : ℤ))) by push_cast; ring]
      rw [zpow_add₀ hne, zpow_add₀ hne, zpow_neg, zpow_neg, zpow_natCast, zpow_natCast, zpow_natCast]
      field_simp
    rw [e1]
    have hp1 : (0 : ℚ) < (2 : ℚ) ^ (Nat.log2 n) := by positivity
    have hp2 : (0 : ℚ) < (2 : ℚ) ^ (Nat.log2 d + 1) := by positivity
    rw [div_div_eq_mul_div, le_div_iff₀ hp1, div_mul_eq_mul_div, le_div_iff₀ hdq]
    have hA : (2 : ℚ) ^ 52 * 2 ^ n.log2 * d ≤ (2 : ℚ) ^ 52 * n * 2 ^ (d.log2 + 1) := by
      have := mul_le_mul hnl (le_of_lt hdl) (le_of_lt hdq) (by positivity)
      nlinarith
    nlinarith
  · rename_i hge
    have hge' : 2 ^ 52 * scaleDen d (expGuess n d) ≤ scaleNum n (expGuess n d) := Nat.le_of_not_lt hge
    have hs := scale_eq n d (expGuess n d)
    have hsd : (0 : ℚ) < scaleDen d (expGuess n d) := by exact_mod_cast scaleDen_pos hd _
    rw [← hs, le_div_iff₀ hsd]
    exact_mod_cast hge'

/-- **relative error of one rounding**: `|rnd(n/d) − n/d| ≤ 2^-53 · n/d` -/
theorem rnd_relerr (n d : Nat) (hd : 0 < d) :
    |(rnd n d).val - (n : ℚ) / d| ≤ ((n : ℚ) / d) / 2 ^ 53 := by
  by_cases hn : n = 0
  · subst hn; simp [rnd, F.val]
  have hn' : 0 < n := Nat.pos_of_ne_zero hn
  have hsd : 0 < scaleDen d (expOf n d) := scaleDen_pos hd _
  have herr := roundNE_err (scaleNum n (expOf n d)) (scaleDen d (expOf n d)) hsd
  have hlb := expOf_lb n d hn' hd
  rw [scale_eq] at herr
  have hp := two_zpow_pos (expOf n d)
  simp only [rnd, hn, if_false, F.val]
  set s : ℚ := ((n : ℚ) / d) / (2 : ℚ) ^ (expOf n d) with hs
  set m : ℚ := (roundNE (scaleNum n (expOf n d)) (scaleDen d (expOf n d)) : ℚ)
  set p : ℚ := (2 : ℚ) ^ (expOf n d)
  have hq : (n : ℚ) / d = s * p := by rw [hs]; field_simp
  rw [hq, show m * p - s * p = (m - s) * p by ring, abs_mul, abs_of_pos hp]
  have h1 : |m - s| ≤ s / 2 ^ 53 := by
    have : (1 : ℚ) / 2 ≤ s / 2 ^ 53 := by
      rw [le_div_iff₀ (by positivity)]; linarith
    linarith
  calc |m - s| * p ≤ s / 2 ^ 53 * p := mul_le_mul_of_nonneg_right h1 (le_of_lt hp)
    _ = s * p / 2 ^ 53 := by ring

/-- one rounding as a two-sided bound -/
theorem rnd_bounds (n d : Nat) (hd : 0 < d) :
    ((n : ℚ) / d) * (1 - 1 / 2 ^ 53) ≤ (rnd n d).val ∧ (rnd n d).val ≤ ((n : ℚ) / d) * (1 + 1 / 2 ^ 53) := by
  have h := abs_le.mp (rnd_relerr n d hd)
  constructor
  · have := h.1; linarith
  · have := h.2; linarith

/-! ## chaining roundings: `Near k x X` = `x` is `X` up to `k` roundings -/

/-- unit roundoff 2^-53 -/
def u : ℚ := 1 / 2 ^ 53

theorem u_pos : 0 < u := by unfold u; positivity
theorem u_lt_one : u < 1 := by unfold u; norm_num

def Near (k : ℕ) (x X : ℚ) : Prop := X * (1 - u) ^ k ≤ x ∧ x ≤ X * (1 + u) ^ k

theorem one_sub_u_pow_pos (k : ℕ) : 0 < (1 - u) ^ k := pow_pos (by have := u_lt_one; linarith) k
theorem one_add_u_pow_pos (k : ℕ) : 0 < (1 + u) ^ k := pow_pos (by have := u_pos; linarith) k

theorem Near.nonneg {k x X} (h : Near k x X) (hX : 0 ≤ X) : 0 ≤ x :=
  le_trans (mul_nonneg hX (le_of_lt (one_sub_u_pow_pos k))) h.1

theorem near_rnd (n d : Nat) (hd : 0 < d) : Near 1 (rnd n d).val ((n : ℚ) / d) := by
  have h := rnd_bounds n d hd
  unfold Near u; simpa using h

theorem near_mul {i j x y X Y} (hx : Near i x X) (hy : Near j y Y) (hX : 0 ≤ X) (hY : 0 ≤ Y) :
    Near (i + j) (x * y) (X * Y) := by
  have hx0 := hx.nonneg hX
  have hy0 := hy.nonneg hY
  constructor
  · have := mul_le_mul hx.1 hy.1 (mul_nonneg hY (le_of_lt (one_sub_u_pow_pos j))) hx0
    calc X * Y * (1 - u) ^ (i + j) = X * (1 - u) ^ i * (Y * (1 - u) ^ j) := by rw [pow_add]; ring
      _ ≤ x * y := this
  · have := mul_le_mul hx.2 hy.2 hy0 (mul_nonneg hX (le_of_lt (one_add_u_pow_pos i)))
    calc x * y ≤ X * (1 + u) ^ i * (Y * (1 + u) ^ j) := this
      _ = X * Y * (1 + u) ^ (i + j) := by rw [pow_add]; ring

theorem near_div {i x X} (hx : Near i x X) (k : ℚ) (hk : 0 < k) : Near i (x / k) (X / k) := by
  constructor
  · calc X / k * (1 - u) ^ i = X * (1 - u) ^ i / k := by ring
      _ ≤ x / k := div_le_div_of_nonneg_right hx.1 (le_of_lt hk)
  · calc x / k ≤ X * (1 + u) ^ i / k := div_le_div_of_nonneg_right hx.2 (le_of_lt hk)
      _ = X / k * (1 + u) ^ i := by ring

theorem near_step {i z x X} (hz : Near 1 z x) (hx : Near i x X) (hX : 0 ≤ X) : Near (i + 1) z X := by
  have hx0 := hx.nonneg hX
  have h1 : (0:ℚ) ≤ 1 - u := by have := u_lt_one; linarith
  have h2 : (0:ℚ) ≤ 1 + u := by have := u_pos; linarith
  constructor
  · calc X * (1 - u) ^ (i + 1) = X * (1 - u) ^ i * (1 - u) := by rw [pow_succ]; ring
      _ ≤ x * (1 - u) := mul_le_mul_of_nonneg_right hx.1 h1
      _ = x * (1 - u) ^ 1 := by ring
      _ ≤ z := hz.1
  · calc z ≤ x * (1 + u) ^ 1 := hz.2
      _ = x * (1 + u) := by ring
      _ ≤ X * (1 + u) ^ i * (1 + u) := mul_le_mul_of_nonneg_right hx.2 h2
      _ = X * (1 + u) ^ (i + 1) := by rw [pow_succ]; ring

theorem near_ofNat (a : Nat) : Near 1 (ofNat a).val a := by
  have := near_rnd a 1 (by norm_num); simpa [ofNat] using this

/-- the argument handed to `rnd` by `mul` is the exact product -/
theorem near_fmul (x y : F) : Near 1 (mul x y).val (x.val * y.val) := by
  unfold mul
  simp only
  by_cases h : 0 ≤ x.e + y.e
  · simp only [h, if_true]
    have := near_rnd (x.m * y.m * 2 ^ (x.e + y.e).toNat) 1 (by norm_num)
    convert this using 1
    obtain ⟨k, hk⟩ := Int.eq_ofNat_of_zero_le h
    have hne : (2 : ℚ) ≠ 0 := by norm_num
    unfold F.val
    rw [show x.m * (2:ℚ) ^ x.e * (y.m * 2 ^ y.e) = x.m * y.m * (2:ℚ) ^ (x.e + y.e) by rw [zpow_add₀ hne]; ring]
    rw [hk]; simp [zpow_natCast]
  · simp only [h, if_false]
    have h' : x.e + y.e < 0 := by omega
    obtain ⟨k, hk⟩ := Int.exists_eq_neg_ofNat (le_of_lt h')
    have := near_rnd (x.m * y.m) (2 ^ (-(x.e + y.e)).toNat) (Nat.pow_pos (by norm_num))
    convert this using 1
    have hne : (2 : ℚ) ≠ 0 := by norm_num
    unfold F.val
    rw [show x.m * (2:ℚ) ^ x.e * (y.m * 2 ^ y.e) = x.m * y.m * (2:ℚ) ^ (x.e + y.e) by rw [zpow_add₀ hne]; ring]
    rw [hk]; simp [zpow_neg, zpow_natCast, div_eq_mul_inv]

theorem near_fdiv (x : F) (k : Nat) (hk : 0 < k) : Near 1 (divNat x k).val (x.val / k) := by
  unfold divNat
  have := near_rnd x.num (x.den * k) (Nat.mul_pos x.den_pos hk)
  convert this using 1
  rw [← F.num_div_den]; push_cast; rw [div_div]

theorem floor_bounds (x : F) : ((floor x : Nat) : ℚ) ≤ x.val ∧ x.val < (floor x : Nat) + 1 := by
  rw [← F.num_div_den]
  unfold floor
  have hD := x.den_pos
  have hDq : (0 : ℚ) < x.den := by exact_mod_cast hD
  have hdm := Nat.div_add_mod x.num x.den
  have hr : x.num % x.den < x.den := Nat.mod_lt _ hD
  have e : (x.num : ℚ) = x.den * (x.num / x.den : Nat) + (x.num % x.den : Nat) := by exact_mod_cast hdm.symm
  have hrq : ((x.num % x.den : Nat) : ℚ) < x.den := by exact_mod_cast hr
  have hr0 : (0 : ℚ) ≤ ((x.num % x.den : Nat) : ℚ) := by positivity
  constructor
  · rw [le_div_iff₀ hDq]; nlinarith
  · rw [div_lt_iff₀ hDq]; nlinarith

theorem feeRateTotalParts_pos : 0 < Pool.Gen.Reserve.feeRateTotalParts := by decide

/-- the exact (rational) premium `amt · rate · dur / FeeRateTotalParts` -/
def exactPremium (amt rate dur : Nat) : ℚ :=
  (amt : ℚ) * rate * dur / (Pool.Gen.Reserve.feeRateTotalParts : ℚ)

theorem exactPremium_nonneg (a r d : Nat) : 0 ≤ exactPremium a r d := by
  unfold exactPremium; positivity

theorem near_premiumF (a r d : Nat) : Near 6 (premiumF a r d).val (exactPremium a r d) := by
  have hK := feeRateTotalParts_pos
  have hKq : (0 : ℚ) < (Pool.Gen.Reserve.feeRateTotalParts : ℚ) := by exact_mod_cast hK
  unfold premiumF
  simp only
  have hA := near_ofNat a
  have hR := near_ofNat r
  have hD := near_ofNat d
  have ha0 : (0 : ℚ) ≤ a := by positivity
  have hr0 : (0 : ℚ) ≤ r := by positivity
  have hd0 : (0 : ℚ) ≤ d := by positivity
  have hAR := near_mul hA hR ha0 hr0
  have hP := near_step (near_fmul (ofNat a) (ofNat r)) hAR (by positivity)
  have hPK := near_div hP _ hKq
  have hQ := near_step (near_fdiv (mul (ofNat a) (ofNat r)) _ hK) hPK (by positivity)
  have hQD := near_mul hQ hD (by positivity) hd0
  have hT := near_step (near_fmul _ (ofNat d)) hQD (by positivity)
  unfold exactPremium
  convert hT using 1
  ring

/-- **the float premium is the exact premium up to a relative 2^-50 and the final truncation** -/
theorem premium_near (a r d : Nat) :
    exactPremium a r d * (1 - 1 / 2 ^ 50) - 1 < (premium a r d : ℚ) ∧
    (premium a r d : ℚ) ≤ exactPremium a r d * (1 + 1 / 2 ^ 50) := by
  have hN := near_premiumF a r d
  have hf := floor_bounds (premiumF a r d)
  have hE := exactPremium_nonneg a r d
  have h1 : (1 : ℚ) - 1 / 2 ^ 50 ≤ (1 - u) ^ 6 := by unfold u; norm_num
  have h2 : (1 + u) ^ 6 ≤ (1 : ℚ) + 1 / 2 ^ 50 := by unfold u; norm_num
  unfold premium
  constructor
  · have := mul_le_mul_of_nonneg_left h1 hE
    linarith [hN.1, hf.2]
  · have := mul_le_mul_of_nonneg_left h2 hE
    linarith [hN.2, hf.1]


/-! ## monotonicity of rounding -/


theorem nat_div_le_div_cross {N1 D1 N2 D2 : Nat} (h1 : 0 < D1) (h2 : 0 < D2) (h : N1 * D2 ≤ N2 * D1) :
    N1 / D1 ≤ N2 / D2 := by
  rw [Nat.le_div_iff_mul_le h2]
  have a : N1 / D1 * D1 ≤ N1 := Nat.div_mul_le_self N1 D1
  have b : N1 / D1 * D2 * D1 ≤ N2 * D1 := by nlinarith
  exact Nat.le_of_mul_le_mul_right b h1

theorem roundNE_ge_floor (N D : Nat) : N / D ≤ roundNE N D := by
  unfold roundNE; simp only; split <;> omega

theorem roundNE_le_floor_succ (N D : Nat) : roundNE N D ≤ N / D + 1 := by
  unfold roundNE; simp only; split <;> omega

/-- rounding to nearest-even is monotone in the rational argument -/
theorem roundNE_mono {N1 D1 N2 D2 : Nat} (h1 : 0 < D1) (h2 : 0 < D2) (h : N1 * D2 ≤ N2 * D1) :
    roundNE N1 D1 ≤ roundNE N2 D2 := by
  have hf := nat_div_le_div_cross h1 h2 h
  rcases Nat.lt_or_ge (N1 / D1) (N2 / D2) with hlt | hge
  · exact le_trans (roundNE_le_floor_succ N1 D1) (le_trans hlt (roundNE_ge_floor N2 D2))
  · have heq : N1 / D1 = N2 / D2 := le_antisymm hf hge
    have e1 := Nat.div_add_mod N1 D1
    have e2 := Nat.div_add_mod N2 D2
    have r1 : N1 % D1 < D1 := Nat.mod_lt _ h1
    have r2 : N2 % D2 < D2 := Nat.mod_lt _ h2
    -- fractional parts are ordered: r1 * D2 ≤ r2 * D1
    have hr : N1 % D1 * D2 ≤ N2 % D2 * D1 := by
      have : (D1 * (N1 / D1) + N1 % D1) * D2 ≤ (D2 * (N2 / D2) + N2 % D2) * D1 := by rw [e1, e2]; exact h
      rw [heq] at this
      nlinarith
    unfold roundNE
    simp only
    rw [heq]
    by_cases hup : D1 < 2 * (N1 % D1) ∨ (2 * (N1 % D1) = D1 ∧ N2 / D2 % 2 = 1)
    · have hup2 : D2 < 2 * (N2 % D2) ∨ (2 * (N2 % D2) = D2 ∧ N2 / D2 % 2 = 1) := by
        rcases hup with hgt | ⟨heq2, hodd⟩
        · left
          by_contra hc
          have : 2 * (N2 % D2) ≤ D2 := Nat.le_of_not_lt hc
          nlinarith
        · by_cases hc : D2 < 2 * (N2 % D2)
          · exact Or.inl hc
          · right
            refine ⟨?_, hodd⟩
            have : 2 * (N2 % D2) ≤ D2 := Nat.le_of_not_lt hc
            have : D1 * D2 ≤ 2 * (N2 % D2) * D1 := by nlinarith
            have : D2 ≤ 2 * (N2 % D2) := by
              have h' : D2 * D1 ≤ 2 * (N2 % D2) * D1 := by nlinarith
              exact Nat.le_of_mul_le_mul_right h' h1
            omega
      simp only [hup, hup2, if_true]; exact le_refl _
    · simp only [hup, if_false]; split <;> omega


theorem roundNE_exact (K D : Nat) (hD : 0 < D) : roundNE (K * D) D = K := by
  unfold roundNE
  simp only [Nat.mul_div_cancel _ hD, Nat.mul_mod_left]
  rw [if_neg]; omega

theorem roundNE_le_of_le {N D K : Nat} (hD : 0 < D) (h : N ≤ K * D) : roundNE N D ≤ K := by
  have := roundNE_mono (N1 := N) (D1 := D) (N2 := K * D) (D2 := D) hD hD (Nat.mul_le_mul_right D h)
  rwa [roundNE_exact K D hD] at this

theorem le_roundNE_of_le {N D K : Nat} (hD : 0 < D) (h : K * D ≤ N) : K ≤ roundNE N D := by
  have := roundNE_mono (N1 := K * D) (D1 := D) (N2 := N) (D2 := D) hD hD (Nat.mul_le_mul_right D h)
  rwa [roundNE_exact K D hD] at this

/-- the exponent chosen by `expOf` keeps the significand below 2^53 -/
theorem expOf_ub (n d : Nat) (hn : 0 < n) (hd : 0 < d) :
    ((n : ℚ) / d) / (2 : ℚ) ^ (expOf n d) < (2 : ℚ) ^ 53 := by
  have hdq : (0 : ℚ) < d := by exact_mod_cast hd
  have hne : (2 : ℚ) ≠ 0 := by norm_num
  unfold expOf
  simp only
  split
  · rename_i hlt
    have hs := scale_eq n d (expGuess n d)
    have hsd : (0 : ℚ) < scaleDen d (expGuess n d) := by exact_mod_cast scaleDen_pos hd _
    have hq : (scaleNum n (expGuess n d) : ℚ) < (2 : ℚ) ^ 52 * scaleDen d (expGuess n d) := by exact_mod_cast hlt
    have h0 : ((n : ℚ) / d) / (2 : ℚ) ^ (expGuess n d) < 2 ^ 52 := by
      rw [← hs, div_lt_iff₀ hsd]; exact hq
    have e : (2 : ℚ) ^ (expGuess n d - 1) = (2 : ℚ) ^ (expGuess n d) / 2 := by
      rw [zpow_sub_one₀ hne]; rfl
    rw [e, div_div_eq_mul_div]
    have hp := two_zpow_pos (expGuess n d)
    rw [div_lt_iff₀ hp] at h0 ⊢
    linarith
  · have hnl : (n : ℚ) < (2 : ℚ) ^ (Nat.log2 n + 1) := by exact_mod_cast (Nat.lt_log2_self (n := n))
    have hdl : (2 : ℚ) ^ (Nat.log2 d) ≤ d := by exact_mod_cast Nat.log2_self_le (Nat.pos_iff_ne_zero.mp hd)
    have e1 : (2 : ℚ) ^ (expGuess n d) = (2 : ℚ) ^ (Nat.log2 n) / ((2 : ℚ) ^ (Nat.log2 d) * 2 ^ 52) := by
      unfold expGuess
      rw [show ((Nat.log2 n : ℤ) - (Nat.log2 d : ℤ) - 52) = (Nat.log2 n : ℤ) + (-(((Nat.log2 d : ℕ) : ℤ)) + (-((52 : ℕ) : ℤ))) by push_cast; ring]
      rw [zpow_add₀ hne, zpow_add₀ hne, zpow_neg, zpow_neg, zpow_natCast, zpow_natCast, zpow_natCast]
      field_simp
    rw [e1]
    have hp1 : (0 : ℚ) < (2 : ℚ) ^ (Nat.log2 n) := by positivity
    have hp2 : (0 : ℚ) < (2 : ℚ) ^ (Nat.log2 d) := by positivity
    rw [div_div_eq_mul_div, div_lt_iff₀ hp1, div_mul_eq_mul_div, div_lt_iff₀ hdq]
    have h2 : (n : ℚ) * (2 : ℚ) ^ (Nat.log2 d) < (2 : ℚ) ^ (Nat.log2 n + 1) * d := by
      calc (n : ℚ) * (2 : ℚ) ^ (Nat.log2 d) ≤ n * d := mul_le_mul_of_nonneg_left hdl (by positivity)
        _ < (2 : ℚ) ^ (Nat.log2 n + 1) * d := mul_lt_mul_of_pos_right hnl hdq
    rw [pow_succ] at h2
    nlinarith

theorem scale_cross {n1 d1 n2 d2 : Nat} (e : ℤ) (h : n1 * d2 ≤ n2 * d1) :
    scaleNum n1 e * scaleDen d2 e ≤ scaleNum n2 e * scaleDen d1 e := by
  unfold scaleNum scaleDen
  split
  · calc n1 * (d2 * 2 ^ e.toNat) = n1 * d2 * 2 ^ e.toNat := by ring
      _ ≤ n2 * d1 * 2 ^ e.toNat := Nat.mul_le_mul_right _ h
      _ = n2 * (d1 * 2 ^ e.toNat) := by ring
  · calc n1 * 2 ^ (-e).toNat * d2 = n1 * d2 * 2 ^ (-e).toNat := by ring
      _ ≤ n2 * d1 * 2 ^ (-e).toNat := Nat.mul_le_mul_right _ h
      _ = n2 * 2 ^ (-e).toNat * d1 := by ring

/-- significand bounds of a rounded positive value: `2^52 ≤ m ≤ 2^53` -/
theorem rnd_sig_bounds (n d : Nat) (hn : 0 < n) (hd : 0 < d) :
    2 ^ 52 ≤ (rnd n d).m ∧ (rnd n d).m ≤ 2 ^ 53 := by
  have hsd := scaleDen_pos hd (expOf n d)
  have hsdq : (0 : ℚ) < scaleDen d (expOf n d) := by exact_mod_cast hsd
  have hlb := expOf_lb n d hn hd
  have hub := expOf_ub n d hn hd
  rw [← scale_eq, le_div_iff₀ hsdq] at hlb
  rw [← scale_eq, div_lt_iff₀ hsdq] at hub
  have hlbN : 2 ^ 52 * scaleDen d (expOf n d) ≤ scaleNum n (expOf n d) := by exact_mod_cast hlb
  have hubN : scaleNum n (expOf n d) < 2 ^ 53 * scaleDen d (expOf n d) := by exact_mod_cast hub
  simp only [rnd, Nat.pos_iff_ne_zero.mp hn, if_false]
  exact ⟨le_roundNE_of_le hsd hlbN, roundNE_le_of_le hsd (le_of_lt hubN)⟩

/-- **rounding is monotone**: `n1/d1 ≤ n2/d2 → rnd (n1/d1) ≤ rnd (n2/d2)` -/
theorem rnd_mono (n1 d1 n2 d2 : Nat) (hd1 : 0 < d1) (hd2 : 0 < d2) (h : n1 * d2 ≤ n2 * d1) :
    (rnd n1 d1).val ≤ (rnd n2 d2).val := by
  by_cases hn1 : n1 = 0
  · subst hn1
    have : (rnd 0 d1).val = 0 := by simp [rnd, F.val]
    rw [this]; exact F.val_nonneg _
  have hn1' : 0 < n1 := Nat.pos_of_ne_zero hn1
  have hn2' : 0 < n2 := by
    by_contra hc
    have : n2 = 0 := by omega
    subst this
    have : 0 < n1 * d2 := Nat.mul_pos hn1' hd2
    omega
  have hd1q : (0 : ℚ) < d1 := by exact_mod_cast hd1
  have hd2q : (0 : ℚ) < d2 := by exact_mod_cast hd2
  have hq : (n1 : ℚ) / d1 ≤ (n2 : ℚ) / d2 := by
    rw [div_le_div_iff₀ hd1q hd2q]; exact_mod_cast h
  have hb1 := rnd_sig_bounds n1 d1 hn1' hd1
  have hb2 := rnd_sig_bounds n2 d2 hn2' hd2
  have hl1 := expOf_lb n1 d1 hn1' hd1
  have hu2 := expOf_ub n2 d2 hn2' hd2
  have hone : (1 : ℚ) ≤ 2 := by norm_num
  have hne : (2 : ℚ) ≠ 0 := by norm_num
  simp only [rnd, hn1, Nat.pos_iff_ne_zero.mp hn2', if_false, F.val] at hb1 hb2 ⊢
  rcases lt_trichotomy (expOf n1 d1) (expOf n2 d2) with hlt | heq | hgt
  · -- smaller binade
    have hm1 : ((roundNE (scaleNum n1 (expOf n1 d1)) (scaleDen d1 (expOf n1 d1)) : ℕ) : ℚ) ≤ 2 ^ 53 := by
      exact_mod_cast hb1.2
    have hm2 : (2 : ℚ) ^ 52 ≤ ((roundNE (scaleNum n2 (expOf n2 d2)) (scaleDen d2 (expOf n2 d2)) : ℕ) : ℚ) := by
      exact_mod_cast hb2.1
    have hp1 := two_zpow_pos (expOf n1 d1)
    have hp2 := two_zpow_pos (expOf n2 d2)
    have hstep : (2 : ℚ) ^ (expOf n1 d1 + 1) ≤ (2 : ℚ) ^ (expOf n2 d2) :=
      zpow_le_zpow_right₀ hone (by omega)
    rw [zpow_add_one₀ hne] at hstep
    calc _ ≤ (2 : ℚ) ^ 53 * (2 : ℚ) ^ (expOf n1 d1) := mul_le_mul_of_nonneg_right hm1 (le_of_lt hp1)
      _ = 2 ^ 52 * ((2 : ℚ) ^ (expOf n1 d1) * 2) := by ring
      _ ≤ 2 ^ 52 * (2 : ℚ) ^ (expOf n2 d2) := mul_le_mul_of_nonneg_left hstep (by positivity)
      _ ≤ _ := mul_le_mul_of_nonneg_right hm2 (le_of_lt hp2)
  · -- same binade
    rw [heq]
    have hm := roundNE_mono (scaleDen_pos hd1 (expOf n2 d2)) (scaleDen_pos hd2 (expOf n2 d2))
      (scale_cross (expOf n2 d2) h)
    have hmq : ((roundNE (scaleNum n1 (expOf n2 d2)) (scaleDen d1 (expOf n2 d2)) : ℕ) : ℚ) ≤
        ((roundNE (scaleNum n2 (expOf n2 d2)) (scaleDen d2 (expOf n2 d2)) : ℕ) : ℚ) := by exact_mod_cast hm
    exact mul_le_mul_of_nonneg_right hmq (le_of_lt (two_zpow_pos _))
  · -- impossible: the smaller value cannot sit in a higher binade
    exfalso
    have hp1 := two_zpow_pos (expOf n1 d1)
    have hp2 := two_zpow_pos (expOf n2 d2)
    have hstep : (2 : ℚ) ^ (expOf n2 d2 + 1) ≤ (2 : ℚ) ^ (expOf n1 d1) :=
      zpow_le_zpow_right₀ hone (by omega)
    rw [zpow_add_one₀ hne] at hstep
    rw [le_div_iff₀ hp1] at hl1
    rw [div_lt_iff₀ hp2] at hu2
    nlinarith



/-! ## monotonicity of the premium -/


theorem rnd_mono_q (n1 d1 n2 d2 : Nat) (hd1 : 0 < d1) (hd2 : 0 < d2) (h : (n1 : ℚ) / d1 ≤ (n2 : ℚ) / d2) :
    (rnd n1 d1).val ≤ (rnd n2 d2).val := by
  have hd1q : (0 : ℚ) < d1 := by exact_mod_cast hd1
  have hd2q : (0 : ℚ) < d2 := by exact_mod_cast hd2
  rw [div_le_div_iff₀ hd1q hd2q] at h
  exact rnd_mono n1 d1 n2 d2 hd1 hd2 (by exact_mod_cast h)

/-- `mul x y` rounds exactly the product of the values -/
theorem mul_arg (x y : F) : ∃ n d : Nat, 0 < d ∧ mul x y = rnd n d ∧ (n : ℚ) / d = x.val * y.val := by
  have hne : (2 : ℚ) ≠ 0 := by norm_num
  have hprod : x.val * y.val = x.m * y.m * (2 : ℚ) ^ (x.e + y.e) := by
    unfold F.val; rw [zpow_add₀ hne]; ring
  by_cases h : 0 ≤ x.e + y.e
  · refine ⟨x.m * y.m * 2 ^ (x.e + y.e).toNat, 1, by norm_num, by unfold mul; simp [h], ?_⟩
    obtain ⟨k, hk⟩ := Int.eq_ofNat_of_zero_le h
    rw [hprod, hk]; simp [zpow_natCast]
  · have h' : x.e + y.e < 0 := by omega
    obtain ⟨k, hk⟩ := Int.exists_eq_neg_ofNat (le_of_lt h')
    refine ⟨x.m * y.m, 2 ^ (-(x.e + y.e)).toNat, Nat.pow_pos (by norm_num), by unfold mul; simp [h], ?_⟩
    rw [hprod, hk]; simp [zpow_neg, zpow_natCast, div_eq_mul_inv]

theorem mul_mono {x y x' y' : F} (hx : x.val ≤ x'.val) (hy : y.val ≤ y'.val) : (mul x y).val ≤ (mul x' y').val := by
  obtain ⟨n, d, hd, e, hv⟩ := mul_arg x y
  obtain ⟨n', d', hd', e', hv'⟩ := mul_arg x' y'
  rw [e, e']
  apply rnd_mono_q _ _ _ _ hd hd'
  rw [hv, hv']
  exact mul_le_mul hx hy y.val_nonneg (le_trans x.val_nonneg hx)

theorem divNat_mono {x x' : F} (k : Nat) (hk : 0 < k) (hx : x.val ≤ x'.val) :
    (divNat x k).val ≤ (divNat x' k).val := by
  unfold divNat
  apply rnd_mono_q _ _ _ _ (Nat.mul_pos x.den_pos hk) (Nat.mul_pos x'.den_pos hk)
  have hkq : (0 : ℚ) < k := by exact_mod_cast hk
  push_cast
  rw [← div_div, ← div_div, F.num_div_den, F.num_div_den]
  exact div_le_div_of_nonneg_right hx (le_of_lt hkq)

theorem ofNat_mono {a b : Nat} (h : a ≤ b) : (ofNat a).val ≤ (ofNat b).val := by
  unfold ofNat
  exact rnd_mono a 1 b 1 (by norm_num) (by norm_num) (by omega)

theorem floor_mono {x y : F} (h : x.val ≤ y.val) : floor x ≤ floor y := by
  have hx := floor_bounds x
  have hy := floor_bounds y
  have : ((floor x : Nat) : ℚ) < (floor y : Nat) + 1 := by linarith [hx.1, hy.2]
  have : floor x < floor y + 1 := by exact_mod_cast this
  omega

/-- **`LumpSumPremium` is monotone** in the amount, the rate and the duration -/
theorem premium_mono {a a' r r' d d' : Nat} (ha : a ≤ a') (hr : r ≤ r') (hd : d ≤ d') :
    premium a r d ≤ premium a' r' d' := by
  unfold premium premiumF
  exact floor_mono (mul_mono (divNat_mono _ feeRateTotalParts_pos (mul_mono (ofNat_mono ha) (ofNat_mono hr)))
    (ofNat_mono hd))



/-! ## the `Int`-valued variant -/

theorem premiumInt_of_nonneg (a rate dur : Nat) (h : premium a rate dur < 2 ^ 63) :
    premiumInt (a : Int) rate dur = (premium a rate dur : Int) := by
  unfold premiumInt
  have h1 : ¬ ((a : Int) < 0) := by omega
  have h2 : (premium a rate dur : Int) < 2 ^ 63 := by exact_mod_cast h
  simp only [Int.natAbs_natCast, h1, if_false]
  rw [if_neg]; omega

theorem premiumInt_neg (a rate dur : Nat) (h : premium a rate dur ≤ 2 ^ 63) :
    premiumInt (-(a : Int)) rate dur = -(premium a rate dur : Int) := by
  unfold premiumInt
  have h2 : (premium a rate dur : Int) ≤ 2 ^ 63 := by exact_mod_cast h
  simp only [Int.natAbs_neg, Int.natAbs_natCast]
  by_cases ha : -(a : Int) < 0
  · simp only [ha, if_true]; rw [if_neg]; omega
  · have : a = 0 := by omega
    subst this
    have h0 : premium 0 rate dur = 0 := by
      have := (premium_near 0 rate dur).2
      simp [exactPremium] at this
      exact this
    simp [h0]

end Pool.Float64
