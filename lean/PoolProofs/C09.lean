import PoolProofs.C09Lemmas
import PoolModel.Generated.C09Facts

/-!
# C09 — every tracked account is reported expired once, at or after its expiry height

Headline theorems only.  The property is stated over *histories* (arbitrary lists of `add`/`block` ops
run from the initial watcher) with a ghost record per account that is defined from the op list and the
notifications actually emitted by the model – not from the model's internal maps:

* `h`       the height of the account's latest (= live, not superseded) registration,
* `wasDue`  whether `best ≥ h` has held at some moment since that registration (incl. the registration),
* `count`   the number of notifications for the account since that registration.

`C09_exactly_once` : after every history, for every account, `count = if wasDue then 1 else 0`.
As this holds after *every* prefix it says: nothing before the first moment the registration is due
(never early), exactly one notification at the very op at which it first becomes due (no later than the
processing of the block that makes it due), none afterwards, and a superseded registration (ghost
reset by the next `add`) gets nothing further.  Accounts never registered are never notified.
-/
set_option linter.unusedSimpArgs false
namespace Pool.C09

structure G where
  h : Nat
  wasDue : Bool
  count : Nat
deriving Repr, DecidableEq

/-- ghost update from the op, the best height after it, and the notifications it emitted -/
def gstep (g : Key → Option G) (bestAfter : Nat) (op : Op) (out : List (Key × Nat)) : Key → Option G :=
  fun k =>
    let upd : Option G := (g k).map fun x =>
      { x with wasDue := x.wasDue || decide (x.h ≤ bestAfter), count := x.count + cnt out k }
    match op with
    | .add k' h => if k = k' then some { h := h, wasDue := decide (h ≤ bestAfter), count := cnt out k } else upd
    | .block _ => upd

/-- run a history with the ghost alongside -/
def grun (sel : Sel) : St → (Key → Option G) → List Op → St × (Key → Option G)
  | s, g, [] => (s, g)
  | s, g, op :: ops =>
    let r := step sel s op
    grun sel r.1 (gstep g r.1.best op r.2) ops

/-- ghost/representation coupling used as the inductive invariant -/
def Coupled (s : St) (g : Key → Option G) : Prop :=
  Inv s ∧ ∀ k, match g k with
    | none => s.exp k = none
    | some x => (x.wasDue = true → s.exp k = none ∧ x.count = 1) ∧
                (x.wasDue = false → s.exp k = some x.h ∧ x.count = 0)

theorem coupled_init : Coupled init (fun _ => none) := ⟨inv_init, fun _ => rfl⟩

theorem coupled_step (s : St) (g : Key → Option G) (op : Op) (hc : Coupled s g) :
    Coupled (step selUpTo s op).1 (gstep g (step selUpTo s op).1.best op (step selUpTo s op).2) := by
  obtain ⟨hI, hg⟩ := hc
  refine ⟨inv_step s op hI, ?_⟩
  intro k
  have hgk := hg k
  cases op with
  | add k0 h0 =>
    by_cases hle : h0 ≤ s.best
    · -- immediate hand-off
      by_cases hk : k = k0
      · subst hk
        simp [step, gstep, hle, erase, cnt]
      · have hk' : ¬ k0 = k := fun h => hk h.symm
        cases hgv : g k with
        | none => simp [hgv] at hgk; simp [step, gstep, hle, erase, hk, hgv, hgk]
        | some x =>
          simp only [hgv] at hgk
          cases hw : x.wasDue with
          | true => have := hgk.1 hw; simp [step, gstep, hle, erase, hk, hk', hgv, hw, this, cnt]
          | false =>
            have := hgk.2 hw
            have hb := (hI k x.h this.1).2
            have : ¬ x.h ≤ s.best := by omega
            simp [step, gstep, hle, erase, hk, hk', hgv, hw, *, cnt]
    · by_cases hk : k = k0
      · subst hk
        simp [step, gstep, hle, insert, cnt]
      · cases hgv : g k with
        | none => simp [hgv] at hgk; simp [step, gstep, hle, insert, hk, hgv, hgk]
        | some x =>
          simp only [hgv] at hgk
          cases hw : x.wasDue with
          | true => have := hgk.1 hw; simp [step, gstep, hle, insert, hk, hgv, hw, this, cnt]
          | false =>
            have := hgk.2 hw
            have hb := (hI k x.h this.1).2
            have : ¬ x.h ≤ s.best := by omega
            simp [step, gstep, hle, insert, hk, hgv, hw, *, cnt]
  | block b =>
    have hexp := visit_exp selUpTo b s.perH s.exp k
    have hcnt := visit_cnt selUpTo b s.perH s.exp k
    cases hgv : g k with
    | none =>
      simp only [hgv] at hgk
      simp only [hgk] at hexp
      simp [step, gstep, hgv, hexp]
    | some x =>
      simp only [hgv] at hgk
      cases hw : x.wasDue with
      | true =>
        have h1 := hgk.1 hw
        simp only [h1.1] at hexp hcnt
        simp [step, gstep, hgv, hw, hexp, hcnt, h1.2]
      | false =>
        have h2 := hgk.2 hw
        have hmem := (hI k x.h h2.1).1
        simp only [h2.1] at hexp hcnt
        by_cases hd : x.h ≤ b
        · have hsel : selUpTo x.h b = true := by simp [selUpTo, hd]
          simp only [hmem, hsel, and_self, if_true] at hexp hcnt
          simp [step, gstep, hgv, hw, hexp, hcnt, h2.2, hd]
        · have hsel : ¬ selUpTo x.h b = true := by simp [selUpTo, hd]
          simp only [hsel, and_false, if_false] at hexp hcnt
          simp [step, gstep, hgv, hw, hexp, hcnt, h2.2, hd]

theorem coupled_grun (s : St) (g : Key → Option G) (ops : List Op) (hc : Coupled s g) :
    Coupled (grun selUpTo s g ops).1 (grun selUpTo s g ops).2 := by
  induction ops generalizing s g with
  | nil => exact hc
  | cons op ops ih => exact ih _ _ (coupled_step s g op hc)

/-- **C09, main theorem.**  After every history, every account's live registration has been notified
exactly once if it has ever been due since it was made, and not at all otherwise. -/
theorem C09_exactly_once (ops : List Op) (k : Key) (x : G)
    (hx : (grun selUpTo init (fun _ => none) ops).2 k = some x) :
    x.count = if x.wasDue then 1 else 0 := by
  have hc := (coupled_grun init _ ops coupled_init).2 k
  rw [hx] at hc
  cases hw : x.wasDue with
  | true => simpa using (hc.1 hw).2
  | false => simpa using (hc.2 hw).2

/-- **C09, never early** (one-step form, valid at every reachable state): a notification emitted by an op
is for an account whose live registration height is at or below the best height after that op. -/
theorem C09_never_early (ops : List Op) (op : Op) (k : Key) (r : Nat)
    (hm : (k, r) ∈ (step selUpTo (final selUpTo init ops) op).2) :
    ∃ h, h ≤ (step selUpTo (final selUpTo init ops) op).1.best ∧
      ((op = .add k h) ∨ ((final selUpTo init ops).exp k = some h ∧ ∃ b, op = .block b)) := by
  cases op with
  | add k0 h0 =>
    unfold step at hm ⊢
    by_cases hle : h0 ≤ (final selUpTo init ops).best
    · simp only [hle, if_true, List.mem_singleton, Prod.mk.injEq] at hm ⊢
      exact ⟨h0, hle, Or.inl (by rw [hm.1])⟩
    · simp [hle] at hm
  | block b =>
    simp only [step] at hm ⊢
    have := visit_mem selUpTo b _ _ k r hm
    exact ⟨r, by simpa [selUpTo] using this.2, Or.inr ⟨this.1, b, rfl⟩⟩

/-- accounts that were never registered are never notified -/
theorem C09_unregistered_silent (s : St) (g : Key → Option G) (op : Op) (k : Key)
    (hc : Coupled s g) (hn : g k = none) (hop : ∀ h, op ≠ .add k h) :
    cnt (step selUpTo s op).2 k = 0 := by
  have hk := hc.2 k
  rw [hn] at hk
  cases op with
  | add k0 h0 =>
    have hne : ¬ k0 = k := fun h => hop h0 (by rw [h])
    unfold step
    by_cases hle : h0 ≤ s.best <;> simp [hle, cnt, hne]
  | block b =>
    simp only [step]
    rw [visit_cnt]; simp [hk]

/-- **Visiting order is irrelevant** (Go map iteration order): two entry lists with the same members give
the same resulting expiry map and the same number of notifications per account. -/
theorem C09_visit_order_irrelevant (sel : Sel) (b : Nat) (l l' : List (Nat × Key)) (e : Key → Option Nat)
    (hperm : ∀ p, p ∈ l ↔ p ∈ l') (k : Key) :
    (visit sel b l e).1 k = (visit sel b l' e).1 k ∧
    cnt (visit sel b l e).2 k = cnt (visit sel b l' e).2 k := by
  rw [visit_exp, visit_exp, visit_cnt, visit_cnt]
  cases e k with
  | none => exact ⟨rfl, rfl⟩
  | some h => simp [hperm (h, k)]

/-- **Tie to the source (regenerated facts).**  The model's atomic-op granularity and its three guards are
those of the current `account/watcher/watcher.go`: both entry points hold the mutex for their whole body
(and the mutex is touched nowhere else, so no callee releases it midway),
`NewBlock` visits the buckets with `height <= bestHeight` (`selUpTo`), `AddAccountExpiration` hands off
immediately iff `expiry <= bestHeight`, and `overdueExpirations` skips an entry iff the key is untracked or
tracked for another height.  Re-checked against the Go source on every run. -/
theorem C09_source_shape :
    Gen.C09.newBlockLocked = true ∧ Gen.C09.addLocked = true ∧
    Gen.C09.bucketCond = "height <= bestHeight" ∧
    Gen.C09.addExpiredCond = "expiry <= bestHeight" ∧
    Gen.C09.overdueSkipCond = "!$ok || $cur != $height" ∧
    Gen.C09.mutexUses = ["NewBlock:w.expirationsMtx.Lock()", "NewBlock:defer w.expirationsMtx.Unlock()",
      "AddAccountExpiration:w.expirationsMtx.Lock()", "AddAccountExpiration:defer w.expirationsMtx.Unlock()"] := by
  decide

/-! ## The rule of the pinned tree (only the bucket of exactly the new height) violates the property -/

/-- witness history: register (account 1, height 5) before any block is known, then block 10 -/
def witnessOps : List Op := [.add 1 5, .block 10]

/-- Under the original rule the registration is due after `block 10` but was never notified. -/
theorem C09_exact_rule_false :
    ∃ x, (grun selExact init (fun _ => none) witnessOps).2 1 = some x ∧
      x.wasDue = true ∧ x.count = 0 := by
  refine ⟨⟨5, true, 0⟩, ?_, rfl, rfl⟩
  decide

/-- …whereas the current rule notifies it (non-vacuity of `C09_exactly_once`: `wasDue` reachable). -/
example : (grun selUpTo init (fun _ => none) witnessOps).2 1 = some ⟨5, true, 1⟩ := by decide

/-- non-vacuity: a pending, not yet due registration (count 0) and a superseded one -/
example : (grun selUpTo init (fun _ => none) [.block 3, .add 1 5, .add 1 9, .block 6]).2 1
    = some ⟨9, false, 0⟩ := by decide


/-! ## Refinement to the one-registration-per-account specification -/

/-- abstraction map: the spec state is the best height and the `expirations` map; the per-height buckets are
representation only -/
def abs (s : St) : Spec := { best := s.best, pending := s.exp }

/-- **C09 / refinement, state**: under the representation invariant every watcher op commutes with the
abstraction – the watcher *is* the spec "at most one live registration per account, gone once due". -/
theorem C09_refines_state (s : St) (op : Op) (hI : Inv s) :
    abs (step selUpTo s op).1 = (abs s).step op := by
  cases op with
  | add k h =>
    unfold step Spec.step abs
    by_cases hle : h ≤ s.best <;> simp [hle]
  | block b =>
    unfold step Spec.step abs
    simp only [Spec.mk.injEq, true_and]
    funext k
    rw [visit_exp]
    cases hk : s.exp k with
    | none => rfl
    | some h =>
      have hm := (hI k h hk).1
      simp [hm, selUpTo]

/-- **C09 / refinement, outputs**: an op notifies account `k` exactly once if the spec fires `k` at that op, and
not at all otherwise. -/
theorem C09_refines_fires (s : St) (op : Op) (hI : Inv s) (k : Key) :
    (Spec.fires (abs s) op k → cnt (step selUpTo s op).2 k = 1) ∧
    (¬ Spec.fires (abs s) op k → cnt (step selUpTo s op).2 k = 0) := by
  cases op with
  | add k0 h =>
    unfold step Spec.fires abs
    by_cases hle : h ≤ s.best
    · by_cases hk : k0 = k
      · subst hk; simp [hle, cnt]
      · have hk' : ¬ k = k0 := fun e => hk e.symm
        simp [hle, cnt, hk, hk']
    · simp [hle, cnt]
  | block b =>
    unfold step Spec.fires abs
    simp only
    rw [visit_cnt]
    cases hk : s.exp k with
    | none => simp
    | some h =>
      have hm := (hI k h hk).1
      by_cases hb : h ≤ b <;> simp [hm, selUpTo, hb]

/-- lifted to every history from the initial state: spec state and implementation state stay in step -/
theorem C09_refines_run (ops : List Op) :
    abs (final selUpTo init ops) = Spec.final Spec.init ops := by
  have gen : ∀ (s : St), Inv s → abs (final selUpTo s ops) = Spec.final (abs s) ops := by
    induction ops with
    | nil => intro s _; rfl
    | cons op ops ih =>
      intro s hI
      simp only [final, Spec.final]
      rw [ih _ (inv_step s op hI), C09_refines_state s op hI]
  exact gen init inv_init

end Pool.C09
