import PoolProofs.C07Lemmas
/-! Weight lemmas for C07: the estimator's weight equals the full weight of the transaction actually built. -/
set_option linter.unusedSimpArgs false
set_option linter.unusedVariables false
namespace Pool.C07
open Pool.Gen.C07

/-- script length of each class accepted by `ParsePkScript` -/
def classLen : ScriptClass → Nat
  | .pubKeyHash => 25 | .scriptHash => 23 | .witnessV0PubKeyHash => 22
  | .witnessV0ScriptHash => 34 | .witnessV1Taproot => 34 | .unsupported => 0

theorem classify_length (s : Script) (h : classify s ≠ .unsupported) : s.length = classLen (classify s) := by
  unfold classify at h ⊢
  split
  · rename_i h1; simp only [Bool.and_eq_true, beq_iff_eq] at h1; simp [classLen, h1.1.1]
  · split
    · rename_i _ h1; simp only [Bool.and_eq_true, beq_iff_eq] at h1; simp [classLen, h1.1.1]
    · split
      · rename_i _ _ h1; simp only [Bool.and_eq_true, beq_iff_eq] at h1; simp [classLen, h1.1]
      · split
        · rename_i _ _ _ h1; simp only [Bool.and_eq_true, beq_iff_eq] at h1; simp [classLen, h1.1]
        · split
          · rename_i _ _ _ _ h1; simp only [Bool.and_eq_true, beq_iff_eq] at h1; simp [classLen, h1.1]
          · rename_i h1 h2 h3 h4 h5; simp [h1, h2, h3, h4, h5] at h

/-- (R) every `case` of the output switch of `valueAfterAccountUpdate` adds exactly the serialised size of an
output of that class – checked over the regenerated table and lnd constants -/
theorem vauSwitch_sizes (c : ScriptClass) :
    (vauOutputSwitch.find? (·.1 == c.name)).all (fun e => e.2 == 9 + classLen c) = true := by
  cases c <;> decide

/-- (R) … and of `OutputWithFee.CloseOutputs`, where moreover EVERY class `ParsePkScript` accepts has a case -/
theorem closeSwitch_sizes (c : ScriptClass) (hc : c ≠ .unsupported) :
    ∃ e, closeOutputSwitch.find? (·.1 == c.name) = some e ∧ e.2.1 = 9 + classLen c ∧ e.2.2 = classLen c := by
  cases c with
  | unsupported => exact absurd rfl hc
  | _ => exact ⟨_, rfl, rfl, rfl⟩

theorem serializeSize_of_len (o : TxOut) (h : o.script.length < 253) : o.serializeSize = 9 + o.script.length := by
  simp [TxOut.serializeSize, varIntSize, h] <;> omega

theorem vauLoop_shape {t : Twe} {tot : Int} {os : List TxOut} {t' : Twe} {tot' : Int}
    (h : vauLoop t tot os = .ok (t', tot')) :
    t'.hasWitness = t.hasWitness ∧ t'.inputCount = t.inputCount ∧ t'.inputSize = t.inputSize ∧
    t'.inputWitnessSize = t.inputWitnessSize ∧ t'.outputCount = t.outputCount + os.length ∧
    t'.outputSize = t.outputSize + (os.map TxOut.serializeSize).sum := by
  induction os generalizing t tot with
  | nil => simp [vauLoop] at h; simp [← h.1]
  | cons o os ih =>
    simp only [vauLoop] at h
    split at h
    · cases h
    · rename_i c hc
      split at h
      · cases h
      · rename_i e he
        have hne : classify o.script ≠ .unsupported := by
          intro hx; exact hc hx
        have hlen := classify_length o.script hne
        have hsz := vauSwitch_sizes (classify o.script)
        rw [he] at hsz
        simp only [Option.all_some, beq_iff_eq] at hsz
        have hser : o.serializeSize = e.2 := by
          rw [serializeSize_of_len, hsz, hlen]
          rw [hlen]; cases classify o.script <;> simp [classLen]
        obtain ⟨h1, h2, h3, h4, h5, h6⟩ := ih h
        simp only [Twe.addOutput] at h1 h2 h3 h4 h5 h6
        refine ⟨h1, h2, h3, h4, ?_, ?_⟩
        · simp [h5]; omega
        · simp [h6, hser]; omega

theorem strippedSize_single (i : TxIn) (hr : i.redeemLen = 0) (outs : List TxOut) (lock : Nat) :
    (Tx.mk [i] outs lock).strippedSize = 8 + 1 + 41 + varIntSize outs.length + (outs.map TxOut.serializeSize).sum := by
  simp [Tx.strippedSize, hr, varIntSize]

/-- the weight `valueAfterAccountUpdate` estimates is the full weight of the transaction `createSpendTx` builds
from the re-created account output (34-byte script) and the requested outputs -/
theorem vau_weight_eq {so : ScriptOf} {a : Account} {w : Nat} {outs : List TxOut} {t : Twe} {tot : Int}
    (hl : vauLoop ((({} : Twe).addWitnessInput w).addOutput baseAccountOutputSize) 0 outs = .ok (t, tot))
    (newOut : TxOut) (hlen : newOut.script.length = 34) (lock : Nat) :
    t.weight = fullWeight { createSpendTx so a (newOut :: outs) with lockTime := lock } w := by
  obtain ⟨h1, h2, h3, h4, h5, h6⟩ := vauLoop_shape hl
  have hp := sortBy_perm outLt (newOut :: outs)
  have hlenp : (sortBy outLt (newOut :: outs)).length = outs.length + 1 := by
    rw [hp.length_eq]; simp
  have hsum := sum_map_perm_nat TxOut.serializeSize hp
  have hnew : newOut.serializeSize = 43 := by
    rw [serializeSize_of_len _ (by omega), hlen]
  have hb : baseAccountOutputSize = 43 := by decide
  have c1 : BaseTxSize = 8 := by decide
  have c2 : InputSize = 41 := by decide
  have c3 : witnessScaleFactor = 4 := by decide
  have c4 : WitnessHeaderSize = 2 := by decide
  simp only [Twe.addOutput, Twe.addWitnessInput] at h1 h2 h3 h4 h5 h6
  have h5' : t.outputCount = outs.length + 1 := by omega
  have v1 : varIntSize 1 = 1 := by decide
  simp only [fullWeight, createSpendTx, Account.txIn]
  rw [strippedSize_single _ rfl]
  simp only [Twe.weight, h1, h2, h3, h4, h5', h6, hlenp, hsum, List.map_cons, List.sum_cons, hnew, hb, c1, c2, c3, c4,
    if_true, v1]
  omega

end Pool.C07

namespace Pool.C07
open Pool.Gen.C07

/-- account scripts are 34 bytes (P2WSH / P2TR) – the only thing assumed of the uninterpreted script function -/
def ScriptLen34 (so : ScriptOf) : Prop := ∀ v e c, (so v e c).length = 34

/-! ### `createNewAccountOutput` and the stored account -/

theorem cnao_fields (so : ScriptOf) (a : Account) (v : Int) (ne : Option UInt32) (nv : Nat) :
    (createNewAccountOutput so a v ne nv).1 = (applyMods a (createNewAccountOutput so a v ne nv).2).output so ∧
    (applyMods a (createNewAccountOutput so a v ne nv).2).value = v ∧
    (applyMods a (createNewAccountOutput so a v ne nv).2).batchCtr = a.batchCtr + 1 ∧
    (applyMods a (createNewAccountOutput so a v ne nv).2).expiry = ne.getD a.expiry ∧
    (applyMods a (createNewAccountOutput so a v ne nv).2).version = max a.version nv ∧
    (applyMods a (createNewAccountOutput so a v ne nv).2).state = a.state ∧
    (applyMods a (createNewAccountOutput so a v ne nv).2).outPoint = a.outPoint := by
  unfold createNewAccountOutput
  cases ne <;> by_cases hv : nv > a.version <;>
    simp [applyMods, Modifier.apply, hv, Nat.max_def] <;> omega

/-- the account stored by an accepted modification: the re-created account plus state, outpoint, height hint -/
theorem stored_fields (a : Account) (ms : List Modifier) (s idx : Nat) (best : UInt32) :
    applyMods a (ms ++ [.state s] ++ [.outPoint idx] ++ [.heightHint best, .latestTx])
      = { applyMods a ms with state := s, outPoint := ⟨selfHash, idx⟩, heightHint := best } := by
  simp [applyMods, List.foldl_append, Modifier.apply]

theorem output_state_irrelevant (so : ScriptOf) (a : Account) (ms : List Modifier) (s : Nat) :
    (applyMods a (ms ++ [.state s])).output so = (applyMods a ms).output so := by
  simp [applyMods, List.foldl_append, Modifier.apply, Account.output]

theorem mem_of_getElem?_eq {α} {l : List α} {i : Nat} {x : α} (h : l[i]? = some x) : x ∈ l :=
  List.mem_of_getElem? h

end Pool.C07
