import PoolProofs.C12Lemmas

/-!
# C12 — an order's signature covers all its terms; the terms sent are those signed

Headline theorems only.  SHA-256 is an arbitrary function `H`: "the digest changes whenever a term changes"
is proved as injectivity of the hashed preimage in the terms of the version
(`C12_preimage_injective_partial`); it becomes the English claim under collision resistance of SHA-256.
The preimage is built from the `codec.WriteElements` argument lists REGENERATED from `order/interfaces.go`,
the transmitted fields from the composite literals REGENERATED from `auctioneer/client.go`; the `decide`
obligations over those tables are re-checked against the current source on every run.
-/
set_option linter.unusedSimpArgs false
namespace Pool.C12
open Pool.Digest

/-! ## (R) the regenerated argument lists contain the terms each version defines -/

def askRequired (v : Nat) : List String :=
  ["a.nonce[:]", "uint32(a.Version)", "a.FixedRate", "a.Amt", "a.LeaseDuration", "uint64(a.MaxBatchFeeRate)"] ++
  (if v ≥ Gen.C12.orderVersionNodeTierMinMatch then ["uint32(a.MinUnitsMatch)"] else []) ++
  (if v ≥ Gen.C12.orderVersionChannelType then ["uint8(a.ChannelType)"] else [])

def bidRequired (v : Nat) : List String :=
  ["b.nonce[:]", "uint32(b.Version)", "b.FixedRate", "b.Amt", "b.LeaseDuration", "uint64(b.MaxBatchFeeRate)"] ++
  (if v ≥ Gen.C12.orderVersionNodeTierMinMatch then ["uint32(b.MinNodeTier)", "uint32(b.MinUnitsMatch)"] else []) ++
  (if v ≥ Gen.C12.orderVersionSelfChanBalance then ["uint64(b.SelfChanBalance)"] else []) ++
  (if v ≥ Gen.C12.orderVersionSidecarChannel then ["isSidecar"] else []) ++
  (if v ≥ Gen.C12.orderVersionChannelType then ["uint8(b.ChannelType)"] else [])

def allVersions : List Nat :=
  [Gen.C12.orderVersionDefault, Gen.C12.orderVersionNodeTierMinMatch, Gen.C12.orderVersionLeaseDurationBuckets,
   Gen.C12.orderVersionSelfChanBalance, Gen.C12.orderVersionSidecarChannel, Gen.C12.orderVersionChannelType]

def covers (f : Gen.DigestFn) (required : Nat → List String) : Prop :=
  ∀ v ∈ allVersions, ∃ c ∈ f.cases, v ∈ c.versions ∧ required v ⊆ c.args.map (·.expr)

instance (f : Gen.DigestFn) (required : Nat → List String) : Decidable (covers f required) := by
  unfold covers; exact inferInstance

/-- For every side × every order version 0..5 the `case` of the digest switch handling that version hashes
every term the version defines (nonce, version, rate, amount, lease duration, max batch fee rate; min match
and node tier from v1; self channel balance from v3; sidecar flag from v4; channel type from v5). -/
theorem C12_required_terms_present :
    covers Gen.C12.askDigest askRequired ∧ covers Gen.C12.bidDigest bidRequired := by decide

/-! ## (R) the digest functions and SubmitOrder's locals are as modelled -/

def dummy : Order :=
  { isBid := true, nonce := [], version := 0, state := 0, fixedRate := 0, amt := 0, units := 0,
    unitsUnfulfilled := 0, maxBatchFeeRate := 0, acctKey := [], leaseDuration := 0, minUnitsMatch := 0,
    channelType := 0, auctionType := 0, isPublic := false, minNodeTier := 0, selfChanBalance := 0,
    sidecar := false, unannounced := false, zeroConf := false, announcement := 0, confirmation := 0 }

def argOK (parse : String → Option Term) (a : Gen.DigestArg) : Bool :=
  match parse a.expr with
  | none => false
  | some tm =>
    some (encTerm dummy tm).widthClass == writerWidth Gen.Codec.codecCases a.goType &&
    (tm != .nonce || a.goType == "[32]byte[:]")

def sidecarPre : List String := ["var isSidecar uint8", "if b.SidecarTicket != nil { isSidecar = 1 }"]

def fnOK (parse : String → Option Term) (f : Gen.DigestFn) (tag : String) : Bool :=
  f.head == [] && f.tag == tag &&
  f.cases.all (fun c =>
    -- the only other statements define the sidecar flag, exactly when it is an element
    c.pre == (if c.args.any (·.expr == "isSidecar") then sidecarPre else []) && c.args.all (argOK parse)) &&
  f.dflt == ["error"] && f.tail == ["sha256"]

/-- Semantic shape of `Ask.Digest` / `Bid.Digest` (facts from the symbolic evaluation, independent of how the
element lists are assembled) and of what `SubmitOrder` relies on = what the model assumes: element list
selected by the order version with the element widths the model uses, `isSidecar` defined as
`SidecarTicket != nil` exactly where it is an element, no guard, unknown version = error, SHA-256 of the
written buffer; units ↔ satoshis by the base unit; no order-term field assigned after the literals; an
unmapped channel type / node tier is an error, an unmapped auction type is the zero value. (Which value
expression feeds which transmitted field is pinned by `serverOrderMap_eq` / `serverAskMap_eq` /
`serverBidMap_eq`, over canonical expressions in which names of locals and helpers do not occur.) -/
theorem C12_code_shape_as_modelled :
    fnOK parseAskExpr Gen.C12.askDigest "a.Kit.Version" = true ∧
    fnOK parseBidExpr Gen.C12.bidDigest "b.Kit.Version" = true ∧
    Gen.C12.supplyToSatoshis = ["return btcutil.Amount(uint64(s) * uint64(BaseSupplyUnit))"] ∧
    Gen.C12.supplyFromSats = ["return SupplyUnit(uint64(sats) / uint64(BaseSupplyUnit))"] ∧
    -- no field that carries an order term is assigned after the literals
    Gen.C12.submitFieldAssigns.all (fun a => (parseWField a.1).all opaqueField) = true ∧
    Gen.C12.submitChannelTypeDefaultIsError = true ∧ Gen.C12.marshallNodeTierDefaultIsError = true ∧
    Gen.C12.submitAuctionTypeDefaultIsError = false := by decide

/-! ## the digest preimage determines every term of the version (⇒ "the digest changes") -/

/-- **Preimage injectivity.**  Two asks (or two bids) within the Go field types whose minimum match fits
32 bits (`MinMatchFits32`, the cast guard of `uint32(MinUnitsMatch)`) and whose `Digest()` hashes the same
bytes agree on every term their version defines.  Contrapositive: changing any single term of the version
changes the hashed bytes, hence — up to a SHA-256 collision — the digest the trader signs. -/
theorem C12_preimage_injective_partial (o o' : Order) (h : TypeWF o) (h' : TypeWF o')
    (hm : MinMatchFits32 o) (hm' : MinMatchFits32 o') (hside : o.isBid = o'.isBid) (p : Bytes)
    (hp : digestPreimage o = .ok p) (hp' : digestPreimage o' = .ok p) : terms o = terms o' := by
  obtain ⟨i1, i2, i3, i4, i5, i6, i7, i8, i9, i10, i11⟩ := encTerm_inj h h'
  unfold digestPreimage at hp hp'
  rw [← hside] at hp'
  cases hb : o.isBid with
  | false =>
    have hb' : o'.isBid = false := by rw [← hside, hb]
    simp only [hb, Bool.false_eq_true, if_false, askTable_lit] at hp hp'
    obtain ⟨hv, L, hl, hall⟩ := preimageOf_inj askLit lit_start.1 h h' hm hm' hp hp'
    rw [ask_lookup] at hl
    by_cases v0 : o.version = 0
    · simp only [v0, if_true, Option.some.injEq] at hl; subst hl
      have v0' : o'.version = 0 := by omega
      simp [terms, hb, hb', v0, v0', i1 (hall _ (by simp)), i3 (hall _ (by simp)), i4 (hall _ (by simp)),
        i5 (hall _ (by simp)), i6 (hall _ (by simp))]
    · by_cases v4 : o.version ≤ 4
      · simp only [v0, v4, if_true, if_false, Option.some.injEq] at hl; subst hl
        have g1 : o.version ≥ 1 := by omega
        have g1' : o'.version ≥ 1 := by omega
        have l5 : ¬ o.version ≥ 5 := by omega
        have l5' : ¬ o'.version ≥ 5 := by omega
        simp [terms, hb, hb', g1, g1', l5, l5', hv.symm, i1 (hall _ (by simp)), i3 (hall _ (by simp)),
          i4 (hall _ (by simp)), i5 (hall _ (by simp)), i6 (hall _ (by simp)), i7 (hall _ (by simp))]
      · by_cases v5 : o.version = 5
        · simp only [v0, v4, v5, if_true, if_false, Option.some.injEq] at hl
          have hl : [Term.nonce, .version, .fixedRate, .amt, .leaseDuration, .maxBatchFeeRate, .minUnitsMatch32,
            .channelType] = L := by simpa using hl
          subst hl
          have v5' : o'.version = 5 := by omega
          simp [terms, hb, hb', v5, v5', i1 (hall _ (by simp)), i3 (hall _ (by simp)),
            i4 (hall _ (by simp)), i5 (hall _ (by simp)), i6 (hall _ (by simp)), i7 (hall _ (by simp)),
            i8 (hall _ (by simp))]
        · simp [v0, v4, v5] at hl
  | true =>
    have hb' : o'.isBid = true := by rw [← hside, hb]
    simp only [hb, if_true, bidTable_lit] at hp hp'
    obtain ⟨hv, L, hl, hall⟩ := preimageOf_inj bidLit lit_start.2 h h' hm hm' hp hp'
    rw [bid_lookup] at hl
    by_cases v0 : o.version = 0
    · simp only [v0, if_true, Option.some.injEq] at hl; subst hl
      have v0' : o'.version = 0 := by omega
      simp [terms, hb, hb', v0, v0', i1 (hall _ (by simp)), i3 (hall _ (by simp)), i4 (hall _ (by simp)),
        i5 (hall _ (by simp)), i6 (hall _ (by simp))]
    · by_cases v2 : o.version ≤ 2
      · simp only [v0, v2, if_true, if_false, Option.some.injEq] at hl; subst hl
        have g1 : o.version ≥ 1 := by omega
        have g1' : o'.version ≥ 1 := by omega
        have l3 : ¬ o.version ≥ 3 := by omega
        have l3' : ¬ o'.version ≥ 3 := by omega
        have l4 : ¬ o.version ≥ 4 := by omega
        have l4' : ¬ o'.version ≥ 4 := by omega
        have l5 : ¬ o.version ≥ 5 := by omega
        have l5' : ¬ o'.version ≥ 5 := by omega
        simp [terms, hb, hb', g1, g1', l3, l3', l4, l4', l5, l5', hv.symm, i1 (hall _ (by simp)),
          i3 (hall _ (by simp)), i4 (hall _ (by simp)), i5 (hall _ (by simp)), i6 (hall _ (by simp)),
          i7 (hall _ (by simp)), i9 (hall _ (by simp))]
      · by_cases v3 : o.version = 3
        · simp only [v0, v2, v3, if_true, if_false, Option.some.injEq] at hl
          have hl : [Term.nonce, .version, .fixedRate, .amt, .leaseDuration, .maxBatchFeeRate, .minNodeTier,
            .minUnitsMatch32, .selfChanBalance] = L := by simpa using hl
          subst hl
          have v3' : o'.version = 3 := by omega
          simp [terms, hb, hb', v3, v3', i1 (hall _ (by simp)), i3 (hall _ (by simp)), i4 (hall _ (by simp)),
            i5 (hall _ (by simp)), i6 (hall _ (by simp)), i7 (hall _ (by simp)), i9 (hall _ (by simp)),
            i10 (hall _ (by simp))]
        · by_cases v4 : o.version = 4
          · simp only [v0, v2, v3, v4, if_true, if_false, Option.some.injEq] at hl
            have hl : [Term.nonce, .version, .fixedRate, .amt, .leaseDuration, .maxBatchFeeRate, .minNodeTier,
              .minUnitsMatch32, .selfChanBalance, .isSidecar] = L := by simpa using hl
            subst hl
            have v4' : o'.version = 4 := by omega
            simp [terms, hb, hb', v4, v4', i1 (hall _ (by simp)), i3 (hall _ (by simp)),
              i4 (hall _ (by simp)), i5 (hall _ (by simp)), i6 (hall _ (by simp)), i7 (hall _ (by simp)),
              i9 (hall _ (by simp)), i10 (hall _ (by simp)), i11 (hall _ (by simp))]
          · by_cases v5 : o.version = 5
            · simp only [v0, v2, v3, v4, v5, if_true, if_false, Option.some.injEq] at hl
              have hl : [Term.nonce, .version, .fixedRate, .amt, .leaseDuration, .maxBatchFeeRate, .minNodeTier,
                .minUnitsMatch32, .selfChanBalance, .isSidecar, .channelType] = L := by simpa using hl
              subst hl
              have v5' : o'.version = 5 := by omega
              simp [terms, hb, hb', v5, v5', i1 (hall _ (by simp)), i3 (hall _ (by simp)),
                i4 (hall _ (by simp)), i5 (hall _ (by simp)), i6 (hall _ (by simp)), i7 (hall _ (by simp)),
                i8 (hall _ (by simp)), i9 (hall _ (by simp)), i10 (hall _ (by simp)), i11 (hall _ (by simp))]
            · simp [v0, v2, v3, v4, v5] at hl


/-- The statement without the cast guard: injectivity for all orders within the Go field types. -/
def C12_full_statement : Prop :=
  ∀ (o o' : Order), TypeWF o → TypeWF o' → o.isBid = o'.isBid → ∀ p : Bytes,
    digestPreimage o = .ok p → digestPreimage o' = .ok p → terms o = terms o'

def guardWitness (minUnits : Nat) : Order :=
  { isBid := false, nonce := List.replicate 32 7, version := 2, state := 0, fixedRate := 1000, amt := 500000,
    units := 5, unitsUnfulfilled := 5, maxBatchFeeRate := 253, acctKey := List.replicate 33 2,
    leaseDuration := 2016, minUnitsMatch := minUnits, channelType := 0, auctionType := 0, isPublic := false,
    minNodeTier := 0, selfChanBalance := 0, sidecar := false, unannounced := false, zeroConf := false,
    announcement := 0, confirmation := 0 }

theorem guardWitness_wf (n : Nat) (hn : n < 18446744073709551616) : TypeWF (guardWitness n) := by
  constructor <;> simp [guardWitness, I64] <;> omega

/-- Without the guard the statement is false: `uint32(MinUnitsMatch)` drops the high 32 bits, so minimum
matches 1 and 1 + 2^32 (an amount of ≥ 4.29 million BTC) are signed identically.  Replayed on the Go code
by the `minunits+2^32` changes of the correspondence run (histogram `change/minunits+2^32/same`). -/
theorem C12_full_statement_false : ¬ C12_full_statement := by
  intro hf
  have := hf (guardWitness 1) (guardWitness 4294967297) (guardWitness_wf _ (by decide))
    (guardWitness_wf _ (by decide)) rfl
    (match digestPreimage (guardWitness 1) with | .ok p => p | .error _ => [])
    (by decide) (by decide)
  revert this
  decide

/-! ## the digest does not depend on bookkeeping -/

def bookkeepingTerms : List Term := [.state, .units, .unitsUnfulfilled, .minUnitsMatch64, .auctionType]

/-- no argument list of either digest mentions state, units, unfilled units (or the auction type) -/
theorem C12_digest_lists_no_bookkeeping :
    (∀ tbl, askTable = some tbl → ∀ c ∈ tbl, ∀ t ∈ c.2, t ∉ bookkeepingTerms) ∧
    (∀ tbl, bidTable = some tbl → ∀ c ∈ tbl, ∀ t ∈ c.2, t ∉ bookkeepingTerms) := by
  constructor <;> intro tbl ht
  · rw [askTable_lit] at ht; injection ht with ht; subst ht; decide
  · rw [bidTable_lit] at ht; injection ht with ht; subst ht; decide

/-- `o` with every field that is not an order term overwritten -/
def withBookkeeping (o : Order) (state units unfulfilled auctionType ann conf : Nat)
    (acctKey : Bytes) (isPublic un zc : Bool) : Order :=
  { o with state := state, units := units, unitsUnfulfilled := unfulfilled, auctionType := auctionType,
           acctKey := acctKey, isPublic := isPublic, unannounced := un, zeroConf := zc, announcement := ann,
           confirmation := conf }

/-- The bytes hashed by `Digest()` — hence the signed digest, for every hash function — are unchanged by
any change of the mutable bookkeeping (state, unfilled units, units) and of the fields that are not order
terms (account key, public flag, auction type, flags/constraints). -/
theorem C12_digest_ignores_bookkeeping (o : Order) (state units unfulfilled auctionType ann conf : Nat)
    (acctKey : Bytes) (isPublic un zc : Bool) :
    digestPreimage (withBookkeeping o state units unfulfilled auctionType ann conf acctKey isPublic un zc) =
    digestPreimage o := by
  have key : ∀ (tbl : Table), (∀ c ∈ tbl, ∀ t ∈ c.2, t ∉ bookkeepingTerms) →
      preimageOf (some tbl) (withBookkeeping o state units unfulfilled auctionType ann conf acctKey isPublic un zc) =
      preimageOf (some tbl) o := by
    intro tbl hno
    unfold preimageOf
    simp only [withBookkeeping]
    cases hl : lookupCase tbl o.version with
    | none => rfl
    | some L =>
      obtain ⟨c, hc, rfl⟩ := lookupCase_mem hl
      simp only
      congr 2
      apply List.map_congr_left
      intro t ht
      have := hno c hc t ht
      cases t <;> first | rfl | (simp [bookkeepingTerms] at this)
  unfold digestPreimage
  by_cases hb : o.isBid
  · simp only [withBookkeeping, hb, if_true, bidTable_lit]
    exact key bidLit (C12_digest_lists_no_bookkeeping.2 _ bidTable_lit)
  · simp only [withBookkeeping, hb, if_false, askTable_lit]
    exact key askLit (C12_digest_lists_no_bookkeeping.1 _ askTable_lit)


/-! ## the order transmitted carries exactly the signed terms -/

/-- **Wire round trip.**  For every order `SubmitOrder` can send without wrap-around (`Sendable`: Go field
types, `MinUnitsMatch · 100000 < 2^64`, defined channel type and node tier) the request built from the
regenerated literals transmits the signature and account key unchanged, and the order rebuilt from the
transmitted fields alone (`MinUnitsMatch = MinChanAmt / 100000`, enum inverses, sidecar flag) has the same
terms as the order that was signed. -/
theorem C12_wire_roundtrip (o : Order) (p : Params) (hs : Sendable o) :
    ∃ d s, toWire o p = .ok (d, s) ∧ wbytes d .orderSig = some p.rawSig ∧
      wbytes d .traderKey = some o.acctKey ∧
      ∃ o', orderOfWire o.isBid d s = some o' ∧ terms o' = terms o := by
  cases hb : o.isBid with
  | true =>
    obtain ⟨d, s, h1, h2, h3, o', h4, h5⟩ := wire_roundtrip_bid o p hs hb
    rw [hb] at h4
    exact ⟨d, s, h1, h2, h3, o', h4, terms_congr h5⟩
  | false =>
    obtain ⟨d, s, h1, h2, h3, o', h4, h5⟩ := wire_roundtrip_ask o p hs hb
    rw [hb] at h4
    exact ⟨d, s, h1, h2, h3, o', h4, terms_congr h5⟩

/-- **The digest re-derived from the transmitted fields is the one the account key signed**: if
`PrepareOrder` had the signer sign `σ.msg` under key `k` for order `o`, then for every hash function the
digest of the order rebuilt from what `SubmitOrder` transmits is `σ.msg`, and `σ` was made under `k`
(ideal signature: the transmitted `OrderSig` is `σ`, by `C12_wire_roundtrip`). -/
theorem C12_signed_is_sent (H : Bytes → Bytes) (o : Order) (p : Params) (k : Nat) (σ : Sig)
    (hs : Sendable o) (hsig : prepareOrderSig H o k = .ok σ) :
    σ.signer = k ∧ digest H o = .ok σ.msg ∧
    ∃ d s o', toWire o p = .ok (d, s) ∧ orderOfWire o.isBid d s = some o' ∧ digest H o' = .ok σ.msg := by
  unfold prepareOrderSig at hsig
  cases hd : digest H o with
  | error e => simp [hd, Except.map] at hsig
  | ok m =>
    simp only [hd, Except.map] at hsig
    injection hsig with hsig
    subst hsig
    refine ⟨rfl, rfl, ?_⟩
    cases hb : o.isBid with
    | true =>
      obtain ⟨d, s, h1, _, _, o', h4, h5⟩ := wire_roundtrip_bid o p hs hb
      rw [hb] at h4
      exact ⟨d, s, o', h1, h4, by unfold digest at hd ⊢; rw [digestPreimage_congr h5]; exact hd⟩
    | false =>
      obtain ⟨d, s, h1, _, _, o', h4, h5⟩ := wire_roundtrip_ask o p hs hb
      rw [hb] at h4
      exact ⟨d, s, o', h1, h4, by unfold digest at hd ⊢; rw [digestPreimage_congr h5]; exact hd⟩

/-! ## PrepareOrder on a client database with history -/

/-- Whatever is already on record: when `PrepareOrder` succeeds, the signature was made under the account key
over the digest of the order THE CALLER PASSED (the object it then gives to `SubmitOrder`), the nonce was
not on record before and is afterwards. -/
theorem C12_prepare_order_signs_argument (H : Bytes → Bytes) (stored stored' : List Bytes) (o : Order)
    (k : Nat) (σ : Sig) (h : prepareOrder H stored o k = (.ok σ, stored')) :
    σ.signer = k ∧ digest H o = .ok σ.msg ∧ o.nonce ∉ stored ∧ stored' = o.nonce :: stored := by
  unfold prepareOrder at h
  cases hs : prepareOrderSig H o k with
  | error e => simp [hs] at h
  | ok τ =>
    simp only [hs] at h
    by_cases hc : o.nonce ∈ stored
    · simp [hc] at h
    · simp only [List.contains_iff_mem, hc, if_false, Prod.mk.injEq, Except.ok.injEq] at h
      obtain ⟨h1, h2⟩ := h
      subst h1
      unfold prepareOrderSig at hs
      cases hd : digest H o with
      | error e => simp [hd, Except.map] at hs
      | ok m =>
        simp only [hd, Except.map] at hs
        injection hs with hs
        subst hs
        exact ⟨rfl, rfl, hc, h2.symm⟩

/-- A nonce that is on record — in whatever state the stored order is, e.g. failed — is refused, nothing is
signed into the result and the database is unchanged (a retry never re-binds to the stored order). -/
theorem C12_prepare_order_refuses_known_nonce (H : Bytes → Bytes) (stored : List Bytes) (o : Order) (k : Nat)
    (hn : o.nonce ∈ stored) : ∃ e, prepareOrder H stored o k = (.error e, stored) := by
  unfold prepareOrder
  cases hs : prepareOrderSig H o k with
  | error e => exact ⟨e, rfl⟩
  | ok τ =>
    exact ⟨.exists, by simp [hn]⟩

/-! ## orders built by the RPC layer lie inside the guards -/

/-- **Every order `ParseRPCOrder` builds is inside the domain of the theorems above**: within the Go types,
minimum match ≥ 1 and < 2^32 (it comes from a uint32 field), `MinUnitsMatch · 100000 < 2^64`, a defined
channel type, and — except in the outbound market — minimum match ≤ order units. -/
theorem C12_rpc_orders_in_domain (version lease : Nat) (d : RpcOrder) (sel : Option Nat) (o : Order)
    (hd : RpcWF version lease d) (hsel : ∀ s, sel = some s → s ≤ 2)
    (h : parseRPCOrder version lease d sel = .ok o) :
    TypeWF o ∧ MinMatchFits32 o ∧ 1 ≤ o.minUnitsMatch ∧ o.minUnitsMatch * 100000 < 18446744073709551616 ∧
    o.channelType ≤ 2 ∧ o.minUnitsMatch = d.minUnitsMatch ∧
    (d.auctionType ≠ outboundMarket → o.units < 4294967296 → o.minUnitsMatch ≤ o.units) :=
  parsed_order_in_domain version lease d sel o hd hsel h

/-- The channel-type conversion of `ParseRPCOrder` (in the function or in the helper it hands
`details.ChannelType` to) = what `parseRPCOrder` models: the three defined RPC values map to the three
channel types, exactly the UNKNOWN value (0) has its own clause (selector or peer dependent), any other value is
an error.  (Field assignments and the min-units guards are tied by the byte-exact `parse` correspondence.) -/
theorem C12_parse_rpc_order_shape_as_modelled :
    Gen.C12.parseOrderChannelTypeSpecial.map (·.1) = ["0"] ∧ Gen.C12.parseOrderChannelTypeDefault.length = 1 ∧
    Gen.C12.parseOrderChannelType = [(1, 0), (2, 1), (3, 2)] := by decide

/-- the side-specific fields the RPC server adds to the kit `ParseRPCOrder` returns -/
def withSide (k : Order) (isBid : Bool) (tier : Nat) (scb : Int) (sidecar un zc : Bool) (an cf : Nat) : Order :=
  { k with isBid := isBid, minNodeTier := tier, selfChanBalance := scb, sidecar := sidecar, unannounced := un,
           zeroConf := zc, announcement := an, confirmation := cf }

/-- **Injectivity without the cast guard for orders that come through the RPC layer**: two asks (bids)
whose kits were built by `ParseRPCOrder` and whose digests hash the same bytes agree on all terms of their
version.  (`C12_preimage_injective_partial` with its guard discharged by `C12_rpc_orders_in_domain`.) -/
theorem C12_rpc_orders_preimage_injective
    (v l : Nat) (d : RpcOrder) (sel : Option Nat) (k : Order) (v' l' : Nat) (d' : RpcOrder) (sel' : Option Nat)
    (k' : Order) (hd : RpcWF v l d) (hd' : RpcWF v' l' d') (hsel : ∀ s, sel = some s → s ≤ 2)
    (hsel' : ∀ s, sel' = some s → s ≤ 2) (hk : parseRPCOrder v l d sel = .ok k)
    (hk' : parseRPCOrder v' l' d' sel' = .ok k')
    (isBid : Bool) (tier tier' : Nat) (scb scb' : Int) (sc sc' un un' zc zc' : Bool) (an an' cf cf' : Nat)
    (ht : tier < 4294967296) (ht' : tier' < 4294967296) (hs : I64 scb) (hs' : I64 scb') (p : Bytes)
    (hp : digestPreimage (withSide k isBid tier scb sc un zc an cf) = .ok p)
    (hp' : digestPreimage (withSide k' isBid tier' scb' sc' un' zc' an' cf') = .ok p) :
    terms (withSide k isBid tier scb sc un zc an cf) = terms (withSide k' isBid tier' scb' sc' un' zc' an' cf') := by
  obtain ⟨w, m, _⟩ := parsed_order_in_domain v l d sel k hd hsel hk
  obtain ⟨w', m', _⟩ := parsed_order_in_domain v' l' d' sel' k' hd' hsel' hk'
  exact C12_preimage_injective_partial (withSide k isBid tier scb sc un zc an cf)
    (withSide k' isBid tier' scb' sc' un' zc' an' cf') { w with tier := ht, scb := hs }
    { w' with tier := ht', scb := hs' } m m' rfl p hp hp'

/-! ## non-vacuity -/

def exBid : Order :=
  { isBid := true, nonce := List.replicate 32 9, version := 5, state := 0, fixedRate := 1234, amt := 700000,
    units := 7, unitsUnfulfilled := 7, maxBatchFeeRate := 300, acctKey := List.replicate 33 3,
    leaseDuration := 2016, minUnitsMatch := 7, channelType := 1, auctionType := 0, isPublic := true,
    minNodeTier := 2, selfChanBalance := 100000, sidecar := true, unannounced := false, zeroConf := false,
    announcement := 0, confirmation := 0 }

def exParams : Params := { rawSig := [1, 2, 3], multiSigKey := [4], nodePubkey := [5] }

theorem exBid_sendable : Sendable exBid := by
  refine ⟨by constructor <;> simp [exBid, I64], by decide, by decide, by decide⟩
example : MinMatchFits32 exBid := by unfold MinMatchFits32; decide
example : (digestPreimage exBid).toOption.isSome := by decide
example : ∃ p, digestPreimage exBid = .ok p ∧ digestPreimage { exBid with sidecar := false } ≠ .ok p := by
  refine ⟨_, rfl, by decide⟩
example : (prepareOrderSig id exBid 4).toOption.isSome := by decide
example : (prepareOrder id [] exBid 4).1.toOption.isSome ∧ (prepareOrder id [] exBid 4).2 = [exBid.nonce] := by
  decide
example : (prepareOrder id [exBid.nonce] { exBid with fixedRate := 2500 } 4).1 = .error .exists := by decide
example : (toWire exBid exParams).toOption.isSome := by decide
/-- an unknown channel type is refused by SubmitOrder before anything is sent -/
example : toWire { exBid with channelType := 9 } exParams = .error .channelType := by decide
example : digestPreimage (withBookkeeping exBid 3 0 2 1 0 0 [] false true true) = digestPreimage exBid := by
  decide

def exRpc : RpcOrder :=
  { traderKey := List.replicate 33 2, rateFixed := 1234, amt := 700000, maxBatchFeeRate := 300,
    orderNonce := List.replicate 32 9, minUnitsMatch := 7, channelType := 2, auctionType := 0, isPublic := true,
    allowed := [(33, true)], notAllowed := [] }
example : RpcWF 5 2016 exRpc := by constructor <;> decide
example : (parseRPCOrder 5 2016 exRpc none).toOption.isSome := by decide
example : parseRPCOrder 5 2016 { exRpc with minUnitsMatch := 8 } none = .error .minUnitsExceed := by decide

end Pool.C12
