import PoolModel.C18
import PoolProofs.C18Lemmas
import PoolProofs.C18ClientLemmas
/-! # C18 — headline theorems (handshake, backoff, switch; the client bookkeeping theorems follow below) -/
namespace Pool.C18

/-- **Handshake is verifiable.**  For every hash function `H`, account key, nonce and challenge: the commitment sent
in step 1 opens to (key, revealed nonce) and the signature of step 3 is by the account key over
`H(commitment ‖ challenge)` – exactly what the auctioneer recomputes (`serverVerify`).  A challenge field that is
not 32 bytes long is zero-padded / truncated by the client (`copyN 32`), as the Go `copy` does. -/
theorem C18_handshake_verifiable (H : Bytes → Bytes) (key nonce ch : Bytes) (ver : Nat) :
    ∃ c k n sig, authCommit H key nonce ver = .commit c ver ∧
      authSubscribe H key nonce ch = .subscribe k n sig ∧
      H (k ++ n) = c ∧ k = key ∧ n = nonce ∧
      sig = ⟨key, H (c ++ copyN 32 ch)⟩ ∧
      serverVerify H c (copyN 32 ch) (.subscribe k n sig) = true := by
  refine ⟨_, _, _, _, rfl, rfl, rfl, rfl, rfl, rfl, ?_⟩
  simp [serverVerify, commitAccount, authHash, concatAndHash]

/-- a 32-byte challenge (what the auctioneer sends) is used unchanged -/
theorem C18_challenge32_unchanged (ch : Bytes) (h : ch.length = 32) : copyN 32 ch = ch := by
  simp [copyN, h, List.take_of_length_le (Nat.le_of_eq h)]

example : serverVerify (fun b => b.reverse) (commitAccount (fun b => b.reverse) [2, 1] [9])
    (copyN 32 [7]) (authSubscribe (fun b => b.reverse) [2, 1] [9] [7]) = true := by decide

/-- **Backoff shape (reconnect / any positive start).**  Guard: `0 < init ≤ max < 2^62` ns (no int64 overflow).  If
the first `fails < numRetries` attempts fail, the waits requested are `min(init·2^i, max)` for `i = 0..fails`, the
connect succeeds, and the logged backoffs are the same sequence from `i = 1`. -/
theorem C18_backoff_shape (initB minB maxB : Int) (numRetries fails : Nat)
    (hi : 0 < initB) (him : initB ≤ maxB) (hmax : maxB < 2 ^ 62) (hf : fails < numRetries) :
    connect initB minB maxB numRetries fails =
      ⟨(List.range (fails + 1)).map (fun i => min (initB * 2 ^ i) maxB),
       (List.range fails).map (fun i => min (initB * 2 ^ (i + 1)) maxB), true⟩ := by
  have : numRetries ≠ 0 := by omega
  simp only [connect, this, if_false]
  exact connLoop_shape hmax fails numRetries initB hi him hf

/-- **Backoff shape, first connect (start 0).**  Guard `0 < min ≤ max < 2^62`.  No wait before the first attempt; then
`min, 2·min, 4·min, …` capped at `max`. -/
theorem C18_backoff_shape_first (minB maxB : Int) (numRetries fails : Nat)
    (h0 : 0 < minB) (h1 : minB ≤ maxB) (hmax : maxB < 2 ^ 62) (hf : fails < numRetries) :
    (connect 0 minB maxB numRetries fails).waits = (List.range fails).map (fun i => min (minB * 2 ^ i) maxB) ∧
    (connect 0 minB maxB numRetries fails).ok = true := by
  have : numRetries ≠ 0 := by omega
  obtain ⟨r, rfl⟩ : ∃ r, numRetries = r + 1 := ⟨numRetries - 1, by omega⟩
  cases fails with
  | zero => simp [connect, connLoop]
  | succ f =>
    have := connLoop_shape (minB := minB) hmax f r minB h0 h1 (by omega)
    simp [connect, connLoop, nextBackoff_zero h0 h1, this]

example : connect 1000 1000 5000 32767 4 = ⟨[1000, 2000, 4000, 5000, 5000], [2000, 4000, 5000, 5000], true⟩ := by
  decide
example : (connect 0 1000 5000 32767 4).waits = [1000, 2000, 4000, 5000] := by decide

/-- **Backoff of the code as it is spelled now** (consumes the regenerated call arguments and `reconnectRetries`):
under `0 < min ≤ max < 2^62`, a reconnect (`HandleServerShutdown`) whose first `fails < 32767` attempts are refused
waits `min, 2·min, 4·min, …` capped at `max` – restarting from the minimum – and then succeeds; the first connect
waits nothing before its first attempt and then the same sequence. -/
theorem C18_backoff_as_called (minB maxB : Int) (fails : Nat) (h0 : 0 < minB) (h1 : minB ≤ maxB)
    (hmax : maxB < 2 ^ 62) (hf : fails < Pool.Gen.C18.reconnectRetries) :
    (∃ r, reconnect minB maxB fails = some r ∧ r.ok = true ∧
      r.waits = (List.range (fails + 1)).map (fun i => min (minB * 2 ^ i) maxB)) ∧
    (∃ r, firstConnect minB maxB fails = some r ∧ r.ok = true ∧
      r.waits = (List.range fails).map (fun i => min (minB * 2 ^ i) maxB)) := by
  constructor
  · refine ⟨_, rfl, ?_⟩
    have := C18_backoff_shape minB minB maxB Pool.Gen.C18.reconnectRetries fails h0 h1 hmax hf
    simp only [this, and_self]
  · refine ⟨_, rfl, ?_⟩
    have := C18_backoff_shape_first minB maxB Pool.Gen.C18.reconnectRetries fails h0 h1 hmax hf
    exact ⟨this.2, this.1⟩

example : reconnect 1000 8000 5 = some ⟨[1000, 2000, 4000, 8000, 8000, 8000], [2000, 4000, 8000, 8000, 8000], true⟩ := by
  decide

/-- **The source still has the shape the model mirrors** (regenerated on every run; `decide` fails when the Go code
changes): hashed concatenation order, SHA-256, the backoff statements of the retry loop, the routing branch of
`ErrChanSwitch.run` under the mutex, `Divert`/`Restore`, the bookkeeping order of `HandleServerShutdown`
(all keys deleted before re-subscribing, first error returned) and `connectAndAuthenticate` (map insertion before
`authenticate`, divert before / restore deferred), the calls of `authenticate`, and `serverHandler`'s reaction. -/
theorem C18_source_shape :
    Pool.Gen.C18.hashOrderCommitAccount = [0, 1] ∧ Pool.Gen.C18.hashOrderAuthChallenge = [0, 1] ∧
    Pool.Gen.C18.hashOrderAuthHash = [0, 1] ∧ Pool.Gen.C18.concatAndHashWrites = ["a", "b"] ∧
    Pool.Gen.C18.concatAndHashIsSha256 = true ∧
    Pool.Gen.C18.retryLoopHeader = "i := 0; i < numRetries; i++" ∧ Pool.Gen.C18.backoffInit = "initialBackoff" ∧
    Pool.Gen.C18.backoffStmts =
      ["if backoff != 0 { err = c.wait(backoff); if err != nil { return err } }", "backoff *= 2",
       "if backoff == 0 { backoff = c.cfg.MinBackoff }",
       "if backoff > c.cfg.MaxBackoff { backoff = c.cfg.MaxBackoff }"] ∧
    Pool.Gen.C18.switchRun =
      ["<-s.incomingChan", "s.Lock()", "if s.diverted", "s.tempChan <- msg", "s.mainChan <- msg", "s.Unlock()"] ∧
    Pool.Gen.C18.switchDivert = "s.Lock(); defer s.Unlock(); s.tempChan = tempChan; s.diverted = true" ∧
    Pool.Gen.C18.switchRestore = "s.Lock(); defer s.Unlock(); s.tempChan = nil; s.diverted = false" ∧
    Pool.Gen.C18.handleShutdownShape =
      ["c.closeStream", "c.connectServerStream", "return err", "c.checkPendingBatch", "return err",
       "range c.subscribedAccts", "delete", "range acctKeys", "c.StartAccountSubscription", "return err",
       "return nil"] ∧
    Pool.Gen.C18.connectAndAuthShape =
      ["c.connectServerStream", "c.errChanSwitch.Divert", "defer c.errChanSwitch.Restore()",
       "c.subscribedAccts[acctPubKey] = sub", "sub.authenticate", "c.HandleServerShutdown"] ∧
    Pool.Gen.C18.authenticateCalls =
      ["copy(acctPubKey[:], s.acctKey.PubKey.SerializeCompressed())", "account.CommitAccount(acctPubKey, nonce)",
       "copy(serverChallenge[:], msg.Challenge.Challenge)", "account.AuthHash(s.commitHash, serverChallenge)",
       "s.signer.SignMessage(ctx, authHash[:], s.acctKey.KeyLocator)"] ∧
    Pool.Gen.C18.handlerReaction =
      ["err := <-s.auctioneer.StreamErrChan", "if err != nil && err != auctioneer.ErrServerShutdown",
       "s.auctioneer.HandleServerShutdown(err)"] := by decide

/-- outside the guard the doubling can wrap: with `max ≥ 2^62` a backoff of `2^62` ns doubles to `-2^63`, which is
"waited" as zero time – the guard of `C18_backoff_shape` is needed -/
theorem C18_backoff_guard_needed :
    (connect (2 ^ 62) 1 (2 ^ 63 - 1) 3 1).backoffs = [-(2 ^ 63)] := by decide

/-- **Switch: nothing lost, nothing duplicated, routed by the divert state at processing time.**  For every schedule
of the atomic steps (sends by any number of goroutines, `run`'s receive / lock / hand-over, `Divert`, `Restore`, in
any interleaving; disabled steps are skipped) started from a fresh switch:
1. the errors sent are, as a multiset, exactly those still inside the switch plus those handed to a target;
2. every error handed over went to a temporary channel iff `diverted` was set when `run` took the mutex for it;
3. once nothing is inside the switch, the delivered errors are a permutation of the sent ones. -/
theorem C18_switch_no_loss (as : List Act) :
    let s := ({} : Switch).run as
    List.Perm (sentOf as) (s.inside ++ s.delivered.map (·.1)) ∧
    (∀ x ∈ s.delivered, (∃ c, x.2.1 = Target.temp c) ↔ x.2.2 = true) ∧
    (s.inside = [] → List.Perm (sentOf as) (s.delivered.map (·.1))) := by
  intro s
  have hp : List.Perm (sentOf as) (s.inside ++ s.delivered.map (·.1)) := by
    rw [List.perm_iff_count]
    intro x
    have := run_count as {} x
    simp only [dl, Switch.inside] at this ⊢
    simp only [s]
    simp at this ⊢
    omega
  refine ⟨hp, (swInv_run as {} swInv_init).2.2, ?_⟩
  intro he
  simpa [he] using hp

/-- the switch itself never blocks an error: whenever something is inside, one of `run`'s own steps is enabled (the
only thing it ever waits for is the reader of the chosen target channel, modelled by `deliver`) -/
theorem C18_switch_progress (s : Switch) (h : s.inside ≠ []) :
    (s.step (.recv 0)).isSome ∨ (s.step .lock).isSome ∨ (s.step .deliver).isSome := by
  cases hi : s.inflight with
  | some x => right; right; simp [Switch.step, hi]
  | none =>
    cases hh : s.held with
    | some e => right; left; simp [Switch.step, hi, hh]
    | none =>
      left
      cases hp : s.pending with
      | nil => simp [Switch.inside, hi, hh, hp] at h
      | cons a l => simp [Switch.step, hi, hh, hp]

example : (({} : Switch).run [.send 1, .divert 7, .recv 0, .lock, .restore, .send 2, .deliver, .restore, .recv 0,
    .lock, .deliver]).delivered = [(1, .temp 7, true), (2, .main, false)] := by decide

/-! ## client bookkeeping over fault events -/

/-- quiescent and healthy: either nothing was ever subscribed, or the newest stream is alive and the auctioneer has
received on it exactly one (verified, acknowledged) subscription per account of `subscribedAccts` -/
def Healthy (c : Client) : Prop :=
  c.accts.Nodup ∧ c.chaos = false ∧ c.badOrder = false ∧
  ((c.isOpen = false ∧ c.accts = []) ∨
   (c.isOpen = true ∧ c.cur.alive = true ∧ List.Perm c.cur.subs c.accts ∧ c.cur.success = c.cur.subs))

/-- named hypothesis of the partial theorem: no fault hits a handshake of the re-subscription loop (every commitment
the auctioneer receives while the client re-subscribes is answered normally) -/
abbrev NoFaultDuringResubscription (beh : List Beh) : Prop := AllOk beh

/-- **Re-subscribed exactly once (partial).**  From any healthy state with an open stream: a transport error or a
shutdown notice while idle, followed by any number `k` of refused reconnects, with the map iterated in any order
`ord`, and – the extra hypothesis – no fault during the re-subscription: exactly one new stream is opened after
`k + 1` attempts, the subscribe messages on it are exactly the previously subscribed accounts, each once, the map is
unchanged as a set, and the state is healthy again (so the statement iterates over any sequence of such faults). -/
theorem C18_resubscribed_once_partial (c : Client) (hH : Healthy c) (hopen : c.isOpen = true) (op : Op)
    (hop : op = .errIdle ∨ op = .shutIdle) (k : Nat) (beh : List Beh) (hb : NoFaultDuringResubscription beh)
    (ord : List Nat) (more : List (List Nat)) (hp : List.Perm ord c.accts) :
    let c' := ((c.script k beh (ord :: more)).step op).1
    Healthy c' ∧ c'.streams.length = c.streams.length + 1 ∧ c'.attempts = c.attempts + k + 1 ∧
      List.Perm c'.cur.subs c.accts ∧ c'.cur.success = c'.cur.subs ∧ c'.cur.alive = true ∧
      List.Perm c'.accts c.accts := by
  obtain ⟨hnd, hch, hbo, hst⟩ := hH
  rcases hst with ⟨hcl, _⟩ | ⟨_, halive, _, _⟩
  · simp [hopen] at hcl
  intro c'
  -- the state `HandleServerShutdown` starts from, for both kinds of fault
  have key : ∀ c1 : Client, c1.accts = c.accts → c1.orders = ord :: more → c1.beh = beh → c1.refuse = k →
      c1.attempts = c.attempts → c1.chaos = c.chaos → c1.badOrder = c.badOrder →
      c1.streams.length = c.streams.length →
      ∃ c2, c1.handleShutdown = (c2, .ok) ∧ c2.accts = ord ∧
        c2.cur = { subs := ord, success := ord, alive := true } ∧ c2.isOpen = true ∧
        c2.streams.length = c.streams.length + 1 ∧ c2.attempts = c.attempts + k + 1 ∧
        c2.chaos = false ∧ c2.badOrder = false := by
    intro c1 h1 h2 h3 h4 h5 h6 h7 h8
    obtain ⟨c2, h, ha, hc, ho, hl, hat, _, _, hch', hbo', _, _⟩ :=
      handleShutdown_clean c1 ord more h2 (by rw [h1]; exact hp) (by rw [h1]; exact hnd) (by rw [h3]; exact hb)
    exact ⟨c2, h, ha, hc, ho, by omega, by omega, by simp [hch', h6, hch], by simp [hbo', h7, hbo]⟩
  have fin : ∀ c2 : Client, c2.accts = ord → c2.cur = { subs := ord, success := ord, alive := true } →
      c2.isOpen = true → c2.streams.length = c.streams.length + 1 → c2.attempts = c.attempts + k + 1 →
      c2.chaos = false → c2.badOrder = false →
      Healthy c2 ∧ c2.streams.length = c.streams.length + 1 ∧ c2.attempts = c.attempts + k + 1 ∧
      List.Perm c2.cur.subs c.accts ∧ c2.cur.success = c2.cur.subs ∧ c2.cur.alive = true ∧
      List.Perm c2.accts c.accts := by
    intro c2 ha hc ho hl hat hch2 hbo2
    have hndo : ord.Nodup := hp.nodup_iff.mpr hnd
    refine ⟨⟨by rw [ha]; exact hndo, hch2, hbo2, Or.inr ⟨ho, by simp [hc], by simp [hc, ha], by simp [hc]⟩⟩,
      hl, hat, by simpa [hc] using hp, by simp [hc], by simp [hc], by rw [ha]; exact hp⟩
  have hopen' : (c.script k beh (ord :: more)).isOpen = true := hopen
  have halive' : (c.script k beh (ord :: more)).cur.alive = true := halive
  rcases hop with rfl | rfl
  · -- transport error while idle: reader → switch (not diverted) → main handler → HandleServerShutdown(err)
    obtain ⟨hf1, hf2, hf3, hf4, hf5, hf6, hf7, hf8, _⟩ :=
      setCur_fields (c.script k beh (ord :: more)) (fun s => { s with alive := false })
    obtain ⟨c2, h, ha, hc, ho, hl, hat, hch2, hbo2⟩ :=
      key { (c.script k beh (ord :: more)).failStream with
            mainErrs := (c.script k beh (ord :: more)).failStream.mainErrs ++ [ErrClass.serverErrored] }
        hf1 hf2 hf3 hf4 hf5 hf6 hf7 hf8
    have : c' = { c2 with handlerRes := c2.handlerRes ++ [ErrClass.none_] } := by
      simp only [c', Client.step, hopen', halive', Bool.and_self, if_true, Client.mainHandler, h]
    rw [this]
    exact fin _ ha hc ho hl hat hch2 hbo2
  · -- shutdown notice while idle: the reader goroutine runs HandleServerShutdown(nil) itself
    obtain ⟨c2, h, ha, hc, ho, hl, hat, hch2, hbo2⟩ :=
      key (c.script k beh (ord :: more)) rfl rfl rfl rfl rfl rfl rfl rfl
    have : c' = c2 := by
      simp only [c', Client.step, hopen', halive', Bool.and_self, if_true, Client.readerShutdown, h]
    rw [this]
    exact fin _ ha hc ho hl hat hch2 hbo2

/-- a healthy three-account state used as witness below -/
def witness3 : Client :=
  { accts := [0, 1, 2], isOpen := true, streams := [{ subs := [0, 1, 2], success := [0, 1, 2] }], attempts := 1 }

theorem witness3_healthy : Healthy witness3 :=
  ⟨by decide, rfl, rfl, Or.inr ⟨rfl, rfl, List.Perm.refl _, rfl⟩⟩

-- non-vacuity of `C18_resubscribed_once_partial`: shutdown notice, 3 refused reconnects, map iterated as 2,0,1
example : (((witness3.script 3 [] [[2, 0, 1]]).step .shutIdle).1.cur.subs = [2, 0, 1]) ∧
    ((witness3.script 3 [] [[2, 0, 1]]).step .shutIdle).1.attempts = 5 := by decide

/-- **Subscribing keeps the state healthy.**  A (first or further) `StartAccountSubscription` whose handshake is
answered normally returns nil, leaves a healthy state and adds the account to the map at most once. -/
theorem C18_subscribe_healthy (c : Client) (hH : Healthy c) (a k : Nat) (beh : List Beh)
    (hb : NoFaultDuringResubscription beh) (orders : List (List Nat)) :
    let r := (c.script k beh orders).step (.sub a)
    r.2 = .ok ∧ Healthy r.1 ∧ r.1.accts = addAcct c.accts a := by
  obtain ⟨hnd, hch, hbo, hst⟩ := hH
  intro r
  by_cases ha : a ∈ c.accts
  · have : r = (c.script k beh orders, .ok) := by
      simp only [r, Client.step, Client.connectAndAuth, Client.script, ha, if_true]
    rw [this]
    exact ⟨rfl, ⟨hnd, hch, hbo, hst⟩, by simp [Client.script, addAcct, ha]⟩
  · have hh : beh.head?.getD Beh.ok = Beh.ok := by
      have := AllOk.headD hb; simpa [List.headD_eq_head?_getD] using this
    rcases hst with ⟨hcl, hemp⟩ | ⟨hop, halive, hperm, hsucc⟩
    · -- first connect: a fresh stream is opened, then the handshake runs on it
      have : r.2 = .ok ∧ r.1.accts = [a] ∧ r.1.cur = { subs := [a], success := [a], alive := true } ∧
          r.1.isOpen = true ∧ r.1.chaos = false ∧ r.1.badOrder = false := by
        simp [r, Client.step, Client.connectAndAuth, Client.script, hcl, hemp, Client.connectStream, addAcct,
          Client.cur, Client.setCur, hh, hch, hbo]
      obtain ⟨h1, h2, h3, h4, h5, h6⟩ := this
      refine ⟨h1, ⟨by simp [h2], h5, h6, Or.inr ⟨h4, by simp [h3], by simp [h3, h2], by simp [h3]⟩⟩, ?_⟩
      simp [h2, hemp, addAcct]
    · obtain ⟨s, ss, hs⟩ : ∃ s ss, c.streams = s :: ss := by
        cases hstr : c.streams with
        | nil => simp [Client.cur, hstr] at halive
        | cons s ss => exact ⟨s, ss, rfl⟩
      have hal : s.alive = true := by simpa [Client.cur, hs] using halive
      have : r.2 = .ok ∧ r.1.accts = c.accts ++ [a] ∧
          r.1.cur = { subs := s.subs ++ [a], success := s.success ++ [a], alive := true } ∧
          r.1.isOpen = true ∧ r.1.chaos = false ∧ r.1.badOrder = false := by
        simp [r, Client.step, Client.connectAndAuth, Client.script, ha, hop, addAcct, Client.cur, Client.setCur, hs,
          hal, hh, hch, hbo]
      obtain ⟨h1, h2, h3, h4, h5, h6⟩ := this
      have hp' : List.Perm s.subs c.accts := by simpa [Client.cur, hs] using hperm
      have hs' : s.success = s.subs := by simpa [Client.cur, hs] using hsucc
      refine ⟨h1, ⟨?_, h5, h6, Or.inr ⟨h4, by simp [h3], ?_, by simp [h3, hs']⟩⟩, by simp [h2, addAcct, ha]⟩
      · rw [h2]; exact List.nodup_append.mpr ⟨hnd, by simp, by intro x hx y hy; simp at hy; subst hy; intro e; subst e; exact ha hx⟩
      · rw [h3, h2]; exact List.Perm.append_right _ hp'

/-- The property's re-subscription clause **at full strength** over the model: after a transport error or a shutdown
notice while idle, any run of refused reconnects, and *any* faults of the stated fault model hitting the handshakes
of the re-subscription (here: transport errors before / after the challenge), the newest stream is alive and carries
every previously subscribed account exactly once. -/
def C18_resubscribed_full_statement : Prop :=
  ∀ (c : Client), Healthy c → c.isOpen = true → ∀ (op : Op), (op = .errIdle ∨ op = .shutIdle) →
  ∀ (k : Nat) (beh : List Beh) (orders : List (List Nat)),
    (∀ b ∈ beh, b = Beh.ok ∨ b = Beh.errBC ∨ b = Beh.errAC) →
    ((c.script k beh orders).step op).1.badOrder = false →
    ((c.script k beh orders).step op).1.cur.alive = true ∧
      List.Perm ((c.script k beh orders).step op).1.cur.subs c.accts

/-- **The full statement is false for the code as it is** (finding `resubscribe-abort-drops-accounts`): three
accounts, shutdown notice, the second re-subscription is hit by a transport error before the challenge – the loop
returns, the error reaches the main handler, which reconnects and re-subscribes only the two accounts still in the
map; account 2 is never subscribed again.  The witness is replayed on the real client by corpus/C18/defects.json. -/
theorem C18_resubscribed_full_false : ¬ C18_resubscribed_full_statement := by
  intro h
  have := h witness3 witness3_healthy rfl .shutIdle (Or.inr rfl) 1 [.ok, .errBC] [[0, 1, 2], [0, 1]]
    (by decide) (by decide)
  have e : ((witness3.script 1 [.ok, .errBC] [[0, 1, 2], [0, 1]]).step .shutIdle).1.cur.subs = [0, 1] := by decide
  rw [e] at this
  exact absurd this.2.length_eq (by decide)

/-- the other two modelled findings, as computations of the model (replayed by corpus/C18/defects.json cases 2, 3):
a transport error consumed by a direct handshake, or a failed re-subscription on the main handler's path, leaves
`serverStream` set but dead – no further reconnect happens -/
theorem C18_dead_stream_witnesses :
    (let c := ((witness3.script 0 [.errBC] []).step (.sub 3)).1
     c.isOpen = true ∧ c.cur.alive = false ∧ c.streams.length = 1) ∧
    (let c := ((witness3.script 2 [.errAC] [[0, 1, 2]]).step .errIdle).1
     c.isOpen = true ∧ c.cur.alive = false ∧ c.handlerRes = [.other] ∧ c.accts = [0]) := by decide

end Pool.C18
