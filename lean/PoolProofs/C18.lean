import PoolModel.C18
import PoolProofs.C18Lemmas
/-! # C18 — headline theorems (handshake, backoff, switch; the client bookkeeping theorems follow below) -/
namespace Pool.C18

/-- **Handshake is verifiable.**  For every hash function `H`, account key, nonce and challenge: the commitment sent
in step 1 opens to (key, revealed nonce) and the signature of step 3 is by the account key over
`H(commitment ‖ challenge)` – exactly what the auctioneer recomputes (`serverVerify`).  A challenge field that is
not 32 bytes long is zero-padded / truncated by the client (`copyN 32`), as the Go `copy` does. -/
theorem C18_handshake_verifiable (H : Bytes → Bytes) (key nonce ch : Bytes) (ver : Nat) :
    ∃ c k n sig, authCommit H key nonce ver = .commit c ver ∧
      authSubscribe H key nonce ch = .subscribe k n sig ∧
      H (k ++ n) = c ∧ k = key ∧ n = nonce ∧
      sig = ⟨key, H (c ++ copyN 32 ch)⟩ ∧
      serverVerify H c (copyN 32 ch) (.subscribe k n sig) = true := by
  refine ⟨_, _, _, _, rfl, rfl, rfl, rfl, rfl, rfl, ?_⟩
  simp [serverVerify, commitAccount, authHash, concatAndHash]

/-- a 32-byte challenge (what the auctioneer sends) is used unchanged -/
theorem C18_challenge32_unchanged (ch : Bytes) (h : ch.length = 32) : copyN 32 ch = ch := by
  simp [copyN, h, List.take_of_length_le (Nat.le_of_eq h)]

example : serverVerify (fun b => b.reverse) (commitAccount (fun b => b.reverse) [2, 1] [9])
    (copyN 32 [7]) (authSubscribe (fun b => b.reverse) [2, 1] [9] [7]) = true := by decide

/-- **Backoff shape (reconnect / any positive start).**  Guard: `0 < init ≤ max < 2^62` ns (no int64 overflow).  If
the first `fails < numRetries` attempts fail, the waits requested are `min(init·2^i, max)` for `i = 0..fails`, the
connect succeeds, and the logged backoffs are the same sequence from `i = 1`. -/
theorem C18_backoff_shape (initB minB maxB : Int) (numRetries fails : Nat)
    (hi : 0 < initB) (him : initB ≤ maxB) (hmax : maxB < 2 ^ 62) (hf : fails < numRetries) :
    connect initB minB maxB numRetries fails =
      ⟨(List.range (fails + 1)).map (fun i => min (initB * 2 ^ i) maxB),
       (List.range fails).map (fun i => min (initB * 2 ^ (i + 1)) maxB), true⟩ := by
  have : numRetries ≠ 0 := by omega
  simp only [connect, this, if_false]
  exact connLoop_shape hmax fails numRetries initB hi him hf

/-- **Backoff shape, first connect (start 0).**  Guard `0 < min ≤ max < 2^62`.  No wait before the first attempt; then
`min, 2·min, 4·min, …` capped at `max`. -/
theorem C18_backoff_shape_first (minB maxB : Int) (numRetries fails : Nat)
    (h0 : 0 < minB) (h1 : minB ≤ maxB) (hmax : maxB < 2 ^ 62) (hf : fails < numRetries) :
    (connect 0 minB maxB numRetries fails).waits = (List.range fails).map (fun i => min (minB * 2 ^ i) maxB) ∧
    (connect 0 minB maxB numRetries fails).ok = true := by
  have : numRetries ≠ 0 := by omega
  obtain ⟨r, rfl⟩ : ∃ r, numRetries = r + 1 := ⟨numRetries - 1, by omega⟩
  cases fails with
  | zero => simp [connect, connLoop]
  | succ f =>
    have := connLoop_shape (minB := minB) hmax f r minB h0 h1 (by omega)
    simp [connect, connLoop, nextBackoff_zero h0 h1, this]

example : connect 1000 1000 5000 32767 4 = ⟨[1000, 2000, 4000, 5000, 5000], [2000, 4000, 5000, 5000], true⟩ := by
  decide
example : (connect 0 1000 5000 32767 4).waits = [1000, 2000, 4000, 5000] := by decide

/-- outside the guard the doubling can wrap: with `max ≥ 2^62` a backoff of `2^62` ns doubles to `-2^63`, which is
"waited" as zero time – the guard of `C18_backoff_shape` is needed -/
theorem C18_backoff_guard_needed :
    (connect (2 ^ 62) 1 (2 ^ 63 - 1) 3 1).backoffs = [-(2 ^ 63)] := by decide

/-- **Switch: nothing lost, nothing duplicated, routed by the divert state at processing time.**  For every schedule
of the atomic steps (sends by any number of goroutines, `run`'s receive / lock / hand-over, `Divert`, `Restore`, in
any interleaving; disabled steps are skipped) started from a fresh switch:
1. the errors sent are, as a multiset, exactly those still inside the switch plus those handed to a target;
2. every error handed over went to a temporary channel iff `diverted` was set when `run` took the mutex for it;
3. once nothing is inside the switch, the delivered errors are a permutation of the sent ones. -/
theorem C18_switch_no_loss (as : List Act) :
    let s := ({} : Switch).run as
    List.Perm (sentOf as) (s.inside ++ s.delivered.map (·.1)) ∧
    (∀ x ∈ s.delivered, (∃ c, x.2.1 = Target.temp c) ↔ x.2.2 = true) ∧
    (s.inside = [] → List.Perm (sentOf as) (s.delivered.map (·.1))) := by
  intro s
  have hp : List.Perm (sentOf as) (s.inside ++ s.delivered.map (·.1)) := by
    rw [List.perm_iff_count]
    intro x
    have := run_count as {} x
    simp only [dl, Switch.inside] at this ⊢
    simp only [s]
    simp at this ⊢
    omega
  refine ⟨hp, (swInv_run as {} swInv_init).2.2, ?_⟩
  intro he
  simpa [he] using hp

/-- the switch itself never blocks an error: whenever something is inside, one of `run`'s own steps is enabled (the
only thing it ever waits for is the reader of the chosen target channel, modelled by `deliver`) -/
theorem C18_switch_progress (s : Switch) (h : s.inside ≠ []) :
    (s.step (.recv 0)).isSome ∨ (s.step .lock).isSome ∨ (s.step .deliver).isSome := by
  cases hi : s.inflight with
  | some x => right; right; simp [Switch.step, hi]
  | none =>
    cases hh : s.held with
    | some e => right; left; simp [Switch.step, hi, hh]
    | none =>
      left
      cases hp : s.pending with
      | nil => simp [Switch.inside, hi, hh, hp] at h
      | cons a l => simp [Switch.step, hi, hh, hp]

example : (({} : Switch).run [.send 1, .divert 7, .recv 0, .lock, .restore, .send 2, .deliver, .restore, .recv 0,
    .lock, .deliver]).delivered = [(1, .temp 7, true), (2, .main, false)] := by decide

end Pool.C18
