import PoolModel.C18
import PoolProofs.C18Lemmas
import PoolProofs.C18ClientLemmas
/-! # C18 — headline theorems (handshake, backoff, switch; the client bookkeeping theorems follow below) -/
namespace Pool.C18

/-- **Handshake is verifiable.**  For every hash function `H`, account key, nonce and challenge: the commitment sent
in step 1 opens to (key, revealed nonce) and the signature of step 3 is by the account key over
`H(commitment ‖ challenge)` – exactly what the auctioneer recomputes (`serverVerify`).  A challenge field that is
not 32 bytes long is zero-padded / truncated by the client (`copyN 32`), as the Go `copy` does. -/
theorem C18_handshake_verifiable (H : Bytes → Bytes) (key nonce ch : Bytes) (ver : Nat) :
    ∃ c k n sig, authCommit H key nonce ver = .commit c ver ∧
      authSubscribe H key nonce ch = .subscribe k n sig ∧
      H (k ++ n) = c ∧ k = key ∧ n = nonce ∧
      sig = ⟨key, H (c ++ copyN 32 ch)⟩ ∧
      serverVerify H c (copyN 32 ch) (.subscribe k n sig) = true := by
  refine ⟨_, _, _, _, rfl, rfl, rfl, rfl, rfl, rfl, ?_⟩
  simp [serverVerify, commitAccount, authHash, concatAndHash]

/-- a 32-byte challenge (what the auctioneer sends) is used unchanged -/
theorem C18_challenge32_unchanged (ch : Bytes) (h : ch.length = 32) : copyN 32 ch = ch := by
  simp [copyN, h, List.take_of_length_le (Nat.le_of_eq h)]

example : serverVerify (fun b => b.reverse) (commitAccount (fun b => b.reverse) [2, 1] [9])
    (copyN 32 [7]) (authSubscribe (fun b => b.reverse) [2, 1] [9] [7]) = true := by decide

/-- **Backoff shape (reconnect / any positive start).**  Guard: `0 < init ≤ max < 2^62` ns (no int64 overflow).  If
the first `fails < numRetries` attempts fail, the waits requested are `min(init·2^i, max)` for `i = 0..fails`, the
connect succeeds, and the logged backoffs are the same sequence from `i = 1`. -/
theorem C18_backoff_shape (initB minB maxB : Int) (numRetries fails : Nat)
    (hi : 0 < initB) (him : initB ≤ maxB) (hmax : maxB < 2 ^ 62) (hf : fails < numRetries) :
    connect initB minB maxB numRetries fails =
      ⟨(List.range (fails + 1)).map (fun i => min (initB * 2 ^ i) maxB),
       (List.range fails).map (fun i => min (initB * 2 ^ (i + 1)) maxB), true⟩ := by
  have : numRetries ≠ 0 := by omega
  simp only [connect, this, if_false]
  exact connLoop_shape hmax fails numRetries initB hi him hf

/-- **Backoff shape, first connect (start 0).**  Guard `0 < min ≤ max < 2^62`.  No wait before the first attempt; then
`min, 2·min, 4·min, …` capped at `max`. -/
theorem C18_backoff_shape_first (minB maxB : Int) (numRetries fails : Nat)
    (h0 : 0 < minB) (h1 : minB ≤ maxB) (hmax : maxB < 2 ^ 62) (hf : fails < numRetries) :
    (connect 0 minB maxB numRetries fails).waits = (List.range fails).map (fun i => min (minB * 2 ^ i) maxB) ∧
    (connect 0 minB maxB numRetries fails).ok = true := by
  have : numRetries ≠ 0 := by omega
  obtain ⟨r, rfl⟩ : ∃ r, numRetries = r + 1 := ⟨numRetries - 1, by omega⟩
  cases fails with
  | zero => simp [connect, connLoop]
  | succ f =>
    have := connLoop_shape (minB := minB) hmax f r minB h0 h1 (by omega)
    simp [connect, connLoop, nextBackoff_zero h0 h1, this]

example : connect 1000 1000 5000 32767 4 = ⟨[1000, 2000, 4000, 5000, 5000], [2000, 4000, 5000, 5000], true⟩ := by
  decide
example : (connect 0 1000 5000 32767 4).waits = [1000, 2000, 4000, 5000] := by decide

/-- **Backoff of the code as it is called now** (consumes the regenerated call arguments):
under `0 < min ≤ max < 2^62`, a reconnect (`HandleServerShutdown`) whose first `fails < 32767` attempts are refused
waits `min, 2·min, 4·min, …` capped at `max` – restarting from the minimum – and then succeeds; the first connect
waits nothing before its first attempt and then the same sequence. -/
theorem C18_backoff_as_called (minB maxB : Int) (fails : Nat) (h0 : 0 < minB) (h1 : minB ≤ maxB)
    (hmax : maxB < 2 ^ 62) (hf : fails < Pool.Gen.C18Sem.reconnectRetriesArg)
    (hf' : fails < Pool.Gen.C18Sem.firstConnectRetries) :
    (∃ r, reconnect minB maxB fails = some r ∧ r.ok = true ∧
      r.waits = (List.range (fails + 1)).map (fun i => min (minB * 2 ^ i) maxB)) ∧
    (∃ r, firstConnect minB maxB fails = some r ∧ r.ok = true ∧
      r.waits = (List.range fails).map (fun i => min (minB * 2 ^ i) maxB)) := by
  constructor
  · refine ⟨_, rfl, ?_⟩
    have := C18_backoff_shape minB minB maxB Pool.Gen.C18Sem.reconnectRetriesArg fails h0 h1 hmax hf
    simp only [this, and_self]
  · refine ⟨_, rfl, ?_⟩
    have := C18_backoff_shape_first minB maxB Pool.Gen.C18Sem.firstConnectRetries fails h0 h1 hmax hf'
    exact ⟨this.2, this.1⟩

example : reconnect 1000 8000 5 = some ⟨[1000, 2000, 4000, 8000, 8000, 8000], [2000, 4000, 8000, 8000, 8000], true⟩ := by
  decide

/-- **The source still does what the model mirrors – semantic essentials** (regenerated on every run by an extractor
that normalises if-chains / switches, flipped comparisons and renamed locals and follows same-type helper methods, so
behaviour-preserving refactorings leave these facts unchanged; `decide` fails when the behaviour described changes):

* hashing: the three auth functions hash their two parameters in order with SHA-256;
* backoff: after a failed attempt the waited duration `b` becomes `min(max, if 2b = 0 then MIN else 2b)` (`nextBackoff`),
  a wait happens iff `b ≠ 0`, `b` starts from the first parameter, the second parameter bounds the attempts
  (`connLoop`/`connect`); call sites pass `(0, 32767)` on a first connect and `(MIN, 32767)` on a reconnect;
* switch: a received error is sent exactly once – to `tempChan` iff `diverted`, else to `mainChan` – with the flag read
  and the send made while holding the mutex, every channel operation honours `quit`, the value sent is the value
  received (`Switch.step`: recv / lock / deliver); `Divert`/`Restore` set both fields under the mutex;
* reconnect body (whatever function holds it): `closeStream` < `connectServerStream` < `checkPendingBatch` < first
  `StartAccountSubscription`; the map is emptied before re-subscribing; every error return that can follow the
  emptying keeps the accounts; a failing batch check keeps them too (`reconnectOnce`, `resubLoop`, `keepAccts`);
  `HandleServerShutdown` starts over while dirty, the reader only marks a running reconnect dirty (`handleShutdown`);
* `connectAndAuthenticate`: Divert < map insertion < authenticate with Restore deferred, never deletes, re-connects
  inline at the three places the diverted `ErrServerErrored` can surface (`connectAndAuth`);
* `authenticate`: CommitAccount (stored in the subscription), send, AuthHash(commit, copied challenge), SignMessage
  (that hash, account key locator), send (`authCommit`/`authSubscribe`);
* `serverHandler`: reconnects for every error that is neither nil nor `ErrServerShutdown` and retries while the result
  is neither nil nor `ErrClientShutdown` (`handlerLoop`). -/
theorem C18_source_essentials :
    Pool.Gen.C18.hashOrderCommitAccount = [0, 1] ∧ Pool.Gen.C18.hashOrderAuthChallenge = [0, 1] ∧
    Pool.Gen.C18.hashOrderAuthHash = [0, 1] ∧ Pool.Gen.C18.concatAndHashWrites = ["0", "1"] ∧
    Pool.Gen.C18.concatAndHashIsSha256 = true ∧
    Pool.Gen.C18Sem.backoffUpdate =
      "ite((MAX < ite(((2 * b) == 0), MIN, (2 * b))), MAX, ite(((2 * b) == 0), MIN, (2 * b)))" ∧
    Pool.Gen.C18Sem.waitGuard = "(0 != b)" ∧ Pool.Gen.C18Sem.backoffInitParam = 0 ∧
    Pool.Gen.C18Sem.retryBoundParam = 1 ∧
    Pool.Gen.C18Sem.firstConnectInit = "0" ∧ Pool.Gen.C18Sem.reconnectInit = "MIN" ∧
    Pool.Gen.C18Sem.firstConnectRetries = Pool.Gen.C18.reconnectRetries ∧
    Pool.Gen.C18Sem.reconnectRetriesArg = Pool.Gen.C18.reconnectRetries ∧
    Pool.Gen.C18Sem.switchRouting = ["!s.diverted -> s.mainChan", "s.diverted -> s.tempChan"] ∧
    Pool.Gen.C18Sem.switchSendsUnderMutex = true ∧ Pool.Gen.C18Sem.switchDivertedReadUnderMutex = true ∧
    Pool.Gen.C18Sem.switchSendsHonourQuit = true ∧ Pool.Gen.C18Sem.switchRecvHonoursQuit = true ∧
    Pool.Gen.C18Sem.switchForwardsReceived = true ∧
    Pool.Gen.C18Sem.divertLocked = true ∧ Pool.Gen.C18Sem.divertSets = ["s.diverted = true", "s.tempChan = <arg>"] ∧
    Pool.Gen.C18Sem.restoreLocked = true ∧ Pool.Gen.C18Sem.restoreSets = ["s.diverted = false", "s.tempChan = nil"] ∧
    Pool.Gen.C18Sem.reconnectOrder = true ∧ Pool.Gen.C18Sem.reconnectEmptiesMapFirst = true ∧
    Pool.Gen.C18Sem.reconnectKeepsOnFailure = true ∧ Pool.Gen.C18Sem.batchFailureKeeps = true ∧
    Pool.Gen.C18Sem.shutdownStartsOverWhileDirty = true ∧
    Pool.Gen.C18Sem.noticeOnlyMarksWhileReconnecting = true ∧ Pool.Gen.C18Sem.noticeElseHandles = true ∧
    Pool.Gen.C18Sem.subscribeOrder = true ∧ Pool.Gen.C18Sem.inlineReconnects = 3 ∧
    Pool.Gen.C18Sem.subscribeNeverDeletes = true ∧
    Pool.Gen.C18Sem.authenticateCalls =
      ["account.CommitAccount", "s.sendMsg", "account.AuthHash", "s.signer.SignMessage", "s.sendMsg"] ∧
    Pool.Gen.C18Sem.commitStoredInSubscription = true ∧ Pool.Gen.C18Sem.authHashOfCommitAndChallenge = true ∧
    Pool.Gen.C18Sem.signsAuthHashWithAccountKey = true ∧
    Pool.Gen.C18Sem.handlerGuard = ["auctioneer.ErrServerShutdown != e", "e != nil"] ∧
    Pool.Gen.C18Sem.handlerRetryWhile = ["auctioneer.ErrClientShutdown != e", "e != nil"] ∧
    Pool.Gen.C18Sem.handlerRetryFeedsBack = true := by decide

/-- **The auth functions share no mutable state** (regenerated call-graph fact): `CommitAccount`, `AuthChallenge`,
`AuthHash` and everything they call inside package account reference no package-level variable, so handshakes that
hash at the same time (several clients, client and sidecar acceptor, client and auctioneer in one process) cannot
disturb each other – each digest is the pure function of `C18_handshake_verifiable`. -/
theorem C18_auth_stateless : Pool.Gen.C18.authPkgVarRefs = [] := by decide

/-- the source contains the four repairs: the driver's model variant (read from the regenerated shapes) is the one
the theorems below are about -/
theorem C18_source_is_repaired : variantOfSource = Variant.fixed := by decide

/-- outside the guard the doubling can wrap: with `max ≥ 2^62` a backoff of `2^62` ns doubles to `-2^63`, which is
"waited" as zero time – the guard of `C18_backoff_shape` is needed -/
theorem C18_backoff_guard_needed :
    (connect (2 ^ 62) 1 (2 ^ 63 - 1) 3 1).backoffs = [-(2 ^ 63)] := by decide

/-- **Switch: nothing lost, nothing duplicated, routed by the divert state at processing time.**  For every schedule
of the atomic steps (sends by any number of goroutines, `run`'s receive / lock / hand-over, `Divert`, `Restore`, in
any interleaving; disabled steps are skipped) started from a fresh switch:
1. the errors sent are, as a multiset, exactly those still inside the switch plus those handed to a target;
2. every error handed over went to a temporary channel iff `diverted` was set when `run` took the mutex for it;
3. once nothing is inside the switch, the delivered errors are a permutation of the sent ones. -/
theorem C18_switch_no_loss (as : List Act) :
    let s := ({} : Switch).run as
    List.Perm (sentOf as) (s.inside ++ s.delivered.map (·.1)) ∧
    (∀ x ∈ s.delivered, (∃ c, x.2.1 = Target.temp c) ↔ x.2.2 = true) ∧
    (s.inside = [] → List.Perm (sentOf as) (s.delivered.map (·.1))) := by
  intro s
  have hp : List.Perm (sentOf as) (s.inside ++ s.delivered.map (·.1)) := by
    rw [List.perm_iff_count]
    intro x
    have := run_count as {} x
    simp only [dl, Switch.inside] at this ⊢
    simp only [s]
    simp at this ⊢
    omega
  refine ⟨hp, (swInv_run as {} swInv_init).2.2, ?_⟩
  intro he
  simpa [he] using hp

/-- the switch itself never blocks an error: whenever something is inside, one of `run`'s own steps is enabled (the
only thing it ever waits for is the reader of the chosen target channel, modelled by `deliver`) -/
theorem C18_switch_progress (s : Switch) (h : s.inside ≠ []) :
    (s.step (.recv 0)).isSome ∨ (s.step .lock).isSome ∨ (s.step .deliver).isSome := by
  cases hi : s.inflight with
  | some x => right; right; simp [Switch.step, hi]
  | none =>
    cases hh : s.held with
    | some e => right; left; simp [Switch.step, hi, hh]
    | none =>
      left
      cases hp : s.pending with
      | nil => simp [Switch.inside, hi, hh, hp] at h
      | cons a l => simp [Switch.step, hi, hh, hp]

example : (({} : Switch).run [.send 1, .divert 7, .recv 0, .lock, .restore, .send 2, .deliver, .restore, .recv 0,
    .lock, .deliver]).delivered = [(1, .temp 7, true), (2, .main, false)] := by decide

/-! ## client bookkeeping over fault events -/

/-- quiescent and healthy: either nothing was ever subscribed, or the newest stream is alive and the auctioneer has
received on it exactly one (verified, acknowledged) subscription per account of `subscribedAccts` -/
def Healthy (c : Client) : Prop :=
  c.accts.Nodup ∧ c.chaos = false ∧
  ((c.isOpen = false ∧ c.accts = []) ∨
   (c.isOpen = true ∧ c.cur.alive = true ∧ List.Perm c.cur.subs c.accts ∧ c.cur.success = c.cur.subs))

theorem healthy_of_live {c : Client} (h : Live c) : Healthy c :=
  ⟨h.nodup, h.chaos, Or.inr ⟨h.isOpen, h.alive, h.perm, h.succ⟩⟩

/-- The property's re-subscription clause over the model of variant `v`: from a healthy state with an open stream, a
transport error or a shutdown notice while idle, any number `k` of refused reconnects, any numbers `fo` / `fb` of
reconnect attempts that fail after a successful `Terms` probe (the stream open / the pending-batch check fails), any
map iteration order `pick`, and any faults of the model – transport errors (before the challenge, between challenge
and subscribe, after the subscribe) and shutdown notices (before / after the challenge) – hitting the handshakes of
the re-subscription and of the reconnects these cause in turn: afterwards the newest stream is alive and carries every
previously subscribed account exactly once, acknowledged; the state is healthy again (so the statement iterates over
any sequence of such faults). -/
def C18_resubscribed_statement (v : Variant) : Prop :=
  ∀ (pick : List Nat → List Nat), (∀ l, List.Perm (pick l) l) →
  ∀ (c : Client), Healthy c → c.isOpen = true → ∀ (op : Op), (op = .errIdle ∨ op = .shutIdle) →
  ∀ (k fo fb : Nat) (beh : List Beh), FaultsOnly beh →
    let c' := ((c.script k beh fo fb).step v pick op).1
    Healthy c' ∧ c'.cur.alive = true ∧ List.Perm c'.cur.subs c.accts ∧ c'.cur.success = c'.cur.subs ∧
      List.Perm c'.accts c.accts ∧ c.streams.length < c'.streams.length

/-- **Re-subscribed exactly once – full strength, for the repaired code.**  No hypothesis about where the faults
fall: a transport error that hits a handshake is absorbed by an inline reconnect that re-subscribes the whole map; a
shutdown notice that hits a re-subscription makes the running reconnect start over with the whole map kept; a
reconnect attempt that fails at the stream open or the pending-batch check keeps the whole map and is retried by the
main handler. -/
theorem C18_resubscribed_once : C18_resubscribed_statement Variant.fixed := by
  intro pick hpick c hH hopen op hop k fo fb beh ht c'
  obtain ⟨hnd, hch, hst⟩ := hH
  rcases hst with ⟨hcl, _⟩ | ⟨_, halive, _, _⟩
  · simp [hopen] at hcl
  have hP := PHs_all pick hpick (beh.length + fo + fb)
  have hopen' : (c.script k beh fo fb).isOpen = true := hopen
  have halive' : (c.script k beh fo fb).cur.alive = true := halive
  have hbl : (c.script k beh fo fb).beh = beh := rfl
  have hfo : (c.script k beh fo fb).failOpen = fo := rfl
  have hfb : (c.script k beh fo fb).failBatch = fb := rfl
  have fin : ∀ c2 : Client, Live c2 → List.Perm c2.accts c.accts → c.streams.length < c2.streams.length →
      Healthy c2 ∧ c2.cur.alive = true ∧ List.Perm c2.cur.subs c.accts ∧ c2.cur.success = c2.cur.subs ∧
      List.Perm c2.accts c.accts ∧ c.streams.length < c2.streams.length :=
    fun c2 hl hp hs => ⟨healthy_of_live hl, hl.alive, hl.perm.trans hp, hl.succ, hp, hs⟩
  rcases hop with rfl | rfl
  · -- transport error while idle: reader → switch (not diverted) → main handler → HandleServerShutdown(err), retried
    obtain ⟨f1, f2, _, _, f5, f6, _, _, _, f10, f11⟩ :=
      setCur_fields (c.script k beh fo fb) (fun s => { s with alive := false })
    let c1 : Client := { (c.script k beh fo fb).failStream with
      mainErrs := (c.script k beh fo fb).failStream.mainErrs ++ [ErrClass.serverErrored] }
    obtain ⟨c2, h, hl, hp, hs⟩ := handlerLoop_live pick hpick (beh.length + fo + fb) hP (beh.length + fo + fb) c1
      (by show (c.script k beh fo fb).failStream.accts.Nodup; rw [Client.failStream, f1]; exact hnd)
      (by show (c.script k beh fo fb).failStream.chaos = false; rw [Client.failStream, f5]; exact hch)
      (by show FaultsOnly (c.script k beh fo fb).failStream.beh; rw [Client.failStream, f2]; exact ht)
      (by show (c.script k beh fo fb).failStream.beh.length ≤ _; rw [Client.failStream, f2, hbl]; omega)
      (by show (c.script k beh fo fb).failStream.failOpen + (c.script k beh fo fb).failStream.failBatch ≤ _
          rw [Client.failStream, f10, f11, hfo, hfb]; omega)
    have e : c' = c2 := by
      simp only [c', Client.step, hopen', halive', Bool.and_self, if_true, Client.mainHandler, hbl, hfo, hfb]
      exact h
    rw [e]
    have hp1 : List.Perm c2.accts c.accts := by
      refine hp.trans ?_
      show List.Perm (c.script k beh fo fb).failStream.accts c.accts
      rw [Client.failStream, f1]; exact List.Perm.refl _
    have hs1 : c.streams.length < c2.streams.length := by
      have : c1.streams.length = c.streams.length := by
        show (c.script k beh fo fb).failStream.streams.length = _
        rw [Client.failStream, f6]; rfl
      omega
    exact fin _ hl hp1 hs1
  · -- shutdown notice while idle: the reader goroutine runs HandleServerShutdown(nil) itself; a failed attempt is
    -- forwarded to the main handler, which retries
    obtain ⟨c1, r, h, o⟩ := hss_of_P pick hpick (beh.length + fo + fb) hP (beh.length + fo + fb)
      (c.script k beh fo fb) hnd hch ht (by rw [hbl]; omega) (by rw [hbl]; omega)
    simp only [hsF] at h
    simp only [ROutcome, hbl, hfo, hfb] at o
    rcases o with ⟨rfl, hl, hp, _, _, _, _, hs⟩ | ⟨hf, _⟩ | ⟨hr, hnd1, hp1, hch1, hfo1, hfb1, hu, ht1, hl1, hs1⟩
    · have e : c' = c1 := by
        simp only [c', Client.step, hopen', halive', Bool.and_self, if_true, Client.readerShutdown, hbl, hfo, hfb]
        rw [h]
      rw [e]
      exact fin _ hl hp hs
    · exact absurd hf (by simp)
    · obtain ⟨c2, h2, hl2, hp2, hs2⟩ := handlerLoop_live pick hpick (beh.length + fo + fb) hP (beh.length + fo + fb)
        { c1 with mainErrs := c1.mainErrs ++ [ErrClass.other] } hnd1 hch1 ht1
        (by show c1.beh.length ≤ _; omega)
        (by show c1.failOpen + c1.failBatch ≤ _; omega)
      have e : c' = c2 := by
        simp only [c', Client.step, hopen', halive', Bool.and_self, if_true, Client.readerShutdown, hbl, hfo, hfb]
        rw [h]
        rcases hr with rfl | rfl <;> exact h2
      rw [e]
      exact fin _ hl2 (hp2.trans hp1)
        (by have : c1.streams.length < c2.streams.length := hs2
            have hs1' : c.streams.length ≤ c1.streams.length := hs1
            omega)

/-- a healthy three-account state used as witness below -/
def witness3 : Client :=
  { accts := [0, 1, 2], isOpen := true, streams := [{ subs := [0, 1, 2], success := [0, 1, 2] }], attempts := 1 }

theorem witness3_healthy : Healthy witness3 :=
  ⟨by decide, rfl, Or.inr ⟨rfl, rfl, List.Perm.refl _, rfl⟩⟩

-- non-vacuity: shutdown notice, 3 refused reconnects, the 2nd re-subscription fails before its challenge, the first
-- handshake of the nested reconnect fails between challenge and subscribe; map iterated in reverse
example : FaultsOnly [.ok, .errBC, .errMid] ∧
    (((witness3.script 3 [.ok, .errBC, .errMid]).step Variant.fixed List.reverse .shutIdle).1.cur.subs = [1, 2, 0]) ∧
    ((witness3.script 3 [.ok, .errBC, .errMid]).step Variant.fixed List.reverse .shutIdle).1.attempts = 7 ∧
    ((witness3.script 3 [.ok, .errBC, .errMid]).step Variant.fixed List.reverse .shutIdle).1.streams.length = 4 := by
  refine ⟨by intro b hb; simp at hb; rcases hb with rfl | rfl | rfl <;> simp, by decide +kernel, by decide +kernel, by decide +kernel⟩

-- non-vacuity with failing reconnect attempts: shutdown notice; the first attempt's stream open fails, the second one's
-- pending-batch check fails, the third one's first handshake is hit by a transport error (absorbed inline)
example : (((witness3.script 2 [.errAC] 1 1).step Variant.fixed id .shutIdle).1.cur.subs = [0, 1, 2]) ∧
    ((witness3.script 2 [.errAC] 1 1).step Variant.fixed id .shutIdle).1.mainErrs = [.other] ∧
    ((witness3.script 2 [.errAC] 1 1).step Variant.fixed id .shutIdle).1.handlerRes = [.other, .none_] := by
  decide +kernel

/-- **Subscribing is resilient too (repaired code).**  A first or further `StartAccountSubscription`, with any faults
of the model hitting its own handshake or the re-subscriptions of the reconnects they cause, leaves a healthy state
with the account in the map exactly once and subscribed on the newest stream.  It returns nil, or – when its own
handshake was hit by a shutdown notice (model: `HsRes.errShutdown`) – an error although the reconnect run by the
stream's reader subscribes the account as well (as the Go code does). -/
theorem C18_subscribe_resilient (pick : List Nat → List Nat) (hpick : ∀ l, List.Perm (pick l) l)
    (c : Client) (hH : Healthy c) (a k : Nat) (beh : List Beh) (ht : FaultsOnly beh) :
    let r := (c.script k beh).step Variant.fixed pick (.sub a)
    (r.2 = .ok ∨ r.2 = .err) ∧
      Healthy r.1 ∧ List.Perm r.1.accts (addAcct c.accts a) := by
  obtain ⟨hnd, hch, hst⟩ := hH
  intro r
  have hP := PHs_all pick hpick beh.length
  have hbl : (c.script k beh).beh = beh := rfl
  have hfo : (c.script k beh).failOpen = 0 := rfl
  have hfb : (c.script k beh).failBatch = 0 := rfl
  by_cases ha : a ∈ c.accts
  · have : r = (c.script k beh, .ok) := by
      have ha' : a ∈ (c.script k beh).accts := ha
      simp only [r, Client.step, hbl, hfo, hfb, Nat.add_zero]
      cases hbl : beh.length <;> simp [hsLevel, Client.connectAndAuth, ha']
    rw [this]
    exact ⟨Or.inl rfl, ⟨hnd, hch, hst⟩, by simp [Client.script, addAcct, ha]⟩
  · -- the live state the handshake starts from (after the first connect, if there is no stream yet)
    have key : ∀ c0 : Client, Live c0 → c0.accts = c.accts → c0.beh = beh → c0.failOpen = 0 → c0.failBatch = 0 →
        hsLevel Variant.fixed pick beh.length (c.script k beh) a = hsLevel Variant.fixed pick beh.length c0 a →
        (r.2 = .ok ∨ r.2 = .err) ∧
          Healthy r.1 ∧ List.Perm r.1.accts (addAcct c.accts a) := by
      intro c0 hl h1 h2 hz1 hz2 heq
      obtain ⟨c', res, h, o⟩ := hP c0 a hl (by rw [h1]; exact ha) (by rw [h2]; exact ht) (by rw [h2])
      simp only [hsF] at h
      rcases o with ⟨rfl, p⟩ | ⟨rfl, ab⟩ | ⟨_, fl⟩
      rotate_left 2
      · -- no failing open / batch check is scripted
        have := fl.used; omega
      · have : r = (c', .ok) := by
          simp only [r, Client.step, hbl, hfo, hfb, Nat.add_zero, heq]
          rw [h]
        rw [this]
        refine ⟨Or.inl rfl, healthy_of_live p.live, ?_⟩
        have := p.perm
        rw [h1] at this
        simpa [addAcct, ha] using this
      · -- the notice hit this very handshake: the stream's reader runs HandleServerShutdown(nil)
        obtain ⟨c2, r2, h2', o2⟩ := hss_of_P pick hpick beh.length hP beh.length c' ab.nodup ab.chaos
          ab.tr (by have := ab.len; rw [h2] at this; omega) (by have := ab.len; rw [h2] at this; omega)
        simp only [hsF] at h2'
        rcases o2 with ⟨rfl, hl2, hp2, _⟩ | ⟨hf, _⟩ | ⟨_, _, _, _, _, _, hu, _⟩
        rotate_left
        · exact absurd hf (by simp)
        · have := ab.fo; have := ab.fb; omega
        have : r = (c2, .err) := by
          simp only [r, Client.step, hbl, hfo, hfb, Nat.add_zero, heq]
          rw [h]
          simp only [Client.readerShutdown, h2']
        rw [this]
        refine ⟨Or.inr rfl, healthy_of_live hl2, ?_⟩
        · have := hp2.trans ab.perm
          rw [h1] at this
          simpa [addAcct, ha] using this
    rcases hst with ⟨hcl, hemp⟩ | ⟨hop, halive, hperm, hsucc⟩
    · have hcl' : (c.script k beh).isOpen = false := hcl
      have ha' : a ∉ (c.script k beh).accts := ha
      refine key (c.script k beh).connectStream ?_ rfl rfl rfl rfl ?_
      · refine ⟨rfl, rfl, ?_, rfl, ?_, hch⟩
        · show List.Perm [] c.accts; rw [hemp]
        · show c.accts.Nodup; exact hnd
      · cases beh.length <;>
          simp [hsLevel, Client.connectAndAuth, ha', hcl', Client.connectStream, hfo, hfb]
    · exact key (c.script k beh) ⟨hop, halive, hperm, hsucc, hnd, hch⟩ rfl rfl rfl rfl rfl

/-- **The clause is false for the code before the repairs** (finding `resubscribe-abort-drops-accounts`, now fixed):
three accounts, shutdown notice, the second re-subscription is hit by a transport error before the challenge – the
loop returns, the error reaches the main handler, which reconnects and re-subscribes only the two accounts still in
the map; account 2 is never subscribed again.  Replayed on the real client by corpus/C18/defects.json. -/
theorem C18_resubscribed_orig_false : ¬ C18_resubscribed_statement Variant.orig := by
  intro h
  have := h id (fun _ => List.Perm.refl _) witness3 witness3_healthy rfl .shutIdle (Or.inr rfl) 1 0 0 [.ok, .errBC]
    (by intro b hb; simp at hb; rcases hb with rfl | rfl <;> simp)
  have e : ((witness3.script 1 [.ok, .errBC]).step Variant.orig id .shutIdle).1.cur.subs = [0, 1] := by decide +kernel
  have h3 : List.Perm ((witness3.script 1 [.ok, .errBC]).step Variant.orig id .shutIdle).1.cur.subs witness3.accts :=
    this.2.2.1
  rw [e] at h3
  exact absurd h3.length_eq (by decide)

/-- each of the three repairs is needed (model computations; `reject` = the auctioneer answers one subscription with
an error, which makes `HandleServerShutdown` fail without a transport error):
without the inline reconnect a transport error in a direct handshake leaves a dead stream; without keeping the
accounts a failed re-subscription loses account 2 for good; without the handler retry the client stays with one
account subscribed. -/
-- non-vacuity with shutdown notices inside the re-subscription: the first re-subscription gets a notice instead of
-- its final answer, the reconnect starts over, whose second handshake gets one instead of the challenge
example : FaultsOnly [.shutAC, .ok, .shutBC] ∧
    (((witness3.script 0 [.shutAC, .ok, .shutBC]).step Variant.fixed id .errIdle).1.cur.subs = [0, 1, 2]) ∧
    ((witness3.script 0 [.shutAC, .ok, .shutBC]).step Variant.fixed id .errIdle).1.streams.length = 4 ∧
    ((witness3.script 0 [.shutAC, .ok, .shutBC]).step Variant.fixed id .errIdle).1.handlerRes = [.none_] := by
  refine ⟨by intro b hb; simp at hb; rcases hb with rfl | rfl | rfl <;> simp, by decide +kernel, by decide +kernel,
    by decide +kernel⟩

-- a failing pending-batch check during the reconnect (b7e2cef): every account is kept for the next attempt, which the
-- main handler makes; nothing is closed twice (the model has no second close of the same subscription to offer: the
-- kept entries are fresh inactive ones)
example :
    ((witness3.script 1 [] 0 1).step Variant.fixed id .errIdle).1.cur.success = [0, 1, 2] ∧
    ((witness3.script 1 [] 0 1).step Variant.fixed id .errIdle).1.handlerRes = [.other, .none_] ∧
    ((witness3.script 1 [] 0 1).step Variant.fixed id .errIdle).1.streams.length = 3 ∧
    ((witness3.script 0 [] 1 2).step Variant.fixed id .shutIdle).1.cur.success = [0, 1, 2] ∧
    ((witness3.script 0 [] 1 2).step Variant.fixed id .shutIdle).1.mainErrs = [.other] := by decide +kernel

-- a shutdown notice right behind an account's success while the reconnect is still re-subscribing (`okShut`): the
-- reader closes the new stream and marks the reconnect dirty; at the last account the reconnect simply starts over,
-- at an earlier one the remaining accounts first set up another stream; either way everything ends subscribed once.
-- A reconnect that stopped as soon as an attempt returned nil would leave the closed stream (first component).
example :
    ((witness3.script 0 [.ok, .ok, .okShut]).reconnectOnce Variant.fixed id (hsLevel Variant.fixed id 3)).1.isOpen = false ∧
    ((witness3.script 0 [.ok, .ok, .okShut]).step Variant.fixed id .errIdle).1.cur.success = [0, 1, 2] ∧
    ((witness3.script 0 [.ok, .ok, .okShut]).step Variant.fixed id .errIdle).1.streams.length = 3 ∧
    ((witness3.script 0 [.okShut, .ok, .ok]).step Variant.fixed id .shutIdle).1.cur.success = [0, 1, 2] ∧
    ((witness3.script 0 [.okShut, .ok, .ok]).step Variant.fixed id .shutIdle).1.streams.length = 4 := by
  decide +kernel

theorem C18_each_repair_needed :
    ((witness3.script 0 [.errBC]).step ⟨true, false, true, true⟩ id (.sub 3)).1.cur.alive = false ∧
    ((witness3.script 0 [.ok, .reject]).step ⟨false, true, true, true⟩ id .errIdle).1.accts = [0, 1] ∧
    ((witness3.script 0 [.ok, .reject]).step ⟨true, true, false, true⟩ id .errIdle).1.cur.success = [0] ∧
    ((witness3.script 0 [.ok, .reject]).step Variant.fixed id .errIdle).1.cur.success = [0, 1, 2] ∧
    ((witness3.script 0 [.ok, .shutBC]).step ⟨true, true, true, false⟩ id .errIdle).1.chaos = true := by decide +kernel

end Pool.C18
