import PoolModel.C18
namespace Pool.C18

theorem C18_handshake_verifiable (H : Bytes → Bytes) (key nonce ch : Bytes) (ver : Nat) :
    ∃ c sub, authCommit H key nonce ver = .commit c ver ∧ authSubscribe H key nonce ch = sub ∧
      serverVerify H c (copyN 32 ch) sub = true := by
  refine ⟨_, _, rfl, rfl, ?_⟩
  simp [serverVerify, authSubscribe, commitAccount, authHash, concatAndHash]

end Pool.C18
