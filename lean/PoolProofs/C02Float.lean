import PoolProofs.C01
import PoolProofs.C02Lemmas
import PoolProofs.Float64
/-!
# C02 with the exact binary64 premium

The C02 theorems hold for every premium function.  Here the function is instantiated with `floatPremium`
(`PoolModel/Batch.lean`: the exact model of `FixedRatePremium.LumpSumPremium` from `PoolModel/Float64.lean` inside its
domain) – this is what the driver runs against the Go code – and the Float64 theorems are used to state what the
premium summand of the balance equation is worth.
-/
set_option linter.unusedSimpArgs false
set_option linter.unusedVariables false
namespace Pool.C02
open Pool.Batch Pool.Float64

/-- inside the float model's domain the premium is `Float64.premium` -/
theorem C02_floatPremium_eq (fb : Int → Nat → Nat → Int) (amt rate dur : Nat)
    (h : premiumInRange amt rate dur = true) :
    floatPremium fb (amt : Int) rate dur = (premium amt rate dur : Int) := by
  unfold floatPremium
  simp [h]

/-- … hence the exact rational premium `amt·rate·dur/10⁹` up to a relative 2⁻⁵⁰ and the final truncation -/
theorem C02_floatPremium_near (fb : Int → Nat → Nat → Int) (amt rate dur : Nat)
    (h : premiumInRange amt rate dur = true) :
    exactPremium amt rate dur * (1 - 1 / 2 ^ 50) - 1 < ((floatPremium fb (amt : Int) rate dur : Int) : ℚ) ∧
    ((floatPremium fb (amt : Int) rate dur : Int) : ℚ) ≤ exactPremium amt rate dur * (1 + 1 / 2 ^ 50) := by
  rw [C02_floatPremium_eq fb amt rate dur h]
  have := Float64_premium_near amt rate dur
  simpa using this

/-- the domain guard is downward closed in the rate -/
theorem premiumInRange_mono_rate {amt r r' dur : Nat} (hr : r ≤ r') (h : premiumInRange amt r' dur = true) :
    premiumInRange amt r dur = true := by
  unfold premiumInRange at h ⊢
  simp only [Bool.and_eq_true, decide_eq_true_eq] at h ⊢
  obtain ⟨⟨⟨h1, h2⟩, h3⟩, h4⟩ := h
  refine ⟨⟨⟨h1, by omega⟩, h3⟩, ?_⟩
  have := Float64_premium_mono (a := amt) (a' := amt) (r := r) (r' := r') (d := dur) (d' := dur)
    (Nat.le_refl _) hr (Nat.le_refl _)
  unfold premium at this
  omega

/-- the float premium is monotone in the rate (inside the domain at the higher rate) -/
theorem floatPremium_mono_rate (fb : Int → Nat → Nat → Int) {amt r r' dur : Nat} (hr : r ≤ r')
    (h : premiumInRange amt r' dur = true) :
    floatPremium fb (amt : Int) r dur ≤ floatPremium fb (amt : Int) r' dur := by
  rw [C02_floatPremium_eq fb amt r dur (premiumInRange_mono_rate hr h), C02_floatPremium_eq fb amt r' dur h]
  exact_mod_cast Float64_premium_mono (Nat.le_refl _) hr (Nat.le_refl _)

/-- **Premiums respect the order's own rate.**  In an accepted batch, with the float premium: a matched ask earns at
least the premium at its own ask rate, and a matched bid pays at most the premium at its own bid rate – for every
match, on the premium base `a` of that match (any non-negative amount inside the float domain at the higher rate). -/
theorem C02_premium_respects_own_rate (env : Env) (rules : Rules) (b : Batch) (best : UInt32)
    (pending : Option String) (st : Tallies) (fb : Int → Nat → Nat → Int) (hw : WireRanges b)
    (h : (orderMatchValidate env rules b best pending).1 = .ok st) :
    ∀ nm ∈ b.matched, ∃ o, findOrder nm.1 env.orders = some o ∧ ∀ (a : Nat),
      (o.isAsk = true → premiumInRange a (clearingPrice b o.duration) o.duration = true →
        floatPremium fb (a : Int) o.rate o.duration ≤ floatPremium fb (a : Int) (clearingPrice b o.duration) o.duration) ∧
      (o.isAsk = false → premiumInRange a o.rate o.duration = true →
        floatPremium fb (a : Int) (clearingPrice b o.duration) o.duration ≤ floatPremium fb (a : Int) o.rate o.duration) := by
  intro nm hnm
  obtain ⟨_, _, hall⟩ := Pool.C01.C01_accept_honours_terms env rules b best pending st hw h
  obtain ⟨o, ho, _, hcp, _⟩ := hall nm hnm
  refine ⟨o, ho, fun a => ⟨?_, ?_⟩⟩
  · intro hA hr
    simp only [hA, if_true] at hcp
    exact floatPremium_mono_rate fb hcp hr
  · intro hA hr
    simp only [hA, Bool.false_eq_true, if_false] at hcp
    exact floatPremium_mono_rate fb hcp hr

/-- non-vacuity: 3 units at 110 ppb/block for 2016 blocks are inside the domain and cost 66 sat; at the ask's own
rate 100 they would cost 60 sat -/
example : premiumInRange 300000 110 2016 = true ∧ floatPremium (fun _ _ _ => 0) 300000 110 2016 = 66 ∧
    floatPremium (fun _ _ _ => 0) 300000 100 2016 = 60 := by decide

end Pool.C02
