import PoolProofs.C05LemmasHandler
/-! Ghost run, inductive invariant and sighash-preimage injectivity for C05 (helper lemmas and the
definitions the headline theorems are stated with). -/
set_option linter.unusedSimpArgs false
set_option linter.unusedVariables false
namespace Pool.C05
open Pool.Gen.C05

structure Release where
  batch : Option Batch
  verifiedAt : Option St
  db : DB
  prev : List Out
  sigs : List Sig
  staged : Option Staged

structure Ghost where
  lastVerified : Option Batch
  verifiedAt : Option St
  log : List Release

def gstep (verifyOk : St → Batch → Bool) (s : St) (g : Ghost) (op : Op) : St × Ghost :=
  let r := step verifyOk s op
  (r.1, match op, r.2 with
    | .validate b, .val none => { g with lastVerified := some b, verifiedAt := some s }
    | .finalize _ _, .fin .ok => { g with lastVerified := none, verifiedAt := none }
    | .sign _ _ pv, .sign (.ok sigs _) =>
      { g with log := ⟨g.lastVerified, g.verifiedAt, s.db, pv, sigs, r.1.db.staged⟩ :: g.log }
    | _, _ => g)

def grun (verifyOk : St → Batch → Bool) : St → Ghost → List Op → St × Ghost
  | s, g, [] => (s, g)
  | s, g, op :: ops => let r := gstep verifyOk s g op; grun verifyOk r.1 r.2 ops

/-- what the property demands of one release -/
def GoodRelease (verifyOk : St → Batch → Bool) (r : Release) : Prop :=
  ∃ b s0, r.batch = some b ∧ r.verifiedAt = some s0 ∧ verifyOk s0 b = true ∧
    Forall2 (SigFor r.db b.tx r.prev) b.diffs r.sigs ∧
    ∃ rows, r.staged = some { id := b.id, tid := b.tid, tx := b.tx, rows := rows } ∧
      rows.map (·.key) = b.diffs.map (·.acct) ∧ Forall2 (RowFor r.db) b.diffs rows

def Inv (verifyOk : St → Batch → Bool) (s : St) (g : Ghost) : Prop :=
  s.pending.map Batch.core = g.lastVerified.map Batch.core ∧
  (∀ b, g.lastVerified = some b → ∃ s0, g.verifiedAt = some s0 ∧ verifyOk s0 b = true) ∧
  ∀ r ∈ g.log, GoodRelease verifyOk r

theorem inv_init (verifyOk : St → Batch → Bool) (accts : List Acct) (orders : List Ord) :
    Inv verifyOk (initSt accts orders) ⟨none, none, []⟩ := by
  refine ⟨rfl, ?_, ?_⟩ <;> simp

theorem inv_step (verifyOk : St → Batch → Bool) (s : St) (g : Ghost) (op : Op) (h : Inv verifyOk s g) :
    Inv verifyOk (gstep verifyOk s g op).1 (gstep verifyOk s g op).2 := by
  obtain ⟨hp, hv, hl⟩ := h
  cases op with
  | validate b =>
    simp only [gstep, step, validate]
    by_cases hvb : verifyOk s b = true
    · simp only [hvb, Bool.not_true, Bool.false_eq_true, if_false]
      cases hm : checkMatches s.db b.matched with
      | some e => exact ⟨hp, hv, hl⟩
      | none =>
        refine ⟨rfl, ?_, hl⟩
        intro b' hb'
        simp at hb'
        subst hb'; exact ⟨s, rfl, hvb⟩
    · simp only [Bool.not_eq_true] at hvb
      simp only [hvb, Bool.not_false, if_true]
      exact ⟨hp, hv, hl⟩
  | sign f ns pv =>
    simp only [gstep, step]
    have hpend := batchSign_pending (attachAux s ns pv) f
    have hcore : (attachAux s ns pv).pending.map Batch.core = s.pending.map Batch.core := by
      cases hsp : s.pending <;> simp [attachAux, hsp, Batch.core]
    cases hbs : batchSign (attachAux s ns pv) f with
    | mk s' o =>
      have hp' : s'.pending.map Batch.core = g.lastVerified.map Batch.core := by
        have : s'.pending = (attachAux s ns pv).pending := by rw [← hpend, hbs]
        rw [this, hcore, hp]
      cases o with
      | errSign e => exact ⟨hp', hv, hl⟩
      | errStore => exact ⟨hp', hv, hl⟩
      | panic => exact ⟨hp', hv, hl⟩
      | ok S N =>
        refine ⟨hp', hv, ?_⟩
        intro r hr
        simp at hr
        rcases hr with hr | hr
        · subst hr
          obtain ⟨b', rows, hb', hF, hs', hk, _, hrf⟩ := batchSign_ok _ _ _ _ _ hbs
          -- b' is the pending batch with the Sign-message data attached
          cases hsp : s.pending with
          | none => simp [attachAux, hsp] at hb'
          | some b0 =>
            simp [attachAux, hsp] at hb'
            cases hlv : g.lastVerified with
            | none => rw [hsp, hlv] at hp; simp at hp
            | some bl =>
              rw [hsp, hlv] at hp
              simp at hp
              have htx : bl.tx = b0.tx := (congrArg Batch.tx hp).symm
              have hdf : bl.diffs = b0.diffs := (congrArg Batch.diffs hp).symm
              have hid : bl.id = b0.id := (congrArg Batch.id hp).symm
              have htid : bl.tid = b0.tid := (congrArg Batch.tid hp).symm
              obtain ⟨s0, hva, hvo⟩ := hv bl hlv
              refine ⟨bl, s0, rfl, hva, hvo, ?_, rows, ?_, ?_, ?_⟩
              · subst hb'
                simpa [htx, hdf, attachAux] using hF
              · subst hb'
                simp [hs', attachAux, htx, hid, htid]
              · subst hb'
                simpa [hdf] using hk
              · subst hb'
                simpa [hdf, attachAux] using hrf
        · exact hl r hr
  | finalize id mf =>
    simp only [gstep, step, finalize]
    cases hsp : s.pending with
    | none => simpa [hsp] using (show Inv verifyOk s g from ⟨hp, hv, hl⟩)
    | some b =>
      by_cases hid : id ≠ b.id
      · simpa [hid] using (show Inv verifyOk s g from ⟨hp, hv, hl⟩)
      · simp only [hid, if_false]
        cases mf with
        | true => simpa using (show Inv verifyOk s g from ⟨hp, hv, hl⟩)
        | false =>
          cases hm : markComplete s.db with
          | none => simpa [hm] using (show Inv verifyOk s g from ⟨hp, hv, hl⟩)
          | some db' => exact ⟨rfl, by simp, hl⟩
  | unstage => exact ⟨hp, hv, hl⟩
  | modAcct k op out => exact ⟨hp, hv, hl⟩

theorem inv_grun (verifyOk : St → Batch → Bool) (s : St) (g : Ghost) (ops : List Op) (h : Inv verifyOk s g) :
    Inv verifyOk (grun verifyOk s g ops).1 (grun verifyOk s g ops).2 := by
  induction ops generalizing s g with
  | nil => exact h
  | cons op ops ih => exact ih _ _ (inv_step verifyOk s g op h)

/-- the preimage of the sighash types the Go source uses determines the whole transaction, the input
index and the spent-output data -/
theorem preimage_injective (t : Bool) (tx tx' : Tx) (idx idx' : Nat) (sp sp' : List Out)
    (h : preimage t (if t then htTaproot else htP2wsh) tx idx sp =
         preimage t (if t then htTaproot else htP2wsh) tx' idx' sp') :
    tx = tx' ∧ idx = idx' ∧ sp = sp' := by
  have h1 : htP2wsh = 1 := by decide
  have h0 : htTaproot = 0 := by decide
  cases t <;> simp [preimage, outsCommitted, insCommitted, h1, h0] at h <;>
    (obtain ⟨hi, hx, ho, hl, hs⟩ := h
     refine ⟨?_, hx, hs⟩
     cases tx; cases tx'; simp_all)

end Pool.C05
