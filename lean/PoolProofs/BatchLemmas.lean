import PoolModel.Batch
/-! Helper lemmas shared by the C01/C02/C03 proofs: what each accepting step of the model implies. -/
set_option linter.unusedSimpArgs false
set_option linter.unusedVariables false
namespace Pool.Batch

/-! ## height window -/

theorem heightOk_sound (best hint : UInt32) (h : heightOk best hint = true) :
    hint.toNat ≤ best.toNat + 3 ∧ best.toNat ≤ hint.toNat + 3 := by
  unfold heightOk at h
  have hp : (UInt32.ofNat Pool.Gen.heightHintPadding).toNat = 3 := by decide
  simp only [Bool.not_eq_true', Bool.or_eq_false_iff, decide_eq_false_iff_not, UInt32.lt_iff_toNat_lt,
    UInt32.toNat_sub, UInt32.toNat_add, hp] at h
  have := best.toNat_lt
  have := hint.toNat_lt
  omega

/-! ## validateMatchedOrder / orderChecks / node filter -/

/-- the value `validateMatchedOrder` returns when it accepts (0 otherwise) -/
def delta (env : Env) (b : Batch) (o : Ours) (cp : Nat) (t : Their) : Int :=
  match validateMatchedOrder env b o t cp with
  | .ok d => d
  | .error _ => 0

theorem validateMatchedOrder_ok {env : Env} {b : Batch} {o : Ours} {t : Their} {cp : Nat} {d : Int}
    (h : validateMatchedOrder env b o t cp = .ok d) :
    t.isAsk ≠ o.isAsk ∧ o.auctionType = t.auctionType ∧ t.nodeKey ≠ env.ourNode ∧ t.duration = o.duration ∧
    (if o.isAsk then o.rate ≤ t.rate else t.rate ≤ o.rate) := by
  unfold validateMatchedOrder at h
  split at h <;> try contradiction
  split at h <;> try contradiction
  split at h <;> try contradiction
  split at h
  · split at h <;> try contradiction
    split at h <;> try contradiction
    simp_all
  · split at h <;> try contradiction
    split at h <;> try contradiction
    simp_all

theorem orderChecks_ok {o : Ours} {cp units : Nat} (h : orderChecks o cp units = .ok ()) :
    (if o.isAsk then o.rate ≤ cp else cp ≤ o.rate) ∧ units ≤ o.unitsUnfulfilled ∧
    (o.auctionType ≠ Pool.Gen.Batch.btcOutboundLiquidity → o.minUnitsMatch ≤ units) := by
  unfold orderChecks at h
  split at h <;> try contradiction
  split at h <;> try contradiction
  split at h <;> try contradiction
  split at h <;> try contradiction
  cases hA : o.isAsk <;> simp_all <;> omega


/-! ## the inner loop -/

/-- one successful step of the inner loop -/
def loopStep (env : Env) (b : Batch) (o : Ours) (cp : Nat) (a : Int × Nat × Nat) (t : Their) : Int × Nat × Nat :=
  (w64 (a.1 + delta env b o cp t), u32 (a.2.1 + 1), u64 (a.2.2 + t.unitsFilled))

theorem matchLoop_ok {env : Env} {b : Batch} {o : Ours} {cp : Nat} :
    ∀ (ts : List Their) (acc res : Int × Nat × Nat), matchLoop env b o cp ts acc = .ok res →
      (∀ t ∈ ts, (∃ d, validateMatchedOrder env b o t cp = .ok d) ∧ channelOutput env b.txOuts o t = .ok ()) ∧
      res = ts.foldl (loopStep env b o cp) acc := by
  intro ts
  induction ts with
  | nil => intro acc res h; simp [matchLoop] at h; simp [h]
  | cons t ts ih =>
    intro acc res h
    obtain ⟨bal, chans, units⟩ := acc
    simp only [matchLoop] at h
    split at h <;> try contradiction
    rename_i d hd
    split at h <;> try contradiction
    rename_i hc
    have := ih _ _ h
    refine ⟨?_, ?_⟩
    · intro t' ht'
      rcases List.mem_cons.mp ht' with rfl | ht'
      · exact ⟨⟨d, hd⟩, hc⟩
      · exact this.1 t' ht'
    · rw [this.2]
      simp [List.foldl, loopStep, delta, hd]

/-- the inner loop accepts iff every match passes both tests (the accumulator plays no role) -/
theorem matchLoop_isOk {env : Env} {b : Batch} {o : Ours} {cp : Nat} :
    ∀ (ts : List Their) (acc : Int × Nat × Nat),
      (∀ t ∈ ts, (∃ d, validateMatchedOrder env b o t cp = .ok d) ∧ channelOutput env b.txOuts o t = .ok ()) →
      matchLoop env b o cp ts acc = .ok (ts.foldl (loopStep env b o cp) acc) := by
  intro ts
  induction ts with
  | nil => intro acc _; simp [matchLoop]
  | cons t ts ih =>
    intro acc h
    obtain ⟨bal, chans, units⟩ := acc
    obtain ⟨⟨d, hd⟩, hc⟩ := h t (List.mem_cons_self)
    simp only [matchLoop, hd, hc]
    rw [ih _ (fun t' ht' => h t' (List.mem_cons_of_mem _ ht'))]
    simp [List.foldl, loopStep, delta, hd]


/-! ## projections of the inner-loop fold -/

def foldW (δ : Their → Int) (a : Int) (ts : List Their) : Int := ts.foldl (fun a t => w64 (a + δ t)) a
def foldC (c : Nat) (ts : List Their) : Nat := ts.foldl (fun c _ => u32 (c + 1)) c
def foldU (u : Nat) (ts : List Their) : Nat := ts.foldl (fun u t => u64 (u + t.unitsFilled)) u

theorem fold_loopStep (env : Env) (b : Batch) (o : Ours) (cp : Nat) :
    ∀ (ts : List Their) (a : Int) (c u : Nat),
      ts.foldl (loopStep env b o cp) (a, c, u) = (foldW (delta env b o cp) a ts, foldC c ts, foldU u ts) := by
  intro ts
  induction ts with
  | nil => intro a c u; rfl
  | cons t ts ih => intro a c u; simp only [List.foldl, loopStep, foldW, foldC, foldU] at *; rw [ih]

theorem w64_w64 (x : Int) : w64 (w64 x) = w64 x := by unfold w64; exact Int.bmod_bmod

theorem w64_add_left (x y : Int) : w64 (w64 x + y) = w64 (x + y) := by unfold w64; exact Int.bmod_add_bmod
theorem w64_add_right (x y : Int) : w64 (x + w64 y) = w64 (x + y) := by unfold w64; exact Int.add_bmod_bmod
theorem w64_sub_right (x y : Int) : w64 (x - w64 y) = w64 (x - y) := by unfold w64; exact Int.sub_bmod_bmod
theorem w64_sub_left (x y : Int) : w64 (w64 x - y) = w64 (x - y) := by
  have := w64_add_left x (-y); simpa [Int.sub_eq_add_neg] using this

theorem w64_foldW (δ : Their → Int) : ∀ (ts : List Their) (a : Int),
    w64 (foldW δ a ts) = w64 (a + (ts.map δ).sum) := by
  intro ts
  induction ts with
  | nil => intro a; simp [foldW]
  | cons t ts ih =>
    intro a
    have := ih (w64 (a + δ t))
    simp only [foldW, List.foldl] at this ⊢
    rw [this, w64_add_left]
    simp [List.map, List.sum_cons, Int.add_assoc]

theorem foldW_cons_ne (δ : Their → Int) (a : Int) (t : Their) (ts : List Their) :
    foldW δ a (t :: ts) = w64 (a + ((t :: ts).map δ).sum) := by
  have h1 : foldW δ a (t :: ts) = foldW δ (w64 (a + δ t)) ts := rfl
  have h2 : ∀ (ts : List Their) (x : Int), foldW δ (w64 x) ts = w64 (foldW δ (w64 x) ts) := by
    intro ts
    induction ts with
    | nil => intro x; simp [foldW, w64_w64]
    | cons t ts ih => intro x; exact ih _
  rw [h1, h2, w64_foldW, w64_add_left]
  simp [List.map, List.sum_cons, Int.add_assoc]

theorem foldW_eq (δ : Their → Int) (a : Int) (ts : List Their) :
    foldW δ a ts = if ts = [] then a else w64 (a + (ts.map δ).sum) := by
  cases ts with
  | nil => simp [foldW]
  | cons t ts => simp [foldW_cons_ne]

theorem u32_u32_succ (c : Nat) : u32 (u32 c + 1) = u32 (c + 1) := by unfold u32; omega

theorem foldC_eq : ∀ (ts : List Their) (c : Nat), u32 (foldC c ts) = u32 (c + ts.length) := by
  intro ts
  induction ts with
  | nil => intro c; simp [foldC]
  | cons t ts ih =>
    intro c
    have := ih (u32 (c + 1))
    simp only [foldC, List.foldl] at this ⊢
    rw [this]
    unfold u32
    simp only [List.length_cons]
    omega

theorem foldC_eq' (ts : List Their) (c : Nat) (hc : c < 2 ^ 32) : foldC c ts = u32 (c + ts.length) := by
  cases ts with
  | nil => simp [foldC, u32]; omega
  | cons t ts =>
    have h2 : ∀ (ts : List Their) (x : Nat), foldC (u32 x) ts = u32 (foldC (u32 x) ts) := by
      intro ts
      induction ts with
      | nil => intro x; simp [foldC, u32]
      | cons t ts ih => intro x; exact ih _
    have h1 : foldC c (t :: ts) = foldC (u32 (c + 1)) ts := rfl
    rw [h1, h2, foldC_eq]
    unfold u32
    simp only [List.length_cons]
    omega

/-- uint64 sum of uint32 values cannot wrap when there are fewer than 2^32 of them -/
theorem foldU_eq : ∀ (ts : List Their) (u : Nat), (∀ t ∈ ts, t.unitsFilled < 2 ^ 32) →
    u + ts.length * 2 ^ 32 < 2 ^ 64 → foldU u ts = u + (ts.map (·.unitsFilled)).sum := by
  intro ts
  induction ts with
  | nil => intro u _ _; simp [foldU]
  | cons t ts ih =>
    intro u hb hl
    have ht := hb t List.mem_cons_self
    simp only [List.length_cons] at hl
    have hu : u64 ((u : Int) + (t.unitsFilled : Int)) = u + t.unitsFilled := by
      unfold u64
      have : ((u : Int) + (t.unitsFilled : Int)) % (2 ^ 64 : Int) = (u : Int) + t.unitsFilled := by
        apply Int.emod_eq_of_lt <;> omega
      rw [this]; omega
    have h1 : foldU u (t :: ts) = foldU (u + t.unitsFilled) ts := by
      simp only [foldU, List.foldl]
      rw [hu]
    rw [h1, ih _ (fun t' ht' => hb t' (List.mem_cons_of_mem _ ht')) (by omega)]
    simp [List.map, List.sum_cons, Nat.add_assoc]


/-! ## association-list lemmas -/

theorem findEntry_append (k : Key) (e : Entry) : ∀ st : Tallies,
    findEntry k (st ++ [e]) = match findEntry k st with
      | some x => some x
      | none => if e.key == k then some e else none := by
  intro st
  induction st with
  | nil => simp [findEntry]
  | cons x xs ih =>
    simp only [List.cons_append, findEntry]
    split
    · rfl
    · exact ih

theorem findEntry_setEntry (k : Key) (e : Entry) : ∀ st : Tallies,
    findEntry k (setEntry e st) =
      if e.key == k then (if (findEntry k st).isSome then some e else none) else findEntry k st := by
  intro st
  induction st with
  | nil => simp [findEntry, setEntry]
  | cons x xs ih =>
    simp only [setEntry]
    by_cases hx : (x.key == e.key) = true
    · simp only [hx, if_true, findEntry]
      have hxe : x.key = e.key := by simpa using hx
      by_cases hk : (e.key == k) = true
      · have : (x.key == k) = true := by rw [hxe]; exact hk
        simp [hk, this]
      · have : (x.key == k) = false := by rw [hxe]; simpa using hk
        simp [hk, this]
    · simp only [hx, findEntry]
      by_cases hxk : (x.key == k) = true
      · have hne : (e.key == k) = false := by
          have h1 : x.key = k := by simpa using hxk
          have h2 : ¬ x.key = e.key := by simpa using hx
          simp; intro h; exact h2 (by rw [h1, h])
        simp [findEntry, hxk, hne]
      · have hxk' : (x.key == k) = false := by simpa using hxk
        simp [findEntry, hxk', ih]

theorem findEntry_key {k : Key} {e : Entry} : ∀ {st : Tallies}, findEntry k st = some e → e.key = k := by
  intro st
  induction st with
  | nil => intro h; simp [findEntry] at h
  | cons x xs ih =>
    intro h
    simp only [findEntry] at h
    split at h
    · rename_i hx; cases h; simpa using hx
    · exact ih h

theorem findAcct_key {k : Key} {a : Acct} : ∀ {l : List Acct}, findAcct k l = some a → a.key = k ∧ a ∈ l := by
  intro l
  induction l with
  | nil => intro h; simp [findAcct] at h
  | cons x xs ih =>
    intro h
    simp only [findAcct] at h
    split at h
    · rename_i hx; cases h; exact ⟨by simpa using hx, List.mem_cons_self⟩
    · have := ih h; exact ⟨this.1, List.mem_cons_of_mem _ this.2⟩

theorem findOrder_nonce {n : Nonce} {o : Ours} : ∀ {l : List Ours}, findOrder n l = some o → o.nonce = n ∧ o ∈ l := by
  intro l
  induction l with
  | nil => intro h; simp [findOrder] at h
  | cons x xs ih =>
    intro h
    simp only [findOrder] at h
    split at h
    · rename_i hx; cases h; exact ⟨by simpa using hx, List.mem_cons_self⟩
    · have := ih h; exact ⟨this.1, List.mem_cons_of_mem _ this.2⟩

/-! ## one iteration of the per-order loop -/

/-- every tally entry sits under its own key, belongs to an existing account and counts channels in uint32 -/
def StOk (env : Env) (st : Tallies) : Prop :=
  ∀ k e, findEntry k st = some e → e.key = k ∧ findAcct k env.accounts = some e.acct ∧ e.chans < 2 ^ 32

theorem stOk_nil (env : Env) : StOk env [] := by intro k e h; simp [findEntry] at h

/-- state-independent acceptance condition of one `MatchedOrders` entry -/
def OrderAccept (env : Env) (b : Batch) (nm : Nonce × List Their) : Prop :=
  ∃ o, findOrder nm.1 env.orders = some o ∧ o.acctKeyParses = true ∧
    (∃ a, findAcct o.acctKey env.accounts = some a) ∧
    (∀ t ∈ nm.2, (∃ d, validateMatchedOrder env b o t (clearingPrice b o.duration) = .ok d) ∧
       channelOutput env b.txOuts o t = .ok ()) ∧
    orderChecks o (clearingPrice b o.duration) (foldU 0 nm.2) = .ok ()

/-- the effect of an accepted entry on the tallies, as a function on lookup functions -/
def updF (env : Env) (b : Batch) (f : Key → Option Entry) (nm : Nonce × List Their) : Key → Option Entry :=
  match findOrder nm.1 env.orders with
  | none => f
  | some o => fun k =>
    if k = o.acctKey then
      let base : Option Entry := match f k with
        | some e => some e
        | none => (findAcct o.acctKey env.accounts).map fun a => ⟨o.acctKey, a.value, 0, a⟩
      base.map fun e => { e with
        bal := foldW (delta env b o (clearingPrice b o.duration)) e.bal nm.2,
        chans := foldC e.chans nm.2 }
    else f k

theorem foldC_lt (ts : List Their) (c : Nat) (hc : c < 2 ^ 32) : foldC c ts < 2 ^ 32 := by
  rw [foldC_eq' ts c hc]; unfold u32; omega

theorem verifyOrder_ok {env : Env} {b : Batch} {st st' : Tallies} {nm : Nonce × List Their}
    (hst : StOk env st) (h : verifyOrder env b st nm = .ok st') :
    OrderAccept env b nm ∧ (∀ k, findEntry k st' = updF env b (fun k => findEntry k st) nm k) ∧ StOk env st' := by
  unfold verifyOrder at h
  split at h <;> try contradiction
  rename_i o ho
  split at h <;> try contradiction
  rename_i hparse
  have hparse : o.acctKeyParses = true := by simpa using hparse
  -- which entry is used
  cases hfe : findEntry o.acctKey st with
  | some e =>
    simp only [hfe] at h
    split at h <;> try contradiction
    rename_i bal chans units hml
    split at h <;> try contradiction
    rename_i hoc
    have hm := matchLoop_ok _ _ _ hml
    rw [fold_loopStep] at hm
    obtain ⟨hm1, hm2⟩ := hm
    simp only [Prod.mk.injEq] at hm2
    obtain ⟨hbal, hch, hun⟩ := hm2
    have hek := hst _ _ hfe
    refine ⟨⟨o, ho, hparse, ⟨e.acct, hek.2.1⟩, hm1, by rw [← hun]; exact hoc⟩, ?_, ?_⟩
    · intro k
      cases h
      rw [findEntry_setEntry]
      simp only [updF, ho]
      by_cases hk : k = o.acctKey
      · subst hk
        simp [hek.1, hfe, hbal, hch]
      · have : (e.key == k) = false := by rw [hek.1]; simpa using fun h' => hk h'.symm
        simp [hk, this]
    · intro k e' hk'
      cases h
      rw [findEntry_setEntry] at hk'
      by_cases hk : (e.key == k) = true
      · simp only [hk, if_true] at hk'
        split at hk' <;> try contradiction
        cases hk'
        have hkk : e.key = k := by simpa using hk
        subst hkk
        refine ⟨rfl, ?_, ?_⟩
        · show findAcct e.key env.accounts = some e.acct
          rw [hek.1]; exact hek.2.1
        · show chans < 2 ^ 32
          rw [hch]; exact foldC_lt _ _ hek.2.2
      · simp only [hk] at hk'
        exact hst _ _ hk'
  | none =>
    simp only [hfe] at h
    cases hfa : findAcct o.acctKey env.accounts with
    | none => simp [hfa] at h
    | some a =>
      simp only [hfa] at h
      split at h <;> try contradiction
      rename_i bal chans units hml
      split at h <;> try contradiction
      rename_i hoc
      have hm := matchLoop_ok _ _ _ hml
      rw [fold_loopStep] at hm
      obtain ⟨hm1, hm2⟩ := hm
      simp only [Prod.mk.injEq] at hm2
      obtain ⟨hbal, hch, hun⟩ := hm2
      refine ⟨⟨o, ho, hparse, ⟨a, hfa⟩, hm1, by rw [← hun]; exact hoc⟩, ?_, ?_⟩
      · intro k
        cases h
        rw [findEntry_setEntry, findEntry_append]
        simp only [updF, ho]
        by_cases hk : k = o.acctKey
        · subst hk
          simp [hfe, hfa, hbal, hch]
        · have : (o.acctKey == k) = false := by simpa using fun h' => hk h'.symm
          simp [hk, this]
          cases findEntry k st <;> simp
      · intro k e' hk'
        cases h
        rw [findEntry_setEntry, findEntry_append] at hk'
        by_cases hk : (o.acctKey == k) = true
        · have hkk : o.acctKey = k := by simpa using hk
          subst hkk
          simp [hfe] at hk'
          cases hk'
          exact ⟨rfl, hfa, by rw [hch]; exact foldC_lt _ _ (by omega)⟩
        · simp only [hk] at hk'
          cases hfk : findEntry k st with
          | some x => simp [hfk] at hk'; cases hk'; exact hst _ _ hfk
          | none => simp [hfk] at hk'


theorem verifyOrder_of_accept {env : Env} {b : Batch} {st : Tallies} {nm : Nonce × List Their}
    (h : OrderAccept env b nm) : ∃ st', verifyOrder env b st nm = .ok st' := by
  obtain ⟨o, ho, hparse, ⟨a, hfa⟩, hm, hoc⟩ := h
  unfold verifyOrder
  simp only [ho, hparse]
  cases hfe : findEntry o.acctKey st with
  | some e =>
    simp only [Bool.not_true, Bool.false_eq_true, if_false]
    rw [matchLoop_isOk _ _ hm, fold_loopStep]
    simp only [hoc]
    exact ⟨_, rfl⟩
  | none =>
    simp only [Bool.not_true, Bool.false_eq_true, if_false, hfa]
    rw [matchLoop_isOk _ _ hm, fold_loopStep]
    simp only [hoc]
    exact ⟨_, rfl⟩

theorem verifyOrders_ok {env : Env} {b : Batch} : ∀ (l : List (Nonce × List Their)) (st st' : Tallies),
    StOk env st → verifyOrders env b st l = .ok st' →
    (∀ nm ∈ l, OrderAccept env b nm) ∧
    (∀ k, findEntry k st' = (l.foldl (updF env b) (fun k => findEntry k st)) k) ∧ StOk env st' := by
  intro l
  induction l with
  | nil => intro st st' hst h; simp [verifyOrders] at h; subst h; simp [hst]
  | cons nm rest ih =>
    intro st st' hst h
    simp only [verifyOrders] at h
    split at h <;> try contradiction
    rename_i st1 h1
    obtain ⟨ha, hf, hst1⟩ := verifyOrder_ok hst h1
    obtain ⟨hb, hg, hst'⟩ := ih st1 st' hst1 h
    refine ⟨?_, ?_, hst'⟩
    · intro x hx
      rcases List.mem_cons.mp hx with rfl | hx
      · exact ha
      · exact hb x hx
    · intro k
      rw [hg k]
      simp only [List.foldl]
      have : (fun k => findEntry k st1) = updF env b (fun k => findEntry k st) nm := funext hf
      rw [this]

theorem verifyOrders_of_accept {env : Env} {b : Batch} : ∀ (l : List (Nonce × List Their)) (st : Tallies),
    (∀ nm ∈ l, OrderAccept env b nm) → ∃ st', verifyOrders env b st l = .ok st' := by
  intro l
  induction l with
  | nil => intro st _; exact ⟨st, rfl⟩
  | cons nm rest ih =>
    intro st h
    obtain ⟨st1, h1⟩ := verifyOrder_of_accept (st := st) (h nm List.mem_cons_self)
    obtain ⟨st', h'⟩ := ih st1 (fun x hx => h x (List.mem_cons_of_mem _ hx))
    exact ⟨st', by simp only [verifyOrders, h1, h']⟩

/-! ## node filter of the manager -/

theorem nodeFilter_ok {env : Env} : ∀ (l : List (Nonce × List Their)), nodeFilter env l = .ok () →
    ∀ nm ∈ l, ∃ o, findOrder nm.1 env.orders = some o ∧
      ∀ t ∈ nm.2, isNodeIDAValidMatch t.nodeKey o.allowed o.notAllowed = true := by
  intro l
  induction l with
  | nil => intro _ nm hnm; simp at hnm
  | cons x rest ih =>
    intro h nm hnm
    simp only [nodeFilter] at h
    split at h <;> try contradiction
    rename_i o ho
    split at h <;> try contradiction
    rename_i hall
    rcases List.mem_cons.mp hnm with rfl | hnm
    · exact ⟨o, ho, fun t ht => (List.all_eq_true.mp hall) t ht⟩
    · exact ih h nm hnm

theorem isNodeIDAValidMatch_spec {k : Key} {allowed notAllowed : List Key}
    (h : isNodeIDAValidMatch k allowed notAllowed = true) :
    (allowed ≠ [] → k ∈ allowed) ∧ (allowed = [] → k ∉ notAllowed) := by
  unfold isNodeIDAValidMatch at h
  constructor
  · intro hne
    have : allowed.length > 0 := List.length_pos_iff.mpr hne
    simp [this] at h
    exact h
  · intro he
    subst he
    cases notAllowed with
    | nil => simp
    | cons a as => simpa using h


/-! ## what the tallies are after the per-order loop -/

/-- the matched entries (order, matches) charged to account `k` -/
def contribs (env : Env) (k : Key) (l : List (Nonce × List Their)) : List (Ours × List Their) :=
  l.filterMap fun nm => match findOrder nm.1 env.orders with
    | some o => if o.acctKey = k then some (o, nm.2) else none
    | none => none

/-- sum of the balance deltas the model computes for these entries (each delta already wrapped to int64) -/
def modelSum (env : Env) (b : Batch) (cs : List (Ours × List Their)) : Int :=
  (cs.map fun c => (c.2.map (delta env b c.1 (clearingPrice b c.1.duration))).sum).sum

def chanCount (cs : List (Ours × List Their)) : Nat := (cs.map (·.2.length)).sum

theorem contribs_snoc (env : Env) (k : Key) (pre : List (Nonce × List Their)) (nm : Nonce × List Their) :
    contribs env k (pre ++ [nm]) = contribs env k pre ++ contribs env k [nm] := by
  simp [contribs, List.filterMap_append]

/-- how a tally entry relates to the entries processed so far -/
def Tracks (env : Env) (b : Batch) (k : Key) (x : Option Entry) (pre : List (Nonce × List Their)) : Prop :=
  match x with
  | none => contribs env k pre = []
  | some e => e.key = k ∧ findAcct k env.accounts = some e.acct ∧
      w64 e.bal = w64 (e.acct.value + modelSum env b (contribs env k pre)) ∧
      e.chans = u32 (chanCount (contribs env k pre)) ∧ contribs env k pre ≠ []

theorem u32_add_u32 (a c : Nat) : u32 (u32 a + c) = u32 (a + c) := by unfold u32; omega

theorem tracks_step {env : Env} {b : Batch} {f : Key → Option Entry} {pre : List (Nonce × List Their)}
    {nm : Nonce × List Their} (hf : ∀ k, Tracks env b k (f k) pre) (ha : OrderAccept env b nm) :
    ∀ k, Tracks env b k (updF env b f nm k) (pre ++ [nm]) := by
  obtain ⟨o, ho, _, ⟨a, hfa⟩, _, _⟩ := ha
  intro k
  by_cases hk : k = o.acctKey
  · subst hk
    have hc : contribs env o.acctKey [nm] = [(o, nm.2)] := by simp [contribs, ho]
    have hcs : contribs env o.acctKey (pre ++ [nm]) = contribs env o.acctKey pre ++ [(o, nm.2)] := by
      rw [contribs_snoc, hc]
    have hms : modelSum env b (contribs env o.acctKey (pre ++ [nm])) =
        modelSum env b (contribs env o.acctKey pre) +
          (nm.2.map (delta env b o (clearingPrice b o.duration))).sum := by
      rw [hcs]; simp [modelSum, List.map_append, List.sum_append]
    have hcc : chanCount (contribs env o.acctKey (pre ++ [nm])) =
        chanCount (contribs env o.acctKey pre) + nm.2.length := by
      rw [hcs]; simp [chanCount, List.map_append, List.sum_append]
    have hne : contribs env o.acctKey (pre ++ [nm]) ≠ [] := by rw [hcs]; simp
    have hfk := hf o.acctKey
    simp only [updF, ho, if_true]
    cases hx : f o.acctKey with
    | some e =>
      rw [hx] at hfk
      obtain ⟨h1, h2, h3, h4, _⟩ := hfk
      simp only [Option.map, Tracks]
      refine ⟨h1, h2, ?_, ?_, hne⟩
      · show w64 (foldW _ e.bal nm.2) = _
        rw [w64_foldW, hms, ← w64_add_left, h3, w64_add_left, Int.add_assoc]
      · show foldC e.chans nm.2 = _
        rw [foldC_eq' _ _ (by rw [h4]; unfold u32; omega), hcc, h4, u32_add_u32]
    | none =>
      rw [hx] at hfk
      simp only [Tracks] at hfk
      simp only [hfa, Option.map, Tracks]
      refine ⟨by trivial, by trivial, ?_, ?_, hne⟩
      · show w64 (foldW _ a.value nm.2) = _
        rw [w64_foldW, hms, hfk]; simp [modelSum]
      · show foldC 0 nm.2 = _
        rw [foldC_eq' _ _ (by omega), hcc, hfk]; simp [chanCount]
  · have hc : contribs env k [nm] = [] := by
      simp [contribs, ho]; intro h; exact hk h.symm
    have hcs : contribs env k (pre ++ [nm]) = contribs env k pre := by rw [contribs_snoc, hc]; simp
    simp only [updF, ho, hk, if_false]
    have := hf k
    unfold Tracks at this ⊢
    rw [hcs]; exact this

theorem tracks_foldl {env : Env} {b : Batch} : ∀ (l : List (Nonce × List Their)) (f : Key → Option Entry)
    (pre : List (Nonce × List Their)), (∀ k, Tracks env b k (f k) pre) → (∀ nm ∈ l, OrderAccept env b nm) →
    ∀ k, Tracks env b k ((l.foldl (updF env b) f) k) (pre ++ l) := by
  intro l
  induction l with
  | nil => intro f pre hf _ k; simpa using hf k
  | cons nm rest ih =>
    intro f pre hf ha k
    have h1 := tracks_step hf (ha nm List.mem_cons_self)
    have := ih (updF env b f nm) (pre ++ [nm]) h1 (fun x hx => ha x (List.mem_cons_of_mem _ hx)) k
    simpa [List.foldl, List.append_assoc] using this

/-- after the per-order loop every tally entry tracks all matched entries of its account -/
theorem verifyOrders_tracks {env : Env} {b : Batch} {l : List (Nonce × List Their)} {st : Tallies}
    (h : verifyOrders env b [] l = .ok st) : ∀ k, Tracks env b k (findEntry k st) l := by
  obtain ⟨ha, hf, _⟩ := verifyOrders_ok l [] st (stOk_nil env) h
  intro k
  rw [hf k]
  have := tracks_foldl (env := env) (b := b) l (fun k => findEntry k []) [] (by intro k; simp [Tracks, findEntry, contribs]) ha k
  simpa using this

end Pool.Batch
