import PoolProofs.C16Lemmas
/-! C16: closed-form outcomes of one handler step with the real driver (`envP`/`envR`), both tickets non-nil. -/
namespace Pool.C16
open Pool.Gen.C16

/-- every possible outcome of `stateStepProvider` with the real driver -/
inductive POut (s : Sys) (cur : Nat) (pkt l : Ticket) : Out → Prop
  | resend : cur = 0 → l.state = 1 →
      POut s cur pkt l ⟨.ok sOffered (some l) (some pkt), some l, [.send false l true]⟩
  | persist : cur = 1 → pkt.state = 2 → pkt.id = 0 →
      POut s cur pkt l ⟨.ok sRegistered (some pkt) (some pkt), some l, [.update pkt true]⟩
  | persistFail : cur = 1 → pkt.state = 2 →
      POut s cur pkt l ⟨.err eUpdate, some l, [.update pkt false]⟩
  | cancel : pkt.state = 6 →
      POut s cur pkt l ⟨.ok sCanceled (some pkt) (some l), some l, [.spawnFin]⟩
  | submitOk (l' : Ticket) : cur = 2 → s.bidStored = false → signForOrder l = some l' →
      POut s cur pkt l ⟨.ok sOrdered (some l') (some l'), some l', [.submit l' .ok]⟩
  | submitDup (l' : Ticket) : cur = 2 → signForOrder l = some l' →
      POut s cur pkt l ⟨.err eSubmit, some l', [.submit l' .errOther]⟩
  | submitRej : cur = 2 →
      POut s cur pkt l ⟨.err eSubmit, some l, [.submit l .errOther]⟩
  | finalOk : (cur = 3 ∨ cur = 4) → l.id = 0 →
      POut s cur pkt l ⟨.ok sExpecting (some { l with state := sExpecting }) (some { l with state := sExpecting }),
        some { l with state := sOrdered },
        [.send false { l with state := sOrdered } true, .update { l with state := sExpecting } true]⟩
  | finalFail : (cur = 3 ∨ cur = 4) →
      POut s cur pkt l ⟨.err eUpdate, some { l with state := sOrdered },
        [.send false { l with state := sOrdered } true, .update { l with state := sExpecting } false]⟩
  | unhandled : POut s cur pkt l ⟨.err eUnhandled, some l, []⟩

theorem stepProvider_POut (s : Sys) (cur : Nat) (pkt l : Ticket) :
    POut s cur pkt l (stepProvider (envP s) cur (some pkt) (some l)) := by
  simp only [stepProvider, prov_select]
  unfold provSel
  split
  · rename_i h; simp only [provBody, envP, if_true]; exact .resend h.1 h.2
  split
  · rename_i h
    simp only [provBody, envP]
    by_cases hid : pkt.id = 0
    · have hb : (pkt.id == 0) = true := by simp [hid]
      simp only [hb, if_true]; exact .persist h.1 h.2 hid
    · have : (pkt.id == 0) = false := by simp [hid]
      simp only [this]; exact .persistFail h.1 h.2
  split
  · rename_i h; simp only [provBody]; exact .cancel h
  split
  · rename_i h
    simp only [provBody, envP, driverSubmit]
    cases hsg : signForOrder l with
    | none => simp only []; exact .submitRej h
    | some l' =>
      cases hb : s.bidStored
      · simp only [Bool.false_eq_true, if_false]; exact .submitOk l' h hb hsg
      · simp only [if_true]; exact .submitDup l' h hsg
  split
  · rename_i h
    simp only [provBody, envP, if_true]
    by_cases hid : l.id = 0
    · have hb : (l.id == 0) = true := by simp [hid]
      simp only [hb, if_true]; exact .finalOk (Or.inr h.1) hid
    · have : (l.id == 0) = false := by simp [hid]
      simp only [this]; exact .finalFail (Or.inr h.1)
  split
  · rename_i h
    simp only [provBody, envP, if_true]
    by_cases hid : l.id = 0
    · have hb : (l.id == 0) = true := by simp [hid]
      simp only [hb, if_true]; exact .finalOk (Or.inl h) hid
    · have : (l.id == 0) = false := by simp [hid]
      simp only [this]; exact .finalFail (Or.inl h)
  · simp only [provBody]; exact .unhandled

/-- every possible outcome of `stateStepRecipient` with the real driver -/
inductive ROut (s : Sys) (cur : Nat) (l pkt : Ticket) : Out → Prop
  | resend : ROut s cur l pkt ⟨.ok sRegistered (some l) (some l), some pkt, [.send true l true]⟩
  | expectOk (p' : Ticket) : cur = 2 → pkt.state = 3 → validateOrdered pkt = true →
      driverExpect s.pending pkt = (p', true) →
      ROut s cur l pkt ⟨.ok sExpecting (some p') (some p'), some p', [.validate pkt true, .expect p' true]⟩
  | expectFail (p' : Ticket) : driverExpect s.pending pkt = (p', false) →
      ROut s cur l pkt ⟨.err eExpect, some p', [.validate pkt true, .expect p' false]⟩
  | invalid : ROut s cur l pkt ⟨.err eValidate, some pkt, [.validate pkt false]⟩
  | cancel : pkt.state = 6 → ROut s cur l pkt ⟨.ok sCanceled (some l) (some pkt), some pkt, [.spawnFin]⟩
  | reexpOk (p' : Ticket) : cur = 4 → pkt.state ≠ 1 → pkt.state ≠ 6 → driverExpect s.pending pkt = (p', true) →
      ROut s cur l pkt ⟨.ok sExpecting (some l) (some p'), some p', [.expect p' true]⟩
  | reexpFail (p' : Ticket) : driverExpect s.pending pkt = (p', false) →
      ROut s cur l pkt ⟨.err eExpect, some p', [.expect p' false]⟩
  | unhandled : ROut s cur l pkt ⟨.err eUnhandled, some pkt, []⟩

theorem stepRecipient_ROut (s : Sys) (cur : Nat) (l pkt : Ticket) :
    ROut s cur l pkt (stepRecipient (envR s) cur (some l) (some pkt)) := by
  simp only [stepRecipient, recp_select]
  unfold recpSel
  split
  · simp only [recpBody, envR, if_true]; exact .resend
  split
  · simp only [recpBody, envR, if_true]; exact .resend
  split
  · rename_i h
    simp only [recpBody, envR]
    by_cases hv : validateOrdered pkt = true
    · simp only [hv, if_true]
      cases hde : driverExpect s.pending pkt with
      | mk p' b =>
        cases b
        · simp only []; exact .expectFail p' hde
        · simp only []; exact .expectOk p' h.1 h.2 hv hde
    · simp only [hv]; exact .invalid
  split
  · rename_i h; simp only [recpBody]; exact .cancel h
  split
  · rename_i h1 _ _ h6 h
    simp only [recpBody, envR]
    cases hde : driverExpect s.pending pkt with
    | mk p' b =>
      cases b
      · simp only []; exact .reexpFail p' hde
      · simp only []; exact .reexpOk p' h h1 h6 hde
  · simp only [recpBody]; exact .unhandled

end Pool.C16
