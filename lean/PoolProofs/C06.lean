import PoolModel.C06
namespace Pool.C06
theorem wip_placeholder : DB.init.pendingId = none := rfl
end Pool.C06
