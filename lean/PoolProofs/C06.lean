import PoolProofs.C06LemmasSpec

/-!
# C06 — staged batch state stays invisible until completion and is applied atomically

Headline theorems only (helper lemmas: `C06Lemmas.lean`, `C06LemmasSpec.lean`).

* the model (`PoolModel/C06.lean`) mirrors `clientdb`'s transaction bodies; a failed body leaves the OLD state
  (`commit`; bbolt's rollback is trusted);
* "visible" = what `Account(s)`, `GetOrder(s)`, `GetLocalBatchSnapshot(s)` read (`vis`), "staged" = the pending
  id, the two staging buckets and the pending snapshot (`staged`), read by `PendingBatchSnapshot`;
* order *events* are an append-only audit log written at staging time by design; they are not part of `vis`
  and are covered by `events_append_only` / `events_only_from_updates`;
* `Spec` (`C06LemmasSpec.lean`) is the English statement as a state machine; `C06_histories` proves that EVERY
  history of operations from the initial database refines it.
-/
set_option linter.unusedSimpArgs false
set_option linter.unusedVariables false
namespace Pool.C06
open Pool.Gen.C06

/-! ## facts regenerated from the Go source that the model relies on -/

/-- the model's `OMod` has one constructor per `order.Modifier` constructor in the source, assigning that field -/
theorem facts_order_modifiers :
    orderModifierCtors = [("StateModifier", "State"), ("UnitsFulfilledModifier", "UnitsUnfulfilled")] := by decide

theorem facts_account_modifiers :
    acctModifierCtors = [("ExpiryModifier", "Expiry"), ("HeightHintModifier", "HeightHint"),
      ("IncrementBatchKey", "BatchKey"), ("LatestTxModifier", "LatestTx"), ("OutPointModifier", "OutPoint"),
      ("StateModifier", "State"), ("ValueModifier", "Value"), ("VersionModifier", "Version")] := by decide

/-- bucket routing of the helper calls: staging reads MAIN and writes the STAGING bucket, completion copies
STAGING to MAIN, direct updates read and write MAIN.  Values are identified by ROLE, not by the spelling of local
names: `$i` = i-th parameter of the function, `cb$i` = i-th parameter of the transaction closure, a local is
replaced by its defining expression (`#0` = first result). -/
theorem facts_bucket_routing :
    stageUpdateOrderArgs = [["(getBucket(cb$0,ordersBucketKey))#0",
      "(getNestedBucket((getBucket(cb$0,batchBucketKey))#0,pendingBatchOrdersBucketKey,true))#0"]] ∧
    stageUpdateAccountArgs = [["(getBucket(cb$0,accountBucketKey))#0",
      "(getNestedBucket((getBucket(cb$0,batchBucketKey))#0,pendingBatchAccountsBucketKey,true))#0"]] ∧
    applyUpdateAccountArgs = [["(getNestedBucket((getBucket($0,batchBucketKey))#0,pendingBatchAccountsBucketKey,false))#0",
      "(getBucket($0,accountBucketKey))#0"]] ∧
    applyCopyOrderArgs = [["(getNestedBucket((getBucket($0,batchBucketKey))#0,pendingBatchOrdersBucketKey,false))#0",
      "(getBucket($0,ordersBucketKey))#0"]] ∧
    directUpdateOrderArgs = [["(getBucket(cb$0,ordersBucketKey))#0", "(getBucket(cb$0,ordersBucketKey))#0"]] ∧
    directUpdateOrdersArgs = [["(getBucket(cb$0,ordersBucketKey))#0", "(getBucket(cb$0,ordersBucketKey))#0"]] ∧
    directUpdateAccountArgs = [["(getBucket(cb$0,accountBucketKey))#0", "(getBucket(cb$0,accountBucketKey))#0"]] := by decide

/-- the serializer and the deserializer agree on the states without `LatestTx` -/
theorem facts_serializer_symmetric : serializeNoLatestTx = deserializeNoLatestTx := by decide

/-- `checkPendingBatch` can only act through these interfaces: nothing in them completes a batch -/
theorem facts_reconnect_cannot_complete :
    batchCleanerMethods = ["DeletePendingBatch", "RemovePendingBatchArtifacts"] ∧
    batchSourceMethods = ["PendingBatchSnapshot"] ∧
    "MarkBatchComplete" ∉ batchCleanerMethods ++ batchSourceMethods := by decide

/-- `HandleAccountSpend` completes the staged batch exactly in the `nil` case of `Store.PendingBatch()` (which
is `DB.PendingBatchSnapshot`), and the real `BatchCleaner.DeletePendingBatch` is `DB.DeletePendingBatch` – the
shapes `spendPendingClause` and `reconnect` mirror -/
theorem facts_spend_clause :
    spendSwitch = [("ErrNoPendingBatch", "no"), ("nil", "MarkBatchComplete"), ("default", "no")] ∧
    accountStorePendingBatchCalls = ["s.DB.PendingBatchSnapshot"] ∧
    fundingDeletePendingBatchCalls = ["m.cfg.DB.DeletePendingBatch"] := by decide

/-- **The order record moves as a whole.**  `updateOrder` and `copyOrder` decode the fixed-size order AND its TLV
stream (so the in-memory order carries every optional term) and then rewrite ALL keys of the order sub-bucket
into the destination: the order itself, its minimum match size, its TLV stream and (bids) its node tier; the
event goes to the MAIN order bucket.  This is what lets the model move `Ord` records (incl. `minMatch`, `tier`,
`extras`) as units, so that "completion applies exactly the staged version" is about full orders. -/
-- `ORDER` = the order decoded by `DeserializeOrder` from the raw bytes (`cb$1` of the fetch callback), `$1` = the
-- destination bucket parameter, `cb$2` = the `extraOrderData` the callback received
theorem facts_order_keys :
    updateOrderStores = [["storeEventTX", "$0.Bucket(cb$0[:])", "NewUpdatedEvent(ORDER.Details().State,ORDER)"],
      ["storeOrderTX", "$1", "var:bytes.Buffer.Bytes() | nil"],
      ["storeOrderMinUnitsMatchTX", "$1", "ORDER.Details().MinUnitsMatch"], ["storeOrderTlvTX", "$1", "ORDER"],
      ["storeOrderMinNoderTierTX", "$1", "((ORDER.(*order.Bid)))#0.MinNodeTier"]] ∧
    copyOrderStores = [["storeOrderTX", "$1", "cb$1 | nil"], ["storeOrderTlvTX", "$1", "ORDER"],
      ["storeOrderMinNoderTierTX", "$1", "cb$2.minNodeTier"],
      ["storeOrderMinUnitsMatchTX", "$1", "cb$2.minUnitsMatch"]] ∧
    updateOrderDecodes = ["DeserializeOrder(bytes.NewReader(cb$1))", "deserializeOrderTlvData(ORDER)"] ∧
    copyOrderDecodes = ["DeserializeOrder(bytes.NewReader(cb$1))", "deserializeOrderTlvData(ORDER)"] ∧
    getOrderDecodes = ["DeserializeOrder(bytes.NewReader(cb$1))", "deserializeOrderTlvData(ORDER)"] := by decide

/-- **One exported mutator = one bbolt write transaction.**  Regenerated from the source: each of the modelled
`DB` methods contains exactly one `db.Update`, no separate read (`db.View`, `db.Account`, `db.GetOrder` …), and
before that transaction it evaluates nothing but the modifier-list length checks – in particular it neither reads
records nor applies modifiers outside the transaction.  This is what `commit db (body db)` assumes: the body sees
the STORED records (not a struct the caller read earlier) and no other writer can slip in between its read and its
write. -/
theorem facts_single_transaction :
    txShapes = [["DB.StorePendingBatch", "len,len,fmt.Errorf,len,len,fmt.Errorf", "updates=1 reads=0"],
      ["DB.MarkBatchComplete", "", "updates=1 reads=0"], ["DB.DeletePendingBatch", "", "updates=1 reads=0"],
      ["DB.UpdateAccount", "", "updates=1 reads=0"], ["DB.UpdateOrder", "", "updates=1 reads=0"],
      ["DB.UpdateOrders", "len,len,fmt.Errorf", "updates=1 reads=0"], ["DB.AddAccount", "", "updates=1 reads=0"],
      ["DB.SubmitOrder", "", "updates=1 reads=0"], ["DB.DeleteOrder", "", "updates=1 reads=0"]] := by decide

/-- a direct account update depends only on the key, the modifiers and the STORED record: two databases that
agree on the stored account produce the same stored account – whatever struct the caller holds -/
theorem updateAccount_uses_stored_record (db₁ db₂ : DB) (k : Key) (m : List AMod)
    (h : lookup k db₁.accounts = lookup k db₂.accounts) :
    lookup k (step db₁ (.updateAccount k m)).1.accounts = lookup k (step db₂ (.updateAccount k m)).1.accounts ∧
    (step db₁ (.updateAccount k m)).2 = (step db₂ (.updateAccount k m)).2 := by
  simp only [step, updateAccountTx, updateAccountCore, h]
  cases lookup k db₂.accounts with
  | none => simp [commit, h]
  | some a =>
    simp only []
    cases storeA (applyAMods m a) with
    | error e => simp [commit, h]
    | ok a' => simp [commit, lookup_upsert]

/-- modifiers never touch the fixed terms of an order -/
theorem applyOMods_fixed (ms : List OMod) (o : Ord) : (applyOMods ms o).fixed = o.fixed := by
  induction ms generalizing o with
  | nil => rfl
  | cons m r ih =>
    have : applyOMods (m :: r) o = applyOMods r (m.apply o) := rfl
    rw [this, ih]; cases m <;> rfl

/-! ## single operations -/

/-- **Staging never changes what the trader sees** – whether the call succeeds or fails. -/
theorem stage_preserves_visible (db : DB) (a : StageArgs) : vis (step db (.stage a)).1 = vis db := by
  simp only [step]
  rw [storePendingBatch_eq]
  cases stageOut db.accounts db.orders a <;> rfl

/-- **A failing call is the identity** on the whole database (visible state, staged batch, event log): every
operation, in particular a staging call that fails midway (unknown order/account at any position, length
mismatch, unsupported fee schedule, serializer panic). -/
theorem fail_is_identity (db : DB) (op : Op) (e : Err) (hop : ∀ k w tx ht, op ≠ .accountSpend k w tx ht)
    (h : (step db op).2 = some e) : (step db op).1 = db := by
  have hc : ∀ r : Except Err DB, (commit db r).2 = some e → (commit db r).1 = db := by
    intro r hr; cases r with
    | error _ => rfl
    | ok d => simp [commit] at hr
  cases op <;> simp only [step] at h ⊢ <;> first | exact hc _ h | simp at h | exact absurd rfl (hop _ _ _ _)

/-- the spend of a confirmed batch (multi-sig witness, account output recreated) is exactly the pending-batch
clause: the staged batch is completed if there is a loadable one, and nothing else is written -/
theorem accountSpend_recreate (db : DB) (k : Key) (tx ht : Nat) (a : Acct) (hk : lookup k db.accounts = some a) :
    step db (.accountSpend k .multiSigRecreate tx ht) = step db .spend := by
  simp only [step, handleAccountSpend, hk]

/-- `HandleAccountSpend` is NOT one transaction (pending-batch clause, then `UpdateAccount`): when it fails, the
database is either untouched or exactly in the state after the completed pending-batch clause -/
theorem accountSpend_fail (db : DB) (k : Key) (w : Witness) (tx ht : Nat) (e : Err)
    (h : (step db (.accountSpend k w tx ht)).2 = some e) :
    (step db (.accountSpend k w tx ht)).1 = db ∨ (step db (.accountSpend k w tx ht)).1 = (step db .spend).1 := by
  have hc : ∀ (d : DB) (r : Except Err DB), (commit d r).2 = some e → (commit d r).1 = d := by
    intro d r hr; cases r with
    | error _ => rfl
    | ok d' => simp [commit] at hr
  simp only [step, handleAccountSpend] at h ⊢
  cases hl : lookup k db.accounts with
  | none => left; rfl
  | some a =>
    simp only [hl] at h ⊢
    cases w with
    | unknown => left; rfl
    | expiry => left; exact hc _ _ h
    | multiSigRecreate => left; exact hc _ _ h
    | multiSig =>
      simp only [] at h ⊢
      cases hr : commit db (spendPendingClause db) with
      | mk db1 res =>
        rw [hr] at h
        cases res with
        | some e' => right; rfl
        | none => right; simp only [] at h ⊢; exact hc _ _ h

theorem stage_fail_is_identity (db : DB) (a : StageArgs) (e : Err) (h : (step db (.stage a)).2 = some e) :
    (step db (.stage a)).1 = db := fail_is_identity db (.stage a) e (fun _ _ _ _ => by simp) h

/-- what a successful staging call leaves in the database: visible state untouched, the staging area REPLACED by
`stageOut` of the visible accounts/orders and the call's arguments, events appended -/
theorem stage_ok_state (db : DB) (a : StageArgs) (h : (step db (.stage a)).2 = none) :
    ∃ o, stageOut db.accounts db.orders a = .ok o ∧
      (step db (.stage a)).1 =
        { db with events := db.events ++ o.es, pendingId := some a.batchId, pendingAccts := some o.pa,
                  pendingOrders := some o.po, pendingSnap := some o.snap,
                  noRefs := db.noRefs.filter (fun k => !a.orders.contains k) } := by
  simp only [step] at h ⊢
  rw [storePendingBatch_eq] at h ⊢
  cases ho : stageOut db.accounts db.orders a with
  | error e => simp [ho, commit] at h
  | ok o => exact ⟨o, rfl, rfl⟩

/-- **Re-staging leaves no residue.**  Staging `a₂` after `a₁` gives the same result (error or not) and, when it
succeeds, exactly the staging area that staging `a₂` alone gives; when it fails, the batch staged by `a₁` is intact. -/
theorem restage_no_residue (db : DB) (a₁ a₂ : StageArgs) :
    let db₁ := (step db (.stage a₁)).1
    (step db₁ (.stage a₂)).2 = (step db (.stage a₂)).2 ∧
    ((step db (.stage a₂)).2 = none → staged (step db₁ (.stage a₂)).1 = staged (step db (.stage a₂)).1) ∧
    ((step db (.stage a₂)).2 ≠ none → (step db₁ (.stage a₂)).1 = db₁) := by
  intro db₁
  have hv : db₁.accounts = db.accounts ∧ db₁.orders = db.orders := by
    have := stage_preserves_visible db a₁
    simp only [vis, Visible.mk.injEq] at this
    exact ⟨this.1, this.2.1⟩
  have key : ∀ d : DB, (step d (.stage a₂)) = commit d (storePendingBatch a₂ d) := fun _ => rfl
  rw [key db₁, key db, storePendingBatch_eq, storePendingBatch_eq, hv.1, hv.2]
  cases stageOut db.accounts db.orders a₂ with
  | error e => exact ⟨rfl, fun h => by simp [commit] at h, fun _ => rfl⟩
  | ok o => exact ⟨rfl, fun _ => rfl, fun h => by simp [commit] at h⟩

/-- **Discarding restores** the database as it was before staging – nothing staged, visible state untouched;
the only trace of the abandoned version is in the append-only event log (and in the existence of the event-ref
sub-buckets that log lives in, `noRefs`). -/
theorem discard_restores (db : DB) (a : StageArgs) (h : NoPending db) :
    let db' := (step (step db (.stage a)).1 .discard).1
    { db' with events := db.events, noRefs := db.noRefs } = db ∧ ∃ es, db'.events = db.events ++ es := by
  obtain ⟨h1, h2, h3, h4⟩ := h
  simp only [step]
  rw [storePendingBatch_eq]
  cases stageOut db.accounts db.orders a with
  | error e =>
    simp only [commit, deletePendingBatchTx]
    exact ⟨by cases db; simp_all, ⟨[], by simp⟩⟩
  | ok o =>
    simp only [commit, deletePendingBatchTx]
    exact ⟨by cases db; simp_all, ⟨o.es, rfl⟩⟩

/-- discard in any state: visible state and event log untouched, staging area empty afterwards -/
theorem discard_any (db : DB) :
    vis (step db .discard).1 = vis db ∧ staged (step db .discard).1 = none ∧
    NoPending (step db .discard).1 ∧ (step db .discard).1.events = db.events ∧ (step db .discard).2 = none :=
  ⟨rfl, rfl, ⟨rfl, rfl, rfl, rfl⟩, rfl, rfl⟩

/-- **Completion applies exactly the staged version, in one step.**  With a staged batch `st`:
every account/order reads as its staged record if it was staged and as before otherwise; no account or order
appears or disappears beyond the staged keys; the staged snapshot is appended to the history and is what
`GetLocalBatchSnapshot(st.id)` returns (it is readable: all its orders are in the main bucket now); snapshots
readable under other ids stay so; the staging area is empty; the event log is untouched. -/
theorem complete_applies_exactly_staged (db : DB) (hc : Coh db) (st : Staged) (hs : staged db = some st) :
    let db' := (step db .complete).1
    (step db .complete).2 = none ∧
    (∀ k, lookup k db'.accounts = pick (lookup k st.accts) (lookup k db.accounts)) ∧
    (∀ n, lookup n db'.orders = pick (lookup n st.orders) (lookup n db.orders)) ∧
    (∀ k, k ∈ keys db'.accounts ↔ k ∈ keys st.accts ∨ k ∈ keys db.accounts) ∧
    (∀ n, n ∈ keys db'.orders ↔ n ∈ keys st.orders ∨ n ∈ keys db.orders) ∧
    db'.snaps = db.snaps ++ [st.snap] ∧ getLocalBatchSnapshot db' st.id = .ok st.snap ∧ st.snap.id = st.id ∧
    (∀ i s, i ≠ st.id → getLocalBatchSnapshot db i = .ok s → getLocalBatchSnapshot db' i = .ok s) ∧
    NoPending db' ∧ db'.events = db.events := by
  rcases hc.pend with hn | ⟨st', hs', hp⟩
  · rw [staged_of_noPending hn] at hs; cases hs
  · rw [staged_of_hasPending hp] at hs
    injection hs with hs; subst hs
    obtain ⟨s1, s2, s3, s4, s5, s6⟩ := hs'
    simp only [step]
    rw [markBatchComplete_pending hp s4]
    simp only [commit]
    refine ⟨trivial, fun k => lookup_over (main := db.accounts) s5 k,
      fun n => lookup_over (main := db.orders) s6 n, fun k => keys_over_mem,
      fun n => keys_over_mem, trivial, ?_, s1, ?_, ⟨rfl, rfl, rfl, rfl⟩, trivial⟩
    · -- the filed snapshot is readable: all its orders are in the main bucket now
      have hr : snapReadable { db with orders := over st'.orders db.orders } st'.snap = true := by
        simp only [snapReadable, List.all_eq_true]
        intro n hn
        rw [s3] at hn
        exact lookup_isSome_iff.2 (keys_over_mem.2 (Or.inl hn))
      simp only [snapReadable] at hr
      simp [getLocalBatchSnapshot, lookup_upsert, snapReadable, hr]
    · intro i s hi hg
      simp only [getLocalBatchSnapshot, lookup_upsert, hi, if_false] at hg ⊢
      cases hl : lookup i db.index with
      | none => simp [hl] at hg
      | some seq =>
        simp only [hl] at hg ⊢
        obtain ⟨h1, s', h2, _⟩ := hc.idx i seq hl
        have hlt : seq - 1 < db.snaps.length := by
          rcases Nat.lt_or_ge (seq - 1) db.snaps.length with hlt | hge
          · exact hlt
          · rw [List.getElem?_eq_none hge] at h2; cases h2
        simp only [List.getElem?_append_left hlt, h2] at hg ⊢
        by_cases hrd : snapReadable db s' = true
        · simp only [hrd, if_true] at hg
          have : snapReadable { db with orders := over st'.orders db.orders } s' = true := by
            simp only [snapReadable, List.all_eq_true] at hrd ⊢
            intro n hn
            have := lookup_isSome_iff.1 (hrd n hn)
            exact lookup_isSome_iff.2 (keys_over_mem.2 (Or.inr this))
          simp only [snapReadable] at this
          simp only [snapReadable, this, if_true]; exact hg
        · simp [hrd] at hg

/-- **Completion without a staged batch fails** with `ErrNoPendingBatch` and changes nothing. -/
theorem complete_without_pending_errors (db : DB) (hc : Coh db) (hs : staged db = none) :
    step db .complete = (db, some .noPending) := by
  rcases hc.pend with hn | ⟨st, _, hp⟩
  · simp only [step]; rw [markBatchComplete_noPending hn.1]; rfl
  · rw [staged_of_hasPending hp] at hs; cases hs

/-- the snapshot kept with a staged batch records exactly the two staging buckets and the call's batch id,
transaction and matches (so what completion files IS what completion applied) -/
theorem staged_snapshot_consistent (db : DB) (a : StageArgs) (h : (step db (.stage a)).2 = none) :
    ∃ st, staged (step db (.stage a)).1 = some st ∧ st.id = a.batchId ∧ st.snap.id = a.batchId ∧
      st.snap.tx = a.batchTx ∧ st.snap.matched = a.matched ∧ st.snap.accts = st.accts ∧ st.snap.orders = st.orders := by
  obtain ⟨o, ho, hd⟩ := stage_ok_state db a h
  obtain ⟨h1, h2, h3, h4, h5, _⟩ := stageOut_ok ho
  exact ⟨⟨a.batchId, o.pa, o.po, o.snap⟩, by rw [hd]; rfl, rfl, h1, h2, h3, h4, h5⟩

/-- **Exactly the listed accounts and orders are staged, each as (visible record + the call's modifiers).**
An order is in the staging bucket iff the call lists it; its staged record is the currently VISIBLE record with
the modifiers of its (last) entry applied – never a previously staged record; same for accounts (through the
account serializer `normA`). -/
theorem stage_stages_exactly_listed (db : DB) (a : StageArgs) (h : (step db (.stage a)).2 = none) :
    ∃ st, staged (step db (.stage a)).1 = some st ∧
      (∀ n, lookup n st.orders =
        stagedVal applyOMods (lastFor n (a.orders.zip a.orderMods)) (lookup n db.orders) none) ∧
      (∀ k, lookup k st.accts =
        stagedVal (fun m x => normA (applyAMods m x)) (lastFor k (a.accounts.zip a.acctMods))
          (lookup k db.accounts) none) := by
  obtain ⟨o, ho, hd⟩ := stage_ok_state db a h
  obtain ⟨_, _, _, _, _, _, _, _, h9, h10⟩ := stageOut_ok ho
  exact ⟨⟨a.batchId, o.pa, o.po, o.snap⟩, by rw [hd]; rfl, h9, h10⟩

/-- `HandleAccountSpend`'s pending-batch clause: a no-op when nothing is staged; exactly `complete` when a batch
is staged and loadable; `ErrNoOrder` with nothing changed when one of the staged orders has been deleted from the
main bucket (`PendingBatchSnapshot` cannot be completed then) -/
theorem spend_completes_iff_pending (db : DB) (hc : Coh db) :
    (staged db = none → step db .spend = (db, none)) ∧
    (∀ st, staged db = some st → readable (vis db) st = true → step db .spend = step db .complete) ∧
    (∀ st, staged db = some st → readable (vis db) st = false → step db .spend = (db, some .noOrder)) := by
  simp only [step]
  rw [spendPendingClause_eq]
  rcases hc.pend with hn | ⟨st, hs, hp⟩
  · rw [hn.2.2.2, staged_of_noPending hn]
    exact ⟨fun _ => rfl, fun st h => (by cases h), fun st h => (by cases h)⟩
  · rw [hp.2.2.2, staged_of_hasPending hp]
    refine ⟨fun h => (by cases h), ?_, ?_⟩
    · intro st' h hr; injection h with h; subst h
      have hr' : snapReadable db st.snap = true := hr
      simp only [hr', if_true]
    · intro st' h hr; injection h with h; subst h
      have hr' : snapReadable db st.snap = false := hr
      simp only [hr', Bool.false_eq_true, if_false]; rfl

/-! ## the event log (audit trail, written at staging time by design) -/

/-- every operation – except `DeleteOrder`, which removes the deleted order's own event references with its
bucket – only appends to the event log … -/
theorem events_append_only (db : DB) (op : Op) (hop : ∀ n, op ≠ .deleteOrder n) :
    ∃ es, (step db op).1.events = db.events ++ es := by
  have hid : ∃ es, db.events = db.events ++ es := ⟨[], by simp⟩
  cases op with
  | deleteOrder n => exact absurd rfl (hop n)
  | addAccount k a => simp only [step, addAccountTx]; cases storeA a <;> exact hid
  | submitOrder n o =>
    simp only [step, submitOrderTx]
    cases lookup n db.orders with
    | some _ => exact hid
    | none => exact ⟨[(n, .created)], rfl⟩
  | stage a =>
    simp only [step]; rw [storePendingBatch_eq]
    cases stageOut db.accounts db.orders a with
    | error e => exact hid
    | ok o => exact ⟨o.es, rfl⟩
  | complete =>
    simp only [step]
    cases hm : markBatchCompleteTx db with
    | error e => exact hid
    | ok d => exact ⟨[], by simp [commit, markBatchComplete_events hm]⟩
  | discard => exact hid
  | updateOrder n m =>
    simp only [step, updateOrderTx]; rw [updateOrdersTx_eq]
    cases updateOrdersLoop ([n].zip [m]) db.orders [] with
    | error e => exact hid
    | ok x => exact ⟨x.2, rfl⟩
  | updateOrders ns ms =>
    simp only [step, updateOrders]
    split
    · exact hid
    · rw [updateOrdersTx_eq]
      cases updateOrdersLoop (ns.zip ms) db.orders [] with
      | error e => exact hid
      | ok x => exact ⟨x.2, rfl⟩
  | updateAccount k m =>
    simp only [step, updateAccountTx]
    cases updateAccountCore db.accounts k m with
    | error e => exact hid
    | ok a => simp only []; cases storeA a <;> exact hid
  | reopen => exact hid
  | spend =>
    simp only [step]
    cases hm : spendPendingClause db with
    | error e => exact hid
    | ok d => exact ⟨[], by simp [commit, spendPendingClause_events hm]⟩
  | reconnect rpc rm =>
    simp only [step]; rw [reconnect_db]
    repeat' split
    all_goals exact hid
  | accountSpend k w tx ht =>
    have hu : ∀ d : DB, (commit d (updateAccountTx k (closeMods tx ht) d)).1.events = d.events := by
      intro d
      simp only [updateAccountTx]
      cases updateAccountCore d.accounts k (closeMods tx ht) with
      | error e => rfl
      | ok a => simp only []; cases storeA a <;> rfl
    have hs : (commit db (spendPendingClause db)).1.events = db.events := by
      cases hm : spendPendingClause db with
      | error e => rfl
      | ok d => simp [commit, spendPendingClause_events hm]
    simp only [step, handleAccountSpend]
    cases lookup k db.accounts with
    | none => exact hid
    | some a =>
      cases w with
      | unknown => exact hid
      | expiry => exact ⟨[], by simp [hu db]⟩
      | multiSigRecreate => exact ⟨[], by simpa using hs⟩
      | multiSig =>
        simp only []
        cases hr : commit db (spendPendingClause db) with
        | mk db1 res =>
          rw [hr] at hs
          cases res with
          | some e => exact ⟨[], by simpa using hs⟩
          | none => exact ⟨[], by simp only []; rw [hu db1]; simpa using hs⟩

/-- … and over a whole history the log of every earlier moment is a prefix of the log of every later one -/
theorem events_prefix_histories (db : DB) (ops : List Op) (hops : ∀ n, Op.deleteOrder n ∉ ops) :
    ∃ es, (run db ops).events = db.events ++ es := by
  induction ops generalizing db with
  | nil => exact ⟨[], by simp [run]⟩
  | cons op ops ih =>
    obtain ⟨e1, h1⟩ := events_append_only db op (fun n h => hops n (h ▸ List.mem_cons_self))
    obtain ⟨e2, h2⟩ := ih (step db op).1 (fun n h => hops n (List.mem_cons_of_mem _ h))
    exact ⟨e1 ++ e2, by simp only [run]; rw [h2, h1, List.append_assoc]⟩

/-- completing, discarding, reopening, the spend clause and the reconnect check write no event at all -/
theorem events_only_from_updates (db : DB) (op : Op)
    (h : op = .complete ∨ op = .discard ∨ op = .reopen ∨ op = .spend ∨ ∃ r m, op = .reconnect r m) :
    (step db op).1.events = db.events := by
  rcases h with h | h | h | h | ⟨r, m, h⟩ <;> subst h
  · simp only [step]
    cases hm : markBatchCompleteTx db with
    | error e => rfl
    | ok d => exact markBatchComplete_events hm
  · rfl
  · rfl
  · simp only [step]
    cases hm : spendPendingClause db with
    | error e => rfl
    | ok d => exact spendPendingClause_events hm
  · simp only [step]; rw [reconnect_db]
    repeat' split
    all_goals rfl

/-! ## all histories -/

/-- **Every history refines the specification.**  For every list of operations (stage / re-stage / complete /
discard / direct order and account updates / close-and-reopen / spend clause / reconnect check, failing or
not) run from the freshly created database, the pair (visible state, staged batch) of the database equals the
state of the specification machine `Spec` run on the same operations, and the database stays coherent. -/
theorem C06_histories (ops : List Op) :
    abs (run DB.init ops) = (abs DB.init).run ops ∧ Coh (run DB.init ops) :=
  run_refines DB.init coh_init ops

/-- operations that neither complete nor update directly -/
def Op.stagingOnly : Op → Bool
  | .stage _ | .discard | .reopen | .reconnect _ _ => true
  | _ => false

/-- in the specification, staging-only operations never change the visible state -/
theorem spec_stagingOnly_visible (s : Spec) (ops : List Op) (h : ∀ op ∈ ops, op.stagingOnly = true) :
    (s.run ops).vis = s.vis := by
  induction ops generalizing s with
  | nil => rfl
  | cons op ops ih =>
    have h1 : (s.step op).vis = s.vis := by
      have := h op List.mem_cons_self
      cases op <;> simp only [Op.stagingOnly] at this <;> simp only [Spec.step] <;> try contradiction
      all_goals (repeat' split) <;> rfl
    simp only [Spec.run]
    rw [ih _ (fun o ho => h o (List.mem_cons_of_mem _ ho)), h1]

/-- **Between staging and completion the visible state is unchanged**, over all histories: after ANY history
`pre`, any further sequence of stage / re-stage / discard / reopen / reconnect operations – each failing or not –
leaves `Account(s)`, `GetOrder(s)` and the snapshot history exactly as they were. -/
theorem C06_visible_unchanged_until_complete (pre ops : List Op) (h : ∀ op ∈ ops, op.stagingOnly = true) :
    vis (run (run DB.init pre) ops) = vis (run DB.init pre) := by
  obtain ⟨_, hc⟩ := C06_histories pre
  obtain ⟨h1, _⟩ := run_refines (run DB.init pre) hc ops
  have := congrArg Spec.vis h1
  simp only [abs] at this
  rw [this]
  exact spec_stagingOnly_visible _ ops h

/-- **Completion applies the most recently staged version**, over all histories: if the last successful staging
call before `complete` was `a`, with only reopen / failing staging calls / non-discarding reconnect checks in
between (`keep`), completion applies exactly `stageOut` of the state visible at that call. -/
theorem C06_complete_applies_last_staged (pre : List Op) (a : StageArgs) (keep : List Op)
    (hok : (step (run DB.init pre) (.stage a)).2 = none)
    (hkeep : ∀ d, Coh d → ∀ op ∈ keep, (step d op).1 = d ∨ op = .reopen) :
    let d0 := run DB.init pre
    let d1 := run (step d0 (.stage a)).1 keep
    ∃ o, stageOut d0.accounts d0.orders a = .ok o ∧
      vis (step d1 .complete).1 = applyStaged ⟨a.batchId, o.pa, o.po, o.snap⟩ (vis d0) ∧
      staged (step d1 .complete).1 = none := by
  intro d0 d1
  obtain ⟨_, hc0⟩ := C06_histories pre
  obtain ⟨o, ho, hd⟩ := stage_ok_state d0 a hok
  have hc1 : Coh (step d0 (.stage a)).1 := (step_refines d0 hc0 (.stage a)).2
  -- `keep` leaves the database as it is
  have hk : ∀ (l : List Op) (d : DB), Coh d → (∀ op ∈ l, (step d op).1 = d ∨ op = .reopen) → run d l = d := by
    intro l
    induction l with
    | nil => intro d _ _; rfl
    | cons op l ih =>
      intro d hcd hl
      have h1 : (step d op).1 = d := by
        rcases hl op List.mem_cons_self with h | h
        · exact h
        · subst h; rfl
      simp only [run]; rw [h1]
      exact ih d hcd (fun o ho => hl o (List.mem_cons_of_mem _ ho))
  have hd1 : d1 = (step d0 (.stage a)).1 := hk keep _ hc1 (fun op hop => hkeep _ hc1 op hop)
  refine ⟨o, ho, ?_⟩
  have hp : HasPending d1 ⟨a.batchId, o.pa, o.po, o.snap⟩ := by rw [hd1, hd]; exact ⟨rfl, rfl, rfl, rfl⟩
  obtain ⟨_, _, _, _, _, h6, _, _, _, _⟩ := stageOut_ok ho
  simp only [step]
  rw [markBatchComplete_pending hp h6]
  simp only [commit]
  rw [hd1, hd]
  exact ⟨rfl, rfl⟩

/-! ## the reconnect decision (`Client.checkPendingBatch`) -/

/-- **Reconnect decision.**  For every outcome of loading the staged batch, of the auctioneer query and of the
cleaner calls: `DeletePendingBatch` is requested iff a batch is staged AND the auctioneer returned a well-formed
finalised transaction with ANOTHER txid AND removing the funding artifacts succeeded; in every other case (no
staged batch, load error, not finalised, RPC error, malformed reply, same txid, artifact removal failed) the
cleaner is not asked to delete; the only calls ever made are `RemovePendingBatchArtifacts` (of the staged
transaction) and `DeletePendingBatch`; and a nil error is returned exactly when the outcome is keep-without-error
or a successful discard. -/
theorem C06_reconnect_decision (src : Except Err Snap) (rpc : Rpc) (env : CleanerEnv) :
    let r := checkPendingBatch src rpc env
    (Call.deletePendingBatch ∈ r.1 ↔
      ∃ snap t, src = .ok snap ∧ rpc = .finalized t ∧ snap.tx ≠ t ∧ env.removeOk = true) ∧
    (∀ c ∈ r.1, c = .deletePendingBatch ∨ ∃ snap, src = .ok snap ∧ c = .removeArtifacts snap.tx) ∧
    (r.2 = none ↔
      src = .error .noPending ∨
      ∃ snap, src = .ok snap ∧ (rpc = .rpcErr true ∨ rpc = .finalized snap.tx ∨
        (∃ t, rpc = .finalized t ∧ snap.tx ≠ t ∧ env.removeOk = true ∧ env.deleteOk = true))) := by
  intro r
  cases src with
  | error e => cases e <;> simp [r, checkPendingBatch]
  | ok snap =>
    cases rpc with
    | rpcErr b => cases b <;> simp [r, checkPendingBatch]
    | malformed => simp [r, checkPendingBatch]
    | finalized t =>
      obtain ⟨rm, dl⟩ := env
      by_cases ht : snap.tx = t
      · subst ht; simp [r, checkPendingBatch]
      · have ht' : ¬ t = snap.tx := fun h => ht h.symm
        cases rm <;> cases dl <;> simp [r, checkPendingBatch, ht, ht']

/-- on the database: the reconnect check either keeps everything or does exactly what `discard` does – it never
changes the visible state, i.e. a staged batch is **never applied** by it -/
theorem C06_reconnect_never_applies (db : DB) (rpc : Rpc) (rm : Bool) :
    ((step db (.reconnect rpc rm)).1 = db ∨ (step db (.reconnect rpc rm)).1 = (step db .discard).1) ∧
    vis (step db (.reconnect rpc rm)).1 = vis db := by
  simp only [step]; rw [reconnect_db]
  repeat' split
  all_goals first | exact ⟨Or.inl rfl, rfl⟩ | exact ⟨Or.inr rfl, rfl⟩

/-- **Every function that (re-)creates the stream to the auctioneer checks the pending batch before it
(re-)subscribes accounts** – regenerated from `auctioneer/client.go`: whichever functions call
`connectServerStream` (today `connectAndAuthenticate` for the first connect and `reconnect`, the body of
`HandleServerShutdown`, for stream errors / shutdown notices – the statement does not depend on their names), each of
them calls `checkPendingBatch` before it subscribes accounts, and there is at least one such function. -/
theorem facts_stream_creators_check :
    streamCreators ≠ [] ∧ ∀ p ∈ streamCreators, p.2 = "check-before-subscribe" := by decide

/-- a check answered "not finalised" keeps everything -/
theorem reconnect_notFinalised_keeps (db : DB) (rm : Bool) : (reconnect (.rpcErr true) rm db).1 = db := by
  rw [reconnect_db]; cases db.pendingSnap <;> rfl

/-- **All reconnect paths apply the same decision**: first connect, stream error and shutdown notice have exactly
the database effect of one `checkPendingBatch` with the auctioneer's final answer – so `C06_reconnect_keep_iff` /
`C06_reconnect_never_applies` hold for each of them. -/
theorem C06_reconnect_all_paths (p : Path) (rpc : Rpc) (rm : Bool) (db : DB) :
    (reconnectVia p rpc rm db).1 = (step db (.reconnect rpc rm)).1 ∧
    (reconnectVia p rpc rm db).2.getLast? = some (reconnect rpc rm db).2 := by
  cases p <;> simp [reconnectVia, step, reconnect_notFinalised_keeps]

/-- kept ⇔ not loadable ∨ not finalised ∨ same txid (∨ cleanup impossible); discarded otherwise -/
theorem C06_reconnect_keep_iff (db : DB) (hc : Coh db) (st : Staged) (hs : staged db = some st)
    (rpc : Rpc) (rm : Bool) :
    (staged (step db (.reconnect rpc rm)).1 = some st ↔
      ¬ (readable (vis db) st = true ∧ ∃ t, rpc = .finalized t ∧ st.snap.tx ≠ t ∧ rm = true)) ∧
    (staged (step db (.reconnect rpc rm)).1 = none ↔
      (readable (vis db) st = true ∧ ∃ t, rpc = .finalized t ∧ st.snap.tx ≠ t ∧ rm = true)) := by
  have h1 := (step_refines db hc (.reconnect rpc rm)).1
  have h2 := congrArg Spec.staged h1
  simp only [abs, Spec.step, hs] at h2
  rw [h2]
  cases hr : readable (vis db) st with
  | false => simp
  | true =>
    cases rpc with
    | rpcErr b => simp [discards]
    | malformed => simp [discards]
    | finalized t =>
      by_cases ht : st.snap.tx = t
      · simp [discards, ht]
      · cases rm <;> simp [discards, ht]

/-! ## non-vacuity -/

/-- a database with one account, two orders and a staged batch touching the account and one order -/
def exStage : StageArgs :=
  { batchId := 1, batchTx := 3, feeOk := true, orders := [2], orderMods := [[.state 2, .unitsUnfulfilled 4]],
    accounts := [1], acctMods := [[.state 8, .incBatchKey, .value 900]], matched := [(2, [6])] }

def exAcct : Acct := { value := 1000, expiry := 144, state := 3, bkey := 0, opTx := 7, opIdx := 0, hint := 1,
                       tx := 2, version := 0 }

def exPre : List Op :=
  [.addAccount 1 exAcct, .submitOrder 2 { state := 0, unfilled := 10, units := 10, minMatch := 2, isBid := true, tier := 2, extras := 5 }, .submitOrder 3 { state := 0, unfilled := 5, units := 5, minMatch := 1 }]

def exDb : DB := run DB.init exPre

example : (step exDb (.stage exStage)).2 = none := by decide
example : NoPending exDb := ⟨by decide, by decide, by decide, by decide⟩
example : staged (step exDb (.stage exStage)).1 ≠ none := by decide
example : Coh (step exDb (.stage exStage)).1 :=
  (step_refines exDb (C06_histories exPre).2 (.stage exStage)).2
/-- completion really changes the visible state in the example (account 1, order 2 – a bid with non-default
minimum match size, node tier and TLV extras, all preserved) and leaves order 3 -/
example : let d := (step (step exDb (.stage exStage)).1 .complete).1
    lookup 2 d.orders = some { state := 2, unfilled := 4, units := 10, minMatch := 2, isBid := true, tier := 2, extras := 5 } ∧ lookup 3 d.orders = some { state := 0, unfilled := 5, units := 5, minMatch := 1 } ∧
    (lookup 1 d.accounts).map (·.state) = some 8 ∧ lookup 2 exDb.orders = some { state := 0, unfilled := 10, units := 10, minMatch := 2, isBid := true, tier := 2, extras := 5 } ∧
    d.snaps.length = 1 := by decide
/-- a failing element at the second position: error and identity -/
example : (step exDb (.stage { exStage with orders := [2, 9], orderMods := [[], []] })).2 = some .noOrder := by
  decide
example : (step exDb .complete).2 = some .noPending := by decide
/-- `DeleteOrder` of a staged order: the staged batch is untouched, `PendingBatchSnapshot` and the spend clause
fail with `ErrNoOrder`, and completion re-creates the order from its staged version (without event refs) -/
example : let d := (step (step exDb (.stage exStage)).1 (.deleteOrder 2)).1
    lookup 2 d.orders = none ∧ staged d = staged (step exDb (.stage exStage)).1 ∧
    (match pendingBatchSnapshot d with | .error e => some e | .ok _ => none) = some .noOrder ∧
    (step d .spend).2 = some .noOrder ∧
    lookup 2 (step d .complete).1.orders =
      some { state := 2, unfilled := 4, units := 10, minMatch := 2, isBid := true, tier := 2, extras := 5 } ∧
    (match getOrderEvents (step d .complete).1 2 with | .error e => some e | .ok _ => none) = some .other := by
  decide

/-- hypotheses of `C06_complete_applies_last_staged` are satisfiable with a non-empty `keep` -/
example : (step (run DB.init exPre) (.stage exStage)).2 = none ∧
    ∀ d, Coh d → ∀ op ∈ [Op.reopen], (step d op).1 = d ∨ op = .reopen := by
  refine ⟨by decide, ?_⟩
  intro d _ op hop; right; simpa using hop
/-- reconnect: a discarding outcome and a keeping outcome exist -/
example : (checkPendingBatch (.ok ⟨1, 3, [], [], []⟩) (.finalized 4) ⟨true, true⟩).1 =
    [.removeArtifacts 3, .deletePendingBatch] := by decide
example : (checkPendingBatch (.ok ⟨1, 3, [], [], []⟩) (.finalized 3) ⟨true, true⟩) = ([], none) := by decide
example : staged (step (step exDb (.stage exStage)).1 (.reconnect (.finalized 4) true)).1 = none := by decide
example : staged (step (step exDb (.stage exStage)).1 (.reconnect (.rpcErr true) true)).1 ≠ none := by decide

end Pool.C06
