import PoolProofs.C19Lemmas
import PoolProofs.C19LemmasRpc
import PoolProofs.C19LemmasStr
import PoolModel.Generated.C19State
import PoolModel.Generated.C19Locks
/-! # C19 — decoding untrusted tickets and auctioneer batch messages never crashes

Headline theorems about the model of sidecar/tlv.go + sidecar/codec.go (`Pool.Dec.deserializeTicket`,
`decodeString`) and of order/rpc_parse.go + the Prepare/Sign branches of `handleServerMessage`
(`Pool.Dec.parseRPCBatch`, `handlePrepare`, …).  `repoCfg` / `repoRpcCfg` are computed from facts
regenerated from the Go source (which tlv decode variant is called, which nil tests exist, which
reject call follows a parse error), so the theorems are re-checked against the current tree. -/
namespace Pool.C19
open Pool.Dec

/-! ## tickets -/

/-- (regenerated fact) the current sidecar/tlv.go calls the size-capped tlv decoders -/
theorem C19_repo_decoders_capped (m : Nat) : (repoCfg m).p2pTop = true ∧ (repoCfg m).p2pSub = true := by
  constructor <;> simp [repoCfg] <;> decide

/-- For EVERY byte string, `DeserializeTicket` yields a ticket or an error — never a panic, and the
decoding loop ends within `len+1` iterations — provided the runtime grants allocations of 65535 bytes. -/
theorem C19_ticket_total (maxAlloc : Nat) (h : 65535 ≤ maxAlloc) (b : Bytes) :
    deserializeTicket (repoCfg maxAlloc) b ≠ .panic :=
  deserializeTicket_ne_panic (repoCfg maxAlloc) (C19_repo_decoders_capped maxAlloc).1
    (C19_repo_decoders_capped maxAlloc).2 h b

example : deserializeTicket (repoCfg (2 ^ 48)) [10, 0xff, 0xff, 0xff, 0xff, 0xff, 0xff, 0xff, 0xff, 0xff]
    = .err .toolarge := by rfl
example : ∃ t, deserializeTicket (repoCfg (2 ^ 48)) [1, 8, 1, 2, 3, 4, 5, 6, 7, 8, 2, 1, 1, 3, 1, 4, 99, 1, 0] = .ok t ∧
    t.state = 4 := ⟨_, by rfl, by rfl⟩

/-- For EVERY text string (up to the allocation limit), `DecodeString` yields a ticket or an error, never
a panic: every slice expression is in bounds, base58.Decode allocates at most `len(s)` bytes, and the
payload goes through `C19_ticket_total`.  `H` is any hash function with at least 4 output bytes. -/
theorem C19_string_total (H : Bytes → Bytes) (hH : ∀ x, 4 ≤ (H x).length) (maxAlloc : Nat) (h : 65535 ≤ maxAlloc)
    (s : Bytes) (hs : s.length ≤ maxAlloc) : decodeString H (repoCfg maxAlloc) s ≠ .panic :=
  decodeString_ne_panic H hH (repoCfg maxAlloc) (C19_repo_decoders_capped maxAlloc).1
    (C19_repo_decoders_capped maxAlloc).2 h s hs

/-- The pinned rule (uncapped `DecodeWithParsedTypes`) DOES panic: a 10-byte input declaring a record of
2^64-1 bytes for the known type 10 requests that allocation. -/
theorem C19_pinned_ticket_panics (maxAlloc : Nat) (h : maxAlloc < 2 ^ 64 - 1) :
    deserializeTicket (pinnedCfg maxAlloc) [10, 0xff, 0xff, 0xff, 0xff, 0xff, 0xff, 0xff, 0xff, 0xff] = .panic := by
  have ha : alloc maxAlloc 18446744073709551615 = .panic := by
    unfold alloc; rw [if_pos (by omega)]
  simp [deserializeTicket, pinnedCfg, decodeStream, ticketRecs, sortedTypes, decodeLoop, readVarInt, beNat,
    getRecord, dVarBytes, ha, Pool.Gen.C15.idType, Pool.Gen.C15.versionType, Pool.Gen.C15.stateType,
    Pool.Gen.C15.offerType, Pool.Gen.C15.recipientType, Pool.Gen.C15.orderType, Pool.Gen.C15.executionType]

/-- … and so does an unknown type (the parsed-types buffer `make([]byte, 0, length)`). -/
theorem C19_pinned_ticket_panics_unknown_type (maxAlloc : Nat) (h : maxAlloc < 2 ^ 64 - 1) :
    deserializeTicket (pinnedCfg maxAlloc) [99, 0xff, 0xff, 0xff, 0xff, 0xff, 0xff, 0xff, 0xff, 0xff] = .panic := by
  have ha : alloc maxAlloc 18446744073709551615 = .panic := by
    unfold alloc; rw [if_pos (by omega)]
  simp [deserializeTicket, pinnedCfg, decodeStream, ticketRecs, sortedTypes, decodeLoop, readVarInt, beNat,
    getRecord, ha, Pool.Gen.C15.idType, Pool.Gen.C15.versionType, Pool.Gen.C15.stateType,
    Pool.Gen.C15.offerType, Pool.Gen.C15.recipientType, Pool.Gen.C15.orderType, Pool.Gen.C15.executionType]

/-- The cap matters at the NESTED level too: were `decodeBytes` to use the uncapped `DecodeWithParsedTypes`
(top level still capped), a 12-byte ticket whose offer stream holds an unknown record declaring 2^64-1
bytes would panic in `make([]byte, 0, length)` – the outer cap bounds the nested BYTES, not the lengths
declared inside them. -/
theorem C19_nested_uncapped_with_types_panics (maxAlloc : Nat) (h : maxAlloc < 2 ^ 64 - 1) (h2 : 12 ≤ maxAlloc) :
    deserializeTicket { p2pTop := true, p2pSub := false, typesSub := true, maxAlloc := maxAlloc }
      [10, 10, 99, 0xff, 0xff, 0xff, 0xff, 0xff, 0xff, 0xff, 0xff, 0xff] = .panic := by
  have ha : alloc maxAlloc 18446744073709551615 = .panic := by
    unfold alloc; rw [if_pos (by omega)]
  have hb : alloc maxAlloc 10 = .ok () := by
    unfold alloc; rw [if_neg (by omega)]
  simp [deserializeTicket, decodeStream, ticketRecs, sortedTypes, decodeLoop, readVarInt, beNat, getRecord,
    dVarBytes, readFull, ha, hb, maxRecordSize, deserializeOffer, decodeBytes, offerRecs,
    Pool.Gen.C15.idType, Pool.Gen.C15.versionType, Pool.Gen.C15.stateType, Pool.Gen.C15.offerType,
    Pool.Gen.C15.recipientType, Pool.Gen.C15.orderType, Pool.Gen.C15.executionType,
    Pool.Gen.C15.capacityType, Pool.Gen.C15.pushAmtType, Pool.Gen.C15.leaseDurationType,
    Pool.Gen.C15.signPubKeyType, Pool.Gen.C15.sigOfferDigestType, Pool.Gen.C15.offerAutoType,
    Pool.Gen.C15.unannouncedChannelType, Pool.Gen.C15.zeroConfChannelType]

/-! ## auctioneer messages -/

/-- (regenerated fact) every singular sub-message the model treats as optional is a pointer field of
the generated protobuf struct, every list a repeated field, every map a map. -/
theorem C19_model_fields_match_pb : ∀ f ∈ modelFields, f ∈ Pool.Gen.C19.pbFields := by decide

/-- (regenerated facts) the nil tests and the reject-by-raw-ID call are present in the current source -/
theorem C19_repo_checks_present :
    repoRpcCfg.nilChecks = true ∧ repoRpcCfg.rejectByRawID = true ∧ repoRpcCfg.signNilCheck = true := by
  refine ⟨?_, ?_, ?_⟩ <;> rfl

/-- (regenerated fact) The model treats every parser / decoder as a function of its input alone.  That is
what the source does: in the intra-package call graphs of `ParseRPCBatch` … `ParseRPCSign` (package order)
and of `DecodeString`, `DeserializeTicket`, `EncodeToString`, `SerializeTicket` (package sidecar) no function
assigns to, indexes into, deletes from or takes the address of a package-level variable – so the two handler
goroutines of a daemon (rpcServer and SidecarAcceptor) can be inside the parsers at the same time without a
data race (a concurrent map access is a fatal, unrecoverable runtime error).  The call graphs contain every
function the model mirrors. -/
theorem C19_parsers_touch_no_package_state :
    Pool.Gen.C19.parserStateWrites = [] ∧
    -- the only package-level variable the order parsers mention at all is the constant zero nonce
    Pool.Gen.C19.orderParseVars = ["ZeroNonce : Nonce"] ∧
    (∀ f ∈ ["ParseRPCBatch", "ParseRPCMatchedOrders", "ParseRPCServerAsk", "ParseRPCServerBid",
             "ParseRPCServerOrder", "parseNodeAddrs", "ParseRPCSign"], f ∈ Pool.Gen.C19.orderParseCallGraph) ∧
    (∀ f ∈ ["DecodeString", "DeserializeTicket", "deserializeOffer", "deserializeRecipient", "deserializeOrder",
             "deserializeExecution", "decodeBytes", "DSig", "DBytes8"], f ∈ Pool.Gen.C19.sidecarCodecCallGraph) := by
  decide

/-- (regenerated fact) "Never fails to terminate" on the reject paths: the model's handlers are straight-line
code after parsing.  In the source the only way such code can block forever is re-locking a non-reentrant
`sync.Mutex`: no method of `SidecarAcceptor` or `rpcServer` calls – between a `Lock()` of one of its
receiver's mutexes and the matching `Unlock()` (to the end of the function when deferred) – a sibling method
that (transitively) locks the same mutex.  (`handleServerMessage` holds the acceptor's embedded mutex, the
helpers it reaches lock `pendingSidecarOrdersMtx` only.) -/
theorem C19_handlers_never_relock_a_held_mutex :
    Pool.Gen.C19.relockSites = [] ∧
    "SidecarAcceptor.handleServerMessage locks recv" ∈ Pool.Gen.C19.methodLocks ∧
    "SidecarAcceptor.getSidecarAsOrder locks recv.pendingSidecarOrdersMtx" ∈ Pool.Gen.C19.methodLocks := by
  decide

/-- For EVERY decoded prepare message — any sub-message absent, any key / hex / address / tx malformed —
`ParseRPCBatch` yields a batch or an error, never a panic. -/
theorem C19_parse_total (m : OrderMatchPrepare) : parseRPCBatch repoRpcCfg m ≠ .panic :=
  parseRPCBatch_ne_panic repoRpcCfg C19_repo_checks_present.1 m

/-- **Go map iteration order is irrelevant for the outcome class.**  `ParseRPCBatch` ranges over the Go maps
`MatchedMarkets` and (per market) `MatchedOrders` in a random order; the model lists the entries in some
order.  For any two orders of the markets (and, inside a market, of its orders) the outcome class
(ok / error; never panic) is the same – the result is `ok` exactly when every entry is fine. -/
theorem C19_parse_class_order_independent (l l' : List (Nat × MatchedMarket)) (hp : l.Perm l') :
    (parseMarkets repoRpcCfg l).cls = (parseMarkets repoRpcCfg l').cls := by
  apply cls_eq_of_ok_iff (parseMarkets_ne_panic _ C19_repo_checks_present.1 _)
    (parseMarkets_ne_panic _ C19_repo_checks_present.1 _)
  rw [parseMarkets_ok_iff, parseMarkets_ok_iff]
  exact ⟨fun h e he => h e (hp.mem_iff.2 he), fun h e he => h e (hp.mem_iff.1 he)⟩

theorem C19_parse_class_order_independent_orders (dur : Nat) (l l' : List (Bytes × MatchedOrder)) (hp : l.Perm l') :
    (parseOrders repoRpcCfg dur l).cls = (parseOrders repoRpcCfg dur l').cls := by
  apply cls_eq_of_ok_iff (parseOrders_ne_panic _ C19_repo_checks_present.1 _ _)
    (parseOrders_ne_panic _ C19_repo_checks_present.1 _ _)
  rw [parseOrders_ok_iff, parseOrders_ok_iff]
  exact ⟨fun h e he => h e (hp.mem_iff.2 he), fun h e he => h e (hp.mem_iff.1 he)⟩

/-- the same for the `ServerNonces` map of `ParseRPCSign` -/
theorem C19_sign_class_order_independent (l l' : List (Bytes × Bytes)) (hp : l.Perm l') :
    (parseNonces l).cls = (parseNonces l').cls := by
  apply cls_eq_of_ok_iff (parseNonces_ne_panic _) (parseNonces_ne_panic _)
  rw [parseNonces_ok_iff, parseNonces_ok_iff]
  exact ⟨fun h e he => h e (hp.mem_iff.2 he), fun h e he => h e (hp.mem_iff.1 he)⟩

example : ([(1, (⟨[]⟩ : MatchedMarket)), (2, ⟨[]⟩)] : List (Nat × MatchedMarket)).Perm [(2, ⟨[]⟩), (1, ⟨[]⟩)] :=
  List.Perm.swap _ _ _

/-- A parse error is answerable: both handlers hand a reject carrying the message's batch ID to the
auctioneer client (and do not panic). -/
theorem C19_reject_answerable (m : OrderMatchPrepare) (e : PErr) (h : parseRPCBatch repoRpcCfg m = .err e) :
    handlePrepare repoRpcCfg m = .reject m.batchId ∧ acceptorHandlePrepare repoRpcCfg m = .reject m.batchId := by
  unfold handlePrepare acceptorHandlePrepare
  rw [h, C19_repo_checks_present.2.1]
  exact ⟨rfl, rfl⟩

/-- a wire-decodable prepare message whose only matched ask has no `Ask` sub-message -/
def witnessAbsentAsk : OrderMatchPrepare :=
  { matchedMarkets := [(2016, { matchedOrders := [([0x30, 0x30], { matchedBids := [], matchedAsks := [{ ask := none }] })] })],
    chargedAccounts := [], executionFee := none, batchTxOK := false, batchId := [] }

example : parseRPCBatch repoRpcCfg witnessAbsentAsk = .err .nilMsg := by rfl
example : handlePrepare repoRpcCfg witnessAbsentAsk = .reject [] := by rfl

/-- Neither prepare handler panics, whatever the message. -/
theorem C19_prepare_handlers_total (m : OrderMatchPrepare) :
    handlePrepare repoRpcCfg m ≠ .panic ∧ acceptorHandlePrepare repoRpcCfg m ≠ .panic := by
  have hp := C19_parse_total m
  unfold handlePrepare acceptorHandlePrepare
  rw [C19_repo_checks_present.2.1]
  cases h : parseRPCBatch repoRpcCfg m with
  | ok u => cases u; simp
  | err e => simp
  | panic => exact absurd h hp

/-- `ParseRPCSign` never panics. -/
theorem C19_sign_total (m : OrderMatchSignBegin) : parseRPCSign m ≠ .panic := parseNonces_ne_panic _

/-- Neither sign handler panics, with or without a pending batch. -/
theorem C19_sign_handlers_total (pending : Option Bytes) (m : OrderMatchSignBegin) :
    handleSign repoRpcCfg pending m ≠ .panic ∧ acceptorHandleSign repoRpcCfg pending m ≠ .panic := by
  have hs := C19_sign_total m
  unfold handleSign acceptorHandleSign
  rw [C19_repo_checks_present.2.2]
  cases pending with
  | none => simp
  | some id =>
    simp only [Option.isNone_some, Bool.and_false, Bool.false_eq_true, if_false]
    constructor
    · cases h : parseRPCSign m with
      | ok u => cases u; simp
      | err e => simp [sendRejectBatch]
      | panic => exact absurd h hs
    · split <;> simp

/-- a sign message that arrives while no batch is pending is rejected by its own batch ID -/
example : handleSign repoRpcCfg none { batchId := [2], serverNonces := [], prevOutputs := 0 } = .reject [2] := by rfl

/-! ### the pinned rules violate the property -/

/-- pinned rpc_parse.go: the absent `Ask` is dereferenced -/
theorem C19_pinned_parse_panics : parseRPCBatch pinnedRpcCfg witnessAbsentAsk = .panic := by rfl

/-- pinned rpcserver.go: EVERY parse error ends in `sendRejectBatch(nil, err)`, a nil dereference -/
theorem C19_pinned_reject_panics (m : OrderMatchPrepare) (e : PErr) (h : parseRPCBatch pinnedRpcCfg m = .err e) :
    handlePrepare pinnedRpcCfg m = .panic := by
  unfold handlePrepare
  rw [h]
  rfl

/-- the hypothesis of `C19_pinned_reject_panics` is met by the empty prepare message (batch TX missing) -/
example : parseRPCBatch pinnedRpcCfg
    { matchedMarkets := [], chargedAccounts := [], executionFee := none, batchTxOK := false, batchId := [] }
    = .err .tx := by rfl

/-- pinned Sign branches: a sign message without a pending batch dereferences nil in both handlers -/
theorem C19_pinned_sign_panics (m : OrderMatchSignBegin) :
    acceptorHandleSign pinnedRpcCfg none m = .panic ∧
    (parseRPCSign m ≠ .panic → handleSign pinnedRpcCfg none m = .panic) := by
  constructor
  · rfl
  · intro h
    unfold handleSign
    cases h' : parseRPCSign m with
    | ok u => cases u; rfl
    | err e => rfl
    | panic => exact absurd h' h

/-! ### the property, in full -/

/-- C19 as stated: every ticket byte string, every prepare and sign message, every pending-batch state:
a value or an error answered by a reject; never a panic; termination is structural (fuel ≤ len+1). -/
def C19_full_statement : Prop :=
  (∀ maxAlloc, 65535 ≤ maxAlloc → ∀ b, deserializeTicket (repoCfg maxAlloc) b ≠ .panic) ∧
  (∀ (H : Bytes → Bytes), (∀ x, 4 ≤ (H x).length) → ∀ maxAlloc, 65535 ≤ maxAlloc → ∀ s : Bytes, s.length ≤ maxAlloc →
      decodeString H (repoCfg maxAlloc) s ≠ .panic) ∧
  (∀ m, parseRPCBatch repoRpcCfg m ≠ .panic) ∧
  (∀ m e, parseRPCBatch repoRpcCfg m = .err e →
      handlePrepare repoRpcCfg m = .reject m.batchId ∧ acceptorHandlePrepare repoRpcCfg m = .reject m.batchId) ∧
  (∀ m, parseRPCSign m ≠ .panic) ∧
  (∀ p m, handleSign repoRpcCfg p m ≠ .panic ∧ acceptorHandleSign repoRpcCfg p m ≠ .panic)

theorem C19_full : C19_full_statement :=
  ⟨C19_ticket_total, C19_string_total, C19_parse_total, C19_reject_answerable, C19_sign_total, C19_sign_handlers_total⟩

end Pool.C19
