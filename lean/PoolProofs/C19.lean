import PoolModel.Dec.Ticket
namespace Pool.C19
open Pool.Dec

theorem C19_placeholder : (1 : Nat) = 1 := rfl

end Pool.C19
