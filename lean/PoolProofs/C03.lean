import PoolProofs.C02Lemmas
import PoolProofs.BatchExamples
/-!
# C03 — an accepted batch funds a correct 2-of-2 channel output for every match

Headline theorems about the model of `Verify` / `ChannelOutput` / `DetermineCommitmentType` / `FundingOutput`.
The funding script bytes are the uninterpreted function `env.fundScript (taproot?, ourKey, theirKey)` (supplied per
run by direct calls to lnd's `GenFundingPkScript` / `GenTaprootFundingScript`); the theorems hold for every such
function.  They hold for the code as found and the repaired code alike (`rules` arbitrary).
-/
set_option linter.unusedSimpArgs false
set_option linter.unusedVariables false
namespace Pool.C03
open Pool.Batch

/-- `FundingOutput ∘ DetermineCommitmentType` over the regenerated case tables = the spec's rule -/
theorem commit_spec (a c : Nat) :
    fundingIsTaproot (determineCommitmentType a c) = impliesTaprootFunding a c := by
  unfold fundingIsTaproot determineCommitmentType impliesTaprootFunding chanScriptEnforced chanSimpleTaproot
  simp only [Pool.Gen.Batch.commitCases, Pool.Gen.Batch.commitDefault, Pool.Gen.Batch.taprootFundingCommitTypes,
    determineCommitmentType.go]
  by_cases h1 : a = 1 <;> by_cases h2 : c = 1 <;> by_cases h3 : a = 2 <;> by_cases h4 : c = 2 <;>
    simp [h1, h2, h3, h4] <;> omega

/-- the commitment type does not depend on which side is "ours" -/
theorem commit_symmetric (a c : Nat) : determineCommitmentType a c = determineCommitmentType c a := by
  unfold determineCommitmentType
  simp only [Pool.Gen.Batch.commitCases, Pool.Gen.Batch.commitDefault, determineCommitmentType.go]
  by_cases h1 : a = 1 <;> by_cases h2 : c = 1 <;> by_cases h3 : a = 2 <;> by_cases h4 : c = 2 <;>
    simp [h1, h2, h3, h4]

/-- the funding key `ChannelOutput` uses is the sidecar recipient's key iff our bid carries a ticket; a ticket
without recipient key, or a wallet error, rejects -/
theorem ourKey_sidecar (o : Ours) (k : Key) : ourFundingKey o = .ok k ↔ OurFundingKey o k := by
  unfold ourFundingKey OurFundingKey
  cases hA : o.isAsk <;> cases hs : o.sidecar with
  | none => cases hd : o.derivedKey <;> simp
  | some x => cases x <;> cases hd : o.derivedKey <;> simp

theorem channelOutput_ok {env : Env} {outs : List TxOut} {o : Ours} {t : Their}
    (h : channelOutput env outs o t = .ok ()) :
    ∃ k, ourFundingKey o = .ok k ∧ ∃ out ∈ outs, out.value = expectedOutputSize o t ∧
      env.fundScript (fundingIsTaproot (determineCommitmentType o.chanType t.chanType)) k t.multiSigKey =
        some out.script := by
  unfold channelOutput at h
  cases hk : ourFundingKey o with
  | error e => rw [hk] at h; cases h
  | ok k =>
    rw [hk] at h
    simp only at h
    unfold fundingOutput at h
    by_cases hz : (!fundingIsTaproot (determineCommitmentType o.chanType t.chanType) &&
        decide (expectedOutputSize o t ≤ 0)) = true
    · rw [if_pos hz] at h; cases h
    rw [if_neg hz] at h
    cases hf : env.fundScript (fundingIsTaproot (determineCommitmentType o.chanType t.chanType)) k t.multiSigKey with
    | none => rw [hf] at h; cases h
    | some s =>
      rw [hf] at h
      simp only at h
      by_cases hany : (outs.any fun out => out.value == expectedOutputSize o t && out.script == s) = true
      · obtain ⟨out, hmem, hout⟩ := List.any_eq_true.mp hany
        simp only [Bool.and_eq_true, beq_iff_eq] at hout
        exact ⟨k, rfl, out, hmem, hout.1, by rw [hout.2]; exact hf⟩
      · rw [if_neg hany] at h; cases h

/-- **C03.** Whenever the batch is accepted, every match of every one of the trader's orders has its funding
output in the batch transaction. -/
theorem C03_accept_funds_channels (env : Env) (rules : Rules) (b : Batch) (best : UInt32) (st : Tallies)
    (hw : WireRanges b) (h : verify env rules b best = .ok st) : FundsChannels env b := by
  unfold verify at h
  split at h <;> try contradiction
  split at h <;> try contradiction
  split at h <;> try contradiction
  rename_i st0 h0
  obtain ⟨hacc, _, _⟩ := verifyOrders_ok _ _ _ (stOk_nil env) h0
  intro nm hnm
  obtain ⟨o, ho, _, _, hm, _⟩ := hacc nm hnm
  refine ⟨o, ho, ?_⟩
  intro t ht
  obtain ⟨⟨d, hd⟩, hc⟩ := hm t ht
  obtain ⟨k, hk, out, hmem, hval, hscr⟩ := channelOutput_ok hc
  refine ⟨k, (ourKey_sidecar o k).mp hk, out, hmem, ?_, ?_⟩
  · rw [hval]
    unfold expectedOutputSize bidSelfBalance
    rw [toSatoshis_spec t ((hw nm hnm).2 t ht)]
    apply w64_congr
    cases o.isAsk <;> simp <;> omega
  · rw [← commit_spec]; exact hscr

/-- the same for the manager entry point -/
theorem C03_orderMatchValidate_funds_channels (env : Env) (rules : Rules) (b : Batch) (best : UInt32)
    (pending : Option String) (st : Tallies) (hw : WireRanges b)
    (h : (orderMatchValidate env rules b best pending).1 = .ok st) : FundsChannels env b := by
  unfold orderMatchValidate at h
  split at h <;> try (simp at h; done)
  rename_i st0 hv
  exact C03_accept_funds_channels env rules b best st0 hw hv

/-- **Regenerated fact.** In `ParseRPCServerOrder` the counterparty order's channel type is assigned only by the four
cases of the rpc channel-type switch (`Pool.Gen.Batch.rpcChanTypeTable`, which `parseTheir` interprets) – nothing
overrides it afterwards, e.g. depending on the order version. -/
theorem C03_channel_type_only_from_switch :
    Pool.Gen.Batch.serverOrderChanTypeAssignments = Pool.Gen.Batch.rpcChanTypeTable.length := by decide

/-- non-vacuity: the example proposal (p2wsh channel for the derived key, taproot channel for the sidecar
recipient's key) meets the hypotheses … -/
example : isOk (verify exEnv Rules.fixed exBatch 101) = true := by decide
/-- … and is rejected when a channel output is 1 sat short, pays to the other script kind, or uses the wallet key
instead of the recipient's key. -/
example : isOk (verify exEnv Rules.fixed { exBatch with
    txOuts := [⟨299999, "fund-false-K1-M1"⟩, ⟨647808, "acct-A-1-40000"⟩, ⟨450000, "fund-true-R-M2"⟩] } 101) = false := by
  decide
example : isOk (verify exEnv Rules.fixed { exBatch with
    txOuts := [⟨300000, "fund-true-K1-M1"⟩, ⟨647808, "acct-A-1-40000"⟩, ⟨450000, "fund-true-R-M2"⟩] } 101) = false := by
  decide
example : isOk (verify exEnv Rules.fixed { exBatch with
    txOuts := [⟨300000, "fund-false-K1-M1"⟩, ⟨647808, "acct-A-1-40000"⟩, ⟨450000, "fund-true-K2-M2"⟩] } 101) = false := by
  decide

end Pool.C03
