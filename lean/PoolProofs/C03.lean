import PoolModel.Batch
namespace Pool.C03
theorem placeholder : True := trivial
end Pool.C03
