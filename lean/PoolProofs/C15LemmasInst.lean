import PoolProofs.C15Lemmas
/-! Per-record round trips and the instantiation of the generic stream lemma for the execution, order
and recipient sub-streams of a ticket. -/
namespace Pool.Dec
open Pool.Gen.C15

theorem dStatic_roundtrip {σ : Type} (size : Nat) (set : Bytes → σ → σ) (v rest : Bytes) (s : σ)
    (h : v.length = size) : dStatic size set v.length (v ++ rest) s = .ok (set v s, rest) := by
  have hlt : ¬ (size + rest.length < size) := by omega
  simp [hlt, dStatic, readFull, h, take_append_len _ _ size h, drop_append_len _ _ size h]

theorem dChecked_roundtrip {σ : Type} (size : Nat) (check : Bytes → σ → Outcome σ) (v rest : Bytes) (s s' : σ)
    (h : v.length = size) (hc : check v s = .ok s') :
    dChecked size check v.length (v ++ rest) s = .ok (s', rest) := by
  have hlt : ¬ (size + rest.length < size) := by omega
  simp [hlt, dChecked, readFull, h, take_append_len _ _ size h, drop_append_len _ _ size h, hc]

theorem secpN_lt : secpN < 256 ^ 32 := by decide

theorem sigBytes_length (g : Sig) : (sigBytes g).length = 64 := by
  simp [sigBytes, toBE_length]

theorem parseSig_sigBytes (g : Sig) (h : g.wf = true) : parseSig (sigBytes g) = some g := by
  simp only [Sig.wf, Bool.and_eq_true, decide_eq_true_eq] at h
  obtain ⟨⟨⟨h1, h2⟩, h3⟩, h4⟩ := h
  have hn := secpN_lt
  have hs : ¬ g.s > secpN / 2 := by omega
  unfold parseSig sigBytes
  rw [if_neg hs]
  rw [take_append_len _ _ 32 (toBE_length 32 _), drop_append_len _ _ 32 (toBE_length 32 _)]
  rw [beNat_toBE 32 g.r (by omega), beNat_toBE 32 g.s (by omega)]
  have : 0 < g.r ∧ g.r < secpN ∧ 0 < g.s ∧ g.s < secpN := ⟨h1, h2, h3, by omega⟩
  simp [this]

theorem beNat_replicate_zero (n : Nat) : beNat (List.replicate n (0 : UInt8)) = 0 := by
  induction n with
  | zero => rfl
  | succ n ih =>
    rw [List.replicate_succ]
    have : (0 : UInt8) :: List.replicate n 0 = [0] ++ List.replicate n 0 := rfl
    rw [this, beNat_append, ih]
    simp [beNat]

theorem sigBytes_ne_zero (g : Sig) (h : g.wf = true) : sigBytes g ≠ List.replicate 64 0 := by
  intro heq
  have hp := parseSig_sigBytes g h
  rw [heq] at hp
  simp only [Sig.wf, Bool.and_eq_true, decide_eq_true_eq] at h
  unfold parseSig at hp
  have : List.take 32 (List.replicate 64 (0 : UInt8)) = List.replicate 32 0 := by simp
  rw [this, beNat_replicate_zero] at hp
  simp at hp

theorem checkSig_sigBytes {σ : Type} (set : Sig → σ → σ) (g : Sig) (h : g.wf = true) (s : σ) :
    checkSig set (sigBytes g) s = .ok (set g s) := by
  unfold checkSig
  rw [if_neg (sigBytes_ne_zero g h), parseSig_sigBytes g h]

/-- a key the decoder accepts and returns unchanged (`SerializeCompressed ∘ ParsePubKey = id`) -/
def keyWF (k : Bytes) : Prop := k.length = 33 ∧ parsePubKey k = some k

theorem checkPubKey_wf {σ : Type} (set : Bytes → σ → σ) (k : Bytes) (h : keyWF k) (s : σ) :
    checkPubKey set k s = .ok (set k s) := by
  unfold checkPubKey; rw [h.2]

/-! ### execution -/

def Execution.wf (e : Execution) : Prop := e.pendingChannelID.length = 32

theorem execution_roundtrip (cfg : Cfg) (e : Execution) (h : e.wf) :
    ∃ b, serializeExecution e = .ok b ∧ deserializeExecution cfg b = .ok e := by
  refine ⟨encAligned executionRecs [some e.pendingChannelID], ?_, ?_⟩
  · simp [serializeExecution, encodeBytes, sortRecords, insertRec, sortedTypes, encodeRecords, encAligned,
      executionRecs]
  · unfold deserializeExecution decodeBytes decodeStream
    have hs : sortedTypes (executionRecs.map (·.typ)) = true := by decide
    rw [if_pos hs]
    have hmain := decodeLoop_encAligned cfg.p2pSub cfg.maxAlloc false
      (fun _ v (e : Execution) => { e with pendingChannelID := v })
      executionRecs [some e.pendingChannelID] 0 {} [] _
      (by simp [executionRecs, IncFrom, pendingChannelIDType])
      (by
        refine ⟨by rw [h]; decide, ?_, trivial⟩
        intro rest s
        simpa using dStatic_roundtrip 32 _ _ rest s h)
      (Nat.lt_succ_self _)
    rw [hmain]
    simp [stepAligned, executionRecs]

/-! ### order -/

def Order.wf (o : Order) : Prop :=
  o.bidNonce.length = 32 ∧ ∀ g, o.sigOrderDigest = some g → g.wf = true

def orderVals (o : Order) : List (Option Bytes) := [some o.bidNonce, o.sigOrderDigest.map sigBytes]

theorem order_roundtrip (cfg : Cfg) (o : Order) (h : o.wf) :
    ∃ b, serializeOrder o = .ok b ∧ deserializeOrder cfg b = .ok o := by
  refine ⟨encAligned orderRecs (orderVals o), ?_, ?_⟩
  · obtain ⟨n, sg⟩ := o
    cases sg <;>
      simp [serializeOrder, encodeBytes, sortRecords, insertRec, sortedTypes, encodeRecords, encAligned,
        orderRecs, orderVals, eSig, bidNonceType, sigOrderDigestType]
  · unfold deserializeOrder decodeBytes decodeStream
    have hs : sortedTypes (orderRecs.map (·.typ)) = true := by decide
    rw [if_pos hs]
    have hmain := decodeLoop_encAligned cfg.p2pSub cfg.maxAlloc false
      (fun t v (o : Order) => if t = bidNonceType then { o with bidNonce := v }
        else { o with sigOrderDigest := parseSig v })
      orderRecs (orderVals o) 0 {} [] _
      (by simp [orderRecs, IncFrom, bidNonceType, sigOrderDigestType])
      (by
        obtain ⟨n, sg⟩ := o
        obtain ⟨hn, hg⟩ := h
        simp only at hn hg
        cases sg with
        | none =>
          refine ⟨by rw [hn]; decide, ?_, trivial⟩
          intro rest s
          simpa [bidNonceType] using dStatic_roundtrip 32 _ _ rest s hn
        | some g =>
          have hw := hg g rfl
          refine ⟨by rw [hn]; decide, ?_, by rw [sigBytes_length]; decide, ?_, trivial⟩
          · intro rest s
            simpa [bidNonceType] using dStatic_roundtrip 32 _ _ rest s hn
          · intro rest s
            have := dChecked_roundtrip 64 (checkSig fun g (o : Order) => { o with sigOrderDigest := some g })
              (sigBytes g) rest s _ (sigBytes_length g) (checkSig_sigBytes _ g hw s)
            simpa [sigOrderDigestType, bidNonceType, parseSig_sigBytes g hw] using this)
      (Nat.lt_succ_self _)
    rw [hmain]
    obtain ⟨n, sg⟩ := o
    obtain ⟨hn, hg⟩ := h
    cases sg with
    | none => simp [stepAligned, orderRecs, orderVals, bidNonceType]
    | some g =>
      have hw := hg g rfl
      simp [stepAligned, orderRecs, orderVals, bidNonceType, sigOrderDigestType, parseSig_sigBytes g hw]

end Pool.Dec
