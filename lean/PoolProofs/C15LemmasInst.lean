import PoolProofs.C15Lemmas
/-! Per-record round trips and the instantiation of the generic stream lemma for the execution, order
and recipient sub-streams of a ticket. -/
namespace Pool.Dec
open Pool.Gen.C15

theorem dStatic_roundtrip {σ : Type} (size : Nat) (set : Bytes → σ → σ) (v rest : Bytes) (s : σ)
    (h : v.length = size) : dStatic size set v.length (v ++ rest) s = .ok (set v s, rest) := by
  have hlt : ¬ (size + rest.length < size) := by omega
  simp [hlt, dStatic, readFull, h, take_append_len _ _ size h, drop_append_len _ _ size h]

theorem dChecked_roundtrip {σ : Type} (size : Nat) (check : Bytes → σ → Outcome σ) (v rest : Bytes) (s s' : σ)
    (h : v.length = size) (hc : check v s = .ok s') :
    dChecked size check v.length (v ++ rest) s = .ok (s', rest) := by
  have hlt : ¬ (size + rest.length < size) := by omega
  simp [hlt, dChecked, readFull, h, take_append_len _ _ size h, drop_append_len _ _ size h, hc]

theorem secpN_lt : secpN < 256 ^ 32 := by decide

theorem sigBytes_length (g : Sig) : (sigBytes g).length = 64 := by
  simp [sigBytes, toBE_length]

theorem parseSig_sigBytes (g : Sig) (h : g.wf = true) : parseSig (sigBytes g) = some g := by
  simp only [Sig.wf, Bool.and_eq_true, decide_eq_true_eq] at h
  obtain ⟨⟨⟨h1, h2⟩, h3⟩, h4⟩ := h
  have hn := secpN_lt
  have hs : ¬ g.s > secpN / 2 := by omega
  unfold parseSig sigBytes
  rw [if_neg hs]
  rw [take_append_len _ _ 32 (toBE_length 32 _), drop_append_len _ _ 32 (toBE_length 32 _)]
  rw [beNat_toBE 32 g.r (by omega), beNat_toBE 32 g.s (by omega)]
  have : 0 < g.r ∧ g.r < secpN ∧ 0 < g.s ∧ g.s < secpN := ⟨h1, h2, h3, by omega⟩
  simp [this]

theorem beNat_replicate_zero (n : Nat) : beNat (List.replicate n (0 : UInt8)) = 0 := by
  induction n with
  | zero => rfl
  | succ n ih =>
    rw [List.replicate_succ]
    have : (0 : UInt8) :: List.replicate n 0 = [0] ++ List.replicate n 0 := rfl
    rw [this, beNat_append, ih]
    simp [beNat]

theorem sigBytes_ne_zero (g : Sig) (h : g.wf = true) : sigBytes g ≠ List.replicate 64 0 := by
  intro heq
  have hp := parseSig_sigBytes g h
  rw [heq] at hp
  simp only [Sig.wf, Bool.and_eq_true, decide_eq_true_eq] at h
  unfold parseSig at hp
  have : List.take 32 (List.replicate 64 (0 : UInt8)) = List.replicate 32 0 := by simp
  rw [this, beNat_replicate_zero] at hp
  simp at hp

theorem checkSig_sigBytes {σ : Type} (set : Sig → σ → σ) (g : Sig) (h : g.wf = true) (s : σ) :
    checkSig set (sigBytes g) s = .ok (set g s) := by
  unfold checkSig
  rw [if_neg (sigBytes_ne_zero g h), parseSig_sigBytes g h]

/-- a key the decoder accepts and returns unchanged (`SerializeCompressed ∘ ParsePubKey = id`) -/
def keyWF (k : Bytes) : Prop := k.length = 33 ∧ parsePubKey k = some k

theorem checkPubKey_wf {σ : Type} (set : Bytes → σ → σ) (k : Bytes) (h : keyWF k) (s : σ) :
    checkPubKey set k s = .ok (set k s) := by
  unfold checkPubKey; rw [h.2]

/-! ### execution -/

def Execution.wf (e : Execution) : Prop := e.pendingChannelID.length = 32

theorem execution_roundtrip (cfg : Cfg) (e : Execution) (h : e.wf) :
    ∃ b, serializeExecution e = .ok b ∧ deserializeExecution cfg b = .ok e ∧ b.length ≤ 1000 := by
  refine ⟨encAligned executionRecs [some e.pendingChannelID], ?_, ?_, ?_⟩
  rotate_left 2
  · have := encAligned_length_le executionRecs [some e.pendingChannelID]
    have h' : e.pendingChannelID.length = 32 := h
    simp only [boundAligned, h'] at this
    omega
  · simp [serializeExecution, encodeBytes, sortRecords, insertRec, sortedTypes, encodeRecords, encAligned,
      executionRecs]
  · unfold deserializeExecution decodeBytes decodeStream
    have hs : sortedTypes (executionRecs.map (·.typ)) = true := by decide
    rw [if_pos hs]
    have hmain := decodeLoop_encAligned cfg.p2pSub cfg.maxAlloc cfg.typesSub
      (fun _ v (e : Execution) => { e with pendingChannelID := v })
      executionRecs [some e.pendingChannelID] 0 {} [] _
      (by simp [executionRecs, IncFrom, pendingChannelIDType])
      (by
        refine ⟨by rw [h]; decide, ?_, trivial⟩
        intro rest s
        simpa using dStatic_roundtrip 32 _ _ rest s h)
      (Nat.lt_succ_self _)
    rw [hmain]
    simp [stepAligned, executionRecs]

/-! ### order -/

def Order.wf (o : Order) : Prop :=
  o.bidNonce.length = 32 ∧ ∀ g, o.sigOrderDigest = some g → g.wf = true

def orderVals (o : Order) : List (Option Bytes) := [some o.bidNonce, o.sigOrderDigest.map sigBytes]

theorem order_roundtrip (cfg : Cfg) (o : Order) (h : o.wf) :
    ∃ b, serializeOrder o = .ok b ∧ deserializeOrder cfg b = .ok o ∧ b.length ≤ 1000 := by
  refine ⟨encAligned orderRecs (orderVals o), ?_, ?_, ?_⟩
  rotate_left 2
  · have := encAligned_length_le orderRecs (orderVals o)
    obtain ⟨n, sg⟩ := o
    have hn : n.length = 32 := h.1
    cases sg <;> simp only [orderVals, Option.map, boundAligned, hn, sigBytes_length] at this ⊢ <;> omega
  · obtain ⟨n, sg⟩ := o
    cases sg <;>
      simp [serializeOrder, encodeBytes, sortRecords, insertRec, sortedTypes, encodeRecords, encAligned,
        orderRecs, orderVals, eSig, bidNonceType, sigOrderDigestType]
  · unfold deserializeOrder decodeBytes decodeStream
    have hs : sortedTypes (orderRecs.map (·.typ)) = true := by decide
    rw [if_pos hs]
    have hmain := decodeLoop_encAligned cfg.p2pSub cfg.maxAlloc cfg.typesSub
      (fun t v (o : Order) => if t = bidNonceType then { o with bidNonce := v }
        else { o with sigOrderDigest := parseSig v })
      orderRecs (orderVals o) 0 {} [] _
      (by simp [orderRecs, IncFrom, bidNonceType, sigOrderDigestType])
      (by
        obtain ⟨n, sg⟩ := o
        obtain ⟨hn, hg⟩ := h
        simp only at hn hg
        cases sg with
        | none =>
          refine ⟨by rw [hn]; decide, ?_, trivial⟩
          intro rest s
          simpa [bidNonceType] using dStatic_roundtrip 32 _ _ rest s hn
        | some g =>
          have hw := hg g rfl
          refine ⟨by rw [hn]; decide, ?_, by rw [sigBytes_length]; decide, ?_, trivial⟩
          · intro rest s
            simpa [bidNonceType] using dStatic_roundtrip 32 _ _ rest s hn
          · intro rest s
            have := dChecked_roundtrip 64 (checkSig fun g (o : Order) => { o with sigOrderDigest := some g })
              (sigBytes g) rest s _ (sigBytes_length g) (checkSig_sigBytes _ g hw s)
            simpa [sigOrderDigestType, bidNonceType, parseSig_sigBytes g hw] using this)
      (Nat.lt_succ_self _)
    rw [hmain]
    obtain ⟨n, sg⟩ := o
    obtain ⟨hn, hg⟩ := h
    cases sg with
    | none => simp [stepAligned, orderRecs, orderVals, bidNonceType]
    | some g =>
      have hw := hg g rfl
      simp [stepAligned, orderRecs, orderVals, bidNonceType, sigOrderDigestType, parseSig_sigBytes g hw]

end Pool.Dec

namespace Pool.Dec
open Pool.Gen.C15

/-! ### recipient -/

def Recipient.wf (r : Recipient) : Prop :=
  r.multiSigKeyIndex < 2 ^ 32 ∧ (∀ k, r.nodePubKey = some k → keyWF k) ∧ (∀ k, r.multiSigPubKey = some k → keyWF k)

def recipientVals (r : Recipient) : List (Option Bytes) :=
  [r.nodePubKey, r.multiSigPubKey, some (toBE 4 r.multiSigKeyIndex)]

def recipientStep (t : Nat) (v : Bytes) (r : Recipient) : Recipient :=
  if t = nodePubKeyType then { r with nodePubKey := some v }
  else if t = multiSigPubKeyType then { r with multiSigPubKey := some v }
  else { r with multiSigKeyIndex := beNat v }

theorem key_good {σ : Type} (set : Bytes → σ → σ) (k : Bytes) (h : keyWF k) :
    k.length ≤ maxRecordSize ∧ ∀ rest s, dChecked 33 (checkPubKey set) k.length (k ++ rest) s = .ok (set k s, rest) :=
  ⟨by rw [h.1]; decide, fun rest s => dChecked_roundtrip 33 _ k rest s _ h.1 (checkPubKey_wf set k h s)⟩

theorem static_good {σ : Type} (n : Nat) (hn : n ≤ maxRecordSize) (set : Bytes → σ → σ) (v : Bytes) (h : v.length = n) :
    v.length ≤ maxRecordSize ∧ ∀ rest s, dStatic n set v.length (v ++ rest) s = .ok (set v s, rest) :=
  ⟨by rw [h]; exact hn, fun rest s => dStatic_roundtrip n set v rest s h⟩

theorem recipient_roundtrip (cfg : Cfg) (r : Recipient) (h : r.wf) :
    ∃ b, serializeRecipient r = .ok b ∧ deserializeRecipient cfg b = .ok r ∧ b.length ≤ 1000 := by
  refine ⟨encAligned recipientRecs (recipientVals r), ?_, ?_, ?_⟩
  rotate_left 2
  · have := encAligned_length_le recipientRecs (recipientVals r)
    obtain ⟨n, m, i⟩ := r
    have hn := h.2.1
    have hm := h.2.2
    simp only at hn hm
    cases n with
    | none =>
      cases m with
      | none => simp only [recipientVals, boundAligned, toBE_length] at this ⊢; omega
      | some mk => have := (hm mk rfl).1; simp only [recipientVals, boundAligned, toBE_length] at *; omega
    | some nk =>
      have hk := (hn nk rfl).1
      cases m with
      | none => simp only [recipientVals, boundAligned, toBE_length] at *; omega
      | some mk => have := (hm mk rfl).1; simp only [recipientVals, boundAligned, toBE_length] at *; omega
  · obtain ⟨n, m, i⟩ := r
    cases n <;> cases m <;>
      simp [serializeRecipient, encodeBytes, sortRecords, insertRec, sortedTypes, encodeRecords, encAligned,
        recipientRecs, recipientVals, optRec, nodePubKeyType, multiSigPubKeyType, multiSigKeyIndexType]
  · unfold deserializeRecipient decodeBytes decodeStream
    have hs : sortedTypes (recipientRecs.map (·.typ)) = true := by decide
    rw [if_pos hs]
    obtain ⟨n, m, i⟩ := r
    obtain ⟨hi, hn, hm⟩ := h
    simp only at hi hn hm
    have hidx := static_good (σ := Recipient) 4 (by decide) (fun v r => { r with multiSigKeyIndex := beNat v })
      (toBE 4 i) (toBE_length 4 i)
    have hmain := decodeLoop_encAligned cfg.p2pSub cfg.maxAlloc cfg.typesSub recipientStep
      recipientRecs (recipientVals ⟨n, m, i⟩) 0 {} [] _
      (by simp [recipientRecs, IncFrom, nodePubKeyType, multiSigPubKeyType, multiSigKeyIndexType])
      (by
        cases n with
        | none =>
          cases m with
          | none =>
            refine ⟨hidx.1, ?_, trivial⟩
            intro rest s
            simpa [recipientStep, nodePubKeyType, multiSigPubKeyType, multiSigKeyIndexType] using hidx.2 rest s
          | some mk =>
            have hk := key_good (σ := Recipient) (fun c r => { r with multiSigPubKey := some c }) mk (hm mk rfl)
            refine ⟨hk.1, ?_, hidx.1, ?_, trivial⟩
            · intro rest s
              simpa [recipientStep, nodePubKeyType, multiSigPubKeyType] using hk.2 rest s
            · intro rest s
              simpa [recipientStep, nodePubKeyType, multiSigPubKeyType, multiSigKeyIndexType] using hidx.2 rest s
        | some nk =>
          have hk1 := key_good (σ := Recipient) (fun c r => { r with nodePubKey := some c }) nk (hn nk rfl)
          cases m with
          | none =>
            refine ⟨hk1.1, ?_, hidx.1, ?_, trivial⟩
            · intro rest s
              simpa [recipientStep, nodePubKeyType] using hk1.2 rest s
            · intro rest s
              simpa [recipientStep, nodePubKeyType, multiSigPubKeyType, multiSigKeyIndexType] using hidx.2 rest s
          | some mk =>
            have hk := key_good (σ := Recipient) (fun c r => { r with multiSigPubKey := some c }) mk (hm mk rfl)
            refine ⟨hk1.1, ?_, hk.1, ?_, hidx.1, ?_, trivial⟩
            · intro rest s
              simpa [recipientStep, nodePubKeyType] using hk1.2 rest s
            · intro rest s
              simpa [recipientStep, nodePubKeyType, multiSigPubKeyType] using hk.2 rest s
            · intro rest s
              simpa [recipientStep, nodePubKeyType, multiSigPubKeyType, multiSigKeyIndexType] using hidx.2 rest s)
      (Nat.lt_succ_self _)
    rw [hmain]
    have hb : beNat (toBE 4 i) = i := beNat_toBE 4 i (by omega)
    cases n <;> cases m <;>
      simp [stepAligned, recipientRecs, recipientVals, recipientStep, nodePubKeyType, multiSigPubKeyType,
        multiSigKeyIndexType, hb]

end Pool.Dec

namespace Pool.Dec
open Pool.Gen.C15

/-! ### building `Good` record by record -/

theorem good_cons_some {σ : Type} {step : Nat → Bytes → σ → σ} {r : Rec σ} {rs : List (Rec σ)} {v : Bytes}
    {vs : List (Option Bytes)} (h1 : v.length ≤ maxRecordSize)
    (h2 : ∀ rest s, r.dec v.length (v ++ rest) s = .ok (step r.typ v s, rest)) (h3 : Good step rs vs) :
    Good step (r :: rs) (some v :: vs) := ⟨h1, h2, h3⟩

theorem good_cons_opt {σ : Type} {step : Nat → Bytes → σ → σ} {r : Rec σ} {rs : List (Rec σ)} (o : Option Bytes)
    {vs : List (Option Bytes)}
    (h : ∀ v, o = some v → v.length ≤ maxRecordSize ∧ ∀ rest s, r.dec v.length (v ++ rest) s = .ok (step r.typ v s, rest))
    (h3 : Good step rs vs) : Good step (r :: rs) (o :: vs) := by
  cases o with
  | none => exact h3
  | some v => exact ⟨(h v rfl).1, (h v rfl).2, h3⟩

/-! ### offer -/

def Offer.wf (o : Offer) : Prop :=
  o.capacity < 2 ^ 64 ∧ o.pushAmt < 2 ^ 64 ∧ o.leaseDuration < 2 ^ 32 ∧
  (∀ k, o.signPubKey = some k → keyWF k) ∧ (∀ g, o.sigOfferDigest = some g → g.wf = true)

def flagVal (b : Bool) : Option Bytes := if b then some [1] else none

def offerVals (o : Offer) : List (Option Bytes) :=
  [some (toBE 8 o.capacity), some (toBE 8 o.pushAmt), some (toBE 4 o.leaseDuration), o.signPubKey,
   o.sigOfferDigest.map sigBytes, some [if o.auto then 1 else 0], flagVal o.unannounced, flagVal o.zeroConf]

def offerStep (t : Nat) (v : Bytes) (a : OfferAcc) : OfferAcc :=
  if t = capacityType then { a with o := { a.o with capacity := beNat v } }
  else if t = pushAmtType then { a with o := { a.o with pushAmt := beNat v } }
  else if t = leaseDurationType then { a with o := { a.o with leaseDuration := beNat v } }
  else if t = signPubKeyType then { a with o := { a.o with signPubKey := some v } }
  else if t = sigOfferDigestType then { a with o := { a.o with sigOfferDigest := parseSig v } }
  else if t = offerAutoType then { a with autoAsInt := beNat v }
  else if t = unannouncedChannelType then { a with isUnannounced := beNat v }
  else { a with isZeroConf := beNat v }

theorem offer_good (o : Offer) (h : o.wf) : Good offerStep offerRecs (offerVals o) := by
  obtain ⟨hc, hp, hl, hk, hg⟩ := h
  have s8c := static_good (σ := OfferAcc) 8 (by decide) (fun v a => { a with o := { a.o with capacity := beNat v } })
    (toBE 8 o.capacity) (toBE_length 8 _)
  have s8p := static_good (σ := OfferAcc) 8 (by decide) (fun v a => { a with o := { a.o with pushAmt := beNat v } })
    (toBE 8 o.pushAmt) (toBE_length 8 _)
  have s4 := static_good (σ := OfferAcc) 4 (by decide) (fun v a => { a with o := { a.o with leaseDuration := beNat v } })
    (toBE 4 o.leaseDuration) (toBE_length 4 _)
  have sAuto := static_good (σ := OfferAcc) 1 (by decide) (fun v a => { a with autoAsInt := beNat v })
    [if o.auto then 1 else 0] rfl
  unfold offerRecs offerVals
  refine good_cons_some s8c.1 (fun rest s => ?_) ?_
  · simpa [offerStep, capacityType] using s8c.2 rest s
  refine good_cons_some s8p.1 (fun rest s => ?_) ?_
  · simpa [offerStep, capacityType, pushAmtType] using s8p.2 rest s
  refine good_cons_some s4.1 (fun rest s => ?_) ?_
  · simpa [offerStep, capacityType, pushAmtType, leaseDurationType] using s4.2 rest s
  refine good_cons_opt _ (fun k hk' => ?_) ?_
  · have kg := key_good (σ := OfferAcc) (fun c a => { a with o := { a.o with signPubKey := some c } }) k (hk k hk')
    refine ⟨kg.1, fun rest s => ?_⟩
    simpa [offerStep, capacityType, pushAmtType, leaseDurationType, signPubKeyType] using kg.2 rest s
  refine good_cons_opt _ (fun v hv => ?_) ?_
  · cases hsg : o.sigOfferDigest with
    | none => rw [hsg] at hv; cases hv
    | some g =>
      rw [hsg] at hv
      simp only [Option.map] at hv
      injection hv with hv
      subst hv
      have hw := hg g hsg
      refine ⟨by rw [sigBytes_length]; decide, fun rest s => ?_⟩
      have := dChecked_roundtrip 64
        (checkSig fun g (a : OfferAcc) => { a with o := { a.o with sigOfferDigest := some g } })
        (sigBytes g) rest s _ (sigBytes_length g) (checkSig_sigBytes _ g hw s)
      simpa [offerStep, capacityType, pushAmtType, leaseDurationType, signPubKeyType, sigOfferDigestType,
        parseSig_sigBytes g hw] using this
  refine good_cons_some sAuto.1 (fun rest s => ?_) ?_
  · simpa [offerStep, capacityType, pushAmtType, leaseDurationType, signPubKeyType, sigOfferDigestType,
      offerAutoType] using sAuto.2 rest s
  refine good_cons_opt _ (fun v hv => ?_) ?_
  · have sU := static_good (σ := OfferAcc) 1 (by decide) (fun v a => { a with isUnannounced := beNat v }) v
      (by
        unfold flagVal at hv
        split at hv
        · injection hv with hv; subst hv; rfl
        · cases hv)
    refine ⟨sU.1, fun rest s => ?_⟩
    simpa [offerStep, capacityType, pushAmtType, leaseDurationType, signPubKeyType, sigOfferDigestType,
      offerAutoType, unannouncedChannelType] using sU.2 rest s
  refine good_cons_opt _ (fun v hv => ?_) trivial
  · have sZ := static_good (σ := OfferAcc) 1 (by decide) (fun v a => { a with isZeroConf := beNat v }) v
      (by
        unfold flagVal at hv
        split at hv
        · injection hv with hv; subst hv; rfl
        · cases hv)
    refine ⟨sZ.1, fun rest s => ?_⟩
    simpa [offerStep, capacityType, pushAmtType, leaseDurationType, signPubKeyType, sigOfferDigestType,
      offerAutoType, unannouncedChannelType, zeroConfChannelType] using sZ.2 rest s

theorem serializeOffer_eq (o : Offer) : serializeOffer o = .ok (encAligned offerRecs (offerVals o)) := by
  obtain ⟨c, p, l, k, g, a, u, z⟩ := o
  cases k <;> cases g <;> cases u <;> cases z <;>
    simp [serializeOffer, encodeBytes, sortRecords, insertRec, sortedTypes, encodeRecords, encAligned,
      offerRecs, offerVals, flagVal, optRec, eSig, capacityType, pushAmtType, leaseDurationType,
      signPubKeyType, sigOfferDigestType, offerAutoType, unannouncedChannelType, zeroConfChannelType]

theorem offer_roundtrip (cfg : Cfg) (o : Offer) (h : o.wf) :
    ∃ b, serializeOffer o = .ok b ∧ deserializeOffer cfg b = .ok o ∧ b.length ≤ 1000 := by
  refine ⟨encAligned offerRecs (offerVals o), serializeOffer_eq o, ?_, ?_⟩
  · unfold deserializeOffer decodeBytes decodeStream
    have hs : sortedTypes (offerRecs.map (·.typ)) = true := by decide
    rw [if_pos hs]
    have hmain := decodeLoop_encAligned cfg.p2pSub cfg.maxAlloc cfg.typesSub offerStep
      offerRecs (offerVals o) 0 {} [] _
      (by simp [offerRecs, IncFrom, capacityType, pushAmtType, leaseDurationType, signPubKeyType,
            sigOfferDigestType, offerAutoType, unannouncedChannelType, zeroConfChannelType])
      (offer_good o h) (Nat.lt_succ_self _)
    rw [hmain]
    obtain ⟨hc, hp, hl, hk, hg⟩ := h
    obtain ⟨c, p, l, k, g, a, u, z⟩ := o
    simp only at hc hp hl hk hg
    have b1 : beNat (toBE 8 c) = c := beNat_toBE 8 c (by omega)
    have b2 : beNat (toBE 8 p) = p := beNat_toBE 8 p (by omega)
    have b3 : beNat (toBE 4 l) = l := beNat_toBE 4 l (by omega)
    have e0 : beNat [(0 : UInt8)] = 0 := by decide
    have e1 : beNat [(1 : UInt8)] = 1 := by decide
    cases g with
    | none =>
      cases k <;> cases a <;> cases u <;> cases z <;>
        simp [stepAligned, offerRecs, offerVals, offerStep, flagVal, capacityType, pushAmtType, leaseDurationType,
          signPubKeyType, sigOfferDigestType, offerAutoType, unannouncedChannelType, zeroConfChannelType,
          b1, b2, b3, e0, e1]
    | some g =>
      have hw := hg g rfl
      cases k <;> cases a <;> cases u <;> cases z <;>
        simp [stepAligned, offerRecs, offerVals, offerStep, flagVal, capacityType, pushAmtType, leaseDurationType,
          signPubKeyType, sigOfferDigestType, offerAutoType, unannouncedChannelType, zeroConfChannelType,
          b1, b2, b3, e0, e1, parseSig_sigBytes g hw]
  · have := encAligned_length_le offerRecs (offerVals o)
    obtain ⟨hc, hp, hl, hk, hg⟩ := h
    obtain ⟨c, p, l, k, g, a, u, z⟩ := o
    simp only at hk
    have hkl : ∀ k', k = some k' → k'.length = 33 := fun k' hk' => (hk k' hk').1
    cases k <;> cases g <;> cases u <;> cases z <;>
      simp only [offerVals, flagVal, Option.map, boundAligned, toBE_length, sigBytes_length, List.length_cons,
        List.length_nil, if_true, if_false, Bool.false_eq_true] at this ⊢ <;>
      (try have := hkl _ rfl) <;> omega

end Pool.Dec

namespace Pool.Dec
open Pool.Gen.C15

/-! ### the whole ticket -/

def encOffer (o : Offer) : Bytes := encAligned offerRecs (offerVals o)
def encRecipient (r : Recipient) : Bytes := encAligned recipientRecs (recipientVals r)
def encOrder (o : Order) : Bytes := encAligned orderRecs (orderVals o)
def encExecution (e : Execution) : Bytes := encAligned executionRecs [some e.pendingChannelID]

theorem serializeRecipient_eq (r : Recipient) : serializeRecipient r = .ok (encRecipient r) := by
  obtain ⟨n, m, i⟩ := r
  cases n <;> cases m <;>
    simp [serializeRecipient, encodeBytes, sortRecords, insertRec, sortedTypes, encodeRecords, encAligned,
      encRecipient, recipientRecs, recipientVals, optRec, nodePubKeyType, multiSigPubKeyType, multiSigKeyIndexType]

theorem serializeOrder_eq (o : Order) : serializeOrder o = .ok (encOrder o) := by
  obtain ⟨n, sg⟩ := o
  cases sg <;>
    simp [serializeOrder, encodeBytes, sortRecords, insertRec, sortedTypes, encodeRecords, encAligned, encOrder,
      orderRecs, orderVals, eSig, bidNonceType, sigOrderDigestType]

theorem serializeExecution_eq (e : Execution) : serializeExecution e = .ok (encExecution e) := by
  simp [serializeExecution, encodeBytes, sortRecords, insertRec, sortedTypes, encodeRecords, encAligned,
    encExecution, executionRecs]

theorem ok_inj {α : Type} {a b : α} (h : (Outcome.ok a) = .ok b) : a = b := by injection h

theorem offer_rt (cfg : Cfg) (o : Offer) (h : o.wf) :
    deserializeOffer cfg (encOffer o) = .ok o ∧ (encOffer o).length ≤ 1000 := by
  obtain ⟨b, h1, h2, h3⟩ := offer_roundtrip cfg o h
  have : b = encOffer o := by rw [serializeOffer_eq] at h1; exact (ok_inj h1).symm
  subst this; exact ⟨h2, h3⟩

theorem recipient_rt (cfg : Cfg) (r : Recipient) (h : r.wf) :
    deserializeRecipient cfg (encRecipient r) = .ok r ∧ (encRecipient r).length ≤ 1000 := by
  obtain ⟨b, h1, h2, h3⟩ := recipient_roundtrip cfg r h
  have : b = encRecipient r := by rw [serializeRecipient_eq] at h1; exact (ok_inj h1).symm
  subst this; exact ⟨h2, h3⟩

theorem order_rt (cfg : Cfg) (o : Order) (h : o.wf) :
    deserializeOrder cfg (encOrder o) = .ok o ∧ (encOrder o).length ≤ 1000 := by
  obtain ⟨b, h1, h2, h3⟩ := order_roundtrip cfg o h
  have : b = encOrder o := by rw [serializeOrder_eq] at h1; exact (ok_inj h1).symm
  subst this; exact ⟨h2, h3⟩

theorem execution_rt (cfg : Cfg) (e : Execution) (h : e.wf) :
    deserializeExecution cfg (encExecution e) = .ok e ∧ (encExecution e).length ≤ 1000 := by
  obtain ⟨b, h1, h2, h3⟩ := execution_roundtrip cfg e h
  have : b = encExecution e := by rw [serializeExecution_eq] at h1; exact (ok_inj h1).symm
  subst this; exact ⟨h2, h3⟩

/-- well-formed ticket: fixed-size fields have their size, numbers fit their wire width, keys are accepted
by the key parser unchanged, signature objects are non-zero with low S -/
def Ticket.wf (t : Ticket) : Prop :=
  t.id.length = 8 ∧ t.version < 256 ∧ t.state < 256 ∧ t.offer.wf ∧
  (∀ r, t.recipient = some r → r.wf) ∧ (∀ o, t.order = some o → o.wf) ∧ (∀ e, t.execution = some e → e.wf)

def ticketVals (t : Ticket) : List (Option Bytes) :=
  [some t.id, some [UInt8.ofNat t.version], some [UInt8.ofNat t.state], some (encOffer t.offer),
   t.recipient.map encRecipient, t.order.map encOrder, t.execution.map encExecution]

def ticketStep (t : Nat) (v : Bytes) (a : TicketAcc) : TicketAcc :=
  if t = idType then { a with id := v }
  else if t = versionType then { a with version := beNat v }
  else if t = stateType then { a with state := beNat v }
  else if t = offerType then { a with offerBytes := v }
  else if t = recipientType then { a with recipientBytes := v }
  else if t = orderType then { a with orderBytes := v }
  else { a with executionBytes := v }

theorem dVarBytes_roundtrip {σ : Type} (cfg : Cfg) (set : Bytes → σ → σ) (v rest : Bytes) (s : σ)
    (h : v.length ≤ cfg.maxAlloc) : dVarBytes cfg set v.length (v ++ rest) s = .ok (set v s, rest) := by
  have hlt : ¬ (v.length + rest.length < v.length) := by omega
  have ha : ¬ (v.length > cfg.maxAlloc) := by omega
  simp [dVarBytes, alloc, ha, readFull, hlt]

theorem var_good {σ : Type} (cfg : Cfg) (hm : 1000 ≤ cfg.maxAlloc) (set : Bytes → σ → σ) (v : Bytes) (h : v.length ≤ 1000) :
    v.length ≤ maxRecordSize ∧ ∀ rest s, dVarBytes cfg set v.length (v ++ rest) s = .ok (set v s, rest) :=
  ⟨by have : maxRecordSize = 65535 := rfl; omega, fun rest s => dVarBytes_roundtrip cfg set v rest s (by omega)⟩

theorem serializeTicket_eq (cfg : Cfg) (t : Ticket) :
    serializeTicket t = .ok (encAligned (ticketRecs cfg) (ticketVals t)) := by
  obtain ⟨id, ver, st, off, rcp, ord, exe⟩ := t
  cases rcp <;> cases ord <;> cases exe <;>
    simp [serializeTicket, serializeOffer_eq, serializeRecipient_eq, serializeOrder_eq, serializeExecution_eq,
      sortedTypes, encodeRecords, encAligned, ticketRecs, ticketVals, encOffer, idType, versionType, stateType,
      offerType, recipientType, orderType, executionType]

theorem beNat_byte (n : Nat) (h : n < 256) : beNat [UInt8.ofNat n] = n := by
  simp [beNat, UInt8.toNat_ofNat']; omega

theorem ticket_good (cfg : Cfg) (hm : 1000 ≤ cfg.maxAlloc) (t : Ticket) (h : t.wf) :
    Good ticketStep (ticketRecs cfg) (ticketVals t) := by
  obtain ⟨hid, hver, hst, hoff, hr, ho, he⟩ := h
  have sId := static_good (σ := TicketAcc) 8 (by decide) (fun v a => { a with id := v }) t.id hid
  have sV := static_good (σ := TicketAcc) 1 (by decide) (fun v a => { a with version := beNat v }) [UInt8.ofNat t.version] rfl
  have sS := static_good (σ := TicketAcc) 1 (by decide) (fun v a => { a with state := beNat v }) [UInt8.ofNat t.state] rfl
  have vO := var_good cfg hm (fun v (a : TicketAcc) => { a with offerBytes := v }) (encOffer t.offer) (offer_rt cfg _ hoff).2
  unfold ticketRecs ticketVals
  refine good_cons_some sId.1 (fun rest s => ?_) ?_
  · simpa [ticketStep, idType] using sId.2 rest s
  refine good_cons_some sV.1 (fun rest s => ?_) ?_
  · simpa [ticketStep, idType, versionType] using sV.2 rest s
  refine good_cons_some sS.1 (fun rest s => ?_) ?_
  · simpa [ticketStep, idType, versionType, stateType] using sS.2 rest s
  refine good_cons_some vO.1 (fun rest s => ?_) ?_
  · simpa [ticketStep, idType, versionType, stateType, offerType] using vO.2 rest s
  refine good_cons_opt _ (fun v hv => ?_) ?_
  · cases hrc : t.recipient with
    | none => rw [hrc] at hv; cases hv
    | some r =>
      rw [hrc] at hv; simp only [Option.map] at hv; injection hv with hv; subst hv
      have g := var_good cfg hm (fun v (a : TicketAcc) => { a with recipientBytes := v }) _ (recipient_rt cfg r (hr r hrc)).2
      refine ⟨g.1, fun rest s => ?_⟩
      simpa [ticketStep, idType, versionType, stateType, offerType, recipientType] using g.2 rest s
  refine good_cons_opt _ (fun v hv => ?_) ?_
  · cases hoc : t.order with
    | none => rw [hoc] at hv; cases hv
    | some o =>
      rw [hoc] at hv; simp only [Option.map] at hv; injection hv with hv; subst hv
      have g := var_good cfg hm (fun v (a : TicketAcc) => { a with orderBytes := v }) _ (order_rt cfg o (ho o hoc)).2
      refine ⟨g.1, fun rest s => ?_⟩
      simpa [ticketStep, idType, versionType, stateType, offerType, recipientType, orderType] using g.2 rest s
  refine good_cons_opt _ (fun v hv => ?_) trivial
  · cases hec : t.execution with
    | none => rw [hec] at hv; cases hv
    | some e =>
      rw [hec] at hv; simp only [Option.map] at hv; injection hv with hv; subst hv
      have g := var_good cfg hm (fun v (a : TicketAcc) => { a with executionBytes := v }) _ (execution_rt cfg e (he e hec)).2
      refine ⟨g.1, fun rest s => ?_⟩
      simpa [ticketStep, idType, versionType, stateType, offerType, recipientType, orderType, executionType] using g.2 rest s

/-- **Ticket round trip**: every well-formed ticket – any state and version, any subset of recipient /
order / execution, optional keys and signatures, all flag combinations – serialises to bytes that
deserialise to the same ticket (capped or uncapped decoders). -/
theorem ticket_roundtrip (cfg : Cfg) (hm : 1000 ≤ cfg.maxAlloc) (t : Ticket) (h : t.wf) :
    serializeTicket t = .ok (encAligned (ticketRecs cfg) (ticketVals t)) ∧
    deserializeTicket cfg (encAligned (ticketRecs cfg) (ticketVals t)) = .ok t := by
  refine ⟨serializeTicket_eq cfg t, ?_⟩
  unfold deserializeTicket decodeStream
  have hs : sortedTypes ((ticketRecs cfg).map (·.typ)) = true := by
    simp [ticketRecs, sortedTypes, idType, versionType, stateType, offerType, recipientType, orderType, executionType]
  rw [if_pos hs]
  have hmain := decodeLoop_encAligned cfg.p2pTop cfg.maxAlloc true ticketStep
    (ticketRecs cfg) (ticketVals t) 0 {} [] _
    (by simp [ticketRecs, IncFrom, idType, versionType, stateType, offerType, recipientType, orderType, executionType])
    (ticket_good cfg hm t h) (Nat.lt_succ_self _)
  rw [hmain]
  obtain ⟨hid, hver, hst, hoff, hr, ho, he⟩ := h
  obtain ⟨id, ver, st, off, rcp, ord, exe⟩ := t
  simp only at hid hver hst hoff hr ho he
  have bv := beNat_byte ver hver
  have bs := beNat_byte st hst
  have hO := (offer_rt cfg off hoff).1
  cases rcp with
  | none =>
    cases ord with
    | none =>
      cases exe with
      | none =>
        simp [stepAligned, typesAligned, ticketRecs, ticketVals, ticketStep, optPart, idType, versionType, stateType,
          offerType, recipientType, orderType, executionType, bv, bs, hO]
      | some e =>
        have hE := (execution_rt cfg e (he e rfl)).1
        simp [stepAligned, typesAligned, ticketRecs, ticketVals, ticketStep, optPart, idType, versionType, stateType,
          offerType, recipientType, orderType, executionType, bv, bs, hO, hE]
    | some o =>
      have hOr := (order_rt cfg o (ho o rfl)).1
      cases exe with
      | none =>
        simp [stepAligned, typesAligned, ticketRecs, ticketVals, ticketStep, optPart, idType, versionType, stateType,
          offerType, recipientType, orderType, executionType, bv, bs, hO, hOr]
      | some e =>
        have hE := (execution_rt cfg e (he e rfl)).1
        simp [stepAligned, typesAligned, ticketRecs, ticketVals, ticketStep, optPart, idType, versionType, stateType,
          offerType, recipientType, orderType, executionType, bv, bs, hO, hOr, hE]
  | some r =>
    have hR := (recipient_rt cfg r (hr r rfl)).1
    cases ord with
    | none =>
      cases exe with
      | none =>
        simp [stepAligned, typesAligned, ticketRecs, ticketVals, ticketStep, optPart, idType, versionType, stateType,
          offerType, recipientType, orderType, executionType, bv, bs, hO, hR]
      | some e =>
        have hE := (execution_rt cfg e (he e rfl)).1
        simp [stepAligned, typesAligned, ticketRecs, ticketVals, ticketStep, optPart, idType, versionType, stateType,
          offerType, recipientType, orderType, executionType, bv, bs, hO, hR, hE]
    | some o =>
      have hOr := (order_rt cfg o (ho o rfl)).1
      cases exe with
      | none =>
        simp [stepAligned, typesAligned, ticketRecs, ticketVals, ticketStep, optPart, idType, versionType, stateType,
          offerType, recipientType, orderType, executionType, bv, bs, hO, hR, hOr]
      | some e =>
        have hE := (execution_rt cfg e (he e rfl)).1
        simp [stepAligned, typesAligned, ticketRecs, ticketVals, ticketStep, optPart, idType, versionType, stateType,
          offerType, recipientType, orderType, executionType, bv, bs, hO, hR, hOr, hE]

end Pool.Dec
