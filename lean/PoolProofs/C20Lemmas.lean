import PoolModel.C20
import PoolProofs.C08Lemmas
/-! Helper lemmas for C20: recovery appends only store writes to the effect trace. -/
set_option linter.unusedSimpArgs false
set_option linter.unusedVariables false
namespace Pool.C20
open Pool.Gen Pool.C08

/-- every effect of `s'` is an old one or a store write: no `fund` (SendOutputs), no `publish` -/
def OnlyWrites (s s' : AState) : Prop := ∀ e ∈ s'.trace, e ∈ s.trace ∨ ∃ b, e = Effect.write b

theorem OnlyWrites.refl (s : AState) : OnlyWrites s s := fun e h => Or.inl h
theorem OnlyWrites.trans {a b c : AState} (h1 : OnlyWrites a b) (h2 : OnlyWrites b c) : OnlyWrites a c := by
  intro e he
  rcases h2 e he with h | h
  · exact h1 e h
  · exact Or.inr h
theorem OnlyWrites.of_trace {s s' : AState} (h : s'.trace = s.trace) : OnlyWrites s s' :=
  fun e he => Or.inl (h ▸ he)

theorem ow_write (s : AState) (a : Acct) : OnlyWrites s (write s a) := by
  intro e he
  simp [write] at he
  rcases he with h | h
  · exact Or.inl h
  · exact Or.inr ⟨_, h⟩

theorem ow_handleExpiry (s : AState) : OnlyWrites s (handleExpiry s) := by
  unfold handleExpiry
  repeat' split
  all_goals first | exact OnlyWrites.refl s | exact ow_write s _

theorem ow_watchExpiration (s : AState) (e : Nat) : OnlyWrites s (watchExpiration s e) := by
  unfold watchExpiration
  split
  · exact OnlyWrites.trans (OnlyWrites.of_trace rfl) (ow_handleExpiry _)
  · exact OnlyWrites.of_trace rfl

theorem ow_handleStateOpen (s : AState) (a : Acct) : OnlyWrites s (handleStateOpen s a) := by
  unfold handleStateOpen
  simp only []
  have h1 : ∀ s : AState, OnlyWrites s (if Lifecycle.handleStateOpenCalls.contains "WatchAccountSpend"
      then regSpend s a.outpoint (a.script s.key) else s) := by
    intro s; split
    · exact OnlyWrites.of_trace rfl
    · exact OnlyWrites.refl s
  have h2 : ∀ s : AState, OnlyWrites s (if Lifecycle.handleStateOpenCalls.contains "WatchAccountExpiration"
      then watchExpiration s a.expiry else s) := by
    intro s; split
    · exact ow_watchExpiration s _
    · exact OnlyWrites.refl s
  exact OnlyWrites.trans (h1 s) (h2 _)

theorem ow_watchers (s : AState) (a : Acct) (acts : List String) : OnlyWrites s (watchers s a acts) := by
  unfold watchers
  simp only []
  have h1 : ∀ s : AState, OnlyWrites s (if acts.contains "WatchAccountConf" then regConf s a.outpoint.txid (a.script s.key) else s) := by
    intro s; split
    · exact OnlyWrites.of_trace rfl
    · exact OnlyWrites.refl s
  have h2 : ∀ s : AState, OnlyWrites s (if acts.contains "handleStateOpen" then handleStateOpen s a else s) := by
    intro s; split
    · exact ow_handleStateOpen s a
    · exact OnlyWrites.refl s
  have h3 : ∀ s : AState, OnlyWrites s (if acts.contains "WatchAccountSpend" then regSpend s a.outpoint (a.script s.key) else s) := by
    intro s; split
    · exact OnlyWrites.of_trace rfl
    · exact OnlyWrites.refl s
  exact OnlyWrites.trans (OnlyWrites.trans (h1 s) (h2 _)) (h3 _)

/-- states `unmarshallServerRecoveredAccount` can produce -/
def reportable : State → Bool
  | .initiated | .closed | .pendingUpdate | .pendingBatch | .expired | .expiredPendingUpdate => true
  | _ => false

/-- on recovery (`onRestart = false`) the clause of a reportable state never rebroadcasts -/
def noRebroadcast (st : State) : Bool :=
  match resumeActs st with
  | some acts => !acts.contains "maybeBroadcastTx"
  | none => true

theorem no_rebroadcast_tbl (st : State) : (reportable st || st == .pendingOpen) = true → noRebroadcast st = true := by
  cases st <;> decide

theorem no_rebroadcast (st : State) (h : reportable st = true ∨ st = .pendingOpen) (acts : List String)
    (ha : resumeActs st = some acts) : acts.contains "maybeBroadcastTx" = false := by
  have h' : (reportable st || st == .pendingOpen) = true := by
    rcases h with h | h
    · simp [h]
    · subst h; decide
  have := no_rebroadcast_tbl st h'
  simp [noRebroadcast, ha] at this
  simpa using this

theorem ow_expiryRearm (s : AState) (a : Acct) (acts : List String) : OnlyWrites s (expiryRearm s a acts) := by
  unfold expiryRearm; split
  · exact ow_watchExpiration _ _
  · exact OnlyWrites.refl _

theorem ow_resumeRest (s : AState) (a : Acct) (h : reportable a.state = true ∨ a.state = .pendingOpen) :
    OnlyWrites s (resumeRest s a false).1 := by
  unfold resumeRest
  split
  · exact OnlyWrites.refl s
  · rename_i acts hacts
    have hb := no_rebroadcast _ h acts hacts
    have hb' : ¬ "maybeBroadcastTx" ∈ acts := by simpa using hb
    have hr : rebroadcast s a false acts = (s, .ok) := by simp [rebroadcast, hb']
    simp only [hr, if_true]
    refine OnlyWrites.trans (ow_watchers s a acts) (ow_expiryRearm _ a acts)

theorem fundOrLocate_recovery {s s' : AState} {a : Acct} {fee : Bool} {f : Option (Nat × Nat)}
    {acts : List String} {t : Tx} (h : fundOrLocate s a false true fee f acts = .got s' t) : s' = s := by
  unfold fundOrLocate at h
  simp only [] at h
  split at h
  · split at h
    · simp at h
    simp at h; exact h.1.symm
  · split at h <;> simp at h

theorem ow_resume_recovery (s : AState) (a : Acct) (fee : Bool) (f : Option (Nat × Nat))
    (h : reportable a.state = true) : OnlyWrites s (resume s a false true fee f).1 := by
  unfold resume
  split
  · split
    · exact OnlyWrites.refl s
    · split
      · exact OnlyWrites.refl s
      · exact ow_write s _
      · rename_i s' t hg
        have := fundOrLocate_recovery hg
        subst this
        split
        · exact OnlyWrites.refl _
        · simp only []
          split
          · exact OnlyWrites.trans (ow_write _ _) (ow_resumeRest _ _ (Or.inr rfl))
          · exact ow_write _ _
  · exact ow_resumeRest s a (Or.inl h)


/-! ### the stored secret -/

/-- the stored record (if any) carries secret `x` -/
def SecOK (x : Nat) (s : AState) : Prop := ∀ b, s.acct = some b → b.secret = x

theorem secOK_frame {x : Nat} {s s' : AState} (h : SecOK x s) (ha : s'.acct = s.acct) : SecOK x s' :=
  fun b hb => h b (ha ▸ hb)

theorem secOK_write {x : Nat} (s : AState) (a : Acct) (ha : a.secret = x) : SecOK x (write s a) := by
  intro b hb
  have : b = a.stored := (Option.some.inj hb).symm
  subst this
  unfold Acct.stored; split <;> exact ha

theorem secOK_handleExpiry {x : Nat} {s : AState} (h : SecOK x s) : SecOK x (handleExpiry s) := by
  unfold handleExpiry
  split
  · exact h
  · rename_i a ha
    split
    · exact secOK_write s _ (h a ha)
    · exact h

theorem secOK_watchExpiration {x : Nat} {s : AState} (h : SecOK x s) (e : Nat) :
    SecOK x (watchExpiration s e) := by
  unfold watchExpiration
  split
  · exact secOK_handleExpiry (secOK_frame h rfl)
  · exact secOK_frame h rfl

theorem secOK_handleStateOpen {x : Nat} {s : AState} (h : SecOK x s) (a : Acct) :
    SecOK x (handleStateOpen s a) := by
  unfold handleStateOpen
  simp only []
  have h1 : ∀ s : AState, SecOK x s → SecOK x (if Lifecycle.handleStateOpenCalls.contains "WatchAccountSpend"
      then regSpend s a.outpoint (a.script s.key) else s) := by
    intro s hs; split
    · exact secOK_frame hs rfl
    · exact hs
  have h2 : ∀ s : AState, SecOK x s → SecOK x (if Lifecycle.handleStateOpenCalls.contains "WatchAccountExpiration"
      then watchExpiration s a.expiry else s) := by
    intro s hs; split
    · exact secOK_watchExpiration hs _
    · exact hs
  exact h2 _ (h1 s h)

theorem secOK_watchers {x : Nat} {s : AState} (h : SecOK x s) (a : Acct) (acts : List String) :
    SecOK x (watchers s a acts) := by
  unfold watchers
  simp only []
  have h1 : ∀ s : AState, SecOK x s → SecOK x (if acts.contains "WatchAccountConf" then regConf s a.outpoint.txid (a.script s.key) else s) := by
    intro s hs; split
    · exact secOK_frame hs rfl
    · exact hs
  have h2 : ∀ s : AState, SecOK x s → SecOK x (if acts.contains "handleStateOpen" then handleStateOpen s a else s) := by
    intro s hs; split
    · exact secOK_handleStateOpen hs a
    · exact hs
  have h3 : ∀ s : AState, SecOK x s → SecOK x (if acts.contains "WatchAccountSpend" then regSpend s a.outpoint (a.script s.key) else s) := by
    intro s hs; split
    · exact secOK_frame hs rfl
    · exact hs
  exact h3 _ (h2 _ (h1 s h))

theorem secOK_maybeBroadcast {x : Nat} {s : AState} (h : SecOK x s) (t : Tx) : SecOK x (maybeBroadcast s t) := by
  unfold maybeBroadcast
  split
  · exact secOK_frame h rfl
  · exact h

theorem secOK_rebroadcast {x : Nat} {s : AState} (h : SecOK x s) (a : Acct) (r : Bool) (acts : List String) :
    SecOK x (rebroadcast s a r acts).1 := by
  unfold rebroadcast
  repeat' split
  all_goals (simp only [])
  all_goals first
    | exact h
    | exact secOK_maybeBroadcast h _
    | (split <;> first | exact h | exact secOK_maybeBroadcast h _)

theorem secOK_resumeRest {x : Nat} {s : AState} (h : SecOK x s) (a : Acct) (r : Bool) :
    SecOK x (resumeRest s a r).1 := by
  unfold resumeRest
  split
  · exact h
  · simp only []
    split
    · unfold expiryRearm; split
      · exact secOK_watchExpiration (secOK_watchers (secOK_rebroadcast h _ _ _) _ _) _
      · exact secOK_watchers (secOK_rebroadcast h _ _ _) _ _
    · exact secOK_rebroadcast h _ _ _

theorem fundOrLocate_acct {s s' : AState} {a : Acct} {r1 r2 fee : Bool} {f : Option (Nat × Nat)}
    {acts : List String} {t : Tx} (h : fundOrLocate s a r1 r2 fee f acts = .got s' t) : s'.acct = s.acct := by
  unfold fundOrLocate at h
  simp only [] at h
  split at h
  · split at h
    · simp at h
    simp at h; rw [← h.1]
  · repeat' split at h
    all_goals (try (simp at h))
    rw [← h.1]

theorem secOK_resume {x : Nat} {s : AState} (h : SecOK x s) (a : Acct) (ha : a.secret = x)
    (r1 r2 fee : Bool) (f : Option (Nat × Nat)) : SecOK x (resume s a r1 r2 fee f).1 := by
  unfold resume
  split
  · split
    · exact h
    · split
      · exact h
      · exact secOK_write s _ ha
      · rename_i s' t hg
        split
        · exact secOK_frame h (fundOrLocate_acct hg)
        · simp only []
          split
          · exact secOK_resumeRest (secOK_write _ _ (by exact ha)) _ _
          · exact secOK_write _ _ (by exact ha)
  · exact secOK_resumeRest h a r1

end Pool.C20
