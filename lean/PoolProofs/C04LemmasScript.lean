import PoolProofs.C04LemmasNum

/-! Script-level lemmas for C04: explicit bytes of the two scripts (from the regenerated builder calls) and
what `parseScript` makes of them. -/
set_option linter.unusedSimpArgs false
namespace Pool.C04

theorem addDataBytes_long (d : Bytes) (h2 : 2 ≤ d.length) (h : d.length < 0x4c) :
    addDataBytes d = UInt8.ofNat d.length :: d := by
  match d with
  | [] => simp at h2
  | [_] => simp at h2
  | a :: b :: r => simp [addDataBytes] at h ⊢; omega

theorem canonicalDataSize_long (d : Bytes) (h2 : 2 ≤ d.length) (h : d.length < 0x4c) :
    canonicalDataSize d = 1 + d.length := by
  match d with
  | [] => simp at h2
  | [_] => simp at h2
  | a :: b :: r => simp [canonicalDataSize] at h ⊢; omega

theorem canonicalDataSize_le (d : Bytes) (h : d.length < 0x4c) : canonicalDataSize d ≤ 1 + d.length := by
  match d with
  | [] => simp [canonicalDataSize]
  | [b] => simp [canonicalDataSize]; split <;> (try split) <;> omega
  | a :: b :: r => simp [canonicalDataSize] at h ⊢; rw [if_pos (by omega)]; omega

theorem addDataBytes_len_le (d : Bytes) (h : d.length < 0x4c) : (addDataBytes d).length ≤ 1 + d.length := by
  match d with
  | [] => simp [addDataBytes]
  | [b] =>
    simp only [addDataBytes]
    split
    · simp
    · split
      · simp
      · split <;> simp
  | a :: b :: r => simp [addDataBytes] at h ⊢; rw [if_pos (by omega)]; simp; omega

/-- bytes `AddInt64(e)` appends -/
def pushNumBytes (e : Nat) : Bytes :=
  if e = 0 then [OP_0] else if e ≤ 16 then [UInt8.ofNat (0x50 + e)] else addDataBytes (scriptNumBytes e)

theorem accountWitnessScript_eq (e : Nat) (tk ak : Bytes) (htk : tk.length = 33) (hak : ak.length = 33)
    (he : e < 2 ^ 32) :
    accountWitnessScript e tk ak =
      (0x21 :: tk) ++ (0xad :: 0x21 :: ak) ++ [0xac, 0x73, 0x64] ++ pushNumBytes e ++ [0xb1, 0x68] := by
  have hl := (numOK_scriptNum e he).len
  have h1 := canonicalDataSize_le (scriptNumBytes e) (by omega)
  have h2 := addDataBytes_len_le (scriptNumBytes e) (by omega)
  have h3 : ¬ 10000 < 72 + canonicalDataSize (scriptNumBytes e) := by omega
  have h4 : ¬ 520 < List.length (scriptNumBytes e) := by omega
  by_cases e0 : e = 0
  · simp [accountWitnessScript, accountWitnessScriptB, runCalls, Gen.C04.accountWitnessScriptCalls, opcodeByName,
      Builder.addOp, Builder.addData, Builder.addInt64, addDataBytes_long, canonicalDataSize_long, htk, hak,
      MaxScriptSize, MaxScriptElementSize, e0, pushNumBytes]
    decide
  by_cases e16 : e ≤ 16
  · simp [accountWitnessScript, accountWitnessScriptB, runCalls, Gen.C04.accountWitnessScriptCalls, opcodeByName,
      Builder.addOp, Builder.addData, Builder.addInt64, addDataBytes_long, canonicalDataSize_long, htk, hak,
      MaxScriptSize, MaxScriptElementSize, e0, e16, pushNumBytes]
    decide
  · simp [accountWitnessScript, accountWitnessScriptB, runCalls, Gen.C04.accountWitnessScriptCalls, opcodeByName,
      Builder.addOp, Builder.addData, Builder.addInt64, addDataBytes_long, canonicalDataSize_long, htk, hak,
      MaxScriptSize, MaxScriptElementSize, e0, e16, pushNumBytes, h3, h4]
    repeat' split
    all_goals first | (exfalso; omega) | (exfalso; simp_all; done) | (exfalso; simp_all; omega) | (simp; try decide)
theorem taprootExpiryScript_eq (e : Nat) (tkx : Bytes) (htk : tkx.length = 32) (he : e < 2 ^ 32) :
    taprootExpiryScript e tkx = (0x20 :: tkx) ++ [0xad] ++ pushNumBytes e ++ [0xb1] := by
  have hl := (numOK_scriptNum e he).len
  have h1 := canonicalDataSize_le (scriptNumBytes e) (by omega)
  have h2 := addDataBytes_len_le (scriptNumBytes e) (by omega)
  have h3 : ¬ 10000 < 34 + canonicalDataSize (scriptNumBytes e) := by omega
  have h4 : ¬ 520 < List.length (scriptNumBytes e) := by omega
  by_cases e0 : e = 0
  · simp [taprootExpiryScript, taprootExpiryScriptB, runCalls, Gen.C04.taprootExpiryScriptCalls, opcodeByName,
      Builder.addOp, Builder.addData, Builder.addInt64, addDataBytes_long, canonicalDataSize_long, htk,
      MaxScriptSize, MaxScriptElementSize, e0, pushNumBytes]
    decide
  by_cases e16 : e ≤ 16
  · simp [taprootExpiryScript, taprootExpiryScriptB, runCalls, Gen.C04.taprootExpiryScriptCalls, opcodeByName,
      Builder.addOp, Builder.addData, Builder.addInt64, addDataBytes_long, canonicalDataSize_long, htk,
      MaxScriptSize, MaxScriptElementSize, e0, e16, pushNumBytes]
    decide
  · simp [taprootExpiryScript, taprootExpiryScriptB, runCalls, Gen.C04.taprootExpiryScriptCalls, opcodeByName,
      Builder.addOp, Builder.addData, Builder.addInt64, addDataBytes_long, canonicalDataSize_long, htk,
      MaxScriptSize, MaxScriptElementSize, e0, e16, pushNumBytes, h3, h4]
    repeat' split
    all_goals first | (exfalso; omega) | (exfalso; simp_all; done) | (exfalso; simp_all; omega) | (simp; try decide)

/-! ### parsing -/

theorem parseAux_nil (f : Nat) : parseAux f [] = some [] := by cases f <;> rfl

theorem parse_step_push (f : Nat) (d rest : Bytes) (h2 : 2 ≤ d.length) (h : d.length < 0x4c) :
    parseAux (f + 1) (UInt8.ofNat d.length :: (d ++ rest)) = (parseAux f rest).map (Instr.push d :: ·) := by
  have hs : isSmallIntPush d = false := by
    match d with
    | [] => simp at h2
    | [_] => simp at h2
    | _ :: _ :: _ => rfl
  have hm : d.length % 256 = d.length := by omega
  have h0 : d.length ≠ 0 := by omega
  simp [parseAux, u8, hm, h0, h, hs]
  intro hc; omega

theorem parse_step_push' (f : Nat) (op : UInt8) (d rest : Bytes) (hop : op = UInt8.ofNat d.length)
    (h2 : 2 ≤ d.length) (h : d.length < 0x4c) :
    parseAux (f + 1) (op :: (d ++ rest)) = (parseAux f rest).map (Instr.push d :: ·) := by
  rw [hop]; exact parse_step_push f d rest h2 h

theorem parse_step_op (f : Nat) (op : UInt8) (i : Instr) (rest : Bytes)
    (h : (op = 0x64 ∧ i = .notif) ∨ (op = 0x68 ∧ i = .endif) ∨ (op = 0x73 ∧ i = .ifdup) ∨
      (op = 0xac ∧ i = .checksig) ∨ (op = 0xad ∧ i = .checksigverify) ∨ (op = 0xb1 ∧ i = .cltv)) :
    parseAux (f + 1) (op :: rest) = (parseAux f rest).map (i :: ·) := by
  rcases h with ⟨rfl, rfl⟩ | ⟨rfl, rfl⟩ | ⟨rfl, rfl⟩ | ⟨rfl, rfl⟩ | ⟨rfl, rfl⟩ | ⟨rfl, rfl⟩ <;> simp [parseAux]

/-- the bytes `AddInt64(e)` appends parse to one push of the script number -/
theorem parse_step_num (f : Nat) (e : Nat) (he : e < 2 ^ 32) (rest : Bytes) :
    parseAux (f + 1) (pushNumBytes e ++ rest) = (parseAux f rest).map (Instr.push (scriptNumBytes e) :: ·) := by
  by_cases e0 : e = 0
  · subst e0; simp [pushNumBytes, parseAux, OP_0, scriptNumBytes]
  by_cases e16 : e ≤ 16
  · have hf := scriptNumBytes_form e he
    have : e < 128 := by omega
    simp only [e0, this, if_true, if_false] at hf
    have hm : e % 256 = e := by omega
    have hu : (UInt8.ofNat (0x50 + e)).toNat = 0x50 + e := by rw [u8]; omega
    have hm2 : (80 + e) % 256 = 80 + e := by omega
    have a1 : ¬ (80 + e = 0) := by omega
    have a2 : ¬ (80 + e < 76) := by omega
    have a3 : ¬ (80 + e = 76) := by omega
    have a4 : ¬ (80 + e = 79) := by omega
    have a5 : 81 ≤ 80 + e ∧ 80 + e ≤ 96 := by omega
    have a6 : 80 + e - 80 = e := by omega
    simp [pushNumBytes, e0, e16, parseAux, hf, hm, hm2, a1, a2, a3, a4, a5, a6]
  · have hl := (numOK_scriptNum e he).len
    by_cases e128 : e < 128
    · have hf := scriptNumBytes_form e he
      simp only [e0, e128, if_true, if_false] at hf
      have hm : e % 256 = e := by omega
      have hb : (UInt8.ofNat e).toNat = e := by rw [u8]; omega
      have b1 : ¬ (e = 129) := by omega
      simp [pushNumBytes, e0, e16, hf, hm, addDataBytes, hb, parseAux, isSmallIntPush, b1]
    · have h2 : 2 ≤ (scriptNumBytes e).length := by
        rw [scriptNumBytes_form e he]; simp only [e0, e128, if_false]; repeat' split
        all_goals simp
      simp only [pushNumBytes, e0, e16, if_false]
      rw [addDataBytes_long _ h2 (by omega), List.cons_append, parse_step_push f _ rest h2 (by omega)]

theorem pushNumBytes_len_pos (e : Nat) : 1 ≤ (pushNumBytes e).length := by
  unfold pushNumBytes
  split
  · simp
  · split
    · simp
    · match h : scriptNumBytes e with
      | [] => simp [addDataBytes]
      | [b] => simp only [addDataBytes]; repeat' split
               all_goals simp
      | a :: b :: r => simp only [addDataBytes]; repeat' split
                       all_goals simp

theorem parse_accountWitnessScript (e : Nat) (tk ak : Bytes) (htk : tk.length = 33) (hak : ak.length = 33)
    (he : e < 2 ^ 32) :
    parseScript (accountWitnessScript e tk ak) = some (accountInstrs e tk ak) := by
  rw [accountWitnessScript_eq e tk ak htk hak he]
  have hp := pushNumBytes_len_pos e
  obtain ⟨f, hf⟩ : ∃ f, ((0x21 :: tk) ++ (0xad :: 0x21 :: ak) ++ [0xac, 0x73, 0x64] ++ pushNumBytes e ++
      [0xb1, 0x68] : Bytes).length = f + 9 :=
    ⟨65 + (pushNumBytes e).length, by simp [htk, hak]; omega⟩
  rw [parseScript, hf]
  simp only [List.append_assoc, List.cons_append, List.nil_append]
  have k1 : (0x21 : UInt8) = UInt8.ofNat tk.length := by rw [htk]; rfl
  have k2 : (0x21 : UInt8) = UInt8.ofNat ak.length := by rw [hak]; rfl
  rw [show f + 9 = (f + 8) + 1 from rfl]
  rw [parse_step_push' (f + 8) _ tk _ k1 (by omega) (by omega)]
  rw [show f + 8 = (f + 7) + 1 from rfl, parse_step_op (f + 7) 0xad .checksigverify _ (by simp)]
  rw [show f + 7 = (f + 6) + 1 from rfl]
  rw [parse_step_push' (f + 6) _ ak _ k2 (by omega) (by omega)]
  rw [show f + 6 = (f + 5) + 1 from rfl, parse_step_op (f + 5) 0xac .checksig _ (by simp)]
  rw [show f + 5 = (f + 4) + 1 from rfl, parse_step_op (f + 4) 0x73 .ifdup _ (by simp)]
  rw [show f + 4 = (f + 3) + 1 from rfl, parse_step_op (f + 3) 0x64 .notif _ (by simp)]
  rw [show f + 3 = (f + 2) + 1 from rfl, parse_step_num (f + 2) e he]
  rw [show f + 2 = (f + 1) + 1 from rfl, parse_step_op (f + 1) 0xb1 .cltv _ (by simp)]
  rw [parse_step_op f 0x68 .endif _ (by simp), parseAux_nil]
  simp [accountInstrs]

theorem parse_taprootExpiryScript (e : Nat) (tkx : Bytes) (htk : tkx.length = 32) (he : e < 2 ^ 32) :
    parseScript (taprootExpiryScript e tkx) = some (taprootInstrs e tkx) := by
  rw [taprootExpiryScript_eq e tkx htk he]
  have hp := pushNumBytes_len_pos e
  obtain ⟨f, hf⟩ : ∃ f, ((0x20 :: tkx) ++ [0xad] ++ pushNumBytes e ++ [0xb1] : Bytes).length = f + 4 :=
    ⟨31 + (pushNumBytes e).length, by simp [htk]; omega⟩
  rw [parseScript, hf]
  simp only [List.append_assoc, List.cons_append, List.nil_append]
  have k1 : (0x20 : UInt8) = UInt8.ofNat tkx.length := by rw [htk]; rfl
  rw [show f + 4 = (f + 3) + 1 from rfl]
  rw [parse_step_push' (f + 3) _ tkx _ k1 (by omega) (by omega)]
  rw [show f + 3 = (f + 2) + 1 from rfl, parse_step_op (f + 2) 0xad .checksigverify _ (by simp)]
  rw [show f + 2 = (f + 1) + 1 from rfl, parse_step_num (f + 1) e he]
  rw [parse_step_op f 0xb1 .cltv _ (by simp), parseAux_nil]
  simp [taprootInstrs]

/-- lengths of the two scripts (used by the classifier theorem and the size constants) -/
theorem taprootExpiryScript_length (e : Nat) (tkx : Bytes) (htk : tkx.length = 32) (he : e < 2 ^ 32) :
    (taprootExpiryScript e tkx).length = 35 + (pushNumBytes e).length := by
  rw [taprootExpiryScript_eq e tkx htk he]; simp [htk]; omega

theorem pushNumBytes_length (e : Nat) (he : e < 2 ^ 32) :
    (pushNumBytes e).length =
      if e ≤ 16 then 1 else if e < 128 then 2 else if e < 32768 then 3 else if e < 8388608 then 4
      else if e < 2147483648 then 5 else 6 := by
  have hf := scriptNumBytes_form e he
  by_cases e0 : e = 0
  · simp [pushNumBytes, e0]
  by_cases e16 : e ≤ 16
  · simp [pushNumBytes, e0, e16]
  simp only [pushNumBytes, e0, e16, if_false]
  by_cases e128 : e < 128
  · simp only [e0, e128, if_true, if_false] at hf
    have hb : (UInt8.ofNat (e % 256)).toNat = e := by rw [u8]; omega
    have b1 : ¬ (e = 129) := by omega
    simp [hf, addDataBytes, hb, e0, e16, b1, e128]
  · have h2 : 2 ≤ (scriptNumBytes e).length := by
      rw [hf]; simp only [e0, e128, if_false]; repeat' split
      all_goals simp
    have hl := (numOK_scriptNum e he).len
    rw [addDataBytes_long _ h2 (by omega), hf]
    simp only [e0, e128, if_false]
    repeat' split
    all_goals first | omega | simp

end Pool.C04
