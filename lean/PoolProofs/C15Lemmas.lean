import PoolModel.Dec.Ticket
/-! Helper lemmas for C15: big-endian and BigSize round trips, and the generic TLV stream round trip. -/
namespace Pool.Dec

theorem foldl_be (acc : Nat) (b : Bytes) :
    b.foldl (fun a (x : UInt8) => a * 256 + x.toNat) acc
      = acc * 256 ^ b.length + b.foldl (fun a (x : UInt8) => a * 256 + x.toNat) 0 := by
  induction b generalizing acc with
  | nil => simp
  | cons x xs ih =>
    simp only [List.foldl_cons, List.length_cons]
    rw [ih (acc * 256 + x.toNat), ih (0 * 256 + x.toNat), Nat.pow_succ]
    simp only [Nat.zero_mul, Nat.zero_add, Nat.add_mul, Nat.mul_assoc, Nat.add_assoc]
    rw [Nat.mul_comm 256 (256 ^ xs.length)]

theorem beNat_append (a b : Bytes) : beNat (a ++ b) = beNat a * 256 ^ b.length + beNat b := by
  unfold beNat
  rw [List.foldl_append, foldl_be]

theorem beNat_single (x : UInt8) : beNat [x] = x.toNat := by simp [beNat]

theorem toBE_length (w n : Nat) : (toBE w n).length = w := by
  induction w generalizing n with
  | zero => simp [toBE]
  | succ w ih => simp [toBE, ih]

theorem toNat_ofNat_mod (n : Nat) : (UInt8.ofNat (n % 256)).toNat = n % 256 := by
  simp [UInt8.toNat_ofNat']

theorem beNat_toBE (w n : Nat) (h : n < 256 ^ w) : beNat (toBE w n) = n := by
  induction w generalizing n with
  | zero => simp [toBE, beNat] at *; omega
  | succ w ih =>
    simp only [toBE]
    rw [beNat_append, beNat_single, toNat_ofNat_mod]
    have : n / 256 < 256 ^ w := by
      rw [Nat.pow_succ] at h
      exact Nat.div_lt_of_lt_mul (by omega)
    rw [ih _ this]
    simp
    omega

theorem take_append_len {α : Type} (a b : List α) (n : Nat) (h : a.length = n) : (a ++ b).take n = a := by
  subst h; simp

theorem drop_append_len {α : Type} (a b : List α) (n : Nat) (h : a.length = n) : (a ++ b).drop n = b := by
  subst h; simp

theorem writeVarInt_pos (v : Nat) : 0 < (writeVarInt v).length := by
  unfold writeVarInt; repeat' split
  all_goals simp

theorem readVarInt_writeVarInt (v : Nat) (hv : v < 2 ^ 64) (rest : Bytes) :
    readVarInt (writeVarInt v ++ rest) = .ok v rest := by
  unfold writeVarInt
  split
  · rename_i h
    simp only [List.singleton_append, readVarInt]
    have : (UInt8.ofNat v).toNat = v := by simp [UInt8.toNat_ofNat']; omega
    simp [this, h]
  · split
    · rename_i h1 h2
      simp only [List.cons_append, readVarInt]
      have hl := toBE_length 2 v
      have hb : beNat (toBE 2 v) = v := beNat_toBE 2 v (by omega)
      simp [take_append_len _ _ 2 hl, drop_append_len _ _ 2 hl, hb, hl]
      rw [if_neg (by omega), if_neg (by omega)]
    · split
      · rename_i h1 h2 h3
        simp only [List.cons_append, readVarInt]
        have hl := toBE_length 4 v
        have hb : beNat (toBE 4 v) = v := beNat_toBE 4 v (by omega)
        simp [take_append_len _ _ 4 hl, drop_append_len _ _ 4 hl, hb, hl]
        rw [if_neg (by omega), if_neg (by omega)]
      · rename_i h1 h2 h3
        simp only [List.cons_append, readVarInt]
        have hl := toBE_length 8 v
        have hb : beNat (toBE 8 v) = v := beNat_toBE 8 v (by omega)
        simp [take_append_len _ _ 8 hl, drop_append_len _ _ 8 hl, hb, hl]
        rw [if_neg (by omega), if_neg (by omega)]

end Pool.Dec

namespace Pool.Dec

/-! ### generic TLV stream round trip

The encoding is described relative to the decoder's record list: for every known record (in order)
an optional value.  `Stream.Encode` of the present ones, decoded by `Stream.decode` with that record
list, yields exactly the fold of the per-record setters — given that each present record round-trips
on its own. -/

/-- bytes of the present records, in record-list order -/
def encAligned {σ : Type} : List (Rec σ) → List (Option Bytes) → Bytes
  | r :: rs, some v :: vs => encodeRecord (r.typ, v) ++ encAligned rs vs
  | _ :: rs, none :: vs => encAligned rs vs
  | _, _ => []

/-- values after decoding: the setters of the present records applied in order -/
def stepAligned {σ : Type} (step : Nat → Bytes → σ → σ) : List (Rec σ) → List (Option Bytes) → σ → σ
  | r :: rs, some v :: vs, s => stepAligned step rs vs (step r.typ v s)
  | _ :: rs, none :: vs, s => stepAligned step rs vs s
  | _, _, s => s

/-- the types of the present records -/
def typesAligned {σ : Type} : List (Rec σ) → List (Option Bytes) → List Nat
  | r :: rs, some _ :: vs => r.typ :: typesAligned rs vs
  | _ :: rs, none :: vs => typesAligned rs vs
  | _, _ => []

/-- record types strictly increasing, starting at `min`, below 2^64 -/
def IncFrom {σ : Type} : Nat → List (Rec σ) → Prop
  | _, [] => True
  | min, r :: rs => min ≤ r.typ ∧ r.typ < 2 ^ 64 ∧ IncFrom (r.typ + 1) rs

theorem IncFrom.mono {σ : Type} {m m' : Nat} {rs : List (Rec σ)} (h : IncFrom m rs) (hm : m' ≤ m) :
    IncFrom m' rs := by
  cases rs with
  | nil => trivial
  | cons r rs => exact ⟨by have := h.1; omega, h.2.1, h.2.2⟩

/-- each present record fits the cap and round-trips on its own -/
def Good {σ : Type} (step : Nat → Bytes → σ → σ) : List (Rec σ) → List (Option Bytes) → Prop
  | r :: rs, some v :: vs =>
      v.length ≤ maxRecordSize ∧ (∀ rest s, r.dec v.length (v ++ rest) s = .ok (step r.typ v s, rest)) ∧
      Good step rs vs
  | _ :: rs, none :: vs => Good step rs vs
  | [], [] => True
  | _, _ => False

theorem encAligned_head {σ : Type} (m : Nat) (rs : List (Rec σ)) (vs : List (Option Bytes)) (h : IncFrom m rs) :
    encAligned rs vs = [] ∨ ∃ t more, m ≤ t ∧ t < 2 ^ 64 ∧ encAligned rs vs = writeVarInt t ++ more := by
  induction rs generalizing vs m with
  | nil => left; cases vs <;> rfl
  | cons r rs ih =>
    cases vs with
    | nil => left; rfl
    | cons v vs =>
      cases v with
      | none =>
        simp only [encAligned]
        rcases ih (r.typ + 1) vs h.2.2 with h' | ⟨t, more, h1, h2, h3⟩
        · left; exact h'
        · right; exact ⟨t, more, by have := h.1; omega, h2, h3⟩
      | some v =>
        right
        refine ⟨r.typ, writeVarInt v.length ++ v ++ encAligned rs vs, h.1, h.2.1, ?_⟩
        simp [encAligned, encodeRecord, List.append_assoc]

/-- a known record whose type is below the next type in the input is skipped by `getRecord` -/
theorem decodeLoop_skip_head {σ : Type} (p2p : Bool) (maxAlloc : Nat) (wt : Bool) (fuel : Nat) (r : Rec σ)
    (rs : List (Rec σ)) (min : Nat) (inp : Bytes) (s : σ) (parsed : List Nat)
    (h : inp = [] ∨ ∃ t more, r.typ < t ∧ t < 2 ^ 64 ∧ inp = writeVarInt t ++ more) :
    decodeLoop p2p maxAlloc wt fuel (r :: rs) min inp s parsed = decodeLoop p2p maxAlloc wt fuel rs min inp s parsed := by
  cases fuel with
  | zero => rfl
  | succ fuel =>
    rcases h with h | ⟨t, more, h1, h2, h3⟩
    · subst h; simp [decodeLoop, readVarInt]
    · subst h3
      unfold decodeLoop
      rw [readVarInt_writeVarInt t h2 more]
      simp only
      have hg : getRecord (r :: rs) t = getRecord rs t := by
        rw [getRecord]
        rw [if_neg (by omega), if_pos h1]
      rw [hg]

/-- **Generic stream round trip.**  Decoding the encoding of any subset of the known records (types
strictly increasing, each value within the record cap, each record round-tripping on its own) yields
the fold of the per-record results and the list of the present types. -/
theorem decodeLoop_encAligned {σ : Type} (p2p : Bool) (maxAlloc : Nat) (wt : Bool) (step : Nat → Bytes → σ → σ) :
    ∀ (rs : List (Rec σ)) (vs : List (Option Bytes)) (min : Nat) (s : σ) (parsed : List Nat) (fuel : Nat),
      IncFrom min rs → Good step rs vs → (encAligned rs vs).length < fuel →
      decodeLoop p2p maxAlloc wt fuel rs min (encAligned rs vs) s parsed
        = .ok (stepAligned step rs vs s, parsed ++ typesAligned rs vs) := by
  intro rs
  induction rs with
  | nil =>
    intro vs min s parsed fuel _ _ hf
    cases fuel with
    | zero => omega
    | succ fuel => cases vs <;> simp [encAligned, decodeLoop, readVarInt, stepAligned, typesAligned]
  | cons r rs ih =>
    intro vs min s parsed fuel hinc hgood hf
    cases vs with
    | nil => exact absurd hgood (by simp [Good])
    | cons v vs =>
      cases v with
      | none =>
        simp only [encAligned, stepAligned, typesAligned] at *
        rw [decodeLoop_skip_head]
        · exact ih vs min s parsed fuel (hinc.2.2.mono (by have := hinc.1; omega)) hgood hf
        · rcases encAligned_head (r.typ + 1) rs vs hinc.2.2 with h | ⟨t, more, h1, h2, h3⟩
          · left; exact h
          · right; exact ⟨t, more, by omega, h2, h3⟩
      | some v =>
        obtain ⟨hcap, hdec, hgood'⟩ := hgood
        simp only [encAligned, stepAligned, typesAligned, encodeRecord] at *
        cases fuel with
        | zero => omega
        | succ fuel =>
          unfold decodeLoop
          rw [List.append_assoc, List.append_assoc, readVarInt_writeVarInt r.typ hinc.2.1]
          simp only
          rw [if_neg (by have := hinc.1; omega)]
          rw [readVarInt_writeVarInt v.length (by have : maxRecordSize = 65535 := rfl; omega)]
          simp only
          have hc : (p2p && decide (v.length > maxRecordSize)) = false := by
            simp; intro _; omega
          rw [hc]
          simp only [Bool.false_eq_true, if_false]
          have hg : getRecord (r :: rs) r.typ = (some r, rs) := by simp [getRecord]
          rw [hg]
          simp only
          rw [hdec]
          simp only
          rw [ih vs (r.typ + 1) (step r.typ v s) (parsed ++ [r.typ]) fuel hinc.2.2 hgood' (by
            have := writeVarInt_pos r.typ
            simp only [List.length_append] at hf; omega)]
          simp [List.append_assoc]

end Pool.Dec

namespace Pool.Dec

theorem writeVarInt_length_le (v : Nat) : (writeVarInt v).length ≤ 9 := by
  unfold writeVarInt; repeat' split
  all_goals simp [toBE_length]

/-- crude size bound of an aligned encoding: 18 bytes of type+length varints plus the value, per present record -/
def boundAligned : List (Option Bytes) → Nat
  | [] => 0
  | none :: vs => boundAligned vs
  | some v :: vs => 18 + v.length + boundAligned vs

theorem encAligned_length_le {σ : Type} (rs : List (Rec σ)) (vs : List (Option Bytes)) :
    (encAligned rs vs).length ≤ boundAligned vs := by
  induction rs generalizing vs with
  | nil => cases vs <;> simp [encAligned]
  | cons r rs ih =>
    cases vs with
    | nil => simp [encAligned]
    | cons v vs =>
      cases v with
      | none => simpa [encAligned, boundAligned] using ih vs
      | some v =>
        simp only [encAligned, encodeRecord, boundAligned, List.length_append]
        have h1 := writeVarInt_length_le r.typ
        have h2 := writeVarInt_length_le v.length
        have := ih vs
        omega

end Pool.Dec
