import PoolProofs.C07LemmasWeight
/-! The common specification of an accepted withdrawal / renewal (both run `valueAfterAccountUpdate`,
`createNewAccountOutput`, `createSpendTx`, `spendAccount`). -/
set_option linter.unusedSimpArgs false
set_option linter.unusedVariables false
namespace Pool.C07
open Pool.Gen.C07

/-- What an accepted withdrawal / renewal broadcast and recorded (`res` = result of the operation, `outputs` = the
requested outputs, `wt` = witness type of the spend, `ne` = new expiry if any, `nv` = requested version). -/
def ModifySpec (so : ScriptOf) (a : Account) (outputs : List TxOut) (rate : Int) (wt : Nat) (ne : Option UInt32)
    (nv : Nat) (res : OpResult) : Prop :=
  ∃ (tx : Tx) (acct' : Account) (newOut : TxOut) (w idx : Nat) (pre : List Effect),
    -- effects: exactly one auctioneer request (always the cooperative path), then the store write, then the broadcast
    res.tx = some tx ∧ res.account = some acct' ∧
    res.trace = pre ++ [.storeWrite acct', .publish tx] ∧ pre.length = 1 ∧ (∀ e ∈ pre, e.isModify = true) ∧
    (wt = wt_multiSigWitness ∨ wt = wt_muSig2Taproot) ∧
    -- the account outpoint is the only input (spent exactly once), no lock time
    tx.inputs.map (·.prev) = [a.outPoint] ∧ tx.lockTime = 0 ∧
    -- outputs = re-created account output + the requested outputs, verbatim
    tx.outputs.Perm (newOut :: outputs) ∧
    -- the re-created output is the output of the account as recorded (value and script)
    newOut = acct'.output so ∧
    -- the recorded outpoint designates the re-created output, the only output carrying the new account script
    acct'.outPoint = ⟨selfHash, idx⟩ ∧ tx.outputs[idx]? = some newOut ∧
    newOut.script ∉ outputs.map (·.script) ∧
    -- conservation: new = old − withdrawn − fee, fee = rate · W / 1000, W the full weight of the broadcast tx
    witnessSize wt = some w ∧
    acct'.value = a.value - sumValues outputs - feeForWeight rate (fullWeight tx w) ∧
    feeForWeight FeePerKwFloor (fullWeight tx w) ≤ feeForWeight rate (fullWeight tx w) ∧
    -- bounds
    (MinAccountValue : Int) ≤ acct'.value ∧
    (∀ o ∈ tx.outputs, isDustOutput o = false ∧ 0 ≤ o.value) ∧
    acct'.version = max a.version nv ∧ acct'.batchCtr = a.batchCtr + 1 ∧
    acct'.state = StatePendingUpdate ∧ acct'.expiry = ne.getD a.expiry

theorem modify_spec {so : ScriptOf} (hso : ScriptLen34 so) {a : Account} {outputs : List TxOut} {rate : Int}
    {best : UInt32} {nv : Nat} {f : Faults} {ne : Option UInt32} {v : Int} {wt : Nat} {action : Action}
    (hact : action ≠ .close)
    (hfresh : (createNewAccountOutput so a v ne nv).1.script ∉ outputs.map (·.script))
    (hvau : valueAfterAccountUpdate a.value outputs wt rate = .ok v)
    (h : (spendAccount so a action (createSpendTx so a ((createNewAccountOutput so a v ne nv).1 :: outputs)) wt
            ((createNewAccountOutput so a v ne nv).2 ++ [.state StatePendingUpdate]) best f).refusal = none) :
    ModifySpec so a outputs rate wt ne nv
      (spendAccount so a action (createSpendTx so a ((createNewAccountOutput so a v ne nv).1 :: outputs)) wt
            ((createNewAccountOutput so a v ne nv).2 ++ [.state StatePendingUpdate]) best f) := by
  obtain ⟨mods', lock, pre, hloc, hlock, hsan, htx, hacct, htrace, hpre1, hpre2⟩ := spendAccount_ok h
  obtain ⟨hnew, hval, hctr, hexp, hver, hst, hop⟩ := cnao_fields so a v ne nv
  -- not a close: located, cooperative path
  have hloc' : ∃ idx, locateScript ((applyMods a ((createNewAccountOutput so a v ne nv).2
      ++ [.state StatePendingUpdate])).output so).script
      (createSpendTx so a ((createNewAccountOutput so a v ne nv).1 :: outputs)).outputs = some idx ∧
      mods' = (createNewAccountOutput so a v ne nv).2 ++ [.state StatePendingUpdate] ++ [.outPoint idx] := by
    rcases hloc with ⟨_, idx, hl, hm⟩ | ⟨hc, _⟩
    · exact ⟨idx, hl, hm⟩
    · exact absurd hc hact
  obtain ⟨idx, hl, hm⟩ := hloc'
  have hlock0 : lock = 0 ∧ (wt = wt_multiSigWitness ∨ wt = wt_muSig2Taproot) := by
    rcases hlock with ⟨_, hc, _⟩ | ⟨hw, h0⟩
    · exact absurd hc hact
    · exact ⟨h0, hw⟩
  obtain ⟨hlock0, hcoop⟩ := hlock0
  simp only [hcoop, if_true] at hpre1
  subst hlock0 hm
  obtain ⟨w, t, hw, hloop, hv, hmin⟩ := vau_ok hvau
  obtain ⟨_, _, hrange, _, hdust, inT, w', hin, hle, hfloor⟩ := sanityCheck_ok hsan
  have hin' : sanityInputs a wt [a.txIn so] 0 0 = .ok (inT, w') := hin
  obtain ⟨hinT, hw'⟩ := sanityInputs_single hin'
  have hww : w' = w := by rw [hw] at hw'; exact (Option.some.inj hw').symm
  subst hww hinT
  -- the new account output
  generalize hnewdef : (createNewAccountOutput so a v ne nv).1 = newOut at *
  generalize hmsdef : (createNewAccountOutput so a v ne nv).2 = ms at *
  have hlen : newOut.script.length = 34 := by rw [hnew]; exact hso _ _ _
  have hweight := vau_weight_eq (so := so) (a := a) hloop newOut hlen 0
  have hperm : (sortBy outLt (newOut :: outputs)).Perm (newOut :: outputs) := sortBy_perm _ _
  have hsum : sumValues (sortBy outLt (newOut :: outputs)) = newOut.value + sumValues outputs := by
    rw [sumValues_perm hperm]; simp
  have hnv : newOut.value = v := by rw [hnew]; exact hval
  rw [output_state_irrelevant, ← hnew] at hl
  have hstored := stored_fields a ms StatePendingUpdate idx best
  rw [hstored] at hacct htrace
  refine ⟨_, _, newOut, w', idx, pre, htx, hacct, htrace, hpre1, hpre2, hcoop, ?_, rfl, hperm, ?_, rfl, ?_, ?_, hw, ?_, ?_,
    ?_, ?_, ?_, ?_, rfl, ?_⟩
  · simp [createSpendTx, Account.txIn]
  · rw [hnew]; simp [Account.output]
  · apply locateScript_unique hl
    intro o ho hs
    have := hperm.mem_iff.mp ho
    rcases List.mem_cons.mp this with rfl | hmem
    · rfl
    · exact absurd (List.mem_map.mpr ⟨o, hmem, hs⟩) hfresh
  · exact hfresh
  · show (applyMods a ms).value = _
    rw [hval, ← hweight]; exact hv
  · rw [← hweight]
    have : sumValues (createSpendTx so a (newOut :: outputs)).outputs = newOut.value + sumValues outputs := hsum
    have hf : feeForWeight FeePerKwFloor (fullWeight { createSpendTx so a (newOut :: outputs) with lockTime := 0 } w')
        ≤ a.value - sumValues (createSpendTx so a (newOut :: outputs)).outputs := hfloor
    rw [← hweight] at hf
    rw [this, hnv] at hf
    omega
  · show (MinAccountValue : Int) ≤ (applyMods a ms).value
    rw [hval]; exact hmin
  · intro o ho
    exact ⟨hdust o ho, (hrange o ho).1⟩
  · exact hver
  · exact hctr
  · exact hexp

end Pool.C07
