import PoolProofs.C02
/-!
# Discharging the overflow guard of C02 from plain range hypotheses

`NoOverflow` (the domain guard `D` of `C02_accept_debits_exact`) lists the intermediate values that must fit
`int64`/`uint32`.  `Sane` is a set of *input* ranges – units are uint32 (wire type), self-funded balances between 0 and
2^49 sat (≈ 5.6 million BTC), execution base fee ≤ 2^50 sat, execution fee rate ≤ 4096 ppm, chain fee rate ≤ 2^32
sat/kw, fewer than 2^20 matches in the batch – and `noOverflow_of_sane` proves that they imply the guard.
-/
set_option linter.unusedSimpArgs false
set_option linter.unusedVariables false
namespace Pool.C02
open Pool.Batch

def Sane (env : Env) (b : Batch) : Prop :=
  (∀ nm ∈ b.matched, ∀ t ∈ nm.2, t.unitsFilled < 2 ^ 32 ∧ 0 ≤ t.selfChanBalance ∧ t.selfChanBalance ≤ 2 ^ 49) ∧
  (∀ o ∈ env.orders, 0 ≤ o.selfChanBalance ∧ o.selfChanBalance ≤ 2 ^ 49) ∧
  (0 ≤ b.execBase ∧ b.execBase ≤ 2 ^ 50) ∧ (0 ≤ b.execRate ∧ b.execRate ≤ 2 ^ 12) ∧
  (0 ≤ b.feeRate ∧ b.feeRate ≤ 2 ^ 32) ∧
  (b.matched.map (·.2.length)).sum < 2 ^ 20

theorem chargedCount_le (env : Env) (k : Key) : ∀ l : List (Nonce × List Their),
    ((contribs env k l).map (·.2.length)).sum ≤ (l.map (·.2.length)).sum := by
  intro l
  induction l with
  | nil => simp [contribs]
  | cons nm rest ih =>
    unfold contribs at ih ⊢
    simp only [List.filterMap_cons, List.map_cons, List.sum_cons]
    cases ho : findOrder nm.1 env.orders with
    | none => simp only; omega
    | some o =>
      simp only
      by_cases hk : o.acctKey = k
      · simp only [hk, if_true, List.map_cons, List.sum_cons]; omega
      · simp only [hk, if_false]; omega

theorem mul_bounds {x y X Y : Int} (hx0 : 0 ≤ x) (hx : x ≤ X) (hy0 : 0 ≤ y) (hy : y ≤ Y) :
    0 ≤ x * y ∧ x * y ≤ X * Y :=
  ⟨Int.mul_nonneg hx0 hy0, Int.mul_le_mul hx hy hy0 (Int.le_trans hx0 hx)⟩

theorem tdiv_bounds {x : Int} (hx : 0 ≤ x) : 0 ≤ Int.tdiv x 1000000 ∧ Int.tdiv x 1000000 ≤ x := by
  rw [Int.tdiv_eq_ediv_of_nonneg hx]
  exact ⟨Int.ediv_nonneg hx (by omega), Int.ediv_le_self _ hx⟩

theorem noOverflow_of_sane {env : Env} {b : Batch} (h : Sane env b) : NoOverflow env b := by
  obtain ⟨hT, hO, ⟨hb0, hb1⟩, ⟨hr0, hr1⟩, ⟨hf0, hf1⟩, hN⟩ := h
  refine ⟨?_, ?_⟩
  · intro nm hnm o ho t ht
    have ho' : findOrder nm.1 env.orders = some o := by
      cases hfo : findOrder nm.1 env.orders with
      | none => rw [hfo] at ho; simp at ho
      | some o' => rw [hfo] at ho; simp at ho; rw [ho]
    obtain ⟨_, homem⟩ := findOrder_nonce ho'
    obtain ⟨hu, ht0, ht1⟩ := hT nm hnm t ht
    obtain ⟨ho0, ho1⟩ := hO o homem
    have hus0 : 0 ≤ unitsSat t := by unfold unitsSat; omega
    have hus1 : unitsSat t < 2 ^ 49 := by unfold unitsSat; omega
    have hbs : 0 ≤ bidSelfBalance o t ∧ bidSelfBalance o t ≤ 2 ^ 49 := by
      unfold bidSelfBalance
      cases o.isAsk
      · simp only [Bool.false_eq_true, if_false]; exact ⟨ho0, ho1⟩
      · simp only [if_true]; exact ⟨ht0, ht1⟩
    have hpb : 0 ≤ premiumBase o t ∧ premiumBase o t ≤ 2 ^ 50 := by
      unfold premiumBase; split <;> constructor <;> omega
    have hfa : ∀ x : Int, 0 ≤ x → x ≤ 2 ^ 50 → I64 (x * b.execRate) ∧ I64 (specExecFee b x) := by
      intro x hx0 hx1
      obtain ⟨hm0, hm1⟩ := mul_bounds hx0 hx1 hr0 hr1
      obtain ⟨hd0, hd1⟩ := tdiv_bounds hm0
      have : (2 : Int) ^ 50 * 2 ^ 12 = 2 ^ 62 := by decide
      unfold I64 specExecFee
      refine ⟨⟨by omega, by omega⟩, ⟨by omega, by omega⟩⟩
    unfold MatchGuard
    refine ⟨hu, by unfold I64; omega, ?_⟩
    cases hA : o.isAsk
    · simp only [Bool.false_eq_true, if_false]; exact hfa _ hpb.1 hpb.2
    · simp only [if_true]; exact hfa _ hus0 (by omega)
  · intro a ha
    have hn : ((chargedTo env b a.key).map (·.2.length)).sum < 2 ^ 20 :=
      Nat.lt_of_le_of_lt (chargedCount_le env a.key b.matched) hN
    refine ⟨by omega, ?_⟩
    generalize ((chargedTo env b a.key).map (·.2.length)).sum = n at hn ⊢
    have hw : (4 * (84 + (43 * n + 1) / 2) + (if a.version = 1 ∨ a.version = 2 then 66 else 229) : Nat) ≤ 2 ^ 28 := by
      split <;> omega
    obtain ⟨hm0, hm1⟩ := mul_bounds hf0 hf1
      (Int.natCast_nonneg (4 * (84 + (43 * n + 1) / 2) + (if a.version = 1 ∨ a.version = 2 then 66 else 229)))
      (by exact_mod_cast hw : ((4 * (84 + (43 * n + 1) / 2) + (if a.version = 1 ∨ a.version = 2 then 66 else 229) : Nat) : Int) ≤ 2 ^ 28)
    have : (2 : Int) ^ 32 * 2 ^ 28 = 2 ^ 60 := by decide
    unfold I64
    constructor <;> omega

end Pool.C02
