import PoolModel.Batch
namespace Pool.C02
theorem placeholder : True := trivial
end Pool.C02
