import PoolProofs.C02Lemmas
import PoolProofs.BatchExamples
/-!
# C02 — an accepted batch debits each account exactly and returns change to its own script

Headline theorems about the model of the **repaired** `batchVerifier.Verify` (`Rules.fixed`), the negation for the
code as found (`Rules.pinned`) with concrete witnesses, and non-vacuity examples.

`ChargedExactly env b best d` (see `PoolProofs/BatchSpec.lean`) restates the property for one account diff `d`:
the account exists and owns a matched order; its stated ending balance is the starting balance plus premiums
earned, minus premiums paid, capital provided, self-funded channel balance, execution fees and the chain fee
(`specEndingBalance`, integer formulas), as an `int64`; at or above the dust threshold the output at the stated
index has exactly that value and the account's next script for the version / expiry the account will carry, a new
version is one of the supported ones and a new expiry is at most `best + 52560`; below the threshold no output
is claimed and the state is one of the three spent states.
-/
set_option linter.unusedSimpArgs false
set_option linter.unusedVariables false
namespace Pool.C02
open Pool.Batch

/-- **C02.** Inside the overflow guard `NoOverflow` (wire ranges, no int64/uint32 overflow in the fee arithmetic),
if the repaired `Verify` accepts then every account diff is charged exactly, and no account is charged twice. -/
theorem C02_accept_debits_exact (env : Env) (b : Batch) (best : UInt32) (st : Tallies)
    (hg : NoOverflow env b) (h : verify env Rules.fixed b best = .ok st) :
    (∀ d ∈ b.diffs, ChargedExactly env b best d) ∧ (b.diffs.map (·.acctKey)).Nodup := by
  unfold verify at h
  split at h <;> try contradiction
  split at h <;> try contradiction
  split at h <;> try contradiction
  rename_i st0 h0
  obtain ⟨hds, hnd⟩ := verifyDiffs_fixed_ok _ _ _ _ h
  refine ⟨?_, hnd⟩
  intro d hd
  obtain ⟨_, e, he, hbal, hexp, hver, hves⟩ := hds d hd
  have htr := verifyOrders_tracks h0 d.acctKey
  rw [he] at htr
  obtain ⟨hkey, hfa, hsum, hch, hne⟩ := htr
  obtain ⟨hacc, _, _⟩ := verifyOrders_ok _ _ _ (stOk_nil env) h0
  obtain ⟨hak, hamem⟩ := findAcct_key hfa
  have hct : chargedTo env b d.acctKey = contribs env d.acctKey b.matched := rfl
  obtain ⟨hgm, hga⟩ := hg
  have hga' := hga e.acct hamem
  rw [hak, hct] at hga'
  obtain ⟨hn, hfeeI⟩ := hga'
  refine ⟨e.acct, hfa, by rw [hct]; exact hne, ?_, ?_⟩
  · -- the balance equation
    have hcount : e.chans = chanCount (contribs env d.acctKey b.matched) := by
      rw [hch]; unfold u32 chanCount at *; omega
    have hfee := estimateTraderFee_spec _ b.feeRate e.acct.version hn hfeeI
    -- model sum ≡ spec sum (mod 2^64)
    have hcong : w64 (e.acct.value + modelSum env b (contribs env d.acctKey b.matched)) =
        w64 (e.acct.value + ((contribs env d.acctKey b.matched).map fun c =>
          (c.2.map (specMatchDelta env b c.1)).sum).sum) := by
      unfold modelSum
      apply w64_add_sum_congr2
      intro c hc c0
      obtain ⟨nm, hnm, ho, _, hts⟩ := mem_contribs hc
      apply w64_add_sum_congr
      intro t ht
      obtain ⟨o', ho', _, _, hm, _⟩ := hacc nm hnm
      rw [ho] at ho'; cases ho'
      obtain ⟨⟨dl, hdl⟩, _⟩ := hm t (by rw [← hts]; exact ht)
      exact delta_spec hdl (hgm nm hnm c.1 (by rw [ho]; simp) t (by rw [← hts]; exact ht))
    rw [hbal, ← w64_sub_left, hsum, hcong, w64_sub_left]
    unfold specEndingBalance
    rw [hak, hct, hcount]
    have : chanCount (contribs env d.acctKey b.matched) =
        (List.map (fun x => x.snd.length) (contribs env d.acctKey b.matched)).sum := rfl
    rw [this, hfee]
  · -- the ending-state clause
    have hv := validateEndingState_ok hves
    unfold EndingClause
    by_cases hdust : d.endingBalance < env.minNoDust
    · simp only [hdust, if_true] at hv ⊢
      exact ⟨hv.1, by simpa [Pool.Gen.Batch.dustEndingStates] using hv.2⟩
    · simp only [hdust, if_false] at hv ⊢
      obtain ⟨hs, hi, out, hout, hval, hscr⟩ := hv
      refine ⟨by simpa [Pool.Gen.Batch.recreatedEndingState] using hs, hi, out, hout, hval, hscr, ?_, ?_⟩
      · intro hne'
        have := hver hne'
        unfold validateVersion at this
        simpa [supportedVersions, Pool.Gen.Batch.validAccountVersions] using this
      · intro hne'
        have := hexp hne'
        simpa [maxLifetime, Pool.Gen.Batch.maxAccountExpiry] using this

/-- the same for the manager entry point -/
theorem C02_orderMatchValidate_debits_exact (env : Env) (b : Batch) (best : UInt32) (pending : Option String)
    (st : Tallies) (hg : NoOverflow env b)
    (h : (orderMatchValidate env Rules.fixed b best pending).1 = .ok st) :
    ∀ d ∈ b.diffs, ChargedExactly env b best d := by
  unfold orderMatchValidate at h
  split at h <;> try (simp at h; done)
  rename_i st0 hv
  exact (C02_accept_debits_exact env b best st0 hg hv).1

/-- when the prescribed balance itself fits int64 the stated balance equals it exactly -/
theorem C02_balance_exact (env : Env) (b : Batch) (best : UInt32) (d : Diff)
    (h : ChargedExactly env b best d) :
    ∃ a, findAcct d.acctKey env.accounts = some a ∧
      (I64 (specEndingBalance env b a) → d.endingBalance = specEndingBalance env b a) := by
  obtain ⟨a, hfa, _, hbal, _⟩ := h
  exact ⟨a, hfa, fun hi => by rw [hbal, w64_eq_self hi]⟩


/-! ## no state between proposals -/

/-- the verdict on a proposal does not depend on the pending batch left by earlier proposals -/
theorem C02_verdict_independent_of_pending (env : Env) (rules : Rules) (b : Batch) (best : UInt32)
    (p p' : Option String) :
    (orderMatchValidate env rules b best p).1 = (orderMatchValidate env rules b best p').1 := by
  unfold orderMatchValidate
  cases verify env rules b best with
  | error e => rfl
  | ok st => cases nodeFilter env b.matched <;> rfl

/-- **Statelessness.** On one long-lived manager, whatever proposals came before (same or other batch IDs, accepted
or rejected, any database states), the verdict on a proposal is the verdict it gets in isolation against the
environment of its own time. -/
theorem C02_verdict_history_independent (rules : Rules) :
    ∀ (seq : List (Env × Batch × UInt32)) (p : Option String),
      (validateSeq rules seq p).1 = seq.map fun x => (orderMatchValidate x.1 rules x.2.1 x.2.2 none).1 := by
  intro seq
  induction seq with
  | nil => intro p; rfl
  | cons x rest ih =>
    intro p
    obtain ⟨env, b, best⟩ := x
    simp only [validateSeq, List.map_cons]
    rw [ih, C02_verdict_independent_of_pending env rules b best p none]

/-- hence every accepted proposal of any sequence debits exactly, w.r.t. the accounts as stored at that time -/
theorem C02_sequence_debits_exact (seq : List (Env × Batch × UInt32)) (p : Option String) :
    ∀ x ∈ seq.zip (validateSeq Rules.fixed seq p).1, ∀ st, x.2 = .ok st → NoOverflow x.1.1 x.1.2.1 →
      ∀ d ∈ x.1.2.1.diffs, ChargedExactly x.1.1 x.1.2.1 x.1.2.2 d := by
  rw [C02_verdict_history_independent]
  intro x hx st hst hg
  obtain ⟨⟨env, b, best⟩, r⟩ := x
  have hm := List.of_mem_zip hx
  obtain ⟨y, _, hy⟩ := List.mem_map.mp hm.2
  -- the zip of a list with its own image pairs every element with its image
  have : r = (orderMatchValidate env Rules.fixed b best none).1 := by
    have hz : ∀ (l : List (Env × Batch × UInt32)) (f : Env × Batch × UInt32 → Except Err Tallies)
        (a : Env × Batch × UInt32) (c : Except Err Tallies), (a, c) ∈ l.zip (l.map f) → c = f a := by
      intro l f
      induction l with
      | nil => intro a c h; simp at h
      | cons z zs ih =>
        intro a c h
        simp only [List.map_cons, List.zip_cons_cons, List.mem_cons, Prod.mk.injEq] at h
        rcases h with ⟨rfl, rfl⟩ | h
        · rfl
        · exact ih a c h
    exact hz seq _ (env, b, best) r hx
  simp only at hst hg ⊢
  rw [this] at hst
  exact C02_orderMatchValidate_debits_exact env b best none st hg hst

/-- non-vacuity / illustration: the hostile over-long-expiry proposal, then the honest one twice for the same batch
ID, on one manager: rejected, accepted, accepted – the rejected first attempt leaves nothing behind -/
example : ((validateSeq Rules.fixed [(exEnv, exBatchExp, 101), (exEnv, exBatch, 101), (exEnv, exBatch, 101)] none).1.map isOk)
    = [false, true, true] := by decide

/-- **Regenerated facts** behind the two modelling decisions "the verifier has no state" and "script derivation is a
function of its arguments": `batchVerifier` has exactly its five start-up fields, `Verify` / `validateMatchedOrder` /
`validateChannelOutput` assign to none of them, and the poolscript helpers under `NextOutputScript` / `FundingOutput`
read no package-level variable (no cache, no pool). -/
theorem C02_verifier_and_script_helpers_stateless :
    Pool.Gen.Batch.verifierFields = ["orderStore", "getAccount", "wallet", "ourNodePubkey", "version"] ∧
    Pool.Gen.Batch.verifierFieldWrites = [] ∧ Pool.Gen.Batch.scriptHelperGlobals = [] := by decide

/-! ## non-vacuity -/

/-- the two-order proposal of `BatchExamples` meets the hypotheses (guard + acceptance by the repaired code) … -/
example : NoOverflow exEnv exBatch ∧ isOk (verify exEnv Rules.fixed exBatch 101) = true := by decide
/-- … so does a proposal that leaves the account with dust (500 sat < 678 sat) … -/
example : NoOverflow exEnvDust exBatchDust ∧ isOk (verify exEnvDust Rules.fixed exBatchDust 101) = true := by decide
/-- … and ±1 on the ending balance (with the output following) is rejected. -/
example : isOk (verify exEnv Rules.fixed { exBatch with
    diffs := [{ exDiff with endingBalance := 647809 }],
    txOuts := [⟨300000, "fund-false-K1-M1"⟩, ⟨647809, "acct-A-1-40000"⟩, ⟨450000, "fund-true-R-M2"⟩] } 101) = false := by
  decide

/-! ## the code as found violates the property (three independent witnesses, replayed on the Go code by the
harness: `corpus/C02/defect-*.json`) -/

/-- the full statement of C02 for a given rule set -/
def C02_full_statement (rules : Rules) : Prop :=
  ∀ (env : Env) (b : Batch) (best : UInt32) (st : Tallies), NoOverflow env b →
    verify env rules b best = .ok st → ∀ d ∈ b.diffs, ChargedExactly env b best d

theorem C02_full_statement_fixed : C02_full_statement Rules.fixed :=
  fun env b best st hg h => (C02_accept_debits_exact env b best st hg h).1

/-- code as found: a new expiry of 4 000 000 000 (more than a year after block 101) is accepted -/
theorem C02_pinned_accepts_overlong_expiry : ¬ C02_full_statement Rules.pinned := by
  intro h
  have hok : isOk (verify exEnv Rules.pinned exBatchExp 101) = true := by decide
  match hv : verify exEnv Rules.pinned exBatchExp 101 with
  | .error e => rw [hv] at hok; simp [isOk] at hok
  | .ok st =>
    obtain ⟨a, hfa, _, _, hend⟩ := h exEnv exBatchExp 101 st (by decide) hv exDiffExp (by decide)
    have ha := exAcct_of hfa
    subst ha
    unfold EndingClause at hend
    rw [if_neg (by decide)] at hend
    obtain ⟨_, _, out, _, _, _, _, hexp⟩ := hend
    exact absurd (hexp (by decide)) (by decide)

/-- code as found: an "upgrade" to the unknown account version 77 is accepted -/
theorem C02_pinned_accepts_unknown_version : ¬ C02_full_statement Rules.pinned := by
  intro h
  have hok : isOk (verify exEnv Rules.pinned exBatchVer 101) = true := by decide
  match hv : verify exEnv Rules.pinned exBatchVer 101 with
  | .error e => rw [hv] at hok; simp [isOk] at hok
  | .ok st =>
    obtain ⟨a, hfa, _, _, hend⟩ := h exEnv exBatchVer 101 st (by decide) hv exDiffVer (by decide)
    have ha := exAcct_of hfa
    subst ha
    unfold EndingClause at hend
    rw [if_neg (by decide)] at hend
    obtain ⟨_, _, out, _, _, _, hver, _⟩ := hend
    exact absurd (hver (by decide)) (by decide)

/-- code as found: a second diff for the same account, debited the chain fee twice, is accepted -/
theorem C02_pinned_accepts_duplicate_diff : ¬ C02_full_statement Rules.pinned := by
  intro h
  have hok : isOk (verify exEnv Rules.pinned exBatchDup 101) = true := by decide
  match hv : verify exEnv Rules.pinned exBatchDup 101 with
  | .error e => rw [hv] at hok; simp [isOk] at hok
  | .ok st =>
    obtain ⟨a, hfa, _, hbal, _⟩ := h exEnv exBatchDup 101 st (by decide) hv exDiffDup (by decide)
    have ha := exAcct_of hfa
    subst ha
    exact absurd hbal (by decide)

/-- the repaired code rejects all three witnesses -/
example : isOk (verify exEnv Rules.fixed exBatchExp 101) = false ∧ isOk (verify exEnv Rules.fixed exBatchVer 101) = false ∧
    isOk (verify exEnv Rules.fixed exBatchDup 101) = false := by decide

end Pool.C02
