import PoolProofs.C05LemmasInv

/-!
# C05 — batch signatures: only for the verified batch, valid for it alone, after staging

Headline theorems only.  History-level statements quantify over *all* op lists (`validate` of arbitrary
batches, `sign` with arbitrary signer / account-store / store faults and arbitrary Sign-message data,
`finalize` of arbitrary ids, `unstage`), over all initial databases and over every verification predicate
`verifyOk`.  They are phrased with a ghost that is computed from the ops and their *results* only:

* `lastVerified`  the batch of the most recent `validate` that returned success (cleared by a successful
                  `finalize`),
* `log`           one `Release` per `sign` that returned signatures: the ghost's `lastVerified` at that
                  moment, the database before the call, the prevouts of the Sign message, the signatures,
                  and the staging area of the database at the moment of return.

`manager.BatchSign` and the handler's `Sign` case are the *interpreted regenerated programs*
(`Pool.Gen.C05.batchSignProg`, `handlerSignProg`); `C05_batchSign_order` (exact statement order) and
`C05_handler_order` (structural check, tolerant of harmless reorderings) are the obligations that tie every
theorem below to the Go source.
-/
set_option linter.unusedSimpArgs false
set_option linter.unusedVariables false
namespace Pool.C05
open Pool.Gen.C05

/-! ## Ties to the Go source (regenerated facts) -/

/-- (R) `manager.BatchSign`, as regenerated from the Go source, is: `batchSigner.Sign(m.pendingBatch)`;
on error return `nil, nil, err` (the storer is not reached); `batchStorer.StorePendingBatch(m.pendingBatch)`;
on error return `nil, nil, …`; only then `return sig, nonces, nil`. -/
theorem C05_batchSign_order (s : St) (f : Faults) : batchSign s f = batchSignSpec s f :=
  batchSign_eq_spec s f

/-- (R) the `Sign` case of `handleServerMessage`, as regenerated from the Go source, passes the structural
check `safeSign`: every `BatchSign` call is immediately followed by
`if err != nil { return s.sendRejectBatch(…) }`, `sendSignBatch(batch, sigs, nonces, …)` occurs only after
such a checked `BatchSign`, and the case ends with a `return`.  Where the other statements (parsing, the two
assignments, channel setup, logging, the nil-batch guard) stand does not matter – a harmless reordering keeps
this `decide` true, moving `sendSignBatch` before `BatchSign` or dropping the error check makes it false. -/
theorem C05_handler_order : safeSign (handlerSignProg.map parseH) = true := by decide

/-- (R) the sighash types in the Go source are SIGHASH_ALL (p2wsh) and SIGHASH_DEFAULT (taproot), the two
that commit to every input and every output; the signer matches inputs by the stored outpoint over
`batch.BatchTX` (the LAST matching input wins – forward loop without `break`, or backward loop stopping at the first hit), gates MuSig2 on `VersionTaprootEnabled` and signs `batch.BatchTX`
with `batch.PreviousOutputs`. -/
theorem C05_signer_source_shape :
    htP2wsh = 1 ∧ htTaproot = 0 ∧
    signerAccountLookup = "acctDiff.AccountKey" ∧
    signerInputMatch = "acct.OutPoint == in.PreviousOutPoint" ∧ signerInputPick = "last" ∧
    signerVersionGate = "acct.Version >= account.VersionTaprootEnabled" ∧
    signerRawTx = "batch.BatchTX" ∧ signerMuSig2Tx = "batch.BatchTX" ∧
    signerMuSig2PrevOuts = "batch.PreviousOutputs" ∧
    -- the MuSig2 session is opened with the STORED account's script version, expiry, keys and secret
    -- (never with the diff's new version / new expiry)
    (signerMuSig2SessionArgs.drop 1).take 6 =
      ["acct.Version.ScriptVersion()", "acct.Expiry", "acct.TraderKey.PubKey", "acct.BatchKey", "acct.Secret",
       "acct.AuctioneerKey"] := by decide

/-- (R) what `batchStorer.StorePendingBatch` stages per account is built from exactly these modifiers, and
each modifier is a single unconditional assignment of its field (a modifier that silently declines to apply –
e.g. an `ExpiryModifier` that only ever extends – would stage something else than the verified batch says):
re-created: state, outpoint `(BatchTX.TxHash(), OutpointIndex)`, batch key + 1, then `NewExpiry` iff non-zero
(and supported) and `NewVersion` iff greater (and supported); used up: state only; always: ending balance,
height hint, latest tx.  `stagedRow` is the model of this table. -/
theorem C05_storer_modifier_shape :
    accountModifierBodies =
      [("ExpiryModifier", ["account.Expiry = arg"]),
       ("HeightHintModifier", ["account.HeightHint = arg"]),
       ("IncrementBatchKey", ["account.BatchKey = poolscript.IncrementKey(account.BatchKey)"]),
       ("LatestTxModifier", ["account.LatestTx = arg"]),
       ("OutPointModifier", ["account.OutPoint = arg"]),
       ("StateModifier", ["account.State = arg"]),
       ("ValueModifier", ["account.Value = arg"]),
       ("VersionModifier", ["account.Version = arg"])] ∧
    storerRecreatedModifiers =
      ["account.StateModifier(account.StatePendingBatch)",
       "account.OutPointModifier(wire.OutPoint{ Hash: batch.BatchTX.TxHash(), Index: uint32(diff.OutpointIndex), })",
       "account.IncrementBatchKey()"] ∧
    storerRecreatedConditional =
      [("0 != diff.NewExpiry && batch.Version.SupportsAccountExtension()", ["account.ExpiryModifier(diff.NewExpiry)"]),
       ("batch.Version.SupportsAccountTaprootUpgrade() && diff.NewVersion > acct.Version",
        ["account.VersionModifier(diff.NewVersion)"])] ∧
    storerClosedModifiers = ["account.StateModifier(account.StatePendingClosed)"] ∧
    storerCommonModifiers =
      ["account.ValueModifier(diff.EndingBalance)", "account.HeightHintModifier(batch.HeightHint)",
       "account.LatestTxModifier(batch.BatchTX)"] := by decide

/-- the staged row of a re-created account carries the diff's new outpoint, and the diff's new expiry whenever
that is non-zero – also when it is LOWER than the stored one (the verifier bounds `NewExpiry` only from above,
and the re-created output commits to it) -/
theorem C05_staged_row_follows_diff (db : DB) (d : Diff) (r : Acct) (op : OutPoint)
    (h : RowFor db d r) (hop : d.newOutpoint = some op) :
    r.outpoint = op ∧ r.key = d.acct ∧ (d.newExpiry ≠ 0 → r.expiry = d.newExpiry) ∧
    (∀ o, d.newOut = some o → r.out = o) := by
  obtain ⟨a, ha, hr⟩ := h
  subst hr
  have hk := getAccount_key _ _ _ ha
  simp [stagedRow, hop, hk]
  exact ⟨fun h1 h2 => absurd h2 h1, fun o ho => by simp [ho]⟩

/-! ## Histories -/

/-- **Invariant.**  After every history the manager's pending batch is (up to the volatile Sign-message
fields) the batch of the most recent successful verification, and that batch satisfied the verifier. -/
theorem pending_is_last_verified (verifyOk : St → Batch → Bool) (accts : List Acct) (orders : List Ord)
    (ops : List Op) :
    let r := grun verifyOk (initSt accts orders) ⟨none, none, []⟩ ops
    r.1.pending.map Batch.core = r.2.lastVerified.map Batch.core ∧
    ∀ b, r.2.lastVerified = some b → ∃ s0, r.2.verifiedAt = some s0 ∧ verifyOk s0 b = true := by
  have h := inv_grun verifyOk _ _ ops (inv_init verifyOk accts orders)
  exact ⟨h.1, h.2.1⟩

/-- **Only for the verified batch.**  In every history, every batch of signatures ever released was
released while a successfully verified batch `b` was outstanding, contains exactly one signature per
account diff of `b` (in order), and each is the ideal signature by that account's key over the sighash
preimage of `b.tx` at the input that spends the account's STORED outpoint (SIGHASH_ALL with the account's
current output for p2wsh accounts, the taproot default sighash with the supplied prevouts otherwise). -/
theorem C05_sign_only_pending (verifyOk : St → Batch → Bool) (accts : List Acct) (orders : List Ord)
    (ops : List Op) (r : Release)
    (hr : r ∈ (grun verifyOk (initSt accts orders) ⟨none, none, []⟩ ops).2.log) :
    ∃ b s0, r.batch = some b ∧ r.verifiedAt = some s0 ∧ verifyOk s0 b = true ∧
      Forall2 (SigFor r.db b.tx r.prev) b.diffs r.sigs := by
  obtain ⟨b, s0, h1, h1', h2, h3, _⟩ := (inv_grun verifyOk _ _ ops (inv_init verifyOk accts orders)).2.2 r hr
  exact ⟨b, s0, h1, h1', h2, h3⟩

/-- **After staging.**  Whenever signatures were released, the database held – at the moment of return –
the staged pending batch: the verified batch's id and transaction, with one staged row per account diff, and
each row is WHAT that diff says: the stored account moved to the diff's new outpoint / output (version only
upwards) when re-created, left on the spent output when used up (`RowFor` / `stagedRow`). -/
theorem C05_release_after_stage (verifyOk : St → Batch → Bool) (accts : List Acct) (orders : List Ord)
    (ops : List Op) (r : Release)
    (hr : r ∈ (grun verifyOk (initSt accts orders) ⟨none, none, []⟩ ops).2.log) :
    ∃ b rows, r.batch = some b ∧
      r.staged = some { id := b.id, tid := b.tid, tx := b.tx, rows := rows } ∧
      rows.map (·.key) = b.diffs.map (·.acct) ∧ Forall2 (RowFor r.db) b.diffs rows := by
  obtain ⟨b, _, h1, _, _, _, rows, h4, h5, h6⟩ :=
    (inv_grun verifyOk _ _ ops (inv_init verifyOk accts orders)).2.2 r hr
  exact ⟨b, rows, h1, h4, h5, h6⟩

/-- the release log grows only by a `sign` op that returned signatures -/
theorem C05_log_grows_only_on_ok (verifyOk : St → Batch → Bool) (s : St) (g : Ghost) (op : Op) :
    (gstep verifyOk s g op).2.log = g.log ∨
    ∃ f ns pv S N, op = .sign f ns pv ∧ (step verifyOk s op).2 = .sign (.ok S N) := by
  cases op with
  | validate b =>
    left; simp only [gstep, step]
    cases (validate verifyOk s b).2 <;> rfl
  | sign f ns pv =>
    simp only [gstep, step]
    cases hbs : (batchSign (attachAux s ns pv) f).2 with
    | ok S N => right; exact ⟨f, ns, pv, S, N, rfl, by simp [hbs]⟩
    | errSign e => left; rfl
    | errStore => left; rfl
    | panic => left; rfl
  | finalize id mf =>
    left; simp only [gstep, step]
    cases (finalize s id mf).2 <;> rfl
  | unstage => left; rfl
  | modAcct k op out => left; rfl

/-! ## Single steps (hold in every state, reachable or not) -/

/-- **A failed signing stages nothing.**  If the signer fails (unknown account, input not found, missing
server nonce, signer-client error) or crashes, the database – in particular its staging area – is exactly as
before the call. -/
theorem C05_sign_fail_stages_nothing (verifyOk : St → Batch → Bool) (s : St) (f : Faults) (ns : List Key)
    (pv : List Out)
    (h : (∃ e, (step verifyOk s (.sign f ns pv)).2 = .sign (.errSign e)) ∨
         (step verifyOk s (.sign f ns pv)).2 = .sign .panic) :
    (step verifyOk s (.sign f ns pv)).1.db = s.db := by
  simp only [step] at *
  cases hbs : batchSign (attachAux s ns pv) f with
  | mk s' o =>
    rw [hbs] at h
    have hno : ∀ S N, o ≠ .ok S N := by
      intro S N ho; subst ho
      rcases h with ⟨e, he⟩ | he <;> simp at he
    have := batchSign_not_ok_db _ _ _ _ hbs hno
    simp [this, attachAux]

/-- **A failed staging releases nothing** (and leaves no partial staging): the outcome of a `BatchSign`
whose storer fails is the bare error – it carries no signature – and the database is as before. -/
theorem C05_stage_fail_releases_nothing (verifyOk : St → Batch → Bool) (s : St) (f : Faults) (ns : List Key)
    (pv : List Out) (b : Batch) (S : List Sig) (N : List Key) (c : Ctr)
    (hb : (attachAux s ns pv).pending = some b)
    (hs : signerSign s.db b f = (.ok S N, c))
    (hst : storePending s.db b f c.acalls = none) :
    (step verifyOk s (.sign f ns pv)).2 = .sign .errStore ∧
    (step verifyOk s (.sign f ns pv)).1.db = s.db := by
  have hdb : (attachAux s ns pv).db = s.db := rfl
  have := batchSign_store_fail (attachAux s ns pv) f b S N c hb (by rw [hdb]; exact hs)
    (by rw [hdb]; exact hst)
  simp only [step, this]
  refine ⟨?_, ?_⟩ <;> first | trivial | rfl

/-- an injected store fault (before or inside the database transaction) never yields a release -/
theorem C05_store_fault_never_releases (verifyOk : St → Batch → Bool) (s : St) (f : Faults) (ns : List Key)
    (pv : List Out) (hf : f.st ≠ .none) (S : List Sig) (N : List Key) :
    (step verifyOk s (.sign f ns pv)).2 ≠ .sign (.ok S N) := by
  intro h
  simp only [step] at h
  cases hbs : batchSign (attachAux s ns pv) f with
  | mk s' o =>
    rw [hbs] at h
    simp at h
    subst h
    obtain ⟨_, _, _, _, _, _, hnone, _⟩ := batchSign_ok _ _ _ _ _ hbs
    exact hf hnone

/-- a release implies that the staging area holds the pending batch at the moment of return (single step,
any state) -/
theorem C05_ok_implies_staged (verifyOk : St → Batch → Bool) (s : St) (f : Faults) (ns : List Key)
    (pv : List Out) (S : List Sig) (N : List Key)
    (h : (step verifyOk s (.sign f ns pv)).2 = .sign (.ok S N)) :
    ∃ b rows, s.pending = some b ∧
      (step verifyOk s (.sign f ns pv)).1.db.staged =
        some { id := b.id, tid := b.tid, tx := b.tx, rows := rows } ∧
      Forall2 (SigFor s.db b.tx pv) b.diffs S := by
  simp only [step] at *
  cases hbs : batchSign (attachAux s ns pv) f with
  | mk s' o =>
    rw [hbs] at h
    simp at h
    subst h
    obtain ⟨b', rows, hb', hF, hs', _, _⟩ := batchSign_ok _ _ _ _ _ hbs
    cases hsp : s.pending with
    | none => simp [attachAux, hsp] at hb'
    | some b0 =>
      simp [attachAux, hsp] at hb'
      subst hb'
      exact ⟨b0, rows, rfl, by simp [hs', attachAux], by simpa [attachAux] using hF⟩

/-- **Only the account's CURRENT output.**  Signatures are released only if, for every account of the pending
batch, the outpoint stored in the database *at the moment of the sign request* is an input of the batch
transaction.  In particular: if an account RPC (deposit / withdraw / renew – `modAcct`) moved an account of the
pending batch to another outpoint after the proposal was verified, a following sign request releases nothing
(it fails with "account input not found") and stages nothing. -/
theorem C05_release_requires_stored_outpoints_spent (verifyOk : St → Batch → Bool) (s : St) (f : Faults)
    (ns : List Key) (pv : List Out) (S : List Sig) (N : List Key)
    (h : (step verifyOk s (.sign f ns pv)).2 = .sign (.ok S N)) :
    ∃ b, s.pending = some b ∧
      ∀ d ∈ b.diffs, ∃ a, getAccount s.db d.acct = some a ∧ a.outpoint ∈ b.tx.ins := by
  obtain ⟨b, _, hb, _, hF⟩ := C05_ok_implies_staged verifyOk s f ns pv S N h
  refine ⟨b, hb, fun d hd => ?_⟩
  obtain ⟨σ, _, a, idx, ha, _, hin, _⟩ := hF.exists_of_mem_left hd
  exact ⟨a, ha, List.mem_of_getElem? hin⟩

theorem C05_moved_account_is_not_signed (verifyOk : St → Batch → Bool) (s : St) (b : Batch) (d : Diff)
    (a : Acct) (f : Faults) (ns : List Key) (pv : List Out)
    (hb : s.pending = some b) (hd : d ∈ b.diffs) (ha : getAccount s.db d.acct = some a)
    (hmoved : a.outpoint ∉ b.tx.ins) :
    (∀ S N, (step verifyOk s (.sign f ns pv)).2 ≠ .sign (.ok S N)) ∧
    (step verifyOk s (.sign f ns pv)).1.db = s.db := by
  have hno : ∀ S N, (step verifyOk s (.sign f ns pv)).2 ≠ .sign (.ok S N) := by
    intro S N h
    obtain ⟨b', hb', hall⟩ := C05_release_requires_stored_outpoints_spent verifyOk s f ns pv S N h
    rw [hb] at hb'; cases hb'
    obtain ⟨a', ha', hin⟩ := hall d hd
    rw [ha] at ha'; cases ha'
    exact hmoved hin
  refine ⟨hno, ?_⟩
  simp only [step] at *
  cases hbs : batchSign (attachAux s ns pv) f with
  | mk s' o =>
    have : s' = attachAux s ns pv :=
      batchSign_not_ok_db _ _ _ _ hbs (fun S N ho => hno S N (by rw [hbs, ho]))
    simp [this, attachAux]

/-! ## The handler's Sign case

Proved for every program passing `safeSign` (lemma `safe_run`), instantiated with the regenerated one. -/

/-- **Send after sign.**  Whenever the handler hands a sign message to the auctioneer (`post` = what
happened later, `pre` = what happened before, newest first): the most recent `BatchSign` before it returned
success; the message carries exactly the signatures and nonces that a `BatchSign` of this invocation returned,
run on the handler's own pending batch `b` and account rows; they are the ideal signatures for `b`'s diffs
over `b.tx`; and the staging area at the moment of the send holds `b` (id, transaction, one row per diff). -/
theorem C05_send_after_sign (s : St) (env : HEnv) (post pre : List Ev) (S : List Sig) (N : List Key)
    (g : Option Staged) (h : (handleSign s env).trace = post ++ Ev.sendSign S N g :: pre) :
    lastSign pre = some true ∧
    ∃ s0 s1 b rows, s0.pending = some b ∧ s0.pending.map Batch.core = s.pending.map Batch.core ∧
      s0.db.accts = s.db.accts ∧ s0.db.orders = s.db.orders ∧
      batchSign s0 env.faults = (s1, .ok S N) ∧
      g = some { id := b.id, tid := b.tid, tx := b.tx, rows := rows } ∧
      Forall2 (SigFor s0.db b.tx b.prevOuts) b.diffs S ∧ Forall2 (RowFor s0.db) b.diffs rows := by
  obtain ⟨hgood, hrall, _, _⟩ := safe_run s env _ C05_handler_order
  refine ⟨goodTr_split _ post pre S N g hgood h, ?_⟩
  have hm : Ev.sendSign S N g ∈ (handleSign s env).trace := by rw [h]; simp
  obtain ⟨s0, s1, hc, ha, ho, hbs, hg⟩ := hrall S N g hm
  obtain ⟨b, rows, hb, hF, hs1, _, _, hrf⟩ := batchSign_ok _ _ _ _ _ hbs
  exact ⟨s0, s1, b, rows, hb, hc, ha, ho, hbs, by rw [hg, hs1], hF, hrf⟩

/-- **Error path.**  The handler always returns; if a `BatchSign` of this invocation failed (signing or
staging failed) then – unless the process crashed – that failure is followed by exactly one more message to
the auctioneer, a reject, and by nothing else: in particular no sign message is sent after a failed
`BatchSign`. -/
theorem C05_handler_error_sends_no_sig (s : St) (env : HEnv) :
    (handleSign s env).done = true ∧
    (Ev.batchSign false ∈ (handleSign s env).trace →
      (handleSign s env).panicked = true ∨
      ∃ tr', (handleSign s env).trace = .sendReject :: .batchSign false :: tr' ∧ Ev.batchSign false ∉ tr') := by
  obtain ⟨_, _, hfs, hd⟩ := safe_run s env _ C05_handler_order
  refine ⟨hd, fun hm => ?_⟩
  rcases hfs with h1 | h2 | h3
  · exact absurd hm h1
  · exact Or.inl h2
  · exact Or.inr h3

/-! ## Signatures bind the transaction -/

/-- **Valid for it alone.**  A released signature (ideal signature over `H ∘ preimage` for any injective
digest `H`) does not verify for a transaction whose outputs – or inputs, or locktime – differ in any way
from the batch transaction it was made for: the digest differs, hence the ideal signature is invalid. -/
theorem C05_sig_binds_tx {α : Type} (H : Preimage → α) (hH : Function.Injective H)
    (t : Bool) (tx tx' : Tx) (idx : Nat) (sp sp' : List Out) (k : Key) (o : Out) (hne : tx ≠ tx') :
    H (preimage t (if t then htTaproot else htP2wsh) tx idx sp) ≠
      H (preimage t (if t then htTaproot else htP2wsh) tx' idx sp') ∧
    Sig.verify k o (preimage t (if t then htTaproot else htP2wsh) tx' idx sp')
      ⟨k, o, preimage t (if t then htTaproot else htP2wsh) tx idx sp, 0⟩ = false := by
  have hp : preimage t (if t then htTaproot else htP2wsh) tx idx sp ≠
      preimage t (if t then htTaproot else htP2wsh) tx' idx sp' :=
    fun h => hne (preimage_injective t tx tx' idx idx sp sp' h).1
  refine ⟨fun h => hp (hH h), ?_⟩
  simp [Sig.verify, hp]

/-- in particular: altering only the outputs changes the digest -/
theorem C05_sig_commits_to_all_outputs {α : Type} (H : Preimage → α) (hH : Function.Injective H)
    (t : Bool) (tx : Tx) (outs' : List Out) (idx : Nat) (sp : List Out) (hne : tx.outs ≠ outs') :
    H (preimage t (if t then htTaproot else htP2wsh) tx idx sp) ≠
      H (preimage t (if t then htTaproot else htP2wsh) { tx with outs := outs' } idx sp) :=
  (C05_sig_binds_tx H hH t tx { tx with outs := outs' } idx sp sp 0 0
    (fun h => hne (by rw [h]))).1

/-- a signature made for the script context of one output (say the account output with the batch's NEW
expiry) does not help to spend another one (the output actually on chain) -/
theorem C05_sig_binds_output (k : Key) (o o' : Out) (m : Preimage) (hne : o ≠ o') :
    Sig.verify k o' m ⟨k, o, m, 0⟩ = false := by
  simp [Sig.verify, hne]

/-- **Validly spends the account's current output in exactly that transaction.**  The signature
`batchSigner.Sign` produces for a diff verifies for the STORED account's current output, under the account's
key, over the sighash preimage of the batch transaction at the input spending the stored outpoint. -/
theorem C05_released_sig_spends_current_output (db : DB) (tx : Tx) (prev : List Out) (d : Diff) (σ : Sig)
    (h : SigFor db tx prev d σ) :
    ∃ a idx, getAccount db d.acct = some a ∧ tx.ins[idx]? = some a.outpoint ∧
      Sig.verifyV d.acct a.out a.version σ.msg σ = true ∧
      σ.msg = (if a.version ≥ versionTaprootEnabled
               then preimage true htTaproot tx idx (prev.take tx.ins.length)
               else preimage false htP2wsh tx idx [a.out]) := by
  obtain ⟨a, idx, ha, _, hin, hk, ho, hv, hm⟩ := h
  exact ⟨a, idx, ha, hin, by simp [Sig.verifyV, Sig.verify, hk, ho, hv], hm⟩

/-- **The signing protocol is that of the output being spent, not of the diff.**  A signature made with the
protocol of another account version – e.g. a MuSig2 v1.0.0-rc2 session because the batch upgrades the account
from version 1 to 2, while the input still is the version-1 output – does not verify for the current output;
the released one carries the STORED account's version whatever `NewVersion` the diff announces. -/
theorem C05_sig_protocol_is_stored_version (db : DB) (tx : Tx) (prev : List Out) (d : Diff) (σ : Sig)
    (h : SigFor db tx prev d σ) :
    ∃ a, getAccount db d.acct = some a ∧ σ.sver = a.version ∧
      ∀ v', v' ≠ a.version → Sig.verifyV d.acct a.out a.version σ.msg { σ with sver := v' } = false := by
  obtain ⟨a, idx, ha, _, hin, hk, ho, hv, hm⟩ := h
  refine ⟨a, ha, hv, fun v' hne => ?_⟩
  simp [Sig.verifyV, hne]

/-! ## Interleavings made explicit: re-proposals, rejected proposals, finalisation

`lastOkValidate` scans a history's (op, result) pairs on its own – it does not look at the model state or
at the ghost – and returns the batch of the last `validate` that returned success, unless a successful
`finalize` came after it. -/

def lastOkStep (cur : Option Batch) (x : Op × Res) : Option Batch :=
  match x with
  | (.validate b, .val none) => some b
  | (.finalize _ _, .fin .ok) => none
  | _ => cur

def lastOkValidate (xs : List (Op × Res)) : Option Batch := xs.foldl lastOkStep none

theorem grun_eq_run (verifyOk : St → Batch → Bool) (s : St) (g : Ghost) (ops : List Op) :
    (grun verifyOk s g ops).1 = (run verifyOk s ops).1 ∧
    (grun verifyOk s g ops).2.lastVerified =
      (ops.zip (run verifyOk s ops).2).foldl lastOkStep g.lastVerified := by
  induction ops generalizing s g with
  | nil => exact ⟨rfl, rfl⟩
  | cons op ops ih =>
    have hs : (gstep verifyOk s g op).1 = (step verifyOk s op).1 := rfl
    have hg : (gstep verifyOk s g op).2.lastVerified = lastOkStep g.lastVerified (op, (step verifyOk s op).2) := by
      simp only [gstep, lastOkStep]
      cases op with
      | validate b => cases h : (step verifyOk s (.validate b)).2 <;> try rfl
                      rename_i e; cases e <;> rfl
      | sign f ns pv => cases h : (step verifyOk s (.sign f ns pv)).2 <;> try rfl
                        rename_i o; cases o <;> rfl
      | finalize id mf => cases h : (step verifyOk s (.finalize id mf)).2 <;> try rfl
                          rename_i o; cases o <;> rfl
      | unstage => cases h : (step verifyOk s .unstage).2 <;> rfl
      | modAcct k op out => cases h : (step verifyOk s (.modAcct k op out)).2 <;> rfl
    have := ih (gstep verifyOk s g op).1 (gstep verifyOk s g op).2
    simp only [grun, run, List.zip_cons_cons, List.foldl_cons]
    rw [hs] at this
    rw [← hg]
    exact this

/-- **Signatures are for the batch of the last successful verification – whatever happened in between.**
For every history `ops` (proposals accepted or rejected, re-proposals with the same or another ID, sign
requests that failed or succeeded, finalisations, unstaging) followed by a sign request that returns
signatures: the independent scan of the history finds a last successfully verified, not yet finalised batch
`b`, it satisfied the verifier, and the signatures are exactly those for `b` (one per diff, over `b.tx`). -/
theorem C05_release_is_for_last_ok_validate (verifyOk : St → Batch → Bool) (accts : List Acct) (orders : List Ord)
    (ops : List Op) (f : Faults) (ns : List Key) (pv : List Out) (S : List Sig) (N : List Key)
    (h : (step verifyOk (run verifyOk (initSt accts orders) ops).1 (.sign f ns pv)).2 = .sign (.ok S N)) :
    ∃ b, lastOkValidate (ops.zip (run verifyOk (initSt accts orders) ops).2) = some b ∧
      (∃ s0, verifyOk s0 b = true) ∧
      Forall2 (SigFor (run verifyOk (initSt accts orders) ops).1.db b.tx pv) b.diffs S := by
  obtain ⟨hst, hlv⟩ := grun_eq_run verifyOk (initSt accts orders) ⟨none, none, []⟩ ops
  have hinv := inv_grun verifyOk _ _ ops (inv_init verifyOk accts orders)
  obtain ⟨b0, rows, hp0, _, hF⟩ := C05_ok_implies_staged verifyOk _ f ns pv S N h
  rw [hst] at hinv
  obtain ⟨hcore, hv, _⟩ := hinv
  rw [hp0] at hcore
  cases hl : (grun verifyOk (initSt accts orders) ⟨none, none, []⟩ ops).2.lastVerified with
  | none => rw [hl] at hcore; simp at hcore
  | some bl =>
    rw [hl] at hcore
    simp at hcore
    have htx : bl.tx = b0.tx := (congrArg Batch.tx hcore).symm
    have hdf : bl.diffs = b0.diffs := (congrArg Batch.diffs hcore).symm
    refine ⟨bl, ?_, (let ⟨s0, _, h0⟩ := hv bl hl; ⟨s0, h0⟩), ?_⟩
    · unfold lastOkValidate; rw [← hlv, hl]
    · rw [htx, hdf]; exact hF

/-- **Nothing is signed without an outstanding verified batch**: if the scan of the history finds no
successfully verified batch that has not been finalised since (never any, all rejected, or the last one was
finalised), every sign request – with any faults and any Sign-message data – releases nothing (in the model
it is the nil-dereference crash of `batchSigner.Sign`). -/
theorem C05_no_release_without_verified_batch (verifyOk : St → Batch → Bool) (accts : List Acct)
    (orders : List Ord) (ops : List Op) (f : Faults) (ns : List Key) (pv : List Out)
    (h : lastOkValidate (ops.zip (run verifyOk (initSt accts orders) ops).2) = none) :
    (step verifyOk (run verifyOk (initSt accts orders) ops).1 (.sign f ns pv)).2 = .sign .panic := by
  obtain ⟨hst, hlv⟩ := grun_eq_run verifyOk (initSt accts orders) ⟨none, none, []⟩ ops
  have hinv := inv_grun verifyOk _ _ ops (inv_init verifyOk accts orders)
  rw [hst] at hinv
  have hnone : (grun verifyOk (initSt accts orders) ⟨none, none, []⟩ ops).2.lastVerified = none := by
    rw [hlv]; exact h
  have hp : (run verifyOk (initSt accts orders) ops).1.pending = none := by
    have := hinv.1
    rw [hnone] at this
    cases hpp : (run verifyOk (initSt accts orders) ops).1.pending with
    | none => rfl
    | some b => rw [hpp] at this; simp at this
  simp only [step]
  rw [batchSign_eq_spec]
  simp [batchSignSpec, attachAux, hp]

/-- a rejected proposal – in particular a rejected re-proposal with the ID of the pending batch – changes
nothing: the pending batch, hence what a following sign request signs, stays the earlier verified one -/
theorem C05_rejected_proposal_changes_nothing (verifyOk : St → Batch → Bool) (s : St) (b : Batch)
    (h : (validate verifyOk s b).2 ≠ none) : (validate verifyOk s b).1 = s := by
  unfold validate at *
  split at h
  · simp_all
  · split at h <;> simp_all

/-- an accepted proposal replaces the pending batch – also when it carries the ID of the batch pending so
far (same-ID re-proposal): from then on only the new version is signed -/
theorem C05_accepted_proposal_replaces_pending (verifyOk : St → Batch → Bool) (s : St) (b : Batch)
    (h : (validate verifyOk s b).2 = none) :
    (validate verifyOk s b).1.pending = some b ∧ verifyOk s b = true ∧ (validate verifyOk s b).1.db = s.db := by
  unfold validate at *
  split at h
  · simp at h
  · rename_i hv
    split at h
    · simp at h
    · simp_all

/-! ## Non-vacuity -/

namespace Ex
def accts : List Acct := [⟨1, 10, 0, 20, 5000⟩, ⟨2, 11, 1, 21, 5000⟩]
def orders : List Ord := [⟨1, 1, [], []⟩, ⟨2, 2, [], [3]⟩]
def b : Batch :=
  { id := 5, tid := 1, tx := ⟨[99, 10, 11], [30, 31, 32], 0⟩,
    diffs := [⟨1, some 40, 0, some 31, 4900⟩, ⟨2, none, 1, none, 0⟩], matched := [(1, 1), (2, 1)],
    vflag := true, snapOk := true, nonces := [], prevOuts := [] }
/-- a re-proposal with the same id that the verifier rejects -/
def bBad : Batch := { b with tid := 2, tx := ⟨[99, 10, 11], [30, 31, 33], 0⟩, vflag := false }
def hist : List Op := [.validate b, .validate bBad, .sign noFaults [2] [50, 20, 21]]
def env : HEnv := { parseOk := true, chanOk := true, sendOk := true, faults := noFaults,
                    nonces := [2], prev := [50, 20, 21] }
end Ex

/-- valid proposal → rejected re-proposal → sign: one release, of two signatures (one p2wsh, one taproot),
for the first batch; the history meets the hypotheses of the three history theorems -/
example : ((grun (fun _ b => b.vflag) (initSt Ex.accts Ex.orders) ⟨none, none, []⟩ Ex.hist).2.log.map
    (fun r => (r.batch.map (·.tid), r.sigs.map (fun σ => (σ.key, σ.msg.taproot, σ.msg.idx, σ.msg.outs)),
               r.staged.map (·.id)))) =
    [(some 1, [(1, false, 1, [30, 31, 32]), (2, true, 2, [30, 31, 32])], some 5)] := by rfl

/-- same-ID re-proposal that IS accepted, then sign, finalize, sign: the one release is for the second
version (tid 2), and after the finalisation nothing is signed (hypotheses of
`C05_release_is_for_last_ok_validate` / `C05_no_release_without_verified_batch`) -/
example :
    let b2 : Batch := { Ex.b with tid := 2, tx := ⟨[99, 10, 11], [30, 31, 34], 0⟩ }
    let ops : List Op := [.validate Ex.b, .validate b2, .sign noFaults [2] [50, 20, 21], .finalize 5 false]
    let r := run (fun _ b => b.vflag) (initSt Ex.accts Ex.orders) ops
    (lastOkValidate ((ops.take 2).zip (run (fun _ b => b.vflag) (initSt Ex.accts Ex.orders) (ops.take 2)).2)).map (·.tid) = some 2 ∧
    lastOkValidate (ops.zip r.2) = none ∧
    (step (fun _ b => b.vflag) r.1 (.sign noFaults [2] [50, 20, 21])).2 = .sign .panic := by decide

/-- an account of the pending batch is moved by an RPC between proposal and sign request: nothing is released
(hypotheses of `C05_moved_account_is_not_signed` are met) -/
example : (run (fun _ b => b.vflag) (initSt Ex.accts Ex.orders)
    [.validate Ex.b, .modAcct 1 77 78, .sign noFaults [2] [50, 20, 21]]).2.getLast? =
    some (.sign (.errSign .input)) := by decide

/-- signer fault at the second signer call: error, nothing staged (hypothesis of
`C05_sign_fail_stages_nothing` is met) -/
example : (step (fun _ b => b.vflag) (step (fun _ b => b.vflag) (initSt Ex.accts Ex.orders) (.validate Ex.b)).1
    (.sign { noFaults with sf := some 1 } [2] [50, 20, 21])).2 = .sign (.errSign .signer) := by decide

/-- store fault inside the transaction: error (hypotheses of `C05_stage_fail_releases_nothing` /
`C05_store_fault_never_releases` are met) -/
example : (step (fun _ b => b.vflag) (step (fun _ b => b.vflag) (initSt Ex.accts Ex.orders) (.validate Ex.b)).1
    (.sign { noFaults with st := .inside } [2] [50, 20, 21])).2 = .sign .errStore := by decide

/-- short prevouts with a taproot account: the crash outcome -/
example : (step (fun _ b => b.vflag) (step (fun _ b => b.vflag) (initSt Ex.accts Ex.orders) (.validate Ex.b)).1
    (.sign noFaults [2] [50, 20])).2 = .sign .panic := by decide

/-- the handler hands over a sign message on the success path (hypothesis of `C05_send_after_sign`) -/
example : ((handleSign (step (fun _ b => b.vflag) (initSt Ex.accts Ex.orders) (.validate Ex.b)).1 Ex.env).trace.reverse.filterMap
    (fun e => match e with
      | .sendSign S _ g => some (S.length + (g.map (·.id)).getD 0) | .batchSign ok => some (if ok then 1 else 0)
      | _ => none)) = [1, 7] := by decide

/-- … and only a reject when the signer fails (hypothesis of `C05_handler_error_sends_no_sig`) -/
example : (handleSign (step (fun _ b => b.vflag) (initSt Ex.accts Ex.orders) (.validate Ex.b)).1
    { Ex.env with faults := { noFaults with sf := some 0 } }).trace.take 2 =
    [.sendReject, .batchSign false] := by decide

/-- two transactions differing in one output only (hypothesis of `C05_sig_binds_tx`) -/
example : Ex.b.tx ≠ Ex.bBad.tx ∧ Ex.b.tx.ins = Ex.bBad.tx.ins := by decide

end Pool.C05
