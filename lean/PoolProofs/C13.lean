import PoolModel.C13
namespace Pool.C13
theorem wip_placeholder : (run C06.DB.init []).pendingId = none := rfl
end Pool.C13
