import PoolProofs.C13Lemmas

/-!
# C13 — completed batches update order fill state exactly

Headline theorems (helper lemmas: `C13Lemmas.lean`; the database part is C06's).  The model of
`batchStorer.StorePendingBatch` (`PoolModel/C13.lean`) computes the order modifiers from the matched units and
hands them to C06's `StorePendingBatch`; completion is C06's `MarkBatchComplete`.

* `C13_fill_exact` – one batch: after completion every matched order has `unfilled' = unfilled − Σ units`
  (uint64 arithmetic; exact when Σ ≤ unfilled, which C01's per-order bound guarantees for verified batches), is
  `executed` iff `unfilled' = 0 ∨ unfilled' < MinUnitsMatch` and `partially filled` otherwise, an event
  `(prev state, new state, Units − unfilled')` is in its log, orders not in the batch are untouched;
* `C13_sequences` – every history of stage / re-stage / discard / complete / reopen: the final unfilled units
  are the initial ones minus the units of the COMPLETED batches only.
-/
set_option linter.unusedSimpArgs false
set_option linter.unusedVariables false
namespace Pool.C13
open Pool.C06 Pool.Gen.C06

/-- the two states the fill rule assigns are different, and the rule reads as an iff -/
theorem fillState_executed_iff (o : Ord) (rem : Nat) :
    (fillState o rem = orderStateExecuted ↔ rem = 0 ∨ rem < o.minMatch) ∧
    (fillState o rem = orderStatePartiallyFilled ↔ ¬ (rem = 0 ∨ rem < o.minMatch)) := by
  have hne : orderStateExecuted ≠ orderStatePartiallyFilled := by decide
  unfold fillState
  by_cases h : rem = 0 ∨ rem < o.minMatch
  · simp only [h, if_true, true_iff, not_true_eq_false, iff_false]; exact ⟨trivial, hne⟩
  · simp only [h, if_false, iff_false, not_false_eq_true, iff_true]; exact ⟨hne.symm, trivial⟩

/-- the account-diff states `batchStorer` accepts are exactly the four of the RPC enum -/
theorem facts_ending_states :
    [diff_OUTPUT_RECREATED, diff_OUTPUT_DUST_EXTENDED_OFFCHAIN, diff_OUTPUT_DUST_ADDED_TO_FEES,
     diff_OUTPUT_FULLY_SPENT] = [0, 1, 2, 3] := by decide

/-- a `batchStorer` staging call either fails before touching the store or is a C06 staging call -/
theorem step_stage_cases (db : DB) (b : Batch) :
    (∃ e, step db (.stage b) = (db, some e)) ∨ (∃ a, step db (.stage b) = C06.step db (.stage a)) := by
  simp only [step, bsStore]
  cases stageArgs b db with
  | error e => exact Or.inl ⟨e, rfl⟩
  | ok a => exact Or.inr ⟨a, rfl⟩

/-- what a successful `batchStorer.StorePendingBatch` leaves behind -/
theorem stage_ok (db : DB) (b : Batch) (hm : (keys b.matched).Nodup) (hok : (step db (.stage b)).2 = none) :
    ∃ o : StageOut,
      (step db (.stage b)).1 =
        { db with events := db.events ++ o.es, pendingId := some b.id, pendingAccts := some o.pa,
                  pendingOrders := some o.po, pendingSnap := some o.snap,
                  noRefs := db.noRefs.filter (fun k => !(b.matched.map (·.1)).contains k) } ∧
      AllStored o.pa ∧ (keys o.pa).Nodup ∧ (keys o.po).Nodup ∧ o.snap.id = b.id ∧ o.snap.matched = b.matched ∧
      (∀ n, lookup n o.po = (lookup n b.matched).bind (fun us => (lookup n db.orders).map (fun x => filled x us))) ∧
      (∀ n us, lookup n b.matched = some us → ∃ x, lookup n db.orders = some x ∧
        (n, Evt.updated x.state (filled x us).state (sub64 (filled x us).units (filled x us).unfilled)) ∈ o.es) := by
  simp only [step, bsStore] at hok ⊢
  cases hs : stageArgs b db with
  | error e => simp [hs, commit] at hok
  | ok a =>
    simp only [hs] at hok ⊢
    unfold stageArgs at hs
    cases hpo : prepOrders db.orders b.matched with
    | error e => simp [hpo] at hs
    | ok lo =>
      simp only [hpo] at hs
      cases hpa : prepAccts b db.accounts b.diffs with
      | error e => simp [hpa] at hs
      | ok la =>
        simp only [hpa] at hs
        injection hs with hs
        rw [storePendingBatch_eq] at hok ⊢
        cases ho : stageOut db.accounts db.orders a with
        | error e => simp [ho, commit] at hok
        | ok o =>
          obtain ⟨h1, _, h3, _, _, h6, h7, h8, h9, _⟩ := stageOut_ok ho
          have hev := stageOut_events ho
          have hzip : a.orders.zip a.orderMods = lo := by rw [← hs]; exact zip_map_fst_snd lo
          have hid : a.batchId = b.id := by rw [← hs]
          have hmt : a.matched = b.matched := by rw [← hs]
          have hords : a.orders = b.matched.map (·.1) := by rw [← hs]; exact prepOrders_keys hpo
          refine ⟨o, ?_, h6, h7, h8, by rw [h1, hid], by rw [h3, hmt], ?_, ?_⟩
          · simp only [commit, hid, hords]
          · intro n
            rw [h9 n, hzip, prepOrders_lastFor hpo hm n]
            cases hl : lookup n b.matched with
            | none => rfl
            | some us =>
              obtain ⟨x, hx, _⟩ := prepOrders_lookup_main hpo hl
              simp [stagedVal, hx, applyOMods_fillMods]
          · intro n us hl
            obtain ⟨x, hx, hmem⟩ := prepOrders_lookup_main hpo hl
            refine ⟨x, hx, ?_⟩
            rw [hev, hzip]
            have := List.mem_map_of_mem (f := evtOf db.orders) hmem
            simpa [evtOf, hx, applyOMods_fillMods] using this

/-- **One batch, staged through `batchStorer` and completed.**  Staging changes nothing visible; completion
succeeds; every matched order then has the uint64 remainder `remaining unfilled us` (= `unfilled − Σ us` when
Σ us ≤ unfilled), state `executed` iff that remainder is 0 or below the order's minimum match size and `partially
filled` otherwise (`fillState`, `fillState_executed_iff`), unchanged `Units`/`MinUnitsMatch`; the event
`(previous state, new state, Units − remainder)` is in the event log (it was written at staging time; completion
adds no event); orders not in the batch are exactly as before. -/
theorem C13_fill_exact (db : DB) (b : Batch) (hm : (keys b.matched).Nodup)
    (hok : (step db (.stage b)).2 = none) :
    let db1 := (step db (.stage b)).1
    let db2 := (step db1 .complete).1
    vis db1 = vis db ∧ (step db1 .complete).2 = none ∧
    (∀ n us, lookup n b.matched = some us → ∃ x, lookup n db.orders = some x ∧
      lookup n db2.orders = some (filled x us) ∧
      (n, Evt.updated x.state (filled x us).state (sub64 x.units (filled x us).unfilled)) ∈ db2.events ∧
      (x.unfilled < two64 → us.sum ≤ x.unfilled → (filled x us).unfilled = x.unfilled - us.sum)) ∧
    (∀ n, lookup n b.matched = none → lookup n db2.orders = lookup n db.orders) ∧
    db2.events = db1.events ∧ staged db2 = none := by
  intro db1 db2
  obtain ⟨o, hd, hst, _, hnd, _, _, hpo, hev⟩ := stage_ok db b hm hok
  have hd1 : db1 =
      { db with events := db.events ++ o.es, pendingId := some b.id, pendingAccts := some o.pa,
                pendingOrders := some o.po, pendingSnap := some o.snap,
                noRefs := db.noRefs.filter (fun k => !(b.matched.map (·.1)).contains k) } := hd
  have hp : HasPending db1 ⟨b.id, o.pa, o.po, o.snap⟩ := by rw [hd1]; exact ⟨rfl, rfl, rfl, rfl⟩
  have hm2 := markBatchComplete_pending hp hst
  have h2 : db2 =
      { db1 with accounts := over o.pa db1.accounts, orders := over o.po db1.orders,
                 pendingId := none, pendingAccts := none, pendingOrders := none, pendingSnap := none,
                 snaps := db1.snaps ++ [o.snap], index := upsert b.id (db1.snaps.length + 1) db1.index,
                 noRefs := db1.noRefs ++ (keys o.po).filter (fun k => (lookup k db1.orders).isNone) } := by
    show (commit db1 (markBatchCompleteTx db1)).1 = _
    rw [hm2]; rfl
  have hres : (step db1 .complete).2 = none := by
    show (commit db1 (markBatchCompleteTx db1)).2 = none
    rw [hm2]; rfl
  have hord : db1.orders = db.orders := by rw [hd1]
  have hevs : db1.events = db.events ++ o.es := by rw [hd1]
  have hlk : ∀ n, lookup n db2.orders = pick (lookup n o.po) (lookup n db.orders) := by
    intro n; rw [h2]; simp only []; rw [hord]; exact lookup_over hnd n
  refine ⟨by rw [hd1]; rfl, hres, ?_, ?_, by rw [h2], by rw [h2]; rfl⟩
  · intro n us hl
    obtain ⟨x, hx, hmem⟩ := hev n us hl
    refine ⟨x, hx, ?_, ?_, ?_⟩
    · rw [hlk n, hpo n, hl]; simp [hx, pick]
    · rw [h2]; simp only []; rw [hevs]
      exact List.mem_append_right _ hmem
    · intro hu hs; exact remaining_exact hu hs
  · intro n hl
    rw [hlk n, hpo n, hl]; rfl

/-! ## sequences of batches -/

/-- units matched for order `n` in batch `b` -/
def unitsFor (b : Batch) (n : Key) : Nat :=
  match lookup n b.matched with
  | some us => us.sum
  | none => 0

/-- ghost bookkeeping defined from the operations and their RESULTS only: `done n` = units of order `n` matched
in batches that were completed, `pend n` = units matched in the batch staged last (0 when none) -/
structure Ghost where
  done : Key → Nat
  pend : Key → Nat

/-- observable outcome of a reconnect check: was the `BatchCleaner` asked to delete the staged batch -/
def deleted (db : DB) : Op → Bool
  | .reconnect rpc rm => (C06.reconnect rpc rm db).2.1.contains .deletePendingBatch
  | _ => false

def gstep (g : Ghost) (op : Op) (res : Option Err) (del : Bool) : Ghost :=
  match op, res with
  | .reconnect _ _, _ => if del then { g with pend := fun _ => 0 } else g
  | .stage b, none => { g with pend := unitsFor b }        -- a successful (re-)staging replaces the staged batch
  | .complete, none => { done := fun n => g.done n + g.pend n, pend := fun _ => 0 }
  | .discard, _ => { g with pend := fun _ => 0 }
  | _, _ => g                                               -- failed calls, reopen

def grun (db : DB) (g : Ghost) : List Op → DB × Ghost
  | [] => (db, g)
  | op :: ops => grun (step db op).1 (gstep g op (step db op).2 (deleted db op)) ops

/-- the inductive invariant tying the database to the ghost -/
structure Inv (db0 db : DB) (g : Ghost) : Prop where
  coh : Coh db
  main : ∀ n o0, lookup n db0.orders = some o0 → ∃ o, lookup n db.orders = some o ∧
    (o.unfilled + g.done n) % two64 = o0.unfilled % two64 ∧ o.unfilled < two64 ∧
    o.fixed = o0.fixed
  stagedIn : ∀ st, staged db = some st → ∀ n so, lookup n st.orders = some so → ∃ o, lookup n db.orders = some o ∧
    (so.unfilled + g.pend n) % two64 = o.unfilled % two64 ∧ so.unfilled < two64 ∧
    so.fixed = o.fixed
  stagedOut : ∀ st, staged db = some st → ∀ n, lookup n st.orders = none → g.pend n = 0
  noStaged : staged db = none → ∀ n, g.pend n = 0
  wf : ∀ n o, lookup n db.orders = some o → o.unfilled < two64

theorem inv_step {db0 db : DB} {g : Ghost} (h : Inv db0 db g) (op : Op)
    (hop : ∀ b, op = .stage b → (keys b.matched).Nodup) :
    Inv db0 (step db op).1 (gstep g op (step db op).2 (deleted db op)) := by
  cases op with
  | reopen => exact h
  | reconnect rpc rm =>
    -- the check either keeps everything or does exactly what `discard` does, and the cleaner call tells which
    simp only [step, C06.step, deleted, gstep, C06.reconnect]
    by_cases hdel : (checkPendingBatch (pendingBatchSnapshot db) rpc { removeOk := rm, deleteOk := true }).1.contains
        Call.deletePendingBatch = true
    · simp only [hdel, if_true]
      have hc := (refines_discard db h.coh).2
      refine ⟨hc, ?_, ?_, ?_, ?_, h.wf⟩
      · exact h.main
      · intro st hs; cases hs
      · intro st hs; cases hs
      · intro _ n; rfl
    · simp only [Bool.not_eq_true] at hdel
      simp only [hdel, Bool.false_eq_true, if_false]; exact h
  | discard =>
    have hc := (refines_discard db h.coh).2
    refine ⟨hc, ?_, ?_, ?_, ?_, h.wf⟩
    · exact h.main
    · intro st hs; cases hs
    · intro st hs; cases hs
    · intro _ n; rfl
  | complete =>
    have hc := (refines_complete db h.coh).2
    rcases h.coh.pend with hn | ⟨st, hs, hp⟩
    · -- nothing staged: complete fails, everything unchanged
      have : step db .complete = (db, some .noPending) :=
        complete_without_pending_errors db h.coh (staged_of_noPending hn)
      rw [this]; exact h
    · have hst := staged_of_hasPending hp
      have hm2 := markBatchComplete_pending hp hs.2.2.2.1
      have hstep : step db .complete =
          ({ db with accounts := over st.accts db.accounts, orders := over st.orders db.orders,
                     pendingId := none, pendingAccts := none, pendingOrders := none, pendingSnap := none,
                     snaps := db.snaps ++ [st.snap], index := upsert st.id (db.snaps.length + 1) db.index,
                     noRefs := db.noRefs ++ (keys st.orders).filter (fun k => (lookup k db.orders).isNone) },
           none) := by
        show commit db (markBatchCompleteTx db) = _
        rw [hm2]; rfl
      have hc' : Coh (step db .complete).1 := hc
      rw [hstep] at hc' ⊢
      refine ⟨hc', ?_, ?_, ?_, ?_, ?_⟩
      rotate_right
      · intro n o hl
        simp only [] at hl
        rw [lookup_over hs.2.2.2.2.2 n] at hl
        cases hls : lookup n st.orders with
        | none => rw [hls] at hl; exact h.wf n o hl
        | some so =>
          rw [hls] at hl; simp [pick] at hl; subst hl
          obtain ⟨_, _, _, g2, _⟩ := h.stagedIn st hst n so hls
          exact g2
      · intro n o0 h0
        obtain ⟨o, ho, h1, h2, h3⟩ := h.main n o0 h0
        simp only [gstep]
        rw [lookup_over hs.2.2.2.2.2 n]
        cases hl : lookup n st.orders with
        | none =>
          have hz := h.stagedOut st hst n hl
          exact ⟨o, by simp [pick, ho], by rw [hz]; exact h1, h2, h3⟩
        | some so =>
          obtain ⟨o', ho', g1, g2, g3⟩ := h.stagedIn st hst n so hl
          rw [ho] at ho'; injection ho' with ho'; subst ho'
          refine ⟨so, by simp [pick], ?_, g2, g3.trans h3⟩
          unfold two64 at *; omega
      · intro st' hs'; cases hs'
      · intro st' hs'; cases hs'
      · intro _ n; rfl
  | stage b =>
    have hm := hop b rfl
    cases hres : (step db (.stage b)).2 with
    | some e =>
      have hid : (step db (.stage b)).1 = db := by
        rcases step_stage_cases db b with ⟨e', he⟩ | ⟨a, ha⟩
        · rw [he]
        · rw [ha] at hres ⊢; exact fail_is_identity db (.stage a) e (fun _ _ _ _ => by simp) hres
      rw [hid]; exact h
    | none =>
      obtain ⟨o, hd, hst, hna, hno, hid, _, hpo, hev⟩ := stage_ok db b hm hres
      have hc : Coh (step db (.stage b)).1 := by
        rcases step_stage_cases db b with ⟨e', he⟩ | ⟨a, ha⟩
        · rw [he] at hres; cases hres
        · rw [ha]; exact (refines_stage db h.coh a).2
      have hstg : staged (step db (.stage b)).1 = some ⟨b.id, o.pa, o.po, o.snap⟩ := by rw [hd]; rfl
      have hord : (step db (.stage b)).1.orders = db.orders := by rw [hd]
      refine ⟨hc, ?_, ?_, ?_, ?_, by rw [hord]; exact h.wf⟩
      · intro n o0 h0; rw [hord]; exact h.main n o0 h0
      · intro st' hs' n so hl
        rw [hstg] at hs'; injection hs' with hs'; subst hs'
        simp only [] at hl
        rw [hpo n] at hl
        rw [hord]
        cases hmn : lookup n b.matched with
        | none => simp [hmn] at hl
        | some us =>
          cases hx : lookup n db.orders with
          | none => simp [hmn, hx] at hl
          | some x =>
            simp [hmn, hx] at hl; subst hl
            refine ⟨x, rfl, ?_, ?_, rfl⟩
            · simp only [gstep, unitsFor, hmn, filled]; exact remaining_add x.unfilled us
            · simp only [filled]; exact remaining_lt us (h.wf n x hx)
      · intro st' hs' n hl
        rw [hstg] at hs'; injection hs' with hs'; subst hs'
        simp only [] at hl
        rw [hpo n] at hl
        simp only [gstep, unitsFor]
        cases hmn : lookup n b.matched with
        | none => rfl
        | some us =>
          -- matched but not staged would mean the order is unknown: impossible after a successful call
          obtain ⟨x, hx, _⟩ := hev n us hmn
          simp [hmn, hx] at hl
      · intro hs'; rw [hstg] at hs'; cases hs'

/-- **A reconnect that finds the SAME txid finalised keeps the staged batch** – whatever the bytes of the
finalised transaction (it carries witnesses, the staged one does not): the comparison is on txids, so the database
is untouched and the later completion still updates the fill state (`C13_fill_exact`). -/
theorem C13_reconnect_same_txid_keeps (db : DB) (s : Snap) (hs : db.pendingSnap = some s) (rm : Bool) :
    step db (.reconnect (.finalized s.tx) rm) = (db, none) := by
  simp only [step, C06.step]
  rw [reconnect_db, hs]
  simp

/-- … and it never changes an order, whatever the auctioneer answers -/
theorem C13_reconnect_orders_untouched (db : DB) (rpc : Rpc) (rm : Bool) :
    (step db (.reconnect rpc rm)).1.orders = db.orders := by
  have := (C06_reconnect_never_applies db rpc rm).2
  simp only [vis, Visible.mk.injEq] at this
  exact this.2.1

theorem inv_grun {db0 db : DB} {g : Ghost} (h : Inv db0 db g) (ops : List Op)
    (hops : ∀ b, Op.stage b ∈ ops → (keys b.matched).Nodup) :
    Inv db0 (grun db g ops).1 (grun db g ops).2 := by
  induction ops generalizing db g with
  | nil => exact h
  | cons op ops ih =>
    simp only [grun]
    refine ih (inv_step h op ?_) (fun b hb => hops b (List.mem_cons_of_mem _ hb))
    intro b hb; subst hb; exact hops b List.mem_cons_self

/-- **Sequences of batches.**  From any coherent database with nothing staged, for EVERY history of
stage-through-`batchStorer` (succeeding or failing) / re-stage / discard / complete / reopen operations and every
order `n` present at the start: the order still exists with the same fixed terms (`Units`, `MinUnitsMatch`, type, node tier, TLV
extras – `Ord.fixed`), and

  final unfilled  ≡  initial unfilled − Σ (units of `n` in the COMPLETED batches)   (mod 2^64, Go's uint64),

an exact equality in ℕ whenever the completed units do not exceed the initial unfilled units (always the case
for batches that passed verification, C01).  Units of batches that were re-staged over or discarded do not
appear: `done` only grows at a successful `complete`, by the units of the batch staged last. -/
theorem C13_sequences (db0 : DB) (hc : Coh db0) (hn : NoPending db0)
    (hwf : ∀ n o, lookup n db0.orders = some o → o.unfilled < two64)
    (ops : List Op) (hops : ∀ b, Op.stage b ∈ ops → (keys b.matched).Nodup) :
    let r := grun db0 ⟨fun _ => 0, fun _ => 0⟩ ops
    ∀ n o0, lookup n db0.orders = some o0 → ∃ o, lookup n r.1.orders = some o ∧
      (o.unfilled + r.2.done n) % two64 = o0.unfilled % two64 ∧
      (r.2.done n ≤ o0.unfilled → o.unfilled = o0.unfilled - r.2.done n) ∧
      o.fixed = o0.fixed := by
  intro r n o0 h0
  have hinit : Inv db0 db0 ⟨fun _ => 0, fun _ => 0⟩ := by
    refine ⟨hc, fun n o0 h => ⟨o0, h, by simp, hwf n o0 h, rfl⟩, ?_, ?_, fun _ _ => rfl, hwf⟩
    · intro st hs; rw [staged_of_noPending hn] at hs; cases hs
    · intro st hs; rw [staged_of_noPending hn] at hs; cases hs
  obtain ⟨o, ho, h1, h2, h3⟩ := (inv_grun hinit ops hops).main n o0 h0
  refine ⟨o, ho, h1, ?_, h3⟩
  intro hle
  have hlt := hwf n o0 h0
  change (grun db0 ⟨fun _ => 0, fun _ => 0⟩ ops).2.done n ≤ o0.unfilled at hle
  change o.unfilled = o0.unfilled - (grun db0 ⟨fun _ => 0, fun _ => 0⟩ ops).2.done n
  generalize (grun db0 ⟨fun _ => 0, fun _ => 0⟩ ops).2.done n = d at *
  unfold two64 at *
  omega

/-- `grun` runs the same database as `run`; the ghost only observes -/
theorem grun_db (db : DB) (g : Ghost) (ops : List Op) : (grun db g ops).1 = run db ops := by
  induction ops generalizing db g with
  | nil => rfl
  | cons op ops ih => simp only [grun, run]; exact ih _ _

/-! ## non-vacuity -/

def exDb : DB := C06.run DB.init [.addAccount 1 C06.exAcct, .submitOrder 2 { state := 0, unfilled := 10, units := 10, minMatch := 3, isBid := true, tier := 1, extras := 6 }, .submitOrder 3 { state := 0, unfilled := 5, units := 5, minMatch := 1 }]

def exBatch (id : Nat) (us : List Nat) : Batch :=
  { id := id, tx := 3, feeOk := true, supportsExt := true, supportsTaproot := false, heightHint := 100,
    matched := [(2, us)], diffs := [⟨1, 0, 900, 1, 0, 0⟩] }

example : Coh exDb := (C06_histories _).2
example : NoPending exDb := ⟨by decide, by decide, by decide, by decide⟩
example : (keys (exBatch 1 [4, 4]).matched).Nodup := by decide
example : (step exDb (.stage (exBatch 1 [4, 4]))).2 = none := by decide
/-- 10 − (4+4) = 2 < min match 3: executed with 2 units left; the event records 8 filled units -/
example : let d := run exDb [.stage (exBatch 1 [4, 4]), .complete]
    lookup 2 d.orders = some { state := orderStateExecuted, unfilled := 2, units := 10, minMatch := 3, isBid := true, tier := 1, extras := 6 } ∧ lookup 3 d.orders = some { state := 0, unfilled := 5, units := 5, minMatch := 1 } ∧
    (2, Evt.updated 0 orderStateExecuted 8) ∈ d.events := by decide
/-- 10 − 7 = 3 = min match: partially filled -/
example : lookup 2 (run exDb [.stage (exBatch 1 [7]), .complete]).orders =
    some { state := orderStatePartiallyFilled, unfilled := 3, units := 10, minMatch := 3, isBid := true, tier := 1, extras := 6 } := by decide
/-- re-staged and discarded versions leave no trace in the fill state: only the completed 7 units count -/
def exHist : List Op :=
  [.stage (exBatch 1 [4, 4]), .stage (exBatch 2 [9]), .discard, .stage (exBatch 3 [1]), .stage (exBatch 4 [7]),
   .reopen, .complete, .complete]

example : lookup 2 (grun exDb ⟨fun _ => 0, fun _ => 0⟩ exHist).1.orders =
      some { state := orderStatePartiallyFilled, unfilled := 3, units := 10, minMatch := 3, isBid := true, tier := 1, extras := 6 } ∧
    (grun exDb ⟨fun _ => 0, fun _ => 0⟩ exHist).2.done 2 = 7 := by decide

/-! ## match splits and the excluded over-fill -/

/-- **C13 / the split is irrelevant**: how the matched units of one order are split over counterparty orders (and in
which order `MatchedOrders[nonce]` lists them) does not matter – the order after the batch depends on the total only.
No "no over-fill" hypothesis is needed: the uint64 subtraction chain is a function of the total modulo 2^64. -/
theorem C13_split_irrelevant (o : Ord) (us vs : List Nat) (hu : o.unfilled < two64) (h : us.sum = vs.sum) :
    filled o us = filled o vs := by
  have e : remaining o.unfilled us = remaining o.unfilled vs := by
    have a1 := remaining_add o.unfilled us
    have a2 := remaining_add o.unfilled vs
    have b1 := remaining_lt us hu
    have b2 := remaining_lt vs hu
    rw [h] at a1
    unfold two64 at *
    omega
  unfold filled; rw [e]

/-- **C13 / the excluded input**: `C13_fill_exact` assumes the batch does not over-fill the order (guaranteed by the
verifier, C01).  Outside that guard the real code wraps: the stored remainder is `unfilled + 2^64 − total`, a huge
number – stated here so that the guard is visibly necessary, not an artefact of the model. -/
theorem C13_overfill_wraps (u : Nat) (us : List Nat) (hu : u < two64) (hs : us.sum < two64) (h : u < us.sum) :
    remaining u us = u + two64 - us.sum := by
  have a := remaining_add u us
  have b := remaining_lt us hu
  unfold two64 at *
  omega

example : remaining 5 [3, 4] = two64 - 2 := by decide
example : filled { (default : Ord) with unfilled := 10, minMatch := 2 } [3, 4] =
          filled { (default : Ord) with unfilled := 10, minMatch := 2 } [7] := by decide

end Pool.C13
