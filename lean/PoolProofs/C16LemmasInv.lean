import PoolProofs.C16LemmasStep
/-! C16: the structural invariant of the two run loops (in-memory state vs persisted ticket state) and its
preservation by every transition; consequences: persisted state is monotone, terminal tickets have no running
negotiator, no panic is reachable. -/
namespace Pool.C16
open Pool.Gen.C16

def PSt (n : Nat) : Prop := n = 1 ∨ n = 2 ∨ n = 4 ∨ n = 5 ∨ n = 6
def RSt (n : Nat) : Prop := n = 2 ∨ n = 4 ∨ n = 5 ∨ n = 6

/-- provider: in-memory negotiator state vs persisted ticket state -/
def pRel (cur st : Nat) : Prop :=
  ((cur = 0 ∨ cur = 1) ∧ st = 1) ∨ ((cur = 2 ∨ cur = 3) ∧ st = 2) ∨ (cur = 4 ∧ st = 4) ∨
  (cur = 6 ∧ (st = 1 ∨ st = 2 ∨ st = 4))

/-- offered < registered < ordered < expecting < completed; canceled from every non-terminal state; terminal
states never change -/
def Mono (a b : Nat) : Prop :=
  (isTerminal a = true → b = a) ∧ (isTerminal a = false → a ≤ b ∨ b = sCanceled)

structure InvA (s : Sys) : Prop where
  np : s.panicked = false
  pst : PSt s.p.store.state
  pal : s.p.alive = true → (∃ l, s.p.loc = some l) ∧ pRel s.p.cur s.p.store.state
  rst : RSt s.r.store.state
  ral : s.r.alive = true → (∃ l, s.r.loc = some l) ∧ (s.r.store.state = 2 ∨ s.r.store.state = 4)

theorem Mono_refl (a : Nat) : Mono a a := ⟨fun _ => rfl, fun _ => Or.inl (Nat.le_refl a)⟩

@[simp] theorem takePkt_loc (x : Party) : (takePkt x).loc = x.loc := by unfold takePkt; split <;> rfl
@[simp] theorem takePkt_cur (x : Party) : (takePkt x).cur = x.cur := by unfold takePkt; split <;> rfl
@[simp] theorem takePkt_store (x : Party) : (takePkt x).store = x.store := by unfold takePkt; split <;> rfl
@[simp] theorem takePkt_alive (x : Party) : (takePkt x).alive = x.alive := by unfold takePkt; split <;> rfl
@[simp] theorem takePkt_quit (x : Party) : (takePkt x).quit = x.quit := by unfold takePkt; split <;> rfl
@[simp] theorem takePkt_finPend (x : Party) : (takePkt x).finPend = x.finPend := by
  unfold takePkt; split <;> rfl

theorem term_iff (n : Nat) : isTerminal n = true ↔ (n = 5 ∨ n = 6) := by
  simp [isTerminal, terminalStates]

theorem stepA_procP (s s' : Sys) (h : InvA s) (ha : applyG true s (.proc true) = some s') :
    InvA s' ∧ Mono s.p.store.state s'.p.store.state ∧ Mono s.r.store.state s'.r.store.state := by
  obtain ⟨hnp, hpst, hpal, hrst, hral⟩ := h
  simp only [applyG, getParty, if_true, hnp] at ha
  by_cases hal : s.p.alive = true
  · obtain ⟨⟨l, hl⟩, hrel⟩ := hpal hal
    simp only [hal, Bool.not_true, Bool.or_false, Bool.false_eq_true, if_false] at ha
    cases hn : nextPkt s.p with
    | none => simp [hn] at ha
    | some pkt =>
      simp only [hn] at ha
      unfold procStep at ha
      simp only [if_true, takePkt_loc, takePkt_cur, hl] at ha
      have ho := stepProvider_POut s s.p.cur pkt l
      generalize stepProvider (envP s) s.p.cur (some pkt) (some l) = o at ho ha
      unfold pRel at hrel
      cases ho <;> simp [setParty, applyEffs, applyEff, getParty] at ha <;> subst ha <;>
        refine ⟨⟨?_, ?_, ?_, ?_, ?_⟩, ?_, ?_⟩ <;>
        simp_all [PSt, RSt, pRel, Mono, term_iff, sCanceled, sExpecting, sOrdered, sRegistered, sOffered] <;>
        omega
  · simp [hal] at ha

theorem stepA_procR (s s' : Sys) (h : InvA s) (ha : applyG true s (.proc false) = some s') :
    InvA s' ∧ Mono s.p.store.state s'.p.store.state ∧ Mono s.r.store.state s'.r.store.state := by
  obtain ⟨hnp, hpst, hpal, hrst, hral⟩ := h
  simp only [applyG, getParty, Bool.false_eq_true, if_false, hnp] at ha
  by_cases hal : s.r.alive = true
  · obtain ⟨⟨l, hl⟩, hrel⟩ := hral hal
    simp only [hal, Bool.not_true, Bool.or_false, Bool.false_eq_true, if_false] at ha
    cases hn : nextPkt s.r with
    | none => simp [hn] at ha
    | some pkt =>
      simp only [hn] at ha
      unfold procStep at ha
      simp only [Bool.false_eq_true, if_false, takePkt_loc, takePkt_cur, hl] at ha
      have ho := stepRecipient_ROut s s.r.cur l pkt
      generalize stepRecipient (envR s) s.r.cur (some l) (some pkt) = o at ho ha
      cases ho
      case expectOk p' _ _ _ hde =>
        have := driverExpect_ok _ _ _ hde
        simp [setParty, applyEffs, applyEff, getParty] at ha; subst ha
        refine ⟨⟨?_, ?_, ?_, ?_, ?_⟩, ?_, ?_⟩ <;>
          simp_all [PSt, RSt, Mono, term_iff, sCanceled, sExpecting] <;> omega
      case reexpOk p' _ _ _ hde =>
        have := driverExpect_ok _ _ _ hde
        simp [setParty, applyEffs, applyEff, getParty] at ha; subst ha
        refine ⟨⟨?_, ?_, ?_, ?_, ?_⟩, ?_, ?_⟩ <;>
          simp_all [PSt, RSt, Mono, term_iff, sCanceled, sExpecting] <;> omega
      all_goals
        simp [setParty, applyEffs, applyEff, getParty] at ha <;> subst ha <;>
        refine ⟨⟨?_, ?_, ?_, ?_, ?_⟩, ?_, ?_⟩ <;>
        simp_all [PSt, RSt, Mono, term_iff, sCanceled, sExpecting]
  · simp [hal] at ha

/-- a (re)start re-establishes the loop invariant of the restarted side from its persisted ticket alone -/
theorem restartA (s : Sys) (prov : Bool) (hnp : s.panicked = false) (hpst : PSt s.p.store.state)
    (hrst : RSt s.r.store.state)
    (hother : if prov then (s.r.alive = true → (∃ l, s.r.loc = some l) ∧ (s.r.store.state = 2 ∨ s.r.store.state = 4))
      else (s.p.alive = true → (∃ l, s.p.loc = some l) ∧ pRel s.p.cur s.p.store.state)) :
    InvA (restart prov s) ∧ (restart prov s).p.store = s.p.store ∧ (restart prov s).r.store = s.r.store := by
  cases prov
  · simp only [Bool.false_eq_true, if_false] at hother
    unfold restart restartParty
    by_cases ht : isTerminal s.r.store.state = true
    · simp [ht, setParty, getParty]
      exact ⟨hnp, hpst, hother, hrst, by simp⟩
    · simp [ht, setParty, getParty]
      refine ⟨hnp, hpst, hother, hrst, ?_⟩
      simp [term_iff] at ht
      unfold RSt at hrst
      simp; omega
  · simp only [if_true] at hother
    unfold restart restartParty
    by_cases ht : isTerminal s.p.store.state = true
    · simp [ht, setParty, getParty]
      exact ⟨hnp, hpst, by simp, hrst, hother⟩
    · simp [ht, setParty, getParty]
      refine ⟨hnp, hpst, ?_, hrst, hother⟩
      simp [term_iff] at ht
      unfold PSt at hpst
      simp [resumeState, resumeRemap, pRel]
      rcases hpst with h | h | h | h | h <;> simp [h] at ht ⊢


theorem procStep_effs_P (s : Sys) (x : Party) (pkt : Ticket) :
    (procStep s true x pkt).2 = (stepProvider (envP s) x.cur (some pkt) x.loc).effs := by
  unfold procStep; simp only [if_true]; split <;> rfl

theorem procStep_effs_R (s : Sys) (x : Party) (pkt : Ticket) :
    (procStep s false x pkt).2 = (stepRecipient (envR s) x.cur x.loc (some pkt)).effs := by
  unfold procStep; simp only [Bool.false_eq_true, if_false]; split <;> rfl

theorem stepA_crashP (s s' : Sys) (k : Nat) (h : InvA s) (ha : applyG true s (.procCrash true k) = some s') :
    InvA s' ∧ Mono s.p.store.state s'.p.store.state ∧ Mono s.r.store.state s'.r.store.state := by
  obtain ⟨hnp, hpst, hpal, hrst, hral⟩ := h
  simp only [applyG, getParty, if_true, hnp] at ha
  by_cases hal : s.p.alive = true
  · obtain ⟨⟨l, hl⟩, hrel⟩ := hpal hal
    simp only [hal, Bool.not_true, Bool.or_false, Bool.false_eq_true, if_false] at ha
    cases hn : nextPkt s.p with
    | none => simp [hn] at ha
    | some pkt =>
      simp only [hn] at ha
      have he := procStep_effs_P s (takePkt s.p) pkt
      simp only [takePkt_loc, takePkt_cur, hl] at he
      have ho := stepProvider_POut s s.p.cur pkt l
      generalize stepProvider (envP s) s.p.cur (some pkt) (some l) = o at ho he
      cases hps : procStep s true (takePkt s.p) pkt with
      | mk x1 es =>
        rw [hps] at he ha
        simp only at he ha
        subst he
        split at ha
        · simp at ha
          subst ha
          unfold pRel at hrel
          have key : (applyEffs true s (o.effs.take k)).panicked = false ∧
              PSt (applyEffs true s (o.effs.take k)).p.store.state ∧
              (applyEffs true s (o.effs.take k)).r = s.r ∧
              Mono s.p.store.state (applyEffs true s (o.effs.take k)).p.store.state := by
            cases ho <;> rcases k with _ | _ | k <;>
              simp_all [applyEffs, applyEff, setParty, getParty, PSt, Mono, term_iff, sCanceled, sExpecting,
                sOrdered] <;> omega
          obtain ⟨k1, k2, k3, k4⟩ := key
          have hr' := restartA (applyEffs true s (o.effs.take k)) true k1 k2 (by rw [k3]; exact hrst)
            (by simp only [if_true]; rw [k3]; exact hral)
          refine ⟨hr'.1, ?_, ?_⟩
          · rw [hr'.2.1]; exact k4
          · rw [hr'.2.2, k3]; exact Mono_refl _
        · simp at ha
  · simp [hal] at ha

theorem stepA_crashR (s s' : Sys) (k : Nat) (h : InvA s) (ha : applyG true s (.procCrash false k) = some s') :
    InvA s' ∧ Mono s.p.store.state s'.p.store.state ∧ Mono s.r.store.state s'.r.store.state := by
  obtain ⟨hnp, hpst, hpal, hrst, hral⟩ := h
  simp only [applyG, getParty, Bool.false_eq_true, if_false, hnp] at ha
  by_cases hal : s.r.alive = true
  · obtain ⟨⟨l, hl⟩, hrel⟩ := hral hal
    simp only [hal, Bool.not_true, Bool.or_false, Bool.false_eq_true, if_false] at ha
    cases hn : nextPkt s.r with
    | none => simp [hn] at ha
    | some pkt =>
      simp only [hn] at ha
      have he := procStep_effs_R s (takePkt s.r) pkt
      simp only [takePkt_loc, takePkt_cur, hl] at he
      have ho := stepRecipient_ROut s s.r.cur l pkt
      generalize stepRecipient (envR s) s.r.cur (some l) (some pkt) = o at ho he
      cases hps : procStep s false (takePkt s.r) pkt with
      | mk x1 es =>
        rw [hps] at he ha
        simp only at he ha
        subst he
        split at ha
        · simp at ha
          subst ha
          have key : (applyEffs false s (o.effs.take k)).panicked = false ∧
              RSt (applyEffs false s (o.effs.take k)).r.store.state ∧
              (applyEffs false s (o.effs.take k)).p = s.p ∧
              Mono s.r.store.state (applyEffs false s (o.effs.take k)).r.store.state := by
            cases ho
            all_goals (try (have hx := driverExpect_ok _ _ _ (by assumption)))
            all_goals
              rcases k with _ | _ | _ | k <;>
                simp_all [applyEffs, applyEff, setParty, getParty, RSt, Mono, term_iff, sCanceled, sExpecting] <;>
                (try omega)
          obtain ⟨k1, k2, k3, k4⟩ := key
          have hr' := restartA (applyEffs false s (o.effs.take k)) false k1 (by rw [k3]; exact hpst) k2
            (by simp only [Bool.false_eq_true, if_false]; rw [k3]; exact hpal)
          refine ⟨hr'.1, ?_, ?_⟩
          · rw [hr'.2.1, k3]; exact Mono_refl _
          · rw [hr'.2.2]; exact k4
        · simp at ha
  · simp [hal] at ha


/-- the finalization branch (repaired rule) applied to the system: own side dead, its store = local ticket in the
final state, other side untouched -/
theorem finApplied (s : Sys) (prov : Bool) (l : Ticket) (st : Nat) (o : Bool)
    (hl : (getParty s prov).loc = some l) :
    ∃ x' es, finStep true prov (getParty s prov) st o = (some x', es) ∧
      (applyEffs prov (setParty s prov x') es).panicked = s.panicked ∧
      (getParty (applyEffs prov (setParty s prov x') es) prov).alive = false ∧
      (getParty (applyEffs prov (setParty s prov x') es) prov).store = { l with state := st } ∧
      getParty (applyEffs prov (setParty s prov x') es) (!prov) = getParty s (!prov) := by
  unfold finStep
  simp only [hl]
  refine ⟨_, _, rfl, ?_⟩
  cases prov <;>
    cases (!o && st == sCanceled && (!false || decide (sRegistered ≤ (getParty s false).cur))) <;>
    cases (!o && st == sCanceled && (!true || decide (sRegistered ≤ (getParty s true).cur))) <;>
    simp [applyEffs, applyEff, setParty, getParty]

theorem InvA_of_parts (s' : Sys) (hnp : s'.panicked = false) (hpst : PSt s'.p.store.state)
    (hpal : s'.p.alive = true → (∃ l, s'.p.loc = some l) ∧ pRel s'.p.cur s'.p.store.state)
    (hrst : RSt s'.r.store.state)
    (hral : s'.r.alive = true → (∃ l, s'.r.loc = some l) ∧ (s'.r.store.state = 2 ∨ s'.r.store.state = 4)) :
    InvA s' := ⟨hnp, hpst, hpal, hrst, hral⟩

/-- the state after a finalization of side `prov` with final state `st ∈ {completed, canceled}` -/
theorem finA (s s1 : Sys) (prov : Bool) (l : Ticket) (st : Nat) (h : InvA s)
    (hst : st = 5 ∨ st = 6) (hal : (getParty s prov).alive = true)
    (hnp : s1.panicked = s.panicked) (hdead : (getParty s1 prov).alive = false)
    (hstore : (getParty s1 prov).store = { l with state := st })
    (hoth : getParty s1 (!prov) = getParty s (!prov)) :
    InvA s1 ∧ Mono s.p.store.state s1.p.store.state ∧ Mono s.r.store.state s1.r.store.state := by
  obtain ⟨hnp0, hpst, hpal, hrst, hral⟩ := h
  cases prov
  · simp only [getParty, Bool.false_eq_true, if_false, Bool.not_false, if_true] at hal hdead hstore hoth
    obtain ⟨_, hrs⟩ := hral hal
    refine ⟨⟨by rw [hnp]; exact hnp0, by rw [hoth]; exact hpst, by rw [hoth]; exact hpal, ?_, by simp [hdead]⟩,
      by rw [hoth]; exact Mono_refl _, ?_⟩
    · rw [hstore]; unfold RSt; simp; omega
    · rw [hstore]; unfold Mono; simp [term_iff, sCanceled]; omega
  · simp only [getParty, if_true, Bool.not_true, Bool.false_eq_true, if_false] at hal hdead hstore hoth
    obtain ⟨_, hrs⟩ := hpal hal
    unfold pRel at hrs
    refine ⟨⟨by rw [hnp]; exact hnp0, ?_, by simp [hdead], by rw [hoth]; exact hrst, by rw [hoth]; exact hral⟩,
      ?_, by rw [hoth]; exact Mono_refl _⟩
    · rw [hstore]; unfold PSt; simp; omega
    · rw [hstore]; unfold Mono; simp [term_iff, sCanceled]; omega


theorem term_false_iff (n : Nat) : isTerminal n = false ↔ ¬(n = 5 ∨ n = 6) := by
  simp [isTerminal, terminalStates]

theorem Mono_iff (a b : Nat) :
    Mono a b ↔ ((a = 5 ∨ a = 6) → b = a) ∧ (¬(a = 5 ∨ a = 6) → a ≤ b ∨ b = 6) := by
  unfold Mono; rw [term_iff, term_false_iff]

theorem Mono_trans (a b c : Nat) (h1 : Mono a b) (h2 : Mono b c) : Mono a c := by
  rw [Mono_iff] at *
  omega

/-- a store write of a final state by the RPC server on a side whose negotiator is not running -/
theorem writeA (s1 : Sys) (prov : Bool) (t : Ticket) (st : Nat) (hst : st = 5 ∨ st = 6) (h : InvA s1)
    (hdead : (getParty s1 prov).alive = false) (hm : Mono (getParty s1 prov).store.state st) :
    InvA (setParty s1 prov { getParty s1 prov with store := { t with state := st } }) ∧
    Mono s1.p.store.state (setParty s1 prov { getParty s1 prov with store := { t with state := st } }).p.store.state ∧
    Mono s1.r.store.state (setParty s1 prov { getParty s1 prov with store := { t with state := st } }).r.store.state := by
  obtain ⟨hnp0, hpst, hpal, hrst, hral⟩ := h
  cases prov
  · simp only [getParty, setParty, Bool.false_eq_true, if_false] at hdead hm ⊢
    refine ⟨⟨hnp0, hpst, hpal, ?_, by simp [hdead]⟩, Mono_refl _, hm⟩
    unfold RSt; simp; omega
  · simp only [getParty, setParty, if_true] at hdead hm ⊢
    refine ⟨⟨hnp0, ?_, by simp [hdead], hrst, hral⟩, hm, Mono_refl _⟩
    unfold PSt; simp; omega

theorem getParty_store_state (s : Sys) (prov : Bool) :
    (getParty s prov).store.state = if prov then s.p.store.state else s.r.store.state := by
  cases prov <;> rfl

theorem stepA_fin (s s' : Sys) (prov : Bool) (h : InvA s) (ha : applyG true s (.fin prov) = some s') :
    InvA s' ∧ Mono s.p.store.state s'.p.store.state ∧ Mono s.r.store.state s'.r.store.state := by
  simp only [applyG] at ha
  split at ha
  · simp at ha
  · rename_i hc
    have hal : (getParty s prov).alive = true := by
      cases hx : (getParty s prov).alive <;> simp [hx] at hc ⊢
    have hl : ∃ l, (getParty s prov).loc = some l := by
      cases prov
      · exact (h.ral hal).1
      · exact (h.pal hal).1
    obtain ⟨l, hl⟩ := hl
    obtain ⟨x', es, he, k1, k2, k3, k4⟩ := finApplied s prov l sCanceled true hl
    rw [he] at ha
    simp at ha; subst ha
    exact finA s _ prov l sCanceled h (Or.inr rfl) hal k1 k2 k3 k4

theorem stepA_finalize (s s' : Sys) (prov : Bool) (st : Nat) (h : InvA s)
    (ha : applyG true s (.finalize prov st) = some s') :
    InvA s' ∧ Mono s.p.store.state s'.p.store.state ∧ Mono s.r.store.state s'.r.store.state := by
  simp only [applyG] at ha
  split at ha
  · simp at ha
  · rename_i hc
    have hal : (getParty s prov).alive = true := by
      cases hx : (getParty s prov).alive <;> simp [hx] at hc ⊢
    have hst : st = 5 ∨ st = 6 := by
      simp [sCompleted, sCanceled] at hc
      have := hc.2
      omega
    have hl : ∃ l, (getParty s prov).loc = some l := by
      cases prov
      · exact (h.ral hal).1
      · exact (h.pal hal).1
    obtain ⟨l, hl⟩ := hl
    obtain ⟨x', es, he, k1, k2, k3, k4⟩ := finApplied s prov l st false hl
    rw [he] at ha
    simp at ha; subst ha
    exact finA s _ prov l st h hst hal k1 k2 k3 k4


theorem stepA_cancelRPC (s s' : Sys) (prov : Bool) (h : InvA s)
    (ha : applyG true s (.cancelRPC prov) = some s') :
    InvA s' ∧ Mono s.p.store.state s'.p.store.state ∧ Mono s.r.store.state s'.r.store.state := by
  simp only [applyG] at ha
  split at ha
  · simp at ha
  rename_i hc
  split at ha
  · simp at ha
  split at ha
  · simp at ha
  have hnt : isTerminal (getParty s prov).store.state = false := by
    cases hx : isTerminal (getParty s prov).store.state <;> simp [hx] at hc ⊢
  split at ha
  · rename_i hal
    have hl : ∃ l, (getParty s prov).loc = some l := by
      cases prov
      · exact (h.ral hal).1
      · exact (h.pal hal).1
    obtain ⟨l, hl⟩ := hl
    obtain ⟨x', es, he, k1, k2, k3, k4⟩ := finApplied s prov l sCanceled false hl
    rw [he] at ha
    simp at ha; subst ha
    have hA := finA s _ prov l sCanceled h (Or.inr rfl) hal k1 k2 k3 k4
    have hm : Mono (getParty (applyEffs prov (setParty s prov x') es) prov).store.state sCanceled := by
      rw [k3]; exact Mono_refl _
    have hW := writeA _ prov (getParty s prov).store sCanceled (Or.inr rfl) hA.1 k2 hm
    exact ⟨hW.1, Mono_trans _ _ _ hA.2.1 hW.2.1, Mono_trans _ _ _ hA.2.2 hW.2.2⟩
  · rename_i hal
    simp at ha; subst ha
    have hdead : (getParty s prov).alive = false := by simpa using hal
    have hm : Mono (getParty s prov).store.state sCanceled := by
      rw [Mono_iff]; rw [term_false_iff] at hnt; simp [sCanceled]; omega
    exact writeA s prov (getParty s prov).store sCanceled (Or.inr rfl) h hdead hm

theorem stepA_completeRPC (s s' : Sys) (prov : Bool) (h : InvA s)
    (ha : applyG true s (.completeRPC prov) = some s') :
    InvA s' ∧ Mono s.p.store.state s'.p.store.state ∧ Mono s.r.store.state s'.r.store.state := by
  simp only [applyG] at ha
  split at ha
  · simp at ha
  rename_i hc
  split at ha
  · simp at ha
  split at ha
  · simp at ha
  have hnt : isTerminal (getParty s prov).store.state = false := by
    cases hx : isTerminal (getParty s prov).store.state <;> simp [hx] at hc ⊢
  split at ha
  · rename_i hal
    have hl : ∃ l, (getParty s prov).loc = some l := by
      cases prov
      · exact (h.ral hal).1
      · exact (h.pal hal).1
    obtain ⟨l, hl⟩ := hl
    obtain ⟨x', es, he, k1, k2, k3, k4⟩ := finApplied s prov l sCompleted false hl
    rw [he] at ha
    simp at ha; subst ha
    exact finA s _ prov l sCompleted h (Or.inl rfl) hal k1 k2 k3 k4
  · rename_i hal
    simp at ha; subst ha
    have hdead : (getParty s prov).alive = false := by simpa using hal
    have hm : Mono (getParty s prov).store.state sCompleted := by
      rw [Mono_iff]; rw [term_false_iff] at hnt
      have hp := h.pst; have hr := h.rst
      unfold PSt at hp; unfold RSt at hr
      cases prov <;> simp [getParty, sCompleted] at hnt ⊢ <;> omega
    exact writeA s prov (getParty s prov).store sCompleted (Or.inl rfl) h hdead hm

/-- transitions that only touch mailbox buffers / flags of one side -/
theorem InvA_setParty_same (s : Sys) (prov : Bool) (x : Party) (h : InvA s)
    (hst : x.store = (getParty s prov).store) (hcur : x.cur = (getParty s prov).cur)
    (hloc : x.loc = (getParty s prov).loc) (hal : x.alive = true → (getParty s prov).alive = true) :
    InvA (setParty s prov x) ∧ Mono s.p.store.state (setParty s prov x).p.store.state ∧
      Mono s.r.store.state (setParty s prov x).r.store.state := by
  obtain ⟨hnp0, hpst, hpal, hrst, hral⟩ := h
  cases prov
  · simp only [getParty, Bool.false_eq_true, if_false] at hst hcur hloc hal
    simp only [setParty, Bool.false_eq_true, if_false]
    refine ⟨⟨hnp0, hpst, hpal, by rw [hst]; exact hrst, ?_⟩, Mono_refl _, by rw [hst]; exact Mono_refl _⟩
    intro ha; rw [hst, hloc]; exact hral (hal ha)
  · simp only [getParty, if_true] at hst hcur hloc hal
    simp only [setParty, if_true]
    refine ⟨⟨hnp0, by rw [hst]; exact hpst, ?_, hrst, hral⟩, by rw [hst]; exact Mono_refl _, Mono_refl _⟩
    intro ha; rw [hst, hloc, hcur]; exact hpal (hal ha)

/-- every transition of the repaired loops preserves the structural invariant and never moves a persisted ticket
state backwards -/
theorem stepA (s s' : Sys) (a : Act) (h : InvA s) (ha : applyG true s a = some s') :
    InvA s' ∧ Mono s.p.store.state s'.p.store.state ∧ Mono s.r.store.state s'.r.store.state := by
  cases a with
  | deliver tp i =>
    simp only [applyG] at ha
    split at ha
    · simp at ha
    · split at ha
      · simp at ha; subst ha
        exact InvA_setParty_same s tp _ h rfl rfl rfl (fun x => x)
      · simp at ha
  | proc prov => cases prov; exact stepA_procR s s' h ha; exact stepA_procP s s' h ha
  | procCrash prov k => cases prov; exact stepA_crashR s s' k h ha; exact stepA_crashP s s' k h ha
  | fin prov => exact stepA_fin s s' prov h ha
  | finalize prov st => exact stepA_finalize s s' prov st h ha
  | stop prov =>
    simp only [applyG] at ha; simp at ha; subst ha
    exact InvA_setParty_same s prov _ h rfl rfl rfl (fun x => x)
  | quit prov =>
    simp only [applyG] at ha
    split at ha
    · simp at ha; subst ha
      exact InvA_setParty_same s prov _ h rfl rfl rfl (by simp)
    · simp at ha
  | restart prov =>
    simp only [applyG] at ha; simp at ha; subst ha
    have := restartA s prov h.np h.pst h.rst (by
      cases prov
      · simpa using h.pal
      · simpa using h.ral)
    exact ⟨this.1, by rw [this.2.1]; exact Mono_refl _, by rw [this.2.2]; exact Mono_refl _⟩
  | recvErr prov =>
    simp only [applyG] at ha
    split at ha
    · simp at ha; subst ha
      exact ⟨⟨h.np, h.pst, h.pal, h.rst, h.ral⟩, Mono_refl _, Mono_refl _⟩
    · simp at ha
  | cancelRPC prov => exact stepA_cancelRPC s s' prov h ha
  | completeRPC prov => exact stepA_completeRPC s s' prov h ha

theorem InvA_init : InvA init := by
  refine ⟨rfl, ?_, ?_, ?_, ?_⟩ <;> simp [init, PSt, RSt, pRel, tOffered, tRegistered]

theorem runA (as : List Act) : ∀ s s', InvA s → runG true s as = some s' → InvA s' := by
  induction as with
  | nil => intro s s' hi h; simp [runG] at h; subst h; exact hi
  | cons a rest ih =>
    intro s s' hi h
    simp only [runG] at h
    split at h
    · simp at h
    · rename_i s1 h1
      exact ih s1 s' (stepA s s1 a hi h1).1 h

theorem reachable_InvA (s : Sys) (h : Reachable s) : InvA s := by
  obtain ⟨as, has⟩ := h
  unfold run at has
  rw [finReturns_true] at has
  exact runA as init s InvA_init has

end Pool.C16
