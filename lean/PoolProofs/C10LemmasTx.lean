import PoolProofs.C10Lemmas
/-! C10 – the transaction codec: `readTx` inverts `encTx` on every well-formed transaction. -/
namespace Pool.C10

/-! ### var-int -/

theorem readLE_one_cons (b : UInt8) (rest : Bytes) : readLE 1 (b :: rest) = .ok b.toNat rest := by
  simp [readLE, take, leDec]

theorem readVarInt_enc (v : Nat) (rest : Bytes) (h : v < 2 ^ 64) :
    readVarInt (encVarInt v ++ rest) = .ok v rest := by
  unfold encVarInt readVarInt
  by_cases h1 : v < 0xfd
  · have hm : v % 2 ^ 8 = v := Nat.mod_eq_of_lt (by omega)
    simp only [if_pos h1, List.singleton_append, bind_apply, readLE_one_cons, UInt8.toNat_ofNat', hm]
    have a1 : ¬ v = 0xff := by omega
    have a2 : ¬ v = 0xfe := by omega
    have a3 : ¬ v = 0xfd := by omega
    simp only [if_neg a1, if_neg a2, if_neg a3, pure_apply]
  · rw [if_neg h1]
    by_cases h2 : v ≤ 0xffff
    · have a : ¬ v < 0xfd := h1
      simp [if_pos h2, readLE_one_cons, readLE_enc 2 v rest (by omega), a]
    · rw [if_neg h2]
      by_cases h3 : v ≤ 0xffffffff
      · have a : ¬ v < 0x10000 := by omega
        simp [if_pos h3, readLE_one_cons, readLE_enc 4 v rest (by omega), a]
      · have a : ¬ v < 0x100000000 := by omega
        simp [if_neg h3, readLE_one_cons, readLE_enc 8 v rest (by omega), a]

theorem readScript_enc (b rest : Bytes) (slab : Nat) (h1 : b.length ≤ maxWitnessItemSize)
    (h2 : b.length ≤ slab) :
    readScript slab (encVarBytes b ++ rest) = .ok (b, slab - b.length) rest := by
  unfold readScript encVarBytes
  have hv : b.length < 2 ^ 64 := by unfold maxWitnessItemSize at h1; omega
  have a1 : ¬ b.length > maxWitnessItemSize := by omega
  have a2 : ¬ b.length > slab := by omega
  simp only [List.append_assoc, bind_apply, readVarInt_enc _ _ hv, if_neg a1, if_neg a2,
    take_append b rest _ rfl, pure_apply]

/-! ### repeated decoding with a budget -/

/-- `repeatDec` over the concatenated encodings of `l`: each item costs `cost a` of the budget. -/
theorem repeatDec_enc {α β : Type} (d : Nat → Dec (β × Nat)) (enc : α → Bytes) (f : α → β)
    (cost : α → Nat) (P : α → Prop)
    (hd : ∀ a s rest, P a → cost a ≤ s → d s (enc a ++ rest) = .ok (f a, s - cost a) rest)
    (l : List α) (s : Nat) (rest : Bytes) (hP : ∀ a ∈ l, P a) (hs : (l.map cost).sum ≤ s) :
    repeatDec d l.length s ((l.map enc).flatten ++ rest) =
      .ok (l.map f, s - (l.map cost).sum) rest := by
  induction l generalizing s with
  | nil => simp [repeatDec]
  | cons a l ih =>
    simp only [List.map_cons, List.sum_cons] at hs
    have hPa : P a := hP a (by simp)
    have hPl : ∀ x ∈ l, P x := fun x hx => hP x (by simp [hx])
    simp only [List.length_cons, repeatDec, List.map_cons, List.flatten_cons, List.append_assoc,
      bind_apply, hd a s _ hPa (by omega), ih (s - cost a) hPl (by omega), pure_apply, List.sum_cons]
    congr 2
    omega

/-! ### inputs, outputs, witnesses -/

def TxIn.noWit (ti : TxIn) : TxIn := { ti with witness := [] }

theorem readTxIn_enc (ti : TxIn) (slab : Nat) (rest : Bytes) (h : ti.WF)
    (hs : ti.sigScript.length ≤ slab) :
    readTxIn slab (encTxIn ti ++ rest) = .ok (ti.noWit, slab - ti.sigScript.length) rest := by
  obtain ⟨hh, hi, hq, hsl, -, -⟩ := h
  unfold WFu32 at hi hq
  unfold readTxIn encTxIn
  simp only [List.append_assoc, bind_apply, take_append _ _ 32 hh,
    readLE_enc 4 _ _ (show ti.prevIndex < 256 ^ 4 by omega),
    readLE_enc 4 _ _ (show ti.sequence < 256 ^ 4 by omega),
    readScript_enc _ _ _ hsl hs, pure_apply]
  rfl

theorem readTxOut_enc (o : TxOut) (slab : Nat) (rest : Bytes) (h : o.WF)
    (hs : o.pkScript.length ≤ slab) :
    readTxOut slab (encTxOut o ++ rest) = .ok (o, slab - o.pkScript.length) rest := by
  obtain ⟨hv, hsl⟩ := h
  unfold WFu64 at hv
  unfold readTxOut encTxOut
  simp only [List.append_assoc, bind_apply,
    readLE_enc 8 _ _ (show o.value < 256 ^ 8 by omega),
    readScript_enc _ _ _ hsl hs, pure_apply]

theorem readWitness_enc (w : List Bytes) (slab : Nat) (rest : Bytes)
    (hn : w.length ≤ maxWitnessItemsPerInput) (hw : ∀ b ∈ w, b.length ≤ maxWitnessItemSize)
    (hs : (w.map List.length).sum ≤ slab) :
    readWitness slab (encWitness w ++ rest) = .ok (w, slab - (w.map List.length).sum) rest := by
  unfold readWitness encWitness
  have hv : w.length < 2 ^ 64 := by unfold maxWitnessItemsPerInput at hn; omega
  have a1 : ¬ w.length > maxWitnessItemsPerInput := by omega
  have := repeatDec_enc readScript encVarBytes id List.length (fun b => b.length ≤ maxWitnessItemSize)
    (fun a s rest h1 h2 => readScript_enc a rest s h1 h2) w slab rest hw hs
  simp only [List.map_id] at this
  simp only [List.append_assoc, bind_apply, readVarInt_enc _ _ hv, if_neg a1, this]

def TxIn.witBytes (ti : TxIn) : Nat := (ti.witness.map List.length).sum

theorem readWitnesses_enc (ins : List TxIn) (slab : Nat) (rest : Bytes) (h : ∀ ti ∈ ins, ti.WF)
    (hs : (ins.map TxIn.witBytes).sum ≤ slab) :
    readWitnesses (ins.map TxIn.noWit) slab
        ((ins.map fun ti => encWitness ti.witness).flatten ++ rest) =
      .ok (ins, slab - (ins.map TxIn.witBytes).sum) rest := by
  induction ins generalizing slab with
  | nil => simp [readWitnesses]
  | cons ti l ih =>
    simp only [List.map_cons, List.sum_cons] at hs
    obtain ⟨-, -, -, -, hn, hw⟩ := h ti (by simp)
    have hl : ∀ x ∈ l, x.WF := fun x hx => h x (by simp [hx])
    have hti : ti.witBytes = (ti.witness.map List.length).sum := rfl
    have hs1 : (ti.witness.map List.length).sum ≤ slab := by omega
    have hs2 : (l.map TxIn.witBytes).sum ≤ slab - (ti.witness.map List.length).sum := by omega
    simp only [List.map_cons, readWitnesses, List.flatten_cons, List.append_assoc, bind_apply,
      readWitness_enc _ _ _ hn hw hs1, ih _ hl hs2, pure_apply, List.sum_cons]
    congr 2
    omega

/-! ### the transaction -/

theorem scriptBytes_split (ins : List TxIn) :
    (ins.map TxIn.scriptBytes).sum =
      (ins.map fun ti => ti.sigScript.length).sum + (ins.map TxIn.witBytes).sum := by
  induction ins with
  | nil => rfl
  | cons ti l ih =>
    simp only [List.map_cons, List.sum_cons, ih, TxIn.scriptBytes, TxIn.witBytes]
    omega

theorem map_noWit_of_no_witness (ins : List TxIn)
    (h : (ins.any fun ti => !ti.witness.isEmpty) = false) : ins.map TxIn.noWit = ins := by
  induction ins with
  | nil => rfl
  | cons ti l ih =>
    simp only [List.any_cons, Bool.or_eq_false_iff] at h
    rw [List.map_cons, ih h.2]
    congr 1
    have : ti.witness = [] := by
      have := h.1
      cases hw : ti.witness with
      | nil => rfl
      | cons a b => simp [hw] at this
    cases ti
    simp only [TxIn.noWit] at *
    simp [this]

theorem readTx_enc (t : Tx) (rest : Bytes) (h : t.WF) : readTx (encTx t ++ rest) = .ok t rest := by
  obtain ⟨hv, hl, hne, hnin, hnout, hins, houts, hsb⟩ := h
  unfold WFu32 at hv hl
  unfold Tx.scriptBytes at hsb
  rw [scriptBytes_split] at hsb
  have hIns := fun s rest hs => repeatDec_enc readTxIn encTxIn TxIn.noWit
    (fun ti => ti.sigScript.length) TxIn.WF (fun a s rest h1 h2 => readTxIn_enc a s rest h1 h2)
    t.ins s rest hins hs
  have hOuts := fun s rest hs => repeatDec_enc readTxOut encTxOut id
    (fun o => o.pkScript.length) TxOut.WF (fun a s rest h1 h2 => readTxOut_enc a s rest h1 h2)
    t.outs s rest houts hs
  simp only [List.map_id] at hOuts
  have hlen : t.ins.length ≠ 0 := by
    intro h0; exact hne (List.length_eq_zero_iff.mp h0)
  have hnin' : ¬ t.ins.length > maxTxInPerMessage := by omega
  have hnout' : ¬ t.outs.length > maxTxOutPerMessage := by omega
  have hvi : t.ins.length < 2 ^ 64 := by unfold maxTxInPerMessage at hnin; omega
  have hvo : t.outs.length < 2 ^ 64 := by unfold maxTxOutPerMessage at hnout; omega
  have hsI : (t.ins.map fun ti => ti.sigScript.length).sum ≤ scriptSlabSize := by omega
  have hsO : (t.outs.map fun o => o.pkScript.length).sum ≤
      scriptSlabSize - (t.ins.map fun ti => ti.sigScript.length).sum := by omega
  cases hw : t.hasWitness
  · have hw' : (t.ins.any fun ti => !ti.witness.isEmpty) = false := hw
    unfold readTx encTx
    simp only [hw, Bool.false_eq_true, if_false, List.nil_append, List.append_assoc, bind_apply,
      readLE_enc 4 _ _ (show t.version < 256 ^ 4 by omega), readVarInt_enc _ _ hvi, if_neg hlen,
      pure_apply, if_neg hnin', hIns _ _ hsI, readVarInt_enc _ _ hvo, if_neg hnout',
      hOuts _ _ hsO, ne_eq, not_true_eq_false,
      readLE_enc 4 _ _ (show t.lockTime < 256 ^ 4 by omega), map_noWit_of_no_witness _ hw']
  · have hw' : (t.ins.any fun ti => !ti.witness.isEmpty) = true := hw
    have hz : ∀ X : Bytes, readVarInt (0 :: X) = .ok 0 X := fun X => readVarInt_enc 0 X (by decide)
    have hone : ∀ X : Bytes, readLE 1 (1 :: X) = .ok 1 X := fun X => readLE_one_cons 1 X
    have hsW : (t.ins.map TxIn.witBytes).sum ≤
        scriptSlabSize - (t.ins.map fun ti => ti.sigScript.length).sum -
          (t.outs.map fun o => o.pkScript.length).sum := by omega
    unfold readTx encTx
    simp only [hw, if_true, if_false, Nat.one_ne_zero, not_false_eq_true, List.cons_append, List.nil_append, List.append_assoc, bind_apply,
      readLE_enc 4 _ _ (show t.version < 256 ^ 4 by omega), hz, hone, readVarInt_enc _ _ hvi,
      pure_apply, if_neg hnin', hIns _ _ hsI, readVarInt_enc _ _ hvo, if_neg hnout',
      hOuts _ _ hsO, ne_eq, not_true_eq_false, readWitnesses_enc _ _ _ hins hsW, hw',
      readLE_enc 4 _ _ (show t.lockTime < 256 ^ 4 by omega)]

end Pool.C10
