import PoolProofs.C08I2Lemmas
import PoolProofs.C08I3Lemmas
/-! I2 (watcher adequacy) is preserved by every op of the C08 alphabet (under the named environment
conditions `EnvOK`) – the inductive step of `C08_I2_all_histories`. -/
set_option linter.unusedSimpArgs false
set_option linter.unusedVariables false
namespace Pool.C08
open Pool.Gen

/-- `Adq` only looks at the live registrations and the tracked expiry -/
theorem adq_congr {a : Acct} {w w' : Watch} (h1 : w'.confRegs = w.confRegs) (h2 : w'.spendRegs = w.spendRegs)
    (h3 : w'.expiry = w.expiry) (h : Adq a w) : Adq a w' := by
  cases hst : a.state <;> simp only [Adq, hst, spendLive, confLive, h1, h2, h3] at h ⊢ <;> exact h

/-- … and, unless the account is open, not at the tracked expiry -/
theorem adq_expiry {a : Acct} {w w' : Watch} (h1 : w'.confRegs = w.confRegs) (h2 : w'.spendRegs = w.spendRegs)
    (hne : a.state ≠ .open_) (h : Adq a w) : Adq a w' := by
  cases hst : a.state <;> simp only [Adq, hst, spendLive, confLive, h1, h2] at h ⊢ <;>
    first | exact h | exact absurd hst hne

/-- for a state that does not wait for a confirmation, the conf registrations do not matter -/
theorem adq_noconf {a : Acct} {w w' : Watch} (h2 : w'.spendRegs = w.spendRegs) (h3 : w'.expiry = w.expiry)
    (hn : confNext a.state = none) (h : Adq a w) : Adq a w' := by
  cases hst : a.state <;> rw [hst] at hn <;> simp only [Adq, hst, spendLive, confLive, h2, h3] at h ⊢ <;>
    first | exact h | exact absurd hn (by decide)

/-- the transitions of `HandleAccountExpiry` keep the account watched: open → expired keeps the spend
watcher, pending update / batch → expired-pending-update waits for the same confirmation -/
theorem adq_expiryNext {a : Acct} {w w' : Watch} {t : State} (h1 : w'.confRegs = w.confRegs)
    (h2 : w'.spendRegs = w.spendRegs) (hn : expiryNext a.state = .to t) (h : Adq a w) :
    Adq { a with state := t } w' := by
  cases hst : a.state <;> rw [hst] at hn <;> cases t <;>
    first
    | exact absurd hn (by decide)
    | (simp only [Adq, hst, spendLive, confLive, h1, h2] at h ⊢; first | exact h | exact h.1)

theorem handleExpiry_inv2 {s : AState} (h : Inv2 s) : Inv2 (handleExpiry s) := by
  unfold handleExpiry
  split
  · exact h
  · rename_i a ha
    cases hn : expiryNext a.state with
    | to t =>
      intro b hb
      have hb' : b = ({ a with state := t } : Acct).stored := (Option.some.inj hb).symm
      have hne : t ≠ .initiated ∧ t ≠ .canceled := by
        cases hst : a.state <;> rw [hst] at hn <;> cases t <;> first | exact absurd hn (by decide) | exact ⟨by simp, by simp⟩
      rw [stored_of_live (by exact hne.1) (by exact hne.2)] at hb'
      subst hb'
      exact adq_expiryNext rfl rfl hn (h a ha)
    | err => exact h
    | noop => exact h

/-- `handleExpiry` after the tracked expiry was dropped (`NewBlock` / immediate hand-off): an open account
always moves to expired, so the dropped entry is not missed -/
theorem handleExpiry_drop_inv2 {s : AState} (h : Inv2 s) (x : Option Nat) :
    Inv2 (handleExpiry { s with w := { s.w with expiry := x } }) := by
  cases hacct : s.acct with
  | none =>
    intro b hb
    simp only [handleExpiry, hacct] at hb
    simp at hb
  | some a =>
    cases hn : expiryNext a.state with
    | to t =>
      have hne : t ≠ .initiated ∧ t ≠ .canceled := by
        cases hst : a.state <;> rw [hst] at hn <;> cases t <;> first | exact absurd hn (by decide) | exact ⟨by simp, by simp⟩
      intro b hb
      simp only [handleExpiry, hacct, hn] at hb ⊢
      have hb' : b = ({ a with state := t } : Acct).stored := (Option.some.inj hb).symm
      rw [stored_of_live (by exact hne.1) (by exact hne.2)] at hb'
      subst hb'
      exact adq_expiryNext (w := s.w) rfl rfl hn (h a hacct)
    | err =>
      intro b hb
      simp only [handleExpiry, hacct, hn] at hb ⊢
      have : b = a := (Option.some.inj hb).symm
      subst this
      refine adq_expiry (w := s.w) rfl rfl ?_ (h b hacct)
      intro ho; rw [ho] at hn; exact absurd hn (by decide)
    | noop =>
      intro b hb
      simp only [handleExpiry, hacct, hn] at hb ⊢
      have : b = a := (Option.some.inj hb).symm
      subst this
      refine adq_expiry (w := s.w) rfl rfl ?_ (h b hacct)
      intro ho; rw [ho] at hn; exact absurd hn (by decide)

theorem watchExpiration_inv2 {s : AState} (h : Inv2 s) (e : Nat)
    (hno : ∀ a, s.acct = some a → a.state ≠ .open_) : Inv2 (watchExpiration s e) := by
  unfold watchExpiration
  split
  · exact handleExpiry_drop_inv2 h none
  · intro b hb
    exact adq_expiry (w := s.w) rfl rfl (hno b hb) (h b hb)

theorem resumeActs_some (st : State) : resumeActs st ≠ none := by cases st <;> decide

def waitsConfB (st : State) : Bool :=
  match st with
  | .pendingOpen | .pendingUpdate | .pendingBatch | .expiredPendingUpdate => true
  | _ => false

/-- only clauses of states that wait for a confirmation re-register the expiry directly, and those clauses
do not go through `handleStateOpen` -/
def rearmTbl (st : State) : Bool :=
  match resumeActs st with
  | none => true
  | some acts => !acts.contains "WatchAccountExpiration" || (waitsConfB st && !acts.contains "handleStateOpen")

theorem rearmTbl_ok (st : State) : rearmTbl st = true := by cases st <;> decide

theorem watchers_acct (s : AState) (a : Acct) (acts : List String) (h : acts.contains "handleStateOpen" = false) :
    (watchers s a acts).acct = s.acct := by
  unfold watchers
  simp only [h, Bool.false_eq_true, if_false]
  repeat' split
  all_goals rfl

theorem expiryRearm_inv2 (s0 : AState) (a : Acct) (acts : List String) (ha : s0.acct = some a)
    (hacts : resumeActs a.state = some acts) (h : Inv2 (watchers s0 a acts)) :
    Inv2 (expiryRearm (watchers s0 a acts) a acts) := by
  unfold expiryRearm
  split
  · rename_i hc
    have htab := rearmTbl_ok a.state
    simp only [rearmTbl, hacts, hc, Bool.not_true, Bool.false_or, Bool.and_eq_true] at htab
    have hno : acts.contains "handleStateOpen" = false := by simpa using htab.2
    apply watchExpiration_inv2 h
    intro b hb
    rw [watchers_acct s0 a acts hno, ha] at hb
    have : b = a := (Option.some.inj hb).symm
    subst this
    intro ho
    rw [ho] at htab
    simp [waitsConfB] at htab
  · exact h

/-- whenever the `resumeAccount` clause of a (funded) state succeeds, the account is watched for what its
state waits for – whatever the registry looked like before (restart: empty; watch-matched: cancelled) -/
theorem resumeRest_inv2 (s : AState) (a : Acct) (r : Bool) (ha : s.acct = some a)
    (hok : (resumeRest s a r).2 = .ok) : Inv2 (resumeRest s a r).1 := by
  unfold resumeRest at hok ⊢
  split at hok
  · simp at hok
  · rename_i acts hacts
    simp only [hacts] at hok ⊢
    split
    · rename_i hrb
      have hf := rebroadcast_frame s a r acts
      exact expiryRearm_inv2 _ a acts (hf.1.trans ha) hacts (watchers_inv2 _ a acts (hf.1.trans ha) hacts)
    · rename_i hrb
      simp only [hrb, if_false] at hok
      first | exact absurd hok hrb | skip


/-- with the record consistent (I1) the rebroadcast part of a clause never fails -/
theorem rebroadcast_ok (s : AState) (a : Acct) (r : Bool) (acts : List String)
    (hacts : resumeActs a.state = some acts)
    (h2 : a.state = .pendingOpen → ∃ t, a.latestTx = some t ∧ t.id = a.outpoint.txid)
    (h3 : a.state = .pendingClosed → ∃ t, a.latestTx = some t) : (rebroadcast s a r acts).2 = .ok := by
  have htab := rebroadcast_states a.state
  simp only [rebroadcastTbl, hacts] at htab
  have hstOf : (acts.contains "[onRestart]maybeBroadcastTx" || acts.contains "maybeBroadcastTx") = true →
      a.state = .pendingOpen ∨ a.state = .pendingClosed := by
    intro hb
    simp only [hb, Bool.not_true, Bool.false_or, Bool.or_eq_true, beq_iff_eq] at htab
    exact htab
  unfold rebroadcast
  split
  · rename_i hc
    have hc1 : acts.contains "[onRestart]maybeBroadcastTx" = true := by
      simp only [Bool.and_eq_true] at hc; exact hc.1
    have hst := hstOf (by rw [hc1]; rfl)
    by_cases hpo : a.state = .pendingOpen
    · obtain ⟨t, ht, hid⟩ := h2 hpo
      simp only [ht, hid, beq_self_eq_true, if_true]
    · exfalso
      rcases hst with h | h
      · exact hpo h
      · have hx := closed_no_onRestart
        rw [h] at hacts
        simp only [closedNoOnRestart, hacts] at hx
        rw [hc1] at hx
        exact absurd hx (by decide)
  · split
    · rename_i hc
      have hst := hstOf (by rw [hc]; exact Bool.or_true _)
      have hpc : a.state = .pendingClosed := by
        rcases hst with h | h
        · exfalso
          -- the pending-open clause has no unconditional rebroadcast
          rw [h] at hacts
          have : acts.contains "maybeBroadcastTx" = false := by
            have := Option.some.inj (hacts.symm.trans (show resumeActs State.pendingOpen = some _ from rfl))
            subst this; decide
          rw [this] at hc; exact absurd hc (by decide)
        · exact h
      obtain ⟨t, ht⟩ := h3 hpc
      simp only [ht]
    · rfl

/-- the `resumeAccount` clause of a funded state arms what the state waits for – no success condition
needed once the record is consistent (a failing auctioneer subscription comes last) -/
theorem resumeRest_inv2' (s : AState) (a : Acct) (r : Bool) (ha : s.acct = some a)
    (h2 : a.state = .pendingOpen → ∃ t, a.latestTx = some t ∧ t.id = a.outpoint.txid)
    (h3 : a.state = .pendingClosed → ∃ t, a.latestTx = some t) : Inv2 (resumeRest s a r).1 := by
  unfold resumeRest
  cases hacts : resumeActs a.state with
  | none => exact absurd hacts (resumeActs_some _)
  | some acts =>
    simp only []
    have hok := rebroadcast_ok s a r acts hacts h2 h3
    simp only [hok, if_true]
    exact expiryRearm_inv2 _ a acts ((rebroadcast_frame s a r acts).1.trans ha) hacts
      (watchers_inv2 _ a acts ((rebroadcast_frame s a r acts).1.trans ha) hacts)

theorem fundOrLocate_w {s s' : AState} {a : Acct} {r1 r2 fee : Bool} {f : Option (Nat × Nat)}
    {acts : List String} {t : Tx} (h : fundOrLocate s a r1 r2 fee f acts = .got s' t) :
    s'.w = s.w ∧ s'.acct = s.acct := by
  unfold fundOrLocate at h
  simp only [] at h
  split at h
  · split at h
    · simp at h
    simp at h; rw [← h.1]; exact ⟨rfl, rfl⟩
  · repeat' split at h
    all_goals (try (simp at h))
    rw [← h.1]; exact ⟨rfl, rfl⟩

/-- `resumeAccount`: whenever it succeeds the stored account is adequately watched -/
theorem resume_inv2 (s : AState) (a : Acct) (r1 r2 fee : Bool) (f : Option (Nat × Nat))
    (ha : a.state ≠ .initiated → s.acct = some a)
    (hok : (resume s a r1 r2 fee f).2 = .ok) : Inv2 (resume s a r1 r2 fee f).1 := by
  unfold resume at hok ⊢
  split
  · rename_i hinit
    simp only [hinit, if_true] at hok
    have hft := initiated_fallthrough
    split
    · rename_i hn; simp only [hn] at hok; simp at hok
    · rename_i acts hacts
      simp only [hacts] at hok hft
      split
      · rename_i r hr; simp only [hr] at hok
        -- a failed funding: the result is not ok only if r ≠ ok; r is never ok
        unfold fundOrLocate at hr
        simp only [] at hr
        repeat' split at hr
        all_goals (simp at hr)
        all_goals (subst hr; simp at hok)
      · rename_i hc; simp only [hc] at hok; simp at hok
      · rename_i s' t hg
        simp only [hg] at hok
        split
        · rename_i hl; simp only [hl] at hok; simp at hok
        · rename_i idx hl
          simp only [hl, hft, if_true] at hok ⊢
          apply resumeRest_inv2 _ _ _ _ hok
          show some (Acct.stored _) = _
          rw [stored_of_live] <;> simp
  · rename_i hinit
    simp only [hinit, if_false] at hok
    exact resumeRest_inv2 s a r1 (ha hinit) hok


/-- `resumeAccount` (any flags): afterwards the stored account is watched for what its state waits for.
`hs`: for a not yet funded record the caller's state is fine as it is (nothing to watch). -/
theorem resume_inv2' (s : AState) (a : Acct) (r1 r2 fee : Bool) (f : Option (Nat × Nat))
    (ha : a.state ≠ .initiated → s.acct = some a)
    (hs : a.state = .initiated → Inv2 s)
    (h2 : a.state = .pendingOpen → ∃ t, a.latestTx = some t ∧ t.id = a.outpoint.txid)
    (h3 : a.state = .pendingClosed → ∃ t, a.latestTx = some t) : Inv2 (resume s a r1 r2 fee f).1 := by
  unfold resume
  split
  · rename_i hinit
    have hft := initiated_fallthrough
    cases hacts : resumeActs .initiated with
    | none => exact absurd hacts (resumeActs_some _)
    | some acts =>
      simp only [hacts] at hft ⊢
      split
      · exact hs hinit
      · intro b hb
        have : b = ({ a with state := State.canceled } : Acct).stored := (Option.some.inj hb).symm
        subst this
        simp [Adq, Acct.stored]
      · rename_i s' t hg
        have hf := fundOrLocate_w hg
        split
        · intro b hb
          have := hs hinit b (hf.2 ▸ hb)
          exact hf.1 ▸ this
        · rename_i idx hl
          simp only [hft, if_true]
          apply resumeRest_inv2'
          · show some (Acct.stored _) = _
            rw [stored_of_live] <;> simp
          · intro _; exact ⟨t, rfl, rfl⟩
          · intro h; simp at h
  · rename_i hinit
    exact resumeRest_inv2' s a r1 (ha hinit) h2 h3

theorem acc_states (st : State) :
    (accepts Lifecycle.acceptsDepositAccount st = true → st = .open_ ∨ st = .expired) ∧
    (accepts Lifecycle.acceptsWithdrawAccount st = true → st = .open_ ∨ st = .expired) ∧
    (accepts Lifecycle.acceptsRenewAccount st = true → st = .open_ ∨ st = .expired) ∧
    (accepts Lifecycle.acceptsCloseAccount st = true → st = .open_ ∨ st = .expired) := by
  cases st <;> decide

theorem spendLive_of_adq {a : Acct} {w : Watch} (hst : a.state = .open_ ∨ a.state = .expired) (h : Adq a w) :
    spendLive w a.outpoint := by
  rcases hst with hs | hs <;> simp only [Adq, hs] at h
  · exact h.1
  · exact h

/-- the store write + publication of a modification: the new pending-update record is watched through the
spend watcher of the outpoint it spends -/
theorem modify_core (s : AState) (a a' : Acct) (t : Tx) (h : Inv2 s) (ha : s.acct = some a)
    (hst : a.state = .open_ ∨ a.state = .expired) (hs' : a'.state = .pendingUpdate)
    (hlt : a'.latestTx = some t) (hsp : a.outpoint ∈ t.spends) : Inv2 (maybeBroadcast (write s a') t) := by
  intro b hb
  have hf := mb_frame (write s a') t
  rw [hf.1] at hb
  have hb' : b = a'.stored := (Option.some.inj hb).symm
  rw [stored_of_live (by simp [hs']) (by simp [hs'])] at hb'
  subst hb'
  rw [hf.2.1]
  show Adq b s.w
  simp only [Adq, hs']
  exact Or.inr ⟨t, hlt, a.outpoint, hsp, Or.inl (spendLive_of_adq hst (h a ha))⟩

theorem no_open_after_modify (s : AState) (a' : Acct) (t : Tx) (hs' : a'.state = .pendingUpdate) :
    ∀ b, (maybeBroadcast (write s a') t).acct = some b → b.state ≠ .open_ := by
  intro b hb
  rw [(mb_frame _ _).1] at hb
  have hb' : b = a'.stored := (Option.some.inj hb).symm
  rw [stored_of_live (by simp [hs']) (by simp [hs'])] at hb'
  subst hb'; simp [hs']

theorem modify_inv2 {s : AState} (h : Inv2 s) (k : Kind) (m : ModArgs) : Inv2 (modify s k m).1 := by
  unfold modify
  cases hacct : s.acct with
  | none => exact h
  | some a =>
    have hT := acc_states a.state
    cases k <;> simp only [] <;> (repeat' split) <;> (try exact h)
    all_goals (
      have hst : a.state = .open_ ∨ a.state = .expired := by
        first
        | exact hT.1 (by simpa using ‹¬(!accepts Lifecycle.acceptsDepositAccount a.state) = true›)
        | exact hT.2.1 (by simpa using ‹¬(!accepts Lifecycle.acceptsWithdrawAccount a.state) = true›)
        | exact hT.2.2.1 (by simpa using ‹¬(!accepts Lifecycle.acceptsRenewAccount a.state) = true›))
    all_goals first
      | (apply watchExpiration_inv2
         · exact modify_core s a _ _ h hacct hst rfl rfl (by simp)
         · exact no_open_after_modify s _ _ rfl)
      | exact modify_core s a _ _ h hacct hst rfl rfl (by simp)

theorem close_core (s : AState) (a a' : Acct) (t : Tx) (h : Inv2 s) (ha : s.acct = some a)
    (hst : a.state = .open_ ∨ a.state = .expired) (hs' : a'.state = .pendingClosed)
    (hop : a'.outpoint = a.outpoint) : Inv2 (maybeBroadcast (write s a') t) := by
  intro b hb
  have hf := mb_frame (write s a') t
  rw [hf.1] at hb
  have hb' : b = a'.stored := (Option.some.inj hb).symm
  rw [stored_of_live (by simp [hs']) (by simp [hs'])] at hb'
  subst hb'
  rw [hf.2.1]
  show Adq b s.w
  simp only [Adq, hs', hop]
  exact spendLive_of_adq hst (h a ha)

theorem close_inv2 {s : AState} (h : Inv2 s) (ht txid : Nat) (ok sg : Bool) : Inv2 (close s ht txid ok sg).1 := by
  unfold close
  cases hacct : s.acct with
  | none => exact h
  | some a =>
    simp only []
    split
    · exact h
    · rename_i hacc
      split
      · exact h
      · have hst := (acc_states a.state).2.2.2 (by simpa using hacc)
        exact close_core s a _ _ h hacct hst rfl rfl

/-- nothing to watch in `initiated` / `closed` / `canceled` -/
theorem inv2_trivial (s : AState) (a : Acct) (ha : s.acct = some a)
    (hst : a.state = .initiated ∨ a.state = .closed ∨ a.state = .canceled) : Inv2 s := by
  intro b hb
  have : b = a := (Option.some.inj (ha.symm.trans hb)).symm
  subst this
  rcases hst with h | h | h <;> simp [Adq, h]

theorem inv2_none (s : AState) (hn : s.acct = none) : Inv2 s := by
  intro b hb; rw [hn] at hb; simp at hb

theorem inv2_congr {s s' : AState} (h : Inv2 s) (ha : s'.acct = s.acct) (h1 : s'.w.confRegs = s.w.confRegs)
    (h2 : s'.w.spendRegs = s.w.spendRegs) (h3 : s'.w.expiry = s.w.expiry) : Inv2 s' :=
  fun b hb => adq_congr h1 h2 h3 (h b (ha ▸ hb))

/-- the I1 facts `resume_inv2'` needs, for the stored record -/
theorem i1_facts {s : AState} (j : Inv1 s) {a : Acct} (ha : s.acct = some a) :
    (a.state = .pendingOpen → ∃ t, a.latestTx = some t ∧ t.id = a.outpoint.txid) ∧
    (a.state = .pendingClosed → ∃ t, a.latestTx = some t) := by
  refine ⟨fun hst => ?_, fun hst => ?_⟩
  · obtain ⟨t, h1, h2, _⟩ := (j.acctOK a ha).1.1 (by rw [hst]; rfl)
    exact ⟨t, h1, h2⟩
  · obtain ⟨t, h1, _⟩ := (j.acctOK a ha).1.2 hst
    exact ⟨t, h1⟩

/-- resuming the stored record (restart, watch-matched, keep-alive spend) re-establishes I2 -/
theorem resume_stored_inv2 (s : AState) (j : Inv1 s) (a : Acct) (ha : s.acct = some a)
    (r1 r2 fee : Bool) (f : Option (Nat × Nat)) : Inv2 (resume s a r1 r2 fee f).1 :=
  resume_inv2' s a r1 r2 fee f (fun _ => ha) (fun hi => inv2_trivial s a ha (Or.inl hi))
    (i1_facts j ha).1 (i1_facts j ha).2

theorem handleSpend_inv2 (s : AState) (t : Tx) (ht : Nat) (j : Inv1 s)
    (hs : ¬(t.wit = 1 ∨ t.wit = 2) → Inv2 s) : Inv2 (handleSpend s t ht).1 := by
  unfold handleSpend
  cases hacct : s.acct with
  | none => exact inv2_none s hacct
  | some a =>
    simp only []
    split
    · -- expiry path: closed
      apply inv2_trivial _ _ rfl
      right; left
      simp [Acct.stored, spendCloseState_closed]
    · split
      · rename_i hw2
        have jc := Inv1.completeOnly j
        cases hac : (completeOnly s).acct with
        | none => exact inv2_none _ hac
        | some a' =>
          simp only []
          split
          · exact resume_stored_inv2 _ jc a' hac _ _ _ _
          · apply inv2_trivial _ _ rfl
            right; left
            simp [Acct.stored, spendCloseState_closed]
      · rename_i hw1 hw2
        apply hs
        intro hc
        rcases hc with hc | hc
        · exact hw1 (by simp [hc])
        · exact hw2 (by simp [hc])

theorem handleConf_inv2_filtered (s : AState) (w' : Watch) (ht : Nat) (h : Inv2 s)
    (hsp : w'.spendRegs = s.w.spendRegs) (hex : w'.expiry = s.w.expiry) :
    Inv2 (handleConf { s with w := w' } ht) := by
  unfold handleConf
  simp only []
  split
  · rename_i hn
    intro b hb
    have hn' : s.acct = none := hn
    have hb' : s.acct = some b := hb
    rw [hn'] at hb'; simp at hb'
  · rename_i a ha
    have hacct : s.acct = some a := ha
    cases hn : confNext a.state with
    | none =>
      simp only []
      intro b hb
      have hb' : s.acct = some b := hb
      have : b = a := (Option.some.inj (hacct.symm.trans hb')).symm
      subst this
      exact adq_noconf (w := s.w) hsp hex hn (h b hacct)
    | some t =>
      simp only []
      have htt := confNext_target _ _ hn
      apply handleStateOpen_inv2
      · show some ({ a with state := t, heightHint := ht } : Acct).stored = _
        rw [stored_of_live] <;> rcases htt with h' | h' <;> simp [h']
      · exact htt

theorem inv2_confMap {s : AState} (h : Inv2 s) : Inv2 { s with w := { s.w with confMap := none } } :=
  inv2_congr h rfl rfl rfl rfl

theorem inv2_spendMap {s : AState} (h : Inv2 s) : Inv2 { s with w := { s.w with spendMap := none } } :=
  inv2_congr h rfl rfl rfl rfl

theorem stage_frame (s : AState) (g : StageArgs) : (stage s g).1.acct = s.acct ∧ (stage s g).1.w = s.w := by
  unfold stage
  repeat' split
  all_goals exact ⟨rfl, rfl⟩

theorem bump_frame (s : AState) : (bump s).1 = s := by
  unfold bump
  repeat' split
  all_goals rfl

/-- environment conditions of an op for watcher adequacy: A3 (a delivered spend has an admissible witness
shape), and the exclusion of the open finding `C08/complete-without-rewatch` (a bare batch completion must
find the staged copy's watcher armed already); the driver-internal halves of a concurrent delivery
(`consumeSpend`) are not steps of their own -/
def EnvOK (s : AState) : Op → Prop
  | .spend pos k _ => ∀ r t, s.w.spendRegs[pos]? = some r → spendTx s k r.op = some t → t.wit = 1 ∨ t.wit = 2
  | .completeOnly => ∀ b, s.staged = some b → Adq b.stored s.w
  | .consumeSpend _ => False
  | .recover _ _ => False
  | _ => True

/-- **I2 is preserved by every op** (given I1) -/
theorem Inv2.step {s : AState} (h : Inv2 s) (j : Inv1 s) (op : Op) (henv : EnvOK s op) : Inv2 (step s op).1 := by
  cases op with
  | init v e ver ht f =>
    simp only [Pool.C08.step, initAccount]
    apply resume_inv2'
    · intro hne; exact absurd rfl hne
    · intro _; exact inv2_trivial _ _ rfl (Or.inl (by simp [Acct.stored]))
    · intro hc; simp at hc
    · intro hc; simp at hc
  | modify k m => exact modify_inv2 h k m
  | close ht t ok sg => exact close_inv2 h ht t ok sg
  | bump => simp only [Pool.C08.step, bump_frame]; exact h
  | conf pos ht =>
    simp only [Pool.C08.step]
    split
    · exact h
    · exact inv2_confMap (handleConf_inv2_filtered s _ ht h rfl rfl)
  | confDirect ht => exact handleConf_inv2 s ht h
  | spend pos k ht =>
    simp only [Pool.C08.step]
    split
    · exact h
    · rename_i r hr
      split
      · exact h
      · rename_i t htx
        have hw := henv r t hr htx
        exact inv2_spendMap (handleSpend_inv2 _ t ht (Inv1.setW j _) (fun hn => absurd hw hn))
  | consumeSpend pos => exact absurd henv id
  | spendH t ht =>
    simp only [Pool.C08.step]
    exact inv2_spendMap (handleSpend_inv2 s t ht j (fun _ => h))
  | spendDirect k ht =>
    simp only [Pool.C08.step]
    split
    · exact h
    · exact handleSpend_inv2 s _ ht j (fun _ => h)
  | block ht =>
    simp only [Pool.C08.step]
    have h0 : Inv2 { s with best := ht } := inv2_congr h rfl rfl rfl rfl
    split
    · split
      · exact handleExpiry_drop_inv2 h0 none
      · exact h0
    · exact h0
  | expiryDirect => exact handleExpiry_inv2 h
  | stage g =>
    simp only [Pool.C08.step]
    have hf := stage_frame s g
    exact inv2_congr h hf.1 (by rw [hf.2]) (by rw [hf.2]) (by rw [hf.2])
  | completeOnly =>
    simp only [Pool.C08.step, completeOnly]
    cases hst : s.staged with
    | none => exact h
    | some b =>
      simp only []
      intro c hc
      have : c = b.stored := (Option.some.inj hc).symm
      subst this
      exact henv b hst
  | dropStage => exact inv2_congr h rfl rfl rfl rfl
  | watchMatched =>
    simp only [Pool.C08.step, watchMatched]
    cases hacct : s.acct with
    | none => exact h
    | some a =>
      simp only []
      have ha' : (cancelConf (cancelSpend s)).acct = some a := by
        rw [(same_cancelConf _).2.1, (same_cancelSpend _).2.1]; exact hacct
      exact resume_stored_inv2 _ (Inv1.cancelConf (Inv1.cancelSpend j)) a ha' _ _ _ _
  | restart fee f =>
    simp only [Pool.C08.step]
    split
    · rename_i hn
      intro b hb
      have hn' : s.acct = none := hn
      have hb' : s.acct = some b := hb
      rw [hn'] at hb'; simp at hb'
    · rename_i a ha
      exact resume_stored_inv2 _ (Inv1.setWB j {} 0) a ha _ _ _ _
  | recover a known => exact absurd henv id
  | flush => exact inv2_congr h rfl rfl rfl rfl

end Pool.C08
