import PoolModel.C14
import PoolProofs.DigestLemmas
/-! Helper lemmas for C14: the regenerated argument lists as the model reads them (`*_table_eq`, by `decide`
over the regenerated facts), closed forms of the two preimages, their injectivity. -/
set_option linter.unusedSimpArgs false
namespace Pool.C14
open Pool.Digest

/-- The regenerated `Ticket.OfferDigest` switch, as compiled by the model.  Re-checked against the Go
source on every run: a dropped, added or reordered argument makes this `decide` fail. -/
theorem offerTable_eq : offerTable = some
    [([0], [.id, .version, .capacity, .pushAmt, .auto]),
     ([1], [.id, .version, .capacity, .pushAmt, .auto, .unannounced, .zeroConf])] := by decide

/-- The regenerated `Ticket.OrderDigest` switch (repaired source: the v1 list hashes the bid nonce). -/
theorem orderTable_eq : orderTable = some
    [([0], [.id, .version, .capacity, .pushAmt, .bidNonce]),
     ([1], [.id, .version, .capacity, .pushAmt, .bidNonce, .unannounced, .zeroConf])] := by decide

def offerFVs0 (t : Ticket) : List FV :=
  [.raw t.id, .num 1 t.version, .num 8 (u64OfInt t.capacity), .num 8 (u64OfInt t.pushAmt), .num 1 (boolNat t.auto)]
def offerFVs1 (t : Ticket) : List FV :=
  offerFVs0 t ++ [.num 1 (boolNat t.unannounced), .num 1 (boolNat t.zeroConf)]
def orderFVs0 (t : Ticket) (o : Order) : List FV :=
  [.raw t.id, .num 1 t.version, .num 8 (u64OfInt t.capacity), .num 8 (u64OfInt t.pushAmt), .raw o.bidNonce]
def orderFVs1 (t : Ticket) (o : Order) : List FV :=
  orderFVs0 t o ++ [.num 1 (boolNat t.unannounced), .num 1 (boolNat t.zeroConf)]

theorem offerPreimage_eq (t : Ticket) : offerPreimage t =
    if t.version = 0 then .ok (encAll (offerFVs0 t))
    else if t.version = 1 then .ok (encAll (offerFVs1 t))
    else .error .digestVersion := by
  unfold offerPreimage preimageOf
  rw [offerTable_eq]
  by_cases h0 : t.version = 0
  · simp [lookupCase, h0, encTerms, encTerm, offerFVs0]
  · by_cases h1 : t.version = 1
    · simp [lookupCase, h1, encTerms, encTerm, offerFVs0, offerFVs1]
    · simp [lookupCase, h0, h1]

theorem orderPreimage_eq (t : Ticket) : orderPreimage t =
    match t.order with
    | none => .error .digestState
    | some o =>
      if t.state < stateOrdered then .error .digestState
      else if t.version = 0 then .ok (encAll (orderFVs0 t o))
      else if t.version = 1 then .ok (encAll (orderFVs1 t o))
      else .error .digestVersion := by
  unfold orderPreimage preimageOf
  rw [orderTable_eq]
  cases ho : t.order with
  | none => simp
  | some o =>
    by_cases hs : t.state < stateOrdered
    · simp [hs]
    · by_cases h0 : t.version = 0
      · simp [hs, lookupCase, h0, encTerms, encTerm, orderFVs0, ho]
      · by_cases h1 : t.version = 1
        · simp [hs, lookupCase, h1, encTerms, encTerm, orderFVs0, orderFVs1, ho]
        · simp [hs, lookupCase, h0, h1]


/-! ## well-formedness (what the Go types guarantee) and the covered terms -/

def I64 (a : Int) : Prop := -9223372036854775808 ≤ a ∧ a < 9223372036854775808

/-- what the Go types of `sidecar.Ticket` guarantee: `[8]byte`, `uint8`, `int64`, `[32]byte` -/
structure WF (t : Ticket) : Prop where
  id : t.id.length = 8
  version : t.version < 256
  cap : I64 t.capacity
  push : I64 t.pushAmt
  nonce : ∀ o, t.order = some o → o.bidNonce.length = 32

/-- unannounced / zero-conf flags are terms of the ticket from version 1 on -/
def flagsFrom1 (t : Ticket) : Option (Bool × Bool) :=
  if t.version = 0 then none else some (t.unannounced, t.zeroConf)

structure OfferTerms where
  id : Bytes
  version : Nat
  capacity : Int
  pushAmt : Int
  auto : Bool
  flags : Option (Bool × Bool)
deriving DecidableEq, Repr

structure OrderTerms where
  id : Bytes
  version : Nat
  capacity : Int
  pushAmt : Int
  bidNonce : Option Bytes
  flags : Option (Bool × Bool)
deriving DecidableEq, Repr

/-- the terms the property says an OFFER signature is made for -/
def offerTerms (t : Ticket) : OfferTerms :=
  ⟨t.id, t.version, t.capacity, t.pushAmt, t.auto, flagsFrom1 t⟩

/-- the terms the property says an ORDER signature is made for -/
def orderTerms (t : Ticket) : OrderTerms :=
  ⟨t.id, t.version, t.capacity, t.pushAmt, t.order.map (·.bidNonce), flagsFrom1 t⟩

theorem offerFVs0_wf (t : Ticket) (h : WF t) : ∀ a ∈ offerFVs0 t, a.WF := by
  intro a ha
  simp only [offerFVs0, List.mem_cons, List.mem_nil_iff, or_false] at ha
  rcases ha with rfl | rfl | rfl | rfl | rfl <;> simp only [FV.WF]
  · exact h.version
  · exact u64OfInt_lt _
  · exact u64OfInt_lt _
  · exact boolNat_lt _

theorem offerFVs1_wf (t : Ticket) (h : WF t) : ∀ a ∈ offerFVs1 t, a.WF := by
  intro a ha
  simp only [offerFVs1, List.mem_append, List.mem_cons, List.mem_nil_iff, or_false] at ha
  rcases ha with ha | rfl | rfl
  · exact offerFVs0_wf t h a ha
  · exact boolNat_lt _
  · exact boolNat_lt _

theorem orderFVs0_wf (t : Ticket) (o : Order) (h : WF t) : ∀ a ∈ orderFVs0 t o, a.WF := by
  intro a ha
  simp only [orderFVs0, List.mem_cons, List.mem_nil_iff, or_false] at ha
  rcases ha with rfl | rfl | rfl | rfl | rfl <;> simp only [FV.WF]
  · exact h.version
  · exact u64OfInt_lt _
  · exact u64OfInt_lt _

theorem orderFVs1_wf (t : Ticket) (o : Order) (h : WF t) : ∀ a ∈ orderFVs1 t o, a.WF := by
  intro a ha
  simp only [orderFVs1, List.mem_append, List.mem_cons, List.mem_nil_iff, or_false] at ha
  rcases ha with ha | rfl | rfl
  · exact orderFVs0_wf t o h a ha
  · exact boolNat_lt _
  · exact boolNat_lt _

theorem offerFVs0_len (t : Ticket) (h : WF t) : (encAll (offerFVs0 t)).length = 26 := by
  simp [encAll_length, offerFVs0, FV.len, h.id]
theorem offerFVs1_len (t : Ticket) (h : WF t) : (encAll (offerFVs1 t)).length = 28 := by
  simp [encAll_length, offerFVs0, offerFVs1, FV.len, h.id]
theorem orderFVs0_len (t : Ticket) (o : Order) (h : WF t) (ho : t.order = some o) :
    (encAll (orderFVs0 t o)).length = 57 := by
  simp [encAll_length, orderFVs0, FV.len, h.id, h.nonce o ho]
theorem orderFVs1_len (t : Ticket) (o : Order) (h : WF t) (ho : t.order = some o) :
    (encAll (orderFVs1 t o)).length = 59 := by
  simp [encAll_length, orderFVs0, orderFVs1, FV.len, h.id, h.nonce o ho]

/-- equal offer preimages ⇒ equal covered offer terms -/
theorem offerPreimage_inj {t t' : Ticket} (h : WF t) (h' : WF t') {p : Bytes}
    (hp : offerPreimage t = .ok p) (hp' : offerPreimage t' = .ok p) : offerTerms t = offerTerms t' := by
  rw [offerPreimage_eq] at hp hp'
  by_cases v0 : t.version = 0 <;> by_cases v0' : t'.version = 0
  · simp only [v0, v0', if_true] at hp hp'
    injection hp with hp; injection hp' with hp'
    have := encAll_inj (by simp [sameShapeL, offerFVs0, FV.sameShape, h.id, h'.id])
      (offerFVs0_wf t h) (offerFVs0_wf t' h') (hp.trans hp'.symm)
    simp only [offerFVs0, List.cons.injEq, FV.raw.injEq, FV.num.injEq, true_and, and_true] at this
    obtain ⟨e1, e2, e3, e4, e5⟩ := this
    simp [offerTerms, flagsFrom1, v0, v0', e1, e2, u64OfInt_inj h.cap h'.cap e3, u64OfInt_inj h.push h'.push e4,
      boolNat_inj e5]
  · exfalso
    by_cases v1' : t'.version = 1
    · simp only [v0, v0', v1', if_true, if_false] at hp hp'
      injection hp with hp; injection hp' with hp'
      have := congrArg List.length (hp.trans hp'.symm)
      rw [offerFVs0_len t h, offerFVs1_len t' h'] at this; omega
    · simp [v0', v1'] at hp'
  · exfalso
    by_cases v1 : t.version = 1
    · simp only [v0, v0', v1, if_true, if_false] at hp hp'
      injection hp with hp; injection hp' with hp'
      have := congrArg List.length (hp.trans hp'.symm)
      rw [offerFVs1_len t h, offerFVs0_len t' h'] at this; omega
    · simp [v0, v1] at hp
  · by_cases v1 : t.version = 1
    · by_cases v1' : t'.version = 1
      · simp only [v0, v0', v1, v1', if_true, if_false] at hp hp'
        injection hp with hp; injection hp' with hp'
        have := encAll_inj (by simp [sameShapeL, offerFVs0, offerFVs1, FV.sameShape, h.id, h'.id])
          (offerFVs1_wf t h) (offerFVs1_wf t' h') (hp.trans hp'.symm)
        simp only [offerFVs0, offerFVs1, List.cons_append, List.nil_append, List.cons.injEq, FV.raw.injEq,
          FV.num.injEq, true_and, and_true] at this
        obtain ⟨e1, e2, e3, e4, e5, e6, e7⟩ := this
        simp [offerTerms, flagsFrom1, v0, v0', e1, e2, u64OfInt_inj h.cap h'.cap e3,
          u64OfInt_inj h.push h'.push e4, boolNat_inj e5, boolNat_inj e6, boolNat_inj e7]
      · simp [v0', v1'] at hp'
    · simp [v0, v1] at hp


/-- closed form of a successful order preimage -/
theorem orderPreimage_ok {t : Ticket} {p : Bytes} (hp : orderPreimage t = .ok p) :
    ∃ o, t.order = some o ∧ ¬ t.state < stateOrdered ∧
      ((t.version = 0 ∧ p = encAll (orderFVs0 t o)) ∨ (t.version = 1 ∧ p = encAll (orderFVs1 t o))) := by
  rw [orderPreimage_eq] at hp
  cases ho : t.order with
  | none => simp [ho] at hp
  | some o =>
    simp only [ho] at hp
    by_cases hs : t.state < stateOrdered
    · simp [hs] at hp
    · simp only [hs, if_false] at hp
      refine ⟨o, rfl, hs, ?_⟩
      by_cases v0 : t.version = 0
      · simp only [v0, if_true] at hp; injection hp with hp; exact Or.inl ⟨v0, hp.symm⟩
      · by_cases v1 : t.version = 1
        · simp only [v0, v1, if_true, if_false] at hp; injection hp with hp
          exact Or.inr ⟨v1, hp.symm⟩
        · simp [v0, v1] at hp

/-- equal order preimages ⇒ equal covered order terms -/
theorem orderPreimage_inj {t t' : Ticket} (h : WF t) (h' : WF t') {p : Bytes}
    (hp : orderPreimage t = .ok p) (hp' : orderPreimage t' = .ok p) : orderTerms t = orderTerms t' := by
  obtain ⟨o, ho, _, hc⟩ := orderPreimage_ok hp
  obtain ⟨o', ho', _, hc'⟩ := orderPreimage_ok hp'
  rcases hc with ⟨v0, e⟩ | ⟨v1, e⟩ <;> rcases hc' with ⟨v0', e'⟩ | ⟨v1', e'⟩
  · have := encAll_inj (by simp [sameShapeL, orderFVs0, FV.sameShape, h.id, h'.id, h.nonce o ho, h'.nonce o' ho'])
      (orderFVs0_wf t o h) (orderFVs0_wf t' o' h') (e.symm.trans e')
    simp only [orderFVs0, List.cons.injEq, FV.raw.injEq, FV.num.injEq, true_and, and_true] at this
    obtain ⟨e1, e2, e3, e4, e5⟩ := this
    simp [orderTerms, flagsFrom1, v0, v0', e1, ho, ho', u64OfInt_inj h.cap h'.cap e3,
      u64OfInt_inj h.push h'.push e4, e5]
  · exfalso
    have := congrArg List.length (e.symm.trans e')
    rw [orderFVs0_len t o h ho, orderFVs1_len t' o' h' ho'] at this; omega
  · exfalso
    have := congrArg List.length (e.symm.trans e')
    rw [orderFVs1_len t o h ho, orderFVs0_len t' o' h' ho'] at this; omega
  · have := encAll_inj (by simp [sameShapeL, orderFVs0, orderFVs1, FV.sameShape, h.id, h'.id, h.nonce o ho,
        h'.nonce o' ho'])
      (orderFVs1_wf t o h) (orderFVs1_wf t' o' h') (e.symm.trans e')
    simp only [orderFVs0, orderFVs1, List.cons_append, List.nil_append, List.cons.injEq, FV.raw.injEq,
      FV.num.injEq, true_and, and_true] at this
    obtain ⟨e1, e2, e3, e4, e5, e6, e7⟩ := this
    simp [orderTerms, flagsFrom1, v1, v1', e1, ho, ho', u64OfInt_inj h.cap h'.cap e3,
      u64OfInt_inj h.push h'.push e4, e5, boolNat_inj e6, boolNat_inj e7]

/-- closed form of a successful offer preimage -/
theorem offerPreimage_ok {t : Ticket} {p : Bytes} (hp : offerPreimage t = .ok p) :
    (t.version = 0 ∧ p = encAll (offerFVs0 t)) ∨ (t.version = 1 ∧ p = encAll (offerFVs1 t)) := by
  rw [offerPreimage_eq] at hp
  by_cases v0 : t.version = 0
  · simp only [v0, if_true] at hp; injection hp with hp; exact Or.inl ⟨v0, hp.symm⟩
  · by_cases v1 : t.version = 1
    · simp only [v0, v1, if_true, if_false] at hp; injection hp with hp; exact Or.inr ⟨v1, hp.symm⟩
    · simp [v0, v1] at hp

/-- domain separation: no offer preimage equals an order preimage (their lengths differ: 26/28 vs 57/59) -/
theorem offer_ne_order_preimage {t t' : Ticket} (h : WF t) (h' : WF t') {p p' : Bytes}
    (hp : offerPreimage t = .ok p) (hp' : orderPreimage t' = .ok p') : p ≠ p' := by
  intro hpp
  obtain ⟨o', ho', _, hc'⟩ := orderPreimage_ok hp'
  have hl := congrArg List.length hpp
  rcases offerPreimage_ok hp with ⟨_, e⟩ | ⟨_, e⟩ <;> rcases hc' with ⟨_, e'⟩ | ⟨_, e'⟩ <;>
    rw [e, e'] at hl <;>
    simp only [offerFVs0_len t h, offerFVs1_len t h, orderFVs0_len t' o' h' ho', orderFVs1_len t' o' h' ho'] at hl <;>
    omega

/-! ## ideal signatures -/

theorem verify_iff (pk : Key) (m : Bytes) (σ : Sig) : verify pk m σ = true ↔ σ = ⟨pk, m⟩ := by
  cases σ with
  | mk s msg =>
    simp only [verify, Bool.and_eq_true, beq_iff_eq, Sig.mk.injEq]

/-- `VerifyOffer` succeeds exactly when the state guard holds, key and signature are present, the digest
is defined and the signature is the one the key makes on the digest. -/
theorem verifyOffer_ok_iff (H : Bytes → Bytes) (t : Ticket) :
    verifyOffer H (some t) = .ok () ↔
      ¬ t.state < stateOffered ∧ ∃ pk p, t.signPubKey = some pk ∧ offerPreimage t = .ok p ∧
        t.sigOffer = some ⟨pk, H p⟩ := by
  unfold verifyOffer offerDigest
  by_cases hs : t.state < stateOffered
  · simp [hs]
  · cases hk : t.signPubKey with
    | none => simp [hs, hk]
    | some pk =>
      cases hg : t.sigOffer with
      | none => simp [hs, hk, hg]
      | some σ =>
        cases hp : offerPreimage t with
        | error e => simp [hs, hk, hg, hp, Except.map]
        | ok p =>
          by_cases hv : verify pk (H p) σ = true
          · have := (verify_iff _ _ _).1 hv
            subst this
            simp [hs, hk, hg, hp, Except.map, hv]
          · have : σ ≠ ⟨pk, H p⟩ := fun h => hv ((verify_iff _ _ _).2 h)
            simp [hs, hk, hg, hp, Except.map, hv, this]

theorem verifyOrder_ok_iff (H : Bytes → Bytes) (t : Ticket) :
    verifyOrder H (some t) = .ok () ↔
      ¬ t.state < stateOrdered ∧ t.sigOffer.isSome ∧
      ∃ pk o p, t.signPubKey = some pk ∧ t.order = some o ∧ o.bidNonce ≠ zeroNonce ∧
        orderPreimage t = .ok p ∧ o.sig = some ⟨pk, H p⟩ := by
  unfold verifyOrder orderDigest
  by_cases hs : t.state < stateOrdered
  · simp [hs]
  · cases hk : t.signPubKey with
    | none => simp [hs, hk]
    | some pk =>
      cases hg : t.sigOffer with
      | none => simp [hs, hk, hg]
      | some σo =>
        cases ho : t.order with
        | none => simp [hs, hk, hg, ho]
        | some o =>
          cases hsg : o.sig with
          | none => simp [hs, hk, hg, ho, hsg]
          | some σ =>
            by_cases hn : o.bidNonce = zeroNonce
            · simp [hs, hk, hg, ho, hsg, hn]
            · cases hp : orderPreimage t with
              | error e => simp [hs, hk, hg, ho, hsg, hn, hp, Except.map]
              | ok p =>
                by_cases hv : verify pk (H p) σ = true
                · have := (verify_iff _ _ _).1 hv
                  subst this
                  simp [hs, hk, hg, ho, hsg, hn, hp, Except.map, hv]
                · have : σ ≠ ⟨pk, H p⟩ := fun h => hv ((verify_iff _ _ _).2 h)
                  simp [hs, hk, hg, ho, hsg, hn, hp, Except.map, hv, this]

theorem withNonce_nonce (o? : Option Order) (n : Bytes) : (withNonce o? n).bidNonce = n := by
  cases o? <;> rfl

/-- closed form of a successful `SignOrder` -/
theorem signOrder_ok {H : Bytes → Bytes} {t t' : Ticket} {nonce : Bytes} {k : Key}
    (hs : signOrder H (some t) nonce k = (some t', none)) :
    ¬ t.state < stateRegistered ∧ t.signPubKey.isSome ∧ t.sigOffer.isSome ∧
    ∃ p, orderPreimage { t with order := some (withNonce t.order nonce), state := stateOrdered } = .ok p ∧
      t' = { t with state := stateOrdered,
                    order := some { withNonce t.order nonce with sig := some ⟨k, H p⟩ } } := by
  unfold signOrder at hs
  simp only at hs
  split at hs
  · simp at hs
  · split at hs
    · simp at hs
    · rename_i h1 h2
      simp only [orderDigest] at hs
      cases hp : orderPreimage { t with order := some (withNonce t.order nonce), state := stateOrdered } with
      | error e => simp [hp, Except.map] at hs
      | ok p =>
        simp only [hp, Except.map] at hs
        simp at hs
        refine ⟨h1, ?_, ?_, p, rfl, hs.symm⟩
        · cases h : t.signPubKey <;> simp [h] at h2 ⊢
        · cases h : t.sigOffer <;> simp [h] at h2 ⊢

theorem signOffer_ok {H : Bytes → Bytes} {t t' : Ticket} {k : Key}
    (hs : signOffer H (some t) k = .ok t') :
    ¬ t.state < stateOffered ∧ t.signPubKey.isSome ∧ t.sigOffer = none ∧
    ∃ p, offerPreimage t = .ok p ∧ t' = { t with sigOffer := some ⟨k, H p⟩ } := by
  unfold signOffer at hs
  simp only at hs
  split at hs
  · simp at hs
  · split at hs
    · simp at hs
    · rename_i h1 h2
      simp only [offerDigest] at hs
      cases hp : offerPreimage t with
      | error e => simp [hp, Except.map] at hs
      | ok p =>
        simp only [hp, Except.map] at hs
        simp at hs
        refine ⟨h1, ?_, ?_, p, rfl, hs.symm⟩
        · cases h : t.signPubKey <;> simp [h] at h2 ⊢
        · cases h : t.sigOffer <;> simp [h] at h2 ⊢

end Pool.C14
