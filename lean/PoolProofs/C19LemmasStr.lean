import PoolProofs.C19Lemmas
import PoolProofs.C15LemmasStr
import PoolProofs.C15LemmasB58
/-! C19: `DecodeString` never panics – the `make` of base58.Decode asks for at most `len(s)` bytes. -/
namespace Pool.Dec

theorem natBytesF_length : ∀ (f n k : Nat), n < 256 ^ k → (natBytesF f n).length ≤ k := by
  intro f
  induction f with
  | zero => intro n k _; simp [natBytesF]
  | succ f ih =>
    intro n k h
    simp only [natBytesF]
    split
    · simp
    · rename_i h0
      cases k with
      | zero => simp at h; omega
      | succ k =>
        have : n / 256 < 256 ^ k := Nat.div_lt_of_lt_mul (by rw [Nat.pow_succ] at h; omega)
        have := ih (n / 256) k this
        simp only [List.length_append, List.length_cons, List.length_nil]
        omega

theorem foldl58_lt : ∀ (ds : List Nat) (acc : Nat), (∀ d ∈ ds, d < 58) →
    ds.foldl (fun a d => a * 58 + d) acc < (acc + 1) * 58 ^ ds.length := by
  intro ds
  induction ds with
  | nil => intro acc _; simp
  | cons d ds ih =>
    intro acc h
    simp only [List.foldl_cons, List.length_cons]
    have hd : d < 58 := h d (by simp)
    have := ih (acc * 58 + d) (fun x hx => h x (by simp [hx]))
    have h2 : (acc * 58 + d + 1) * 58 ^ ds.length ≤ ((acc + 1) * 58) * 58 ^ ds.length :=
      Nat.mul_le_mul_right _ (by omega)
    rw [Nat.pow_succ, Nat.mul_comm (58 ^ ds.length) 58, ← Nat.mul_assoc]
    omega

theorem b58Index_lt (c : UInt8) (d : Nat) (h : b58Index c = some d) : d < 58 := by
  unfold b58Index at h
  simp only at h
  split at h
  · injection h with h; omega
  · cases h

theorem b58Digits_split : ∀ (s : Bytes) (ds : List Nat), b58Digits s = some ds →
    ∃ rest, ds = List.replicate (leadingCount (b58Char 0) s) 0 ++ rest ∧
      rest.length + leadingCount (b58Char 0) s = s.length ∧ ∀ d ∈ rest, d < 58 := by
  intro s
  induction s with
  | nil => intro ds h; simp [b58Digits] at h; subst h; exact ⟨[], by simp [leadingCount], by simp [leadingCount], by simp⟩
  | cons c cs ih =>
    intro ds h
    simp only [b58Digits] at h
    cases hi : b58Index c with
    | none => rw [hi] at h; simp at h
    | some d =>
      cases hd : b58Digits cs with
      | none => rw [hi, hd] at h; simp at h
      | some ds' =>
        rw [hi, hd] at h
        simp only at h
        injection h with h
        subst h
        obtain ⟨rest, h1, h2, h3⟩ := ih ds' hd
        simp only [leadingCount]
        split
        · rename_i hc
          subst hc
          have : d = 0 := by
            have := b58Index_char 0 (by omega)
            rw [hi] at this; injection this
          subst this
          exact ⟨rest, by rw [h1]; simp [List.replicate_succ], by simp only [List.length_cons]; omega, h3⟩
        · have hlen : ds'.length = cs.length := by
            rw [h1]; simp only [List.length_append, List.length_replicate]; omega
          refine ⟨d :: ds', by simp, by simp only [List.length_cons]; omega, ?_⟩
          intro x hx
          rcases List.mem_cons.1 hx with hx | hx
          · subst hx; exact b58Index_lt c x hi
          · rw [h1] at hx
            rcases List.mem_append.1 hx with hx | hx
            · have := List.eq_of_mem_replicate hx; omega
            · exact h3 x hx

/-- base58.Decode never asks for more than `len(s)` bytes -/
theorem b58Decode_ne_panic (m : Nat) (s : Bytes) (h : s.length ≤ m) : b58Decode m s ≠ .panic := by
  unfold b58Decode
  cases hd : b58Digits s with
  | none => simp
  | some ds =>
    simp only
    obtain ⟨rest, h1, h2, h3⟩ := b58Digits_split s ds hd
    have hv : digitsValue ds < 256 ^ rest.length := by
      rw [h1, digitsValue_zeros]
      unfold digitsValue
      have := foldl58_lt rest 0 h3
      have hp : 58 ^ rest.length ≤ 256 ^ rest.length := Nat.pow_le_pow_left (by omega) _
      omega
    have hl : (natBytes (digitsValue ds)).length ≤ rest.length := natBytesF_length _ _ _ hv
    rw [alloc_ok_of_le (by omega)]
    simp

/-- `DecodeString` of the model never panics: strings up to the allocation limit, capped tlv decoders. -/
theorem decodeString_ne_panic (H : Bytes → Bytes) (hH : ∀ x, 4 ≤ (H x).length) (cfg : Cfg)
    (ht : cfg.p2pTop = true) (hp : cfg.p2pSub = true) (hm : maxRecordSize ≤ cfg.maxAlloc) (s : Bytes)
    (hs : s.length ≤ cfg.maxAlloc) : decodeString H cfg s ≠ .panic := by
  rw [decodeString_eq H hH cfg s]
  split
  · simp
  · have hb := b58Decode_ne_panic cfg.maxAlloc (s.drop 7) (by simp only [List.length_drop]; omega)
    split
    · simp
    · rename_i h; exact absurd h hb
    · split
      · simp
      · split
        · simp
        · split
          · simp
          · exact deserializeTicket_ne_panic cfg ht hp hm _

end Pool.Dec
