import PoolModel.C11
import PoolProofs.Float64Lemmas
/-! Helper lemmas for C11: bounds of the integer divisions, per-match debit bounds in ℚ, the closed form of
`reservedValue`, and the two final arithmetic steps. -/
namespace Pool.C11
open Pool.Float64 Pool.Gen.Reserve

/-- relative slack of the float premium -/
def eps : ℚ := 1 / 2 ^ 50
/-- premium per satoshi at the given rate and duration: `rate · dur / FeeRateTotalParts` -/
def cRate (rate dur : Nat) : ℚ := (rate : ℚ) * dur / (feeRateTotalParts : ℚ)
/-- execution fee per satoshi -/
def eRate (fs : FeeSchedule) : ℚ := (fs.feeRate : ℚ) / (execFeeRateDivisor : ℚ)

theorem eps_pos : 0 < eps := by unfold eps; positivity
theorem cRate_nonneg (r d : Nat) : 0 ≤ cRate r d := by unfold cRate; positivity
theorem eRate_nonneg (fs : FeeSchedule) : 0 ≤ eRate fs := by unfold eRate; positivity

theorem cRate_mono {p r : Nat} (d : Nat) (h : p ≤ r) : cRate p d ≤ cRate r d := by
  unfold cRate
  have : (p : ℚ) ≤ r := by exact_mod_cast h
  have hd : (0 : ℚ) ≤ d := by positivity
  have hK : (0 : ℚ) < (feeRateTotalParts : ℚ) := by exact_mod_cast feeRateTotalParts_pos
  exact div_le_div_of_nonneg_right (mul_le_mul_of_nonneg_right this hd) (le_of_lt hK)

theorem exactPremium_eq (a r d : Nat) : exactPremium a r d = (a : ℚ) * cRate r d := by
  unfold exactPremium cRate; ring

theorem premium_le (a r d : Nat) : (premium a r d : ℚ) ≤ (a : ℚ) * cRate r d * (1 + eps) := by
  have := (premium_near a r d).2; rw [exactPremium_eq] at this; unfold eps; exact this

theorem premium_gt (a r d : Nat) : (a : ℚ) * cRate r d * (1 - eps) - 1 < (premium a r d : ℚ) := by
  have := (premium_near a r d).1; rw [exactPremium_eq] at this; unfold eps; exact this

theorem nat_div_le (N D : Nat) (hD : 0 < D) : ((N / D : Nat) : ℚ) ≤ (N : ℚ) / D := by
  have hDq : (0 : ℚ) < D := by exact_mod_cast hD
  rw [le_div_iff₀ hDq]
  exact_mod_cast Nat.div_mul_le_self N D

theorem nat_div_gt (N D : Nat) (hD : 0 < D) : (N : ℚ) / D - 1 < ((N / D : Nat) : ℚ) := by
  have hDq : (0 : ℚ) < D := by exact_mod_cast hD
  have h := Nat.div_add_mod N D
  have hr : N % D < D := Nat.mod_lt _ hD
  have e : (N : ℚ) = D * (N / D : Nat) + (N % D : Nat) := by exact_mod_cast h.symm
  have hrq : ((N % D : Nat) : ℚ) < D := by exact_mod_cast hr
  rw [sub_lt_iff_lt_add, div_lt_iff₀ hDq]
  nlinarith

theorem execFeeRateDivisor_pos : 0 < execFeeRateDivisor := by decide

theorem executionFee_le (fs : FeeSchedule) (y : Nat) :
    (executionFee fs y : ℚ) ≤ fs.baseFee + eRate fs * y := by
  unfold executionFee eRate
  have := nat_div_le (y * fs.feeRate) execFeeRateDivisor execFeeRateDivisor_pos
  push_cast at this ⊢
  have e : (fs.feeRate : ℚ) / execFeeRateDivisor * y = (y : ℚ) * fs.feeRate / execFeeRateDivisor := by ring
  rw [e]; linarith

theorem executionFee_gt (fs : FeeSchedule) (y : Nat) :
    (fs.baseFee : ℚ) + eRate fs * y - 1 < (executionFee fs y : ℚ) := by
  unfold executionFee eRate
  have := nat_div_gt (y * fs.feeRate) execFeeRateDivisor execFeeRateDivisor_pos
  push_cast at this ⊢
  have e : (fs.feeRate : ℚ) / execFeeRateDivisor * y = (y : ℚ) * fs.feeRate / execFeeRateDivisor := by ring
  rw [e]; linarith

/-- the chain fee is monotone in the fee rate -/
theorem estimateTraderFee_mono_rate (k ver : Nat) {f g : Nat} (h : f ≤ g) :
    estimateTraderFee k f ver ≤ estimateTraderFee k g ver := by
  unfold estimateTraderFee
  exact Nat.div_le_div_right (Nat.mul_le_mul_right _ h)

theorem traderWitness_cases (ver : Nat) :
    traderWitness ver = taprootMultiSigWitnessSize ∨ traderWitness ver = multiSigWitnessSize := by
  unfold traderWitness; split <;> simp

/-- with at least the fee floor as rate, one channel costs at least 2 sat of chain fee (regenerated weights) -/
theorem fee1_floor_ge (ver : Nat) : 2 ≤ estimateTraderFee 1 feePerKwFloor ver := by
  unfold estimateTraderFee traderWeight
  rcases traderWitness_cases ver with h | h <;> rw [h] <;> decide

/-- the chain fee of a batch with `k ≥ 1` channels is at most `k` single-channel fees
    (`fee(k) ≤ k · fee(1)`), for fee rates from 5 sat/kw and no `uint32` wrap of the output weight. -/
theorem traderFee_subadditive_aux (k f ver : Nat) (hk : 1 ≤ k) (hf : 5 ≤ f) (hw : k ≤ 10 ^ 7) :
    estimateTraderFee k f ver ≤ k * estimateTraderFee 1 f ver := by
  rcases Nat.lt_or_ge k 2 with hk1 | hk2
  · have : k = 1 := by omega
    subst this; simp
  unfold estimateTraderFee traderWeight
  have hnw : (p2wshOutputSize * k + 1) % 4294967296 = p2wshOutputSize * k + 1 :=
    Nat.mod_eq_of_lt (by unfold p2wshOutputSize; omega)
  have h1 : (p2wshOutputSize * 1 + 1) % 4294967296 = p2wshOutputSize * 1 + 1 := by decide
  rw [hnw, h1]
  -- W(k) + 200 k ≤ k · W(1)
  have hW : ((p2wshOutputSize + inputSize + (p2wshOutputSize * k + 1) / 2) * witnessScaleFactor + traderWitness ver)
      + 200 * k ≤ k * ((p2wshOutputSize + inputSize + (p2wshOutputSize * 1 + 1) / 2) * witnessScaleFactor + traderWitness ver) := by
    rcases traderWitness_cases ver with h | h <;> rw [h] <;>
      simp only [p2wshOutputSize, inputSize, witnessScaleFactor, taprootMultiSigWitnessSize, multiSigWitnessSize] <;> omega
  set Wk := (p2wshOutputSize + inputSize + (p2wshOutputSize * k + 1) / 2) * witnessScaleFactor + traderWitness ver
  set W1 := (p2wshOutputSize + inputSize + (p2wshOutputSize * 1 + 1) / 2) * witnessScaleFactor + traderWitness ver
  -- f·Wk/1000 ≤ k·(f·W1/1000): write f·W1 = 1000 q + r
  have hq := Nat.div_add_mod (f * W1) 1000
  have hr : f * W1 % 1000 < 1000 := Nat.mod_lt _ (by norm_num)
  set q := f * W1 / 1000
  set r := f * W1 % 1000
  apply Nat.div_le_of_le_mul
  -- f * Wk ≤ 1000 * (k * q)
  have h2 : f * (Wk + 200 * k) ≤ f * (k * W1) := Nat.mul_le_mul_left f hW
  have h3 : 1000 * k ≤ f * (200 * k) := by nlinarith
  have h4 : k * (f * W1) = k * (1000 * q + r) := by rw [hq]
  have h5 : k * r ≤ k * 999 := Nat.mul_le_mul_left k (by omega)
  nlinarith


theorem baseSupplyUnit_pos : 0 < baseSupplyUnit := by decide

/-- closed form of `reservedValue` for an active order with a non-zero minimum match: never a panic, never
    negative, and at least the sum of the per-match worst cases `fee1 − perMatchDelta(x_j)`. -/
theorem reservedValue_spec (o : Order) (pm : Nat → Int) (ver : Nat)
    (hna : archived o.state = false) (hm : 0 < o.minUnitsMatch) :
    ∃ R : Int, reservedValue o pm ver = .ok R ∧ 0 ≤ R ∧
      (toSatoshis o.unitsUnfulfilled % toSatoshis o.minUnitsMatch = 0 →
        ((toSatoshis o.unitsUnfulfilled / toSatoshis o.minUnitsMatch : Nat) : Int) *
          ((estimateTraderFee 1 o.maxBatchFeeRate ver : Int) - pm (toSatoshis o.minUnitsMatch)) ≤ R) ∧
      (toSatoshis o.unitsUnfulfilled % toSatoshis o.minUnitsMatch ≠ 0 →
        (((toSatoshis o.unitsUnfulfilled / toSatoshis o.minUnitsMatch : Nat) : Int) - 1) *
          ((estimateTraderFee 1 o.maxBatchFeeRate ver : Int) - pm (toSatoshis o.minUnitsMatch)) +
        ((estimateTraderFee 1 o.maxBatchFeeRate ver : Int) -
          pm (toSatoshis o.minUnitsMatch + toSatoshis o.unitsUnfulfilled % toSatoshis o.minUnitsMatch)) ≤ R) := by
  have hmpos : 0 < toSatoshis o.minUnitsMatch := Nat.mul_pos hm baseSupplyUnit_pos
  generalize hU : toSatoshis o.unitsUnfulfilled = U
  generalize hM : toSatoshis o.minUnitsMatch = m at hmpos
  generalize hF : (estimateTraderFee 1 o.maxBatchFeeRate ver : Int) = fee1
  have hdm := Nat.div_add_mod U m
  have hdmI : (m : Int) * ((U / m : Nat) : Int) + ((U % m : Nat) : Int) = (U : Int) := by exact_mod_cast hdm
  have hmne : m ≠ 0 := Nat.pos_iff_ne_zero.mp hmpos
  unfold reservedValue
  simp only [hna, hU, hM, hF, hmne, if_false, Bool.false_eq_true]
  by_cases hc : ((U / m : Nat) : Int) * (m : Int) < (U : Int)
  · -- remainder branch
    have hrem : U % m ≠ 0 := by
      intro h0
      have h0' : ((U % m : Nat) : Int) = 0 := by rw [h0]; rfl
      rw [h0'] at hdmI; nlinarith
    have hremval : (U : Int) - (((U / m : Nat) : Int) - 1) * (m : Int) = ((m + U % m : Nat) : Int) := by
      push_cast; nlinarith
    have hpos : (0 : Int) < ((m + U % m : Nat) : Int) := by
      exact_mod_cast Nat.add_pos_left hmpos _
    simp only [hc, if_true, hremval, hpos, Int.toNat_natCast]
    split
    · rename_i hneg
      refine ⟨_, rfl, by linarith, fun h => absurd h hrem, fun _ => ?_⟩
      nlinarith
    · rename_i hnn
      refine ⟨0, rfl, le_refl _, fun h => absurd h hrem, fun _ => ?_⟩
      nlinarith
  · have hrem : U % m = 0 := by
      by_contra h
      have : 0 < U % m := Nat.pos_of_ne_zero h
      have : (0 : Int) < ((U % m : Nat) : Int) := by exact_mod_cast this
      apply hc; nlinarith
    simp only [hc, if_false, lt_self_iff_false]
    split
    · rename_i hneg
      refine ⟨_, rfl, by linarith, fun _ => ?_, fun h => absurd hrem h⟩
      nlinarith
    · rename_i hnn
      refine ⟨0, rfl, le_refl _, fun _ => ?_, fun h => absurd hrem h⟩
      nlinarith


/-! ## bids -/

/-- what the premium base of a bid match adds to the matched amount (`SelfChanBalance` in the outbound market) -/
def sigma (o : Order) : Nat := if o.auctionType = btcOutboundLiquidity then o.selfChanBalance else 0

theorem bidPremiumAmt_eq (o : Order) (x : Nat) : bidPremiumAmt o x = x + sigma o := by
  unfold bidPremiumAmt sigma; split <;> simp

theorem sigma_le (o : Order) : sigma o ≤ o.selfChanBalance := by
  unfold sigma; split <;> simp

/-- worst case of one bid match as the reserve sees it, bounded from below -/
theorem bid_pm_lower (fs : FeeSchedule) (o : Order) (x : Nat) :
    (cRate o.fixedRate o.leaseDuration * (1 - eps) + eRate fs) * ((x + sigma o : Nat) : ℚ) - 2
        + o.selfChanBalance + fs.baseFee < ((-(bidPerMatch fs o x) : Int) : ℚ) := by
  unfold bidPerMatch takerDelta
  rw [bidPremiumAmt_eq]
  have h1 := premium_gt (x + sigma o) o.fixedRate o.leaseDuration
  have h2 := executionFee_gt fs (x + sigma o)
  push_cast at h1 h2 ⊢
  nlinarith

/-- what one verified bid match debits (without chain fee), bounded from above -/
theorem bid_match_upper (fs : FeeSchedule) (o : Order) (f : Fill) (hp : f.price ≤ o.fixedRate) :
    ((bidMatchDebit fs o f : Int) : ℚ) ≤
      (cRate o.fixedRate o.leaseDuration * (1 + eps) + eRate fs) * ((toSatoshis f.units + sigma o : Nat) : ℚ)
        + o.selfChanBalance + fs.baseFee := by
  unfold bidMatchDebit takerDelta
  rw [bidPremiumAmt_eq]
  have h1 := premium_le (toSatoshis f.units + sigma o) f.price o.leaseDuration
  have h2 := executionFee_le fs (toSatoshis f.units + sigma o)
  have hc := cRate_mono o.leaseDuration hp
  have hy : (0 : ℚ) ≤ ((toSatoshis f.units + sigma o : Nat) : ℚ) := by positivity
  have he : (0 : ℚ) ≤ 1 + eps := by have := eps_pos; linarith
  have h3 : ((toSatoshis f.units + sigma o : Nat) : ℚ) * cRate f.price o.leaseDuration * (1 + eps) ≤
      ((toSatoshis f.units + sigma o : Nat) : ℚ) * cRate o.fixedRate o.leaseDuration * (1 + eps) :=
    mul_le_mul_of_nonneg_right (mul_le_mul_of_nonneg_left hc hy) he
  rw [show Int.neg (-(premium (toSatoshis f.units + sigma o) f.price o.leaseDuration : Int) - (o.selfChanBalance : Int)
        - (executionFee fs (toSatoshis f.units + sigma o) : Int)) =
      (premium (toSatoshis f.units + sigma o) f.price o.leaseDuration : Int) + (o.selfChanBalance : Int)
        + (executionFee fs (toSatoshis f.units + sigma o) : Int) by show -_ = _; ring]
  push_cast at h1 h2 h3 ⊢
  nlinarith

theorem toSatoshis_mono {a b : Nat} (h : a ≤ b) : toSatoshis a ≤ toSatoshis b := by
  unfold toSatoshis; exact Nat.mul_le_mul_right _ h

theorem toSatoshis_add (a b : Nat) : toSatoshis (a + b) = toSatoshis a + toSatoshis b := by
  unfold toSatoshis; ring

theorem bid_fills_upper (fs : FeeSchedule) (o : Order) (hb : o.isBid = true) (fl : List Fill)
    (h : ∀ f ∈ fl, f.price ≤ o.fixedRate) :
    (((fl.map (matchDebit fs o)).sum : Int) : ℚ) ≤
      (cRate o.fixedRate o.leaseDuration * (1 + eps) + eRate fs) *
          ((toSatoshis (fillsUnits fl) : ℚ) + (fl.length : ℚ) * (sigma o : ℚ))
        + (fl.length : ℚ) * ((o.selfChanBalance : ℚ) + fs.baseFee) := by
  induction fl with
  | nil => simp [fillsUnits, toSatoshis]
  | cons f rest ih =>
    have ih' := ih (fun g hg => h g (List.mem_cons_of_mem _ hg))
    have hf := bid_match_upper fs o f (h f List.mem_cons_self)
    simp only [List.map_cons, List.sum_cons, List.length_cons, fillsUnits] at ih' ⊢
    rw [toSatoshis_add]
    have : matchDebit fs o f = bidMatchDebit fs o f := by unfold matchDebit; simp [hb]
    rw [this]
    push_cast at hf ih' ⊢
    nlinarith

theorem traderWeight_mono_wit (k v w : Nat) (h : traderWitness v ≤ traderWitness w) :
    traderWeight k v ≤ traderWeight k w := by
  unfold traderWeight; omega

/-- chain fee of a batch with `k ≥ 1` of the order's matches ≤ `k` worst-case single-channel fees of the reserve -/
theorem batch_fee_le (o : Order) (ver : Nat) (b : BatchFills) (hfloor : feePerKwFloor ≤ o.maxBatchFeeRate)
    (hr : b.feeRate ≤ o.maxBatchFeeRate) (hv : traderWitness b.ver ≤ traderWitness ver)
    (hk1 : 1 ≤ b.fills.length) (hk2 : b.fills.length ≤ 10 ^ 7) :
    estimateTraderFee b.fills.length b.feeRate b.ver ≤ b.fills.length * estimateTraderFee 1 o.maxBatchFeeRate ver := by
  have h1 := estimateTraderFee_mono_rate b.fills.length b.ver hr
  have h2 : estimateTraderFee b.fills.length o.maxBatchFeeRate b.ver ≤
      estimateTraderFee b.fills.length o.maxBatchFeeRate ver := by
    unfold estimateTraderFee
    exact Nat.div_le_div_right (Nat.mul_le_mul_left _ (traderWeight_mono_wit _ _ _ hv))
  have h5 : 5 ≤ o.maxBatchFeeRate := le_trans (by decide) hfloor
  have h3 := traderFee_subadditive_aux b.fills.length o.maxBatchFeeRate ver hk1 h5 hk2
  omega

/-- the admissibility of a batch sequence for an order: the quantifier of the property -/
structure Admissible (o : Order) (ver : Nat) (priceOk : Nat → Prop) (bs : List BatchFills) : Prop where
  /-- every fill respects the minimum match size and a clearing price on the order's side of its rate -/
  fills : ∀ b ∈ bs, ∀ f ∈ b.fills, o.minUnitsMatch ≤ f.units ∧ priceOk f.price
  /-- every batch fee rate is at most the order's maximum -/
  feeRate : ∀ b ∈ bs, b.feeRate ≤ o.maxBatchFeeRate
  /-- the account version of a later batch does not take a larger witness than the one reserved for -/
  version : ∀ b ∈ bs, traderWitness b.ver ≤ traderWitness ver
  /-- a batch that involves the order has at least one match (and fewer than 10^7, no `uint32` wrap) -/
  nonempty : ∀ b ∈ bs, 1 ≤ b.fills.length ∧ b.fills.length ≤ 10 ^ 7
  /-- the order is never over-filled -/
  total : totalUnits bs ≤ o.unitsUnfulfilled

theorem fills_units_ge (m : Nat) (fl : List Fill) (h : ∀ f ∈ fl, m ≤ f.units) : fl.length * m ≤ fillsUnits fl := by
  induction fl with
  | nil => simp [fillsUnits]
  | cons f rest ih =>
    have := ih (fun g hg => h g (List.mem_cons_of_mem _ hg))
    have hf := h f List.mem_cons_self
    simp only [fillsUnits, List.map_cons, List.sum_cons, List.length_cons] at this ⊢
    nlinarith

theorem total_units_ge (m : Nat) (bs : List BatchFills) (h : ∀ b ∈ bs, ∀ f ∈ b.fills, m ≤ f.units) :
    totalFills bs * m ≤ totalUnits bs := by
  induction bs with
  | nil => simp [totalFills, totalUnits]
  | cons b rest ih =>
    have := ih (fun c hc => h c (List.mem_cons_of_mem _ hc))
    have hb := fills_units_ge m b.fills (h b List.mem_cons_self)
    simp only [totalFills, totalUnits, List.map_cons, List.sum_cons] at this ⊢
    nlinarith

theorem bid_batches_upper (fs : FeeSchedule) (o : Order) (ver : Nat) (hb : o.isBid = true)
    (hfloor : feePerKwFloor ≤ o.maxBatchFeeRate) (bs : List BatchFills)
    (hp : ∀ b ∈ bs, ∀ f ∈ b.fills, f.price ≤ o.fixedRate)
    (hr : ∀ b ∈ bs, b.feeRate ≤ o.maxBatchFeeRate)
    (hv : ∀ b ∈ bs, traderWitness b.ver ≤ traderWitness ver)
    (hk : ∀ b ∈ bs, 1 ≤ b.fills.length ∧ b.fills.length ≤ 10 ^ 7) :
    ((totalDebit fs o bs : Int) : ℚ) ≤
      (cRate o.fixedRate o.leaseDuration * (1 + eps) + eRate fs) *
          ((toSatoshis (totalUnits bs) : ℚ) + (totalFills bs : ℚ) * (sigma o : ℚ))
        + (totalFills bs : ℚ) * ((o.selfChanBalance : ℚ) + fs.baseFee + (estimateTraderFee 1 o.maxBatchFeeRate ver : ℚ)) := by
  induction bs with
  | nil => simp [totalDebit, totalUnits, totalFills, toSatoshis]
  | cons b rest ih =>
    have ih' := ih (fun c hc => hp c (List.mem_cons_of_mem _ hc)) (fun c hc => hr c (List.mem_cons_of_mem _ hc))
      (fun c hc => hv c (List.mem_cons_of_mem _ hc)) (fun c hc => hk c (List.mem_cons_of_mem _ hc))
    have hfl := bid_fills_upper fs o hb b.fills (hp b List.mem_cons_self)
    have hfee := batch_fee_le o ver b hfloor (hr b List.mem_cons_self) (hv b List.mem_cons_self)
      (hk b List.mem_cons_self).1 (hk b List.mem_cons_self).2
    have hfeeq : ((estimateTraderFee b.fills.length b.feeRate b.ver : Nat) : ℚ) ≤
        (b.fills.length : ℚ) * (estimateTraderFee 1 o.maxBatchFeeRate ver : ℚ) := by exact_mod_cast hfee
    simp only [totalDebit, totalUnits, totalFills, List.map_cons, List.sum_cons, batchDebit] at ih' ⊢
    rw [toSatoshis_add]
    push_cast at hfl ih' ⊢
    nlinarith

/-- the last arithmetic step for bids -/
theorem bid_final (c e G X Y k N D R : ℚ) (hc : 0 ≤ c) (he : 0 ≤ e) (hXY : X ≤ Y) (hX : 0 ≤ X)
    (hkN : k ≤ N) (hG : 2 ≤ G) (hcY : c * Y ≤ 2 ^ 48)
    (hD : D ≤ (c * (1 + eps) + e) * X + k * G)
    (hR : (c * (1 - eps) + e) * Y - 2 * N + N * G < R) : D < R + 2 * k + 1 := by
  have h1 : 0 ≤ (c + e) * (Y - X) := mul_nonneg (add_nonneg hc he) (sub_nonneg.2 hXY)
  have h2 : 0 ≤ (N - k) * (G - 2) := mul_nonneg (sub_nonneg.2 hkN) (sub_nonneg.2 hG)
  have hce : 0 ≤ c * eps := mul_nonneg hc (le_of_lt eps_pos)
  have h3 : c * eps * X ≤ c * eps * Y := mul_le_mul_of_nonneg_left hXY hce
  have h4 : c * Y * eps ≤ 2 ^ 48 * eps := mul_le_mul_of_nonneg_right hcY (le_of_lt eps_pos)
  have h5 : (2 : ℚ) ^ 48 * eps = 1 / 4 := by unfold eps; norm_num
  nlinarith


/-! ## asks -/

theorem ask_pm_lower (fs : FeeSchedule) (o : Order) (x : Nat) :
    (1 - cRate o.fixedRate o.leaseDuration * (1 + eps) + eRate fs) * (x : ℚ) - 1 + fs.baseFee
      < ((-(askPerMatch fs o x) : Int) : ℚ) := by
  unfold askPerMatch makerDelta
  have h1 := premium_le x o.fixedRate o.leaseDuration
  have h2 := executionFee_gt fs x
  push_cast at h1 h2 ⊢
  nlinarith

theorem ask_match_upper (fs : FeeSchedule) (o : Order) (f : Fill) (hp : o.fixedRate ≤ f.price) :
    ((askMatchDebit fs o f : Int) : ℚ) ≤
      (1 - cRate o.fixedRate o.leaseDuration * (1 - eps) + eRate fs) * (toSatoshis f.units : ℚ) + 1 + fs.baseFee := by
  unfold askMatchDebit makerDelta
  simp only
  set x := toSatoshis f.units
  set y := (if o.auctionType = btcOutboundLiquidity then x + f.otherSelf else x) with hy
  have hxy : x ≤ y := by rw [hy]; split <;> omega
  have hxyq : (x : ℚ) ≤ y := by exact_mod_cast hxy
  have h1 := premium_gt y f.price o.leaseDuration
  have h2 := executionFee_le fs x
  have hc := cRate_mono o.leaseDuration hp
  have hc0 := cRate_nonneg o.fixedRate o.leaseDuration
  have hx0 : (0 : ℚ) ≤ x := by positivity
  have he : (0 : ℚ) ≤ 1 - eps := by unfold eps; norm_num
  have h3 : (x : ℚ) * cRate o.fixedRate o.leaseDuration * (1 - eps) ≤ (y : ℚ) * cRate f.price o.leaseDuration * (1 - eps) :=
    mul_le_mul_of_nonneg_right (mul_le_mul hxyq hc hc0 (le_trans hx0 hxyq)) he
  rw [show Int.neg (-(x : Int) + (premium y f.price o.leaseDuration : Int) - (executionFee fs x : Int)) =
      (x : Int) - (premium y f.price o.leaseDuration : Int) + (executionFee fs x : Int) by show -_ = _; ring]
  push_cast at h1 h2 h3 ⊢
  nlinarith

theorem ask_fills_upper (fs : FeeSchedule) (o : Order) (hb : o.isBid = false) (fl : List Fill)
    (h : ∀ f ∈ fl, o.fixedRate ≤ f.price) :
    (((fl.map (matchDebit fs o)).sum : Int) : ℚ) ≤
      (1 - cRate o.fixedRate o.leaseDuration * (1 - eps) + eRate fs) * (toSatoshis (fillsUnits fl) : ℚ)
        + (fl.length : ℚ) * (1 + fs.baseFee) := by
  induction fl with
  | nil => simp [fillsUnits, toSatoshis]
  | cons f rest ih =>
    have ih' := ih (fun g hg => h g (List.mem_cons_of_mem _ hg))
    have hf := ask_match_upper fs o f (h f List.mem_cons_self)
    simp only [List.map_cons, List.sum_cons, List.length_cons, fillsUnits] at ih' ⊢
    rw [toSatoshis_add]
    have : matchDebit fs o f = askMatchDebit fs o f := by unfold matchDebit; simp [hb]
    rw [this]
    push_cast at hf ih' ⊢
    nlinarith

theorem ask_batches_upper (fs : FeeSchedule) (o : Order) (ver : Nat) (hb : o.isBid = false)
    (hfloor : feePerKwFloor ≤ o.maxBatchFeeRate) (bs : List BatchFills)
    (hp : ∀ b ∈ bs, ∀ f ∈ b.fills, o.fixedRate ≤ f.price)
    (hr : ∀ b ∈ bs, b.feeRate ≤ o.maxBatchFeeRate)
    (hv : ∀ b ∈ bs, traderWitness b.ver ≤ traderWitness ver)
    (hk : ∀ b ∈ bs, 1 ≤ b.fills.length ∧ b.fills.length ≤ 10 ^ 7) :
    ((totalDebit fs o bs : Int) : ℚ) ≤
      (1 - cRate o.fixedRate o.leaseDuration * (1 - eps) + eRate fs) * (toSatoshis (totalUnits bs) : ℚ)
        + (totalFills bs : ℚ) * (1 + fs.baseFee + (estimateTraderFee 1 o.maxBatchFeeRate ver : ℚ)) := by
  induction bs with
  | nil => simp [totalDebit, totalUnits, totalFills, toSatoshis]
  | cons b rest ih =>
    have ih' := ih (fun c hc => hp c (List.mem_cons_of_mem _ hc)) (fun c hc => hr c (List.mem_cons_of_mem _ hc))
      (fun c hc => hv c (List.mem_cons_of_mem _ hc)) (fun c hc => hk c (List.mem_cons_of_mem _ hc))
    have hfl := ask_fills_upper fs o hb b.fills (hp b List.mem_cons_self)
    have hfee := batch_fee_le o ver b hfloor (hr b List.mem_cons_self) (hv b List.mem_cons_self)
      (hk b List.mem_cons_self).1 (hk b List.mem_cons_self).2
    have hfeeq : ((estimateTraderFee b.fills.length b.feeRate b.ver : Nat) : ℚ) ≤
        (b.fills.length : ℚ) * (estimateTraderFee 1 o.maxBatchFeeRate ver : ℚ) := by exact_mod_cast hfee
    simp only [totalDebit, totalUnits, totalFills, List.map_cons, List.sum_cons, batchDebit] at ih' ⊢
    rw [toSatoshis_add]
    push_cast at hfl ih' ⊢
    nlinarith

/-- the last arithmetic step for asks -/
theorem ask_final (c e G F U k N D R : ℚ) (hc : 0 ≤ c) (hc1 : c ≤ 1) (he : 0 ≤ e) (hFU : F ≤ U) (hF : 0 ≤ F)
    (hkN : k ≤ N) (hG : 1 ≤ G) (hcU : c * U ≤ 2 ^ 48)
    (hD : D ≤ (1 - c * (1 - eps) + e) * F + k * (1 + G))
    (hR : (1 - c * (1 + eps) + e) * U - N + N * G < R) : D < R + 2 * k + 1 := by
  have h1 : 0 ≤ (1 - c + e) * (U - F) := mul_nonneg (by linarith) (sub_nonneg.2 hFU)
  have h2 : 0 ≤ (N - k) * (G - 1) := mul_nonneg (sub_nonneg.2 hkN) (sub_nonneg.2 hG)
  have hce : 0 ≤ c * eps := mul_nonneg hc (le_of_lt eps_pos)
  have h3 : c * eps * F ≤ c * eps * U := mul_le_mul_of_nonneg_left hFU hce
  have h4 : c * U * eps ≤ 2 ^ 48 * eps := mul_le_mul_of_nonneg_right hcU (le_of_lt eps_pos)
  have h5 : (2 : ℚ) ^ 48 * eps = 1 / 4 := by unfold eps; norm_num
  nlinarith

theorem totalFills_zero (bs : List BatchFills) (hk : ∀ b ∈ bs, 1 ≤ b.fills.length) (h0 : totalFills bs = 0) :
    bs = [] := by
  cases bs with
  | nil => rfl
  | cons b rest =>
    have := hk b List.mem_cons_self
    simp only [totalFills, List.map_cons, List.sum_cons] at h0
    omega


/-- from the closed form of `reservedValue` to a linear lower bound: if every per-match worst case `δ(x)` exceeds
    `A·x + B`, the reserve exceeds `A·U + N·B`. -/
theorem reserved_lower_generic (N U m r : ℕ) (A B δm δr R : ℚ) (hN : 1 ≤ N) (hU : U = m * N + r)
    (hδm : A * m + B < δm) (hδr : A * ((m + r : ℕ) : ℚ) + B < δr)
    (hex : r = 0 → (N : ℚ) * δm ≤ R) (hrem : r ≠ 0 → ((N : ℚ) - 1) * δm + δr ≤ R) :
    A * U + N * B < R := by
  have hNq : (1 : ℚ) ≤ N := by exact_mod_cast hN
  have hUq : (U : ℚ) = m * N + r := by exact_mod_cast hU
  by_cases h0 : r = 0
  · have h := hex h0
    subst h0
    have : (N : ℚ) * (A * m + B) < N * δm := mul_lt_mul_of_pos_left hδm (by linarith)
    rw [hUq]; push_cast; nlinarith
  · have h := hrem h0
    have : ((N : ℚ) - 1) * (A * m + B) ≤ (N - 1) * δm := mul_le_mul_of_nonneg_left (le_of_lt hδm) (by linarith)
    push_cast at hδr
    rw [hUq]; nlinarith


/-- per-order worst-case premium `c·(U + N·σ) ≤ 2^48` as a rational inequality -/
theorem premiumGuard_q (o : Order) (h : premiumGuard o = true) :
    cRate o.fixedRate o.leaseDuration *
      ((toSatoshis o.unitsUnfulfilled : ℚ) + (maxMatches o : ℚ) * (o.selfChanBalance : ℚ)) ≤ 2 ^ 48 := by
  unfold premiumGuard at h
  have h' := of_decide_eq_true h
  have hq : (((toSatoshis o.unitsUnfulfilled + maxMatches o * o.selfChanBalance) * o.fixedRate * o.leaseDuration : ℕ) : ℚ)
      ≤ ((2 ^ 48 * feeRateTotalParts : ℕ) : ℚ) := by exact_mod_cast h'
  have hK : (0 : ℚ) < (feeRateTotalParts : ℚ) := by exact_mod_cast feeRateTotalParts_pos
  unfold cRate
  rw [div_mul_eq_mul_div, div_le_iff₀ hK]
  push_cast at hq ⊢
  nlinarith

theorem maxMatches_eq (o : Order) (hm : 0 < o.minUnitsMatch) :
    toSatoshis o.unitsUnfulfilled / toSatoshis o.minUnitsMatch = maxMatches o := by
  unfold toSatoshis maxMatches
  exact Nat.mul_div_mul_right _ _ baseSupplyUnit_pos

/-- the property's guard for asks: the premium at the ask's own rate does not exceed the leased amount, for any
    amount — `rate · duration ≤ FeeRateTotalParts`. -/
def askGuard (o : Order) : Prop := o.fixedRate * o.leaseDuration ≤ feeRateTotalParts

instance (o : Order) : Decidable (askGuard o) := by unfold askGuard; infer_instance

theorem askGuard_q (o : Order) (h : askGuard o) : cRate o.fixedRate o.leaseDuration ≤ 1 := by
  unfold askGuard at h
  have hq : ((o.fixedRate * o.leaseDuration : ℕ) : ℚ) ≤ (feeRateTotalParts : ℚ) := by exact_mod_cast h
  have hK : (0 : ℚ) < (feeRateTotalParts : ℚ) := by exact_mod_cast feeRateTotalParts_pos
  unfold cRate
  rw [div_le_one hK]; push_cast at hq; exact hq

/-- reserved value of one order as an integer (0 where `ReservedValue` would panic) -/
def reservedOf (fs : FeeSchedule) (ver : Nat) (o : Order) : Int :=
  match orderReservedValue fs o ver with
  | .ok v => v
  | .panic => 0

/-- the running sum of `validateOrder` / the marshaler is the sum over exactly the account's own orders -/
theorem sumReserved_eq (fs : FeeSchedule) (acct : Account) (db : List Order) (rs : Int)
    (h : sumReserved fs acct db = some rs) :
    rs = ((db.filter (fun x => x.acctKey = acct.key)).map (reservedOf fs acct.version)).sum ∧
    ∀ x ∈ db, x.acctKey = acct.key → orderReservedValue fs x acct.version ≠ .panic := by
  induction db generalizing rs with
  | nil => simp [sumReserved] at h; simp [h]
  | cons x rest ih =>
    unfold sumReserved at h
    by_cases hk : x.acctKey = acct.key
    · simp only [hk, ne_eq, not_true_eq_false, if_false] at h
      cases hx : orderReservedValue fs x acct.version with
      | panic => simp [hx] at h
      | ok v =>
        simp only [hx] at h
        cases hr : sumReserved fs acct rest with
        | none => simp [hr] at h
        | some r =>
          simp only [hr, Option.map_some, Option.some.injEq] at h
          obtain ⟨e, hp⟩ := ih r hr
          refine ⟨?_, ?_⟩
          · simp [hk, reservedOf, hx, ← e, ← h]
          · intro y hy hyk
            rcases List.mem_cons.1 hy with rfl | hy'
            · simp [hx]
            · exact hp y hy' hyk
    · simp only [hk, ne_eq, not_false_eq_true, if_true] at h
      obtain ⟨e, hp⟩ := ih rs h
      refine ⟨by simp [hk, e], ?_⟩
      intro y hy hyk
      rcases List.mem_cons.1 hy with rfl | hy'
      · exact absurd hyk hk
      · exact hp y hy' hyk


/-- accounts only move up through the known versions; a later (known) version never needs a larger witness than an
    earlier one (regenerated `knownAccountVersions`, `taprootVersions`, witness sizes) -/
theorem traderWitness_upgrade {v w : Nat} (hv : v ∈ knownAccountVersions) (hw : w ∈ knownAccountVersions)
    (h : v ≤ w) : traderWitness w ≤ traderWitness v := by
  have key : ∀ a ∈ knownAccountVersions, ∀ b ∈ knownAccountVersions, a ≤ b → traderWitness b ≤ traderWitness a := by
    decide
  exact key v hv w hw h

/-- the legacy witness is the largest, so a reserve computed for a legacy account covers every later version -/
theorem traderWitness_le_legacy (w : Nat) : traderWitness w ≤ traderWitness 0 := by
  rcases traderWitness_cases w with h | h <;> rw [h] <;> decide

/-- an active order whose `ReservedValue` does not panic has a non-zero minimum match -/
theorem min_pos_of_not_panic (fs : FeeSchedule) (o : Order) (ver : Nat) (hna : archived o.state = false)
    (h : orderReservedValue fs o ver ≠ .panic) : 0 < o.minUnitsMatch := by
  by_contra h0
  have h0' : o.minUnitsMatch = 0 := by omega
  apply h
  unfold orderReservedValue reservedValue toSatoshis
  simp [hna, h0']

end Pool.C11
