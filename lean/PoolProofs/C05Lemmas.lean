import PoolModel.C05
/-! Helper lemmas for C05 (headline theorems live in `PoolProofs/C05.lean`). -/
set_option linter.unusedSimpArgs false
set_option linter.unusedVariables false
namespace Pool.C05
open Pool.Gen.C05

/-! ### the regenerated programs, evaluated -/

/-- The interpreted regenerated `manager.BatchSign` is exactly: sign; on error return without staging;
stage; on error return without the signatures; release.  This is the obligation that breaks when the
statement order (or an error return's operands) in the Go source changes. -/
theorem batchSign_eq_spec (s : St) (f : Faults) : batchSign s f = batchSignSpec s f := by
  obtain ⟨pending, db⟩ := s
  unfold batchSign batchSignWith batchSignSpec
  simp only [batchSignProg, List.foldl]
  cases hp : pending with
  | none => simp [bsStmt]
  | some b =>
    cases hs : signerSign db b f with
    | mk r c =>
      cases r with
      | panic => simp [bsStmt, hs]
      | err e => simp [bsStmt, hs]
      | ok sigs nonces =>
        cases hst : storePending db b f c.acalls with
        | none => simp [bsStmt, hs, hst]
        | some db' => simp [bsStmt, hs, hst]

/-! ### findInput -/

theorem findInputFrom_spec (op : OutPoint) (l : List OutPoint) (i : Nat) (acc : Option Nat) (r : Nat)
    (h : findInputFrom op l i acc = some r) :
    acc = some r ∨ (i ≤ r ∧ l[r - i]? = some op) := by
  induction l generalizing i acc with
  | nil => simp [findInputFrom] at h; exact Or.inl h
  | cons x xs ih =>
    simp only [findInputFrom] at h
    rcases ih _ _ h with h1 | ⟨h2, h3⟩
    · by_cases hx : x = op
      · simp [hx] at h1
        subst h1
        right; simp [hx]
      · simp [hx] at h1; exact Or.inl h1
    · right
      refine ⟨by omega, ?_⟩
      have : r - i = (r - (i + 1)) + 1 := by omega
      rw [this]; simpa using h3

/-- the index found really is an input of the transaction that spends the given outpoint -/
theorem findInput_spec (ins : List OutPoint) (op : OutPoint) (r : Nat)
    (h : findInput ins op = some r) : ins[r]? = some op := by
  unfold findInput at h
  rcases findInputFrom_spec op ins 0 none r h with h1 | ⟨_, h2⟩
  · cases h1
  · simpa using h2

theorem getAccount_key (db : DB) (k : Key) (a : Acct) (h : getAccount db k = some a) : a.key = k := by
  unfold getAccount at h
  have := List.find?_some h
  simpa using this

/-! ### the signer loop -/

/-- pointwise relation between two lists of equal length (core-only stand-in for `Forall2`) -/
inductive Forall2 {α β : Type} (R : α → β → Prop) : List α → List β → Prop
  | nil : Forall2 R [] []
  | cons {a b l₁ l₂} : R a b → Forall2 R l₁ l₂ → Forall2 R (a :: l₁) (b :: l₂)

theorem Forall2.exists_of_mem_left {α β : Type} {R : α → β → Prop} {l₁ : List α} {l₂ : List β}
    (h : Forall2 R l₁ l₂) {a : α} (ha : a ∈ l₁) : ∃ b, b ∈ l₂ ∧ R a b := by
  induction h with
  | nil => cases ha
  | cons hr _ ih =>
    simp only [List.mem_cons] at ha
    rcases ha with rfl | ha
    · exact ⟨_, by simp, hr⟩
    · obtain ⟨b, hb, hR⟩ := ih ha
      exact ⟨b, by simp [hb], hR⟩

theorem Forall2.length_eq {α β : Type} {R : α → β → Prop} {l₁ : List α} {l₂ : List β}
    (h : Forall2 R l₁ l₂) : l₁.length = l₂.length := by
  induction h with
  | nil => rfl
  | cons _ _ ih => simp [ih]

/-- `σ` is the ideal signature `batchSigner.Sign` produces for diff `d`: by the stored account's key, over
the sighash preimage of `tx` at the input that spends the STORED outpoint -/
def SigFor (db : DB) (tx : Tx) (prev : List Out) (d : Diff) (σ : Sig) : Prop :=
  ∃ a idx, getAccount db d.acct = some a ∧ findInput tx.ins a.outpoint = some idx ∧
    tx.ins[idx]? = some a.outpoint ∧ σ.key = d.acct ∧ σ.forOut = a.out ∧ σ.sver = a.version ∧
    σ.msg = (if a.version ≥ versionTaprootEnabled
             then preimage true htTaproot tx idx (prev.take tx.ins.length)
             else preimage false htP2wsh tx idx [a.out])

theorem signLoop_ok (db : DB) (b : Batch) (f : Faults) (ds : List Diff) (c : Ctr)
    (sigs : List Sig) (nonces : List Key) (S : List Sig) (N : List Key) (c' : Ctr)
    (h : signLoop db b f ds c sigs nonces = (.ok S N, c')) :
    ∃ new, S = sigs.reverse ++ new ∧ Forall2 (SigFor db b.tx b.prevOuts) ds new := by
  induction ds generalizing c sigs nonces with
  | nil =>
    simp [signLoop] at h
    exact ⟨[], by simp [h.1.1], Forall2.nil⟩
  | cons d rest ih =>
    simp only [signLoop] at h
    split at h
    · simp at h
    · split at h
      · simp at h
      · rename_i a ha
        split at h
        · simp at h
        · rename_i idx hidx
          split at h
          · rename_i hv
            split at h
            · simp at h
            · split at h
              · simp at h
              · split at h
                · simp at h
                · split at h
                  · simp at h
                  · obtain ⟨new, hS, hF⟩ := ih _ _ _ h
                    refine ⟨(⟨a.key, a.out, preimage true htTaproot b.tx idx (b.prevOuts.take b.tx.ins.length), a.version⟩ : Sig) :: new,
                      by simp [hS], Forall2.cons ?_ hF⟩
                    exact ⟨a, idx, ha, hidx, findInput_spec _ _ _ hidx,
                      getAccount_key _ _ _ ha, rfl, rfl, by simp [hv]⟩
          · rename_i hv
            split at h
            · simp at h
            · obtain ⟨new, hS, hF⟩ := ih _ _ _ h
              refine ⟨(⟨a.key, a.out, preimage false htP2wsh b.tx idx [a.out], a.version⟩ : Sig) :: new,
                by simp [hS], Forall2.cons ?_ hF⟩
              exact ⟨a, idx, ha, hidx, findInput_spec _ _ _ hidx,
                getAccount_key _ _ _ ha, rfl, rfl, by simp [hv]⟩

theorem signerSign_ok (db : DB) (b : Batch) (f : Faults) (S : List Sig) (N : List Key) (c : Ctr)
    (h : signerSign db b f = (.ok S N, c)) :
    Forall2 (SigFor db b.tx b.prevOuts) b.diffs S := by
  obtain ⟨new, hS, hF⟩ := signLoop_ok db b f b.diffs _ _ _ S N c h
  simpa [hS] using hF

/-! ### the storer -/

theorem storerRows_keys (db : DB) (f : Faults) (ds : List Diff) (n : Nat) (rows : List Acct)
    (h : storerRows db f ds n = some rows) : rows.map (·.key) = ds.map (·.acct) := by
  induction ds generalizing n rows with
  | nil => simp [storerRows] at h; simp [h]
  | cons d rest ih =>
    simp only [storerRows] at h
    split at h
    · simp at h
    · split at h
      · simp at h
      · rename_i a ha
        cases hr : storerRows db f rest (n + 1) with
        | none => simp [hr] at h
        | some rs =>
          simp [hr] at h
          subst h
          have hk := getAccount_key _ _ _ ha
          have : (stagedRow a d).key = a.key := by
            unfold stagedRow; split <;> rfl
          simp [this, hk, ih _ _ hr]

/-- `r` is the row `batchStorer.StorePendingBatch` stages for diff `d`: the STORED account with the diff's
modifiers applied (re-created: the new outpoint / output and – only upwards – the new version; used up: the
row stays on the output the batch spends) -/
def RowFor (db : DB) (d : Diff) (r : Acct) : Prop :=
  ∃ a, getAccount db d.acct = some a ∧ r = stagedRow a d

theorem storerRows_rows (db : DB) (f : Faults) (ds : List Diff) (n : Nat) (rows : List Acct)
    (h : storerRows db f ds n = some rows) : Forall2 (RowFor db) ds rows := by
  induction ds generalizing n rows with
  | nil => simp [storerRows] at h; subst h; exact Forall2.nil
  | cons d rest ih =>
    simp only [storerRows] at h
    split at h
    · simp at h
    · split at h
      · simp at h
      · rename_i a ha
        cases hr : storerRows db f rest (n + 1) with
        | none => simp [hr] at h
        | some rs =>
          simp [hr] at h
          subst h
          exact Forall2.cons ⟨a, ha, rfl⟩ (ih _ _ hr)

theorem storePending_some (db : DB) (b : Batch) (f : Faults) (n : Nat) (db' : DB)
    (h : storePending db b f n = some db') :
    ∃ rows, db' = { db with staged := some { id := b.id, tid := b.tid, tx := b.tx, rows := rows } } ∧
      rows.map (·.key) = b.diffs.map (·.acct) ∧ f.st = .none ∧ b.snapOk = true ∧
      Forall2 (RowFor db) b.diffs rows := by
  unfold storePending at h
  split at h
  · simp at h
  · split at h
    · simp at h
    · rename_i rows hrows
      split at h
      · simp at h
      · simp at h
      · rename_i hst
        split at h
        · simp at h
        · rename_i hsnap
          simp at h
          exact ⟨rows, h.symm, storerRows_keys _ _ _ _ _ hrows, hst, by simpa using hsnap,
            storerRows_rows _ _ _ _ _ hrows⟩

/-! ### one `BatchSign` -/

theorem batchSign_ok (s : St) (f : Faults) (s' : St) (S : List Sig) (N : List Key)
    (h : batchSign s f = (s', .ok S N)) :
    ∃ b rows, s.pending = some b ∧ Forall2 (SigFor s.db b.tx b.prevOuts) b.diffs S ∧
      s' = { s with db := { s.db with staged := some { id := b.id, tid := b.tid, tx := b.tx, rows := rows } } } ∧
      rows.map (·.key) = b.diffs.map (·.acct) ∧ f.st = .none ∧ Forall2 (RowFor s.db) b.diffs rows := by
  rw [batchSign_eq_spec] at h
  unfold batchSignSpec at h
  split at h
  · simp at h
  · rename_i b hb
    split at h
    · simp at h
    · simp at h
    · rename_i sigs nonces c hs
      split at h
      · simp at h
      · rename_i db' hst
        simp at h
        obtain ⟨h1, h2, h3⟩ := h
        subst h2 h3
        obtain ⟨rows, hdb, hk, hf, _, hrf⟩ := storePending_some _ _ _ _ _ hst
        exact ⟨b, rows, hb, signerSign_ok _ _ _ _ _ _ hs, by rw [← h1, hdb], hk, hf, hrf⟩

theorem batchSign_not_ok_db (s : St) (f : Faults) (s' : St) (o : SignOut)
    (h : batchSign s f = (s', o)) (hno : ∀ S N, o ≠ .ok S N) : s' = s := by
  rw [batchSign_eq_spec] at h
  unfold batchSignSpec at h
  split at h
  · simp at h; exact h.1.symm
  · split at h
    · simp at h; exact h.1.symm
    · simp at h; exact h.1.symm
    · split at h
      · simp at h; exact h.1.symm
      · simp at h
        exact absurd h.2.symm (hno _ _)

theorem batchSign_pending (s : St) (f : Faults) : (batchSign s f).1.pending = s.pending := by
  rw [batchSign_eq_spec]
  unfold batchSignSpec
  split
  · rfl
  · split
    · rfl
    · rfl
    · split <;> rfl

/-- a failing staging step can never produce a release -/
theorem batchSign_store_fail (s : St) (f : Faults) (b : Batch) (S : List Sig) (N : List Key) (c : Ctr)
    (hb : s.pending = some b) (hs : signerSign s.db b f = (.ok S N, c))
    (hst : storePending s.db b f c.acalls = none) : batchSign s f = (s, .errStore) := by
  rw [batchSign_eq_spec]; unfold batchSignSpec; simp [hb, hs, hst]

/-- a failing signer never reaches the storer -/
theorem batchSign_sign_fail (s : St) (f : Faults) (b : Batch) (e : SignErr) (c : Ctr)
    (hb : s.pending = some b) (hs : signerSign s.db b f = (.err e, c)) :
    batchSign s f = (s, .errSign e) := by
  rw [batchSign_eq_spec]; unfold batchSignSpec; simp [hb, hs]

end Pool.C05
