import PoolProofs.C10Lemmas
/-! BigSize and TLV-stream round trips (lnd tlv). -/
namespace Pool.C10

theorem single_eq_beEnc1 (v : Nat) (h : v < 256) : [UInt8.ofNat v] = beEnc 1 v := by
  simp [beEnc, leEnc, Nat.mod_eq_of_lt h]

theorem encBigSize_ne_nil (v : Nat) : encBigSize v ≠ [] := by
  unfold encBigSize; split <;> (try split) <;> (try split) <;> simp

theorem readBigSize_enc (v : Nat) (rest : Bytes) (h : v < 2 ^ 64) :
    readBigSize (encBigSize v ++ rest) = .ok v rest := by
  unfold encBigSize readBigSize
  by_cases h1 : v < 0xfd
  · rw [if_pos h1, single_eq_beEnc1 v (by omega)]
    simp [readBE_enc 1 v rest (by omega), h1]
  · rw [if_neg h1]
    by_cases h2 : v ≤ 0xffff
    · rw [if_pos h2]
      have e : (0xfd : UInt8) :: beEnc 2 v ++ rest = beEnc 1 0xfd ++ (beEnc 2 v ++ rest) := by
        simp [beEnc, leEnc]
      rw [e]
      simp [readBE_enc 1 0xfd _ (by omega), readBE_enc 2 v rest (by omega), h1]
    · rw [if_neg h2]
      by_cases h3 : v ≤ 0xffffffff
      · rw [if_pos h3]
        have e : (0xfe : UInt8) :: beEnc 4 v ++ rest = beEnc 1 0xfe ++ (beEnc 4 v ++ rest) := by
          simp [beEnc, leEnc]
        rw [e]
        simp [readBE_enc 1 0xfe _ (by omega), readBE_enc 4 v rest (by omega), h2]
      · rw [if_neg h3]
        have e : (0xff : UInt8) :: beEnc 8 v ++ rest = beEnc 1 0xff ++ (beEnc 8 v ++ rest) := by
          simp [beEnc, leEnc]
        rw [e]
        simp [readBE_enc 1 0xff _ (by omega), readBE_enc 8 v rest (by omega), h3]

/-- the payload length of a well-formed record fits the length var-int -/
theorem payload_length_lt (r : TlvRec) (h : r.WF) : r.payload.length < 2 ^ 64 ∧ r.payload.length ≤ maxAlloc := by
  obtain ⟨_, h⟩ := h
  unfold TlvRec.payload maxAlloc
  cases hk : r.kind <;> cases hv : r.val <;> simp [hk, hv] at h ⊢ <;> first | omega | simp [encU8, encU64]

theorem readRecVal_enc (r : TlvRec) (rest : Bytes) (h : r.WF) :
    readRecVal r.kind r.payload.length (r.payload ++ rest) = .ok r.val rest := by
  have hl := (payload_length_lt r h).2
  obtain ⟨_, h⟩ := h
  unfold readRecVal TlvRec.payload at *
  cases hk : r.kind <;> cases hv : r.val <;> simp [hk, hv] at h hl ⊢
  · rw [if_pos (by simp [encU8])]; simp [readU8_enc _ rest h]
  · rw [if_pos (by simp [encU64])]; simp [readU64_enc _ rest h]
  · rw [if_neg (by omega)]; simp [take_append _ rest _ rfl]

/-- types strictly increasing, starting at or above `min` -/
def IncFrom : Nat → List TlvRec → Prop
  | _, [] => True
  | min, r :: rs => min ≤ r.typ ∧ IncFrom (r.typ + 1) rs

theorem decodeStreamAux_enc (known : List (Nat × RecKind)) (rs : List TlvRec) :
    ∀ (fuel min : Nat), rs.length < fuel → IncFrom min rs → (∀ r ∈ rs, r.WF) →
      (∀ r ∈ rs, known.lookup r.typ = some r.kind) →
      decodeStreamAux known fuel min (encStream rs) = .ok (rs.map fun r => (r.typ, some r.val)) [] := by
  induction rs with
  | nil =>
    intro fuel min hf _ _ _
    cases fuel with
    | zero => omega
    | succ f => simp [decodeStreamAux, encStream]
  | cons r rs ih =>
    intro fuel min hf hinc hwf hk
    cases fuel with
    | zero => omega
    | succ f =>
      obtain ⟨hmin, hinc'⟩ := hinc
      have hr := hwf r (List.mem_cons_self)
      have e : encStream (r :: rs) =
          encBigSize r.typ ++ (encBigSize r.payload.length ++ (r.payload ++ encStream rs)) := by
        simp [encStream, encRecord, List.append_assoc]
      have hne : (encStream (r :: rs)).isEmpty = false := by
        rw [e]
        cases h : encBigSize r.typ with
        | nil => exact absurd h (encBigSize_ne_nil _)
        | cons a b => rfl
      unfold decodeStreamAux
      rw [hne]
      simp only [Bool.false_eq_true, if_false]
      rw [e]
      have ih' := ih f (r.typ + 1) (by simp at hf; omega) hinc'
        (fun x hx => hwf x (List.mem_cons_of_mem _ hx)) (fun x hx => hk x (List.mem_cons_of_mem _ hx))
      simp only [bind_apply, readBigSize_enc r.typ _ hr.1, if_neg (Nat.not_lt.mpr hmin),
        readBigSize_enc _ _ (payload_length_lt r hr).1, hk r (List.mem_cons_self),
        readRecVal_enc r _ hr, ih', List.map_cons]

theorem encStream_length_ge (rs : List TlvRec) : rs.length ≤ (encStream rs).length := by
  induction rs with
  | nil => simp [encStream]
  | cons r rs ih =>
    have : 0 < (encBigSize r.typ).length := List.length_pos_iff.mpr (encBigSize_ne_nil _)
    simp [encStream, encRecord] at ih ⊢
    omega

/-- **TLV stream round trip**: records with strictly increasing types, each known to the decoding stream with
the same kind, decode to exactly the (type ↦ value) map, consuming the whole stream. -/
theorem decodeStream_enc (known : List (Nat × RecKind)) (rs : List TlvRec)
    (hinc : IncFrom 0 rs) (hwf : ∀ r ∈ rs, r.WF) (hk : ∀ r ∈ rs, known.lookup r.typ = some r.kind) :
    decodeStream known (encStream rs) = .ok (rs.map fun r => (r.typ, some r.val)) [] := by
  unfold decodeStream
  exact decodeStreamAux_enc known rs _ 0 (by have := encStream_length_ge rs; omega) hinc hwf hk

end Pool.C10
