import PoolProofs.BatchLemmas
import PoolProofs.BatchSpec
import PoolProofs.BatchExamples
/-! Helper lemmas of C02: the account-diff loop, the ending-state validation, and the agreement of the model's
wrapped `int64` arithmetic with the integer formulas of the spec inside the overflow guard. -/
set_option linter.unusedSimpArgs false
set_option linter.unusedVariables false
namespace Pool.Batch

/-! ## validateEndingState -/

theorem validateEndingState_ok {env : Env} {outs : List TxOut} {acct : Acct} {d : Diff}
    (h : validateEndingState env outs acct d = .ok ()) :
    if d.endingBalance < env.minNoDust then
      d.outpointIndex < 0 ∧ d.endingState ∈ Pool.Gen.Batch.dustEndingStates
    else
      d.endingState = Pool.Gen.Batch.recreatedEndingState ∧ 0 ≤ d.outpointIndex ∧
      ∃ out, outs[d.outpointIndex.toNat]? = some out ∧ out.value = d.endingBalance ∧
        env.acctScript acct.key (scriptVersion acct.version) acct.expiry = some out.script := by
  unfold validateEndingState at h
  split at h
  · rename_i hd
    simp only [hd, if_true]
    split at h <;> try contradiction
    rename_i hs
    split at h <;> try contradiction
    rename_i hi
    refine ⟨by omega, ?_⟩
    have : Pool.Gen.Batch.dustEndingStates.contains d.endingState = true := by
      revert hs; cases (Pool.Gen.Batch.dustEndingStates.contains d.endingState) <;> simp
    exact List.contains_iff_mem.mp this
  · rename_i hd
    simp only [hd, if_false]
    by_cases hs : (d.endingState != Pool.Gen.Batch.recreatedEndingState) = true
    · rw [if_pos hs] at h; cases h
    rw [if_neg hs] at h
    by_cases hi : d.outpointIndex < 0
    · rw [if_pos hi] at h; cases h
    rw [if_neg hi] at h
    by_cases hoob : d.outpointIndex ≥ i32 outs.length
    · rw [if_pos hoob] at h; cases h
    rw [if_neg hoob] at h
    cases hout : outs[d.outpointIndex.toNat]? with
    | none => rw [hout] at h; cases h
    | some out =>
      rw [hout] at h
      simp only at h
      by_cases hv : (out.value != d.endingBalance) = true
      · rw [if_pos hv] at h; cases h
      rw [if_neg hv] at h
      cases hs' : env.acctScript acct.key (scriptVersion acct.version) acct.expiry with
      | none => rw [hs'] at h; cases h
      | some s =>
        rw [hs'] at h
        simp only at h
        by_cases hscr : (out.script != s) = true
        · rw [if_pos hscr] at h; cases h
        refine ⟨by simpa using hs, by omega, out, rfl, by simpa using hv, ?_⟩
        have : out.script = s := by simpa using hscr
        rw [this]

/-! ## the account-diff loop of the repaired code -/

theorem verifyDiff_fixed_ok {env : Env} {b : Batch} {best : UInt32} {st st' : Tallies} {seen : List Key} {d : Diff}
    (h : verifyDiff env Rules.fixed b best st seen d = .ok st') :
    ∃ e, findEntry d.acctKey st = some e ∧ d.acctKey ∉ seen ∧
      d.endingBalance = w64 (e.bal - estimateTraderFee e.chans b.feeRate e.acct.version) ∧
      (newExpiryOf b e.acct d ≠ e.acct.expiry → newExpiryOf b e.acct d ≤ best.toNat + Pool.Gen.Batch.maxAccountExpiry) ∧
      (newVersionOf b e.acct d ≠ e.acct.version → validateVersion (newVersionOf b e.acct d) = true) ∧
      validateEndingState env b.txOuts (acctAfter b e.acct d) d = .ok () ∧
      ∀ k, k ≠ d.acctKey → findEntry k st' = findEntry k st := by
  unfold verifyDiff at h
  split at h <;> try contradiction
  rename_i e he
  simp only [Rules.fixed, Bool.true_and] at h
  split at h <;> try contradiction
  rename_i hseen
  split at h <;> try contradiction
  rename_i hbal
  split at h <;> try contradiction
  rename_i hexp
  split at h <;> try contradiction
  rename_i hver
  split at h <;> try contradiction
  rename_i hves
  cases h
  have hkey := findEntry_key he
  refine ⟨e, he, by simpa using hseen, by simpa using hbal, ?_, ?_, hves, ?_⟩
  · intro hne
    unfold newExpiryOf at hne ⊢
    by_cases hc : extendsExpiry b d = true
    · simp only [hc, if_true] at hne ⊢
      simp only [hc, Bool.true_and, decide_eq_true_eq] at hexp
      omega
    · simp [hc] at hne
  · intro hne
    unfold newVersionOf at hne ⊢
    by_cases hc : upgradesVersion b e.acct d = true
    · simp only [hc, if_true] at hne ⊢
      simp only [hc, Bool.true_and] at hver
      simpa using hver
    · simp [hc] at hne
  · intro k hk
    rw [findEntry_setEntry]
    have : (e.key == k) = false := by rw [hkey]; simpa using fun h' => hk h'.symm
    simp [this]

/-- what holds for every diff of an accepted diff loop, in terms of the tallies *before* the loop -/
def DiffOk (env : Env) (b : Batch) (best : UInt32) (st : Tallies) (d : Diff) : Prop :=
  ∃ e, findEntry d.acctKey st = some e ∧
    d.endingBalance = w64 (e.bal - estimateTraderFee e.chans b.feeRate e.acct.version) ∧
    (newExpiryOf b e.acct d ≠ e.acct.expiry → newExpiryOf b e.acct d ≤ best.toNat + Pool.Gen.Batch.maxAccountExpiry) ∧
    (newVersionOf b e.acct d ≠ e.acct.version → validateVersion (newVersionOf b e.acct d) = true) ∧
    validateEndingState env b.txOuts (acctAfter b e.acct d) d = .ok ()

theorem verifyDiffs_fixed_ok {env : Env} {b : Batch} {best : UInt32} :
    ∀ (ds : List Diff) (st st' : Tallies) (seen : List Key),
      verifyDiffs env Rules.fixed b best st seen ds = .ok st' →
      (∀ d ∈ ds, d.acctKey ∉ seen ∧ DiffOk env b best st d) ∧ (ds.map (·.acctKey)).Nodup := by
  intro ds
  induction ds with
  | nil => intro st st' seen _; simp
  | cons d rest ih =>
    intro st st' seen h
    simp only [verifyDiffs] at h
    split at h <;> try contradiction
    rename_i st1 h1
    obtain ⟨e, he, hns, hbal, hexp, hver, hves, hother⟩ := verifyDiff_fixed_ok h1
    obtain ⟨hrest, hnd⟩ := ih st1 st' (d.acctKey :: seen) h
    refine ⟨?_, ?_⟩
    · intro d' hd'
      rcases List.mem_cons.mp hd' with rfl | hd'
      · exact ⟨hns, e, he, hbal, hexp, hver, hves⟩
      · obtain ⟨hn, e', he', hr⟩ := hrest d' hd'
        have hne : d'.acctKey ≠ d.acctKey := by
          intro heq; exact hn (by rw [heq]; exact List.mem_cons_self)
        refine ⟨fun hm => hn (List.mem_cons_of_mem _ hm), e', ?_, hr⟩
        rw [← hother _ hne]; exact he'
    · simp only [List.map_cons, List.nodup_cons]
      refine ⟨?_, hnd⟩
      intro hm
      obtain ⟨d', hd', hk⟩ := List.mem_map.mp hm
      exact (hrest d' hd').1 (by rw [hk]; exact List.mem_cons_self)


/-! ## the model's wrapped arithmetic agrees with the integer formulas inside the guard -/

theorem w64_congr {x y : Int} (h : x = y) : w64 x = w64 y := by rw [h]

theorem w64_eq_self {x : Int} (h : I64 x) : w64 x = x := by
  unfold w64; unfold I64 at h
  apply Int.bmod_eq_of_le <;> omega

theorem estimateTraderFee_spec (n : Nat) (feeRate : Int) (v : Nat) (hn : 43 * n + 1 < 2 ^ 32)
    (hf : I64 (feeRate * ((4 * (84 + (43 * n + 1) / 2) + (if v = 1 ∨ v = 2 then 66 else 229) : Nat) : Int))) :
    estimateTraderFee n feeRate v = specChainFee n feeRate v := by
  have h2 : u32 (43 * n + 1) = 43 * n + 1 := Nat.mod_eq_of_lt hn
  have h1 : u32 43 = 43 := by decide
  unfold estimateTraderFee specChainFee
  simp only [Pool.Gen.Batch.p2wshOutputSize, Pool.Gen.Batch.inputSize, Pool.Gen.Batch.witnessScaleFactor,
    Pool.Gen.Batch.taprootMultiSigWitnessSize, Pool.Gen.Batch.multiSigWitnessSize, h1, h2]
  have hdiv : Int.tdiv ((43 * n + 1 : Nat) : Int) 2 = (((43 * n + 1) / 2 : Nat) : Int) := by
    rw [Int.tdiv_eq_ediv_of_nonneg (by omega)]; simp
  rw [hdiv]
  have e1 : w64 (((43 + 41 : Nat) : Int) + (((43 * n + 1) / 2 : Nat) : Int)) = ((84 + (43 * n + 1) / 2 : Nat) : Int) := by
    rw [w64_eq_self (by unfold I64; omega)]; omega
  rw [e1]
  have e2 : w64 (((84 + (43 * n + 1) / 2 : Nat) : Int) * ((4 : Nat) : Int)) = ((4 * (84 + (43 * n + 1) / 2) : Nat) : Int) := by
    rw [w64_eq_self (by unfold I64; omega)]; omega
  rw [e2]
  by_cases hv : v = 1 ∨ v = 2
  · have hc : Pool.Gen.Batch.taprootWitnessVersions.contains v = true := by
      rcases hv with rfl | rfl <;> decide
    simp only [hc, if_true, hv] at hf ⊢
    have e3 : w64 (((4 * (84 + (43 * n + 1) / 2) : Nat) : Int) + ((66 : Nat) : Int)) = ((4 * (84 + (43 * n + 1) / 2) + 66 : Nat) : Int) := by
      rw [w64_eq_self (by unfold I64; omega)]; omega
    rw [e3, w64_eq_self hf]
  · have hc : Pool.Gen.Batch.taprootWitnessVersions.contains v = false := by
      simp [Pool.Gen.Batch.taprootWitnessVersions]; omega
    simp only [hc, hv, if_false] at hf ⊢
    have e3 : w64 (((4 * (84 + (43 * n + 1) / 2) : Nat) : Int) + ((229 : Nat) : Int)) = ((4 * (84 + (43 * n + 1) / 2) + 229 : Nat) : Int) := by
      rw [w64_eq_self (by unfold I64; omega)]; omega
    simp only [Bool.false_eq_true, if_false]
    rw [e3, w64_eq_self hf]

theorem toSatoshis_spec (t : Their) (h : t.unitsFilled < 2 ^ 32) : toSatoshis t.unitsFilled = unitsSat t := by
  unfold toSatoshis unitsSat u64
  simp only [Pool.Gen.Batch.baseSupplyUnit]
  have : ((t.unitsFilled : Int) * ((100000 : Nat) : Int)) % (2 ^ 64 : Int) = (t.unitsFilled : Int) * 100000 := by
    apply Int.emod_eq_of_lt <;> omega
  rw [this]
  have h2 : (((t.unitsFilled : Int) * 100000).toNat : Int) = (t.unitsFilled : Int) * 100000 := by omega
  rw [h2, w64_eq_self (by unfold I64; omega)]

theorem executionFee_spec (b : Batch) (amt : Int) (h1 : I64 (amt * b.execRate)) (h2 : I64 (specExecFee b amt)) :
    executionFee b.execBase b.execRate amt = specExecFee b amt := by
  unfold executionFee scheduleExecutionFee
  simp only [Pool.Gen.Batch.feeRatePartsPerMillion]
  rw [w64_eq_self h1]
  exact w64_eq_self h2


/-- inside the guard, the delta of an accepted match is the spec's delta wrapped to int64 -/
theorem delta_spec {env : Env} {b : Batch} {o : Ours} {t : Their} {d : Int}
    (hv : validateMatchedOrder env b o t (clearingPrice b o.duration) = .ok d) (hg : MatchGuard b o t) :
    delta env b o (clearingPrice b o.duration) t = w64 (specMatchDelta env b o t) := by
  obtain ⟨hu, hself, hmul, hfee⟩ := hg
  obtain ⟨hside, hauc, hnode, hdur, hrate⟩ := validateMatchedOrder_ok hv
  have hsat := toSatoshis_spec t hu
  unfold delta
  rw [hv]
  simp only
  unfold validateMatchedOrder at hv
  have c1 : ¬ ((t.isAsk == o.isAsk) = true) := by simpa using hside
  have c2 : ¬ ((o.auctionType != t.auctionType) = true) := by simpa using hauc
  have c3 : ¬ ((t.nodeKey == env.ourNode) = true) := by simpa using hnode
  have c4 : ¬ ((t.duration != o.duration) = true) := by simpa using hdur
  rw [if_neg c1, if_neg c2, if_neg c3] at hv
  cases hA : o.isAsk with
  | true =>
    simp only [hA, if_true] at hv hrate hmul hfee
    have c5 : ¬ (o.rate > t.rate) := by omega
    rw [if_neg c4, if_neg c5] at hv
    simp only [Except.ok.injEq] at hv
    subst hv
    unfold specMatchDelta makerDelta
    simp only [hA, if_true, hsat, hdur]
    rw [executionFee_spec b _ hmul hfee, w64_add_left, w64_sub_left]
    have hp : (if (o.auctionType == Pool.Gen.Batch.btcOutboundLiquidity) = true then w64 (unitsSat t + t.selfChanBalance)
        else unitsSat t) = premiumBase o t := by
      unfold premiumBase bidSelfBalance outboundMarket
      simp only [Pool.Gen.Batch.btcOutboundLiquidity, hA, if_true]
      by_cases ho : o.auctionType = 1
      · simp only [ho, beq_self_eq_true, if_true]
        unfold bidSelfBalance at hself; simp only [hA, if_true] at hself
        exact w64_eq_self hself
      · have : (o.auctionType == 1) = false := by simpa using ho
        simp [this, ho]
    rw [hp]
    apply w64_congr; omega
  | false =>
    simp only [hA, Bool.false_eq_true, if_false] at hv hrate hmul hfee
    have c5 : ¬ (t.rate > o.rate) := by omega
    rw [if_neg c4, if_neg c5] at hv
    simp only [Except.ok.injEq] at hv
    subst hv
    unfold specMatchDelta takerDelta
    simp only [hA, Bool.false_eq_true, if_false, hsat]
    have hp : (if (o.auctionType == Pool.Gen.Batch.btcOutboundLiquidity) = true then w64 (unitsSat t + o.selfChanBalance)
        else unitsSat t) = premiumBase o t := by
      unfold premiumBase bidSelfBalance outboundMarket
      simp only [Pool.Gen.Batch.btcOutboundLiquidity, hA, Bool.false_eq_true, if_false]
      by_cases ho : o.auctionType = 1
      · simp only [ho, beq_self_eq_true, if_true]
        unfold bidSelfBalance at hself; simp only [hA, Bool.false_eq_true, if_false] at hself
        exact w64_eq_self hself
      · have : (o.auctionType == 1) = false := by simpa using ho
        simp [this, ho]
    rw [hp, executionFee_spec b _ hmul hfee, w64_sub_left]
    generalize env.premium (premiumBase o t) (clearingPrice b o.duration) o.duration = P
    generalize specExecFee b (premiumBase o t) = f
    have e : w64 (-P) - o.selfChanBalance - f = w64 (-P) + (-o.selfChanBalance - f) := by omega
    rw [e, w64_add_left]; apply w64_congr; omega

/-! ## sums modulo 2^64 -/

theorem w64_add_sum_congr {α : Type} (f g : α → Int) : ∀ (l : List α) (c : Int),
    (∀ x ∈ l, f x = w64 (g x)) → w64 (c + (l.map f).sum) = w64 (c + (l.map g).sum) := by
  intro l
  induction l with
  | nil => intro c _; rfl
  | cons x xs ih =>
    intro c h
    simp only [List.map_cons, List.sum_cons]
    rw [← Int.add_assoc, ih (c + f x) (fun y hy => h y (List.mem_cons_of_mem _ hy)),
      h x List.mem_cons_self, Int.add_assoc, Int.add_comm (w64 (g x)), ← Int.add_assoc, w64_add_right]
    apply w64_congr; omega

theorem w64_add_sum_congr2 {α : Type} (F G : α → Int) : ∀ (l : List α) (c : Int),
    (∀ x ∈ l, ∀ c, w64 (c + F x) = w64 (c + G x)) → w64 (c + (l.map F).sum) = w64 (c + (l.map G).sum) := by
  intro l
  induction l with
  | nil => intro c _; rfl
  | cons x xs ih =>
    intro c h
    simp only [List.map_cons, List.sum_cons]
    rw [← Int.add_assoc, ih (c + F x) (fun y hy => h y (List.mem_cons_of_mem _ hy)),
      Int.add_assoc, Int.add_comm (F x), ← Int.add_assoc, h x List.mem_cons_self]
    apply w64_congr; omega

theorem mem_contribs {env : Env} {k : Key} {l : List (Nonce × List Their)} {c : Ours × List Their}
    (h : c ∈ contribs env k l) : ∃ nm ∈ l, findOrder nm.1 env.orders = some c.1 ∧ c.1.acctKey = k ∧ c.2 = nm.2 := by
  unfold contribs at h
  obtain ⟨nm, hnm, hc⟩ := List.mem_filterMap.mp h
  refine ⟨nm, hnm, ?_⟩
  cases ho : findOrder nm.1 env.orders with
  | none => simp [ho] at hc
  | some o =>
    simp only [ho] at hc
    by_cases hk : o.acctKey = k
    · simp only [hk, if_true, Option.some.injEq] at hc
      subst hc
      exact ⟨rfl, hk, rfl⟩
    · simp [hk] at hc

theorem exAcct_of {a : Acct} (h : findAcct "A" exEnv.accounts = some a) :
    a = { key := "A", value := 1000000, expiry := 5000, version := 0 } := by
  simp [exEnv, findAcct] at h; exact h.symm


end Pool.Batch
