import PoolModel.C11
namespace Pool.C11
theorem C11_archived_zero (o : Order) (f : Nat → Int) (ver : Nat) (h : archived o.state = true) :
    reservedValue o f ver = .ok 0 := by
  simp [reservedValue, h]
end Pool.C11
