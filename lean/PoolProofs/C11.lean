import PoolModel.C11
import PoolProofs.C11Lemmas
import PoolProofs.C11Overflow
/-! # C11 — reserved value covers the worst-case debit; orders never over-commit an account

Headline theorems about the executable model `PoolModel/C11.lean` (+ `PoolModel/Float64.lean`).
`Admissible o ver priceOk bs` (defined in `C11Lemmas`) is the property's quantifier: every fill ≥ the minimum match,
every clearing price on the order's side of its rate, every batch fee rate ≤ the order's maximum, the fills sum to
at most the unfilled units; batches group the fills arbitrarily (one fill per batch is the special case). -/
namespace Pool.C11
open Pool.Float64 Pool.Gen.Reserve

/-- **Bids.** For every active bid with a non-zero minimum match, a maximum fee rate of at least the fee floor
(what `validateOrder` admits) and inside the premium guard, and for every admissible sequence of batches
(clearing prices ≤ the bid's rate): `ReservedValue` does not panic and the total the verifier's tally debits is
at most the reserved value plus two satoshis per match. -/
theorem C11_bid_reserve_covers (fs : FeeSchedule) (o : Order) (ver : Nat) (bs : List BatchFills)
    (hbid : o.isBid = true) (hact : archived o.state = false) (hmin : 0 < o.minUnitsMatch)
    (hguard : premiumGuard o = true) (hfloor : feePerKwFloor ≤ o.maxBatchFeeRate)
    (hadm : Admissible o ver (· ≤ o.fixedRate) bs) :
    ∃ R : Int, orderReservedValue fs o ver = .ok R ∧ totalDebit fs o bs ≤ R + 2 * (totalFills bs : Int) := by
  obtain ⟨R, hR, hR0, hex, hrem⟩ := reservedValue_spec o (bidPerMatch fs o) ver hact hmin
  refine ⟨R, by unfold orderReservedValue; simp [hbid, hR], ?_⟩
  rw [maxMatches_eq o hmin] at hex hrem
  -- k ≤ N
  have hk1 := total_units_ge o.minUnitsMatch bs (fun b hb f hf => (hadm.fills b hb f hf).1)
  have hkU : totalFills bs * o.minUnitsMatch ≤ o.unitsUnfulfilled := le_trans hk1 hadm.total
  have hkN : totalFills bs ≤ maxMatches o := by
    unfold maxMatches; exact (Nat.le_div_iff_mul_le hmin).2 hkU
  by_cases hN0 : maxMatches o = 0
  · have hk0 : totalFills bs = 0 := by omega
    have := totalFills_zero bs (fun b hb => (hadm.nonempty b hb).1) hk0
    subst this
    simp [totalDebit, totalFills, hR0]
  have hN1 : 1 ≤ maxMatches o := Nat.one_le_iff_ne_zero.2 hN0
  -- upper bound of the debit
  have hub := bid_batches_upper fs o ver hbid hfloor bs (fun b hb f hf => (hadm.fills b hb f hf).2)
    hadm.feeRate hadm.version hadm.nonempty
  -- lower bound of the reserve
  set c := cRate o.fixedRate o.leaseDuration with hc
  set U := toSatoshis o.unitsUnfulfilled with hU
  set m := toSatoshis o.minUnitsMatch with hm
  set fee1 := estimateTraderFee 1 o.maxBatchFeeRate ver with hfee1
  have hdm := Nat.div_add_mod U m
  rw [maxMatches_eq o hmin] at hdm
  have hlb := reserved_lower_generic (maxMatches o) U m (U % m) (c * (1 - eps) + eRate fs)
    ((c * (1 - eps) + eRate fs) * (sigma o : ℚ) - 2 + o.selfChanBalance + fs.baseFee + fee1)
    ((fee1 : ℚ) + ((-(bidPerMatch fs o m) : Int) : ℚ)) ((fee1 : ℚ) + ((-(bidPerMatch fs o (m + U % m)) : Int) : ℚ)) (R : ℚ)
    hN1 hdm.symm
    (by have := bid_pm_lower fs o m; push_cast at this ⊢; linarith)
    (by have := bid_pm_lower fs o (m + U % m); push_cast at this ⊢; linarith)
    (fun h0 => by have := hex h0; have : (((maxMatches o : Int) * ((fee1 : Int) - bidPerMatch fs o m) : Int) : ℚ) ≤ (R : ℚ) := by exact_mod_cast this
                  push_cast at this ⊢; linarith)
    (fun h0 => by have := hrem h0
                  have : ((((maxMatches o : Int) - 1) * ((fee1 : Int) - bidPerMatch fs o m) + ((fee1 : Int) - bidPerMatch fs o (m + U % m)) : Int) : ℚ) ≤ (R : ℚ) := by exact_mod_cast this
                  push_cast at this ⊢; linarith)
  -- the guards
  have hG : (2 : ℚ) ≤ (o.selfChanBalance : ℚ) + fs.baseFee + fee1 := by
    have h1 := fee1_floor_ge ver
    have h2 := estimateTraderFee_mono_rate 1 ver hfloor
    have : (2 : ℚ) ≤ (fee1 : ℚ) := by exact_mod_cast le_trans h1 h2
    have : (0 : ℚ) ≤ (o.selfChanBalance : ℚ) := by positivity
    have : (0 : ℚ) ≤ (fs.baseFee : ℚ) := by positivity
    linarith
  have hpg := premiumGuard_q o hguard
  have hsig : (sigma o : ℚ) ≤ (o.selfChanBalance : ℚ) := by exact_mod_cast sigma_le o
  have hc0 := cRate_nonneg o.fixedRate o.leaseDuration
  have hNq0 : (0 : ℚ) ≤ (maxMatches o : ℚ) := by positivity
  have hcY : c * ((U : ℚ) + (maxMatches o : ℚ) * (sigma o : ℚ)) ≤ 2 ^ 48 := by
    have : (U : ℚ) + (maxMatches o : ℚ) * (sigma o : ℚ) ≤ (U : ℚ) + (maxMatches o : ℚ) * (o.selfChanBalance : ℚ) := by
      have := mul_le_mul_of_nonneg_left hsig hNq0; linarith
    exact le_trans (mul_le_mul_of_nonneg_left this hc0) hpg
  have hFU : (toSatoshis (totalUnits bs) : ℚ) ≤ (U : ℚ) := by
    have : toSatoshis (totalUnits bs) ≤ U := toSatoshis_mono hadm.total
    exact_mod_cast this
  have hkNq : (totalFills bs : ℚ) ≤ (maxMatches o : ℚ) := by exact_mod_cast hkN
  have hs0 : (0 : ℚ) ≤ (sigma o : ℚ) := by positivity
  have hXY : (toSatoshis (totalUnits bs) : ℚ) + (totalFills bs : ℚ) * (sigma o : ℚ) ≤
      (U : ℚ) + (maxMatches o : ℚ) * (sigma o : ℚ) := by
    have := mul_le_mul_of_nonneg_right hkNq hs0; linarith
  have hfin := bid_final c (eRate fs) ((o.selfChanBalance : ℚ) + fs.baseFee + fee1)
    ((toSatoshis (totalUnits bs) : ℚ) + (totalFills bs : ℚ) * (sigma o : ℚ))
    ((U : ℚ) + (maxMatches o : ℚ) * (sigma o : ℚ)) (totalFills bs) (maxMatches o)
    ((totalDebit fs o bs : Int) : ℚ) (R : ℚ) hc0 (eRate_nonneg fs) hXY
    (add_nonneg (Nat.cast_nonneg _) (mul_nonneg (Nat.cast_nonneg _) (Nat.cast_nonneg _))) hkNq hG hcY
    (by linarith) (by linarith)
  have : ((totalDebit fs o bs : Int) : ℚ) < ((R + 2 * (totalFills bs : Int) + 1 : Int) : ℚ) := by
    push_cast; linarith
  have : totalDebit fs o bs < R + 2 * (totalFills bs : Int) + 1 := by exact_mod_cast this
  omega


/-- **Asks.** For every active ask inside the property's guard (`rate·duration ≤ 10^9`, i.e. the premium never
exceeds the leased amount), with a non-zero minimum match, maximum fee rate ≥ the fee floor and inside the premium
guard, and every admissible sequence of batches (clearing prices ≥ the ask's rate; in the outbound market the
premium is additionally paid on the matched bid's self balance): the total debit is at most the reserved value plus
two satoshis per match. -/
theorem C11_ask_reserve_covers (fs : FeeSchedule) (o : Order) (ver : Nat) (bs : List BatchFills)
    (hask : o.isBid = false) (hact : archived o.state = false) (hmin : 0 < o.minUnitsMatch)
    (hag : askGuard o) (hguard : premiumGuard o = true) (hfloor : feePerKwFloor ≤ o.maxBatchFeeRate)
    (hadm : Admissible o ver (o.fixedRate ≤ ·) bs) :
    ∃ R : Int, orderReservedValue fs o ver = .ok R ∧ totalDebit fs o bs ≤ R + 2 * (totalFills bs : Int) := by
  obtain ⟨R, hR, hR0, hex, hrem⟩ := reservedValue_spec o (askPerMatch fs o) ver hact hmin
  refine ⟨R, by unfold orderReservedValue; simp [hask, hR], ?_⟩
  rw [maxMatches_eq o hmin] at hex hrem
  have hk1 := total_units_ge o.minUnitsMatch bs (fun b hb f hf => (hadm.fills b hb f hf).1)
  have hkU : totalFills bs * o.minUnitsMatch ≤ o.unitsUnfulfilled := le_trans hk1 hadm.total
  have hkN : totalFills bs ≤ maxMatches o := by
    unfold maxMatches; exact (Nat.le_div_iff_mul_le hmin).2 hkU
  by_cases hN0 : maxMatches o = 0
  · have hk0 : totalFills bs = 0 := by omega
    have := totalFills_zero bs (fun b hb => (hadm.nonempty b hb).1) hk0
    subst this
    simp [totalDebit, totalFills, hR0]
  have hN1 : 1 ≤ maxMatches o := Nat.one_le_iff_ne_zero.2 hN0
  have hub := ask_batches_upper fs o ver hask hfloor bs (fun b hb f hf => (hadm.fills b hb f hf).2)
    hadm.feeRate hadm.version hadm.nonempty
  set c := cRate o.fixedRate o.leaseDuration with hc
  set U := toSatoshis o.unitsUnfulfilled with hU
  set m := toSatoshis o.minUnitsMatch with hm
  set fee1 := estimateTraderFee 1 o.maxBatchFeeRate ver with hfee1
  have hdm := Nat.div_add_mod U m
  rw [maxMatches_eq o hmin] at hdm
  have hlb := reserved_lower_generic (maxMatches o) U m (U % m) (1 - c * (1 + eps) + eRate fs)
    (-1 + fs.baseFee + fee1)
    ((fee1 : ℚ) + ((-(askPerMatch fs o m) : Int) : ℚ)) ((fee1 : ℚ) + ((-(askPerMatch fs o (m + U % m)) : Int) : ℚ)) (R : ℚ)
    hN1 hdm.symm
    (by have := ask_pm_lower fs o m; push_cast at this ⊢; linarith)
    (by have := ask_pm_lower fs o (m + U % m); push_cast at this ⊢; linarith)
    (fun h0 => by have := hex h0; have : (((maxMatches o : Int) * ((fee1 : Int) - askPerMatch fs o m) : Int) : ℚ) ≤ (R : ℚ) := by exact_mod_cast this
                  push_cast at this ⊢; linarith)
    (fun h0 => by have := hrem h0
                  have : ((((maxMatches o : Int) - 1) * ((fee1 : Int) - askPerMatch fs o m) + ((fee1 : Int) - askPerMatch fs o (m + U % m)) : Int) : ℚ) ≤ (R : ℚ) := by exact_mod_cast this
                  push_cast at this ⊢; linarith)
  have hG : (1 : ℚ) ≤ (fs.baseFee : ℚ) + fee1 := by
    have h1 := fee1_floor_ge ver
    have h2 := estimateTraderFee_mono_rate 1 ver hfloor
    have : (2 : ℚ) ≤ (fee1 : ℚ) := by exact_mod_cast le_trans h1 h2
    have : (0 : ℚ) ≤ (fs.baseFee : ℚ) := by positivity
    linarith
  have hpg := premiumGuard_q o hguard
  have hc0 := cRate_nonneg o.fixedRate o.leaseDuration
  have hc1 := askGuard_q o hag
  have hcU : c * (U : ℚ) ≤ 2 ^ 48 := by
    have : (U : ℚ) ≤ (U : ℚ) + (maxMatches o : ℚ) * (o.selfChanBalance : ℚ) := by
      have : (0 : ℚ) ≤ (maxMatches o : ℚ) * (o.selfChanBalance : ℚ) := by positivity
      linarith
    exact le_trans (mul_le_mul_of_nonneg_left this hc0) hpg
  have hFU : (toSatoshis (totalUnits bs) : ℚ) ≤ (U : ℚ) := by
    have : toSatoshis (totalUnits bs) ≤ U := toSatoshis_mono hadm.total
    exact_mod_cast this
  have hkNq : (totalFills bs : ℚ) ≤ (maxMatches o : ℚ) := by exact_mod_cast hkN
  have hfin := ask_final c (eRate fs) ((fs.baseFee : ℚ) + fee1) (toSatoshis (totalUnits bs) : ℚ) (U : ℚ)
    (totalFills bs) (maxMatches o) ((totalDebit fs o bs : Int) : ℚ) (R : ℚ) hc0 hc1 (eRate_nonneg fs) hFU
    (Nat.cast_nonneg _) hkNq hG hcU (by linarith) (by linarith)
  have : ((totalDebit fs o bs : Int) : ℚ) < ((R + 2 * (totalFills bs : Int) + 1 : Int) : ℚ) := by
    push_cast; linarith
  have : totalDebit fs o bs < R + 2 * (totalFills bs : Int) + 1 := by exact_mod_cast this
  omega

/-- `fee(k) ≤ k · fee(1)`: the chain fee of a batch with `k ≥ 1` channels never exceeds `k` single-channel fees
(fee rates from 5 sat/kw – the fee floor is 253 – and `k ≤ 10^7`, far below the `uint32` wrap of the weight). -/
theorem traderFee_subadditive (k feeRate ver : Nat) (hk : 1 ≤ k) (hf : 5 ≤ feeRate) (hw : k ≤ 10 ^ 7) :
    estimateTraderFee k feeRate ver ≤ k * estimateTraderFee 1 feeRate ver :=
  traderFee_subadditive_aux k feeRate ver hk hf hw

/-- **Archived orders reserve nothing**, whatever their other terms (even a zero minimum match does not panic);
the archived set is the regenerated `State.Archived` table = {executed, canceled, expired, failed}. -/
theorem C11_archived_zero (fs : FeeSchedule) (o : Order) (ver : Nat) (h : archived o.state = true) :
    orderReservedValue fs o ver = .ok 0 := by
  unfold orderReservedValue reservedValue; simp [h]

/-- the regenerated archived set is exactly the four terminal states, and the three live states are not in it -/
theorem C11_archived_table :
    (orderStates.filter archived) = [3, 4, 5, 6] ∧ archived stateSubmitted = false ∧
      archived stateCleared = false ∧ archived statePartiallyFilled = false := by decide

/-- **Acceptance implies coverage.** If `validateOrder` accepts, then no `ReservedValue` panicked, the new order's
maximum fee rate is at least the fee floor, and the account value is at least the sum of the reserved values of
exactly that account's stored orders plus the new order's (orders of other accounts are filtered out; archived
orders contribute 0 by `C11_archived_zero`). -/
theorem C11_accept_implies_covered (db : List Order) (o : Order) (acct : Account) (t : Terms)
    (h : validateOrder db o acct t = .ok) :
    feePerKwFloor ≤ o.maxBatchFeeRate ∧ t.buckets.contains o.leaseDuration = true ∧
    ∃ r0 : Int, orderReservedValue ⟨t.baseFee, t.feeRate⟩ o acct.version = .ok r0 ∧
      r0 + ((db.filter (fun x => x.acctKey = acct.key)).map (reservedOf ⟨t.baseFee, t.feeRate⟩ acct.version)).sum
        ≤ (acct.value : Int) ∧
      ∀ x ∈ db, x.acctKey = acct.key → orderReservedValue ⟨t.baseFee, t.feeRate⟩ x acct.version ≠ .panic := by
  simp only [validateOrder] at h
  split_ifs at h with hb hf hsc
  cases hr0 : orderReservedValue ⟨t.baseFee, t.feeRate⟩ o acct.version with
  | panic => rw [hr0] at h; simp at h
  | ok r0 =>
    rw [hr0] at h
    cases hrs : sumReserved ⟨t.baseFee, t.feeRate⟩ acct db with
    | none => rw [hrs] at h; simp at h
    | some rs =>
      rw [hrs] at h
      simp only at h
      split_ifs at h with hle
      obtain ⟨e, hp⟩ := sumReserved_eq _ acct db rs hrs
      refine ⟨Nat.le_of_not_lt hf, by simpa using hb, r0, rfl, ?_, hp⟩
      rw [← e]; omega

/-- rejection with `ErrInsufficientBalance` happens only when the balance really does not cover the sum -/
theorem C11_insufficient_only_if_uncovered (db : List Order) (o : Order) (acct : Account) (t : Terms)
    (h : validateOrder db o acct t = .errInsufficient) :
    ∃ r0 rs : Int, orderReservedValue ⟨t.baseFee, t.feeRate⟩ o acct.version = .ok r0 ∧
      sumReserved ⟨t.baseFee, t.feeRate⟩ acct db = some rs ∧ (acct.value : Int) < r0 + rs := by
  simp only [validateOrder] at h
  split_ifs at h with hb hf hsc
  cases hr0 : orderReservedValue ⟨t.baseFee, t.feeRate⟩ o acct.version with
  | panic => rw [hr0] at h; simp at h
  | ok r0 =>
    rw [hr0] at h
    cases hrs : sumReserved ⟨t.baseFee, t.feeRate⟩ acct db with
    | none => rw [hrs] at h; simp at h
    | some rs =>
      rw [hrs] at h
      simp only at h
      split_ifs at h with hlt
      exact ⟨r0, rs, rfl, rfl, hlt⟩

/-- orders of other accounts never influence the verdict -/
theorem C11_other_accounts_not_counted (db : List Order) (o : Order) (acct : Account) (t : Terms) :
    validateOrder db o acct t = validateOrder (db.filter (fun x => x.acctKey = acct.key)) o acct t := by
  have hs : ∀ l : List Order, sumReserved ⟨t.baseFee, t.feeRate⟩ acct l =
      sumReserved ⟨t.baseFee, t.feeRate⟩ acct (l.filter (fun x => x.acctKey = acct.key)) := by
    intro l
    induction l with
    | nil => rfl
    | cons x rest ih =>
      by_cases hk : x.acctKey = acct.key
      · rw [List.filter_cons_of_pos (by simpa using hk)]
        simp only [sumReserved, hk, ne_eq, not_true_eq_false, if_false]
        rw [← ih]
      · rw [List.filter_cons_of_neg (by simpa using hk)]
        rw [← ih]
        simp [sumReserved, hk]
  simp only [validateOrder]
  rw [← hs db]


/-! ## an accepted order set never over-commits the account -/

/-- what is assumed of one order of the account together with the batches it is matched in: archived orders are not
    matched at all; active ones are bids or guarded asks meeting the hypotheses of the two reserve theorems. -/
def OrderPlanOk (ver : Nat) (x : Order) (bs : List BatchFills) : Prop :=
  (archived x.state = true ∧ bs = []) ∨
  (archived x.state = false ∧ 0 < x.minUnitsMatch ∧ premiumGuard x = true ∧ feePerKwFloor ≤ x.maxBatchFeeRate ∧
    ((x.isBid = true ∧ Admissible x ver (· ≤ x.fixedRate) bs) ∨
     (x.isBid = false ∧ askGuard x ∧ Admissible x ver (x.fixedRate ≤ ·) bs)))

theorem order_plan_covered (fs : FeeSchedule) (ver : Nat) (x : Order) (bs : List BatchFills)
    (h : OrderPlanOk ver x bs) :
    totalDebit fs x bs ≤ reservedOf fs ver x + 2 * (totalFills bs : Int) := by
  rcases h with ⟨ha, rfl⟩ | ⟨hna, hmin, hg, hfl, hb | ha⟩
  · simp [reservedOf, C11_archived_zero fs x ver ha, totalDebit, totalFills]
  · obtain ⟨R, hR, hle⟩ := C11_bid_reserve_covers fs x ver bs hb.1 hna hmin hg hfl hb.2
    simpa [reservedOf, hR] using hle
  · obtain ⟨R, hR, hle⟩ := C11_ask_reserve_covers fs x ver bs ha.1 hna hmin ha.2.1 hg hfl ha.2.2
    simpa [reservedOf, hR] using hle

/-- as `OrderPlanOk`, without assuming a non-zero minimum match (acceptance already excludes the division by zero) -/
def OrderPlanOk' (ver : Nat) (x : Order) (bs : List BatchFills) : Prop :=
  (archived x.state = true ∧ bs = []) ∨
  (archived x.state = false ∧ premiumGuard x = true ∧ feePerKwFloor ≤ x.maxBatchFeeRate ∧
    ((x.isBid = true ∧ Admissible x ver (· ≤ x.fixedRate) bs) ∨
     (x.isBid = false ∧ askGuard x ∧ Admissible x ver (x.fixedRate ≤ ·) bs)))

/-- **Orders never over-commit an account.** If `validateOrder` accepted the new order `o`, then whatever admissible
batches the new order and the account's stored orders are later matched in (`plan` pairs each of these orders with its
batches), the verifier debits in total at most the account value plus two satoshis per match. The minimum-match
hypothesis of the reserve theorems is discharged from the acceptance (no `ReservedValue` panicked). -/
theorem C11_accept_never_overcommits (db : List Order) (o : Order) (acct : Account) (t : Terms)
    (hacc : validateOrder db o acct t = .ok)
    (plan : List (Order × List BatchFills))
    (hplan : plan.map (·.1) = o :: db.filter (fun x => x.acctKey = acct.key))
    (hok : ∀ p ∈ plan, OrderPlanOk' acct.version p.1 p.2) :
    (plan.map (fun p => totalDebit ⟨t.baseFee, t.feeRate⟩ p.1 p.2)).sum
      ≤ (acct.value : Int) + 2 * ((plan.map (fun p => totalFills p.2)).sum : Nat) := by
  obtain ⟨_, _, r0, hr0, hcov, hnp⟩ := C11_accept_implies_covered db o acct t hacc
  -- no order of the plan panics, hence active ones have a non-zero minimum match
  have hok2 : ∀ p ∈ plan, OrderPlanOk acct.version p.1 p.2 := by
    intro p hp
    have hmem : p.1 ∈ o :: db.filter (fun x => x.acctKey = acct.key) := by
      rw [← hplan]; exact List.mem_map_of_mem hp
    have hnopanic : orderReservedValue ⟨t.baseFee, t.feeRate⟩ p.1 acct.version ≠ .panic := by
      rcases List.mem_cons.1 hmem with h | h
      · rw [h, hr0]; simp
      · have := List.mem_filter.1 h
        exact hnp p.1 this.1 (by simpa using this.2)
    rcases hok p hp with h | ⟨hna, hg, hfl, hrest⟩
    · exact Or.inl h
    · exact Or.inr ⟨hna, min_pos_of_not_panic _ _ _ hna hnopanic, hg, hfl, hrest⟩
  have hsum : ∀ l : List (Order × List BatchFills), (∀ p ∈ l, OrderPlanOk acct.version p.1 p.2) →
      (l.map (fun p => totalDebit ⟨t.baseFee, t.feeRate⟩ p.1 p.2)).sum ≤
        ((l.map (·.1)).map (reservedOf ⟨t.baseFee, t.feeRate⟩ acct.version)).sum
          + 2 * ((l.map (fun p => totalFills p.2)).sum : Nat) := by
    intro l hl
    induction l with
    | nil => simp
    | cons p rest ih =>
      have h1 := order_plan_covered ⟨t.baseFee, t.feeRate⟩ acct.version p.1 p.2 (hl p List.mem_cons_self)
      have h2 := ih (fun q hq => hl q (List.mem_cons_of_mem _ hq))
      simp only [List.map_cons, List.sum_cons]
      push_cast at h2 ⊢
      omega
  have h := hsum plan hok2
  rw [hplan] at h
  simp only [List.map_cons, List.sum_cons] at h
  have : reservedOf ⟨t.baseFee, t.feeRate⟩ acct.version o = r0 := by simp [reservedOf, hr0]
  rw [this] at h
  omega

/-- the version clause of `Admissible` holds whenever the account only moves up through the known versions
(`account.ValidateVersion`'s list) after the reserve was computed, and always when it was computed for a legacy
account. -/
theorem C11_version_clause (ver : Nat) (bs : List BatchFills)
    (h : ∀ b ∈ bs, ver = 0 ∨ (ver ∈ knownAccountVersions ∧ b.ver ∈ knownAccountVersions ∧ ver ≤ b.ver)) :
    ∀ b ∈ bs, traderWitness b.ver ≤ traderWitness ver := by
  intro b hb
  rcases h b hb with rfl | ⟨h1, h2, h3⟩
  · exact traderWitness_le_legacy _
  · exact traderWitness_upgrade h1 h2 h3

/-! ## the model's unbounded integers agree with Go's `int64` inside the stated domain -/

/-- closed form of `ReservedValue` for an active order with a non-zero minimum match -/
theorem C11_reserved_closed_form (fs : FeeSchedule) (o : Order) (ver : Nat)
    (hna : archived o.state = false) (hm : 0 < o.minUnitsMatch) :
    orderReservedValue fs o ver =
      .ok (if closedBalanceDelta fs o ver < 0 then -closedBalanceDelta fs o ver else 0) :=
  reservedValue_closed fs o ver hna hm

/-- **No `int64` overflow inside the domain**: every integer Go computes on the way to `ReservedValue` – the satoshi
amounts, `amt*feeRate`, the float premiums after truncation (all ≤ 2^49, so also far below the 2^63 limit of the
float→int conversion), the per-match deltas, `maxNumMatches * perMatchDelta`, the chain-fee products and the running
balance delta – lies in `[-2^63, 2^63)`. Hence the unbounded arithmetic of the model is Go's arithmetic there. -/
theorem C11_no_int64_overflow (fs : FeeSchedule) (o : Order) (ver : Nat)
    (hD : inDomain fs o = true) (hm : 0 < o.minUnitsMatch) :
    ∀ v ∈ reservedIntermediates fs o ver, -(2 : Int) ^ 63 ≤ v ∧ v < (2 : Int) ^ 63 :=
  reserved_intermediates_in64 fs o ver hD hm

/-- **No overflow of the running sum of `validateOrder`.** If the new order and every stored order of the account is
archived or inside the domain with a non-zero minimum match, and the account has at most three stored orders, then
every value the variable `reserved` takes (`runningSums`, ending in the total compared with the account value) lies in
`[0, 2^63)`: each reserved value is at most 2.2·10^18 (`reservedOf_bounds`). Beyond four evaluated orders of maximal
size the `int64` sum can really wrap; the driver answers `ood` there. -/
theorem C11_validate_sum_no_overflow (fs : FeeSchedule) (db : List Order) (o : Order) (acct : Account)
    (ho : archived o.state = true ∨ (inDomain fs o = true ∧ 0 < o.minUnitsMatch))
    (hdb : ∀ x ∈ db, x.acctKey = acct.key → archived x.state = true ∨ (inDomain fs x = true ∧ 0 < x.minUnitsMatch))
    (hn : (db.filter (fun x => x.acctKey = acct.key)).length ≤ 3) :
    ∀ v ∈ reservedOf fs acct.version o :: runningSums fs acct (reservedOf fs acct.version o) db,
      0 ≤ v ∧ v < (2 : Int) ^ 63 := by
  have h0 := reservedOf_bounds fs o acct.version ho
  intro v hv
  rcases List.mem_cons.1 hv with rfl | hv
  · constructor
    · exact h0.1
    · have := h0.2; norm_num at *; omega
  · have := runningSums_bound fs acct db (reservedOf fs acct.version o) 1
      (by constructor <;> [exact h0.1; (have := h0.2; push_cast; omega)]) hdb v hv
    have hlen : (((1 + (db.filter (fun x => x.acctKey = acct.key)).length : Nat)) : Int) ≤ 4 := by
      exact_mod_cast (by omega : 1 + (db.filter (fun x => x.acctKey = acct.key)).length ≤ 4)
    constructor
    · exact this.1
    · have h2 := this.2
      have : (((1 + (db.filter (fun x => x.acctKey = acct.key)).length : Nat)) : Int) * (22 * 10 ^ 17) ≤ 4 * (22 * 10 ^ 17) :=
        mul_le_mul_of_nonneg_right hlen (by norm_num)
      norm_num at *; omega

/-- the list of running sums ends in exactly the total `validateOrder` compares with the account value -/
theorem C11_validate_sum_total (fs : FeeSchedule) (acct : Account) (db : List Order) (r0 rs : Int)
    (h : sumReserved fs acct db = some rs) :
    (r0 :: runningSums fs acct r0 db).getLast? = some (r0 + rs) := runningSums_last fs acct db r0 rs h

/-! ## one batch that passed the verifier's unit checks -/

/-- what is assumed of a single batch besides the verifier's unit check: fills ≥ minimum match, prices on the
    order's side, fee rate ≤ maximum, no larger witness, between 1 and 10^7 matches -/
def BatchOk (o : Order) (ver : Nat) (priceOk : Nat → Prop) (b : BatchFills) : Prop :=
  (∀ f ∈ b.fills, o.minUnitsMatch ≤ f.units ∧ priceOk f.price) ∧ b.feeRate ≤ o.maxBatchFeeRate ∧
  traderWitness b.ver ≤ traderWitness ver ∧ 1 ≤ b.fills.length ∧ b.fills.length ≤ 10 ^ 7

theorem admissible_of_verified (o : Order) (ver : Nat) (priceOk : Nat → Prop) (b : BatchFills)
    (hb : BatchOk o ver priceOk b) (hv : verifyUnitsOk o (fillsUnits b.fills) = true) :
    Admissible o ver priceOk [b] := by
  obtain ⟨h1, h2, h3, h4, h5⟩ := hb
  have hle : fillsUnits b.fills ≤ o.unitsUnfulfilled := by
    unfold verifyUnitsOk at hv
    simp only [Bool.and_eq_true, Bool.not_eq_true', decide_eq_false_iff_not] at hv
    omega
  refine ⟨?_, ?_, ?_, ?_, ?_⟩
  · intro c hc; rw [List.mem_singleton.1 hc]; exact h1
  · intro c hc; rw [List.mem_singleton.1 hc]; exact h2
  · intro c hc; rw [List.mem_singleton.1 hc]; exact h3
  · intro c hc; rw [List.mem_singleton.1 hc]; exact ⟨h4, h5⟩
  · simpa [totalUnits] using hle

/-- **A batch that passes the verifier's unit check never debits more than the order reserves** – also when the order
was partially filled by earlier batches: `ReservedValue` is computed from the units that are LEFT, and the verifier
bounds the units of the batch by the same `UnitsUnfulfilled` (`verifyUnitsOk`). Bids; asks below. -/
theorem C11_verified_batch_within_reserve_bid (fs : FeeSchedule) (o : Order) (ver : Nat) (b : BatchFills)
    (hbid : o.isBid = true) (hact : archived o.state = false) (hmin : 0 < o.minUnitsMatch)
    (hguard : premiumGuard o = true) (hfloor : feePerKwFloor ≤ o.maxBatchFeeRate)
    (hb : BatchOk o ver (· ≤ o.fixedRate) b) (hv : verifyUnitsOk o (fillsUnits b.fills) = true) :
    ∃ R : Int, orderReservedValue fs o ver = .ok R ∧ batchDebit fs o b ≤ R + 2 * (b.fills.length : Int) := by
  obtain ⟨R, hR, hle⟩ := C11_bid_reserve_covers fs o ver [b] hbid hact hmin hguard hfloor
    (admissible_of_verified o ver _ b hb hv)
  exact ⟨R, hR, by simpa [totalDebit, totalFills] using hle⟩

theorem C11_verified_batch_within_reserve_ask (fs : FeeSchedule) (o : Order) (ver : Nat) (b : BatchFills)
    (hask : o.isBid = false) (hact : archived o.state = false) (hmin : 0 < o.minUnitsMatch)
    (hag : askGuard o) (hguard : premiumGuard o = true) (hfloor : feePerKwFloor ≤ o.maxBatchFeeRate)
    (hb : BatchOk o ver (o.fixedRate ≤ ·) b) (hv : verifyUnitsOk o (fillsUnits b.fills) = true) :
    ∃ R : Int, orderReservedValue fs o ver = .ok R ∧ batchDebit fs o b ≤ R + 2 * (b.fills.length : Int) := by
  obtain ⟨R, hR, hle⟩ := C11_ask_reserve_covers fs o ver [b] hask hact hmin hag hguard hfloor
    (admissible_of_verified o ver _ b hb hv)
  exact ⟨R, hR, by simpa [totalDebit, totalFills] using hle⟩

/-- the verifier's bound has to be the REMAINING units: a bid of 10 units (minimum 2) with 4 units left reserves
    10550 sat, while a batch matching 8 units – within the original size – debits 17305 sat. -/
def partialFillWitness : Order := ⟨true, 0, 2, 2, 20000, 1000000, 10, 4, 2, 253, 1000, 0, 0⟩

theorem C11_overfill_bound_needed :
    verifyUnitsOk partialFillWitness 8 = false ∧ (8 : Nat) ≤ partialFillWitness.units ∧
    BatchOk partialFillWitness 0 (· ≤ partialFillWitness.fixedRate) ⟨253, 0, [⟨8, 20000, 0⟩]⟩ ∧
    orderReservedValue ⟨1100, 50⟩ partialFillWitness 0 = .ok 10550 ∧
    batchDebit ⟨1100, 50⟩ partialFillWitness ⟨253, 0, [⟨8, 20000, 0⟩]⟩ = 17305 := by
  refine ⟨by decide, by decide, ?_, by decide, by decide⟩
  refine ⟨?_, by decide, by decide, by decide, by decide⟩
  intro f hf
  simp only [List.mem_singleton] at hf
  subst hf
  decide

/-! ## the statement without the guards, and why each guard is there -/

/-- The reserve inequality for an order, as the English text reads when no admission guard is added. -/
def ReserveCovers (fs : FeeSchedule) (o : Order) (ver : Nat) (bs : List BatchFills) : Prop :=
  ∃ R : Int, orderReservedValue fs o ver = .ok R ∧ totalDebit fs o bs ≤ R + 2 * (totalFills bs : Int)

/-- full-strength reading for bids: every active bid, every admissible batch sequence – no fee-floor, minimum-match
    or premium-magnitude guard -/
def C11_bid_full_statement : Prop :=
  ∀ (fs : FeeSchedule) (o : Order) (ver : Nat) (bs : List BatchFills), o.isBid = true → archived o.state = false →
    Admissible o ver (· ≤ o.fixedRate) bs → ReserveCovers fs o ver bs

/-- witness: a 4-unit bid with minimum match 1 and **maximum batch fee rate 0**, no base fee: one fill of all 4 units
    costs 5 sat (premium 3 + execution fee 2) while four minimum fills cost 0 each – the reserve is 0 and the
    tolerance for one match is 2.  (`validateOrder` never admits such an order: `MaxBatchFeeRate < FeePerKwFloor`.) -/
def feeFloorWitness : Order := ⟨true, 0, 2, 0, 75, 400000, 4, 4, 1, 0, 100, 0, 0⟩

theorem feeFloorWitness_admissible :
    Admissible feeFloorWitness 0 (· ≤ feeFloorWitness.fixedRate) [⟨0, 0, [⟨4, 75, 0⟩]⟩] := by
  refine ⟨?_, ?_, ?_, ?_, ?_⟩ <;> simp [feeFloorWitness, totalUnits, fillsUnits]

/-- the 2-sat-per-match tolerance cannot hold without a lower bound on the per-match fee: the full-strength reading
    is false; `C11_bid_reserve_covers` is the partial statement with the named hypotheses `hmin` (else the Go code
    divides by zero), `hfloor` (the admission check of `validateOrder`) and `hguard` (float error below ½ sat). -/
theorem C11_bid_full_statement_false : ¬ C11_bid_full_statement := by
  intro h
  obtain ⟨R, hR, hle⟩ := h ⟨0, 7⟩ feeFloorWitness 0 [⟨0, 0, [⟨4, 75, 0⟩]⟩] rfl (by decide) feeFloorWitness_admissible
  have h1 : orderReservedValue ⟨0, 7⟩ feeFloorWitness 0 = .ok 0 := by decide
  have h2 : totalDebit ⟨0, 7⟩ feeFloorWitness [⟨0, 0, [⟨4, 75, 0⟩]⟩] = 5 := by decide
  rw [h1] at hR
  injection hR with hR
  subst hR
  rw [h2] at hle
  simp [totalFills] at hle

/-- the ask guard of the property cannot be dropped either: an ask at 100.07 % premium (3 units, minimum 2, fee
    floor rate) is debited 25 sat by a 2-unit fill although its reserve is 0. -/
def askGuardWitness : Order := ⟨false, 0, 2, 0, 1000700, 300000, 3, 3, 2, 253, 1000, 0, 0⟩

theorem C11_ask_guard_needed :
    ¬ askGuard askGuardWitness ∧ premiumGuard askGuardWitness = true ∧
    Admissible askGuardWitness 0 (askGuardWitness.fixedRate ≤ ·) [⟨253, 0, [⟨2, 1000700, 0⟩]⟩] ∧
    ¬ ReserveCovers ⟨0, 0⟩ askGuardWitness 0 [⟨253, 0, [⟨2, 1000700, 0⟩]⟩] := by
  refine ⟨by decide, by decide, ?_, ?_⟩
  · refine ⟨?_, ?_, ?_, ?_, ?_⟩ <;> simp [askGuardWitness, totalUnits, fillsUnits]
  · rintro ⟨R, hR, hle⟩
    have h1 : orderReservedValue ⟨0, 0⟩ askGuardWitness 0 = .ok 0 := by decide
    have h2 : totalDebit ⟨0, 0⟩ askGuardWitness [⟨253, 0, [⟨2, 1000700, 0⟩]⟩] = 25 := by decide
    rw [h1] at hR
    injection hR with hR
    subst hR
    rw [h2] at hle
    simp [totalFills] at hle

/-- the premium-magnitude guard cannot be dropped either: a 3-match bid whose premium is about 2^61 sat (no `int64`
    overflow anywhere) is debited 54 sat more by one fill of everything than its reserve – beyond the tolerance of 2 –
    because `3·LumpSumPremium(m)` and `LumpSumPremium(3m)` round differently. Reproduced on the Go code (corpus). -/
def premiumGuardWitness : Order :=
  ⟨true, 0, 2, 0, 2965729243, 5631900000, 56319, 56319, 18773, 253, 138052190, 0, 0⟩

theorem C11_premium_guard_needed :
    premiumGuard premiumGuardWitness = false ∧ feePerKwFloor ≤ premiumGuardWitness.maxBatchFeeRate ∧
    Admissible premiumGuardWitness 0 (· ≤ premiumGuardWitness.fixedRate) [⟨253, 0, [⟨56319, 2965729243, 0⟩]⟩] ∧
    ¬ ReserveCovers ⟨0, 0⟩ premiumGuardWitness 0 [⟨253, 0, [⟨56319, 2965729243, 0⟩]⟩] := by
  refine ⟨by decide, by decide, ?_, ?_⟩
  · refine ⟨?_, ?_, ?_, ?_, ?_⟩ <;> simp [premiumGuardWitness, totalUnits, fillsUnits]
  · rintro ⟨R, hR, hle⟩
    have h1 : orderReservedValue ⟨0, 0⟩ premiumGuardWitness 0 = .ok 2305843005682364271 := by decide
    have h2 : totalDebit ⟨0, 0⟩ premiumGuardWitness [⟨253, 0, [⟨56319, 2965729243, 0⟩]⟩] = 2305843005682364325 := by
      decide
    rw [h1] at hR
    injection hR with hR
    subst hR
    rw [h2] at hle
    simp [totalFills] at hle

/-- the minimum-match guard: an active order with `MinUnitsMatch = 0` makes `ReservedValue` divide by zero -/
theorem C11_min_zero_panics (fs : FeeSchedule) (o : Order) (ver : Nat) (h : archived o.state = false)
    (h0 : o.minUnitsMatch = 0) : orderReservedValue fs o ver = .panic := by
  unfold orderReservedValue reservedValue toSatoshis
  simp [h, h0]

/-! ## non-vacuity: concrete inputs meeting all hypotheses -/

def exBid : Order := ⟨true, 0, 2, 2, 5000, 1000000, 10, 7, 2, 1000, 2016, 0, 0⟩
def exAsk : Order := ⟨false, 1, 2, 0, 5000, 1000000, 10, 7, 2, 1000, 2016, 0, 0⟩
def exFs : FeeSchedule := ⟨1, 1000⟩
def exBidBatches : List BatchFills := [⟨800, 0, [⟨2, 4000, 0⟩, ⟨3, 4000, 0⟩]⟩, ⟨1000, 1, [⟨2, 5000, 0⟩]⟩]
def exAskBatches : List BatchFills := [⟨800, 0, [⟨2, 6000, 100000⟩, ⟨3, 6000, 0⟩]⟩, ⟨1000, 1, [⟨2, 5000, 0⟩]⟩]

/-- hypotheses of `C11_bid_reserve_covers` hold for a partially filled bid matched in two batches (three fills, the
    second batch after a taproot upgrade); reserve 9718, debit 7829 -/
example : exBid.isBid = true ∧ archived exBid.state = false ∧ 0 < exBid.minUnitsMatch ∧ premiumGuard exBid = true ∧
    feePerKwFloor ≤ exBid.maxBatchFeeRate ∧ Admissible exBid 0 (· ≤ exBid.fixedRate) exBidBatches ∧
    orderReservedValue exFs exBid 0 = .ok 9718 ∧ totalDebit exFs exBid exBidBatches = 7829 := by
  refine ⟨rfl, by decide, by decide, by decide, by decide, ?_, by decide, by decide⟩
  refine ⟨?_, ?_, ?_, ?_, ?_⟩ <;> simp [exBid, exBidBatches, totalUnits, fillsUnits] <;> decide

/-- hypotheses of `C11_ask_reserve_covers` hold for an outbound-market ask; reserve 695606, debit 692510 -/
example : exAsk.isBid = false ∧ archived exAsk.state = false ∧ 0 < exAsk.minUnitsMatch ∧ askGuard exAsk ∧
    premiumGuard exAsk = true ∧ feePerKwFloor ≤ exAsk.maxBatchFeeRate ∧
    Admissible exAsk 0 (exAsk.fixedRate ≤ ·) exAskBatches ∧
    orderReservedValue exFs exAsk 0 = .ok 695606 ∧ totalDebit exFs exAsk exAskBatches = 692510 := by
  refine ⟨rfl, by decide, by decide, by decide, by decide, by decide, ?_, by decide, by decide⟩
  refine ⟨?_, ?_, ?_, ?_, ?_⟩ <;> simp [exAsk, exAskBatches, totalUnits, fillsUnits] <;> decide

/-- `traderFee_subadditive` is used at realistic values -/
example : (1 : Nat) ≤ 3 ∧ (5 : Nat) ≤ 253 ∧ estimateTraderFee 3 253 0 = 208 ∧ 3 * estimateTraderFee 1 253 0 = 495 := by
  decide

/-- `C11_archived_zero`: a canceled order with a zero minimum match -/
example : archived (4 : Nat) = true ∧ orderReservedValue exFs { exBid with state := 4, minUnitsMatch := 0 } 0 = .ok 0 := by
  decide

/-- `C11_accept_never_overcommits`: the accepted case below with a plan matching the new bid (two batches) and the
    stored ask of the same account (two batches) meets `hplan` and `hok` -/
example : ([(exBid, exBidBatches), (exAsk, exAskBatches)].map (·.1) =
      exBid :: [exAsk, { exBid with acctKey := 1 }].filter (fun x => x.acctKey = (⟨0, 2000000, 0⟩ : Account).key)) ∧
    OrderPlanOk' 0 exBid exBidBatches ∧ OrderPlanOk' 0 exAsk exAskBatches := by
  refine ⟨by decide, Or.inr ⟨by decide, by decide, by decide, Or.inl ⟨rfl, ?_⟩⟩,
    Or.inr ⟨by decide, by decide, by decide, Or.inr ⟨rfl, by decide, ?_⟩⟩⟩
  · refine ⟨?_, ?_, ?_, ?_, ?_⟩ <;> simp [exBid, exBidBatches, totalUnits, fillsUnits] <;> decide
  · refine ⟨?_, ?_, ?_, ?_, ?_⟩ <;> simp [exAsk, exAskBatches, totalUnits, fillsUnits] <;> decide

/-- `C11_accept_implies_covered` / `C11_insufficient_only_if_uncovered`: an accepted and a rejected case with an order
    of the same account and one of another account in the store -/
example : validateOrder [exAsk, { exBid with acctKey := 1 }] exBid ⟨0, 2000000, 0⟩ ⟨1, 1000, [2016]⟩ = .ok ∧
    validateOrder [exAsk, { exBid with acctKey := 1 }] exBid ⟨0, 700000, 0⟩ ⟨1, 1000, [2016]⟩ = .errInsufficient := by
  decide

/-- `C11_version_clause`: a taproot account (version 1) upgraded to version 2 before a later batch -/
example : ∀ b ∈ ([⟨800, 1, [⟨2, 4000, 0⟩]⟩, ⟨900, 2, [⟨2, 4000, 0⟩]⟩] : List BatchFills),
    (1 : Nat) = 0 ∨ (1 ∈ knownAccountVersions ∧ b.ver ∈ knownAccountVersions ∧ 1 ≤ b.ver) := by decide

/-- `C11_no_int64_overflow` / `C11_reserved_closed_form`: the example bid is inside the domain; its closed-form
    balance delta is −9718 and the list of intermediates has 32 entries (remainder branch) -/
example : inDomain exFs exBid = true ∧ 0 < exBid.minUnitsMatch ∧ archived exBid.state = false ∧
    closedBalanceDelta exFs exBid 0 = -9718 ∧ (reservedIntermediates exFs exBid 0).length = 32 := by decide

/-- `C11_validate_sum_no_overflow`: the accepted example – new bid and one stored ask of the account, one foreign -/
example : (archived exBid.state = true ∨ (inDomain exFs exBid = true ∧ 0 < exBid.minUnitsMatch)) ∧
    (∀ x ∈ [exAsk, { exBid with acctKey := 1 }], x.acctKey = 0 →
      archived x.state = true ∨ (inDomain exFs x = true ∧ 0 < x.minUnitsMatch)) ∧
    ([exAsk, { exBid with acctKey := 1 }].filter (fun x => x.acctKey = 0)).length ≤ 3 ∧
    runningSums exFs ⟨0, 2000000, 0⟩ 9718 [exAsk, { exBid with acctKey := 1 }] = [705324] := by decide

/-- `C11_verified_batch_within_reserve_bid`: the example bid (7 of 10 units left) in a batch matching 2 + 3 units -/
example : BatchOk exBid 0 (· ≤ exBid.fixedRate) ⟨800, 0, [⟨2, 4000, 0⟩, ⟨3, 4000, 0⟩]⟩ ∧
    verifyUnitsOk exBid (fillsUnits [⟨2, 4000, 0⟩, ⟨3, 4000, 0⟩]) = true ∧ exBid.unitsUnfulfilled < exBid.units := by
  refine ⟨⟨?_, by decide, by decide, by decide, by decide⟩, by decide, by decide⟩
  intro f hf
  simp only [List.mem_cons, List.mem_nil_iff, or_false] at hf
  rcases hf with rfl | rfl <;> decide

end Pool.C11
