import PoolModel.C11
import PoolProofs.C11Lemmas
/-! # C11 — reserved value covers the worst-case debit; orders never over-commit an account

Headline theorems about the executable model `PoolModel/C11.lean` (+ `PoolModel/Float64.lean`).
`Admissible o ver priceOk bs` (defined in `C11Lemmas`) is the property's quantifier: every fill ≥ the minimum match,
every clearing price on the order's side of its rate, every batch fee rate ≤ the order's maximum, the fills sum to
at most the unfilled units; batches group the fills arbitrarily (one fill per batch is the special case). -/
namespace Pool.C11
open Pool.Float64 Pool.Gen.Reserve

/-- per-order worst-case premium `c·(U + N·σ) ≤ 2^48` as a rational inequality -/
theorem premiumGuard_q (o : Order) (h : premiumGuard o = true) :
    cRate o.fixedRate o.leaseDuration *
      ((toSatoshis o.unitsUnfulfilled : ℚ) + (maxMatches o : ℚ) * (o.selfChanBalance : ℚ)) ≤ 2 ^ 48 := by
  unfold premiumGuard at h
  have h' := of_decide_eq_true h
  have hq : (((toSatoshis o.unitsUnfulfilled + maxMatches o * o.selfChanBalance) * o.fixedRate * o.leaseDuration : ℕ) : ℚ)
      ≤ ((2 ^ 48 * feeRateTotalParts : ℕ) : ℚ) := by exact_mod_cast h'
  have hK : (0 : ℚ) < (feeRateTotalParts : ℚ) := by exact_mod_cast feeRateTotalParts_pos
  unfold cRate
  rw [div_mul_eq_mul_div, div_le_iff₀ hK]
  push_cast at hq ⊢
  nlinarith

theorem maxMatches_eq (o : Order) (hm : 0 < o.minUnitsMatch) :
    toSatoshis o.unitsUnfulfilled / toSatoshis o.minUnitsMatch = maxMatches o := by
  unfold toSatoshis maxMatches
  exact Nat.mul_div_mul_right _ _ baseSupplyUnit_pos

/-- **Bids.** For every active bid with a non-zero minimum match, a maximum fee rate of at least the fee floor
(what `validateOrder` admits) and inside the premium guard, and for every admissible sequence of batches
(clearing prices ≤ the bid's rate): `ReservedValue` does not panic and the total the verifier's tally debits is
at most the reserved value plus two satoshis per match. -/
theorem C11_bid_reserve_covers (fs : FeeSchedule) (o : Order) (ver : Nat) (bs : List BatchFills)
    (hbid : o.isBid = true) (hact : archived o.state = false) (hmin : 0 < o.minUnitsMatch)
    (hguard : premiumGuard o = true) (hfloor : feePerKwFloor ≤ o.maxBatchFeeRate)
    (hadm : Admissible o ver (· ≤ o.fixedRate) bs) :
    ∃ R : Int, orderReservedValue fs o ver = .ok R ∧ totalDebit fs o bs ≤ R + 2 * (totalFills bs : Int) := by
  obtain ⟨R, hR, hR0, hex, hrem⟩ := reservedValue_spec o (bidPerMatch fs o) ver hact hmin
  refine ⟨R, by unfold orderReservedValue; simp [hbid, hR], ?_⟩
  rw [maxMatches_eq o hmin] at hex hrem
  -- k ≤ N
  have hk1 := total_units_ge o.minUnitsMatch bs (fun b hb f hf => (hadm.fills b hb f hf).1)
  have hkU : totalFills bs * o.minUnitsMatch ≤ o.unitsUnfulfilled := le_trans hk1 hadm.total
  have hkN : totalFills bs ≤ maxMatches o := by
    unfold maxMatches; exact (Nat.le_div_iff_mul_le hmin).2 hkU
  by_cases hN0 : maxMatches o = 0
  · have hk0 : totalFills bs = 0 := by omega
    have := totalFills_zero bs (fun b hb => (hadm.nonempty b hb).1) hk0
    subst this
    simp [totalDebit, totalFills, hR0]
  have hN1 : 1 ≤ maxMatches o := Nat.one_le_iff_ne_zero.2 hN0
  -- upper bound of the debit
  have hub := bid_batches_upper fs o ver hbid hfloor bs (fun b hb f hf => (hadm.fills b hb f hf).2)
    hadm.feeRate hadm.version hadm.nonempty
  -- lower bound of the reserve
  set c := cRate o.fixedRate o.leaseDuration with hc
  set U := toSatoshis o.unitsUnfulfilled with hU
  set m := toSatoshis o.minUnitsMatch with hm
  set fee1 := estimateTraderFee 1 o.maxBatchFeeRate ver with hfee1
  have hdm := Nat.div_add_mod U m
  rw [maxMatches_eq o hmin] at hdm
  have hlb := reserved_lower_generic (maxMatches o) U m (U % m) (c * (1 - eps) + eRate fs)
    ((c * (1 - eps) + eRate fs) * (sigma o : ℚ) - 2 + o.selfChanBalance + fs.baseFee + fee1)
    ((fee1 : ℚ) + ((-(bidPerMatch fs o m) : Int) : ℚ)) ((fee1 : ℚ) + ((-(bidPerMatch fs o (m + U % m)) : Int) : ℚ)) (R : ℚ)
    hN1 hdm.symm
    (by have := bid_pm_lower fs o m; push_cast at this ⊢; linarith)
    (by have := bid_pm_lower fs o (m + U % m); push_cast at this ⊢; linarith)
    (fun h0 => by have := hex h0; have : (((maxMatches o : Int) * ((fee1 : Int) - bidPerMatch fs o m) : Int) : ℚ) ≤ (R : ℚ) := by exact_mod_cast this
                  push_cast at this ⊢; linarith)
    (fun h0 => by have := hrem h0
                  have : ((((maxMatches o : Int) - 1) * ((fee1 : Int) - bidPerMatch fs o m) + ((fee1 : Int) - bidPerMatch fs o (m + U % m)) : Int) : ℚ) ≤ (R : ℚ) := by exact_mod_cast this
                  push_cast at this ⊢; linarith)
  -- the guards
  have hG : (2 : ℚ) ≤ (o.selfChanBalance : ℚ) + fs.baseFee + fee1 := by
    have h1 := fee1_floor_ge ver
    have h2 := estimateTraderFee_mono_rate 1 ver hfloor
    have : (2 : ℚ) ≤ (fee1 : ℚ) := by exact_mod_cast le_trans h1 h2
    have : (0 : ℚ) ≤ (o.selfChanBalance : ℚ) := by positivity
    have : (0 : ℚ) ≤ (fs.baseFee : ℚ) := by positivity
    linarith
  have hpg := premiumGuard_q o hguard
  have hsig : (sigma o : ℚ) ≤ (o.selfChanBalance : ℚ) := by exact_mod_cast sigma_le o
  have hc0 := cRate_nonneg o.fixedRate o.leaseDuration
  have hNq0 : (0 : ℚ) ≤ (maxMatches o : ℚ) := by positivity
  have hcY : c * ((U : ℚ) + (maxMatches o : ℚ) * (sigma o : ℚ)) ≤ 2 ^ 48 := by
    have : (U : ℚ) + (maxMatches o : ℚ) * (sigma o : ℚ) ≤ (U : ℚ) + (maxMatches o : ℚ) * (o.selfChanBalance : ℚ) := by
      have := mul_le_mul_of_nonneg_left hsig hNq0; linarith
    exact le_trans (mul_le_mul_of_nonneg_left this hc0) hpg
  have hFU : (toSatoshis (totalUnits bs) : ℚ) ≤ (U : ℚ) := by
    have : toSatoshis (totalUnits bs) ≤ U := toSatoshis_mono hadm.total
    exact_mod_cast this
  have hkNq : (totalFills bs : ℚ) ≤ (maxMatches o : ℚ) := by exact_mod_cast hkN
  have hs0 : (0 : ℚ) ≤ (sigma o : ℚ) := by positivity
  have hXY : (toSatoshis (totalUnits bs) : ℚ) + (totalFills bs : ℚ) * (sigma o : ℚ) ≤
      (U : ℚ) + (maxMatches o : ℚ) * (sigma o : ℚ) := by
    have := mul_le_mul_of_nonneg_right hkNq hs0; linarith
  have hfin := bid_final c (eRate fs) ((o.selfChanBalance : ℚ) + fs.baseFee + fee1)
    ((toSatoshis (totalUnits bs) : ℚ) + (totalFills bs : ℚ) * (sigma o : ℚ))
    ((U : ℚ) + (maxMatches o : ℚ) * (sigma o : ℚ)) (totalFills bs) (maxMatches o)
    ((totalDebit fs o bs : Int) : ℚ) (R : ℚ) hc0 (eRate_nonneg fs) hXY
    (add_nonneg (Nat.cast_nonneg _) (mul_nonneg (Nat.cast_nonneg _) (Nat.cast_nonneg _))) hkNq hG hcY
    (by linarith) (by linarith)
  have : ((totalDebit fs o bs : Int) : ℚ) < ((R + 2 * (totalFills bs : Int) + 1 : Int) : ℚ) := by
    push_cast; linarith
  have : totalDebit fs o bs < R + 2 * (totalFills bs : Int) + 1 := by exact_mod_cast this
  omega

end Pool.C11
