import PoolProofs.C10LemmasTx
import PoolProofs.C10LemmasOrder
import PoolProofs.C10LemmasSnap
import PoolModel.C10Db
/-! # C10 – stored accounts, orders and batch snapshots read back unchanged (headline theorems)

Model: `PoolModel/C10*.lean`; helper lemmas: `PoolProofs/C10Lemmas*.lean`. -/
namespace Pool.C10
open Pool.Gen

/-! ## (R) facts about the regenerated lists -/

/-- Every Go expression in the element lists of the account serialiser/deserialiser is known to the field
table, the two lists name the same fields in the same order, and both agree on the states without LatestTx. -/
theorem acct_lists_agree :
    (elemList "serializeAccount" 0).all (fun n => (acctTbl n).isSome) = true ∧
    (elemList "serializeAccount" 0).map (fun n => if n = "uint8(rawState)" then "rawState" else n) =
      elemList "deserializeAccount" 0 ∧
    elemList "serializeAccount" 1 = elemList "deserializeAccount" 1 ∧
    Store.noLatestTx_serializeAccount = Store.noLatestTx_deserializeAccount ∧
    (∀ s ∈ Store.accountStates.map (·.2), s < Store.accountStateVersionedMask) := by decide

/-- The TLV records `serializeOrderTlvData` appends and the ones `deserializeOrderTlvData` registers carry
strictly increasing type numbers and the same type constants; the account stream likewise. -/
theorem tlv_types_increasing :
    List.Pairwise (· < ·) (Lser.map fun p => tlvType p.1) ∧
    List.Pairwise (· < ·) (Lde.map fun p => tlvType p.1) ∧
    Lser.map (·.1) = Lde.map (·.1) ∧
    (Store.tlvRecords.lookup "serializeAccountTlvData") = (Store.tlvRecords.lookup "deserializeAccountTlvData") :=
  ⟨order_tlv_facts.1, order_tlv_facts.2.1, order_tlv_facts.2.2.1, by decide⟩

/-! ## generic codec lemmas (restated from the lemma files) -/

/-- fixed-width big-endian integers decode to what was encoded, whatever follows -/
theorem fixedWidth_roundtrip (n v : Nat) (rest : Bytes) (h : v < 256 ^ n) :
    readBE n (beEnc n v ++ rest) = .ok v rest := readBE_enc n v rest h

/-- BigSize (canonical) round trip -/
theorem bigSize_roundtrip (v : Nat) (rest : Bytes) (h : v < 2 ^ 64) :
    readBigSize (encBigSize v ++ rest) = .ok v rest := readBigSize_enc v rest h

/-- a TLV stream of well-formed records with strictly increasing types decodes to exactly those records -/
theorem tlvStream_roundtrip (known : List (Nat × RecKind)) (rs : List TlvRec)
    (hinc : IncFrom 0 rs) (hwf : ∀ r ∈ rs, r.WF) (hk : ∀ r ∈ rs, known.lookup r.typ = some r.kind) :
    decodeStream known (encStream rs) = .ok (rs.map fun r => (r.typ, some r.val)) [] :=
  decodeStream_enc known rs hinc hwf hk

/-- `wire.MsgTx`: Deserialize inverts Serialize on every well-formed transaction, whatever follows; in
particular the decoder's 4 MiB slab never overflows (no panic) -/
theorem tx_roundtrip (t : Tx) (rest : Bytes) (h : t.WF) : readTx (encTx t ++ rest) = .ok t rest :=
  readTx_enc t rest h

/-! ## accounts -/

/-- **Every well-formed account (all states, all versions) serialises without error and deserialises to
itself**, leaving any following bytes untouched (so accounts can be nested in a snapshot). -/
theorem account_roundtrip (a : Account) (rest : Bytes) (h : a.WF) :
    ∃ b, serializeAccount a = .ok b ∧ deserializeAccount (b ++ rest) = .ok a rest :=
  account_roundtrip_of (fun t r ht => readTx_enc t r ht) a rest h

/-! ## orders -/

/-- **Every well-formed ask or bid – any version, any combination of optional terms – is read back from
its order bucket (keys `order`, `order-min-units-match`, `order-tlv`, `order-tier`) exactly as written.** -/
theorem order_roundtrip (o : Order) (h : o.WF) : loadOrder o.kit.nonce (storeOrder o) = .ok o [] :=
  order_bucket_rt o h

/-- the base encoding alone keeps exactly the base-field projection -/
theorem order_base_roundtrip (o : Order) (rest : Bytes) (h : o.kit.WF) :
    deserializeOrder o.kit.nonce (serializeOrder o ++ rest) = .ok o.baseProj rest :=
  order_base_rt o rest h


/-- the sidecar bid template goes through the same four keys (`storeBidTemplate` / `readBidTemplate`) -/
theorem bidTemplate_roundtrip (db : DB) (bid : Order) (h : bid.WF) :
    (db.putBidTemplate bid).bidTemplate bid.kit.nonce = .ok bid [] := by
  simp [DB.putBidTemplate, DB.bidTemplate, Bucket.put, order_bucket_rt bid h]

/-! ## snapshots -/

/-- (R) the snapshot serialisers' element lists: every expression is known to the field table and the nested
list helpers write / read the same count-prefixed shapes. -/
theorem snapshot_lists_agree :
    (elemList "serializeLocalBatchSnapshot" 0).all (fun n => (snapTbl n).isSome) = true ∧
    (elemList "deserializeLocalBatchSnapshot" 0).all (fun n => (snapTbl n).isSome) = true ∧
    Store.elemCalls.lookup "serializeAccounts" = some [("W", ["uint32(len(accounts))"]), ("W", ["key"])] ∧
    Store.elemCalls.lookup "deserializeAccounts" = some [("R", ["numAccounts"]), ("R", ["key"])] ∧
    Store.elemCalls.lookup "serializeOrders" = some [("W", ["uint32(len(orders))"]), ("W", ["nonce[:]"])] ∧
    Store.elemCalls.lookup "deserializeOrders" = some [("R", ["numOrders"]), ("R", ["nonce"])] ∧
    Store.elemCalls.lookup "serializeMatchedOrder" = some [("W", ["ourNonce[:]", "orderNonce[:]"]),
      ("W", ["m.MultiSigKey", "m.NodeKey", "m.NodeAddrs", "uint64(m.UnitsFilled)"])] ∧
    Store.elemCalls.lookup "deserializeMatchedOrder" = some [("R", ["ourNonce", "theirNonce"]),
      ("R", ["m.MultiSigKey", "m.NodeKey", "m.NodeAddrs", "m.UnitsFilled"])] ∧
    (elemList "serializeLocalBatchSnapshot" 3, elemList "deserializeLocalBatchSnapshot" 3) =
      (["duration", "uint32(price)"], ["duration", "price"]) := by decide

/-- **The snapshot blob round-trips up to the base-field projection of every nested order** (accounts of any
state/version, matches with their node addresses, the duration→price map, the batch transaction: exactly). -/
theorem snapshot_roundtrip (s : Snapshot) (h : s.WF) :
    ∃ b, serializeSnapshot s = .ok b ∧ deserializeSnapshot b = .ok s.proj [] :=
  snapshot_roundtrip_aux s h

/-- what the property promises for a snapshot: only the other traders' (matched) orders are reduced -/
def Snapshot.projMatched (s : Snapshot) : Snapshot :=
  { s with matched := s.matched.map fun m => { m with order := m.order.baseProj } }

theorem completeOrders_rt (orders : Bucket OrderRec) (os : List (Bytes × Order))
    (h : ∀ p ∈ os, p.2.WF ∧ orders p.1 = some (storeOrder p.2)) :
    completeOrders orders (os.map fun (n, o) => (n, o.baseProj)) = .ok os [] := by
  induction os with
  | nil => rfl
  | cons p os ih =>
    obtain ⟨n, o⟩ := p
    obtain ⟨h1, h2⟩ := h (n, o) (List.mem_cons_self)
    simp only [List.map_cons, completeOrders, h2, completeOrder_rt o h1,
      ih (fun q hq => h q (List.mem_cons_of_mem _ hq))]

/-- **Database read path (pending and finalized, repaired code):** a well-formed snapshot whose own orders
are in the orders bucket as `SubmitOrder` wrote them is read back with its own orders complete and only the
other traders' orders reduced to base fields. -/
theorem snapshot_db_roundtrip (db : DB) (s : Snapshot) (h : s.WF)
    (hown : ∀ p ∈ s.orders, p.2.WF ∧ db.orders p.1 = some (storeOrder p.2)) :
    ∃ db', db.storePending s = some db' ∧ db'.pending = .ok s.projMatched [] ∧
      ∃ db'', db'.finalize s.batchID = some db'' ∧ db''.snapshot s.batchID = .ok s.projMatched [] := by
  obtain ⟨b, hb, hd⟩ := snapshot_roundtrip s h
  have hr : readSnapshot db.orders b = .ok s.projMatched [] := by
    simp only [readSnapshot, hd, Snapshot.proj, completeOrders_rt db.orders s.orders hown]
    rfl
  refine ⟨{ db with pendingSnapshot := some b }, by simp [DB.storePending, hb], by simpa [DB.pending] using hr, ?_⟩
  refine ⟨_, rfl, ?_⟩
  simpa [DB.snapshot, Bucket.put] using hr

/-! ## writing one object never alters another -/

/-- a `Put` under key `k` leaves every other key of the bucket unchanged -/
theorem put_get_other {V : Type} (b : Bucket V) (k k' : Bytes) (v : V) (h : k' ≠ k) : (b.put k v) k' = b k' := by
  simp [Bucket.put, h]

/-- adding an account: it reads back equal; every other account, every order, template and snapshot is
untouched -/
theorem addAccount_effect (db : DB) (a : Account) (h : a.WF) :
    ∃ db', db.addAccount a = some db' ∧ db'.account a.traderKey.pub = .ok a [] ∧
      (∀ k, k ≠ a.traderKey.pub → db'.account k = db.account k) ∧
      db'.orders = db.orders ∧ db'.bidTemplates = db.bidTemplates ∧ db'.pendingSnapshot = db.pendingSnapshot ∧
      db'.snapshots = db.snapshots := by
  obtain ⟨b, hb, hd⟩ := account_roundtrip a [] h
  rw [List.append_nil] at hd
  refine ⟨{ db with accounts := db.accounts.put a.traderKey.pub b }, by simp [DB.addAccount, hb], ?_, ?_,
    rfl, rfl, rfl, rfl⟩
  · simp [DB.account, Bucket.put, hd]
  · intro k hk
    simp [DB.account, Bucket.put, hk]

/-- storing an order: it reads back equal; every other order and every account is untouched -/
theorem putOrder_effect (db : DB) (o : Order) (h : o.WF) :
    (db.putOrder o).getOrder o.kit.nonce = .ok o [] ∧
    (∀ n, n ≠ o.kit.nonce → (db.putOrder o).getOrder n = db.getOrder n) ∧
    (∀ k, (db.putOrder o).account k = db.account k) := by
  refine ⟨by simp [DB.putOrder, DB.getOrder, Bucket.put, order_bucket_rt o h], ?_, fun _ => rfl⟩
  intro n hn
  simp [DB.putOrder, DB.getOrder, Bucket.put, hn]

/-! ## multi-object transactions -/

/-- **`copyOrder` (the order loop of `MarkBatchComplete`) is the identity on what `SubmitOrder`/`updateOrder`
wrote**: the staged bucket of a well-formed order is copied to the visible bucket unchanged – base bytes, TLV
stream (re-serialised from the decoded order), min units match and, for bids, node tier – so the applied order
reads back as the staged one (`order_roundtrip`). -/
theorem copyOrder_id (o : Order) (h : o.WF) (dstTier : Option Bytes) (hd : o.isBid = false → dstTier = none) :
    copyOrderRec o.kit.nonce (storeOrder o) dstTier = .ok (storeOrder o) [] := by
  have hk : o.kit.WF := by cases o <;> exact h.1
  have hmum : WFu64 o.kit.minUnitsMatch := hk.2.2.2.2.2.2.2.2.2.2.2.2.1
  have hb := order_base_rt o [] hk
  rw [List.append_nil] at hb
  have hm := readU64_enc o.kit.minUnitsMatch [] hmum
  rw [List.append_nil] at hm
  have htlv : serializeOrderTlvData o.tlvProj = serializeOrderTlvData o := by
    unfold serializeOrderTlvData; rw [orderTlvVars_tlvProj]
  unfold copyOrderRec storeOrder
  simp only [hm, hb, Option.getD_some, order_tlv_rt o h, htlv]
  cases o with
  | ask k a c => simp [Order.tlvProj, Order.isBid, hd rfl]
  | bid k t s tk u z =>
    have ht := readU32_enc t [] h.2.1
    rw [List.append_nil] at ht
    simp [Order.tlvProj, Order.isBid, ht]


/-- **several accounts written in one transaction**: each reads back as written, every other account and all
orders, templates and snapshots are untouched -/
theorem addAccounts_effect (as : List Account) : ∀ (db : DB), (∀ a ∈ as, a.WF) →
    (as.map (·.traderKey.pub)).Nodup →
    ∃ db', db.addAccounts as = some db' ∧
      (∀ a ∈ as, db'.account a.traderKey.pub = .ok a []) ∧
      (∀ k, k ∉ as.map (·.traderKey.pub) → db'.account k = db.account k) ∧
      db'.orders = db.orders ∧ db'.bidTemplates = db.bidTemplates ∧
      db'.pendingSnapshot = db.pendingSnapshot ∧ db'.snapshots = db.snapshots := by
  induction as with
  | nil => intro db _ _; exact ⟨db, rfl, by simp, by simp, rfl, rfl, rfl, rfl⟩
  | cons a as ih =>
    intro db hwf hnd
    simp only [List.map_cons, List.nodup_cons] at hnd
    obtain ⟨db1, h1, hsame, hother, ho, hb, hp, hs⟩ := addAccount_effect db a (hwf a (List.mem_cons_self))
    obtain ⟨db2, h2, hall, hrest, ho2, hb2, hp2, hs2⟩ :=
      ih db1 (fun x hx => hwf x (List.mem_cons_of_mem _ hx)) hnd.2
    refine ⟨db2, by simp [DB.addAccounts, h1, h2], ?_, ?_, by rw [ho2, ho], by rw [hb2, hb], by rw [hp2, hp],
      by rw [hs2, hs]⟩
    · intro x hx
      rcases List.mem_cons.mp hx with rfl | hx
      · rw [hrest _ hnd.1, hsame]
      · exact hall x hx
    · intro k hk
      simp only [List.map_cons, List.mem_cons, not_or] at hk
      rw [hrest k hk.2, hother k hk.1]

/-- **several orders written in one transaction** (`UpdateOrders`, batch staging/applying): each reads back as
written, every other order and every account is untouched -/
theorem putOrders_effect (os : List Order) : ∀ (db : DB), (∀ o ∈ os, o.WF) →
    (os.map (·.kit.nonce)).Nodup →
    (∀ o ∈ os, (db.putOrders os).getOrder o.kit.nonce = .ok o []) ∧
    (∀ n, n ∉ os.map (·.kit.nonce) → (db.putOrders os).getOrder n = db.getOrder n) ∧
    (∀ k, (db.putOrders os).account k = db.account k) := by
  induction os with
  | nil => intro db _ _; exact ⟨by simp, by simp [DB.putOrders], fun _ => rfl⟩
  | cons o os ih =>
    intro db hwf hnd
    simp only [List.map_cons, List.nodup_cons] at hnd
    obtain ⟨hsame, hother, hacct⟩ := putOrder_effect db o (hwf o (List.mem_cons_self))
    obtain ⟨hall, hrest, hacct2⟩ := ih (db.putOrder o) (fun x hx => hwf x (List.mem_cons_of_mem _ hx)) hnd.2
    refine ⟨?_, ?_, fun k => by rw [DB.putOrders, hacct2 k, hacct k]⟩
    · intro x hx
      rcases List.mem_cons.mp hx with rfl | hx
      · rw [DB.putOrders, hrest _ hnd.1, hsame]
      · exact hall x hx
    · intro n hn
      simp only [List.map_cons, List.mem_cons, not_or] at hn
      rw [DB.putOrders, hrest n hn.2, hother n hn.1]


/-- (R) every writer of an order bucket – `SubmitOrder`, `updateOrder`, `copyOrder` and `storeBidTemplate` (the
sidecar bid template) – stores the keys `order`, `order-min-units-match` and `order-tlv` **unconditionally**, and
`order-tier` either unconditionally or under nothing but the is-a-bid type assertion; exactly four writes each.
This is the shape `storeOrder` of the model has, so `order_roundtrip` / `bidTemplate_roundtrip` speak about what
these writers store. -/
theorem order_keys_written :
    (Store.orderKeyWrites.map (·.1)) = ["storeBidTemplate", "SubmitOrder", "updateOrder", "copyOrder"] ∧
    (Store.orderKeyWrites.all fun (_, cs) =>
      cs.length == 4 &&
      (["storeOrderTX", "storeOrderMinUnitsMatchTX", "storeOrderTlvTX"].all fun k => cs.contains (k, [])) &&
      (cs.all fun (k, g) => k != "storeOrderMinNoderTierTX" ||
        [[], ["is-bid"]].contains g)) = true := by
  decide

/-- (R) transaction discipline, over the regenerated call table of clientdb's `*DB` methods: no decode call
(`DeserializeOrder`, `deserializeOrderTlvData`, `deserializeAccount`, `deserializeLocalBatchSnapshot`,
`ReadElement(s)`, `fetchOrderTX`, …, `bytes.NewReader`) sits in a method body outside a function literal, i.e.
every decode of bbolt's memory-mapped slices happens inside the transaction closure (or a callback it invokes);
the read methods the property observes are among the transaction-opening methods. -/
theorem decode_inside_tx :
    Store.decodeOutsideTx = [] ∧
    (["Account", "Accounts", "GetOrder", "GetOrders", "PendingBatchSnapshot", "GetLocalBatchSnapshot",
      "GetLocalBatchSnapshots", "SidecarBidTemplate"].all fun m => Store.dbTxMethods.contains m) = true := by
  decide

/-- **re-proposal**: storing a pending snapshot again (same batch id or not) replaces the previous one – what is
read back, and later finalized, is the last snapshot written. -/
theorem storePending_last_wins (db : DB) (s1 s2 : Snapshot) (h1 : s1.WF) (h2 : s2.WF)
    (hown : ∀ p ∈ s2.orders, p.2.WF ∧ db.orders p.1 = some (storeOrder p.2)) :
    ∃ db1 db2, db.storePending s1 = some db1 ∧ db1.storePending s2 = some db2 ∧
      db2.pending = .ok s2.projMatched [] := by
  obtain ⟨b1, hb1, _⟩ := snapshot_roundtrip s1 h1
  obtain ⟨db2, hs2, hp2, _⟩ := snapshot_db_roundtrip { db with pendingSnapshot := some b1 } s2 h2 hown
  exact ⟨{ db with pendingSnapshot := some b1 }, db2, by simp [DB.storePending, hb1], hs2, hp2⟩

/-! ## the defect that was repaired -/

/-- the base encoding really loses terms: a concrete well-formed ask whose projection differs -/
@[reducible] def witnessAsk : Order :=
  .ask { Kit.new (List.replicate 32 7) with minUnitsMatch := 3, channelType := 1, isPublic := true } 1 0


/-- **`PendingBatchSnapshot` as it was (the blob alone) violates the property** whenever the snapshot holds an
own order with any term outside the base fields: the unrepaired read returns `s.proj`, which differs from what
the property promises (`s.projMatched`). `exSnap` below is such a snapshot (see the example). -/
theorem C10_pending_blob_only_false (db : DB) (s : Snapshot) (h : s.WF) (hne : s.proj ≠ s.projMatched) :
    ∃ db', db.storePending s = some db' ∧ db'.pendingUnrepaired ≠ .ok s.projMatched [] := by
  obtain ⟨b, hb, hd⟩ := snapshot_roundtrip s h
  refine ⟨{ db with pendingSnapshot := some b }, by simp [DB.storePending, hb], ?_⟩
  simp only [DB.pendingUnrepaired, hd]
  intro heq
  injection heq with heq _
  exact hne heq

/-! ## non-vacuity: the well-formedness predicates are inhabited by non-trivial values -/

@[reducible] def exKey : Bytes :=
  [0x02, 0x18, 0x7d, 0x1a, 0x0e, 0x30, 0xf4, 0xe5, 0x01, 0x6f, 0xc1, 0x13, 0x73, 0x63, 0xee, 0x9e, 0x7e,
   0xd5, 0xdd, 0xe1, 0xe6, 0xc5, 0x0f, 0x36, 0x74, 0x22, 0x33, 0x6d, 0xf7, 0xa1, 0x08, 0xb7, 0x16]

@[reducible] def exTx : Tx :=
  ⟨2, [⟨List.replicate 32 1, 0, [], 0xffffffff, [[0x30, 0x45], [0x02]]⟩], [⟨100000, [0x00, 0x14, 0xaa]⟩], 0⟩

@[reducible] def exAcct : Account :=
  ⟨100000000, 1337, ⟨⟨220, 0⟩, exKey⟩, exKey, exKey, List.replicate 32 0x73, 3, 1, ⟨List.replicate 32 9, 1⟩,
   some exTx, 1⟩

@[reducible] def exKit0 : Kit := { Kit.new (List.replicate 32 5) with amt := 500000, units := 5, minUnitsMatch := 2 }
@[reducible] def exKit : Kit := { exKit0 with allowedNodeIDs := [List.replicate 33 4], isPublic := true, auctionType := 1 }
/-- a sidecar ticket as the real `sidecar.SerializeTicket` wrote it (taken from a harness run) -/
@[reducible] def exTicket : Bytes :=
  [1, 8, 11, 75, 41, 31, 225, 97, 108, 236, 2, 1, 0, 3, 1, 6, 10, 64, 11, 8, 0, 0, 0, 72, 20, 183, 31, 123, 12, 8, 0, 0, 0, 0, 61, 169, 66, 67, 13, 4, 158, 148, 221, 239, 14, 33, 3, 163, 34, 106, 206, 203, 155, 20, 207, 46, 36, 155, 125, 84, 127, 201, 122, 148, 35, 119, 172, 145, 214, 29, 125, 224, 69, 115, 204, 130, 89, 85, 70, 16, 1, 0]
@[reducible] def exBid : Order := .bid exKit 2 20000 (some exTicket) true false

@[reducible] def exMatch : Match :=
  ⟨List.replicate 32 5, witnessAsk, List.replicate 33 2, List.replicate 33 3,
   [Addr.tcp4 [18, 52, 86, 120] 8080, Addr.onionV3 (List.replicate 35 7) 9735], 19⟩

@[reducible] def exSnap : Snapshot :=
  { version := 1, batchID := exKey, clearingPrices := [(2016, 1234)], feeBase := 1, feeRate := 1000,
    batchTx := exTx, batchTxFeeRate := 253, accounts := [(exKey, exAcct)],
    orders := [(List.replicate 32 5, exBid)],
    matched := [exMatch] }

set_option maxRecDepth 100000 in
theorem exKey_valid : validPubKey exKey = true := by decide
set_option maxRecDepth 100000 in
example : exTx.WF := by decide
set_option maxRecDepth 100000 in
example : exAcct.WF := by decide
set_option maxRecDepth 100000 in
theorem exTicket_canonical : ticketCanonical exTicket = true := by decide
set_option maxRecDepth 100000 in
example : exBid.WF := by decide
example : witnessAsk.WF ∧ witnessAsk.baseProj ≠ witnessAsk := by decide
set_option maxRecDepth 100000 in
example : exSnap.WF := by decide
set_option maxRecDepth 100000 in
example : exSnap.proj ≠ exSnap.projMatched := by
  intro h
  have : (exSnap.proj.orders.map fun p => p.2.kit.minUnitsMatch) =
      (exSnap.projMatched.orders.map fun p => p.2.kit.minUnitsMatch) := by rw [h]
  exact absurd this (by decide)

/-- **C10 / stored TLV streams are read without a record-size cap** (regenerated): the order and account extra-data
streams are written with `Stream.Encode` and read with `Stream.DecodeWithParsedTypes` – not the `…P2P` variants, which
refuse any record longer than 65535 bytes.  The writer has no cap and neither has the RPC layer (an allow / deny list of
1986 node ids already needs 65538 bytes), so the round-trip theorems, whose model decoder is the uncapped one
(`C10Tlv`, `p2p = false`), need no length hypothesis on the optional terms. -/
theorem C10_stored_streams_uncapped :
    Store.tlvStreamCalls.lookup "serializeOrderTlvData" = some ["Encode"] ∧
    Store.tlvStreamCalls.lookup "deserializeOrderTlvData" = some ["DecodeWithParsedTypes"] ∧
    Store.tlvStreamCalls.lookup "serializeAccountTlvData" = some ["Encode"] ∧
    Store.tlvStreamCalls.lookup "deserializeAccountTlvData" = some ["DecodeWithParsedTypes"] := by
  decide

end Pool.C10
