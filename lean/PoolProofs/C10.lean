import PoolProofs.C10LemmasTx
import PoolProofs.C10LemmasOrder
/-! # C10 – stored accounts, orders and batch snapshots read back unchanged (headline theorems)

Model: `PoolModel/C10*.lean`; helper lemmas: `PoolProofs/C10Lemmas*.lean`. -/
namespace Pool.C10
open Pool.Gen

/-! ## (R) facts about the regenerated lists -/

/-- Every Go expression in the element lists of the account serialiser/deserialiser is known to the field
table, the two lists name the same fields in the same order, and both agree on the states without LatestTx. -/
theorem acct_lists_agree :
    (elemList "serializeAccount" 0).all (fun n => (acctTbl n).isSome) = true ∧
    (elemList "serializeAccount" 0).map (fun n => if n = "uint8(rawState)" then "rawState" else n) =
      elemList "deserializeAccount" 0 ∧
    elemList "serializeAccount" 1 = elemList "deserializeAccount" 1 ∧
    Store.noLatestTx_serializeAccount = Store.noLatestTx_deserializeAccount ∧
    (∀ s ∈ Store.accountStates.map (·.2), s < Store.accountStateVersionedMask) := by decide

/-- The TLV records `serializeOrderTlvData` appends and the ones `deserializeOrderTlvData` registers carry
strictly increasing type numbers and the same type constants; the account stream likewise. -/
theorem tlv_types_increasing :
    List.Pairwise (· < ·) (Lser.map fun p => tlvType p.1) ∧
    List.Pairwise (· < ·) (Lde.map fun p => tlvType p.1) ∧
    Lser.map (·.1) = Lde.map (·.1) ∧
    (Store.tlvRecords.lookup "serializeAccountTlvData") = (Store.tlvRecords.lookup "deserializeAccountTlvData") :=
  ⟨order_tlv_facts.1, order_tlv_facts.2.1, order_tlv_facts.2.2.1, by decide⟩

/-! ## generic codec lemmas (restated from the lemma files) -/

/-- fixed-width big-endian integers decode to what was encoded, whatever follows -/
theorem fixedWidth_roundtrip (n v : Nat) (rest : Bytes) (h : v < 256 ^ n) :
    readBE n (beEnc n v ++ rest) = .ok v rest := readBE_enc n v rest h

/-- BigSize (canonical) round trip -/
theorem bigSize_roundtrip (v : Nat) (rest : Bytes) (h : v < 2 ^ 64) :
    readBigSize (encBigSize v ++ rest) = .ok v rest := readBigSize_enc v rest h

/-- a TLV stream of well-formed records with strictly increasing types decodes to exactly those records -/
theorem tlvStream_roundtrip (known : List (Nat × RecKind)) (rs : List TlvRec)
    (hinc : IncFrom 0 rs) (hwf : ∀ r ∈ rs, r.WF) (hk : ∀ r ∈ rs, known.lookup r.typ = some r.kind) :
    decodeStream known (encStream rs) = .ok (rs.map fun r => (r.typ, some r.val)) [] :=
  decodeStream_enc known rs hinc hwf hk

/-- `wire.MsgTx`: Deserialize inverts Serialize on every well-formed transaction, whatever follows; in
particular the decoder's 4 MiB slab never overflows (no panic) -/
theorem tx_roundtrip (t : Tx) (rest : Bytes) (h : t.WF) : readTx (encTx t ++ rest) = .ok t rest :=
  readTx_enc t rest h

/-! ## accounts -/

/-- **Every well-formed account (all states, all versions) serialises without error and deserialises to
itself**, leaving any following bytes untouched (so accounts can be nested in a snapshot). -/
theorem account_roundtrip (a : Account) (rest : Bytes) (h : a.WF) :
    ∃ b, serializeAccount a = .ok b ∧ deserializeAccount (b ++ rest) = .ok a rest :=
  account_roundtrip_of (fun t r ht => readTx_enc t r ht) a rest h

/-! ## orders -/

/-- **Every well-formed ask or bid – any version, any combination of optional terms – is read back from
its order bucket (keys `order`, `order-min-units-match`, `order-tlv`, `order-tier`) exactly as written.** -/
theorem order_roundtrip (o : Order) (h : o.WF) : loadOrder o.kit.nonce (storeOrder o) = .ok o [] :=
  order_bucket_rt o h

/-- the base encoding alone keeps exactly the base-field projection -/
theorem order_base_roundtrip (o : Order) (rest : Bytes) (h : o.kit.WF) :
    deserializeOrder o.kit.nonce (serializeOrder o ++ rest) = .ok o.baseProj rest :=
  order_base_rt o rest h

end Pool.C10
