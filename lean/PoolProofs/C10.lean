import PoolModel.C10Account
/-! C10 headline theorems (work in progress: breadth-first slice). -/
namespace Pool.C10
open Pool.Gen

/-- (R) the write list of `serializeAccount` names the same fields, in the same order, as the read list of
`deserializeAccount` (expressions compared through the field table). -/
theorem acct_lists_known :
    (elemList "serializeAccount" 0).all (fun n => (acctTbl n).isSome) = true ∧
    (elemList "deserializeAccount" 0).all (fun n => (acctTbl n).isSome) = true := by decide

end Pool.C10
