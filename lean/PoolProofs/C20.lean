import PoolProofs.C20Lemmas
import PoolProofs.C08I2Pres
/-!
# C20 — recovery restores a spendable account and never moves funds

Headline theorems about `manager.RecoverAccount` (= op `recover` of the C08 machine),
`unmarshallServerRecoveredAccount` (regenerated table) and the key sweep of `Client.RecoverAccounts`.
-/
set_option linter.unusedSimpArgs false
set_option linter.unusedVariables false
namespace Pool.C20
open Pool.Gen Pool.C08

/-! ## the state mapping (regenerated table) -/

/-- the local state for every state the auctioneer can report: pending-open and open are re-checked on
chain (`initiated`), pending update / batch, expired and expired-pending-update keep their meaning, closed
stays closed -/
theorem C20_state_mapping :
    Lifecycle.serverStates.map (fun p => (p.1, (recoverState p.2).name)) =
      [("AuctionAccountState_STATE_PENDING_OPEN", "StateInitiated"),
       ("AuctionAccountState_STATE_OPEN", "StateInitiated"),
       ("AuctionAccountState_STATE_EXPIRED", "StateExpired"),
       ("AuctionAccountState_STATE_PENDING_UPDATE", "StatePendingUpdate"),
       ("AuctionAccountState_STATE_CLOSED", "StateClosed"),
       ("AuctionAccountState_STATE_PENDING_BATCH", "StatePendingBatch"),
       ("AuctionAccountState_STATE_EXPIRED_PENDING_UPDATE", "StateExpiredPendingUpdate")] ∧
    Lifecycle.recoveryNoLatestTx = [0] := by decide

/-- whatever number the auctioneer sends, the local state is one of the reportable ones: never `open`,
`pendingOpen` (no confirmation is taken on trust) or `pendingClosed` (nothing is rebroadcast); an unknown
state is treated as closed -/
theorem C20_state_mapping_total (srv : Nat) :
    reportable (recoverState srv) = true ∧
    (Lifecycle.recoveryMap.lookup srv = none → recoverState srv = .closed) := by
  unfold recoverState
  cases h : Lifecycle.recoveryMap.lookup srv with
  | none => exact ⟨by decide, fun _ => by decide⟩
  | some n =>
    refine ⟨?_, fun h0 => by simp at h0⟩
    have hm := mem_of_lookup h
    have hall : Lifecycle.recoveryMap.all (fun r => reportable ((State.ofNat? r.2).getD .closed)) = true := by decide
    exact List.all_eq_true.mp hall _ hm

/-! ## recovery never creates, funds or publishes a transaction -/

/-- **C20 / no funding calls**: for every reportable state, version, wallet content and report, the effect
trace of `RecoverAccount` grows by store writes only – no `SendOutputs`, no `PublishTransaction`. -/
theorem C20_no_funding_calls (s : AState) (a : Acct) (known : List Tx) (h : reportable a.state = true) :
    ∀ e ∈ (step s (.recover a known)).1.trace, e ∈ s.trace ∨ ∃ b, e = Effect.write b := by
  simp only [step]
  have h1 : OnlyWrites s (write { s with wallet := known } { a with secret := s.signerSecret }) := by
    intro e he
    simp [write] at he
    rcases he with he | he
    · exact Or.inl he
    · exact Or.inr ⟨_, he⟩
  exact OnlyWrites.trans h1 (ow_resume_recovery _ _ false none h)

/-- … in particular for everything `unmarshallServerRecoveredAccount` can produce -/
theorem C20_no_funding_calls_reported (s : AState) (srv : Nat) (op : OutPoint) (v e ver bk hint : Nat)
    (latest : Option Tx) (known : List Tx) :
    ∀ x ∈ (step s (.recover (recovered srv op v e ver bk hint latest) known)).1.trace,
      x ∈ s.trace ∨ ∃ b, x = Effect.write b :=
  C20_no_funding_calls s _ known (C20_state_mapping_total srv).1

/-! ## the account secret is re-derived -/

/-- **C20 / secret re-derived**: whatever the auctioneer's report carries, the record recovery stores – in
every state it ends in (pending open, canceled, pending update / batch, expired, closed) – holds the secret
the wallet's signer derives (`DeriveSharedKey(auctioneer key, trader key locator)`), not a reported one. -/
theorem C20_secret_rederived (s : AState) (a : Acct) (known : List Tx) (b : Acct)
    (hb : (step s (.recover a known)).1.acct = some b) : b.secret = s.signerSecret := by
  simp only [step] at hb
  exact secOK_resume (secOK_write _ _ rfl) _ rfl _ _ _ _ b hb

/-! ## the stored record matches the located / reported output -/

/-- **C20 / record matches**: if the auctioneer's report is consistent with its own latest transaction
(`RecOK0`, nothing to check for `initiated` / `closed`), the recovered store satisfies C08's I1: the stored
outpoint / value / script are an output of the stored latest transaction – for a re-checked account
(`initiated`) that transaction is the one *located* in the wallet or in the report, and the outpoint is
re-derived from it. -/
theorem C20_record_matches (k : Nat) (a : Acct) (known : List Tx)
    (hrep : RecOK0 k a) (hk : ∀ t ∈ known, t.single) (hl : ∀ t, a.latestTx = some t → t.single) :
    Inv1 (step (AState.init k) (.recover a known)).1 :=
  Inv1.step (C08_inv_init' k) _ ⟨hrep, hk, hl⟩
where
  C08_inv_init' (k : Nat) : Inv1 (AState.init k) :=
    ⟨fun a h => by simp [AState.init] at h, fun a h => by simp [AState.init] at h,
     fun t h => by simp [AState.init] at h⟩

theorem resume_cancel (s : AState) (a : Acct) (hst : a.state = .initiated) (hwf : s.walletFail = false)
    (hloc : locateTxByOutput s.wallet (a.out s.key) a.latestTx = none) :
    ((resume s a false true false none).1.acct.map (·.state)) = some .canceled := by
  unfold resume
  simp only [hst, if_true]
  cases hacts : resumeActs .initiated with
  | none => exact absurd hacts (by decide)
  | some acts =>
    have : fundOrLocate s a false true false none acts = .cancel := by
      unfold fundOrLocate
      simp only [Bool.false_or, Bool.true_and, hloc, ite_self, hwf]
      simp
    simp [this, write, Acct.stored]

/-- **C20 / a wallet fault is not "funding unknown"**: when the wallet's transaction listing fails during
recovery (and the report itself does not carry the output), the account is *not* cancelled – recovery returns
the error and the record stays as added (`initiated`), so the next attempt / restart can still locate the
funding transaction. -/
theorem C20_wallet_fault_not_cancelled (s : AState) (a : Acct) (hst : a.state = .initiated)
    (hwf : s.walletFail = true) (hfull : viaFull s.key a = false) (b : Acct)
    (hb : (resume (write s a) a false true false none).1.acct = some b) :
    b.state = .initiated ∧ (resume (write s a) a false true false none).2 = .err := by
  have hlook : resumeActs .initiated ≠ none := by decide
  unfold resume at hb ⊢
  simp only [hst, if_true] at hb ⊢
  cases hacts : resumeActs .initiated with
  | none => exact absurd hacts hlook
  | some acts =>
    have hc : acts.contains "[onRecovery || onRestart]locateTxByOutput" = true := by
      have := Option.some.inj (hacts.symm.trans (show resumeActs State.initiated = some _ from rfl))
      subst this; decide
    have hf : fundOrLocate (write s a) a false true false none acts = .fail .err := by
      unfold fundOrLocate
      have hw : (write s a).walletFail = true := hwf
      have hk : (write s a).key = s.key := rfl
      simp only [Bool.false_or, Bool.true_and, hc, hw, hk, hfull, if_true, Bool.not_false, Bool.and_self]
      cases locateTxByOutput (write s a).wallet (a.out s.key) a.latestTx <;> simp
    simp only [hacts, hf] at hb ⊢
    have : b = a.stored := (Option.some.inj hb).symm
    subst this
    refine ⟨?_, trivial⟩
    unfold Acct.stored; split <;> exact hst

/-- **C20 / unknown funding ⇒ canceled**: an account reported open / pending open whose funding output is
neither in a wallet transaction nor in the reported latest transaction is stored as canceled-after-recovery;
nothing is funded. -/
theorem C20_unknown_funding_cancelled (k : Nat) (a : Acct) (known : List Tx)
    (hst : a.state = .initiated)
    (hw : ∀ t ∈ known, txHasOutput t (a.out k) = false)
    (hl : ∀ t, a.latestTx = some t → txHasOutput t (a.out k) = false) :
    ((step (AState.init k) (.recover a known)).1.acct.map (·.state)) = some .canceled := by
  have hloc : locateTxByOutput known (a.out k) a.latestTx = none := by
    have hf : known.find? (fun t => txHasOutput t (a.out k)) = none := by
      rw [List.find?_eq_none]; intro t ht; simp [hw t ht]
    unfold locateTxByOutput
    cases hlt : a.latestTx with
    | none => simpa using hf
    | some t => simp [hl t hlt, hf]
  simp only [step]
  exact resume_cancel _ { a with secret := (AState.init k).signerSecret } hst rfl
    (by simpa [write, AState.init, Acct.out, Acct.script] using hloc)

/-- **C20 / resumes watching**: whenever `RecoverAccount` succeeds, the recovered account is watched for
the event its state waits for (confirmation of the located funding / reported transaction, spend of an
expired account) – C08's I2 – starting from whatever registry there was. -/
theorem C20_resumes_watching (s : AState) (a : Acct) (known : List Tx) (hrep : reportable a.state = true)
    (hok : (step s (.recover a known)).2 = .ok) : Inv2 (step s (.recover a known)).1 := by
  simp only [step] at hok ⊢
  apply resume_inv2 _ _ _ _ _ _ _ hok
  intro hne
  show some (Acct.stored _) = _
  rw [stored_of_live hne]
  intro hc
  have : a.state = .canceled := hc
  rw [this] at hrep; simp [reportable] at hrep

/-! ## the key sweep -/

/-- no run of more than `MaxUnusedAccountKeyLookup` consecutive unknown keys (reservation-only answers do
not count, they neither reset nor advance the counter) -/
def NoLongGap : Nat → List Ans → Prop
  | _, [] => True
  | c, .unknown :: r => c + 1 ≤ Lifecycle.maxUnusedAccountKeyLookup ∧ NoLongGap (c + 1) r
  | c, .reservation :: r => NoLongGap c r
  | _, .full :: r => NoLongGap 0 r

def found : List Ans → Nat
  | [] => 0
  | .unknown :: r => found r
  | _ :: r => 1 + found r

/-- **C20 / sweep**: the sweep terminates (it is a structural recursion over the key list and performs at
most one handshake per key); a full account resets the miss counter, a reservation-only answer leaves it
alone, and as long as no gap exceeds `MaxUnusedAccountKeyLookup` every account the auctioneer knows
(fully or as a reservation) is recovered. -/
theorem C20_sweep_terminates_and_resets (c i : Nat) (l : List Ans) :
    requests c l ≤ l.length ∧ (NoLongGap c l → (sweep c i l).length = found l) := by
  induction l generalizing c i with
  | nil => exact ⟨Nat.le_refl _, fun _ => rfl⟩
  | cons a r ih =>
    cases a with
    | reservation =>
      refine ⟨by have := (ih c (i+1)).1; simp [requests]; omega, fun h => ?_⟩
      simp [sweep, found, (ih c (i + 1)).2 h]; omega
    | full =>
      refine ⟨by have := (ih 0 (i+1)).1; simp [requests]; omega, fun h => ?_⟩
      simp [sweep, found, (ih 0 (i + 1)).2 h]; omega
    | unknown =>
      refine ⟨?_, fun h => ?_⟩
      · simp only [requests]; split
        · simp
        · have := (ih (c+1) (i+1)).1; simp; omega
      · obtain ⟨h1, h2⟩ := h
        have : ¬ c + 1 > Lifecycle.maxUnusedAccountKeyLookup := by omega
        simp [sweep, found, this, (ih (c + 1) (i + 1)).2 h2]

/-- **C20 / derivation index**: after `AdvanceAccountDerivationIndex(maxIndex)` the wallet holds more keys than
the highest recovered key index, so the next `DeriveNextKey` (a new account) cannot hand out a recovered
account's key again; keys are never taken back. -/
theorem C20_advance_past (count minIndex : Nat) :
    advance count minIndex > minIndex ∧ advance count minIndex ≥ count := by
  unfold advance
  split <;> omega

/-- the regenerated shape of the sweep loop the model was written against -/
theorem C20_sweep_shape :
    Lifecycle.sweepStopCond = "MaxUnusedAccountKeyLookup < misses" ∧
    Lifecycle.sweepResets = true ∧ Lifecycle.sweepIncrements = true ∧
    -- the secret is re-derived before the record is stored, the stored record is resumed as a recovery
    callsBefore Lifecycle.recoverAccountCalls "DeriveSharedKey" "AddAccount" = true ∧
    callsBefore Lifecycle.recoverAccountCalls "AddAccount" "resumeAccount(false,true,0)" = true := by
  decide

/-- non-vacuity: a hole of 50 unused keys is skipped, a hole of 51 ends the sweep -/
example : sweep 0 0 (.full :: List.replicate 50 .unknown ++ [.full]) = [(0, false), (51, false)] := by decide
example : sweep 0 0 (.full :: List.replicate 51 .unknown ++ [.full]) = [(0, false)] := by decide
example : sweep 0 0 [.unknown, .reservation, .full] = [(1, true), (2, false)] := by decide

/-- non-vacuity of `C20_unknown_funding_cancelled` / `C20_record_matches`: open account, wallet knows the
funding transaction → pending open on the located output; wallet does not → canceled -/
example :
    let a := recovered 1 ⟨9, 9⟩ 500000 5000 1 2 900 none
    let t : Tx := { id := 1, spends := [], outs := [(1, a.out 1)], signed := true, wit := 0 }
    ((step (AState.init 1) (.recover a [t])).1.acct.map (fun a => (a.state, a.outpoint))) = some (.pendingOpen, ⟨1, 1⟩) ∧
    ((step (AState.init 1) (.recover a [])).1.acct.map (·.state)) = some .canceled := by decide

/-! ## more about the key sweep -/

/-- **C20 / sweep recovers only what was reported**: every recovered entry `(j, resOnly)` names a key index
inside the swept range whose answer really was "reservation only" (`resOnly = true`) or "full account"
(`resOnly = false`) – the sweep never invents an account for a key the auctioneer does not know. -/
theorem C20_sweep_sound (c i : Nat) (l : List Ans) :
    ∀ p ∈ sweep c i l, i ≤ p.1 ∧ l[p.1 - i]? = some (if p.2 then Ans.reservation else Ans.full) := by
  induction l generalizing c i with
  | nil => intro p h; simp [sweep] at h
  | cons a r ih =>
    intro p hp
    have step : ∀ c', p ∈ sweep c' (i + 1) r →
        i ≤ p.1 ∧ (a :: r)[p.1 - i]? = some (if p.2 then Ans.reservation else Ans.full) := by
      intro c' h
      obtain ⟨h1, h2⟩ := ih c' (i + 1) p h
      refine ⟨by omega, ?_⟩
      have : p.1 - i = (p.1 - (i + 1)) + 1 := by omega
      rw [this, List.getElem?_cons_succ]; exact h2
    cases a with
    | reservation =>
      simp only [sweep, List.mem_cons] at hp
      rcases hp with rfl | hp
      · simp
      · exact step c hp
    | full =>
      simp only [sweep, List.mem_cons] at hp
      rcases hp with rfl | hp
      · simp
      · exact step 0 hp
    | unknown =>
      simp only [sweep] at hp
      split at hp
      · simp at hp
      · exact step (c + 1) hp

/-- **C20 / no key is recovered twice**: the recovered key indices are strictly increasing. -/
theorem C20_sweep_increasing (c i : Nat) (l : List Ans) :
    (sweep c i l).Pairwise (fun a b => a.1 < b.1) := by
  induction l generalizing c i with
  | nil => simp [sweep]
  | cons a r ih =>
    have lb : ∀ c' p, p ∈ sweep c' (i + 1) r → i < p.1 := fun c' p h => by
      have := (C20_sweep_sound c' (i + 1) r p h).1; omega
    cases a with
    | reservation => simp only [sweep, List.pairwise_cons]; exact ⟨fun p h => lb c p h, ih c (i + 1)⟩
    | full => simp only [sweep, List.pairwise_cons]; exact ⟨fun p h => lb 0 p h, ih 0 (i + 1)⟩
    | unknown =>
      simp only [sweep]; split
      · exact List.Pairwise.nil
      · exact ih (c + 1) (i + 1)

/-- **C20 / answers beyond the stopping point are irrelevant**: what the sweep recovered from the answers seen so
far stays recovered whatever the auctioneer answers for later keys. -/
theorem C20_sweep_prefix (c i : Nat) (l l' : List Ans) : sweep c i l <+: sweep c i (l ++ l') := by
  induction l generalizing c i with
  | nil => simp [sweep]
  | cons a r ih =>
    cases a with
    | reservation => simp only [sweep, List.cons_append, List.cons_prefix_cons, true_and]; exact ih c (i + 1)
    | full => simp only [sweep, List.cons_append, List.cons_prefix_cons, true_and]; exact ih 0 (i + 1)
    | unknown =>
      simp only [sweep, List.cons_append]; split
      · exact List.prefix_refl _
      · exact ih (c + 1) (i + 1)

/-- **C20 / the sweep stops for good**: once more than `MaxUnusedAccountKeyLookup` consecutive unknown keys
(reservation-only answers in between do not count as found) were seen, nothing after them is recovered –
the miss counter never decreases except at a full account. -/
theorem C20_sweep_stops (c i : Nat) (l : List Ans)
    (h : c + 1 > Lifecycle.maxUnusedAccountKeyLookup) : sweep c i (Ans.unknown :: l) = [] := by
  simp [sweep, h]

example : (2, false) ∈ sweep 0 0 [.unknown, .reservation, .full] := by decide


/-- **C20 / sweep completeness, pointwise**: as long as no gap exceeds `MaxUnusedAccountKeyLookup`, the key at every
position `j` whose answer is "full account" is recovered as such, and every "reservation only" key as a reservation. -/
theorem C20_sweep_complete (c i : Nat) (l : List Ans) (h : NoLongGap c l) (j : Nat) :
    (l[j]? = some Ans.full → (i + j, false) ∈ sweep c i l) ∧
    (l[j]? = some Ans.reservation → (i + j, true) ∈ sweep c i l) := by
  induction l generalizing c i j with
  | nil => simp
  | cons a r ih =>
    cases j with
    | zero =>
      cases a <;> simp [sweep]
    | succ j =>
      have e : i + (j + 1) = (i + 1) + j := by omega
      simp only [List.getElem?_cons_succ, e]
      cases a with
      | reservation =>
        have := ih c (i + 1) h j
        simp only [sweep, List.mem_cons]
        exact ⟨fun x => Or.inr (this.1 x), fun x => Or.inr (this.2 x)⟩
      | full =>
        have := ih 0 (i + 1) h j
        simp only [sweep, List.mem_cons]
        exact ⟨fun x => Or.inr (this.1 x), fun x => Or.inr (this.2 x)⟩
      | unknown =>
        obtain ⟨h1, h2⟩ := h
        have hn : ¬ c + 1 > Lifecycle.maxUnusedAccountKeyLookup := by omega
        have := ih (c + 1) (i + 1) h2 j
        simp only [sweep, hn, if_false]
        exact this

/-- **C20 / a recovered reservation is completed** (regenerated shape of `resumeAccount`): the `StateInitiated` clause
falls through into the `StatePendingOpen` clause, and that clause calls `Auctioneer.InitAccount` unconditionally – also
on recovery, where for a reservation-only key it is the only message that tells the auctioneer the located outpoint
(without it no cooperative closure of the recovered account can be co-signed). -/
theorem C20_recovery_completes_reservation_shape :
    (Lifecycle.resume.lookup 0).map (·.contains "fallthrough") = some true ∧
    (Lifecycle.resume.lookup 1).map (·.contains "InitAccount") = some true := by
  decide

end Pool.C20
