import PoolModel.C06
/-! Helper lemmas for C06/C13: association lists, the event-frame lemmas of the loops, closed forms of the
transaction bodies, the coherence invariant and the abstraction to `Spec`. -/
set_option linter.unusedSimpArgs false
set_option linter.unusedVariables false
namespace Pool.C06

/-! ### association lists -/

theorem lookup_upsert (k k' : Key) (v : α) (l : List (Key × α)) :
    lookup k (upsert k' v l) = if k = k' then some v else lookup k l := by
  induction l with
  | nil => simp [upsert, lookup]
  | cons p r ih =>
    obtain ⟨k1, v1⟩ := p
    by_cases h : k' = k1
    · subst h; by_cases hk : k = k' <;> simp [upsert, lookup, hk]
    · by_cases hk : k = k'
      · subst hk; simp [upsert, lookup, h, ih]
      · simp [upsert, lookup, h, hk, ih]

theorem mem_upsert {k : Key} {v : α} {l : List (Key × α)} {p : Key × α} (h : p ∈ upsert k v l) :
    p = (k, v) ∨ p ∈ l := by
  induction l with
  | nil => simp [upsert] at h; exact Or.inl h
  | cons q r ih =>
    obtain ⟨k1, v1⟩ := q
    by_cases hk : k = k1
    · simp [upsert, hk] at h
      rcases h with h | h
      · left; rw [h, hk]
      · right; exact List.mem_cons_of_mem _ h
    · simp [upsert, hk] at h
      rcases h with h | h
      · right; rw [h]; exact List.mem_cons_self
      · rcases ih h with h' | h'
        · left; exact h'
        · right; exact List.mem_cons_of_mem _ h'

theorem keys_upsert_mem {k x : Key} {v : α} {l : List (Key × α)} :
    x ∈ keys (upsert k v l) ↔ x = k ∨ x ∈ keys l := by
  induction l with
  | nil => simp [upsert, keys]
  | cons q r ih =>
    obtain ⟨k1, v1⟩ := q
    by_cases hk : k = k1
    · subst hk; simp [upsert, keys]
    · simp only [upsert, hk, if_false, keys, List.map_cons, List.mem_cons] at ih ⊢
      rw [ih]; constructor
      · rintro (h | h | h) <;> simp [h]
      · rintro (h | h | h) <;> simp [h]

theorem keys_upsert_nodup {k : Key} {v : α} {l : List (Key × α)} (h : (keys l).Nodup) :
    (keys (upsert k v l)).Nodup := by
  induction l with
  | nil => simp [upsert, keys]
  | cons q r ih =>
    obtain ⟨k1, v1⟩ := q
    simp only [keys, List.map_cons, List.nodup_cons] at h
    by_cases hk : k = k1
    · subst hk; simp only [upsert, if_true, keys, List.map_cons, List.nodup_cons]; exact h
    · simp only [upsert, hk, if_false, keys, List.map_cons, List.nodup_cons]
      refine ⟨?_, ih h.2⟩
      intro hm
      have := (keys_upsert_mem (k := k) (v := v) (l := r) (x := k1)).1 hm
      rcases this with h' | h'
      · exact hk h'.symm
      · exact h.1 h'

theorem lookup_none_of_not_mem {k : Key} {l : List (Key × α)} (h : k ∉ keys l) : lookup k l = none := by
  induction l with
  | nil => rfl
  | cons q r ih =>
    obtain ⟨k1, v1⟩ := q
    simp only [keys, List.map_cons, List.mem_cons, not_or] at h
    simp [lookup, h.1]; exact ih h.2

theorem lookup_isSome_iff {k : Key} {l : List (Key × α)} : (lookup k l).isSome = true ↔ k ∈ keys l := by
  induction l with
  | nil => simp [lookup, keys]
  | cons q r ih =>
    obtain ⟨k1, v1⟩ := q
    by_cases hk : k = k1
    · subst hk; simp [lookup, keys]
    · simp only [lookup, hk, if_false, keys, List.map_cons, List.mem_cons, false_or] at ih ⊢; exact ih

theorem lookup_mem {k : Key} {v : α} {l : List (Key × α)} (h : lookup k l = some v) : (k, v) ∈ l := by
  induction l with
  | nil => simp [lookup] at h
  | cons q r ih =>
    obtain ⟨k1, v1⟩ := q
    by_cases hk : k = k1
    · subst hk; simp [lookup] at h; subst h; exact List.mem_cons_self
    · simp [lookup, hk] at h; exact List.mem_cons_of_mem _ (ih h)

theorem keys_erase_mem {k x : Key} {l : List (Key × α)} : x ∈ keys (erase k l) ↔ x ≠ k ∧ x ∈ keys l := by
  induction l with
  | nil => simp [erase, keys]
  | cons q r ih =>
    obtain ⟨k1, v1⟩ := q
    by_cases hk : k = k1
    · subst hk
      simp only [erase, if_true, keys, List.map_cons, List.mem_cons] at ih ⊢
      rw [ih]; constructor
      · rintro ⟨h1, h2⟩; exact ⟨h1, Or.inr h2⟩
      · rintro ⟨h1, h2 | h2⟩
        · exact absurd h2 h1
        · exact ⟨h1, h2⟩
    · simp only [erase, hk, if_false, keys, List.map_cons, List.mem_cons] at ih ⊢
      rw [ih]; constructor
      · rintro (h | ⟨h1, h2⟩)
        · subst h; exact ⟨fun h => hk h.symm, Or.inl rfl⟩
        · exact ⟨h1, Or.inr h2⟩
      · rintro ⟨h1, h2 | h2⟩
        · exact Or.inl h2
        · exact Or.inr ⟨h1, h2⟩

theorem keys_erase_nodup {k : Key} {l : List (Key × α)} (h : (keys l).Nodup) : (keys (erase k l)).Nodup := by
  induction l with
  | nil => simp [erase, keys]
  | cons q r ih =>
    obtain ⟨k1, v1⟩ := q
    simp only [keys, List.map_cons, List.nodup_cons] at h
    by_cases hk : k = k1
    · simp only [erase, hk, if_true]; rw [← hk]; exact ih h.2
    · simp only [erase, hk, if_false, keys, List.map_cons, List.nodup_cons]
      exact ⟨fun hm => h.1 (keys_erase_mem.1 hm).2, ih h.2⟩

theorem lookup_erase (k k' : Key) (l : List (Key × α)) :
    lookup k (erase k' l) = if k = k' then none else lookup k l := by
  induction l with
  | nil => simp [erase, lookup]
  | cons q r ih =>
    obtain ⟨k1, v1⟩ := q
    by_cases h1 : k' = k1
    · subst h1
      simp only [erase, if_true, ih, lookup]
      by_cases hk : k = k' <;> simp [hk]
    · simp only [erase, h1, if_false, lookup, ih]
      by_cases hk : k = k'
      · subst hk; simp [h1]
      · simp [hk]

/-- `over st main`: put every entry of `st` into `main` (later entries win) -/
def over (st main : List (Key × α)) : List (Key × α) := st.foldl (fun m p => upsert p.1 p.2 m) main

theorem over_nil (main : List (Key × α)) : over [] main = main := rfl
theorem over_cons (p : Key × α) (r main : List (Key × α)) :
    over (p :: r) main = over r (upsert p.1 p.2 main) := rfl

theorem over_append (a b main : List (Key × α)) : over (a ++ b) main = over b (over a main) := by
  simp [over, List.foldl_append]

theorem keys_over_nodup {st main : List (Key × α)} (h : (keys main).Nodup) : (keys (over st main)).Nodup := by
  induction st generalizing main with
  | nil => exact h
  | cons p r ih => exact ih (keys_upsert_nodup h)

theorem mem_over {st main : List (Key × α)} {p : Key × α} (h : p ∈ over st main) : p ∈ st ∨ p ∈ main := by
  induction st generalizing main with
  | nil => exact Or.inr h
  | cons q r ih =>
    rcases ih h with h' | h'
    · exact Or.inl (List.mem_cons_of_mem _ h')
    · rcases mem_upsert h' with h'' | h''
      · left; rw [h'']; exact List.mem_cons_self
      · exact Or.inr h''

/-- the staged value if there is one, else the old value -/
def pick (staged old : Option α) : Option α :=
  match staged with
  | some v => some v
  | none => old

/-- lookup in an overridden bucket: the staged entry if there is one, else the old entry -/
theorem lookup_over {st main : List (Key × α)} (hn : (keys st).Nodup) (k : Key) :
    lookup k (over st main) = pick (lookup k st) (lookup k main) := by
  unfold pick
  induction st generalizing main with
  | nil => simp [over, lookup]
  | cons p r ih =>
    obtain ⟨k1, v1⟩ := p
    simp only [keys, List.map_cons, List.nodup_cons] at hn
    rw [over_cons, ih hn.2, lookup_upsert]
    by_cases hk : k = k1
    · subst hk
      have : lookup k r = none := lookup_none_of_not_mem hn.1
      simp [lookup, this]
    · simp [lookup, hk]

theorem keys_over_mem {st main : List (Key × α)} {x : Key} :
    x ∈ keys (over st main) ↔ x ∈ keys st ∨ x ∈ keys main := by
  induction st generalizing main with
  | nil => simp [over, keys]
  | cons p r ih =>
    rw [over_cons, ih, keys_upsert_mem]
    simp only [keys, List.map_cons, List.mem_cons]
    constructor
    · rintro (h | h | h) <;> simp [h]
    · rintro ((h | h) | h) <;> simp [h]

/-! ### accounts: the serializer -/

/-- every account in the bucket reads back as itself (it went through `storeA`) -/
def AllStored (l : List (Key × Acct)) : Prop := ∀ p ∈ l, storeA p.2 = .ok p.2

theorem normA_state (a : Acct) : (normA a).state = a.state := by
  unfold normA; split <;> rfl

theorem normA_idem (a : Acct) : normA (normA a) = normA a := by
  unfold normA
  cases hc : Pool.Gen.C06.serializeNoLatestTx.contains a.state
  · simp only [hc, Bool.false_eq_true, if_false]
  · simp only [hc, if_true]

theorem storeA_ok_iff {a a' : Acct} : storeA a = .ok a' ↔ serPanics a = false ∧ a' = normA a := by
  unfold storeA
  cases hp : serPanics a
  · simp only [Bool.false_eq_true, if_false]
    constructor
    · intro h; injection h with h; exact ⟨trivial, h.symm⟩
    · rintro ⟨_, h⟩; rw [h]
  · simp only [if_true]
    constructor
    · intro h; cases h
    · rintro ⟨h, _⟩; cases h
theorem serPanics_normA {a : Acct} (h : serPanics a = false) : serPanics (normA a) = false := by
  unfold serPanics at *
  rw [normA_state]
  cases hc : Pool.Gen.C06.serializeNoLatestTx.contains a.state
  · rw [hc] at h
    have : normA a = a := by unfold normA; simp only [hc, Bool.false_eq_true, if_false]
    rw [this]; exact h
  · rfl

theorem storeA_idem {a a' : Acct} (h : storeA a = .ok a') : storeA a' = .ok a' := by
  obtain ⟨h1, h2⟩ := storeA_ok_iff.1 h
  subst h2
  exact storeA_ok_iff.2 ⟨serPanics_normA h1, (normA_idem a).symm⟩

theorem storeA_ok_norm {a a' : Acct} (h : storeA a = .ok a') : a' = normA a := (storeA_ok_iff.1 h).2

theorem allStored_nil : AllStored [] := by intro p hp; cases hp

theorem allStored_upsert {k : Key} {a : Acct} {l : List (Key × Acct)} (hl : AllStored l)
    (ha : storeA a = .ok a) : AllStored (upsert k a l) := by
  intro p hp
  rcases mem_upsert hp with h | h
  · rw [h]; exact ha
  · exact hl p h

theorem allStored_over {st main : List (Key × Acct)} (hs : AllStored st) (hm : AllStored main) :
    AllStored (over st main) := by
  intro p hp
  rcases mem_over hp with h | h
  · exact hs p h
  · exact hm p h

theorem applyAccts_ok {pa main : List (Key × Acct)} (h : AllStored pa) :
    applyAccts pa main = .ok (over pa main) := by
  induction pa generalizing main with
  | nil => rfl
  | cons p r ih =>
    obtain ⟨k, v⟩ := p
    have hv : storeA v = .ok v := h (k, v) List.mem_cons_self
    have hr : AllStored r := fun q hq => h q (List.mem_cons_of_mem _ hq)
    simp only [applyAccts, hv]
    exact ih hr

theorem applyOrders_eq (po main : List (Key × Ord)) : applyOrders po main = over po main := by
  induction po generalizing main with
  | nil => rfl
  | cons p r ih => obtain ⟨k, v⟩ := p; simp only [applyOrders]; exact ih _

/-! ### event frames of the loops -/

theorem stageOrdersLoop_ev (main : List (Key × Ord)) (l : List (Key × List OMod)) (st : List (Key × Ord))
    (ev : List (Key × Evt)) (upd : List (Key × Ord)) :
    stageOrdersLoop main l st ev upd =
      match stageOrdersLoop main l st [] upd with
      | .error e => .error e
      | .ok (po, es, u) => .ok (po, ev ++ es, u) := by
  induction l generalizing st ev upd with
  | nil => simp [stageOrdersLoop]
  | cons p r ih =>
    obtain ⟨n, m⟩ := p
    simp only [stageOrdersLoop]
    cases hc : updateOrderCore main n m with
    | error e => simp
    | ok x =>
      obtain ⟨o', e⟩ := x
      simp only []
      rw [ih (upsert n o' st) (ev ++ [(n, e)]) (upd ++ [(n, o')]),
          ih (upsert n o' st) ([] ++ [(n, e)]) (upd ++ [(n, o')])]
      cases stageOrdersLoop main r (upsert n o' st) [] (upd ++ [(n, o')]) with
      | error e => simp
      | ok y => obtain ⟨po, es, u⟩ := y; simp [List.append_assoc]

theorem updateOrdersLoop_ev (l : List (Key × List OMod)) (os : List (Key × Ord)) (ev : List (Key × Evt)) :
    updateOrdersLoop l os ev =
      match updateOrdersLoop l os [] with
      | .error e => .error e
      | .ok (os', es) => .ok (os', ev ++ es) := by
  induction l generalizing os ev with
  | nil => simp [updateOrdersLoop]
  | cons p r ih =>
    obtain ⟨n, m⟩ := p
    simp only [updateOrdersLoop]
    cases hc : updateOrderCore os n m with
    | error e => simp
    | ok x =>
      obtain ⟨o', e⟩ := x
      simp only []
      rw [ih (upsert n o' os) (ev ++ [(n, e)]), ih (upsert n o' os) ([] ++ [(n, e)])]
      cases updateOrdersLoop r (upsert n o' os) [] with
      | error e => simp
      | ok y => obtain ⟨os', es⟩ := y; simp [List.append_assoc]

/-! ### what the staging loops compute -/

/-- the staging bucket is the map built from `updatedOrders` (what `NewSnapshot` builds) -/
theorem stageOrdersLoop_snap {main : List (Key × Ord)} {l : List (Key × List OMod)}
    {st ev upd po ev' upd'} (h : stageOrdersLoop main l st ev upd = .ok (po, ev', upd'))
    (hst : st = over upd []) : po = over upd' [] := by
  induction l generalizing st ev upd with
  | nil => simp [stageOrdersLoop] at h; obtain ⟨h1, _, h3⟩ := h; subst h1 h3; exact hst
  | cons p r ih =>
    obtain ⟨n, m⟩ := p
    simp only [stageOrdersLoop] at h
    cases hc : updateOrderCore main n m with
    | error e => simp [hc] at h
    | ok x =>
      obtain ⟨o', e⟩ := x
      simp only [hc] at h
      refine ih h ?_
      rw [over_append, ← hst]; rfl

theorem stageAcctsLoop_snap {main : List (Key × Acct)} {l : List (Key × List AMod)}
    {st upd pa upd'} (h : stageAcctsLoop main l st upd = .ok (pa, upd'))
    (hst : st = upd.foldl (fun m p => upsert p.1 (normA p.2) m) []) (hs : AllStored st) :
    pa = upd'.foldl (fun m p => upsert p.1 (normA p.2) m) [] ∧ AllStored pa := by
  induction l generalizing st upd with
  | nil => simp [stageAcctsLoop] at h; obtain ⟨h1, h3⟩ := h; subst h1 h3; exact ⟨hst, hs⟩
  | cons p r ih =>
    obtain ⟨k, m⟩ := p
    simp only [stageAcctsLoop] at h
    cases hc : updateAccountCore main k m with
    | error e => simp [hc] at h
    | ok a =>
      simp only [hc] at h
      cases hsa : storeA a with
      | error e => simp [hsa] at h
      | ok a' =>
        simp only [hsa] at h
        have hn := storeA_ok_norm hsa
        refine ih h ?_ (allStored_upsert hs (storeA_idem hsa))
        rw [List.foldl_append, ← hst, hn]; rfl

theorem stageOrdersLoop_nodup {main : List (Key × Ord)} {l : List (Key × List OMod)}
    {st ev upd po ev' upd'} (h : stageOrdersLoop main l st ev upd = .ok (po, ev', upd'))
    (hst : (keys st).Nodup) : (keys po).Nodup := by
  induction l generalizing st ev upd with
  | nil => simp [stageOrdersLoop] at h; obtain ⟨h1, _, _⟩ := h; subst h1; exact hst
  | cons p r ih =>
    obtain ⟨n, m⟩ := p
    simp only [stageOrdersLoop] at h
    cases hc : updateOrderCore main n m with
    | error e => simp [hc] at h
    | ok x => obtain ⟨o', e⟩ := x; simp only [hc] at h; exact ih h (keys_upsert_nodup hst)

theorem stageAcctsLoop_nodup {main : List (Key × Acct)} {l : List (Key × List AMod)}
    {st upd pa upd'} (h : stageAcctsLoop main l st upd = .ok (pa, upd'))
    (hst : (keys st).Nodup) : (keys pa).Nodup := by
  induction l generalizing st upd with
  | nil => simp [stageAcctsLoop] at h; obtain ⟨h1, _⟩ := h; subst h1; exact hst
  | cons p r ih =>
    obtain ⟨k, m⟩ := p
    simp only [stageAcctsLoop] at h
    cases hc : updateAccountCore main k m with
    | error e => simp [hc] at h
    | ok a =>
      simp only [hc] at h
      cases hsa : storeA a with
      | error e => simp [hsa] at h
      | ok a' => simp only [hsa] at h; exact ih h (keys_upsert_nodup hst)

/-! ### declarative content of the staging buckets -/

/-- the modifier list of the LAST entry for key `n` in a call's (key, modifiers) list -/
def lastFor (n : Key) : List (Key × β) → Option β
  | [] => none
  | (k, m) :: r => pick (lastFor n r) (if n = k then some m else none)

/-- staged value of a key: listed in the call → the MAIN record with the listed modifiers applied; else `dflt` -/
def stagedVal (f : β → α → α) (mods : Option β) (mainVal dflt : Option α) : Option α :=
  match mods with
  | some m => mainVal.map (f m)
  | none => dflt

theorem updateOrderCore_ok {main : List (Key × Ord)} {k : Key} {m : List OMod} {o' : Ord} {e : Evt}
    (h : updateOrderCore main k m = .ok (o', e)) :
    ∃ o, lookup k main = some o ∧ o' = applyOMods m o ∧ e = .updated o.state o'.state (sub64 o'.units o'.unfilled) := by
  unfold updateOrderCore at h
  cases hl : lookup k main with
  | none => simp [hl] at h
  | some o =>
    simp only [hl] at h
    injection h with h
    injection h with h1 h2
    exact ⟨o, rfl, h1.symm, by rw [← h2, ← h1]⟩

theorem stageOrdersLoop_lookup {main : List (Key × Ord)} {l : List (Key × List OMod)}
    {st ev upd po ev' upd'} (h : stageOrdersLoop main l st ev upd = .ok (po, ev', upd')) (n : Key) :
    lookup n po = stagedVal applyOMods (lastFor n l) (lookup n main) (lookup n st) := by
  induction l generalizing st ev upd with
  | nil => simp [stageOrdersLoop] at h; obtain ⟨h1, _, _⟩ := h; subst h1; rfl
  | cons p r ih =>
    obtain ⟨k, m⟩ := p
    simp only [stageOrdersLoop] at h
    cases hc : updateOrderCore main k m with
    | error e => simp [hc] at h
    | ok x =>
      obtain ⟨o', e⟩ := x
      simp only [hc] at h
      obtain ⟨o, ho, ho', _⟩ := updateOrderCore_ok hc
      rw [ih h, lookup_upsert]
      simp only [lastFor]
      cases lastFor n r with
      | some x => rfl
      | none =>
        by_cases hk : n = k
        · subst hk; simp [pick, stagedVal, ho, ho']
        · simp [pick, stagedVal, hk]

theorem stageAcctsLoop_lookup {main : List (Key × Acct)} {l : List (Key × List AMod)}
    {st upd pa upd'} (h : stageAcctsLoop main l st upd = .ok (pa, upd')) (n : Key) :
    lookup n pa = stagedVal (fun m a => normA (applyAMods m a)) (lastFor n l) (lookup n main) (lookup n st) := by
  induction l generalizing st upd with
  | nil => simp [stageAcctsLoop] at h; obtain ⟨h1, _⟩ := h; subst h1; rfl
  | cons p r ih =>
    obtain ⟨k, m⟩ := p
    simp only [stageAcctsLoop] at h
    cases hc : updateAccountCore main k m with
    | error e => simp [hc] at h
    | ok a =>
      simp only [hc] at h
      cases hsa : storeA a with
      | error e => simp [hsa] at h
      | ok a' =>
        simp only [hsa] at h
        have hn := storeA_ok_norm hsa
        unfold updateAccountCore at hc
        cases hl : lookup k main with
        | none => simp [hl] at hc
        | some a0 =>
          simp only [hl] at hc
          injection hc with hc
          rw [ih h, lookup_upsert]
          simp only [lastFor]
          cases lastFor n r with
          | some x => rfl
          | none =>
            by_cases hk : n = k
            · subst hk; simp [pick, stagedVal, hl, hn, ← hc]
            · simp [pick, stagedVal, hk]

/-! ### closed form of `StorePendingBatch` -/

structure StageOut where
  po : List (Key × Ord)
  pa : List (Key × Acct)
  es : List (Key × Evt)
  snap : Snap

/-- what a staging call computes – from the MAIN (visible) accounts and orders and its arguments alone -/
def stageOut (accounts : List (Key × Acct)) (orders : List (Key × Ord)) (a : StageArgs) : Except Err StageOut :=
  if a.orders.length ≠ a.orderMods.length then .error .lenOrder
  else if a.accounts.length ≠ a.acctMods.length then .error .lenAcct
  else
    match stageOrdersLoop orders (a.orders.zip a.orderMods) [] [] [] with
    | .error e => .error e
    | .ok (po, es, uo) =>
      match stageAcctsLoop accounts (a.accounts.zip a.acctMods) [] [] with
      | .error e => .error e
      | .ok (pa, ua) =>
        match newSnapshot a uo ua with
        | .error e => .error e
        | .ok snap => .ok ⟨po, pa, es, snap⟩

theorem storePendingBatch_eq (a : StageArgs) (db : DB) :
    storePendingBatch a db =
      match stageOut db.accounts db.orders a with
      | .error e => .error e
      | .ok o => .ok { db with events := db.events ++ o.es, pendingId := some a.batchId,
                               pendingAccts := some o.pa, pendingOrders := some o.po,
                               pendingSnap := some o.snap,
                               noRefs := db.noRefs.filter (fun k => !a.orders.contains k) } := by
  unfold storePendingBatch stageOut
  by_cases h1 : a.orders.length ≠ a.orderMods.length
  · rw [if_pos h1, if_pos h1]
  · by_cases h2 : a.accounts.length ≠ a.acctMods.length
    · rw [if_neg h1, if_neg h1, if_pos h2, if_pos h2]
    · rw [if_neg h1, if_neg h1, if_neg h2, if_neg h2]
      unfold storePendingBatchTx
      simp only []
      rw [stageOrdersLoop_ev]
      cases stageOrdersLoop db.orders (a.orders.zip a.orderMods) [] [] [] with
      | error e => rfl
      | ok x =>
        obtain ⟨po, es, uo⟩ := x
        simp only []
        cases stageAcctsLoop db.accounts (a.accounts.zip a.acctMods) [] [] with
        | error e => rfl
        | ok y =>
          obtain ⟨pa, ua⟩ := y
          simp only []
          cases newSnapshot a uo ua with
          | error e => rfl
          | ok snap => rfl

/-- the snapshot written with a staged batch records exactly the staging buckets -/
theorem stageOut_ok {A : List (Key × Acct)} {O : List (Key × Ord)} {a : StageArgs} {o : StageOut}
    (h : stageOut A O a = .ok o) :
    o.snap.id = a.batchId ∧ o.snap.tx = a.batchTx ∧ o.snap.matched = a.matched ∧
    o.snap.accts = o.pa ∧ o.snap.orders = o.po ∧ AllStored o.pa ∧ (keys o.pa).Nodup ∧ (keys o.po).Nodup ∧
    (∀ n, lookup n o.po = stagedVal applyOMods (lastFor n (a.orders.zip a.orderMods)) (lookup n O) none) ∧
    (∀ k, lookup k o.pa = stagedVal (fun m x => normA (applyAMods m x)) (lastFor k (a.accounts.zip a.acctMods))
            (lookup k A) none) := by
  unfold stageOut at h
  split at h
  · cases h
  · split at h
    · cases h
    · cases ho : stageOrdersLoop O (a.orders.zip a.orderMods) [] [] [] with
      | error e => simp [ho] at h
      | ok x =>
        obtain ⟨po, es, uo⟩ := x
        simp only [ho] at h
        cases ha : stageAcctsLoop A (a.accounts.zip a.acctMods) [] [] with
        | error e => simp [ha] at h
        | ok y =>
          obtain ⟨pa, ua⟩ := y
          simp only [ha] at h
          unfold newSnapshot at h
          cases hf : a.feeOk with
          | false => simp [hf] at h
          | true =>
            simp only [hf, Bool.not_true, Bool.false_eq_true, if_false] at h
            injection h with h
            subst h
            have h1 := stageOrdersLoop_snap ho rfl
            have h2 := stageAcctsLoop_snap ha rfl allStored_nil
            have h3 := stageOrdersLoop_nodup ho (by simp [keys])
            have h4 := stageAcctsLoop_nodup ha (by simp [keys])
            refine ⟨rfl, rfl, rfl, ?_, ?_, h2.2, h4, h3, fun n => stageOrdersLoop_lookup ho n,
              fun k => stageAcctsLoop_lookup ha k⟩
            · exact h2.1.symm
            · simp only [h1, over]

/-! ### the abstraction: visible state and staged batch -/

/-- what `Account(s)`, `GetOrder(s)`, `GetLocalBatchSnapshot(s)` read -/
structure Visible where
  accounts : List (Key × Acct)
  orders : List (Key × Ord)
  snaps : List Snap
  index : List (Nat × Nat)
deriving DecidableEq, Repr

/-- the staging area: pending id, the two staging buckets and the pending snapshot -/
structure Staged where
  id : Nat
  accts : List (Key × Acct)
  orders : List (Key × Ord)
  snap : Snap
deriving DecidableEq, Repr

def vis (db : DB) : Visible := ⟨db.accounts, db.orders, db.snaps, db.index⟩

def staged (db : DB) : Option Staged :=
  match db.pendingId, db.pendingAccts, db.pendingOrders, db.pendingSnap with
  | some i, some a, some o, some s => some ⟨i, a, o, s⟩
  | _, _, _, _ => none

def StagedOK (st : Staged) : Prop :=
  st.snap.id = st.id ∧ st.snap.accts = st.accts ∧ st.snap.orders = st.orders ∧
  AllStored st.accts ∧ (keys st.accts).Nodup ∧ (keys st.orders).Nodup

def NoPending (db : DB) : Prop :=
  db.pendingId = none ∧ db.pendingAccts = none ∧ db.pendingOrders = none ∧ db.pendingSnap = none

def HasPending (db : DB) (st : Staged) : Prop :=
  db.pendingId = some st.id ∧ db.pendingAccts = some st.accts ∧ db.pendingOrders = some st.orders ∧
  db.pendingSnap = some st.snap

/-- every index entry points at a stored snapshot with that batch id -/
def IndexOK (db : DB) : Prop :=
  ∀ id seq, lookup id db.index = some seq → 1 ≤ seq ∧ ∃ s, db.snaps[seq - 1]? = some s ∧ s.id = id

/-- coherence of the buckets (key uniqueness + the staging area is all-or-nothing and consistent) -/
structure Coh (db : DB) : Prop where
  accN : (keys db.accounts).Nodup
  ordN : (keys db.orders).Nodup
  pend : NoPending db ∨ ∃ st, StagedOK st ∧ HasPending db st
  idx : IndexOK db

theorem staged_of_noPending {db : DB} (h : NoPending db) : staged db = none := by
  obtain ⟨h1, _, _, _⟩ := h; simp [staged, h1]

theorem staged_of_hasPending {db : DB} {st : Staged} (h : HasPending db st) : staged db = some st := by
  obtain ⟨h1, h2, h3, h4⟩ := h; simp [staged, h1, h2, h3, h4]

theorem coh_init : Coh DB.init :=
  ⟨by simp [DB.init, keys], by simp [DB.init, keys], Or.inl ⟨rfl, rfl, rfl, rfl⟩,
   by intro id seq h; simp [DB.init, lookup] at h⟩

/-! ### closed form of `MarkBatchComplete` -/

/-- effect of completion on the visible state -/
def applyStaged (st : Staged) (v : Visible) : Visible :=
  { accounts := over st.accts v.accounts, orders := over st.orders v.orders,
    snaps := v.snaps ++ [st.snap], index := upsert st.id (v.snaps.length + 1) v.index }

theorem markBatchComplete_pending {db : DB} {st : Staged} (hp : HasPending db st) (hs : AllStored st.accts) :
    markBatchCompleteTx db =
      .ok { db with accounts := over st.accts db.accounts, orders := over st.orders db.orders,
                    pendingId := none, pendingAccts := none, pendingOrders := none, pendingSnap := none,
                    snaps := db.snaps ++ [st.snap], index := upsert st.id (db.snaps.length + 1) db.index,
                    noRefs := db.noRefs ++ (keys st.orders).filter (fun k => (lookup k db.orders).isNone) } := by
  obtain ⟨h1, h2, h3, h4⟩ := hp
  unfold markBatchCompleteTx applyBatchUpdates
  simp only [h1, h2, applyAccts_ok hs, h3, applyOrders_eq]
  unfold finalizeBatchSnapshot
  simp only [h4]

theorem markBatchComplete_noPending {db : DB} (h : db.pendingId = none) :
    markBatchCompleteTx db = .error .noPending := by
  unfold markBatchCompleteTx; simp only [h]

theorem applyBatchUpdates_events {db d : DB} (h : applyBatchUpdates db = .ok d) : d.events = db.events := by
  unfold applyBatchUpdates at h
  cases h1 : db.pendingAccts with
  | none => simp [h1] at h
  | some pa =>
    simp only [h1] at h
    cases h2 : applyAccts pa db.accounts with
    | error e => simp [h2] at h
    | ok accts =>
      simp only [h2] at h
      cases h3 : db.pendingOrders with
      | none => simp [h3] at h
      | some po => simp only [h3] at h; injection h with h; subst h; rfl

theorem finalizeBatchSnapshot_events {db d : DB} {pid : Nat} (h : finalizeBatchSnapshot pid db = .ok d) :
    d.events = db.events := by
  unfold finalizeBatchSnapshot at h
  cases h1 : db.pendingSnap with
  | none => simp [h1] at h
  | some raw => simp only [h1] at h; injection h with h; subst h; rfl

theorem markBatchComplete_events {db d : DB} (h : markBatchCompleteTx db = .ok d) : d.events = db.events := by
  unfold markBatchCompleteTx at h
  cases h1 : db.pendingId with
  | none => simp [h1] at h
  | some pid =>
    simp only [h1] at h
    cases h2 : applyBatchUpdates db with
    | error e => simp [h2] at h
    | ok d1 =>
      simp only [h2] at h
      rw [finalizeBatchSnapshot_events h, applyBatchUpdates_events h2]

theorem spendPendingClause_events {db d : DB} (h : spendPendingClause db = .ok d) : d.events = db.events := by
  unfold spendPendingClause pendingBatchSnapshot at h
  cases h1 : db.pendingSnap with
  | none => simp only [h1] at h; injection h with h; subst h; rfl
  | some s =>
    simp only [h1] at h
    cases hr : snapReadable db s with
    | true => simp only [hr, if_true] at h; exact markBatchComplete_events h
    | false => simp [hr] at h

/-- closed form of the spend clause: complete iff a batch is staged AND its snapshot is readable (all its
orders still exist in the main bucket); `ErrNoOrder` when not readable; no-op when nothing is staged -/
theorem spendPendingClause_eq (db : DB) :
    spendPendingClause db =
      match db.pendingSnap with
      | none => .ok db
      | some s => if snapReadable db s then markBatchCompleteTx db else .error .noOrder := by
  unfold spendPendingClause pendingBatchSnapshot
  cases db.pendingSnap with
  | none => rfl
  | some s => cases hr : snapReadable db s <;> simp [hr]

end Pool.C06
