import PoolModel.Dec.Ticket
import PoolModel.Dec.Rpc
/-! Helper lemmas for C19: the TLV decoding loop of the model never reaches `panic` when the record size
is capped, and the rpc parsers never reach it when their arguments are nil-checked. -/
namespace Pool.Dec

theorem readVarInt_lt {inp : Bytes} {v : Nat} {rest : Bytes} (h : readVarInt inp = .ok v rest) :
    rest.length < inp.length := by
  unfold readVarInt at h
  split at h
  · cases h
  · rename_i d tl
    simp only [List.length_cons]
    repeat' (first | split at h | dsimp only at h)
    all_goals first
      | (cases h; done)
      | (injection h with h1 h2; subst h2; (try simp only [List.length_drop]); omega)

/-- a record decoder is safe below the cap: no panic, and it never returns more input than it got -/
def RecSafe {σ : Type} (cap : Nat) (r : Rec σ) : Prop :=
  ∀ l, l ≤ cap → ∀ inp s, r.dec l inp s ≠ .panic ∧
    ∀ s' rest, r.dec l inp s = .ok (s', rest) → rest.length ≤ inp.length

theorem getRecord_mem {σ : Type} (recs : List (Rec σ)) (typ : Nat) :
    (∀ r, (getRecord recs typ).1 = some r → r ∈ recs) ∧ (∀ r, r ∈ (getRecord recs typ).2 → r ∈ recs) := by
  induction recs with
  | nil => simp [getRecord]
  | cons a as ih =>
    unfold getRecord
    split
    · constructor
      · intro r h; simp at h; subst h; simp
      · intro r h; simp; right; exact h
    · split
      · constructor
        · intro r h; exact List.mem_cons_of_mem _ (ih.1 r h)
        · intro r h; exact List.mem_cons_of_mem _ (ih.2 r h)
      · constructor
        · intro r h; simp at h
        · intro r h; exact h

theorem copyN_le {len : Nat} {inp rest : Bytes} (h : copyN len inp = .ok rest) : rest.length ≤ inp.length := by
  unfold copyN at h
  repeat' split at h
  all_goals first
    | (cases h; done)
    | (injection h with h1; subst h1; simp)

theorem copyN_ne_panic (len : Nat) (inp : Bytes) : copyN len inp ≠ .panic := by
  unfold copyN; repeat' split
  all_goals simp

theorem alloc_le_ne_panic {m n : Nat} (h : n ≤ m) : alloc m n = .ok () := by
  unfold alloc; simp; omega

/-- With the 65535 cap (`p2p = true`), safe records and an allocation limit of at least the cap, the
decoding loop never panics and never runs out of fuel. -/
theorem decodeLoop_ne_panic {σ : Type} (maxAlloc : Nat) (hm : maxRecordSize ≤ maxAlloc) (wt : Bool) :
    ∀ (fuel : Nat) (recs : List (Rec σ)), (∀ r ∈ recs, RecSafe maxRecordSize r) →
    ∀ (min : Nat) (inp : Bytes) (s : σ) (parsed : List Nat), inp.length < fuel →
      decodeLoop true maxAlloc wt fuel recs min inp s parsed ≠ .panic := by
  intro fuel
  induction fuel with
  | zero => intro recs _ min inp s parsed h; omega
  | succ fuel ih =>
    intro recs hs min inp s parsed hlen
    unfold decodeLoop
    split
    · simp
    · simp
    · simp
    · rename_i typ inp1 h1
      have l1 := readVarInt_lt h1
      split
      · simp
      · split
        · simp
        · simp
        · simp
        · rename_i len inp2 h2
          have l2 := readVarInt_lt h2
          split
          · simp
          · rename_i hcap
            have hlen' : len ≤ maxRecordSize := by
              simp at hcap; omega
            have gm := getRecord_mem recs typ
            split
            · rename_i r recs' hg
              have hr : r ∈ recs := gm.1 r (by rw [hg])
              have hrecs' : ∀ x ∈ recs', RecSafe maxRecordSize x := fun x hx => hs x (gm.2 x (by rw [hg]; exact hx))
              have safe := hs r hr len hlen' inp2 s
              split
              · rename_i s' inp3 hd
                have := safe.2 s' inp3 hd
                exact ih recs' hrecs' _ _ _ _ (by omega)
              · simp
              · rename_i hd; exact absurd hd safe.1
            · rename_i recs' hg
              have hrecs' : ∀ x ∈ recs', RecSafe maxRecordSize x := fun x hx => hs x (gm.2 x (by rw [hg]; exact hx))
              have ha : (if wt then alloc maxAlloc len else Outcome.ok ()) = .ok () := by
                split
                · exact alloc_le_ne_panic (by omega)
                · rfl
              rw [ha]
              simp only
              split
              · rename_i inp3 hc
                have := copyN_le hc
                exact ih recs' hrecs' _ _ _ _ (by omega)
              · simp
              · rename_i hc; exact absurd hc (copyN_ne_panic _ _)

theorem decodeStream_ne_panic {σ : Type} (maxAlloc : Nat) (hm : maxRecordSize ≤ maxAlloc) (wt : Bool)
    (recs : List (Rec σ)) (hs : ∀ r ∈ recs, RecSafe maxRecordSize r) (inp : Bytes) (s : σ) :
    decodeStream true maxAlloc wt recs inp s ≠ .panic := by
  unfold decodeStream
  split
  · exact decodeLoop_ne_panic maxAlloc hm wt _ recs hs 0 inp s [] (by omega)
  · simp

theorem readFull_ne_panic (n : Nat) (inp : Bytes) : readFull n inp ≠ .panic := by
  unfold readFull; split <;> simp

theorem readFull_le {n : Nat} {inp v rest : Bytes} (h : readFull n inp = .ok (v, rest)) :
    rest.length ≤ inp.length := by
  unfold readFull at h
  split at h
  · cases h
  · injection h with h; injection h with h1 h2; subst h2; simp

theorem dStatic_safe {σ : Type} (cap size : Nat) (set : Bytes → σ → σ) : RecSafe cap ⟨t, dStatic size set⟩ := by
  intro l _ inp s
  simp only [dStatic]
  split
  · split
    · rename_i v rest h
      refine ⟨by simp, ?_⟩
      intro s' rest' h'
      injection h' with h'; injection h' with _ h2; subst h2
      exact readFull_le h
    · simp
    · rename_i h; exact absurd h (readFull_ne_panic _ _)
  · simp

theorem dChecked_safe {σ : Type} (cap size : Nat) (check : Bytes → σ → Outcome σ)
    (hc : ∀ v s, check v s ≠ .panic) : RecSafe cap ⟨t, dChecked size check⟩ := by
  intro l _ inp s
  simp only [dChecked]
  split
  · split
    · rename_i v rest h
      split
      · refine ⟨by simp, ?_⟩
        intro s' rest' h'
        injection h' with h'; injection h' with _ h2; subst h2
        exact readFull_le h
      · simp
      · rename_i h'; exact absurd h' (hc _ _)
    · simp
    · rename_i h; exact absurd h (readFull_ne_panic _ _)
  · simp

theorem dVarBytes_safe {σ : Type} (cfg : Cfg) (hm : maxRecordSize ≤ cfg.maxAlloc) (set : Bytes → σ → σ) :
    RecSafe maxRecordSize ⟨t, dVarBytes cfg set⟩ := by
  intro l hl inp s
  simp only [dVarBytes]
  rw [alloc_le_ne_panic (by omega)]
  simp only
  split
  · rename_i v rest h
    refine ⟨by simp, ?_⟩
    intro s' rest' h'
    injection h' with h'; injection h' with _ h2; subst h2
    exact readFull_le h
  · simp
  · rename_i h; exact absurd h (readFull_ne_panic _ _)

theorem checkPubKey_ne_panic {σ : Type} (set : Bytes → σ → σ) (v : Bytes) (s : σ) :
    checkPubKey set v s ≠ .panic := by
  unfold checkPubKey; split <;> simp

theorem checkSig_ne_panic {σ : Type} (set : Sig → σ → σ) (v : Bytes) (s : σ) :
    checkSig set v s ≠ .panic := by
  unfold checkSig; split
  · simp
  · split <;> simp

end Pool.Dec

namespace Pool.Dec

theorem Outcome.bind_ne_panic {α β : Type} {x : Outcome α} {f : α → Outcome β} (hx : x ≠ .panic)
    (hf : ∀ a, f a ≠ .panic) : (x >>= f) ≠ .panic := by
  cases x with
  | ok a => exact hf a
  | err e => simp
  | panic => exact absurd rfl hx

theorem offerRecs_safe : ∀ r ∈ offerRecs, RecSafe maxRecordSize r := by
  intro r hr
  simp only [offerRecs, List.mem_cons, List.mem_nil_iff, or_false] at hr
  rcases hr with h | h | h | h | h | h | h | h <;> subst h
  · exact dStatic_safe _ _ _
  · exact dStatic_safe _ _ _
  · exact dStatic_safe _ _ _
  · exact dChecked_safe _ _ _ (checkPubKey_ne_panic _)
  · exact dChecked_safe _ _ _ (checkSig_ne_panic _)
  · exact dStatic_safe _ _ _
  · exact dStatic_safe _ _ _
  · exact dStatic_safe _ _ _

theorem recipientRecs_safe : ∀ r ∈ recipientRecs, RecSafe maxRecordSize r := by
  intro r hr
  simp only [recipientRecs, List.mem_cons, List.mem_nil_iff, or_false] at hr
  rcases hr with h | h | h <;> subst h
  · exact dChecked_safe _ _ _ (checkPubKey_ne_panic _)
  · exact dChecked_safe _ _ _ (checkPubKey_ne_panic _)
  · exact dStatic_safe _ _ _

theorem orderRecs_safe : ∀ r ∈ orderRecs, RecSafe maxRecordSize r := by
  intro r hr
  simp only [orderRecs, List.mem_cons, List.mem_nil_iff, or_false] at hr
  rcases hr with h | h <;> subst h
  · exact dStatic_safe _ _ _
  · exact dChecked_safe _ _ _ (checkSig_ne_panic _)

theorem executionRecs_safe : ∀ r ∈ executionRecs, RecSafe maxRecordSize r := by
  intro r hr
  simp only [executionRecs, List.mem_cons, List.mem_nil_iff, or_false] at hr
  subst hr
  exact dStatic_safe _ _ _

theorem ticketRecs_safe (cfg : Cfg) (hm : maxRecordSize ≤ cfg.maxAlloc) :
    ∀ r ∈ ticketRecs cfg, RecSafe maxRecordSize r := by
  intro r hr
  simp only [ticketRecs, List.mem_cons, List.mem_nil_iff, or_false] at hr
  rcases hr with h | h | h | h | h | h | h <;> subst h
  · exact dStatic_safe _ _ _
  · exact dStatic_safe _ _ _
  · exact dStatic_safe _ _ _
  · exact dVarBytes_safe cfg hm _
  · exact dVarBytes_safe cfg hm _
  · exact dVarBytes_safe cfg hm _
  · exact dVarBytes_safe cfg hm _

theorem decodeBytes_ne_panic {σ : Type} (cfg : Cfg) (hp : cfg.p2pSub = true) (hm : maxRecordSize ≤ cfg.maxAlloc)
    (recs : List (Rec σ)) (hs : ∀ r ∈ recs, RecSafe maxRecordSize r) (b : Bytes) (s : σ) :
    decodeBytes cfg recs b s ≠ .panic := by
  unfold decodeBytes
  rw [hp]
  split
  · simp
  · simp
  · rename_i h; exact absurd h (decodeStream_ne_panic _ hm _ _ hs _ _)

theorem deserializeOffer_ne_panic (cfg : Cfg) (hp : cfg.p2pSub = true) (hm : maxRecordSize ≤ cfg.maxAlloc)
    (b : Bytes) : deserializeOffer cfg b ≠ .panic := by
  unfold deserializeOffer
  split
  · simp
  · simp
  · rename_i h; exact absurd h (decodeBytes_ne_panic cfg hp hm _ offerRecs_safe _ _)

theorem optPart_ne_panic {α : Type} (p : Bool) (f : Outcome α) (h : f ≠ .panic) : optPart p f ≠ .panic := by
  unfold optPart
  cases f <;> cases p <;> simp_all

/-- `DeserializeTicket` of the model never panics when both decoders are the capped variants. -/
theorem deserializeTicket_ne_panic (cfg : Cfg) (ht : cfg.p2pTop = true) (hp : cfg.p2pSub = true)
    (hm : maxRecordSize ≤ cfg.maxAlloc) (b : Bytes) : deserializeTicket cfg b ≠ .panic := by
  unfold deserializeTicket
  rw [ht]
  split
  · simp
  · rename_i h; exact absurd h (decodeStream_ne_panic _ hm _ _ (ticketRecs_safe cfg hm) _ _)
  · split
    · simp
    · rename_i h
      split at h
      · exact absurd h (deserializeOffer_ne_panic cfg hp hm _)
      · cases h
    · split
      · simp
      · rename_i h
        exact absurd h (optPart_ne_panic _ _ (decodeBytes_ne_panic cfg hp hm _ recipientRecs_safe _ _))
      · split
        · simp
        · rename_i h
          exact absurd h (optPart_ne_panic _ _ (decodeBytes_ne_panic cfg hp hm _ orderRecs_safe _ _))
        · split
          · simp
          · rename_i h
            exact absurd h (optPart_ne_panic _ _ (decodeBytes_ne_panic cfg hp hm _ executionRecs_safe _ _))
          · simp

end Pool.Dec
