import PoolModel.Batch
/-!
Spec predicates of C01/C02/C03, written from the English statements of the properties.  They mention only the
trader's environment (`Env`: stored orders and accounts, node key, protocol version, external functions) and the
proposal (`Batch`), never the intermediate state of the verifier.
-/
namespace Pool.Batch

/-! ## C01 -/

/-- the order's allow/deny list permits node `k` (an allow list, when present, takes precedence) -/
def Permits (o : Ours) (k : Key) : Prop :=
  (o.allowed ≠ [] → k ∈ o.allowed) ∧ (o.allowed = [] → k ∉ o.notAllowed)

/-- one matched order is on the opposite side, in the same lease duration and market (auction type), placed by
another node that the allow/deny list permits, with ask rate ≤ bid rate -/
def MatchHonoursTerms (env : Env) (o : Ours) (t : Their) : Prop :=
  t.isAsk ≠ o.isAsk ∧ t.duration = o.duration ∧ t.auctionType = o.auctionType ∧
  t.nodeKey ≠ env.ourNode ∧ Permits o t.nodeKey ∧
  (if o.isAsk then o.rate ≤ t.rate else t.rate ≤ o.rate)

/-- total matched units, as an integer sum -/
def totalUnits (ts : List Their) : Nat := (ts.map (·.unitsFilled)).sum

/-- the auction type of the outbound-liquidity market (`order.BTCOutboundLiquidity`) -/
def outboundMarket : Nat := 1

def OrderHonoursTerms (env : Env) (b : Batch) (nm : Nonce × List Their) : Prop :=
  ∃ o, findOrder nm.1 env.orders = some o ∧
    (∀ t ∈ nm.2, MatchHonoursTerms env o t) ∧
    -- clearing price of the order's duration: not above our bid rate, not below our ask rate
    (if o.isAsk then o.rate ≤ clearingPrice b o.duration else clearingPrice b o.duration ≤ o.rate) ∧
    totalUnits nm.2 ≤ o.unitsUnfulfilled ∧
    (o.auctionType ≠ outboundMarket → o.minUnitsMatch ≤ totalUnits nm.2)

/-- C01, restated: same protocol version, height hint within three blocks (as integers), every matched order
honours the terms -/
def HonoursTerms (env : Env) (b : Batch) (best : UInt32) : Prop :=
  b.version = env.version ∧
  (b.heightHint.toNat ≤ best.toNat + 3 ∧ best.toNat ≤ b.heightHint.toNat + 3) ∧
  ∀ nm ∈ b.matched, OrderHonoursTerms env b nm

/-- wire-type ranges: `UnitsFilled` is a uint32 on the wire and a Go slice has fewer than 2^32 elements here -/
def WireRanges (b : Batch) : Prop :=
  ∀ nm ∈ b.matched, nm.2.length < 2 ^ 32 ∧ ∀ t ∈ nm.2, t.unitsFilled < 2 ^ 32


/-! ## C02 -/

/-- value fits Go's `int64` -/
def I64 (x : Int) : Prop := -(2 ^ 63 : Int) ≤ x ∧ x < 2 ^ 63

instance (x : Int) : Decidable (I64 x) := by unfold I64; infer_instance

/-- matched units in satoshis (`BaseSupplyUnit` = 100 000 sat) -/
def unitsSat (t : Their) : Int := (t.unitsFilled : Int) * 100000

/-- the self-funded channel balance of the match's bid (ours if we are the bidder, else the counterparty's) -/
def bidSelfBalance (o : Ours) (t : Their) : Int := if o.isAsk then t.selfChanBalance else o.selfChanBalance

/-- the amount the premium is computed on: the channel capital, plus the bid's own balance in the outbound market -/
def premiumBase (o : Ours) (t : Their) : Int :=
  if o.auctionType = outboundMarket then unitsSat t + bidSelfBalance o t else unitsSat t

/-- execution fee of the published linear fee schedule: base + amount · rate / 10⁶ (truncated) -/
def specExecFee (b : Batch) (amt : Int) : Int := b.execBase + Int.tdiv (amt * b.execRate) 1000000

/-- balance change of one match: maker earns the premium, provides the capital, pays the execution fee on the
capital; taker pays the premium, its self-funded channel balance and the execution fee on the premium base -/
def specMatchDelta (env : Env) (b : Batch) (o : Ours) (t : Their) : Int :=
  let price := clearingPrice b o.duration
  if o.isAsk then
    env.premium (premiumBase o t) price o.duration - unitsSat t - specExecFee b (unitsSat t)
  else
    - env.premium (premiumBase o t) price o.duration - o.selfChanBalance - specExecFee b (premiumBase o t)

/-- chain fee of the account's share of the batch transaction: account output (43 vbytes) + account input (41) +
half of each channel output (43), ×4, + the witness of the account's current version, at the batch fee rate -/
def specChainFee (n : Nat) (feeRate : Int) (version : Nat) : Int :=
  Int.tdiv (feeRate * ((4 * (84 + (43 * n + 1) / 2) + (if version = 1 ∨ version = 2 then 66 else 229) : Nat) : Int)) 1000

/-- the matched entries `(order, matches)` whose order is charged to account `k` -/
def chargedTo (env : Env) (b : Batch) (k : Key) : List (Ours × List Their) :=
  b.matched.filterMap fun nm => match findOrder nm.1 env.orders with
    | some o => if o.acctKey = k then some (o, nm.2) else none
    | none => none

/-- the ending balance the property prescribes, over the integers -/
def specEndingBalance (env : Env) (b : Batch) (a : Acct) : Int :=
  a.value + ((chargedTo env b a.key).map fun c => (c.2.map (specMatchDelta env b c.1)).sum).sum
    - specChainFee ((chargedTo env b a.key).map (·.2.length)).sum b.feeRate a.version

/-- account versions the trader supports (p2wsh, taproot, taproot v2) -/
def supportedVersions : List Nat := [0, 1, 2]
/-- maximum account lifetime in blocks -/
def maxLifetime : Nat := 52560

/-- the ending-state clause of C02 for one charged account -/
def EndingClause (env : Env) (b : Batch) (best : UInt32) (a : Acct) (d : Diff) : Prop :=
  if d.endingBalance < env.minNoDust then
    -- below the dust threshold: no output claimed, account treated as spent
    d.outpointIndex < 0 ∧ d.endingState ∈ ([1, 2, 3] : List Int)
  else
    d.endingState = 0 ∧ 0 ≤ d.outpointIndex ∧
    ∃ out, b.txOuts[d.outpointIndex.toNat]? = some out ∧ out.value = d.endingBalance ∧
      -- next rotated script of this account for the version / expiry it will carry
      env.acctScript a.key (scriptVersion (newVersionOf b a d)) (newExpiryOf b a d) = some out.script ∧
      (newVersionOf b a d ≠ a.version → newVersionOf b a d ∈ supportedVersions) ∧
      (newExpiryOf b a d ≠ a.expiry → newExpiryOf b a d ≤ best.toNat + maxLifetime)

/-- C02 for one account diff -/
def ChargedExactly (env : Env) (b : Batch) (best : UInt32) (d : Diff) : Prop :=
  ∃ a, findAcct d.acctKey env.accounts = some a ∧
    chargedTo env b d.acctKey ≠ [] ∧
    d.endingBalance = w64 (specEndingBalance env b a) ∧
    EndingClause env b best a d

/-- no intermediate value of one match's fee arithmetic leaves `int64` -/
def MatchGuard (b : Batch) (o : Ours) (t : Their) : Prop :=
  let feeAmt := if o.isAsk then unitsSat t else premiumBase o t
  t.unitsFilled < 2 ^ 32 ∧ I64 (unitsSat t + bidSelfBalance o t) ∧ I64 (feeAmt * b.execRate) ∧ I64 (specExecFee b feeAmt)

instance (b : Batch) (o : Ours) (t : Their) : Decidable (MatchGuard b o t) := by unfold MatchGuard; infer_instance

/-- domain guard `D` of C02: wire-type ranges and no `int64`/`uint32` overflow inside the fee arithmetic -/
def NoOverflow (env : Env) (b : Batch) : Prop :=
  (∀ nm ∈ b.matched, ∀ o ∈ (findOrder nm.1 env.orders).toList, ∀ t ∈ nm.2, MatchGuard b o t) ∧
  (∀ a ∈ env.accounts,
    43 * ((chargedTo env b a.key).map (·.2.length)).sum + 1 < 2 ^ 32 ∧
    I64 (b.feeRate * ((4 * (84 + (43 * ((chargedTo env b a.key).map (·.2.length)).sum + 1) / 2) +
      (if a.version = 1 ∨ a.version = 2 then 66 else 229) : Nat) : Int)))

instance (env : Env) (b : Batch) : Decidable (NoOverflow env b) := by unfold NoOverflow; infer_instance


/-! ## C03 -/

/-- `order.ChannelTypeScriptEnforced`, `order.ChannelTypeSimpleTaproot` -/
def chanScriptEnforced : Nat := 1
def chanSimpleTaproot : Nat := 2

/-- the commitment type two orders imply has a MuSig2 taproot funding output iff both asked for simple taproot
channels and neither asked for script-enforced leases (otherwise the funding output is the p2wsh 2-of-2) -/
def impliesTaprootFunding (oursCt theirsCt : Nat) : Bool :=
  decide ((oursCt ≠ chanScriptEnforced ∧ theirsCt ≠ chanScriptEnforced) ∧
    (oursCt = chanSimpleTaproot ∧ theirsCt = chanSimpleTaproot))

/-- the trader-side funding key of an order: the sidecar recipient's key when our bid carries a ticket, else the
key the wallet derives for the order -/
def OurFundingKey (o : Ours) (k : Key) : Prop :=
  if !o.isAsk && o.sidecar.isSome then o.sidecar = some (some k) else o.derivedKey = some k

/-- one match is funded: an output of exactly units·100 000 + the bid's self balance paying to the funding script of
the implied commitment type over our funding key and the counterparty's advertised key -/
def FundsChannel (env : Env) (b : Batch) (o : Ours) (t : Their) : Prop :=
  ∃ k, OurFundingKey o k ∧ ∃ out ∈ b.txOuts,
    out.value = w64 (unitsSat t + bidSelfBalance o t) ∧
    env.fundScript (impliesTaprootFunding o.chanType t.chanType) k t.multiSigKey = some out.script

def FundsChannels (env : Env) (b : Batch) : Prop :=
  ∀ nm ∈ b.matched, ∃ o, findOrder nm.1 env.orders = some o ∧ ∀ t ∈ nm.2, FundsChannel env b o t

end Pool.Batch
