import PoolModel.C17
/-!
# C17 — spec predicates, written from the property's English text

## Acceptor
`Demanded bid req`: push amount, commitment type, announcement flag and zero-conf flag of the incoming request
are exactly what the registered bid demands.

* push amount: `req.PushAmt` carries milli-satoshis; "exactly" is in whole satoshis as lnd itself converts
  (`MilliSatoshi.ToSatoshis`, truncating): `⌊uint64(pushMsat)/1000⌋ = SelfChanBalance`.
* commitment type: a peer-dependent bid demands nothing; script-enforced demands an explicitly negotiated
  `CommitmentTypeScriptEnforcedLease`; simple-taproot an explicitly negotiated `CommitmentTypeSimpleTaproot`;
  any other (unknown) bid channel type can never be satisfied.
* announcement: bit 0 (`FFAnnounceChannel`) of the funding flags is set iff the bid is *not* unannounced.
* zero-conf: the opener's channel type carries the zero-conf bit iff the bid is zero-conf.

## Funding parameters
`ShimsAgree`: the open request of the maker (asker) and the shim + acceptor expectation registered by the taker
agree field by field.
-/
namespace Pool.C17

/-- commitment type demanded by a bid's channel type -/
def CommitTypeOK (channelType : Nat) (ct : Option Nat) : Prop :=
  channelType = Gen.C17.chanTypePeerDependent ∨
  (channelType = Gen.C17.chanTypeScriptEnforced ∧ ct = some lnwCommitScriptEnforcedLease) ∨
  (channelType = Gen.C17.chanTypeSimpleTaproot ∧ ct = some lnwCommitSimpleTaproot)

/-- the incoming request is exactly the channel the bid demands -/
def Demanded (bid : ExpBid) (req : AccReq) : Prop :=
  Int.ofNat (toU64 req.pushAmt / 1000) = bid.selfChanBalance ∧
  CommitTypeOK bid.channelType req.commitType ∧
  (req.channelFlags % 2 = 1 ↔ bid.unannounced = false) ∧
  req.wantsZeroConf = bid.zeroConf

/-- the registration a history (most recent op first) leaves for `pid`: the latest `ShimRegistered(pid, ·)` unless a
later `ShimRemoved` named that bid's nonce. -/
def lastReg : List RegOp → Bytes → Option ExpBid
  | [], _ => none
  | .reg p b :: older, pid => if p = pid then some b else lastReg older pid
  | .rm n :: older, pid => (lastReg older pid).bind (fun b => if b.nonce = n then none else some b)

/-- lease maturity: the bid's lease duration, made absolute (`+ heightHint`, uint32) when either order asks for a
script-enforced channel -/
def thawSpec (askType bidType lease hint : Nat) : Nat :=
  if askType = Gen.C17.chanTypeScriptEnforced ∨ bidType = Gen.C17.chanTypeScriptEnforced
  then (lease + hint) % 2 ^ 32 else lease

/-- commitment type both orders imply: script enforced if either asks for it, simple taproot only if both do,
otherwise left to the peers (lnrpc numbering) -/
def commitSpec (askType bidType : Nat) : Nat :=
  if askType = Gen.C17.chanTypeScriptEnforced ∨ bidType = Gen.C17.chanTypeScriptEnforced then 4
  else if askType = Gen.C17.chanTypeSimpleTaproot ∧ bidType = Gen.C17.chanTypeSimpleTaproot then 5
  else 0

/-- `i` is the first output of the transaction that carries `script` -/
def FirstOutputWith (outs : List Bytes) (script : Bytes) (i : Nat) : Prop :=
  outs[i]? = some script ∧ ∀ j : Nat, j < i → outs[j]? ≠ some script

/-- Maker (asker: `req`, the `OpenChannelRequest` incl. its funding shim) and taker (`sT` the shim registered with
lnd, `pidT`/`eT` the pending id and bid handed to the channel acceptor) agree.  `H` = SHA-256, `ka`/`kb` the multisig
keys the ask / the bid were submitted with, `nb` the node the bid names as channel recipient. -/
structure ShimsAgree (H : Bytes → Bytes) (a : Kit) (b : Bid) (ka kb nb : Bytes) (u : Nat) (tx : BatchTx)
    (hint : Nat) (script : Bytes) (req : OpenReq) (sT : Shim) (pidT : Bytes) (eT : ExpBid) : Prop where
  pid_maker : req.shim.pendingChanId = H (a.nonce ++ b.kit.nonce)
  pid_taker : sT.pendingChanId = H (a.nonce ++ b.kit.nonce)
  pid_acceptor : pidT = H (a.nonce ++ b.kit.nonce)
  txid : req.shim.txid = tx.txid ∧ sT.txid = tx.txid
  outpoint_same : req.shim.outputIndex = sT.outputIndex
  outpoint_first : (∃ i : Nat, tx.outs[i]? = some script) → FirstOutputWith tx.outs script sT.outputIndex
  capacity : req.shim.amt = wrapI64 (toSatoshis u + b.selfChanBalance) ∧ sT.amt = req.shim.amt ∧
             req.localFundingAmount = req.shim.amt
  keys : req.shim.localKey = ka ∧ req.shim.remoteKey = kb ∧ sT.localKey = kb ∧ sT.remoteKey = ka
  thaw : req.shim.thawHeight = thawSpec a.channelType b.kit.channelType b.kit.leaseDuration hint ∧
         sT.thawHeight = req.shim.thawHeight
  commit : req.commitmentType = commitSpec a.channelType b.kit.channelType
  musig2 : req.shim.musig2 = sT.musig2 ∧ (sT.musig2 = true ↔ req.commitmentType = 5)
  push : req.pushSat = b.selfChanBalance
  announce : req.isPrivate = b.unannounced
  zeroConf : req.zeroConf = b.zeroConf
  node : req.nodePubkey = nb
  acceptor : eT.nonce = b.kit.nonce ∧ eT.selfChanBalance = b.selfChanBalance ∧ eT.unannounced = b.unannounced ∧
             eT.zeroConf = b.zeroConf ∧ eT.channelType = b.kit.channelType

/-- a sidecar bid says what its ticket's offer says (all a recipient ever sees) -/
def OfferConsistent (offer : Offer) (b : Bid) : Prop :=
  offer.leaseDurationBlocks = b.kit.leaseDuration ∧ offer.pushAmt = b.selfChanBalance ∧
  offer.unannounced = b.unannounced ∧ offer.zeroConf = b.zeroConf

end Pool.C17
