import PoolProofs.BatchLemmas
import PoolProofs.BatchExamples
/-! Order independence: the acceptance decision does not depend on the order in which Go iterates the
`MatchedOrders` map.  The tallies after the per-order loop are determined (balances modulo 2^64) by sums over the
entries charged to each account, and the account-diff loop only looks at those. -/
set_option linter.unusedSimpArgs false
set_option linter.unusedVariables false
namespace Pool.Batch

/-! ## states that the diff loop cannot tell apart -/

def EqE (e e2 : Entry) : Prop := e.key = e2.key ∧ w64 e.bal = w64 e2.bal ∧ e.chans = e2.chans ∧ e.acct = e2.acct

def EqO : Option Entry → Option Entry → Prop
  | none, none => True
  | some e, some e2 => EqE e e2
  | _, _ => False

def EqSt (st st2 : Tallies) : Prop := ∀ k, EqO (findEntry k st) (findEntry k st2)

/-- same verdict: equal errors, or both accept with indistinguishable states -/
def SameRes : Except Err Tallies → Except Err Tallies → Prop
  | .error a, .error c => a = c
  | .ok s, .ok s2 => EqSt s s2
  | _, _ => False

theorem w64_sub_congr {x y f : Int} (h : w64 x = w64 y) : w64 (x - f) = w64 (y - f) := by
  rw [← w64_sub_left x, h, w64_sub_left]

theorem verifyDiff_respects (env : Env) (rules : Rules) (b : Batch) (best : UInt32) (st st2 : Tallies)
    (seen : List Key) (d : Diff) (h : EqSt st st2) :
    SameRes (verifyDiff env rules b best st seen d) (verifyDiff env rules b best st2 seen d) := by
  have hk := h d.acctKey
  unfold verifyDiff
  cases h1 : findEntry d.acctKey st with
  | none =>
    cases h2 : findEntry d.acctKey st2 with
    | none => simp [SameRes]
    | some e2 => rw [h1, h2] at hk; exact hk.elim
  | some e =>
    cases h2 : findEntry d.acctKey st2 with
    | none => rw [h1, h2] at hk; exact hk.elim
    | some e2 =>
      rw [h1, h2] at hk
      obtain ⟨hkey, hbal, hch, hac⟩ := hk
      have hb : w64 (e.bal - estimateTraderFee e2.chans b.feeRate e2.acct.version) =
          w64 (e2.bal - estimateTraderFee e2.chans b.feeRate e2.acct.version) := w64_sub_congr hbal
      simp only [hch, hac, hb]
      split
      · simp [SameRes]
      split
      · simp [SameRes]
      split
      · simp [SameRes]
      split
      · simp [SameRes]
      cases validateEndingState env b.txOuts (acctAfter b e2.acct d) d with
      | error err => simp [SameRes]
      | ok u =>
        simp only [SameRes]
        intro k
        rw [findEntry_setEntry, findEntry_setEntry]
        simp only [hkey]
        have hkk := h k
        by_cases hek : (e2.key == k) = true
        · simp only [hek, if_true]
          cases h3 : findEntry k st <;> cases h4 : findEntry k st2 <;> rw [h3, h4] at hkk <;>
            simp [EqO, EqE, hkey, hch] at hkk ⊢
        · simp only [hek]
          exact hkk

theorem verifyDiffs_respects (env : Env) (rules : Rules) (b : Batch) (best : UInt32) :
    ∀ (ds : List Diff) (st st2 : Tallies) (seen : List Key), EqSt st st2 →
      SameRes (verifyDiffs env rules b best st seen ds) (verifyDiffs env rules b best st2 seen ds) := by
  intro ds
  induction ds with
  | nil => intro st st2 seen h; simpa [verifyDiffs, SameRes] using h
  | cons d rest ih =>
    intro st st2 seen h
    have h1 := verifyDiff_respects env rules b best st st2 seen d h
    simp only [verifyDiffs]
    cases hr : verifyDiff env rules b best st seen d <;>
      cases hr2 : verifyDiff env rules b best st2 seen d <;> rw [hr, hr2] at h1 <;> simp only [SameRes] at h1
    · simp [SameRes, h1]
    · exact ih _ _ _ h1

theorem sameRes_isOk {r r2 : Except Err Tallies} (h : SameRes r r2) : isOk r = isOk r2 := by
  cases r <;> cases r2 <;> simp [SameRes, isOk] at h ⊢

/-! ## sums over permuted lists -/

theorem perm_sum_int {l l2 : List Int} (h : l.Perm l2) : l.sum = l2.sum := by
  induction h with
  | nil => rfl
  | cons x _ ih => simp [ih]
  | swap x y l => simp; omega
  | trans _ _ ih1 ih2 => exact ih1.trans ih2

theorem perm_sum_nat {l l2 : List Nat} (h : l.Perm l2) : l.sum = l2.sum := by
  induction h with
  | nil => rfl
  | cons x _ ih => simp [ih]
  | swap x y l => simp; omega
  | trans _ _ ih1 ih2 => exact ih1.trans ih2

theorem contribs_perm {env : Env} {k : Key} {l l2 : List (Nonce × List Their)} (h : l.Perm l2) :
    (contribs env k l).Perm (contribs env k l2) := by
  unfold contribs; exact h.filterMap _

/-- two states tracking permutations of the same entries are indistinguishable -/
theorem tracks_eqSt {env : Env} {b : Batch} {l l2 : List (Nonce × List Their)} {st st2 : Tallies}
    (hp : l.Perm l2) (h1 : ∀ k, Tracks env b k (findEntry k st) l) (h2 : ∀ k, Tracks env b k (findEntry k st2) l2) :
    EqSt st st2 := by
  intro k
  have hc := contribs_perm (env := env) (k := k) hp
  have hms : modelSum env b (contribs env k l) = modelSum env b (contribs env k l2) :=
    perm_sum_int (hc.map _)
  have hcc : chanCount (contribs env k l) = chanCount (contribs env k l2) := perm_sum_nat (hc.map _)
  have t1 := h1 k
  have t2 := h2 k
  cases e1 : findEntry k st <;> cases e2 : findEntry k st2 <;> rw [e1] at t1 <;> rw [e2] at t2 <;>
    simp only [Tracks] at t1 t2 <;> simp only [EqO]
  · rw [t1] at hc; exact t2.2.2.2.2 (List.Perm.nil_eq hc).symm
  · rw [t2] at hc; exact t1.2.2.2.2 (List.Perm.eq_nil hc)
  · obtain ⟨a1, a2, a3, a4, _⟩ := t1
    obtain ⟨c1, c2, c3, c4, _⟩ := t2
    have hacct : _ := a2.symm.trans c2
    simp only [Option.some.injEq] at hacct
    refine ⟨by rw [a1, c1], ?_, by rw [a4, c4, hcc], hacct⟩
    rw [a3, c3, hms, hacct]

/-! ## the whole decision with an explicit iteration order -/

/-- `Verify` when Go iterates `MatchedOrders` in the order `l` -/
def verifyWith (env : Env) (rules : Rules) (b : Batch) (best : UInt32) (l : List (Nonce × List Their)) :
    Except Err Tallies :=
  if b.version != env.version then .error .version
  else if !heightOk best b.heightHint then .error .height
  else match verifyOrders env b [] l with
    | .error e => .error e
    | .ok st => verifyDiffs env rules b best st [] b.diffs

theorem verify_eq_verifyWith (env : Env) (rules : Rules) (b : Batch) (best : UInt32) :
    verify env rules b best = verifyWith env rules b best b.matched := rfl

/-- acceptance of `OrderMatchValidate` when both of its loops iterate in the orders `l`, `l2` -/
def acceptsWith (env : Env) (rules : Rules) (b : Batch) (best : UInt32) (l l2 : List (Nonce × List Their)) : Bool :=
  isOk (verifyWith env rules b best l) && isOk (nodeFilter env l2)

theorem nodeFilter_isOk_iff (env : Env) : ∀ l : List (Nonce × List Their),
    isOk (nodeFilter env l) = true ↔ ∀ nm ∈ l, ∃ o, findOrder nm.1 env.orders = some o ∧
      nm.2.all (fun t => isNodeIDAValidMatch t.nodeKey o.allowed o.notAllowed) = true := by
  intro l
  induction l with
  | nil => simp [nodeFilter, isOk]
  | cons x rest ih =>
    simp only [nodeFilter]
    cases ho : findOrder x.1 env.orders with
    | none =>
      simp only [isOk]
      constructor
      · intro h; cases h
      · intro h; obtain ⟨o, ho', _⟩ := h x List.mem_cons_self; rw [ho] at ho'; cases ho'
    | some o =>
      simp only
      by_cases hall : (x.2.all fun t => isNodeIDAValidMatch t.nodeKey o.allowed o.notAllowed) = true
      · rw [if_pos hall, ih]
        constructor
        · intro h nm hnm
          rcases List.mem_cons.mp hnm with rfl | hnm
          · exact ⟨o, ho, hall⟩
          · exact h nm hnm
        · intro h nm hnm; exact h nm (List.mem_cons_of_mem _ hnm)
      · rw [if_neg hall]
        simp only [isOk]
        constructor
        · intro h; cases h
        · intro h; obtain ⟨o', ho', ha⟩ := h x List.mem_cons_self
          rw [ho] at ho'; cases ho'; exact absurd ha hall

theorem verifyWith_perm (env : Env) (rules : Rules) (b : Batch) (best : UInt32)
    {l l2 : List (Nonce × List Their)} (hp : l.Perm l2) :
    isOk (verifyWith env rules b best l) = isOk (verifyWith env rules b best l2) := by
  unfold verifyWith
  split
  · rfl
  split
  · rfl
  cases h1 : verifyOrders env b [] l with
  | error e =>
    cases h2 : verifyOrders env b [] l2 with
    | error e2 => rfl
    | ok st2 =>
      -- l2 accepted entry by entry, hence so is l
      obtain ⟨ha, _, _⟩ := verifyOrders_ok _ _ _ (stOk_nil env) h2
      obtain ⟨st, hst⟩ := verifyOrders_of_accept (env := env) (b := b) l []
        (fun nm hnm => ha nm (hp.mem_iff.mp hnm))
      rw [h1] at hst; cases hst
  | ok st =>
    cases h2 : verifyOrders env b [] l2 with
    | error e2 =>
      obtain ⟨ha, _, _⟩ := verifyOrders_ok _ _ _ (stOk_nil env) h1
      obtain ⟨st2, hst⟩ := verifyOrders_of_accept (env := env) (b := b) l2 []
        (fun nm hnm => ha nm (hp.mem_iff.mpr hnm))
      rw [h2] at hst; cases hst
    | ok st2 =>
      simp only
      exact sameRes_isOk (verifyDiffs_respects env rules b best b.diffs st st2 []
        (tracks_eqSt hp (verifyOrders_tracks h1) (verifyOrders_tracks h2)))

end Pool.Batch
