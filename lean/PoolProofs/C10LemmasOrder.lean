import PoolProofs.C10LemmasAcct
import PoolModel.C10Order
set_option maxRecDepth 4000
/-! Order round trips: base encoding, TLV record lists (generic lemmas over the regenerated
`(type constant, variable)` lists), additional data, the four-key order bucket. -/
namespace Pool.C10
open Pool.Gen

theorem orderTypes_facts : typeAsk ≠ typeBid ∧ typeAsk < 256 ∧ typeBid < 256 := by decide

theorem order_base_rt (o : Order) (rest : Bytes) (h : o.kit.WF) :
    deserializeOrder o.kit.nonce (serializeOrder o ++ rest) = .ok o.baseProj rest := by
  obtain ⟨hn, hp, hver, hst, hfr, hamt, hu, huu, hkl, hfee, hak, hld, hmum, hct, _⟩ := h
  have e : elemList "SerializeOrder" 0 = ["kit.Preimage", "uint32(kit.Version)", "uint8(o.Type())",
    "uint8(kit.State)", "kit.FixedRate", "kit.Amt", "uint64(kit.Units)", "kit.MultiSigKeyLocator",
    "kit.MaxBatchFeeRate", "kit.AcctKey", "uint64(kit.UnitsUnfulfilled)", "kit.LeaseDuration"] := by rfl
  have d : elemList "DeserializeOrder" 0 = ["kit.Preimage", "kit.Version", "orderType", "kit.State",
    "kit.FixedRate", "kit.Amt", "kit.Units", "kit.MultiSigKeyLocator", "kit.MaxBatchFeeRate", "kit.AcctKey",
    "kit.UnitsUnfulfilled", "kit.LeaseDuration"] := by rfl
  obtain ⟨hab, ha, hb⟩ := orderTypes_facts
  have htyp : WFu8 o.typeNum := by unfold Order.typeNum WFu8; split <;> omega
  unfold deserializeOrder serializeOrder
  rw [e, d]
  simp only [encFields, decFields, kitTbl, List.append_assoc, List.append_nil, bind_apply, pure_apply,
    take_append _ _ 32 hp, readU32_enc _ _ hver, readU8_enc _ _ htyp, readU8_enc _ _ hst, readU32_enc _ _ hfr,
    readU64_enc _ _ hamt, readU64_enc _ _ hu, readKeyLoc_enc _ _ hkl, readU64_enc _ _ hfee,
    take_append _ _ 33 hak, readU64_enc _ _ huu, readU32_enc _ _ hld]
  cases o with
  | ask k a c =>
    simp [Order.typeNum, Order.isBid, Order.baseProj, Kit.baseProj, Kit.new, Order.kit]
  | bid k t s tk u z =>
    simp [Order.typeNum, Order.isBid, Order.baseProj, Kit.baseProj, Kit.new, Order.kit, hab.symm]

/-- `tlvRecsOf` over an explicit (type constant, variable) list -/
def recsOf (L : List (String × String)) (vars : String → Option (RecKind × TlvVal)) : List TlvRec :=
  L.filterMap fun (t, _) => (vars t).map fun (k, x) => ⟨tlvType t, k, x⟩

theorem tlvRecsOf_eq (fn : String) (vars) :
    tlvRecsOf fn vars = recsOf ((Store.tlvRecords.lookup fn).getD []) vars := rfl

theorem recsOf_cons_none (t v : String) (L) (vars) (h : vars t = none) :
    recsOf ((t, v) :: L) vars = recsOf L vars := by
  simp [recsOf, List.filterMap_cons, h]

theorem recsOf_cons_some (t v : String) (L) (vars) (k x) (h : vars t = some (k, x)) :
    recsOf ((t, v) :: L) vars = ⟨tlvType t, k, x⟩ :: recsOf L vars := by
  simp [recsOf, List.filterMap_cons, h]

theorem recsOf_typ_mem (L) (vars) (r : TlvRec) (h : r ∈ recsOf L vars) :
    ∃ p ∈ L, ∃ k x, vars p.1 = some (k, x) ∧ r = ⟨tlvType p.1, k, x⟩ := by
  simp only [recsOf, List.mem_filterMap, Option.map_eq_some_iff] at h
  obtain ⟨p, hp, ⟨k, x⟩, hv, hr⟩ := h
  exact ⟨p, hp, k, x, hv, hr.symm⟩

theorem incFrom_of_pairwise : ∀ (rs : List TlvRec) (min : Nat), (∀ r ∈ rs, min ≤ r.typ) →
    List.Pairwise (· < ·) (rs.map (·.typ)) → IncFrom min rs := by
  intro rs
  induction rs with
  | nil => intros; trivial
  | cons r rs ih =>
    intro min hmin hp
    simp only [List.map_cons, List.pairwise_cons] at hp
    refine ⟨hmin r (List.mem_cons_self), ih _ ?_ hp.2⟩
    intro r' hr'
    have := hp.1 r'.typ (List.mem_map_of_mem hr')
    omega

theorem recsOf_types_sublist (L) (vars) :
    List.Sublist ((recsOf L vars).map (·.typ)) (L.map fun p => tlvType p.1) := by
  induction L with
  | nil => simp [recsOf]
  | cons p L ih =>
    obtain ⟨t, v⟩ := p
    cases hv : vars t with
    | none => rw [recsOf_cons_none t v L vars hv]; exact List.Sublist.cons _ ih
    | some kx =>
      obtain ⟨k, x⟩ := kx
      rw [recsOf_cons_some t v L vars k x hv]
      exact List.Sublist.cons_cons _ ih

theorem recsOf_incFrom (L) (vars) (h : List.Pairwise (· < ·) (L.map fun p => tlvType p.1)) :
    IncFrom 0 (recsOf L vars) :=
  incFrom_of_pairwise _ 0 (fun _ _ => Nat.zero_le _) (h.sublist (recsOf_types_sublist L vars))

/-- the parsed-type map the decoder builds from the encoded records -/
def mapOf (rs : List TlvRec) : List (Nat × Option TlvVal) := rs.map fun r => (r.typ, some r.val)

theorem lookup_not_mem (L) (vars) (n : Nat) (h : ∀ p ∈ L, tlvType p.1 ≠ n) :
    (mapOf (recsOf L vars)).lookup n = none := by
  induction L with
  | nil => simp [recsOf, mapOf]
  | cons p L ih =>
    obtain ⟨t, v⟩ := p
    have ih' := ih (fun q hq => h q (List.mem_cons_of_mem _ hq))
    have hne : tlvType t ≠ n := h (t, v) (List.mem_cons_self)
    cases hv : vars t with
    | none => rw [recsOf_cons_none t v L vars hv]; exact ih'
    | some kx =>
      obtain ⟨k, x⟩ := kx
      rw [recsOf_cons_some t v L vars k x hv]
      simp only [mapOf, List.map_cons, List.lookup_cons]
      have : (n == tlvType t) = false := by simp; omega
      rw [this]; exact ih'

/-- looking a type constant up in the decoded map gives exactly what the serialiser's table says about it -/
theorem lookup_mapOf (L) (vars) (T : String)
    (hnd : List.Pairwise (· ≠ ·) (L.map fun p => tlvType p.1))
    (hmem : T ∈ L.map (·.1)) :
    (mapOf (recsOf L vars)).lookup (tlvType T) = (vars T).map fun kx => some kx.2 := by
  induction L with
  | nil => simp at hmem
  | cons p L ih =>
    obtain ⟨t, v⟩ := p
    simp only [List.map_cons, List.pairwise_cons] at hnd
    by_cases hT : T = t
    · subst hT
      have hnone := lookup_not_mem L vars (tlvType T) (fun q hq h' =>
        hnd.1 (tlvType q.1) (List.mem_map_of_mem (f := fun p => tlvType p.1) hq) h'.symm)
      cases hv : vars T with
      | none => rw [recsOf_cons_none T v L vars hv]; simpa using hnone
      | some kx =>
        obtain ⟨k, x⟩ := kx
        rw [recsOf_cons_some T v L vars k x hv]
        simp [mapOf, List.lookup_cons]
    · have hmem' : T ∈ L.map (·.1) := by
        simp only [List.map_cons, List.mem_cons] at hmem
        rcases hmem with h | h
        · exact absurd h hT
        · exact h
      have hne : (tlvType T == tlvType t) = false := by
        obtain ⟨q, hq, hq1⟩ := List.mem_map.mp hmem'
        have := hnd.1 (tlvType q.1) (List.mem_map_of_mem (f := fun p => tlvType p.1) hq)
        rw [hq1] at this
        simp; exact fun h => this h.symm
      cases hv : vars t with
      | none => rw [recsOf_cons_none t v L vars hv]; exact ih hnd.2 hmem'
      | some kx =>
        obtain ⟨k, x⟩ := kx
        rw [recsOf_cons_some t v L vars k x hv]
        simp only [mapOf, List.map_cons, List.lookup_cons, hne]
        exact ih hnd.2 hmem'



def Lser : List (String × String) := (Store.tlvRecords.lookup "serializeOrderTlvData").getD []
def Lde : List (String × String) := (Store.tlvRecords.lookup "deserializeOrderTlvData").getD []

/-- (R) over the regenerated record lists: the serialiser appends its records in strictly increasing type
order (so `tlv.NewStream` accepts them and the stream is canonical), the deserialiser registers exactly the
same type constants, also strictly increasing. -/
theorem order_tlv_facts :
    List.Pairwise (· < ·) (Lser.map fun p => tlvType p.1) ∧
    List.Pairwise (· < ·) (Lde.map fun p => tlvType p.1) ∧
    Lser.map (·.1) = Lde.map (·.1) ∧
    (∀ p ∈ Lser, (Store.tlvTypes.lookup p.1).isSome) := by decide

theorem Lser_ne : List.Pairwise (· ≠ ·) (Lser.map fun p => tlvType p.1) :=
  order_tlv_facts.1.imp (fun h => Nat.ne_of_lt h)

theorem parsedNum_mapOf (vars) (T : String) (hmem : T ∈ Lser.map (·.1)) :
    parsedNum (mapOf (recsOf Lser vars)) (tlvType T) =
      match vars T with
      | some (_, .num n) => some n
      | _ => none := by
  unfold parsedNum
  rw [lookup_mapOf Lser vars T Lser_ne hmem]
  cases vars T with
  | none => rfl
  | some kx => obtain ⟨k, x⟩ := kx; cases x <;> rfl

theorem parsedBytes_mapOf (vars) (T : String) (hmem : T ∈ Lser.map (·.1)) :
    parsedBytes (mapOf (recsOf Lser vars)) (tlvType T) =
      match vars T with
      | some (_, .bytes b) => some b
      | _ => none := by
  unfold parsedBytes
  rw [lookup_mapOf Lser vars T Lser_ne hmem]
  cases vars T with
  | none => rfl
  | some kx => obtain ⟨k, x⟩ := kx; cases x <;> rfl

theorem assembleKeysAux_flatten (ks : List Bytes) (h : ∀ k ∈ ks, k.length = 33) (rest : Bytes) :
    assembleKeysAux ks.length (ks.flatten ++ rest) = ks := by
  induction ks with
  | nil => rfl
  | cons k ks ih =>
    have hk := h k (List.mem_cons_self)
    simp only [List.length_cons, assembleKeysAux, List.flatten_cons, List.append_assoc,
      List.take_left' hk, List.drop_left' hk]
    rw [ih (fun x hx => h x (List.mem_cons_of_mem _ hx))]

theorem flatten_length (ks : List Bytes) (h : ∀ k ∈ ks, k.length = 33) : ks.flatten.length = 33 * ks.length := by
  induction ks with
  | nil => rfl
  | cons k ks ih =>
    simp only [List.flatten_cons, List.length_append, List.length_cons, h k (List.mem_cons_self),
      ih (fun x hx => h x (List.mem_cons_of_mem _ hx))]
    omega

theorem assembleKeys_flatten (ks : List Bytes) (h : ∀ k ∈ ks, k.length = 33) :
    assembleKeys (flattenKeys ks) = some ks := by
  unfold assembleKeys flattenKeys
  have hl := flatten_length ks h
  rw [if_neg (by omega), hl, Nat.mul_div_cancel_left _ (by decide : 0 < 33)]
  have := assembleKeysAux_flatten ks h []
  rw [List.append_nil] at this
  rw [this]


theorem tlvType_wf : ∀ n ∈ Lser.map (·.1), WFu64 (tlvType n) := by decide

def orderKnown : List (Nat × RecKind) := tlvKnownOf "deserializeOrderTlvData" orderTlvKinds

theorem b2n_lt (b : Bool) : WFu8 (b2n b) := by cases b <;> decide

theorem flattenKeys_lt (ks : List Bytes) (h : ∀ k ∈ ks, k.length = 33) (hl : ks.length * 33 < 2 ^ 48) :
    (flattenKeys ks).length < 2 ^ 48 := by
  unfold flattenKeys; rw [flatten_length ks h]; omega

theorem orderTlvVars_ok (o : Order) (h : o.WF) (t : String) (k : RecKind) (x : TlvVal)
    (hv : orderTlvVars o t = some (k, x)) :
    TlvRec.WF ⟨tlvType t, k, x⟩ ∧ orderKnown.lookup (tlvType t) = some k := by
  have hk : o.kit.WF := by cases o <;> exact h.1
  obtain ⟨_, _, _, _, _, _, _, _, _, _, _, _, _, hct, hal, hnal, hall, hnall, hat⟩ := hk
  unfold orderTlvVars at hv
  split at hv
  · cases o with
    | ask => simp at hv
    | bid k' t' s tk u z =>
      simp only at hv
      split at hv
      · injection hv with hv; injection hv with h1 h2; subst h1 h2
        exact ⟨⟨(by dsimp only; decide), h.2.2.1⟩, by decide⟩
      · simp at hv
  · cases o with
    | ask => simp at hv
    | bid k' t' s tk u z =>
      cases tk with
      | none => simp at hv
      | some b =>
        simp only at hv
        injection hv with hv; injection hv with h1 h2; subst h1 h2
        exact ⟨⟨(by dsimp only; decide), h.2.2.2.1⟩, by decide⟩
  · injection hv with hv; injection hv with h1 h2; subst h1 h2
    exact ⟨⟨(by dsimp only; decide), hct⟩, by decide⟩
  · split at hv
    · injection hv with hv; injection hv with h1 h2; subst h1 h2
      exact ⟨⟨(by dsimp only; decide), flattenKeys_lt _ hal hall⟩, by decide⟩
    · simp at hv
  · split at hv
    · injection hv with hv; injection hv with h1 h2; subst h1 h2
      exact ⟨⟨(by dsimp only; decide), flattenKeys_lt _ hnal hnall⟩, by decide⟩
    · simp at hv
  · cases o <;> simp only at hv <;> (injection hv with hv; injection hv with h1 h2; subst h1 h2)
    · exact ⟨⟨(by dsimp only; decide), by show WFu8 0; decide⟩, by decide⟩
    · exact ⟨⟨(by dsimp only; decide), b2n_lt _⟩, by decide⟩
  · cases o <;> simp only at hv <;> (injection hv with hv; injection hv with h1 h2; subst h1 h2)
    · exact ⟨⟨(by dsimp only; decide), h.2.1⟩, by decide⟩
    · exact ⟨⟨(by dsimp only; decide), by show WFu8 0; decide⟩, by decide⟩
  · cases o <;> simp only at hv <;> (injection hv with hv; injection hv with h1 h2; subst h1 h2)
    · exact ⟨⟨(by dsimp only; decide), by show WFu8 0; decide⟩, by decide⟩
    · exact ⟨⟨(by dsimp only; decide), b2n_lt _⟩, by decide⟩
  · cases o <;> simp only at hv <;> (injection hv with hv; injection hv with h1 h2; subst h1 h2)
    · exact ⟨⟨(by dsimp only; decide), h.2.2⟩, by decide⟩
    · exact ⟨⟨(by dsimp only; decide), by show WFu8 0; decide⟩, by decide⟩
  · injection hv with hv; injection hv with h1 h2; subst h1 h2
    refine ⟨⟨(by dsimp only; decide), ?_⟩, by decide⟩
    show WFu8 (_ % 256); unfold WFu8; omega
  · split at hv
    · injection hv with hv; injection hv with h1 h2; subst h1 h2
      exact ⟨⟨(by dsimp only; decide), by show WFu8 1; decide⟩, by decide⟩
    · simp at hv
  · simp at hv


/-- what base encoding + additional data restore: everything except the two values kept under their own keys -/
def Order.tlvProj : Order → Order
  | .ask k a c => .ask { k with minUnitsMatch := 0 } a c
  | .bid k _ s tk u z => .bid { k with minUnitsMatch := 0 } 0 s tk u z

theorem serializeOrderTlvData_eq (o : Order) :
    serializeOrderTlvData o = encStream (recsOf Lser (orderTlvVars o)) := rfl

theorem order_tlv_decode (o : Order) (h : o.WF) :
    decodeStream orderKnown (serializeOrderTlvData o) = .ok (mapOf (recsOf Lser (orderTlvVars o))) [] := by
  rw [serializeOrderTlvData_eq]
  apply decodeStream_enc
  · exact recsOf_incFrom Lser _ order_tlv_facts.1
  · intro r hr
    obtain ⟨p, _, k, x, hv, rfl⟩ := recsOf_typ_mem _ _ _ hr
    exact (orderTlvVars_ok o h p.1 k x hv).1
  · intro r hr
    obtain ⟨p, _, k, x, hv, rfl⟩ := recsOf_typ_mem _ _ _ hr
    exact (orderTlvVars_ok o h p.1 k x hv).2

theorem b2n_eq_one (b : Bool) : (b2n b = 1) = (b = true) := by cases b <;> simp [b2n]

theorem keys_nil_of_len (ks : List Bytes) (h : ¬ ks.length > 0) : ks = [] := by
  cases ks with
  | nil => rfl
  | cons a b => simp at h

theorem vars_ct (o : Order) : orderTlvVars o "orderChannelType" = some (.u8, .num o.kit.channelType) := rfl
theorem vars_al (o : Order) : orderTlvVars o "allowedNodeIDsType" =
    if o.kit.allowedNodeIDs.length > 0 then some (.bytes, .bytes (flattenKeys o.kit.allowedNodeIDs)) else none := rfl
theorem vars_nal (o : Order) : orderTlvVars o "notAllowedNodeIDsType" =
    if o.kit.notAllowedNodeIDs.length > 0 then some (.bytes, .bytes (flattenKeys o.kit.notAllowedNodeIDs)) else none := rfl
theorem vars_at (o : Order) : orderTlvVars o "orderAuctionType" = some (.u8, .num (o.kit.auctionType % 256)) := rfl
theorem vars_pub (o : Order) : orderTlvVars o "orderIsPublicType" = if o.kit.isPublic then some (.u8, .num 1) else none := rfl
theorem vars_ann_ask (k a c) : orderTlvVars (.ask k a c) "askChannelAnnouncementConstraintsType" = some (.u8, .num a) := rfl
theorem vars_conf_ask (k a c) : orderTlvVars (.ask k a c) "askChannelConfirmationConstraintsType" = some (.u8, .num c) := rfl
theorem vars_scb_bid (k t s tk u z) : orderTlvVars (.bid k t s tk u z) "bidSelfChanBalanceType" =
    if s ≠ 0 then some (.u64, .num s) else none := rfl
theorem vars_tk_bid_some (k t s b u z) : orderTlvVars (.bid k t s (some b) u z) "bidSidecarTicketType" =
    some (.bytes, .bytes b) := rfl
theorem vars_tk_bid_none (k t s u z) : orderTlvVars (.bid k t s none u z) "bidSidecarTicketType" = none := rfl
theorem vars_un_bid (k t s tk u z) : orderTlvVars (.bid k t s tk u z) "bidUnannouncedChannelType" =
    some (.u8, .num (b2n u)) := rfl
theorem vars_zc_bid (k t s tk u z) : orderTlvVars (.bid k t s tk u z) "bidZeroConfType" =
    some (.u8, .num (b2n z)) := rfl

theorem applyKitTlv_rt (o : Order) (h : o.WF) (k0 : Kit) :
    applyKitTlv (mapOf (recsOf Lser (orderTlvVars o))) k0 =
      some { k0 with channelType := o.kit.channelType,
                     allowedNodeIDs := if o.kit.allowedNodeIDs.length > 0 then o.kit.allowedNodeIDs else k0.allowedNodeIDs,
                     notAllowedNodeIDs := if o.kit.notAllowedNodeIDs.length > 0 then o.kit.notAllowedNodeIDs
                       else k0.notAllowedNodeIDs,
                     auctionType := o.kit.auctionType,
                     isPublic := if o.kit.isPublic then true else k0.isPublic } := by
  have hk : o.kit.WF := by cases o <;> exact h.1
  obtain ⟨_, _, _, _, _, _, _, _, _, _, _, _, _, hct, hal, hnal, hall, hnall, hat⟩ := hk
  have hat' : o.kit.auctionType % 256 = o.kit.auctionType := Nat.mod_eq_of_lt hat
  have m1 : "orderChannelType" ∈ Lser.map (·.1) := by decide
  have m2 : "allowedNodeIDsType" ∈ Lser.map (·.1) := by decide
  have m3 : "notAllowedNodeIDsType" ∈ Lser.map (·.1) := by decide
  have m4 : "orderAuctionType" ∈ Lser.map (·.1) := by decide
  have m5 : "orderIsPublicType" ∈ Lser.map (·.1) := by decide
  unfold applyKitTlv
  rw [parsedNum_mapOf _ _ m1, parsedBytes_mapOf _ _ m2, parsedBytes_mapOf _ _ m3, parsedNum_mapOf _ _ m4,
    parsedNum_mapOf _ _ m5]
  rw [vars_ct, vars_al, vars_nal, vars_at, vars_pub, hat']
  by_cases ha : o.kit.allowedNodeIDs.length > 0 <;> by_cases hn : o.kit.notAllowedNodeIDs.length > 0 <;>
    cases hp : o.kit.isPublic <;>
    simp [ha, hn, hp, assembleKeys_flatten _ hal, assembleKeys_flatten _ hnal]

theorem readTicket_canonical (b : Bytes) (h : ticketCanonical b = true) : readTicket b = .ok b [] := by
  unfold ticketCanonical at h
  exact eq_of_beq h

theorem applyTypeTlv_rt' (o : Order) (h : o.WF) (k0 : Kit) :
    applyTypeTlv (mapOf (recsOf Lser (orderTlvVars o))) (o.baseProj.setKit k0) =
      .ok (match o with
        | .ask _ a c => .ask k0 a c
        | .bid _ _ s tk u z => .bid k0 0 s tk u z) [] := by
  have m6 : "askChannelAnnouncementConstraintsType" ∈ Lser.map (·.1) := by decide
  have m7 : "askChannelConfirmationConstraintsType" ∈ Lser.map (·.1) := by decide
  have m8 : "bidSelfChanBalanceType" ∈ Lser.map (·.1) := by decide
  have m9 : "bidSidecarTicketType" ∈ Lser.map (·.1) := by decide
  have m10 : "bidUnannouncedChannelType" ∈ Lser.map (·.1) := by decide
  have m11 : "bidZeroConfType" ∈ Lser.map (·.1) := by decide
  cases o with
  | ask k a c =>
    simp only [Order.baseProj, Order.setKit, applyTypeTlv]
    rw [parsedNum_mapOf _ _ m6, parsedNum_mapOf _ _ m7, vars_ann_ask, vars_conf_ask]
    simp
  | bid k t s tk u z =>
    simp only [Order.baseProj, Order.setKit, applyTypeTlv]
    rw [parsedNum_mapOf _ _ m8, parsedBytes_mapOf _ _ m9, parsedNum_mapOf _ _ m10, parsedNum_mapOf _ _ m11]
    rw [vars_scb_bid, vars_un_bid, vars_zc_bid]
    cases tk with
    | none => rw [vars_tk_bid_none]; by_cases hs : s = 0 <;> cases u <;> cases z <;> simp [hs, b2n]
    | some b =>
      have hc : readTicket b = .ok b [] := readTicket_canonical b h.2.2.2.2
      rw [vars_tk_bid_some]
      by_cases hs : s = 0 <;> cases u <;> cases z <;> simp [hs, b2n, hc]

theorem baseProj_setKit (o : Order) : o.baseProj.setKit o.kit.baseProj = o.baseProj := by
  cases o <;> rfl

theorem applyTypeTlv_rt (o : Order) (h : o.WF) :
    applyTypeTlv (mapOf (recsOf Lser (orderTlvVars o))) o.baseProj =
      .ok (match o with
        | .ask k a c => .ask k.baseProj a c
        | .bid k _ s tk u z => .bid k.baseProj 0 s tk u z) [] := by
  have := applyTypeTlv_rt' o h o.kit.baseProj
  rw [baseProj_setKit] at this
  rw [this]
  cases o <;> rfl

theorem order_tlv_rt (o : Order) (h : o.WF) :
    deserializeOrderTlvData (serializeOrderTlvData o) o.baseProj = .ok o.tlvProj [] := by
  unfold deserializeOrderTlvData
  have hd := order_tlv_decode o h
  unfold orderKnown at hd
  rw [hd]
  simp only []
  rw [applyTypeTlv_rt o h]
  simp only []
  rw [applyKitTlv_rt o h]
  cases o with
  | ask k a c =>
    cases k with
    | mk nonce pre ver st fr amt u uu kl fee ak ld mum ct al nal pub at' =>
    simp only [Order.kit, Kit.baseProj, Order.setKit, Order.tlvProj]
    by_cases ha : al.length > 0 <;> by_cases hn : nal.length > 0 <;>
      cases pub <;> simp [ha, hn, keys_nil_of_len]
  | bid k t s tk u z =>
    cases k with
    | mk nonce pre ver st fr amt u' uu kl fee ak ld mum ct al nal pub at' =>
    simp only [Order.kit, Kit.baseProj, Order.setKit, Order.tlvProj]
    by_cases ha : al.length > 0 <;> by_cases hn : nal.length > 0 <;>
      cases pub <;> simp [ha, hn, keys_nil_of_len]


/-- **order bucket round trip**: what `SubmitOrder` stores under the four keys of an order bucket is read
back by `GetOrder` as exactly the order that was written. -/
theorem order_bucket_rt (o : Order) (h : o.WF) : loadOrder o.kit.nonce (storeOrder o) = .ok o [] := by
  have hk : o.kit.WF := by cases o <;> exact h.1
  have hmum : WFu64 o.kit.minUnitsMatch := hk.2.2.2.2.2.2.2.2.2.2.2.2.1
  have hb := order_base_rt o [] hk
  rw [List.append_nil] at hb
  have hm := readU64_enc o.kit.minUnitsMatch [] hmum
  rw [List.append_nil] at hm
  unfold loadOrder storeOrder
  simp only [hm, hb, Option.getD_some, order_tlv_rt o h]
  cases o with
  | ask k a c =>
    cases k
    simp [Order.tlvProj, Order.setKit, Order.kit]
  | bid k t s tk u z =>
    have ht := readU32_enc t [] h.2.1
    rw [List.append_nil] at ht
    cases k
    simp [Order.tlvProj, Order.setKit, Order.kit, ht]

end Pool.C10
