import PoolModel.Dec.Ticket
/-! Helper lemma for C15: `DecodeString` with its slice expressions resolved. -/
namespace Pool.Dec
open Pool.Gen.C15

theorem prefix_len : prefixBytes.length = 7 := by decide
theorem encVersion_len : encVersion.length = 1 := by decide

theorem slice_ok {α : Type} (b : List α) (lo hi : Nat) (h : lo ≤ hi ∧ hi ≤ b.length) :
    slice b lo hi = .ok ((b.take hi).drop lo) := by
  unfold slice; rw [if_pos h]

/-- `DecodeString` with the slice expressions resolved (none of them can panic). -/
theorem decodeString_eq (H : Bytes → Bytes) (hH : ∀ x, 4 ≤ (H x).length) (cfg : Cfg) (s : Bytes) :
    decodeString H cfg s =
      if s.length < 7 then .err .pfx else
      match b58Decode cfg.maxAlloc (s.drop 7) with
      | .err e => .err e
      | .panic => .panic
      | .ok raw =>
        if raw.length < 5 then .err .length else
        if s.take 7 ≠ prefixBytes then .err .pfx else
        if raw.drop (raw.length - 4) ≠ (H (checksumInput ((raw.take (raw.length - 4)).drop 1))).take 4
        then .err .checksum
        else deserializeTicket cfg ((raw.take (raw.length - 4)).drop 1) := by
  unfold decodeString
  simp only [prefix_len, encVersion_len, checksumLen]
  split
  · rfl
  · rename_i hl
    rw [slice_ok s 7 s.length (by omega)]
    simp only [List.take_length]
    cases hb : b58Decode cfg.maxAlloc (List.drop 7 s) with
    | err e => rfl
    | panic => rfl
    | ok raw =>
      simp only
      split
      · rfl
      · rename_i hr
        rw [slice_ok s 0 7 (by omega)]
        simp only [List.drop_zero]
        split
        · rfl
        · rw [slice_ok raw 1 (1 + (raw.length - 4 - 1)) (by omega)]
          rw [slice_ok raw (raw.length - 4) raw.length (by omega)]
          simp only
          rw [slice_ok _ 0 4 ⟨by omega, hH _⟩]
          have e1 : 1 + (raw.length - 4 - 1) = raw.length - 4 := by omega
          simp only [e1, List.take_length, List.drop_zero]
end Pool.Dec
