import PoolProofs.C14Lemmas

/-!
# C14 — sidecar ticket signatures bind the negotiated terms

Headline theorems only.  Conventions:

* SHA-256 is an arbitrary function `H`.  "Changing a term makes verification fail" is proved as: two tickets
  that verify under the same signature have equal covered terms **or** exhibit an `H`-collision
  (`Collision H p p'` on the two hashed preimages).  Under collision resistance of SHA-256 this is the
  English claim.
* Signatures are ideal: `verify pk m σ ⇔ σ = ⟨pk, m⟩` (`verify_iff`).  Unforgeability of ECDSA is lnd/btcd's.
* The hashed preimages are built from the argument lists REGENERATED from `sidecar/interfaces.go`
  (`Gen.C14.ticketOfferDigest`, `Gen.C14.ticketOrderDigest`); the `decide` obligations over those tables
  (`C14_offer_terms_bound`, `C14_order_terms_bound`, `C14_digest_functions_as_modelled`, and the lemmas
  `offerTable_eq` / `orderTable_eq` every semantic theorem below rests on) are re-checked against the
  current source on every run.
* `WF t` = what the Go field types guarantee (`[8]byte` id, `uint8` version, `int64` amounts, `[32]byte`
  nonce).
-/
set_option linter.unusedSimpArgs false
namespace Pool.C14
open Pool.Digest

/-- `p ≠ p'` hash to the same value -/
def Collision (H : Bytes → Bytes) (p p' : Bytes) : Prop := p ≠ p' ∧ H p = H p'

/-! ## (R) the regenerated argument lists contain the terms the property names -/

def flagExprs : List String := ["t.Offer.UnannouncedChannel", "t.Offer.ZeroConfChannel"]

/-- expressions an offer digest of a `case` with these version values has to hash -/
def offerRequired (versions : List Nat) : List String :=
  ["t.ID[:]", "uint8(t.Version)", "t.Offer.Capacity", "t.Offer.PushAmt", "t.Offer.Auto"] ++
    (if versions.all (· ≥ 1) then flagExprs else [])

/-- expressions an order digest of a `case` with these version values has to hash -/
def orderRequired (versions : List Nat) : List String :=
  ["t.ID[:]", "uint8(t.Version)", "t.Offer.Capacity", "t.Offer.PushAmt", "t.Order.BidNonce[:]"] ++
    (if versions.all (· ≥ 1) then flagExprs else [])

def boundBy (required : List Nat → List String) (f : Gen.DigestFn) : Prop :=
  (∀ c ∈ f.cases, required c.versions ⊆ c.args.map (·.expr)) ∧
  [Gen.C14.sidecarVersionDefault, Gen.C14.sidecarVersionUnannouncedZeroConf] ⊆ f.cases.flatMap (·.versions)

instance (required : List Nat → List String) (f : Gen.DigestFn) : Decidable (boundBy required f) := by
  unfold boundBy; exact inferInstance

/-- Every version case of `Ticket.OfferDigest` hashes ID, version, capacity, push amount and the automation
flag, and from version 1 on the unannounced and zero-conf flags; both known versions have a case. -/
theorem C14_offer_terms_bound : boundBy offerRequired Gen.C14.ticketOfferDigest := by decide

/-- Every version case of `Ticket.OrderDigest` hashes ID, version, capacity, push amount and the BID NONCE,
and from version 1 on the two flags.  (Fails to build against the unrepaired source, whose v1 case hashes
`t.Offer.Auto` instead of the nonce.) -/
theorem C14_order_terms_bound : boundBy orderRequired Gen.C14.ticketOrderDigest := by decide

/-- the v1 argument list of `OrderDigest` in the pinned (unrepaired) source -/
def unrepairedV1OrderArgs : List String :=
  ["t.ID[:]", "uint8(t.Version)", "t.Offer.Capacity", "t.Offer.PushAmt", "t.Offer.Auto",
   "t.Offer.UnannouncedChannel", "t.Offer.ZeroConfChannel"]

def unrepairedOrderTable : Table :=
  [([0], [.id, .version, .capacity, .pushAmt, .bidNonce]),
   ([1], [.id, .version, .capacity, .pushAmt, .auto, .unannounced, .zeroConf])]

def witnessTicket (nonceByte : UInt8) : Ticket :=
  { id := [1, 2, 3, 4, 5, 6, 7, 8], version := 1, state := 3, capacity := 500000, pushAmt := 1000,
    leaseDuration := 2016, signPubKey := some 1, sigOffer := none, auto := true, unannounced := true,
    zeroConf := false, recipient := none,
    order := some { bidNonce := List.replicate 31 0 ++ [nonceByte], sig := none } }

/-- **The unrepaired v1 order list violates the property**: it does not contain the bid nonce, two tickets
that differ only in the bid nonce get the same order preimage, and that preimage is the OFFER preimage of
the same ticket (so the offer signature verifies as an order signature).  The witness is replayed on the
Go code by `corpus/C14/defect-v1-order-digest.json`. -/
theorem C14_unrepaired_v1_order_list_violates :
    ¬ orderRequired [1] ⊆ unrepairedV1OrderArgs ∧
    unrepairedV1OrderArgs.mapM parseExpr = (lookupCase unrepairedOrderTable 1) ∧
    orderTerms (witnessTicket 1) ≠ orderTerms (witnessTicket 2) ∧
    (preimageOf (some unrepairedOrderTable) (witnessTicket 1)).toOption =
      (preimageOf (some unrepairedOrderTable) (witnessTicket 2)).toOption ∧
    (preimageOf (some unrepairedOrderTable) (witnessTicket 1)).toOption =
      (offerPreimage (witnessTicket 1)).toOption ∧
    (offerPreimage (witnessTicket 1)).toOption.isSome := by decide

/-! ## (R) the rest of the digest functions is as modelled -/

def dummyTicket : Ticket :=
  { id := [], version := 0, state := 0, capacity := 0, pushAmt := 0, leaseDuration := 0, signPubKey := none,
    sigOffer := none, auto := false, unannounced := false, zeroConf := false, recipient := none,
    order := some { bidNonce := [], sig := none } }

/-- the model's encoder of an argument has the width of the `codec.WriteElement` case selected by the
argument's static Go type; byte-slice arguments are full slices of arrays of the length `WF` assumes -/
def argOK (a : Gen.DigestArg) : Bool :=
  match parseExpr a.expr with
  | none => false
  | some tm =>
    (encTerm dummyTicket tm).map FV.widthClass == writerWidth Gen.Codec.codecCases a.goType &&
    (tm != .id || a.goType == "[8]byte[:]") && (tm != .bidNonce || a.goType == "[32]byte[:]")

def fnOK (f : Gen.DigestFn) (guards : List String) : Bool :=
  f.head == guards && f.tag == "t.Version" &&
  f.cases.all (fun c => c.pre == [] && c.args.all argOK) &&
  f.dflt == ["error"] && f.tail == ["sha256"]

/-- Semantic shape of `OfferDigest`/`OrderDigest` in the current source (facts from the symbolic evaluation
of the functions, independent of how the element lists are assembled) = what `offerPreimage` /
`orderPreimage` model: the only guard before anything is written is (for the order digest)
`t.State < StateOrdered || t.Order == nil`; the element list is selected by `t.Version`; no other statement
influences a case; every element has the width the model uses (static Go type → case of the regenerated
`codec.WriteElement` switch); an unknown version is an error; the result is SHA-256 of the written buffer. -/
theorem C14_digest_functions_as_modelled :
    fnOK Gen.C14.ticketOfferDigest [] = true ∧
    fnOK Gen.C14.ticketOrderDigest ["t.State < StateOrdered || t.Order == nil"] = true := by
  decide

/-! ## preimage injectivity: the digest input determines every covered term -/

/-- Offer digests are computed from equal bytes only if ID, version, capacity, push amount, automation flag
(and, from version 1 on, the unannounced and zero-conf flags) are equal. -/
theorem C14_offer_preimage_injective (t t' : Ticket) (h : WF t) (h' : WF t') (p : Bytes)
    (hp : offerPreimage t = .ok p) (hp' : offerPreimage t' = .ok p) : offerTerms t = offerTerms t' :=
  offerPreimage_inj h h' hp hp'

/-- Order digests are computed from equal bytes only if ID, version, capacity, push amount, bid nonce
(and, from version 1 on, the two flags) are equal. -/
theorem C14_order_preimage_injective (t t' : Ticket) (h : WF t) (h' : WF t') (p : Bytes)
    (hp : orderPreimage t = .ok p) (hp' : orderPreimage t' = .ok p) : orderTerms t = orderTerms t' :=
  orderPreimage_inj h h' hp hp'

/-! ## signatures bind the terms and the key -/

/-- If an offer signature verifies for `t` and the same signature verifies for `t'`, then the signing key
named in the ticket is the same and the covered offer terms are the same — or SHA-256 collides on the two
preimages. -/
theorem C14_offer_signature_binds (H : Bytes → Bytes) (t t' : Ticket) (h : WF t) (h' : WF t')
    (hv : verifyOffer H (some t) = .ok ()) (hv' : verifyOffer H (some t') = .ok ())
    (hs : t'.sigOffer = t.sigOffer) :
    t'.signPubKey = t.signPubKey ∧
    (offerTerms t' = offerTerms t ∨
      ∃ p p', offerPreimage t = .ok p ∧ offerPreimage t' = .ok p' ∧ Collision H p p') := by
  obtain ⟨_, pk, p, hk, hp, hg⟩ := (verifyOffer_ok_iff H t).1 hv
  obtain ⟨_, pk', p', hk', hp', hg'⟩ := (verifyOffer_ok_iff H t').1 hv'
  rw [hs, hg] at hg'
  injection hg' with hg'; injection hg' with e1 e2
  subst e1
  refine ⟨by rw [hk, hk'], ?_⟩
  by_cases hpp : p = p'
  · subst hpp; exact Or.inl (offerPreimage_inj h' h hp' hp)
  · exact Or.inr ⟨p, p', hp, hp', hpp, e2⟩

/-- "Changing any of these in a signed ticket, or presenting another signing key, makes verification
fail" (offer part), under collision resistance. -/
theorem C14_offer_change_fails (H : Bytes → Bytes) (t t' : Ticket) (h : WF t) (h' : WF t')
    (hv : verifyOffer H (some t) = .ok ()) (hs : t'.sigOffer = t.sigOffer)
    (hch : offerTerms t' ≠ offerTerms t ∨ t'.signPubKey ≠ t.signPubKey)
    (hnc : ∀ p p', offerPreimage t = .ok p → offerPreimage t' = .ok p' → ¬ Collision H p p') :
    verifyOffer H (some t') ≠ .ok () := by
  intro hv'
  obtain ⟨hk, hor⟩ := C14_offer_signature_binds H t t' h h' hv hv' hs
  rcases hch with hch | hch
  · rcases hor with e | ⟨p, p', hp, hp', hc⟩
    · exact hch e
    · exact hnc p p' hp hp' hc
  · exact hch hk

/-- Same for the order signature: key, ID, version, capacity, push amount, bid nonce (+ flags from v1). -/
theorem C14_order_signature_binds (H : Bytes → Bytes) (t t' : Ticket) (h : WF t) (h' : WF t')
    (hv : verifyOrder H (some t) = .ok ()) (hv' : verifyOrder H (some t') = .ok ())
    (hs : t'.order.bind (·.sig) = t.order.bind (·.sig)) :
    t'.signPubKey = t.signPubKey ∧
    (orderTerms t' = orderTerms t ∨
      ∃ p p', orderPreimage t = .ok p ∧ orderPreimage t' = .ok p' ∧ Collision H p p') := by
  obtain ⟨_, _, pk, o, p, hk, ho, _, hp, hg⟩ := (verifyOrder_ok_iff H t).1 hv
  obtain ⟨_, _, pk', o', p', hk', ho', _, hp', hg'⟩ := (verifyOrder_ok_iff H t').1 hv'
  simp only [ho, ho', Option.bind_some, hg, hg'] at hs
  injection hs with hs; injection hs with e1 e2
  subst e1
  refine ⟨by rw [hk, hk'], ?_⟩
  by_cases hpp : p = p'
  · subst hpp; exact Or.inl (orderPreimage_inj h' h hp' hp)
  · exact Or.inr ⟨p, p', hp, hp', hpp, e2.symm⟩

theorem C14_order_change_fails (H : Bytes → Bytes) (t t' : Ticket) (h : WF t) (h' : WF t')
    (hv : verifyOrder H (some t) = .ok ()) (hs : t'.order.bind (·.sig) = t.order.bind (·.sig))
    (hch : orderTerms t' ≠ orderTerms t ∨ t'.signPubKey ≠ t.signPubKey)
    (hnc : ∀ p p', orderPreimage t = .ok p → orderPreimage t' = .ok p' → ¬ Collision H p p') :
    verifyOrder H (some t') ≠ .ok () := by
  intro hv'
  obtain ⟨hk, hor⟩ := C14_order_signature_binds H t t' h h' hv hv' hs
  rcases hch with hch | hch
  · rcases hor with e | ⟨p, p', hp, hp', hc⟩
    · exact hch e
    · exact hnc p p' hp hp' hc
  · exact hch hk

/-- An offer signature is never accepted as an order signature (of the same or any other ticket) except
through a SHA-256 collision: offer and order preimages have different lengths in every version. -/
theorem C14_offer_sig_is_no_order_sig (H : Bytes → Bytes) (t t' : Ticket) (h : WF t) (h' : WF t')
    (hv : verifyOffer H (some t) = .ok ()) (hv' : verifyOrder H (some t') = .ok ())
    (hs : t'.order.bind (·.sig) = t.sigOffer) :
    ∃ p p', offerPreimage t = .ok p ∧ orderPreimage t' = .ok p' ∧ Collision H p p' := by
  obtain ⟨_, pk, p, hk, hp, hg⟩ := (verifyOffer_ok_iff H t).1 hv
  obtain ⟨_, _, pk', o', p', hk', ho', _, hp', hg'⟩ := (verifyOrder_ok_iff H t').1 hv'
  simp only [ho', Option.bind_some, hg, hg'] at hs
  injection hs with hs; injection hs with e1 e2
  exact ⟨p, p', hp, hp', offer_ne_order_preimage h h' hp hp', e2.symm⟩

/-- What the signatures do NOT bind (also not claimed by the property): the offered lease duration, the ticket
state, the recipient and the signatures themselves are not part of either hashed preimage. -/
theorem C14_fields_not_signed (t : Ticket) (lease state : Nat) (r : Option Recipient) (σ : Option Sig) :
    offerPreimage { t with leaseDuration := lease, state := state, recipient := r, sigOffer := σ } =
      offerPreimage t ∧
    (¬ state < stateOrdered → ¬ t.state < stateOrdered →
      orderPreimage { t with leaseDuration := lease, state := state, recipient := r, sigOffer := σ } =
        orderPreimage t) := by
  constructor
  · rw [offerPreimage_eq, offerPreimage_eq]; rfl
  · intro h1 h2
    rw [orderPreimage_eq, orderPreimage_eq]
    cases ho : t.order with
    | none => simp [ho]
    | some o => simp [ho, h1, h2, orderFVs0, orderFVs1]

/-! ## honest tickets verify -/

/-- A ticket whose offer was signed (real `SignOffer` control flow) by the key named in the offer verifies. -/
theorem C14_honest_offer_verifies (H : Bytes → Bytes) (t t' : Ticket) (k : Key)
    (hs : signOffer H (some t) k = .ok t') (hk : t.signPubKey = some k) :
    verifyOffer H (some t') = .ok () := by
  obtain ⟨h1, _, _, p, hp, rfl⟩ := signOffer_ok hs
  refine (verifyOffer_ok_iff H _).2 ⟨h1, k, p, hk, ?_, rfl⟩
  rw [offerPreimage_eq] at hp ⊢
  exact hp

/-- A ticket whose order part was signed (real `SignOrder` control flow) with a non-zero bid nonce by the
key named in the offer verifies. -/
theorem C14_honest_order_verifies (H : Bytes → Bytes) (t t' : Ticket) (nonce : Bytes) (k : Key)
    (hs : signOrder H (some t) nonce k = (some t', none)) (hk : t.signPubKey = some k)
    (hn : nonce ≠ zeroNonce) : verifyOrder H (some t') = .ok () := by
  obtain ⟨_, _, hg, p, hp, rfl⟩ := signOrder_ok hs
  refine (verifyOrder_ok_iff H _).2 ⟨by simp [stateOrdered], hg, k, _, p, hk, rfl,
    by simp [withNonce_nonce, hn], ?_, rfl⟩
  rw [orderPreimage_eq] at hp ⊢
  simpa [orderFVs0, orderFVs1] using hp

/-! ## the provider signs an order into a ticket only if … -/

/-- `validateAndSignTicketForOrder` returns nil only if: the ticket is in the registered state with a
recipient carrying node and funding (multisig) keys; the offer signature verifies and was made under the
provider's own account key; the market is inbound; the offered capacity is a positive multiple of the base
unit, covers the push amount, equals the bid amount and equals (int64 arithmetic) min-units × base unit;
and the result is exactly `SignOrder` applied to the ticket with the bid's nonce. -/
theorem C14_provider_signs_only_if (H : Bytes → Bytes) (t t' : Ticket) (bid : BidTerms) (acctKey k : Key)
    (hok : validateAndSign H t bid acctKey k = (t', none)) :
    t.state = stateRegistered ∧
    (∃ r nk mk, t.recipient = some r ∧ r.nodeKey = some nk ∧ r.multiSigKey = some mk) ∧
    verifyOffer H (some t) = .ok () ∧ t.signPubKey = some acctKey ∧
    bid.auctionType = inbound ∧
    t.capacity ≠ 0 ∧ t.capacity % baseUnit = 0 ∧ t.pushAmt ≤ t.capacity ∧
    t.capacity = bid.amt ∧ t.capacity = wrapI64 ((bid.minUnitsMatch : Int) * baseUnit) ∧
    signOrder H (some t) bid.nonce k = (some t', none) ∧
    checkOfferMatchesBid t bid = none := by
  unfold validateAndSign at hok
  by_cases h1 : t.state = stateRegistered
  · simp only [h1, bne_self_eq_false, Bool.false_eq_true, if_false] at hok
    cases hr : t.recipient with
    | none => simp [hr] at hok
    | some r =>
      simp only [hr] at hok
      cases hnk : r.nodeKey with
      | none => simp [hnk] at hok
      | some nk =>
        cases hmk : r.multiSigKey with
        | none => simp [hnk, hmk] at hok
        | some mk =>
          simp only [hnk, hmk, Option.isNone_some, Bool.or_self, Bool.false_eq_true, if_false] at hok
          cases hv : verifyOffer H (some t) with
          | error e => simp [hv] at hok
          | ok u =>
            simp only [hv] at hok
            by_cases hk : t.signPubKey = some acctKey
            · simp only [hk, bne_self_eq_false, Bool.false_eq_true, if_false] at hok
              cases hc : checkOfferParamsForOrder bid.auctionType t bid.amt bid.minUnitsMatch with
              | some e => simp [hc] at hok
              | none =>
                simp only [hc] at hok
                cases hmb : checkOfferMatchesBid t bid with
                | some e => simp [hmb] at hok
                | none =>
                simp only [hmb] at hok
                -- unpack the parameter check
                unfold checkOfferParamsForOrder at hc
                by_cases ha : bid.auctionType = inbound
                · simp only [ha, bne_self_eq_false, Bool.false_eq_true, if_false] at hc
                  cases hcp : checkOfferParams inbound t.capacity t.pushAmt baseUnit with
                  | some e => simp [hcp] at hc
                  | none =>
                    simp only [hcp] at hc
                    unfold checkOfferParams at hcp
                    by_cases hc0 : t.capacity = 0
                    · simp [hc0] at hcp
                    · by_cases hcm : t.capacity % baseUnit = 0
                      · by_cases hpu : t.pushAmt ≤ t.capacity
                        · by_cases hba : t.capacity = bid.amt
                          · by_cases hmu : t.capacity = wrapI64 ((bid.minUnitsMatch : Int) * baseUnit)
                            · refine ⟨h1, ⟨r, nk, mk, rfl, hnk, hmk⟩, by cases u; rfl, hk, ha, hc0, hcm, hpu, hba, hmu, ?_, rfl⟩
                              cases hso : signOrder H (some t) bid.nonce k with
                              | mk a b =>
                                cases a with
                                | none =>
                                  exfalso
                                  unfold signOrder at hso
                                  simp only at hso
                                  split at hso
                                  · simp at hso
                                  · split at hso
                                    · simp at hso
                                    · split at hso <;> simp at hso
                                | some t2 =>
                                  simp only [hso] at hok
                                  injection hok with e1 e2
                                  rw [e1, e2]
                            · simp [hba, hmu] at hc
                              exact absurd (hba.trans hc) hmu
                          · simp [hba] at hc
                        · exfalso
                          have : t.pushAmt > t.capacity := by omega
                          simp [hc0, hcm, this, inbound, outbound, Gen.C14.orderBTCInboundLiquidity,
                            Gen.C14.orderBTCOutboundLiquidity] at hcp
                      · simp [hc0, hcm] at hcp
                · simp [ha] at hc
            · simp [hk] at hok
  · simp [h1] at hok

/-- In particular the offer in the ticket is signed by the provider's OWN account key: the stored offer
signature is exactly the (ideal) signature of `acctKey` on the offer digest of the ticket as given. -/
theorem C14_provider_offer_signed_by_own_key (H : Bytes → Bytes) (t t' : Ticket) (bid : BidTerms)
    (acctKey k : Key) (hok : validateAndSign H t bid acctKey k = (t', none)) :
    ∃ p, offerPreimage t = .ok p ∧ t.sigOffer = some ⟨acctKey, H p⟩ := by
  obtain ⟨_, _, hv, hk, _⟩ := C14_provider_signs_only_if H t t' bid acctKey k hok
  obtain ⟨_, pk, p, hpk, hp, hs⟩ := (verifyOffer_ok_iff H t).1 hv
  rw [hk] at hpk
  injection hpk with hpk
  subst hpk
  exact ⟨p, hp, hs⟩

/-- …and only if the bid repeats the channel parameters of the offer (`CheckOfferMatchesBid`): lease duration
(unless the offer leaves it open with 0), push amount = self channel balance, unannounced and zero-conf
flags. -/
theorem C14_provider_bid_matches_offer (H : Bytes → Bytes) (t t' : Ticket) (bid : BidTerms) (acctKey k : Key)
    (hok : validateAndSign H t bid acctKey k = (t', none)) :
    (t.leaseDuration = 0 ∨ t.leaseDuration = bid.leaseDuration) ∧ t.pushAmt = bid.selfChanBalance ∧
    t.unannounced = bid.unannounced ∧ t.zeroConf = bid.zeroConf := by
  have h := (C14_provider_signs_only_if H t t' bid acctKey k hok).2.2.2.2.2.2.2.2.2.2.2
  unfold checkOfferMatchesBid at h
  by_cases h1 : t.leaseDuration = 0 ∨ t.leaseDuration = bid.leaseDuration
  · by_cases h2 : t.pushAmt = bid.selfChanBalance
    · by_cases h3 : t.unannounced = bid.unannounced
      · by_cases h4 : t.zeroConf = bid.zeroConf
        · exact ⟨h1, h2, h3, h4⟩
        · rcases h1 with h1 | h1 <;> simp [h1, h2, h3, h4] at h
      · rcases h1 with h1 | h1 <;> simp [h1, h2, h3] at h
    · rcases h1 with h1 | h1 <;> simp [h1, h2] at h
  · have a : ¬ t.leaseDuration = 0 := fun x => h1 (Or.inl x)
    have b : ¬ t.leaseDuration = bid.leaseDuration := fun x => h1 (Or.inr x)
    simp [a, b] at h

/-- Inside the int64 range the wrap-around is the identity: the offered capacity is exactly the bid's
minimum match (in units) times the base supply unit. -/
theorem C14_provider_min_match_exact (H : Bytes → Bytes) (t t' : Ticket) (bid : BidTerms) (acctKey k : Key)
    (hok : validateAndSign H t bid acctKey k = (t', none))
    (hdom : (bid.minUnitsMatch : Int) * baseUnit < 9223372036854775808) :
    t.capacity = (bid.minUnitsMatch : Int) * baseUnit := by
  have h := (C14_provider_signs_only_if H t t' bid acctKey k hok).2.2.2.2.2.2.2.2.2.1
  rw [h]
  unfold wrapI64
  have : (0 : Int) ≤ (bid.minUnitsMatch : Int) * baseUnit := by
    apply Int.mul_nonneg (Int.natCast_nonneg _); decide
  omega

/-- The acceptor's `validateOrderedTicket` accepts only an ordered ticket whose offer AND order signatures
verify and which is known to the local database. -/
theorem C14_validate_ordered_only_if (H : Bytes → Bytes) (t : Ticket) (known : Bool)
    (hok : validateOrderedTicket H t known = none) :
    t.state = stateOrdered ∧ verifyOffer H (some t) = .ok () ∧ verifyOrder H (some t) = .ok () ∧
    known = true := by
  unfold validateOrderedTicket at hok
  by_cases h1 : t.state = stateOrdered
  · simp only [h1, bne_self_eq_false, Bool.false_eq_true, if_false] at hok
    cases hv : verifyOffer H (some t) with
    | error e => simp [hv] at hok
    | ok u =>
      cases hv2 : verifyOrder H (some t) with
      | error e => simp [hv, hv2] at hok
      | ok u2 =>
        cases known
        · simp [hv, hv2] at hok
        · exact ⟨h1, by cases u; rfl, by cases u2; rfl, rfl⟩
  · simp [h1] at hok

/-- `RegisterSidecar` registers only a ticket whose offer signature verifies and which is not yet known;
it only adds the recipient part and the state. -/
theorem C14_register_only_if (H : Bytes → Bytes) (t t' : Ticket) (known : Bool) (nk mk : Key) (idx : Nat)
    (hok : registerSidecar H t known nk mk idx = .ok t') :
    verifyOffer H (some t) = .ok () ∧ known = false ∧
    t' = { t with state := stateRegistered,
                  recipient := some { nodeKey := some nk, multiSigKey := some mk, idx := idx } } := by
  unfold registerSidecar at hok
  cases hv : verifyOffer H (some t) with
  | error e => simp [hv] at hok
  | ok u =>
    cases known
    · simp [hv] at hok; exact ⟨by cases u; rfl, rfl, hok.symm⟩
    · simp [hv] at hok

/-! ## non-vacuity: concrete tickets meeting the hypotheses (identity "hash") -/

def exOffered : Ticket :=
  { id := [1, 2, 3, 4, 5, 6, 7, 8], version := 1, state := 2, capacity := 500000, pushAmt := 1000,
    leaseDuration := 2016, signPubKey := some 7, sigOffer := none, auto := true, unannounced := true,
    zeroConf := false, recipient := some { nodeKey := some 3, multiSigKey := some 4, idx := 9 },
    order := none }

def exNonce : Bytes := List.replicate 31 0 ++ [5]
def exBid : BidTerms :=
  { auctionType := 0, amt := 500000, minUnitsMatch := 5, nonce := exNonce, leaseDuration := 2016,
    selfChanBalance := 1000, unannounced := true, zeroConf := false }

def exSigned : Ticket := match signOffer id (some exOffered) 7 with
  | .ok t => t
  | .error _ => exOffered

def exOrdered : Ticket := (validateAndSign id exSigned exBid 7 7).1

example : signOffer id (some exOffered) 7 = .ok exSigned := by decide
example : verifyOffer id (some exSigned) = .ok () := by decide
example : validateAndSign id exSigned exBid 7 7 = (exOrdered, none) := by decide
example : verifyOrder id (some exOrdered) = .ok () := by decide
example : validateOrderedTicket id { exOrdered with state := 3 } true = none := by decide
example : (registerSidecar id { exSigned with recipient := none, state := 1 } false 3 4 9).toOption.isSome := by decide
/-- a changed term (capacity) with the same signature is rejected -/
example : verifyOffer id (some { exSigned with capacity := 600000 }) = .error .badSig := by decide
example : verifyOrder id (some { exOrdered with
    order := exOrdered.order.map fun o => { o with bidNonce := List.replicate 31 0 ++ [6] } }) =
    .error .badSig := by decide
/-- another key is rejected -/
example : verifyOffer id (some { exSigned with signPubKey := some 8 }) = .error .badSig := by decide

end Pool.C14
