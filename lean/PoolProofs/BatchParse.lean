import PoolModel.Batch
/-! `ParseRPCBatch`'s lease-duration bucket check: every matched order of a parsed batch carries the duration of a
market of the message, and that market's clearing price is published in `ClearingPrices`. -/
set_option linter.unusedSimpArgs false
set_option linter.unusedVariables false
namespace Pool.Batch

theorem mem_mapInsert {k : Nonce} {v : List Their} : ∀ {acc : List (Nonce × List Their)} {x : Nonce × List Their},
    x ∈ mapInsert k v acc → x = (k, v) ∨ x ∈ acc := by
  intro acc
  induction acc with
  | nil => intro x h; simp [mapInsert] at h; exact Or.inl h
  | cons a as ih =>
    intro x h
    obtain ⟨k', v'⟩ := a
    simp only [mapInsert] at h
    split at h
    · rcases List.mem_cons.mp h with h | h
      · exact Or.inl h
      · exact Or.inr (List.mem_cons_of_mem _ h)
    · rcases List.mem_cons.mp h with h | h
      · exact Or.inr (h ▸ List.mem_cons_self)
      · rcases ih h with h | h
        · exact Or.inl h
        · exact Or.inr (List.mem_cons_of_mem _ h)

/-- durations of all matched orders in `acc` are among `ds` -/
def DurIn (ds : List Nat) (acc : List (Nonce × List Their)) : Prop := ∀ nm ∈ acc, ∀ t ∈ nm.2, t.duration ∈ ds

theorem parseMarketOrders_durIn {D : Nat} {ds : List Nat} (hD : D ∈ ds) :
    ∀ (ms : List MatchedRpc) (acc res : List (Nonce × List Their)), DurIn ds acc →
      parseMarketOrders D ms acc = .ok res → DurIn ds res := by
  intro ms
  induction ms with
  | nil => intro acc res h hr; simp [parseMarketOrders] at hr; subst hr; exact h
  | cons m ms ih =>
    intro acc res h hr
    simp only [parseMarketOrders] at hr
    cases hp : parseMatchedOrders m with
    | error e => rw [hp] at hr; cases hr
    | ok ts =>
      rw [hp] at hr
      simp only at hr
      by_cases hall : (ts.all fun t => t.duration == D) = true
      · rw [if_pos hall] at hr
        refine ih _ _ ?_ hr
        intro nm hnm t ht
        rcases mem_mapInsert hnm with rfl | hnm
        · have := List.all_eq_true.mp hall t ht
          have : t.duration = D := by simpa using this
          rw [this]; exact hD
        · exact h nm hnm t ht
      · rw [if_neg hall] at hr; cases hr

theorem parseMarkets_durIn : ∀ (mks : List MarketRpc) (ds : List Nat) (acc : List (Nonce × List Their))
    (cp : List (Nat × Nat)) (res : List (Nonce × List Their) × List (Nat × Nat)),
    (∀ mk ∈ mks, mk.duration ∈ ds) → DurIn ds acc →
    parseMarkets mks acc cp = .ok res → DurIn ds res.1 ∧ res.2 = cp ++ mks.map (fun mk => (mk.duration, mk.price)) := by
  intro mks
  induction mks with
  | nil => intro ds acc cp res _ h hr; simp [parseMarkets] at hr; subst hr; simp [h]
  | cons mk mks ih =>
    intro ds acc cp res hds h hr
    simp only [parseMarkets] at hr
    cases hp : parseMarketOrders mk.duration mk.orders acc with
    | error e => rw [hp] at hr; cases hr
    | ok acc' =>
      rw [hp] at hr
      simp only at hr
      have h' := parseMarketOrders_durIn (hds mk List.mem_cons_self) _ _ _ h hp
      obtain ⟨h1, h2⟩ := ih ds acc' _ res (fun m hm => hds m (List.mem_cons_of_mem _ hm)) h' hr
      exact ⟨h1, by rw [h2]; simp⟩

theorem lookup_isSome_of_mem_keys {d : Nat} : ∀ {l : List (Nat × Nat)}, d ∈ l.map (·.1) → (l.lookup d).isSome = true := by
  intro l
  induction l with
  | nil => intro h; simp at h
  | cons x xs ih =>
    intro h
    obtain ⟨a, p⟩ := x
    simp only [List.lookup]
    by_cases hd : d = a
    · subst hd; simp
    · have : (d == a) = false := by simpa using hd
      simp only [this]
      apply ih
      simp only [List.map_cons, List.mem_cons] at h
      rcases h with h | h
      · exact absurd h hd
      · exact h

/-- **Bucket check.** In a batch produced by `ParseRPCBatch`, every matched order's lease duration is the key of a
market of the message, so a clearing price *is published* for it (`ClearingPrices` has that key). -/
theorem parse_clearing_published (m : PrepareMsg) (b : Batch) (h : parseRPCBatch m = .ok b) :
    ∀ nm ∈ b.matched, ∀ t ∈ nm.2, (b.clearing.lookup t.duration).isSome = true := by
  unfold parseRPCBatch at h
  cases hp : parseMarkets m.markets [] [] with
  | error e => rw [hp] at h; cases h
  | ok res =>
    rw [hp] at h
    obtain ⟨matched, clearing⟩ := res
    simp only [Except.ok.injEq] at h
    subst h
    obtain ⟨h1, h2⟩ := parseMarkets_durIn m.markets (m.markets.map (·.duration)) [] [] _
      (fun mk hmk => List.mem_map.mpr ⟨mk, hmk, rfl⟩) (by intro nm hnm; simp at hnm) hp
    intro nm hnm t ht
    have hd := h1 nm hnm t ht
    apply lookup_isSome_of_mem_keys
    simp only at h2 ⊢
    rw [h2]
    simpa [List.map_map] using hd

end Pool.Batch
