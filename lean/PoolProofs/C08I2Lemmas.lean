import PoolProofs.C08Lemmas
/-! I2 (watcher adequacy): the re-arming functions of the model (`resumeRest` = the `resumeAccount` clauses used on
restart, watch-matched and keep-alive spends; `handleConf`) establish it from *any* watcher registry. -/
set_option linter.unusedSimpArgs false
set_option linter.unusedVariables false
namespace Pool.C08
open Pool.Gen

def spendLive (w : Watch) (op : OutPoint) : Prop := ∃ r ∈ w.spendRegs, r.op = op
def confLive (w : Watch) (txid : Nat) : Prop := ∃ r ∈ w.confRegs, r.txid = txid

/-- **I2** for one record: the account is watched for the event its state waits for (for the states that
wait for a confirmation: of its outpoint's transaction, or of / for the spend of a predecessor input, whose
handler arms the confirmation watcher) -/
def Adq (a : Acct) (w : Watch) : Prop :=
  match a.state with
  | .pendingOpen | .pendingUpdate | .pendingBatch | .expiredPendingUpdate =>
    confLive w a.outpoint.txid ∨
      ∃ t, a.latestTx = some t ∧ ∃ op ∈ t.spends, spendLive w op ∨ confLive w op.txid
  | .open_ => spendLive w a.outpoint ∧ w.expiry = some a.expiry
  | .expired | .pendingClosed => spendLive w a.outpoint
  | _ => True

def Inv2 (s : AState) : Prop := ∀ a, s.acct = some a → Adq a s.w

theorem spendLive_regSpend (s : AState) (op : OutPoint) (sc : Script) : spendLive (regSpend s op sc).w op :=
  ⟨⟨s.nextReg, op, sc⟩, by simp [regSpend], rfl⟩

theorem confLive_regConf (s : AState) (x : Nat) (sc : Script) : confLive (regConf s x sc).w x :=
  ⟨⟨s.nextReg, x, sc⟩, by simp [regConf], rfl⟩

theorem stored_of_live {a : Acct} (h : a.state ≠ .initiated) (h' : a.state ≠ .canceled) : a.stored = a := by
  unfold Acct.stored; simp [h, h']

theorem hso_spend : Lifecycle.handleStateOpenCalls.contains "WatchAccountSpend" = true := by decide
theorem hso_expiry : Lifecycle.handleStateOpenCalls.contains "WatchAccountExpiration" = true := by decide
theorem exp_open : expiryNext .open_ = .to .expired := by decide
theorem exp_expired (t : State) : expiryNext .expired ≠ .to t := by cases t <;> decide

/-- `handleStateOpen` right after the record was written in `open` / `expired` establishes I2 -/
theorem handleStateOpen_inv2 (s : AState) (a : Acct) (ha : s.acct = some a)
    (hst : a.state = .open_ ∨ a.state = .expired) : Inv2 (handleStateOpen s a) := by
  intro b hb
  unfold handleStateOpen at hb ⊢
  simp only [hso_spend, hso_expiry, if_true] at hb ⊢
  unfold watchExpiration at hb ⊢
  have hsp : ∀ w', spendLive { (regSpend s a.outpoint (a.script s.key)).w with expiry := w' } a.outpoint :=
    fun w' => spendLive_regSpend _ _ _
  split at hb
  · -- already expired: immediate hand-off
    rename_i hle
    simp only [hle, if_true]
    unfold handleExpiry at hb ⊢
    have hacct : (regSpend s a.outpoint (a.script s.key)).acct = some a := by
      exact ha
    simp only [hacct] at hb ⊢
    rcases hst with h | h
    · simp only [h, exp_open] at hb ⊢
      have hb' : b = ({ a with state := State.expired } : Acct).stored := (Option.some.inj hb).symm
      rw [stored_of_live (by simp) (by simp)] at hb'
      subst hb'
      exact hsp none
    · cases hn : expiryNext a.state with
      | to t => rw [h] at hn; exact absurd hn (exp_expired t)
      | err =>
        simp only [hn] at hb ⊢
        have hb' : b = a := (Option.some.inj hb).symm
        subst hb'
        simp only [Adq, h]; exact hsp none
      | noop =>
        simp only [hn] at hb ⊢
        have hb' : b = a := (Option.some.inj hb).symm
        subst hb'
        simp only [Adq, h]; exact hsp none
  · rename_i hgt
    simp only [hgt, if_false]
    have hacct : (regSpend s a.outpoint (a.script s.key)).acct = some a := by
      exact ha
    have hb' : b = a := (Option.some.inj (hacct.symm.trans hb)).symm
    subst hb'
    rcases hst with h | h
    · simp only [Adq, h]; exact ⟨hsp _, trivial⟩
    · simp only [Adq, h]; exact hsp _


theorem confNext_target (st t : State) (h : confNext st = some t) : t = .open_ ∨ t = .expired := by
  cases st <;> cases t <;> revert h <;> decide

/-- `HandleAccountConf` preserves I2, and establishes it whenever it moves the account -/
theorem handleConf_inv2 (s : AState) (h : Nat) (i2 : Inv2 s) : Inv2 (handleConf s h) := by
  unfold handleConf
  split
  · exact i2
  · rename_i a ha
    split
    · exact i2
    · rename_i t ht
      have htt := confNext_target _ _ ht
      apply handleStateOpen_inv2
      · show some ({ a with state := t, heightHint := h } : Acct).stored = _
        rw [stored_of_live] <;> rcases htt with h' | h' <;> simp [h']
      · exact htt

/-- which watcher actions the regenerated `resumeAccount` clause of a state contains -/
def watchTbl (st : State) : Bool :=
  match resumeActs st with
  | none => true
  | some acts =>
    let c := acts.contains "WatchAccountConf"
    let h := acts.contains "handleStateOpen"
    let sp := acts.contains "WatchAccountSpend"
    match st with
    | .pendingOpen | .pendingUpdate | .pendingBatch | .expiredPendingUpdate => c && !h
    | .open_ => h && !sp
    | .expired | .pendingClosed => sp && !h
    | _ => !h

theorem watchTbl_ok (st : State) : watchTbl st = true := by cases st <;> decide

/-- the watcher part of the `resumeAccount` clause of every state establishes I2 from any registry -/
theorem watchers_inv2 (s : AState) (a : Acct) (acts : List String) (ha : s.acct = some a)
    (hacts : resumeActs a.state = some acts) : Inv2 (watchers s a acts) := by
  have htab := watchTbl_ok a.state
  simp only [watchTbl, hacts] at htab
  intro b hb
  unfold watchers at hb ⊢
  simp only [] at hb ⊢
  cases hc : acts.contains "WatchAccountConf" <;> cases hh : acts.contains "handleStateOpen" <;>
    cases hs : acts.contains "WatchAccountSpend" <;> simp only [hc, hh, hs] at htab hb ⊢ <;>
    simp only [Bool.false_eq_true, if_false, if_true] at hb ⊢
  all_goals first
    | (cases hst : a.state <;> simp [hst] at htab <;>
        exact handleStateOpen_inv2 _ a ha (Or.inl hst) b hb)
    | (cases hst : a.state <;> simp [hst] at htab <;>
        exact handleStateOpen_inv2 (regConf s a.outpoint.txid (a.script s.key)) a ha (Or.inl hst) b hb)
    | (have hb' : b = a := (Option.some.inj (ha.symm.trans hb)).symm
       subst hb'
       cases hst : b.state <;> simp [hst] at htab <;> simp only [Adq, hst] <;>
         first
         | trivial
         | exact spendLive_regSpend _ _ _
         | exact Or.inl (confLive_regConf _ _ _))

theorem mb_frame (s : AState) (t : Tx) :
    (maybeBroadcast s t).acct = s.acct ∧ (maybeBroadcast s t).w = s.w ∧ (maybeBroadcast s t).key = s.key := by
  unfold maybeBroadcast; split <;> exact ⟨rfl, rfl, rfl⟩

theorem rebroadcast_frame (s : AState) (a : Acct) (r : Bool) (acts : List String) :
    (rebroadcast s a r acts).1.acct = s.acct ∧ (rebroadcast s a r acts).1.w = s.w ∧
    (rebroadcast s a r acts).1.key = s.key := by
  unfold rebroadcast
  split
  · simp only []
    cases a.latestTx with
    | none =>
      simp only []
      cases locateTxByHash s.wallet a.outpoint.txid <;> first | exact ⟨rfl, rfl, rfl⟩ | exact mb_frame _ _
    | some t =>
      simp only []
      split
      · exact mb_frame _ _
      · cases locateTxByHash s.wallet a.outpoint.txid <;> first | exact ⟨rfl, rfl, rfl⟩ | exact mb_frame _ _
  · split
    · cases a.latestTx <;> first | exact ⟨rfl, rfl, rfl⟩ | exact mb_frame _ _
    · exact ⟨rfl, rfl, rfl⟩

theorem initiated_fallthrough :
    (match resumeActs .initiated with | some acts => acts.contains "fallthrough" | none => false) = true := by
  decide

theorem fundOrLocate_key {s s' : AState} {a : Acct} {r1 r2 fee : Bool} {f : Option (Nat × Nat)}
    {acts : List String} {t : Tx} (h : fundOrLocate s a r1 r2 fee f acts = .got s' t) : s'.key = s.key := by
  unfold fundOrLocate at h
  simp only [] at h
  split at h
  · split at h
    · simp at h
    simp at h; rw [← h.1]
  · repeat' split at h
    all_goals (try (simp at h))
    rw [← h.1]

end Pool.C08
