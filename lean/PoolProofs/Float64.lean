import PoolProofs.Float64Lemmas
/-! # Headline facts about the shared binary64 model `PoolModel/Float64.lean` -/
namespace Pool.Float64

/-- one correctly rounded operation has relative error at most 2^-53 (any positive rational; unbounded exponent) -/
theorem Float64_rnd_relerr (n d : Nat) (hd : 0 < d) :
    |(rnd n d).val - (n : ℚ) / d| ≤ ((n : ℚ) / d) / 2 ^ 53 := rnd_relerr n d hd

/-- `LumpSumPremium` is the exact premium `amt·rate·dur/10^9` up to a relative 2^-50 and the final truncation -/
theorem Float64_premium_near (amt rate dur : Nat) :
    exactPremium amt rate dur * (1 - 1 / 2 ^ 50) - 1 < (premium amt rate dur : ℚ) ∧
    (premium amt rate dur : ℚ) ≤ exactPremium amt rate dur * (1 + 1 / 2 ^ 50) := premium_near amt rate dur

/-- non-vacuity / sanity: concrete values of the model (compared with Go in the correspondence stream) -/
example : premium 100000 2000 144 = 28 ∧ premium 5000000 1000 2016 = 10080 ∧
    premium 123456789 4294967295 4294967295 = 2277375789784474880 := by decide

end Pool.Float64
