import PoolProofs.Float64Lemmas
/-! # Headline facts about the shared binary64 model `PoolModel/Float64.lean` -/
namespace Pool.Float64

/-- one correctly rounded operation has relative error at most 2^-53 (any positive rational; unbounded exponent) -/
theorem Float64_rnd_relerr (n d : Nat) (hd : 0 < d) :
    |(rnd n d).val - (n : ℚ) / d| ≤ ((n : ℚ) / d) / 2 ^ 53 := rnd_relerr n d hd

/-- `LumpSumPremium` is the exact premium `amt·rate·dur/10^9` up to a relative 2^-50 and the final truncation -/
theorem Float64_premium_near (amt rate dur : Nat) :
    exactPremium amt rate dur * (1 - 1 / 2 ^ 50) - 1 < (premium amt rate dur : ℚ) ∧
    (premium amt rate dur : ℚ) ≤ exactPremium amt rate dur * (1 + 1 / 2 ^ 50) := premium_near amt rate dur

/-- rounding is monotone: `n1/d1 ≤ n2/d2` (cross-multiplied) implies `rnd(n1/d1) ≤ rnd(n2/d2)` -/
theorem Float64_rnd_mono (n1 d1 n2 d2 : Nat) (hd1 : 0 < d1) (hd2 : 0 < d2) (h : n1 * d2 ≤ n2 * d1) :
    (rnd n1 d1).val ≤ (rnd n2 d2).val := rnd_mono n1 d1 n2 d2 hd1 hd2 h

/-- `LumpSumPremium` (the float computation, truncated) is monotone in amount, rate and duration -/
theorem Float64_premium_mono {a a' r r' d d' : Nat} (ha : a ≤ a') (hr : r ≤ r') (hd : d ≤ d') :
    premium a r d ≤ premium a' r' d' := premium_mono ha hr hd

/-- `premiumInt` on a non-negative amount is `premium` whenever the result fits an `int64` -/
theorem Float64_premiumInt_of_nonneg (a rate dur : Nat) (h : premium a rate dur < 2 ^ 63) :
    premiumInt (a : Int) rate dur = (premium a rate dur : Int) := premiumInt_of_nonneg a rate dur h

/-- `premiumInt` is odd in the amount (IEEE sign symmetry, truncation toward zero) -/
theorem Float64_premiumInt_neg (a rate dur : Nat) (h : premium a rate dur ≤ 2 ^ 63) :
    premiumInt (-(a : Int)) rate dur = -(premium a rate dur : Int) := premiumInt_neg a rate dur h

/-- non-vacuity: a negative amount, and the amd64 out-of-range value -/
example : premiumInt (-100000) 2000 144 = -28 ∧ premium 100000 2000 144 ≤ 2 ^ 63 ∧
    premiumInt 9223372036854775807 4294967295 4294967295 = -(2 ^ 63) := by decide

/-- a rounded positive value is a 53-bit significand: `2^52 ≤ m ≤ 2^53` -/
theorem Float64_rnd_significand (n d : Nat) (hn : 0 < n) (hd : 0 < d) :
    2 ^ 52 ≤ (rnd n d).m ∧ (rnd n d).m ≤ 2 ^ 53 := rnd_sig_bounds n d hn hd

/-- non-vacuity: 1/3 ≤ 1/2 round to ordered values; a tie rounds to even (2^53+1 → 2^53) -/
example : (1 : Nat) * 2 ≤ 1 * 3 ∧ (rnd 1 3).m = 6004799503160661 ∧ (rnd 1 2).m = 4503599627370496 ∧
    (rnd (2 ^ 53 + 1) 1) = ⟨2 ^ 52, 1⟩ ∧ (rnd (2 ^ 53 + 3) 1) = ⟨2 ^ 52 + 2, 1⟩ := by decide

/-- non-vacuity / sanity: concrete values of the model (compared with Go in the correspondence stream) -/
example : premium 100000 2000 144 = 28 ∧ premium 5000000 1000 2016 = 10080 ∧
    premium 123456789 4294967295 4294967295 = 2277375789784474880 := by decide

end Pool.Float64
