import PoolProofs.C07LemmasModify
/-! "Any effect at all ⇒ every check had passed" (inversions from a non-empty trace), and the close lemmas. -/
set_option linter.unusedSimpArgs false
set_option linter.unusedVariables false
namespace Pool.C07
open Pool.Gen.C07

theorem spendAccount_trace_prepared {so : ScriptOf} {a : Account} {action : Action} {tx : Tx} {wt : Nat}
    {mods : List Modifier} {best : UInt32} {f : Faults}
    (h : (spendAccount so a action tx wt mods best f).trace ≠ []) :
    ∃ oi m lock, spendPrepare so a action tx wt mods best = .ok (oi, m, { tx with lockTime := lock }) ∧
      sanityCheck a { tx with lockTime := lock } wt = .ok () ∧
      (action ≠ .close → wt = wt_multiSigWitness ∨ wt = wt_muSig2Taproot) := by
  unfold spendAccount at h
  split at h
  · simp [refuse] at h
  · rename_i oi m t heq
    obtain ⟨lock, ht, _, hlock, hs⟩ := spendPrepare_ok heq
    subst ht
    refine ⟨oi, m, lock, heq, hs, ?_⟩
    intro hne
    rcases hlock with ⟨_, hc, _⟩ | ⟨hw, _⟩
    · exact absurd hc hne
    · exact hw

theorem withdraw_trace_inv {so : ScriptOf} {a : Account} {outputs : List TxOut} {rate : Int} {best eh : UInt32}
    {nv : Nat} {f : Faults} (h : (withdraw so a outputs rate best eh nv f).trace ≠ []) :
    a.state = StateOpen ∧ a.version ≤ nv ∧ ∃ ne v, optExpiry eh best = .ok ne ∧
      valueAfterAccountUpdate a.value outputs (determineWitnessType a best) rate = .ok v ∧
      (createNewAccountOutput so a v ne nv).1.script ∉ outputs.map (·.script) ∧
      withdraw so a outputs rate best eh nv f
        = spendAccount so a .withdraw (createSpendTx so a ((createNewAccountOutput so a v ne nv).1 :: outputs))
            (determineWitnessType a best) ((createNewAccountOutput so a v ne nv).2 ++ [.state StatePendingUpdate])
            best f := by
  unfold withdraw at h ⊢
  split at h
  · simp [refuse] at h
  · rename_i hs
    split at h
    · simp [refuse] at h
    · rename_i hv
      split at h
      · simp [refuse] at h
      · rename_i ne hne
        simp only [] at h
        split at h
        · simp [refuse] at h
        · rename_i v hvau
          split at h
          · simp [refuse] at h
          · rename_i hown
            have hfact : withdrawRefusesOwnScript = true := by decide
            refine ⟨by simpa using hs, by omega, ne, v, hne, hvau, ?_, ?_⟩
            · simp only [hfact, true_and, List.any_eq_true, decide_eq_true_eq, not_exists, not_and] at hown
              intro hm
              obtain ⟨o, ho, hs'⟩ := List.mem_map.mp hm
              exact hown o ho hs'
            · simp [hs, hv, hne, hvau]
              intro _ x hx hsx
              exact absurd ⟨hfact, List.any_eq_true.mpr ⟨x, hx, by simpa using hsx⟩⟩ hown

theorem renew_trace_inv {so : ScriptOf} {a : Account} {newExpiry : UInt32} {rate : Int} {best : UInt32}
    {nv : Nat} {f : Faults} (h : (renew so a newExpiry rate best nv f).trace ≠ []) :
    (a.state = StateOpen ∨ a.state = StateExpired) ∧ a.version ≤ nv ∧
      validateAccountExpiry newExpiry best = .ok () ∧ ∃ v,
      valueAfterAccountUpdate a.value []
        (if a.version ≥ VersionTaprootEnabled then wt_muSig2Taproot else wt_multiSigWitness) rate = .ok v ∧
      renew so a newExpiry rate best nv f
        = spendAccount so a .renew (createSpendTx so a [(createNewAccountOutput so a v (some newExpiry) nv).1])
            (if a.version ≥ VersionTaprootEnabled then wt_muSig2Taproot else wt_multiSigWitness)
            ((createNewAccountOutput so a v (some newExpiry) nv).2 ++ [.state StatePendingUpdate]) best f := by
  unfold renew at h ⊢
  split at h
  · simp [refuse] at h
  · rename_i hs
    split at h
    · simp [refuse] at h
    · rename_i hexp
      split at h
      · simp [refuse] at h
      · rename_i hv
        simp only [] at h
        split at h
        · simp [refuse] at h
        · rename_i v hvau
          refine ⟨Decidable.not_not.mp hs, by omega, hexp, v, hvau, ?_⟩
          simp [hs, hv, hexp, hvau]

theorem close_trace_inv {so : ScriptOf} {a : Account} {fe : FeeExpr} {ws : Bool → Script} {best : UInt32} {f : Faults}
    (h : (close so a fe ws best f).trace ≠ []) :
    (a.state = StateOpen ∨ a.state = StateExpired) ∧ ∃ outs,
      fe.closeOutputs ws a.value (determineWitnessType a best) = .ok outs ∧
      close so a fe ws best f
        = spendAccount so a .close (createSpendTx so a outs) (determineWitnessType a best)
            [.value 0, .state StatePendingClosed] best f := by
  unfold close at h ⊢
  split at h
  · simp [refuse] at h
  · rename_i hs
    simp only [] at h
    split at h
    · simp [refuse] at h
    · rename_i outs ho
      have hs' : a.state = StateOpen ∨ a.state = StateExpired := Decidable.of_not_not hs
      refine ⟨hs', outs, ho, ?_⟩
      simp [hs', ho]

theorem deposit_trace_inv {so : ScriptOf} {a : Account} {amount rate : Int} {best eh : UInt32} {nv : Nat}
    {maxValue : Option Int} {fd : Option Funded} {f : Faults}
    (h : (deposit so a amount rate best eh nv maxValue fd f).trace ≠ []) :
    a.state = StateOpen ∧ a.version ≤ nv ∧ ∃ maxV ne tx, maxValue = some maxV ∧ a.value + amount ≤ maxV ∧
      (MinAccountValue : Int) ≤ a.value + amount ∧ optExpiry eh best = .ok ne ∧
      inputsForDeposit so a (createNewAccountOutput so a (a.value + amount) ne nv).1 amount
        (determineWitnessType a best) rate fd = .ok tx ∧
      deposit so a amount rate best eh nv maxValue fd f
        = spendAccount so a .deposit tx (determineWitnessType a best)
            ((createNewAccountOutput so a (a.value + amount) ne nv).2 ++ [.state StatePendingUpdate]) best f := by
  unfold deposit at h ⊢
  split at h
  · simp [refuse] at h
  · rename_i hs
    split at h
    · simp [refuse] at h
    · rename_i hv
      split at h
      · simp [refuse] at h
      · rename_i maxV
        simp only [] at h
        split at h
        · simp [refuse] at h
        · rename_i hmin
          split at h
          · simp [refuse] at h
          · rename_i hmax
            split at h
            · simp [refuse] at h
            · rename_i ne hne
              split at h
              · simp [refuse] at h
              · rename_i tx htx
                have hdm : depositChecksMin = true := by decide
                refine ⟨by simpa using hs, by omega, maxV, ne, tx, rfl, by omega, ?_, hne, htx, ?_⟩
                · simp only [hdm, true_and] at hmin; omega
                · simp [hs, hv, hmin, hmax, hne, htx]

theorem optExpiry_window {eh best : UInt32} {ne : Option UInt32} (h : optExpiry eh best = .ok ne)
    (hw : ∀ e b, validateAccountExpiry e b = .ok () → b.toNat + 144 ≤ e.toNat ∧ e.toNat ≤ b.toNat + 52560) :
    eh ≠ 0 → best.toNat + 144 ≤ eh.toNat ∧ eh.toNat ≤ best.toNat + 52560 := by
  intro hne
  rcases optExpiry_ok h with ⟨h0, _⟩ | ⟨_, _, hv⟩
  · exact absurd h0 hne
  · exact hw _ _ hv

end Pool.C07

namespace Pool.C07
open Pool.Gen.C07

/-! ### `OutputWithFee.CloseOutputs` -/

theorem owf_close_ok {s : Script} {r value : Int} {wt : Nat} {outs : List TxOut}
    (h : outputWithFeeCloseOutputs s r value wt = .ok outs) :
    ∃ w, witnessSize wt = some w ∧ s.length < 253 ∧
      outs = [⟨value - feeForWeight r ((8 + 1 + 41 + 1 + (9 + s.length)) * 4 + 2 + w), s⟩] := by
  unfold outputWithFeeCloseOutputs at h
  split at h
  · cases h
  · rename_i w hw
    simp only [] at h
    split at h
    · cases h
    · rename_i c hc
      have hne : classify s ≠ .unsupported := fun hx => hc hx
      obtain ⟨e, he, he1, he2⟩ := closeSwitch_sizes (classify s) hne
      have hlen := classify_length s hne
      rw [he] at h
      simp only [] at h
      split at h
      · cases h
      · simp only [Except.ok.injEq] at h
        refine ⟨w, hw, ?_, ?_⟩
        · rw [hlen]; cases classify s <;> simp [classLen]
        · rw [← h]
          have c1 : BaseTxSize = 8 := by decide
          have c2 : InputSize = 41 := by decide
          have c3 : witnessScaleFactor = 4 := by decide
          have c4 : WitnessHeaderSize = 2 := by decide
          have v1 : varIntSize 1 = 1 := by decide
          simp only [Twe.weight, Twe.addOutput, Twe.addWitnessInput, he1, hlen, c1, c2, c3, c4, v1, if_true,
            Nat.zero_add, Nat.add_assoc]

theorem fullWeight_single_out {so : ScriptOf} {a : Account} (o : TxOut) (hl : o.script.length < 253) (w lock : Nat) :
    fullWeight { createSpendTx so a [o] with lockTime := lock } w
      = (8 + 1 + 41 + 1 + (9 + o.script.length)) * 4 + 2 + w := by
  have c3 : witnessScaleFactor = 4 := by decide
  have v1 : varIntSize 1 = 1 := by decide
  simp only [fullWeight, createSpendTx, Account.txIn]
  rw [strippedSize_single _ rfl]
  simp [sortBy, insertBy, serializeSize_of_len o hl, c3, v1]

end Pool.C07

namespace Pool.C07
open Pool.Gen.C07

/-- `determineWitnessType`: the expiry witness is chosen exactly when the account is marked expired or the best
height has reached its expiry -/
theorem determineWitnessType_expiry (a : Account) (best : UInt32) :
    ((determineWitnessType a best = wt_expiryWitness ∨ determineWitnessType a best = wt_expiryTaproot) ↔
      (a.state = StateExpired ∨ a.expiry.toNat ≤ best.toNat)) ∧
    ((determineWitnessType a best = wt_multiSigWitness ∨ determineWitnessType a best = wt_muSig2Taproot) ↔
      ¬ (a.state = StateExpired ∨ a.expiry.toNat ≤ best.toNat)) := by
  have e1 : wt_expiryWitness = 0 := by decide
  have e2 : wt_multiSigWitness = 1 := by decide
  have e3 : wt_expiryTaproot = 2 := by decide
  have e4 : wt_muSig2Taproot = 3 := by decide
  have hle : best ≥ a.expiry ↔ a.expiry.toNat ≤ best.toNat := UInt32.le_iff_toNat_le
  unfold determineWitnessType
  rw [e1, e2, e3, e4]
  by_cases hv : a.version = VersionTaprootEnabled ∨ a.version = VersionMuSig2V100RC2 <;>
    by_cases hx : a.state = StateExpired ∨ best ≥ a.expiry <;>
    simp only [hv, hx, if_true, if_false] <;> rw [hle] at hx <;> simp [hx]

end Pool.C07
