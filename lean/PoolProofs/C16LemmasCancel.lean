import PoolProofs.C16LemmasTickets
/-! C16: what a cancellation does, on top of the structural invariant. -/
namespace Pool.C16
open Pool.Gen.C16

/-- `CancelSidecar` on a node: the ticket is persisted as canceled, the negotiator is over, and whenever a negotiator
was running and a recipient may be listening (always for the recipient's own cancel; for the provider once its
in-memory state is at least "registered") the canceled ticket was put into the other side's mailbox. -/
theorem cancelRPC_spec (s s' : Sys) (prov : Bool) (hA : InvA s)
    (ha : applyG true s (.cancelRPC prov) = some s') :
    (getParty s' prov).store.state = sCanceled ∧ (getParty s' prov).alive = false ∧
    ((getParty s prov).alive = true → (prov = false ∨ sRegistered ≤ (getParty s prov).cur) →
      ∃ t, t.state = sCanceled ∧ t ∈ (if prov then s'.toR else s'.toP)) := by
  simp only [applyG] at ha
  split at ha
  · simp at ha
  split at ha
  · simp at ha
  split at ha
  · simp at ha
  split at ha
  · rename_i hal
    obtain ⟨l, hl⟩ := getParty_loc s prov hA hal
    simp only [finStep, hl] at ha
    simp at ha; subst ha
    cases prov
    · simp [getParty, setParty, applyEffs, applyEff]
      intro _; refine ⟨_, ?_, Or.inr rfl⟩; rfl
    · simp only [getParty, if_true] at hal hl ⊢
      by_cases hc : sRegistered ≤ s.p.cur
      · simp [setParty, applyEffs, applyEff, hc, getParty]
        intro _; refine ⟨_, ?_, Or.inr rfl⟩; rfl
      · simp [setParty, applyEffs, applyEff, hc, getParty]
  · rename_i hal
    simp at ha; subst ha
    have hdead : (getParty s prov).alive = false := by simpa using hal
    cases prov <;> simp [getParty, setParty] at hdead ⊢ <;> simp [hdead]

/-- handling the other side's cancel message spawns the finalization and sets the in-memory state to canceled -/
theorem proc_cancel_msg (s s' : Sys) (prov : Bool) (pkt : Ticket) (hA : InvA s)
    (hal : (getParty s prov).alive = true) (hn : nextPkt (getParty s prov) = some pkt)
    (hs : pkt.state = sCanceled) (hc : (getParty s prov).cur ≠ sCreated)
    (ha : applyG true s (.proc prov) = some s') :
    (getParty s' prov).finPend = true ∧ (getParty s' prov).cur = sCanceled ∧
    (getParty s' prov).alive = true ∧ (getParty s' prov).store = (getParty s prov).store := by
  obtain ⟨l, hl⟩ := getParty_loc s prov hA hal
  simp only [applyG, hal, hA.np, hn] at ha
  simp only [Bool.not_true, Bool.or_false, Bool.false_eq_true, if_false] at ha
  have key := C16_cancel_spawn s (getParty s prov).cur l pkt hs hc
  unfold procStep at ha
  cases prov
  · simp only [Bool.false_eq_true, if_false, takePkt_loc, takePkt_cur, hl, key.2.2.1, key.2.2.2] at ha
    simp at ha; subst ha
    simp [getParty, setParty, applyEffs, applyEff]
    simpa [getParty] using hal
  · simp only [if_true, takePkt_loc, takePkt_cur, hl, key.1, key.2.1] at ha
    simp at ha; subst ha
    simp [getParty, setParty, applyEffs, applyEff]
    simpa [getParty] using hal

/-- the hand-off of the spawned finalization is enabled and ends the side with a canceled ticket -/
theorem fin_spec (s : Sys) (prov : Bool) (hA : InvA s) (hal : (getParty s prov).alive = true)
    (hf : (getParty s prov).finPend = true) (hlp : (getParty s prov).loopPkt = none) :
    ∃ s', applyG true s (.fin prov) = some s' ∧ (getParty s' prov).store.state = sCanceled ∧
      (getParty s' prov).alive = false := by
  obtain ⟨l, hl⟩ := getParty_loc s prov hA hal
  obtain ⟨x', es, he, _, k2, k3, _⟩ := finApplied s prov l sCanceled true hl
  refine ⟨applyEffs prov (setParty s prov x') es, ?_, by rw [k3], k2⟩
  simp only [applyG, hal, hA.np, hf, hlp, he]
  simp

end Pool.C16
