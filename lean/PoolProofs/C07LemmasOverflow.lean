import PoolProofs.C07LemmasClose
/-! No `int64` overflow inside the domain guard: the model computes with unbounded integers, Go with `int64`
(`btcutil.Amount`, `chainfee.SatPerKWeight`, `lntypes.WeightUnit`).  Every intermediate value of
`valueAfterAccountUpdate` and `OutputWithFee.CloseOutputs` is shown to lie in the `int64` range, so Go's wrapped
arithmetic and the model's agree there. -/
set_option linter.unusedSimpArgs false
set_option linter.unusedVariables false
namespace Pool.C07
open Pool.Gen.C07

/-- the `int64` range -/
def I64 (x : Int) : Prop := -9223372036854775808 ≤ x ∧ x ≤ 9223372036854775807

/-- domain guard `D`: amounts within ±21e14 sat, fee rate 0..1e9 sat/kw, at most 1000 requested outputs -/
structure InDomain (value rate : Int) (outs : List TxOut) : Prop where
  hvalue : 0 ≤ value ∧ value ≤ 2100000000000000
  hrate : 0 ≤ rate ∧ rate ≤ 1000000000
  houts : ∀ o ∈ outs, -2100000000000000 ≤ o.value ∧ o.value ≤ 2100000000000000
  hcount : outs.length ≤ 1000

theorem sumValues_bound (l : List TxOut)
    (h : ∀ o ∈ l, -2100000000000000 ≤ o.value ∧ o.value ≤ 2100000000000000) :
    -(2100000000000000 * (l.length : Int)) ≤ sumValues l ∧ sumValues l ≤ 2100000000000000 * (l.length : Int) := by
  induction l with
  | nil => simp
  | cons o os ih =>
    have h1 := h o (List.mem_cons_self ..)
    have h2 := ih (fun x hx => h x (List.mem_cons_of_mem _ hx))
    simp only [sumValues_cons, List.length_cons, Int.natCast_add, Int.natCast_one]
    omega

/-- every running total of the output loop (Go: `outputTotal += out.Value`) stays in range -/
theorem prefix_sums_I64 (outs : List TxOut) (k : Nat)
    (h : ∀ o ∈ outs, -2100000000000000 ≤ o.value ∧ o.value ≤ 2100000000000000) (hn : outs.length ≤ 1000) :
    I64 (sumValues (outs.take k)) := by
  have hb := sumValues_bound (outs.take k) (fun o ho => h o (List.mem_of_mem_take ho))
  have hl : ((outs.take k).length : Int) ≤ 1000 := by
    have : (outs.take k).length ≤ outs.length := by simp [List.length_take]; omega
    omega
  unfold I64; omega

theorem witnessSize_le {wt w : Nat} (h : witnessSize wt = some w) : w ≤ 1000 := by
  unfold witnessSize at h
  have hall : ∀ e ∈ witnessSizeTable, e.2 ≤ 1000 := by decide
  cases hf : witnessSizeTable.find? (·.1 == wt) with
  | none => simp [hf] at h
  | some e =>
    simp [hf] at h
    have := hall e (List.mem_of_find?_eq_some hf)
    omega

theorem serializeSize_le_of_classify {o : TxOut} (h : classify o.script ≠ .unsupported) : o.serializeSize ≤ 43 := by
  have hl := classify_length o.script h
  have : o.script.length ≤ 34 := by rw [hl]; cases classify o.script <;> simp [classLen]
  rw [serializeSize_of_len _ (by omega)]; omega

theorem vauLoop_classified {t : Twe} {tot : Int} {os : List TxOut} {t' : Twe} {tot' : Int}
    (h : vauLoop t tot os = .ok (t', tot')) : ∀ o ∈ os, classify o.script ≠ .unsupported := by
  induction os generalizing t tot with
  | nil => intro o ho; cases ho
  | cons x xs ih =>
    simp only [vauLoop] at h
    split at h
    · cases h
    · rename_i c hc
      split at h
      · cases h
      · intro o ho
        rcases List.mem_cons.mp ho with rfl | ho
        · exact fun hx => hc hx
        · exact ih h o ho

theorem sum_serializeSize_le (os : List TxOut) (h : ∀ o ∈ os, classify o.script ≠ .unsupported) :
    (os.map TxOut.serializeSize).sum ≤ 43 * os.length := by
  induction os with
  | nil => simp
  | cons o os ih =>
    have h1 := serializeSize_le_of_classify (h o (List.mem_cons_self ..))
    have h2 := ih (fun x hx => h x (List.mem_cons_of_mem _ hx))
    simp only [List.map_cons, List.sum_cons, List.length_cons]
    omega

theorem varIntSize_le (n : Nat) : varIntSize n ≤ 9 := by
  unfold varIntSize
  repeat' split
  all_goals omega

/-- **no overflow in `valueAfterAccountUpdate`** inside the domain guard: all running output totals, the product
`feeRate * weight`, the fee and both subtractions lie in the `int64` range -/
theorem vau_no_overflow {value rate : Int} {outs : List TxOut} {wt : Nat} {v : Int}
    (hd : InDomain value rate outs) (h : valueAfterAccountUpdate value outs wt rate = .ok v) :
    ∃ w t, witnessSize wt = some w ∧
      vauLoop ((({} : Twe).addWitnessInput w).addOutput baseAccountOutputSize) 0 outs = .ok (t, sumValues outs) ∧
      (∀ k, I64 (sumValues (outs.take k))) ∧ I64 (sumValues outs) ∧
      (t.weight : Int) ≤ 200000 ∧ I64 (rate * (t.weight : Int)) ∧ I64 (feeForWeight rate t.weight) ∧
      I64 (value - sumValues outs) ∧ I64 (value - sumValues outs - feeForWeight rate t.weight) ∧
      v = value - sumValues outs - feeForWeight rate t.weight := by
  obtain ⟨w, t, hw, hl, hv, _⟩ := vau_ok h
  obtain ⟨h1, h2, h3, h4, h5, h6⟩ := vauLoop_shape hl
  have hwle := witnessSize_le hw
  have hcls := vauLoop_classified hl
  have hser := sum_serializeSize_le outs hcls
  have hn := hd.hcount
  have hb : baseAccountOutputSize = 43 := by decide
  have c1 : BaseTxSize = 8 := by decide
  have c2 : InputSize = 41 := by decide
  have c3 : witnessScaleFactor = 4 := by decide
  have c4 : WitnessHeaderSize = 2 := by decide
  simp only [Twe.addOutput, Twe.addWitnessInput] at h1 h2 h3 h4 h5 h6
  have hvi1 := varIntSize_le t.inputCount
  have hvi2 := varIntSize_le t.outputCount
  have hweight : t.weight ≤ 200000 := by
    simp only [Twe.weight, h1, h3, h4, h6, hb, c1, c2, c3, c4, if_true]
    omega
  have hwI : (t.weight : Int) ≤ 200000 := by omega
  have hw0 : (0 : Int) ≤ (t.weight : Int) := Int.natCast_nonneg _
  have hprod0 : 0 ≤ rate * (t.weight : Int) := Int.mul_nonneg hd.hrate.1 hw0
  have hprod : rate * (t.weight : Int) ≤ 1000000000 * 200000 :=
    Int.mul_le_mul hd.hrate.2 hwI hw0 (by omega)
  have hfee0 : 0 ≤ feeForWeight rate t.weight := by
    unfold feeForWeight; exact Int.tdiv_nonneg hprod0 (by omega)
  have hfee : feeForWeight rate t.weight ≤ rate * (t.weight : Int) := by
    unfold feeForWeight; exact Int.tdiv_le_self _ hprod0
  have hsum := sumValues_bound outs hd.houts
  have hlenI : (outs.length : Int) ≤ 1000 := by omega
  have hv1 := hd.hvalue
  refine ⟨w, t, hw, hl, fun k => prefix_sums_I64 outs k hd.houts hn, ?_, hwI, ?_, ?_, ?_, ?_, hv⟩ <;>
    (unfold I64; omega)

/-- **no overflow in `OutputWithFee.CloseOutputs`** inside the domain guard -/
theorem owf_no_overflow {s : Script} {r value : Int} {wt : Nat} {outs : List TxOut}
    (hv : 0 ≤ value ∧ value ≤ 2100000000000000) (hr : 0 ≤ r ∧ r ≤ 1000000000)
    (h : outputWithFeeCloseOutputs s r value wt = .ok outs) :
    ∃ w W : Nat, witnessSize wt = some w ∧ W = (8 + 1 + 41 + 1 + (9 + s.length)) * 4 + 2 + w ∧ W ≤ 200000 ∧
      I64 (r * (W : Int)) ∧ I64 (feeForWeight r W) ∧ I64 (value - feeForWeight r W) ∧
      outs = [⟨value - feeForWeight r W, s⟩] := by
  obtain ⟨w, hw, hl, ho⟩ := owf_close_ok h
  have hwle := witnessSize_le hw
  refine ⟨w, _, hw, rfl, by omega, ?_, ?_, ?_, ho⟩
  all_goals
    generalize hW : (8 + 1 + 41 + 1 + (9 + s.length)) * 4 + 2 + w = W
    have hWle : (W : Int) ≤ 200000 := by omega
    have hW0 : (0 : Int) ≤ (W : Int) := Int.natCast_nonneg _
    have hprod0 : 0 ≤ r * (W : Int) := Int.mul_nonneg hr.1 hW0
    have hprod : r * (W : Int) ≤ 1000000000 * 200000 := Int.mul_le_mul hr.2 hWle hW0 (by omega)
    have hfee0 : 0 ≤ feeForWeight r W := by unfold feeForWeight; exact Int.tdiv_nonneg hprod0 (by omega)
    have hfee : feeForWeight r W ≤ r * (W : Int) := by unfold feeForWeight; exact Int.tdiv_le_self _ hprod0
    unfold I64; omega

end Pool.C07
