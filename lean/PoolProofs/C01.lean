import PoolProofs.BatchLemmas
import PoolProofs.BatchSpec
import PoolProofs.BatchExamples
import PoolProofs.BatchPerm
import PoolProofs.BatchParse
/-!
# C01 — an accepted batch honours each order's price, size and counterparty terms

Headline theorems about the model of `ParseRPCBatch` + `manager.OrderMatchValidate` (`PoolModel/Batch.lean`).
They hold for both the code as found and the repaired code (`rules` arbitrary) and for every value of the external
functions (premium, scripts).
-/
set_option linter.unusedSimpArgs false
set_option linter.unusedVariables false
namespace Pool.C01
open Pool.Batch

/-- `verify` accepted ⇒ version equal, height window, every entry state-independently accepted -/
theorem verify_ok_parts {env : Env} {rules : Rules} {b : Batch} {best : UInt32} {st : Tallies}
    (h : verify env rules b best = .ok st) :
    b.version = env.version ∧ heightOk best b.heightHint = true ∧ ∀ nm ∈ b.matched, OrderAccept env b nm := by
  unfold verify at h
  split at h <;> try contradiction
  rename_i hv
  split at h <;> try contradiction
  rename_i hh
  split at h <;> try contradiction
  rename_i st0 h0
  refine ⟨by simpa using hv, by simpa using hh, ?_⟩
  exact (verifyOrders_ok _ _ _ (stOk_nil env) h0).1

/-- **C01.** Whenever `OrderMatchValidate` accepts a proposal, the proposal honours the terms of every one of
the trader's matched orders; a batch of another protocol version or more than three blocks away is never
accepted.  (`WireRanges`: matched units are uint32 values as on the wire.) -/
theorem C01_accept_honours_terms (env : Env) (rules : Rules) (b : Batch) (best : UInt32) (pending : Option String)
    (st : Tallies) (hw : WireRanges b)
    (h : (orderMatchValidate env rules b best pending).1 = .ok st) : HonoursTerms env b best := by
  unfold orderMatchValidate at h
  split at h <;> try (simp at h; done)
  rename_i st0 hv
  split at h <;> try (simp at h; done)
  rename_i hnf
  obtain ⟨hver, hh, hacc⟩ := verify_ok_parts hv
  refine ⟨hver, heightOk_sound _ _ hh, ?_⟩
  intro nm hnm
  obtain ⟨o, ho, _, _, hm, hoc⟩ := hacc nm hnm
  obtain ⟨o', ho', hperm⟩ := nodeFilter_ok _ hnf nm hnm
  rw [ho] at ho'; cases ho'
  obtain ⟨hlen, hunits⟩ := hw nm hnm
  have hsum : foldU 0 nm.2 = totalUnits nm.2 := by
    rw [foldU_eq nm.2 0 hunits (by omega)]; simp [totalUnits]
  obtain ⟨hcp, hover, hunder⟩ := orderChecks_ok hoc
  refine ⟨o, ho, ?_, hcp, by rw [← hsum]; exact hover, ?_⟩
  · intro t ht
    obtain ⟨⟨d, hd⟩, _⟩ := hm t ht
    obtain ⟨h1, h2, h3, h4, h5⟩ := validateMatchedOrder_ok hd
    exact ⟨h1, h4, h2.symm, h3, isNodeIDAValidMatch_spec (hperm t ht), h5⟩
  · intro hne
    rw [← hsum]
    exact hunder (by simpa [outboundMarket, Pool.Gen.Batch.btcOutboundLiquidity] using hne)

/-- non-vacuity: a two-order proposal (ask with deny list + sidecar bid with allow list, two markets) meets the
hypotheses of `C01_accept_honours_terms` -/
example : WireRanges exBatch ∧ isOk (orderMatchValidate exEnv Rules.fixed exBatch 101 none).1 = true := by
  refine ⟨?_, by decide⟩
  unfold WireRanges
  decide

/-- … and single deviations of it are rejected: own node key, deny-listed node, height hint 4 blocks away -/
example : isOk (orderMatchValidate { exEnv with ourNode := "THEM" } Rules.fixed exBatch 101 none).1 = false := by decide
example : isOk (orderMatchValidate exEnv Rules.fixed exBatch 105 none).1 = false := by decide

/-- the pending batch changes exactly when the proposal is accepted, and then to this batch -/
theorem C01_pending_set_iff_ok (env : Env) (rules : Rules) (b : Batch) (best : UInt32) (pending : Option String) :
    (orderMatchValidate env rules b best pending).2 =
      match (orderMatchValidate env rules b best pending).1 with
      | .ok _ => some b.id
      | .error _ => pending := by
  unfold orderMatchValidate
  split
  · rfl
  · split <;> rfl

/-- **Order independence.** Go iterates the `MatchedOrders` map in an unspecified order, once in `Verify` and once
in the manager's node-filter loop.  Whatever the two orders (`l`, `l2` permutations of the map's entries), the
accept/reject decision is the same – for the code as found and the repaired code alike. -/
theorem C01_accept_order_independent (env : Env) (rules : Rules) (b : Batch) (best : UInt32)
    (l l2 : List (Nonce × List Their)) (hl : l.Perm b.matched) (hl2 : l2.Perm b.matched) :
    acceptsWith env rules b best l l2 = acceptsWith env rules b best b.matched b.matched := by
  unfold acceptsWith
  rw [verifyWith_perm env rules b best hl]
  congr 1
  have h1 := nodeFilter_isOk_iff env l2
  have h2 := nodeFilter_isOk_iff env b.matched
  have : isOk (nodeFilter env l2) = true ↔ isOk (nodeFilter env b.matched) = true := by
    rw [h1, h2]
    constructor
    · intro h nm hnm; exact h nm (hl2.mem_iff.mpr hnm)
    · intro h nm hnm; exact h nm (hl2.mem_iff.mp hnm)
  cases ha : isOk (nodeFilter env l2) <;> cases hb : isOk (nodeFilter env b.matched) <;> simp_all

/-- `acceptsWith … b.matched b.matched` is the model's `orderMatchValidate` -/
theorem C01_acceptsWith_self (env : Env) (rules : Rules) (b : Batch) (best : UInt32) (pending : Option String) :
    acceptsWith env rules b best b.matched b.matched = isOk (orderMatchValidate env rules b best pending).1 := by
  unfold acceptsWith orderMatchValidate
  rw [← verify_eq_verifyWith]
  cases verify env rules b best with
  | error e => simp [isOk]
  | ok st => cases nodeFilter env b.matched <;> simp [isOk]

/-- **Bucket check.** For a batch that came out of `ParseRPCBatch` and was accepted, every order with at least one
match has a *published* clearing price for its duration (the `ClearingPrices` key exists – the price compared with
our rate in `HonoursTerms` is the auctioneer's, not Go's map default 0). -/
theorem C01_clearing_price_published (env : Env) (rules : Rules) (m : PrepareMsg) (b : Batch) (best : UInt32)
    (pending : Option String) (st : Tallies) (hp : parseRPCBatch m = .ok b) (hw : WireRanges b)
    (h : (orderMatchValidate env rules b best pending).1 = .ok st) :
    ∀ nm ∈ b.matched, nm.2 ≠ [] → ∃ o, findOrder nm.1 env.orders = some o ∧
      (b.clearing.lookup o.duration).isSome = true := by
  intro nm hnm hne
  obtain ⟨_, _, hall⟩ := C01_accept_honours_terms env rules b best pending st hw h
  obtain ⟨o, ho, hm, _⟩ := hall nm hnm
  refine ⟨o, ho, ?_⟩
  obtain ⟨t, ts, hts⟩ := List.exists_cons_of_ne_nil hne
  have ht : t ∈ nm.2 := by rw [hts]; exact List.mem_cons_self
  have hd := (hm t ht).2.1
  rw [← hd]
  exact parse_clearing_published m b hp nm hnm t ht

/-- the uint32 wrap-around of `hint-3` / `hint+3` can only reject: acceptance implies the integer window -/
theorem C01_height_window (best hint : UInt32) (h : heightOk best hint = true) :
    hint.toNat ≤ best.toNat + 3 ∧ best.toNat ≤ hint.toNat + 3 := heightOk_sound best hint h

/-- **Regenerated fact.** `ParseRPCServerAsk/Bid` take the counterparty order's lease duration from the message field
as it is – both as the argument of `ParseRPCServerOrder` and in the assignment to `kit.LeaseDuration` – whatever
the order version (the model's `parseTheir` copies `duration` unchanged, so the bucket check and the duration test of
`validateMatchedOrder` see what the auctioneer sent). -/
theorem C01_duration_taken_from_message :
    Pool.Gen.Batch.serverOrderDurationSources.all (· == "details.LeaseDurationBlocks") = true ∧
    Pool.Gen.Batch.serverOrderDurationSources.length = 3 := by decide

/-- **Regenerated fact.** Whatever SEC encoding a counterparty's node key / funding key arrives in (33-byte compressed,
65-byte uncompressed or hybrid), `ParseRPCServerOrder` stores the *re-serialised compressed* form of the parsed point
in `MatchedOrder.NodeKey` / `MultiSigKey` – never the raw wire bytes.  This is why the model's `parseTheir` works on
canonical keys (own-node test, allow/deny lists and funding scripts compare canonical 33-byte keys). -/
theorem C01_keys_stored_canonical :
    Pool.Gen.Batch.serverOrderKeyCopies.all (· == "SerializeCompressed") = true ∧
    2 ≤ Pool.Gen.Batch.serverOrderKeyCopies.length := by decide

end Pool.C01
