import PoolModel.Batch
namespace Pool.C01
theorem placeholder : True := trivial
end Pool.C01
