import PoolModel.Dec.Rpc
/-! Helper lemmas for C19 (rpc part): with nil-checked arguments no parser of the model reaches `panic`. -/
namespace Pool.Dec

theorem POut.bind_ne_panic {α β : Type} {x : POut α} {f : α → POut β} (hx : x ≠ .panic)
    (hf : ∀ a, f a ≠ .panic) : (x >>= f) ≠ .panic := by
  cases x with
  | ok a => exact hf a
  | err e => simp
  | panic => exact absurd rfl hx

theorem arg_ne_panic {α : Type} (cfg : RpcCfg) (h : cfg.nilChecks = true) (p : Option α) :
    arg cfg p ≠ .panic := by
  unfold arg; cases p <;> simp [h]

theorem parseNodeAddrs_ne_panic (a : List NodeAddress) (b : Bool) : parseNodeAddrs a b ≠ .panic := by
  unfold parseNodeAddrs; split
  · simp
  · split <;> simp

theorem parseRPCServerOrder_ne_panic (cfg : RpcCfg) (h : cfg.nilChecks = true) (d : Option ServerOrder)
    (isAsk : Bool) (l : Nat) : parseRPCServerOrder cfg d isAsk l ≠ .panic := by
  unfold parseRPCServerOrder
  refine POut.bind_ne_panic (arg_ne_panic cfg h d) (fun d => ?_)
  split
  · simp
  · refine POut.bind_ne_panic (parseNodeAddrs_ne_panic _ _) (fun _ => ?_)
    split
    · simp
    · split <;> simp

theorem parseRPCServerAsk_ne_panic (cfg : RpcCfg) (h : cfg.nilChecks = true) (d : Option ServerAsk) :
    parseRPCServerAsk cfg d ≠ .panic := by
  unfold parseRPCServerAsk
  refine POut.bind_ne_panic (arg_ne_panic cfg h d) (fun a => ?_)
  refine POut.bind_ne_panic (parseRPCServerOrder_ne_panic cfg h _ _ _) (fun _ => by simp)

theorem parseRPCServerBid_ne_panic (cfg : RpcCfg) (h : cfg.nilChecks = true) (d : Option ServerBid) :
    parseRPCServerBid cfg d ≠ .panic := by
  unfold parseRPCServerBid
  refine POut.bind_ne_panic (arg_ne_panic cfg h d) (fun a => ?_)
  exact parseRPCServerOrder_ne_panic cfg h _ _ _

theorem parseAsks_ne_panic (cfg : RpcCfg) (h : cfg.nilChecks = true) (l : List MatchedAsk) :
    parseAsks cfg l ≠ .panic := by
  induction l with
  | nil => simp [parseAsks]
  | cons a as ih =>
    unfold parseAsks
    refine POut.bind_ne_panic (parseRPCServerAsk_ne_panic cfg h _) (fun _ => ?_)
    refine POut.bind_ne_panic ih (fun _ => by simp)

theorem parseBids_ne_panic (cfg : RpcCfg) (h : cfg.nilChecks = true) (l : List MatchedBid) :
    parseBids cfg l ≠ .panic := by
  induction l with
  | nil => simp [parseBids]
  | cons a as ih =>
    unfold parseBids
    refine POut.bind_ne_panic (parseRPCServerBid_ne_panic cfg h _) (fun _ => ?_)
    refine POut.bind_ne_panic ih (fun _ => by simp)

theorem parseRPCMatchedOrders_ne_panic (cfg : RpcCfg) (h : cfg.nilChecks = true) (o : MatchedOrder) :
    parseRPCMatchedOrders cfg o ≠ .panic := by
  unfold parseRPCMatchedOrders
  split
  · simp
  · split
    · exact parseAsks_ne_panic cfg h _
    · split
      · exact parseBids_ne_panic cfg h _
      · simp

theorem parseOrders_ne_panic (cfg : RpcCfg) (h : cfg.nilChecks = true) (dur : Nat)
    (l : List (Bytes × MatchedOrder)) : parseOrders cfg dur l ≠ .panic := by
  induction l with
  | nil => simp [parseOrders]
  | cons a as ih =>
    obtain ⟨k, mo⟩ := a
    unfold parseOrders
    split
    · simp
    · refine POut.bind_ne_panic (parseRPCMatchedOrders_ne_panic cfg h _) (fun _ => ?_)
      split
      · exact ih
      · simp

theorem parseMarkets_ne_panic (cfg : RpcCfg) (h : cfg.nilChecks = true) (l : List (Nat × MatchedMarket)) :
    parseMarkets cfg l ≠ .panic := by
  induction l with
  | nil => simp [parseMarkets]
  | cons a as ih =>
    obtain ⟨d, m⟩ := a
    unfold parseMarkets
    refine POut.bind_ne_panic (parseOrders_ne_panic cfg h _ _) (fun _ => ih)

theorem parseDiffs_ne_panic (l : List AccountDiff) : parseDiffs l ≠ .panic := by
  induction l with
  | nil => simp [parseDiffs]
  | cons a as ih =>
    unfold parseDiffs
    split
    · simp
    · exact ih

theorem parseRPCBatch_ne_panic (cfg : RpcCfg) (h : cfg.nilChecks = true) (m : OrderMatchPrepare) :
    parseRPCBatch cfg m ≠ .panic := by
  unfold parseRPCBatch
  refine POut.bind_ne_panic (parseMarkets_ne_panic cfg h _) (fun _ => ?_)
  refine POut.bind_ne_panic (parseDiffs_ne_panic _) (fun _ => ?_)
  split
  · simp
  · split
    · simp
    · split <;> simp

theorem parseNonces_ne_panic (l : List (Bytes × Bytes)) : parseNonces l ≠ .panic := by
  induction l with
  | nil => simp [parseNonces]
  | cons a as ih =>
    obtain ⟨k, n⟩ := a
    unfold parseNonces
    split
    · simp
    · split
      · simp
      · split
        · simp
        · exact ih

end Pool.Dec

namespace Pool.Dec

/-! ### Go map iteration order does not matter for the outcome class

`ParseRPCBatch` ranges over two Go maps (markets, orders per market) and `ParseRPCSign` over one.  With
nil-checked parsers no entry can panic, so the result is `ok` exactly when EVERY entry is fine – a
statement about the set of entries, not their order. -/

theorem parseOrders_ok_iff (cfg : RpcCfg) (dur : Nat) (l : List (Bytes × MatchedOrder)) :
    parseOrders cfg dur l = .ok () ↔
      ∀ e ∈ l, hexOK e.1 = true ∧ ∃ durs, parseRPCMatchedOrders cfg e.2 = .ok durs ∧ durs.all (· == dur) = true := by
  induction l with
  | nil => simp [parseOrders]
  | cons a as ih =>
    obtain ⟨k, mo⟩ := a
    unfold parseOrders
    by_cases hk : hexOK k = true
    · simp only [hk, Bool.not_true, Bool.false_eq_true, if_false]
      cases hp : parseRPCMatchedOrders cfg mo with
      | ok durs =>
        simp only [POut.bind_ok]
        by_cases hd : durs.all (· == dur) = true
        · rw [if_pos hd, ih]
          constructor
          · intro h e he
            rcases List.mem_cons.1 he with he | he
            · subst he; exact ⟨hk, durs, hp, hd⟩
            · exact h e he
          · intro h e he; exact h e (List.mem_cons_of_mem _ he)
        · rw [if_neg hd]
          constructor
          · intro h; cases h
          · intro h
            obtain ⟨_, d', h1, h2⟩ := h (k, mo) (by simp)
            rw [hp] at h1; injection h1 with h1; subst h1; exact absurd h2 hd
      | err e =>
        simp only [POut.bind_err]
        constructor
        · intro h; cases h
        · intro h
          obtain ⟨_, d', h1, _⟩ := h (k, mo) (by simp)
          rw [hp] at h1; cases h1
      | panic =>
        simp only [POut.bind_panic]
        constructor
        · intro h; cases h
        · intro h
          obtain ⟨_, d', h1, _⟩ := h (k, mo) (by simp)
          rw [hp] at h1; cases h1
    · simp only [hk, Bool.not_false, if_true]
      constructor
      · intro h; cases h
      · intro h; exact absurd (h (k, mo) (by simp)).1 hk

theorem parseMarkets_ok_iff (cfg : RpcCfg) (l : List (Nat × MatchedMarket)) :
    parseMarkets cfg l = .ok () ↔ ∀ e ∈ l, parseOrders cfg e.1 e.2.matchedOrders = .ok () := by
  induction l with
  | nil => simp [parseMarkets]
  | cons a as ih =>
    obtain ⟨d, m⟩ := a
    unfold parseMarkets
    cases hp : parseOrders cfg d m.matchedOrders with
    | ok u =>
      cases u
      simp only [POut.bind_ok]
      rw [ih]
      constructor
      · intro h e he
        rcases List.mem_cons.1 he with he | he
        · subst he; exact hp
        · exact h e he
      · intro h e he; exact h e (List.mem_cons_of_mem _ he)
    | err e =>
      simp only [POut.bind_err]
      constructor
      · intro h; cases h
      · intro h; have := h (d, m) (by simp); rw [hp] at this; cases this
    | panic =>
      simp only [POut.bind_panic]
      constructor
      · intro h; cases h
      · intro h; have := h (d, m) (by simp); rw [hp] at this; cases this

theorem parseNonces_ok_iff (l : List (Bytes × Bytes)) :
    parseNonces l = .ok () ↔ ∀ e ∈ l, e.1.length = 66 ∧ e.2.length = 66 ∧ hexOK e.1 = true := by
  induction l with
  | nil => simp [parseNonces]
  | cons a as ih =>
    obtain ⟨k, n⟩ := a
    unfold parseNonces
    by_cases h1 : k.length = 66
    · by_cases h2 : n.length = 66
      · by_cases h3 : hexOK k = true
        · simp only [h1, h2, h3, ne_eq, not_true_eq_false, if_false, Bool.not_true, Bool.false_eq_true]
          rw [ih]
          constructor
          · intro h e he
            rcases List.mem_cons.1 he with he | he
            · subst he; exact ⟨h1, h2, h3⟩
            · exact h e he
          · intro h e he; exact h e (List.mem_cons_of_mem _ he)
        · simp only [h1, h2, h3, ne_eq, not_true_eq_false, if_false, Bool.not_false, if_true]
          constructor
          · intro h; cases h
          · intro h; exact absurd (h (k, n) (by simp)).2.2 h3
      · simp only [h1, h2, ne_eq, not_true_eq_false, if_false, not_false_eq_true, if_true]
        constructor
        · intro h; cases h
        · intro h; exact absurd (h (k, n) (by simp)).2.1 h2
    · simp only [h1, ne_eq, not_false_eq_true, if_true]
      constructor
      · intro h; cases h
      · intro h; exact absurd (h (k, n) (by simp)).1 h1

/-- outcome class of a never-panicking unit parser is decided by "is it ok" -/
theorem cls_eq_of_ok_iff {x y : POut Unit} (hx : x ≠ .panic) (hy : y ≠ .panic) (h : x = .ok () ↔ y = .ok ()) :
    x.cls = y.cls := by
  cases x with
  | ok u => cases u; rw [h.1 rfl]
  | panic => exact absurd rfl hx
  | err e =>
    cases y with
    | ok u => cases u; have := h.2 rfl; cases this
    | err e' => rfl
    | panic => exact absurd rfl hy

end Pool.Dec
