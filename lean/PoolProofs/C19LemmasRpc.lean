import PoolModel.Dec.Rpc
/-! Helper lemmas for C19 (rpc part): with nil-checked arguments no parser of the model reaches `panic`. -/
namespace Pool.Dec

theorem POut.bind_ne_panic {α β : Type} {x : POut α} {f : α → POut β} (hx : x ≠ .panic)
    (hf : ∀ a, f a ≠ .panic) : (x >>= f) ≠ .panic := by
  cases x with
  | ok a => exact hf a
  | err e => simp
  | panic => exact absurd rfl hx

theorem arg_ne_panic {α : Type} (cfg : RpcCfg) (h : cfg.nilChecks = true) (p : Option α) :
    arg cfg p ≠ .panic := by
  unfold arg; cases p <;> simp [h]

theorem parseNodeAddrs_ne_panic (a : List NodeAddress) (b : Bool) : parseNodeAddrs a b ≠ .panic := by
  unfold parseNodeAddrs; split
  · simp
  · split <;> simp

theorem parseRPCServerOrder_ne_panic (cfg : RpcCfg) (h : cfg.nilChecks = true) (d : Option ServerOrder)
    (isAsk : Bool) (l : Nat) : parseRPCServerOrder cfg d isAsk l ≠ .panic := by
  unfold parseRPCServerOrder
  refine POut.bind_ne_panic (arg_ne_panic cfg h d) (fun d => ?_)
  split
  · simp
  · refine POut.bind_ne_panic (parseNodeAddrs_ne_panic _ _) (fun _ => ?_)
    split
    · simp
    · split <;> simp

theorem parseRPCServerAsk_ne_panic (cfg : RpcCfg) (h : cfg.nilChecks = true) (d : Option ServerAsk) :
    parseRPCServerAsk cfg d ≠ .panic := by
  unfold parseRPCServerAsk
  refine POut.bind_ne_panic (arg_ne_panic cfg h d) (fun a => ?_)
  refine POut.bind_ne_panic (parseRPCServerOrder_ne_panic cfg h _ _ _) (fun _ => by simp)

theorem parseRPCServerBid_ne_panic (cfg : RpcCfg) (h : cfg.nilChecks = true) (d : Option ServerBid) :
    parseRPCServerBid cfg d ≠ .panic := by
  unfold parseRPCServerBid
  refine POut.bind_ne_panic (arg_ne_panic cfg h d) (fun a => ?_)
  exact parseRPCServerOrder_ne_panic cfg h _ _ _

theorem parseAsks_ne_panic (cfg : RpcCfg) (h : cfg.nilChecks = true) (l : List MatchedAsk) :
    parseAsks cfg l ≠ .panic := by
  induction l with
  | nil => simp [parseAsks]
  | cons a as ih =>
    unfold parseAsks
    refine POut.bind_ne_panic (parseRPCServerAsk_ne_panic cfg h _) (fun _ => ?_)
    refine POut.bind_ne_panic ih (fun _ => by simp)

theorem parseBids_ne_panic (cfg : RpcCfg) (h : cfg.nilChecks = true) (l : List MatchedBid) :
    parseBids cfg l ≠ .panic := by
  induction l with
  | nil => simp [parseBids]
  | cons a as ih =>
    unfold parseBids
    refine POut.bind_ne_panic (parseRPCServerBid_ne_panic cfg h _) (fun _ => ?_)
    refine POut.bind_ne_panic ih (fun _ => by simp)

theorem parseRPCMatchedOrders_ne_panic (cfg : RpcCfg) (h : cfg.nilChecks = true) (o : MatchedOrder) :
    parseRPCMatchedOrders cfg o ≠ .panic := by
  unfold parseRPCMatchedOrders
  split
  · simp
  · split
    · exact parseAsks_ne_panic cfg h _
    · split
      · exact parseBids_ne_panic cfg h _
      · simp

theorem parseOrders_ne_panic (cfg : RpcCfg) (h : cfg.nilChecks = true) (dur : Nat)
    (l : List (Bytes × MatchedOrder)) : parseOrders cfg dur l ≠ .panic := by
  induction l with
  | nil => simp [parseOrders]
  | cons a as ih =>
    obtain ⟨k, mo⟩ := a
    unfold parseOrders
    split
    · simp
    · refine POut.bind_ne_panic (parseRPCMatchedOrders_ne_panic cfg h _) (fun _ => ?_)
      split
      · exact ih
      · simp

theorem parseMarkets_ne_panic (cfg : RpcCfg) (h : cfg.nilChecks = true) (l : List (Nat × MatchedMarket)) :
    parseMarkets cfg l ≠ .panic := by
  induction l with
  | nil => simp [parseMarkets]
  | cons a as ih =>
    obtain ⟨d, m⟩ := a
    unfold parseMarkets
    refine POut.bind_ne_panic (parseOrders_ne_panic cfg h _ _) (fun _ => ih)

theorem parseDiffs_ne_panic (l : List AccountDiff) : parseDiffs l ≠ .panic := by
  induction l with
  | nil => simp [parseDiffs]
  | cons a as ih =>
    unfold parseDiffs
    split
    · simp
    · exact ih

theorem parseRPCBatch_ne_panic (cfg : RpcCfg) (h : cfg.nilChecks = true) (m : OrderMatchPrepare) :
    parseRPCBatch cfg m ≠ .panic := by
  unfold parseRPCBatch
  refine POut.bind_ne_panic (parseMarkets_ne_panic cfg h _) (fun _ => ?_)
  refine POut.bind_ne_panic (parseDiffs_ne_panic _) (fun _ => ?_)
  split
  · simp
  · split
    · simp
    · split <;> simp

theorem parseNonces_ne_panic (l : List (Bytes × Bytes)) : parseNonces l ≠ .panic := by
  induction l with
  | nil => simp [parseNonces]
  | cons a as ih =>
    obtain ⟨k, n⟩ := a
    unfold parseNonces
    split
    · simp
    · split
      · simp
      · split
        · simp
        · exact ih

end Pool.Dec
