import PoolProofs.C07LemmasClose
/-! Deposit lemmas: input totals, duplicate-freeness, the output fix-up under the FundPsbt assumption. -/
set_option linter.unusedSimpArgs false
set_option linter.unusedVariables false
namespace Pool.C07
open Pool.Gen.C07

/-- value the sanity check attributes to an input -/
def inVal (a : Account) (i : TxIn) : Int := if i.prev = a.outPoint then a.value else i.utxoValue

theorem sanityInputs_total {a : Account} {wt : Nat} {is : List TxIn} {tot tot' : Int} {w w' : Nat}
    (h : sanityInputs a wt is tot w = .ok (tot', w')) : tot' = tot + (is.map (inVal a)).sum := by
  induction is generalizing tot w with
  | nil => simp [sanityInputs] at h; simp [h.1]
  | cons i is ih =>
    simp only [sanityInputs] at h
    split at h
    · rename_i hp
      split at h
      · cases h
      · have := ih h
        simp [inVal, hp, this]; omega
    · rename_i hp
      split at h <;> first | cases h | (have := ih h; simp [inVal, hp, this]; omega)

theorem hasDup_false_nodup {l : List OutPoint} (h : hasDupInputs l = false) : l.Nodup := by
  induction l with
  | nil => exact List.nodup_nil
  | cons p ps ih =>
    simp only [hasDupInputs, Bool.or_eq_false_iff] at h
    refine List.nodup_cons.mpr ⟨?_, ih h.2⟩
    intro hm
    have : ps.contains p = true := by simpa using hm
    rw [this] at h
    exact absurd h.1 (by simp)

theorem inputsForDeposit_ok {so : ScriptOf} {a : Account} {newOut : TxOut} {deposit : Int} {wt : Nat} {rate : Int}
    {fd : Option Funded} {tx : Tx} (h : inputsForDeposit so a newOut deposit wt rate fd = .ok tx) :
    ∃ fee fdv outs, acctInputFee wt rate = .ok fee ∧ fd = some fdv ∧
      fixupOutputs fdv.changeIdx newOut.script (deposit + fee) newOut.value 0 fdv.outputs = .ok outs ∧
      tx = { inputs := sortBy inLt (fdv.inputs ++ [a.txIn so]), outputs := sortBy outLt outs, lockTime := 0 } := by
  unfold inputsForDeposit at h
  split at h
  · cases h
  · rename_i fee hfee
    split at h
    · cases h
    · rename_i fdv
      split at h
      · cases h
      · rename_i outs houts
        simp only [Except.ok.injEq] at h
        exact ⟨fee, fdv, outs, hfee, rfl, houts, h.symm⟩

/-- ASSUMPTION 1 on lnd's `FundPsbt` (a parameter of the model, trusted) – SHAPE: it returns the template output
unchanged, optionally with one change output before or after it (`changeIdx` pointing at it, −1 if none). -/
def FundShape (fd : Funded) (tplScript : Script) (tplValue : Int) (change : List TxOut) : Prop :=
  (fd.changeIdx = -1 ∧ change = [] ∧ fd.outputs = [⟨tplValue, tplScript⟩]) ∨
  (fd.changeIdx = 0 ∧ ∃ c, change = [c] ∧ fd.outputs = [c, ⟨tplValue, tplScript⟩]) ∨
  (fd.changeIdx = 1 ∧ ∃ c, change = [c] ∧ fd.outputs = [⟨tplValue, tplScript⟩, c])

/-- ASSUMPTION 2 on lnd's `FundPsbt` – SUM: the inputs it selected pay for exactly template + change + its own fee
`lndFee ≥ 0`. -/
def FundSum (fd : Funded) (tplValue : Int) (change : List TxOut) (lndFee : Int) : Prop :=
  (fd.inputs.map (·.utxoValue)).sum = tplValue + sumValues change + lndFee ∧ 0 ≤ lndFee

/-- both assumptions -/
def FundOk (fd : Funded) (tplScript : Script) (tplValue : Int) (change : List TxOut) (lndFee : Int) : Prop :=
  FundShape fd tplScript tplValue change ∧ FundSum fd tplValue change lndFee

/-- UNCONDITIONAL: whatever `FundPsbt` returned, a successful fix-up keeps the number of outputs and every resulting
output is either the account output at its new value or the output the change index designates, verbatim -/
theorem fixup_mem {ci : Int} {s : Script} {e nv : Int} {i : Nat} {os outs : List TxOut}
    (h : fixupOutputs ci s e nv i os = .ok outs) :
    outs.length = os.length ∧
    ∀ o' ∈ outs, o' = ⟨nv, s⟩ ∨ ∃ j, ci = ((i + j : Nat) : Int) ∧ os[j]? = some o' := by
  induction os generalizing i outs with
  | nil => simp [fixupOutputs] at h; subst h; simp
  | cons o os ih =>
    simp only [fixupOutputs] at h
    split at h
    · rename_i hc
      cases hr : fixupOutputs ci s e nv (i + 1) os with
      | error r => simp [hr, Except.map] at h
      | ok rest =>
        simp [hr, Except.map] at h; subst h
        obtain ⟨hl, hm⟩ := ih hr
        refine ⟨by simp [hl], ?_⟩
        intro o' ho'
        rcases List.mem_cons.mp ho' with rfl | ho'
        · exact Or.inr ⟨0, by simpa using hc.2, rfl⟩
        · rcases hm o' ho' with h1 | ⟨j, hj, hg⟩
          · exact Or.inl h1
          · exact Or.inr ⟨j + 1, by rw [hj]; congr 1; omega, by simpa using hg⟩
    · split at h
      · cases h
      · split at h
        · cases h
        · cases hr : fixupOutputs ci s e nv (i + 1) os with
          | error r => simp [hr, Except.map] at h
          | ok rest =>
            simp [hr, Except.map] at h; subst h
            obtain ⟨hl, hm⟩ := ih hr
            refine ⟨by simp [hl], ?_⟩
            intro o' ho'
            rcases List.mem_cons.mp ho' with h0 | ho'
            · rename_i hs _
              left; rw [h0]; congr 1
              exact Decidable.not_not.mp hs
            · rcases hm o' ho' with h1 | ⟨j, hj, hg⟩
              · exact Or.inl h1
              · exact Or.inr ⟨j + 1, by rw [hj]; congr 1; omega, by simpa using hg⟩

/-- under `FundShape` the fix-up yields the account output at its new value plus the change, nothing else -/
theorem fixup_fundOk {fd : Funded} {s : Script} {tplV nv : Int} {change : List TxOut} {lndFee : Int}
    {outs : List TxOut} (hshape : FundShape fd s tplV change)
    (h : fixupOutputs fd.changeIdx s tplV nv 0 fd.outputs = .ok outs) :
    outs.Perm (⟨nv, s⟩ :: change) := by
  rcases hshape with ⟨hc, hch, ho⟩ | ⟨hc, c, hch, ho⟩ | ⟨hc, c, hch, ho⟩
  · rw [hc, ho] at h; subst hch
    simp [fixupOutputs, Except.map] at h
    rw [← h]
  · rw [hc, ho] at h; subst hch
    simp [fixupOutputs, Except.map] at h
    rw [← h]; exact List.Perm.swap _ _ _
  · rw [hc, ho] at h; subst hch
    simp [fixupOutputs, Except.map] at h
    rw [← h]

end Pool.C07

namespace Pool.C07
open Pool.Gen.C07

theorem wallet_inVal {so : ScriptOf} {a : Account} {ins : List TxIn}
    (hnd : ((ins ++ [a.txIn so]).map (·.prev)).Nodup) :
    (ins.map (inVal a)).sum = (ins.map (·.utxoValue)).sum := by
  have hne : ∀ i ∈ ins, i.prev ≠ a.outPoint := by
    intro i hi hp
    rw [List.map_append, List.nodup_append] at hnd
    exact hnd.2.2 i.prev (List.mem_map.mpr ⟨i, hi, rfl⟩) a.outPoint (by simp [Account.txIn]) hp
  clear hnd
  induction ins with
  | nil => rfl
  | cons i is ih =>
    have h1 := hne i (List.mem_cons_self ..)
    have h2 := ih (fun j hj => hne j (List.mem_cons_of_mem _ hj))
    simp [inVal, h1, h2]

end Pool.C07
