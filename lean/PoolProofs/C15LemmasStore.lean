import PoolModel.Dec.Store
import PoolProofs.C15LemmasInst
/-! The sidecar store: a read returns the ticket last written under that key. -/
namespace Pool.Dec

theorem SBucket.get_put_same (b : SBucket) (k v : Bytes) : (b.put k v).get k = some v := by
  induction b with
  | nil => simp [SBucket.put, SBucket.get]
  | cons e rest ih =>
    obtain ⟨k', v'⟩ := e
    simp only [SBucket.put]
    split
    · simp [SBucket.get]
    · rename_i hne
      split
      · simp [SBucket.get]
      · simp only [SBucket.get]; rw [if_neg hne]; exact ih

theorem SBucket.get_put_other (b : SBucket) (k k2 v : Bytes) (h : k2 ≠ k) : (b.put k v).get k2 = b.get k2 := by
  induction b with
  | nil => simp [SBucket.put, SBucket.get]; intro h'; exact absurd h'.symm h
  | cons e rest ih =>
    obtain ⟨k', v'⟩ := e
    simp only [SBucket.put]
    split
    · rename_i heq; subst heq
      simp only [SBucket.get]
      rw [if_neg (fun h' => h h'.symm), if_neg (fun h' => h h'.symm)]
    · split
      · simp only [SBucket.get]; rw [if_neg (fun h' => h h'.symm)]
      · simp only [SBucket.get]
        split
        · rfl
        · exact ih

end Pool.Dec
