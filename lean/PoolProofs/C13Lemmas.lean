import PoolModel.C13
import PoolProofs.C06
/-! Helper lemmas for C13: uint64 fill arithmetic, what `batchStorer` hands to the store, events of a staging call. -/
set_option linter.unusedSimpArgs false
set_option linter.unusedVariables false
namespace Pool.C13
open Pool.C06 Pool.Gen.C06

/-! ### arithmetic -/

theorem sub64_lt (a b : Nat) : sub64 a b < two64 := by
  unfold sub64; exact Nat.mod_lt _ (by unfold two64; omega)

theorem sub64_add (a b : Nat) : (sub64 a b + b) % two64 = a % two64 := by
  unfold sub64 two64; omega

theorem remaining_lt {u : Nat} (us : List Nat) (h : u < two64) : remaining u us < two64 := by
  induction us generalizing u with
  | nil => exact h
  | cons x xs ih => exact ih (sub64_lt u x)

theorem remaining_add (u : Nat) (us : List Nat) : (remaining u us + us.sum) % two64 = u % two64 := by
  induction us generalizing u with
  | nil => simp [remaining]
  | cons x xs ih =>
    have h1 := ih (sub64 u x)
    have h2 := sub64_add u x
    have hr : remaining u (x :: xs) = remaining (sub64 u x) xs := rfl
    rw [hr, List.sum_cons]
    unfold two64 at *
    omega

/-- no wrap: the remainder is the exact difference -/
theorem remaining_exact {u : Nat} {us : List Nat} (hu : u < two64) (h : us.sum ≤ u) :
    remaining u us = u - us.sum := by
  have h1 := remaining_add u us
  have h2 := remaining_lt us hu
  unfold two64 at *
  omega

/-! ### the fill rule -/

/-- executed iff nothing fillable remains, partially filled otherwise -/
def fillState (o : Ord) (rem : Nat) : Nat :=
  if rem = 0 ∨ rem < o.minMatch then orderStateExecuted else orderStatePartiallyFilled

/-- the order after a batch matching `us` units of it -/
def filled (o : Ord) (us : List Nat) : Ord :=
  { o with state := fillState o (remaining o.unfilled us), unfilled := remaining o.unfilled us }

theorem applyOMods_fillMods (o : Ord) (us : List Nat) : applyOMods (fillMods o us) o = filled o us := by
  unfold fillMods filled fillState
  by_cases h0 : remaining o.unfilled us = 0
  · simp [h0, applyOMods, OMod.apply]
  · by_cases h1 : remaining o.unfilled us < o.minMatch
    · simp [h0, h1, applyOMods, OMod.apply]
    · simp [h0, h1, applyOMods, OMod.apply]

/-! ### what `batchStorer` hands to the store -/

theorem zip_map_fst_snd (l : List (α × β)) : (l.map (·.1)).zip (l.map (·.2)) = l := by
  induction l with
  | nil => rfl
  | cons p r ih => simp [ih]

theorem prepOrders_lastFor {main : List (Key × Ord)} {m : List (Key × List Nat)} {l : List (Key × List OMod)}
    (h : prepOrders main m = .ok l) (hn : (keys m).Nodup) (n : Key) :
    lastFor n l = (lookup n m).bind (fun us => (lookup n main).map (fun o => fillMods o us)) := by
  induction m generalizing l with
  | nil => simp [prepOrders] at h; subst h; rfl
  | cons p r ih =>
    obtain ⟨k, us⟩ := p
    simp only [keys, List.map_cons, List.nodup_cons] at hn
    simp only [prepOrders] at h
    cases hl : lookup k main with
    | none => simp [hl] at h
    | some o =>
      simp only [hl] at h
      cases hr : prepOrders main r with
      | error e => simp [hr] at h
      | ok l' =>
        simp only [hr] at h
        injection h with h; subst h
        have ih' := ih hr hn.2
        simp only [lastFor, lookup]
        by_cases hk : n = k
        · subst hk
          have hnone : lookup n r = none := lookup_none_of_not_mem hn.1
          rw [ih', hnone]
          simp [pick, hl]
        · simp only [hk, if_false]
          rw [ih']
          cases (lookup n r).bind (fun us => (lookup n main).map (fun o => fillMods o us)) <;> rfl

theorem prepOrders_keys {main : List (Key × Ord)} {m : List (Key × List Nat)} {l : List (Key × List OMod)}
    (h : prepOrders main m = .ok l) : l.map (·.1) = m.map (·.1) := by
  induction m generalizing l with
  | nil => simp [prepOrders] at h; subst h; rfl
  | cons p r ih =>
    obtain ⟨k, us⟩ := p
    simp only [prepOrders] at h
    cases hl : lookup k main with
    | none => simp [hl] at h
    | some o =>
      simp only [hl] at h
      cases hr : prepOrders main r with
      | error e => simp [hr] at h
      | ok l' =>
        simp only [hr] at h
        injection h with h; subst h
        simp [ih hr]

theorem prepOrders_lookup_main {main : List (Key × Ord)} {m : List (Key × List Nat)} {l : List (Key × List OMod)}
    (h : prepOrders main m = .ok l) {n : Key} {us : List Nat} (hm : lookup n m = some us) :
    ∃ o, lookup n main = some o ∧ (n, fillMods o us) ∈ l := by
  induction m generalizing l with
  | nil => simp [lookup] at hm
  | cons p r ih =>
    obtain ⟨k, us'⟩ := p
    simp only [prepOrders] at h
    cases hl : lookup k main with
    | none => simp [hl] at h
    | some o =>
      simp only [hl] at h
      cases hr : prepOrders main r with
      | error e => simp [hr] at h
      | ok l' =>
        simp only [hr] at h
        injection h with h; subst h
        by_cases hk : n = k
        · subst hk
          simp [lookup] at hm; subst hm
          exact ⟨o, hl, List.mem_cons_self⟩
        · simp [lookup, hk] at hm
          obtain ⟨o', h1, h2⟩ := ih hr hm
          exact ⟨o', h1, List.mem_cons_of_mem _ h2⟩

/-! ### events of a staging call -/

/-- the event `updateOrder` writes for entry `(n, mods)` -/
def evtOf (main : List (Key × Ord)) (p : Key × List OMod) : Key × Evt :=
  match lookup p.1 main with
  | some o => (p.1, .updated o.state (applyOMods p.2 o).state (sub64 (applyOMods p.2 o).units (applyOMods p.2 o).unfilled))
  | none => (p.1, .created)

theorem stageOrdersLoop_events {main : List (Key × Ord)} {l : List (Key × List OMod)}
    {st ev upd po ev' upd'} (h : stageOrdersLoop main l st ev upd = .ok (po, ev', upd')) :
    ev' = ev ++ l.map (evtOf main) := by
  induction l generalizing st ev upd with
  | nil => simp [stageOrdersLoop] at h; obtain ⟨_, h2, _⟩ := h; simp [h2]
  | cons p r ih =>
    obtain ⟨k, m⟩ := p
    simp only [stageOrdersLoop] at h
    cases hc : updateOrderCore main k m with
    | error e => simp [hc] at h
    | ok x =>
      obtain ⟨o', e⟩ := x
      simp only [hc] at h
      obtain ⟨o, ho, ho', he⟩ := updateOrderCore_ok hc
      rw [ih h]
      simp only [List.map_cons, List.append_assoc, List.singleton_append]
      congr 2
      simp only [evtOf, ho]
      rw [he, ho']

theorem stageOut_events {A : List (Key × Acct)} {O : List (Key × Ord)} {a : StageArgs} {o : StageOut}
    (h : stageOut A O a = .ok o) : o.es = (a.orders.zip a.orderMods).map (evtOf O) := by
  unfold stageOut at h
  split at h
  · cases h
  · split at h
    · cases h
    · cases ho : stageOrdersLoop O (a.orders.zip a.orderMods) [] [] [] with
      | error e => simp [ho] at h
      | ok x =>
        obtain ⟨po, es, uo⟩ := x
        simp only [ho] at h
        have := stageOrdersLoop_events ho
        cases ha : stageAcctsLoop A (a.accounts.zip a.acctMods) [] [] with
        | error e => simp [ha] at h
        | ok y =>
          obtain ⟨pa, ua⟩ := y
          simp only [ha] at h
          cases hs : newSnapshot a uo ua with
          | error e => simp [hs] at h
          | ok snap =>
            simp only [hs] at h
            injection h with h; subst h
            simpa using this

end Pool.C13
