import PoolModel.C07
namespace Pool.C07
theorem placeholder : True := trivial
end Pool.C07
