import PoolProofs.C07LemmasModify
import PoolProofs.C07LemmasClose
import PoolProofs.C07LemmasDeposit
import PoolProofs.C07LemmasOverflow

/-!
# C07 — deposits, withdrawals, renewals and closures conserve the account's funds

Headline theorems about the executable model `PoolModel/C07.lean` of `account/manager.go` /
`account/interfaces.go`.  For all accounts, requested outputs, fee rates, heights, versions, collaborator faults and
account-script functions `so`:

* `C07_withdraw_conserves`, `C07_renew_conserves`, `C07_deposit_conserves`, `C07_close_conserves`: what an accepted
  operation broadcasts and records (outpoint spent once, requested outputs verbatim, recorded value = value of the
  re-created output = old + deposited − withdrawn − fee, fee = rate·weight/1000, fee ≥ relay floor, no dust, value
  bounds, effect order `[auctioneerModify?] ++ [storeWrite, publish]`);
* `C07_refusals_no_effect`: every refusal other than an injected collaborator fault has an empty effect trace, and
  each refusal listed in the property is a refusal;
* `expiry_window`: an accepted expiry lies in `[best+144, best+52560]` as integers (`expiry_window_wrap_rule_false`:
  the `uint32` rule of the unrepaired code does not).

`W` below is always `fullWeight tx w`: 4 × the serialised size of the broadcast transaction without witnesses + 2 +
the estimated witness sizes – i.e. the estimator's weight is tied to the transaction really built.
-/
set_option linter.unusedSimpArgs false
set_option linter.unusedVariables false
namespace Pool.C07
open Pool.Gen.C07

/-! ## expiry window -/

/-- **expiry_window**: an expiry accepted by `validateAccountExpiry` is between one day and one year ahead of the
best height, as integers (no `uint32` wrap corner: the bounds are computed in 64 bits – regenerated fact
`expiryWindowWide`). -/
theorem expiry_window (expiry best : UInt32) (h : validateAccountExpiry expiry best = .ok ()) :
    best.toNat + 144 ≤ expiry.toNat ∧ expiry.toNat ≤ best.toNat + 52560 := by
  have hw : expiryWindowWide = true := by decide
  have h1 : minAccountExpiry = 144 := by decide
  have h2 : maxAccountExpiry = 52560 := by decide
  unfold validateAccountExpiry at h
  simp only [hw, if_true] at h
  split at h
  · cases h
  · split at h
    · cases h
    · omega

example : validateAccountExpiry 800144 800000 = .ok () := by
  simp [validateAccountExpiry, show expiryWindowWide = true from by decide, minAccountExpiry, maxAccountExpiry]

/-- the window check as written before the repair: `uint32` sums that wrap -/
def validateAccountExpiryWrap (expiry best : UInt32) : Bool :=
  !(expiry < best + UInt32.ofNat minAccountExpiry) && !(expiry > best + UInt32.ofNat maxAccountExpiry)

/-- the full window statement for the unrepaired `uint32` rule -/
def expiry_window_wrap_statement : Prop :=
  ∀ expiry best : UInt32, validateAccountExpiryWrap expiry best = true →
    best.toNat + 144 ≤ expiry.toNat ∧ expiry.toNat ≤ best.toNat + 52560

/-- … is false: best = 2^32 − 100, expiry = 100 (corpus/C07/defect-expiry-wrap.json replays it on the Go code) -/
theorem expiry_window_wrap_rule_false : ¬ expiry_window_wrap_statement := by
  intro h
  have := h 100 4294967196 (by decide)
  simp at this

/-- the wrap corner needs a best height within a year of 2^32; below it both rules agree -/
theorem expiry_window_wrap_partial (expiry best : UInt32) (hb : best.toNat + 52560 < 4294967296)
    (h : validateAccountExpiryWrap expiry best = true) :
    best.toNat + 144 ≤ expiry.toNat ∧ expiry.toNat ≤ best.toNat + 52560 := by
  have h1 : minAccountExpiry = 144 := by decide
  have h2 : maxAccountExpiry = 52560 := by decide
  simp only [validateAccountExpiryWrap, h1, h2, Bool.and_eq_true, Bool.not_eq_true', decide_eq_false_iff_not,
    UInt32.not_lt] at h
  have e1 : (best + UInt32.ofNat 144).toNat = best.toNat + 144 := by
    simp [UInt32.toNat_add]; omega
  have e2 : (best + UInt32.ofNat 52560).toNat = best.toNat + 52560 := by
    simp [UInt32.toNat_add]; omega
  obtain ⟨ha, hb'⟩ := h
  rw [UInt32.le_iff_toNat_le] at ha hb'
  omega

example : (4294000000 : UInt32).toNat + 52560 < 4294967296 ∧ validateAccountExpiryWrap 4294000200 4294000000 = true := by
  decide


/-! ## withdrawals and renewals -/

/-- **C07_withdraw_conserves**: an accepted withdrawal satisfies `ModifySpec` (see its definition: the account
outpoint is the only input; outputs = re-created account output + requested outputs verbatim; recorded value =
value of the re-created output = old − withdrawn − fee with fee = rate·W/1000 ≥ 253·W/1000, W the full weight of
the broadcast transaction; ≥ MinAccountValue; no dust; version not lowered; effects = [auctioneerModify?,
storeWrite, publish]); the account was open and a requested expiry lies in the window. -/
theorem C07_withdraw_conserves (so : ScriptOf) (hso : ScriptLen34 so) (a : Account) (outputs : List TxOut)
    (rate : Int) (best eh : UInt32) (nv : Nat) (f : Faults)
    (h : (withdraw so a outputs rate best eh nv f).refusal = none) :
    a.state = StateOpen ∧ a.version ≤ nv ∧
    (eh ≠ 0 → best.toNat + 144 ≤ eh.toNat ∧ eh.toNat ≤ best.toNat + 52560) ∧
    ModifySpec so a outputs rate (determineWitnessType a best) (if eh ≠ 0 then some eh else none) nv
      (withdraw so a outputs rate best eh nv f) := by
  obtain ⟨hs, hv, ne, v, hne, hvau, hfresh, heq⟩ := withdraw_inv h
  rw [heq] at h ⊢
  have hspec := modify_spec hso (by decide : Action.withdraw ≠ .close) hfresh hvau h
  rcases optExpiry_ok hne with ⟨h0, hn⟩ | ⟨h0, hn, hval⟩
  · subst hn
    refine ⟨hs, hv, fun hx => absurd h0 hx, ?_⟩
    simpa [h0] using hspec
  · subst hn
    refine ⟨hs, hv, fun _ => expiry_window _ _ hval, ?_⟩
    simpa [h0] using hspec

/-- **C07_renew_conserves**: an accepted renewal satisfies `ModifySpec` with no requested outputs (new value = old −
fee), always on the cooperative path, and records the new expiry, which lies in the window. -/
theorem C07_renew_conserves (so : ScriptOf) (hso : ScriptLen34 so) (a : Account) (newExpiry : UInt32)
    (rate : Int) (best : UInt32) (nv : Nat) (f : Faults)
    (h : (renew so a newExpiry rate best nv f).refusal = none) :
    (a.state = StateOpen ∨ a.state = StateExpired) ∧ a.version ≤ nv ∧
    (best.toNat + 144 ≤ newExpiry.toNat ∧ newExpiry.toNat ≤ best.toNat + 52560) ∧
    ModifySpec so a [] rate (if a.version ≥ VersionTaprootEnabled then wt_muSig2Taproot else wt_multiSigWitness)
      (some newExpiry) nv (renew so a newExpiry rate best nv f) := by
  obtain ⟨hs, hv, hexp, v, hvau, heq⟩ := renew_inv h
  rw [heq] at h ⊢
  exact ⟨hs, hv, expiry_window _ _ hexp, modify_spec hso (by decide : Action.renew ≠ .close) (by simp) hvau h⟩

/-! ## closures -/

/-- **C07_close_conserves**: an accepted closure spends the account outpoint as its only input, pays exactly the
closing outputs of the fee expression (verbatim), records value 0 / pending-closed with the outpoint unchanged, and
everything but the fee is paid out: `fee = old − Σ outputs ≥ 253·W/1000`, no output dust or negative.  For a
single output with a fee rate (`OutputWithFee`, script given or wallet-derived), for EVERY script type
`ParsePkScript` accepts, the output is `old − rate·W/1000` with `W` the full weight of the broadcast transaction.
On the expiry path (account marked expired, or best height ≥ expiry) the auctioneer is not contacted and the lock time
is the best height; otherwise exactly one auctioneer request precedes the store write and the lock time is 0. -/
theorem C07_close_conserves (so : ScriptOf) (a : Account) (fe : FeeExpr) (ws : Bool → Script) (best : UInt32)
    (f : Faults) (h : (close so a fe ws best f).refusal = none) :
    ∃ (outs : List TxOut) (tx : Tx) (acct' : Account) (w : Nat) (pre : List Effect),
      (a.state = StateOpen ∨ a.state = StateExpired) ∧
      fe.closeOutputs ws a.value (determineWitnessType a best) = .ok outs ∧
      (close so a fe ws best f).tx = some tx ∧ (close so a fe ws best f).account = some acct' ∧
      (close so a fe ws best f).trace = pre ++ [.storeWrite acct', .publish tx] ∧
      -- expiry path (account marked expired or best height ≥ expiry): the auctioneer is NOT contacted and the lock
      -- time is the best height; cooperative path otherwise: exactly one auctioneer request, lock time 0
      ((a.state = StateExpired ∨ a.expiry.toNat ≤ best.toNat) → pre = [] ∧ tx.lockTime = best.toNat) ∧
      (¬ (a.state = StateExpired ∨ a.expiry.toNat ≤ best.toNat) → pre.length = 1 ∧ tx.lockTime = 0) ∧
      (∀ e ∈ pre, e.isModify = true) ∧
      tx.inputs.map (·.prev) = [a.outPoint] ∧ tx.outputs.Perm outs ∧
      acct'.value = 0 ∧ acct'.state = StatePendingClosed ∧ acct'.outPoint = a.outPoint ∧
      witnessSize (determineWitnessType a best) = some w ∧
      feeForWeight FeePerKwFloor (fullWeight tx w) ≤ a.value - sumValues outs ∧
      (∀ o ∈ outs, isDustOutput o = false ∧ 0 ≤ o.value) ∧
      (∀ s r, fe = .outputWithFee s r →
        outs = [⟨a.value - feeForWeight r (fullWeight tx w), s.getD (ws (wtIsTaproot (determineWitnessType a best)))⟩]) ∧
      (∀ os, fe = .implicit os → outs = os) := by
  obtain ⟨hs, outs, ho, heq⟩ := close_inv h
  rw [heq] at h ⊢
  obtain ⟨mods', lock, pre, hloc, hlock, hsan, htx, hacct, htrace, hpre1, hpre2⟩ := spendAccount_ok h
  have hm : mods' = [.value 0, .state StatePendingClosed] := by
    rcases hloc with ⟨hne, _⟩ | ⟨_, hm⟩
    · exact absurd rfl hne
    · exact hm
  subst hm
  obtain ⟨_, _, hrange, _, hdust, inT, w, hin, hle, hfloor⟩ := sanityCheck_ok hsan
  have hin' : sanityInputs a (determineWitnessType a best) [a.txIn so] 0 0 = .ok (inT, w) := hin
  obtain ⟨hinT, hw⟩ := sanityInputs_single hin'
  subst hinT
  have hperm : (sortBy outLt outs).Perm outs := sortBy_perm _ _
  have hsum : sumValues (sortBy outLt outs) = sumValues outs := sumValues_perm hperm
  obtain ⟨hexpiff, hcoopiff⟩ := determineWitnessType_expiry a best
  have hpathE : (a.state = StateExpired ∨ a.expiry.toNat ≤ best.toNat) → pre = [] ∧ lock = best.toNat := by
    intro hx
    have hwt := hexpiff.mpr hx
    have hnc : ¬ (determineWitnessType a best = wt_multiSigWitness ∨ determineWitnessType a best = wt_muSig2Taproot) :=
      fun hc => (hcoopiff.mp hc) hx
    simp only [hnc, if_false] at hpre1
    refine ⟨List.eq_nil_of_length_eq_zero hpre1, ?_⟩
    rcases hlock with ⟨_, _, hl⟩ | ⟨hc, _⟩
    · exact hl
    · exact absurd hc hnc
  have hpathC : ¬ (a.state = StateExpired ∨ a.expiry.toNat ≤ best.toNat) → pre.length = 1 ∧ lock = 0 := by
    intro hx
    have hc := hcoopiff.mpr hx
    simp only [hc, if_true] at hpre1
    refine ⟨hpre1, ?_⟩
    rcases hlock with ⟨he, _, _⟩ | ⟨_, hl⟩
    · exact absurd (hexpiff.mp he) hx
    · exact hl
  refine ⟨outs, _, _, w, pre, hs, ho, htx, hacct, htrace, hpathE, hpathC, hpre2, ?_, hperm, ?_, ?_, ?_, hw, ?_, ?_, ?_,
    ?_⟩
  · simp [createSpendTx, Account.txIn]
  · simp [applyMods, Modifier.apply]
  · simp [applyMods, Modifier.apply]
  · simp [applyMods, Modifier.apply]
  · have hf : feeForWeight FeePerKwFloor (fullWeight { createSpendTx so a outs with lockTime := lock } w)
        ≤ a.value - sumValues (sortBy outLt outs) := hfloor
    rw [hsum] at hf
    exact hf
  · intro o hmem
    have hm : o ∈ sortBy outLt outs := hperm.mem_iff.mpr hmem
    exact ⟨hdust o hm, (hrange o hm).1⟩
  · intro s r hfe
    subst hfe
    simp only [FeeExpr.closeOutputs] at ho
    obtain ⟨w', hw', hl, houts⟩ := owf_close_ok ho
    have : w' = w := by rw [hw] at hw'; exact (Option.some.inj hw').symm
    subst this
    subst houts
    rw [fullWeight_single_out _ hl]
  · intro os hfe
    subst hfe
    simp only [FeeExpr.closeOutputs, Except.ok.injEq] at ho
    exact ho.symm

/-! ## deposits -/

/-- **C07_deposit_conserves**: an accepted deposit spends the wallet's inputs plus the account input, all outpoints
distinct (so the account outpoint exactly once); records `MinAccountValue ≤ old + amount ≤ max`, version not lowered; the recorded
outpoint designates an output with the new account script; no dust; total fee `Σ inputs − Σ outputs ≥ 253·W/1000`
where `Σ inputs = old + Σ wallet inputs`; every output is the re-created account output or the output lnd's change
index designates, verbatim – all of this UNCONDITIONALLY, whatever `FundPsbt` returned.  Only two sub-claims need
assumptions on lnd: `FundShape` (template output unchanged + optional change) gives "outputs = account output +
change, nothing else"; `FundShape` + `FundSum` (inputs = template + change + lndFee) give "total fee =
`rate·(weight of the account input)/1000 + lndFee`" and `new = old + (Σ wallet inputs − change) − fee`. -/
theorem C07_deposit_conserves (so : ScriptOf) (a : Account) (amount rate : Int) (best eh : UInt32) (nv : Nat)
    (maxValue : Option Int) (fd : Option Funded) (f : Faults)
    (h : (deposit so a amount rate best eh nv maxValue fd f).refusal = none) :
    ∃ (maxV : Int) (fdv : Funded) (fee : Int) (tx : Tx) (acct' : Account) (idx : Nat) (pre : List Effect)
      (inT : Int) (w : Nat),
      maxValue = some maxV ∧ fd = some fdv ∧ acctInputFee (determineWitnessType a best) rate = .ok fee ∧
      a.state = StateOpen ∧ a.version ≤ nv ∧
      (eh ≠ 0 → best.toNat + 144 ≤ eh.toNat ∧ eh.toNat ≤ best.toNat + 52560) ∧
      (deposit so a amount rate best eh nv maxValue fd f).tx = some tx ∧
      (deposit so a amount rate best eh nv maxValue fd f).account = some acct' ∧
      (deposit so a amount rate best eh nv maxValue fd f).trace = pre ++ [.storeWrite acct', .publish tx] ∧
      pre.length = 1 ∧ (∀ e ∈ pre, e.isModify = true) ∧
      tx.inputs.Perm (fdv.inputs ++ [a.txIn so]) ∧ (tx.inputs.map (·.prev)).Nodup ∧
      acct'.value = a.value + amount ∧ acct'.value ≤ maxV ∧ (MinAccountValue : Int) ≤ acct'.value ∧
      acct'.version = max a.version nv ∧
      acct'.state = StatePendingUpdate ∧ acct'.batchCtr = a.batchCtr + 1 ∧
      acct'.outPoint = ⟨selfHash, idx⟩ ∧ (∃ o, tx.outputs[idx]? = some o ∧ o.script = (acct'.output so).script) ∧
      (∀ o ∈ tx.outputs, isDustOutput o = false ∧ 0 ≤ o.value) ∧
      inT = a.value + (fdv.inputs.map (·.utxoValue)).sum ∧
      feeForWeight FeePerKwFloor (fullWeight tx w) ≤ inT - sumValues tx.outputs ∧
      -- UNCONDITIONAL (whatever FundPsbt returned): same number of outputs as the funded packet; every output is the
      -- re-created account output or the output designated by lnd's change index, verbatim
      tx.outputs.length = fdv.outputs.length ∧
      (∀ o ∈ tx.outputs, o = acct'.output so ∨
        ∃ j : Nat, fdv.changeIdx = (j : Int) ∧ fdv.outputs[j]? = some o) ∧
      -- needs only FundShape: the outputs are exactly the re-created account output and the change
      (∀ change, FundShape fdv (acct'.output so).script (amount + fee) change →
        tx.outputs.Perm (acct'.output so :: change) ∧
        -- needs FundShape and FundSum: the fee split and the conservation equation
        ∀ lndFee, FundSum fdv (amount + fee) change lndFee →
          inT - sumValues tx.outputs = fee + lndFee ∧
          acct'.value = a.value + ((fdv.inputs.map (·.utxoValue)).sum - sumValues change) - (fee + lndFee)) := by
  obtain ⟨hs, hv, maxV, ne, tx0, hmax, hle, hge, hne, htx0, heq⟩ := deposit_inv h
  rw [heq] at h ⊢
  obtain ⟨mods', lock, pre, hloc, hlock, hsan, htx, hacct, htrace, hpre1, hpre2⟩ := spendAccount_ok h
  obtain ⟨hnew, hval, hctr, hexp, hver, hst, hop⟩ := cnao_fields so a (a.value + amount) ne nv
  have hloc' : ∃ idx, locateScript ((applyMods a ((createNewAccountOutput so a (a.value + amount) ne nv).2
      ++ [.state StatePendingUpdate])).output so).script tx0.outputs = some idx ∧
      mods' = (createNewAccountOutput so a (a.value + amount) ne nv).2 ++ [.state StatePendingUpdate]
        ++ [.outPoint idx] := by
    rcases hloc with ⟨_, idx, hl, hm⟩ | ⟨hc, _⟩
    · exact ⟨idx, hl, hm⟩
    · exact absurd hc (by decide)
  obtain ⟨idx, hl, hm⟩ := hloc'
  have hlock0 : lock = 0 ∧ (determineWitnessType a best = wt_multiSigWitness ∨
      determineWitnessType a best = wt_muSig2Taproot) := by
    rcases hlock with ⟨_, hc, _⟩ | ⟨hw, h0⟩
    · exact absurd hc (by decide)
    · exact ⟨h0, hw⟩
  obtain ⟨hlock0, hcoop⟩ := hlock0
  simp only [hcoop, if_true] at hpre1
  subst hlock0 hm
  obtain ⟨fee, fdv, outs, hfee, hfd, hfix, htxeq⟩ := inputsForDeposit_ok htx0
  obtain ⟨_, _, hrange, hnodup, hdust, inT, w, hin, _, hfloor⟩ := sanityCheck_ok hsan
  generalize hnewdef : (createNewAccountOutput so a (a.value + amount) ne nv).1 = newOut at *
  generalize hmsdef : (createNewAccountOutput so a (a.value + amount) ne nv).2 = ms at *
  rw [output_state_irrelevant, ← hnew] at hl
  have hstored := stored_fields a ms StatePendingUpdate idx best
  rw [hstored] at hacct htrace
  have htx0l : ({ tx0 with lockTime := 0 } : Tx) = tx0 := by rw [htxeq]
  rw [htx0l] at hsan htx htrace hfloor
  have hpin : tx0.inputs.Perm (fdv.inputs ++ [a.txIn so]) := by rw [htxeq]; exact sortBy_perm _ _
  have hnd : (tx0.inputs.map (·.prev)).Nodup := hasDup_false_nodup hnodup
  have hnd' : ((fdv.inputs ++ [a.txIn so]).map (·.prev)).Nodup := (hpin.map _).nodup_iff.mp hnd
  have hinT : inT = a.value + (fdv.inputs.map (·.utxoValue)).sum := by
    have h1 := sanityInputs_total hin
    have h2 : (tx0.inputs.map (inVal a)).sum = ((fdv.inputs ++ [a.txIn so]).map (inVal a)).sum :=
      sum_map_perm _ hpin
    rw [h1, h2, List.map_append, List.sum_append, wallet_inVal hnd']
    simp [inVal, Account.txIn]; omega
  have hpout : tx0.outputs.Perm outs := by rw [htxeq]; exact sortBy_perm _ _
  have hnewout : newOut = Account.output so
      { applyMods a ms with state := StatePendingUpdate, outPoint := ⟨selfHash, idx⟩, heightHint := best } := by
    rw [hnew]; simp [Account.output]
  refine ⟨maxV, fdv, fee, tx0, _, idx, pre, inT, w, hmax, hfd, hfee, hs, hv, optExpiry_window hne expiry_window, htx,
    hacct, htrace, hpre1, hpre2, hpin, hnd, hval, ?_, ?_, hver, rfl, hctr, rfl, ?_, ?_, hinT, hfloor, ?_, ?_, ?_⟩
  · show (applyMods a ms).value ≤ maxV
    rw [hval]; exact hle
  · show (MinAccountValue : Int) ≤ (applyMods a ms).value
    rw [hval]; exact hge
  · rw [← hnewout]; exact locateScript_some hl
  · intro o ho; exact ⟨hdust o ho, (hrange o ho).1⟩
  · rw [hpout.length_eq]; exact (fixup_mem hfix).1
  · intro o ho
    rw [← hnewout]
    have hmem : o ∈ outs := hpout.mem_iff.mp ho
    rcases (fixup_mem hfix).2 o hmem with h1 | ⟨j, hj, hg⟩
    · exact Or.inl h1
    · exact Or.inr ⟨j, by simpa using hj, hg⟩
  · intro change hshape
    rw [← hnewout] at hshape ⊢
    have hnv : newOut.value = a.value + amount := by rw [hnew]; exact hval
    have hp := fixup_fundOk (lndFee := 0) hshape hfix
    have hp2 : tx0.outputs.Perm (newOut :: change) := by
      have : (⟨newOut.value, newOut.script⟩ : TxOut) = newOut := rfl
      rw [this] at hp
      exact hpout.trans hp
    have hsum : sumValues tx0.outputs = newOut.value + sumValues change := by
      rw [sumValues_perm hp2]; simp
    refine ⟨hp2, ?_⟩
    intro lndFee hfs
    obtain ⟨hfunds, _⟩ := hfs
    refine ⟨?_, ?_⟩
    · rw [hinT, hsum, hnv, hfunds]; omega
    · show (applyMods a ms).value = _
      rw [hval, hfunds]; omega

/-- **C07_deposit_locks**: the wallet inputs leased by `FundPsbt` are kept exactly by an accepted deposit (they are
spent by the broadcast transaction); every refused deposit – whatever the reason, including collaborator faults after
funding – leaves no lease behind: either `FundPsbt` was never reached / failed, or every lease is released. -/
theorem C07_deposit_locks (so : ScriptOf) (a : Account) (amount rate : Int) (best eh : UInt32) (nv : Nat)
    (maxValue : Option Int) (fd : Option Funded) (f : Faults) :
    ((deposit so a amount rate best eh nv maxValue fd f).refusal = none →
      ∃ fdv, fd = some fdv ∧ depositLocks so a amount rate best eh nv maxValue fd f
        = (if fdv.inputs.isEmpty then Locks.none else Locks.held fdv.inputs.length)) ∧
    (∀ r, (deposit so a amount rate best eh nv maxValue fd f).refusal = some r →
      depositLocks so a amount rate best eh nv maxValue fd f = Locks.none ∨
      ∃ n, depositLocks so a amount rate best eh nv maxValue fd f = Locks.released n) := by
  constructor
  · intro h
    obtain ⟨hs, hv, maxV, ne, tx, hmax, hle, hge, hne, htx, _⟩ := deposit_inv h
    obtain ⟨fee, fdv, _, hfee, hfd, _, _⟩ := inputsForDeposit_ok htx
    refine ⟨fdv, hfd, ?_⟩
    have hreach : depositReachesFunding a amount rate best eh nv maxValue fd = some fdv := by
      unfold depositReachesFunding
      have h1 : ¬ (nv < a.version) := by omega
      have h2 : ¬ (depositChecksMin = true ∧ a.value + amount < (MinAccountValue : Int)) := fun hx => by omega
      have h3 : ¬ (a.value + amount > maxV) := by omega
      simp [hs, h1, hmax, h2, h3, hne, hfee, hfd]
    unfold depositLocks
    rw [hreach]
    simp [h]
  · intro r hr
    unfold depositLocks
    split
    · exact Or.inl rfl
    · split
      · exact Or.inl rfl
      · rw [hr]; simp

/-- **C07_terms_in_force**: a deposit is judged against the auctioneer terms handed to THIS call: whenever it leaves
any effect, `old + amount ≤ maxV` for the `maxValue = some maxV` of the call (and it is refused without effect when the
terms cannot be fetched).  Tied to the source: `DepositAccount` queries `Auctioneer.Terms` on every call and the
manager has no field that could hold earlier terms (regenerated facts `depositQueriesTerms`, `managerTermsFields`), so
the `maxValue` of the model is the maximum in force when the operation runs (the correspondence run changes the terms
between operations on one long-lived manager). -/
theorem C07_terms_in_force (so : ScriptOf) (a : Account) (amount rate : Int) (best eh : UInt32) (nv : Nat)
    (maxValue : Option Int) (fd : Option Funded) (f : Faults) :
    ((deposit so a amount rate best eh nv maxValue fd f).trace ≠ [] →
      ∃ maxV, maxValue = some maxV ∧ a.value + amount ≤ maxV) ∧
    (maxValue = none → (deposit so a amount rate best eh nv maxValue fd f).trace = []) ∧
    depositQueriesTerms = true ∧ managerTermsFields = [] := by
  refine ⟨?_, ?_, by decide, by decide⟩
  · intro h
    obtain ⟨_, _, maxV, _, _, hmax, hle, _⟩ := deposit_trace_inv h
    exact ⟨maxV, hmax, hle⟩
  · intro hn
    subst hn
    unfold deposit
    split
    · rfl
    · split
      · rfl
      · rfl

/-! ## spend path and versions -/

/-- **C07_spend_path**: which path a spend takes, as a function of the account and the best height, tied to the
source: the expiry witness is chosen iff the account is marked expired or `expiry ≤ best` (model), the Go function
`determineWitnessType` has exactly that condition and `spendAccount` assigns lock time `bestHeight` to the expiry
witnesses and `0` to the cooperative ones (regenerated facts `expiredConds`, `lockTimeSwitch`, `expirySpendTypes`,
normalised: parameters named by type, locals inlined, comparisons canonicalised, if-chains ≡ switches). -/
theorem C07_spend_path (a : Account) (best : UInt32) :
    (((determineWitnessType a best = wt_expiryWitness ∨ determineWitnessType a best = wt_expiryTaproot) ↔
      (a.state = StateExpired ∨ a.expiry.toNat ≤ best.toNat)) ∧
     ((determineWitnessType a best = wt_multiSigWitness ∨ determineWitnessType a best = wt_muSig2Taproot) ↔
      ¬ (a.state = StateExpired ∨ a.expiry.toNat ≤ best.toNat))) ∧
    expiredConds = ["($account.Expiry <= $u32) || ($account.State == StateExpired)"] ∧
    lockTimeSwitch = [(wt_expiryWitness, "best"), (wt_multiSigWitness, "zero"), (wt_expiryTaproot, "best"),
      (wt_muSig2Taproot, "zero")] ∧
    expirySpendTypes = [wt_expiryWitness, wt_expiryTaproot] :=
  ⟨determineWitnessType_expiry a best, by decide, by decide, by decide⟩

/-- **C07_versions_preserved**: the recorded version is `max old requested`; so a known version (≤ 2, what the RPC
layer's `determineAccountVersion` passes) on a known account stays known and is never lowered.  (The manager itself
does not reject unknown versions > 2 – that validation lives in the RPC layer.) -/
theorem C07_versions_preserved (so : ScriptOf) (a : Account) (v : Int) (ne : Option UInt32) (nv : Nat)
    (ha : a.version ≤ VersionMuSig2V100RC2) (hn : nv ≤ VersionMuSig2V100RC2) :
    (applyMods a (createNewAccountOutput so a v ne nv).2).version ≤ VersionMuSig2V100RC2 ∧
    a.version ≤ (applyMods a (createNewAccountOutput so a v ne nv).2).version := by
  obtain ⟨_, _, _, _, hver, _, _⟩ := cnao_fields so a v ne nv
  rw [hver]
  constructor
  · exact Nat.max_le.mpr ⟨ha, hn⟩
  · exact Nat.le_max_left _ _

/-! ## int64 -/

/-- **C07_no_int64_overflow**: inside the domain guard `InDomain` (account value and every requested amount within
±21e14 sat, fee rate 0..1e9 sat/kw, ≤ 1000 outputs) every intermediate value of `valueAfterAccountUpdate` (all
running output totals, `feeRate·weight`, the fee, both subtractions) and of `OutputWithFee.CloseOutputs` lies in the
`int64` range, so Go's wrapped `int64` arithmetic coincides with the model's unbounded integers there. -/
theorem C07_no_int64_overflow :
    (∀ (value rate : Int) (outs : List TxOut) (wt : Nat) (v : Int), InDomain value rate outs →
      valueAfterAccountUpdate value outs wt rate = .ok v →
      ∃ w t, witnessSize wt = some w ∧
        vauLoop ((({} : Twe).addWitnessInput w).addOutput baseAccountOutputSize) 0 outs = .ok (t, sumValues outs) ∧
        (∀ k, I64 (sumValues (outs.take k))) ∧ I64 (sumValues outs) ∧
        (t.weight : Int) ≤ 200000 ∧ I64 (rate * (t.weight : Int)) ∧ I64 (feeForWeight rate t.weight) ∧
        I64 (value - sumValues outs) ∧ I64 (value - sumValues outs - feeForWeight rate t.weight) ∧
        v = value - sumValues outs - feeForWeight rate t.weight) ∧
    (∀ (s : Script) (r value : Int) (wt : Nat) (outs : List TxOut),
      0 ≤ value ∧ value ≤ 2100000000000000 → 0 ≤ r ∧ r ≤ 1000000000 →
      outputWithFeeCloseOutputs s r value wt = .ok outs →
      ∃ w W : Nat, witnessSize wt = some w ∧ W = (8 + 1 + 41 + 1 + (9 + s.length)) * 4 + 2 + w ∧ W ≤ 200000 ∧
        I64 (r * (W : Int)) ∧ I64 (feeForWeight r W) ∧ I64 (value - feeForWeight r W) ∧
        outs = [⟨value - feeForWeight r W, s⟩]) :=
  ⟨fun _ _ _ _ _ hd h => vau_no_overflow hd h, fun _ _ _ _ _ hv hr h => owf_no_overflow hv hr h⟩

/-! ## refusals -/

/-- **C07_refusals_no_effect**: if an operation leaves ANY effect (auctioneer request, store write or broadcast),
every check the property lists had passed.  Contrapositive: a request on an account in the wrong state, lowering
the version, with an expiry outside the window, leaving less than `MinAccountValue`, exceeding the auctioneer's
maximum, or creating a dust / negative output has an EMPTY effect trace (and is refused: an accepted operation
always writes and broadcasts, see the `…_conserves` theorems). -/
theorem C07_refusals_no_effect (so : ScriptOf) (a : Account) (best : UInt32) (f : Faults) :
    -- withdrawal
    (∀ outputs rate eh nv, (withdraw so a outputs rate best eh nv f).trace ≠ [] →
      a.state = StateOpen ∧ a.version ≤ nv ∧
      (eh ≠ 0 → best.toNat + 144 ≤ eh.toNat ∧ eh.toNat ≤ best.toNat + 52560) ∧
      (∃ v, valueAfterAccountUpdate a.value outputs (determineWitnessType a best) rate = .ok v ∧
        (MinAccountValue : Int) ≤ v) ∧
      (∀ o ∈ outputs, isDustOutput o = false ∧ 0 ≤ o.value)) ∧
    -- renewal
    (∀ newExpiry rate nv, (renew so a newExpiry rate best nv f).trace ≠ [] →
      (a.state = StateOpen ∨ a.state = StateExpired) ∧ a.version ≤ nv ∧
      (best.toNat + 144 ≤ newExpiry.toNat ∧ newExpiry.toNat ≤ best.toNat + 52560) ∧
      (∃ v, valueAfterAccountUpdate a.value []
          (if a.version ≥ VersionTaprootEnabled then wt_muSig2Taproot else wt_multiSigWitness) rate = .ok v ∧
        (MinAccountValue : Int) ≤ v)) ∧
    -- closure
    (∀ fe ws, (close so a fe ws best f).trace ≠ [] →
      (a.state = StateOpen ∨ a.state = StateExpired) ∧
      ∃ outs, fe.closeOutputs ws a.value (determineWitnessType a best) = .ok outs ∧
        (∀ o ∈ outs, isDustOutput o = false ∧ 0 ≤ o.value) ∧ sumValues outs ≤ a.value) ∧
    -- deposit
    (∀ amount rate eh nv maxValue fd, (deposit so a amount rate best eh nv maxValue fd f).trace ≠ [] →
      a.state = StateOpen ∧ a.version ≤ nv ∧
      (eh ≠ 0 → best.toNat + 144 ≤ eh.toNat ∧ eh.toNat ≤ best.toNat + 52560) ∧
      (∃ maxV, maxValue = some maxV ∧ a.value + amount ≤ maxV) ∧ (MinAccountValue : Int) ≤ a.value + amount ∧
      ∃ ne tx, inputsForDeposit so a (createNewAccountOutput so a (a.value + amount) ne nv).1 amount
          (determineWitnessType a best) rate fd = .ok tx ∧
        (∀ o ∈ tx.outputs, isDustOutput o = false ∧ 0 ≤ o.value)) := by
  refine ⟨?_, ?_, ?_, ?_⟩
  · intro outputs rate eh nv h
    obtain ⟨hs, hv, ne, v, hne, hvau, hfresh, heq⟩ := withdraw_trace_inv h
    rw [heq] at h
    obtain ⟨_, _, lock, _, hsan, _⟩ := spendAccount_trace_prepared h
    obtain ⟨_, _, hrange, _, hdust, _⟩ := sanityCheck_ok hsan
    obtain ⟨_, _, _, _, _, hmin⟩ := vau_ok hvau
    refine ⟨hs, hv, optExpiry_window hne expiry_window, ⟨v, hvau, hmin⟩, ?_⟩
    intro o ho
    have hm : o ∈ sortBy outLt ((createNewAccountOutput so a v ne nv).1 :: outputs) :=
      (sortBy_perm _ _).mem_iff.mpr (List.mem_cons_of_mem _ ho)
    exact ⟨hdust o hm, (hrange o hm).1⟩
  · intro newExpiry rate nv h
    obtain ⟨hs, hv, hexp, v, hvau, _⟩ := renew_trace_inv h
    obtain ⟨_, _, _, _, _, hmin⟩ := vau_ok hvau
    exact ⟨hs, hv, expiry_window _ _ hexp, v, hvau, hmin⟩
  · intro fe ws h
    obtain ⟨hs, outs, ho, heq⟩ := close_trace_inv h
    rw [heq] at h
    obtain ⟨_, _, lock, _, hsan, _⟩ := spendAccount_trace_prepared h
    obtain ⟨_, _, hrange, _, hdust, inT, w, hin, hle, _⟩ := sanityCheck_ok hsan
    have hin' : sanityInputs a (determineWitnessType a best) [a.txIn so] 0 0 = .ok (inT, w) := hin
    obtain ⟨hinT, _⟩ := sanityInputs_single hin'
    refine ⟨hs, outs, ho, ?_, ?_⟩
    · intro o hmem
      have hm : o ∈ sortBy outLt outs := (sortBy_perm _ _).mem_iff.mpr hmem
      exact ⟨hdust o hm, (hrange o hm).1⟩
    · have : sumValues (sortBy outLt outs) = sumValues outs := sumValues_perm (sortBy_perm _ _)
      have hle' : sumValues (sortBy outLt outs) ≤ inT := hle
      omega
  · intro amount rate eh nv maxValue fd h
    obtain ⟨hs, hv, maxV, ne, tx, hmax, hle, hge, hne, htx, heq⟩ := deposit_trace_inv h
    rw [heq] at h
    obtain ⟨_, _, lock, _, hsan, _⟩ := spendAccount_trace_prepared h
    obtain ⟨_, _, hrange, _, hdust, _⟩ := sanityCheck_ok hsan
    exact ⟨hs, hv, optExpiry_window hne expiry_window, ⟨maxV, hmax, hle⟩, hge, ne, tx, htx,
      fun o ho => ⟨hdust o ho, (hrange o ho).1⟩⟩

/-! ## non-vacuity: concrete accepted operations (evaluated by the kernel) -/

def exSo : ScriptOf := fun v _ c => 0x00 :: 0x20 :: List.replicate 32 (UInt8.ofNat (v + c))
def exAcct : Account :=
  { value := 1000000, expiry := 801000, state := 3, version := 0, batchCtr := 0, outPoint := ⟨[1, 2, 3], 0⟩ }
def exOut : TxOut := ⟨200000, 0x00 :: 0x14 :: List.replicate 20 7⟩
def exP2PKH : Script := [0x76, 0xa9, 0x14] ++ List.replicate 20 9 ++ [0x88, 0xac]
def exFunded : Funded :=
  { inputs := [⟨⟨[9, 9], 1⟩, 600000, 0x00 :: 0x14 :: List.replicate 20 5, 0⟩],
    outputs := [⟨500000 + 110, exSo 0 801000 1⟩, ⟨99000, 0x00 :: 0x14 :: List.replicate 20 6⟩], changeIdx := 1 }

example : ScriptLen34 exSo := by intro v e c; simp [exSo]
set_option maxRecDepth 100000 in
example : (withdraw exSo exAcct [exOut] 253 800000 0 1 {}).refusal = none := by decide
set_option maxRecDepth 100000 in
example : (renew exSo exAcct 810000 300 800000 0 {}).refusal = none := by decide
set_option maxRecDepth 100000 in
example : (close exSo exAcct (.outputWithFee (some exP2PKH) 1000) (fun _ => []) 800000 {}).refusal = none := by decide
set_option maxRecDepth 100000 in
example : (close exSo { exAcct with state := 4 } (.implicit [⟨999000, exOut.script⟩]) (fun _ => []) 801000 {}).refusal
    = none := by decide
set_option maxRecDepth 100000 in
example : (deposit exSo exAcct 500000 253 800000 0 0 (some 10000000) (some exFunded) {}).refusal = none := by decide
set_option maxRecDepth 100000 in
example : FundOk exFunded (exSo 0 801000 1) (500000 + 110) [⟨99000, 0x00 :: 0x14 :: List.replicate 20 6⟩] 890 := by
  refine ⟨Or.inr (Or.inr ⟨rfl, _, rfl, rfl⟩), by decide, by decide⟩
-- a withdrawal with a dust output is refused without effect; one with an auctioneer fault leaves only the request
set_option maxRecDepth 100000 in
example : (withdraw exSo exAcct [⟨293, exOut.script⟩] 253 800000 0 0 {}).trace.length = 0
    ∧ (withdraw exSo exAcct [exOut] 253 800000 0 0 { auctioneer := true }).trace.length = 1
    ∧ (withdraw exSo exAcct [exOut] 253 800000 0 0 {}).trace.length = 3 := by decide

set_option maxRecDepth 100000 in
example : (applyMods exAcct (createNewAccountOutput exSo exAcct 5 none 2).2).version = 2 := by decide

example : InDomain 1000000 253 [exOut] :=
  ⟨by decide, by decide, by intro o ho; simp [exOut] at ho; subst ho; decide, by decide⟩
set_option maxRecDepth 100000 in
example : (valueAfterAccountUpdate 1000000 [exOut] 1 253).toOption = some 799816 := by decide

set_option maxRecDepth 100000 in
example : depositLocks exSo exAcct 500000 253 800000 0 0 (some 10000000) (some exFunded) {} = .held 1
    ∧ depositLocks exSo exAcct 500000 253 800000 0 0 (some 10000000) (some exFunded) { store := true } = .released 1
    ∧ depositLocks exSo exAcct 500000 253 800000 0 5 (some 100) (some exFunded) {} = .none := by decide

set_option maxRecDepth 100000 in
example : (deposit exSo exAcct 500000 253 800000 0 0 (some 1400000) (some exFunded) {}).trace = []
    ∧ (deposit exSo exAcct 500000 253 800000 0 0 (some 1500000) (some exFunded) {}).trace.length = 3 := by decide

end Pool.C07
