import PoolProofs.C07LemmasModify
import PoolProofs.C07LemmasClose

/-!
# C07 — deposits, withdrawals, renewals and closures conserve the account's funds

Headline theorems about the executable model `PoolModel/C07.lean` of `account/manager.go` /
`account/interfaces.go`.  For all accounts, requested outputs, fee rates, heights, versions, collaborator faults and
account-script functions `so`:

* `C07_withdraw_conserves`, `C07_renew_conserves`, `C07_deposit_conserves`, `C07_close_conserves`: what an accepted
  operation broadcasts and records (outpoint spent once, requested outputs verbatim, recorded value = value of the
  re-created output = old + deposited − withdrawn − fee, fee = rate·weight/1000, fee ≥ relay floor, no dust, value
  bounds, effect order `[auctioneerModify?] ++ [storeWrite, publish]`);
* `C07_refusals_no_effect`: every refusal other than an injected collaborator fault has an empty effect trace, and
  each refusal listed in the property is a refusal;
* `expiry_window`: an accepted expiry lies in `[best+144, best+52560]` as integers (`expiry_window_wrap_rule_false`:
  the `uint32` rule of the unrepaired code does not).

`W` below is always `fullWeight tx w`: 4 × the serialised size of the broadcast transaction without witnesses + 2 +
the estimated witness sizes – i.e. the estimator's weight is tied to the transaction really built.
-/
set_option linter.unusedSimpArgs false
set_option linter.unusedVariables false
namespace Pool.C07
open Pool.Gen.C07

/-! ## expiry window -/

/-- **expiry_window**: an expiry accepted by `validateAccountExpiry` is between one day and one year ahead of the
best height, as integers (no `uint32` wrap corner: the bounds are computed in 64 bits – regenerated fact
`expiryWindowWide`). -/
theorem expiry_window (expiry best : UInt32) (h : validateAccountExpiry expiry best = .ok ()) :
    best.toNat + 144 ≤ expiry.toNat ∧ expiry.toNat ≤ best.toNat + 52560 := by
  have hw : expiryWindowWide = true := by decide
  have h1 : minAccountExpiry = 144 := by decide
  have h2 : maxAccountExpiry = 52560 := by decide
  unfold validateAccountExpiry at h
  simp only [hw, if_true] at h
  split at h
  · cases h
  · split at h
    · cases h
    · omega

example : validateAccountExpiry 800144 800000 = .ok () := by
  simp [validateAccountExpiry, show expiryWindowWide = true from by decide, minAccountExpiry, maxAccountExpiry]

/-- the window check as written before the repair: `uint32` sums that wrap -/
def validateAccountExpiryWrap (expiry best : UInt32) : Bool :=
  !(expiry < best + UInt32.ofNat minAccountExpiry) && !(expiry > best + UInt32.ofNat maxAccountExpiry)

/-- the full window statement for the unrepaired `uint32` rule -/
def expiry_window_wrap_statement : Prop :=
  ∀ expiry best : UInt32, validateAccountExpiryWrap expiry best = true →
    best.toNat + 144 ≤ expiry.toNat ∧ expiry.toNat ≤ best.toNat + 52560

/-- … is false: best = 2^32 − 100, expiry = 100 (corpus/C07/defect-expiry-wrap.json replays it on the Go code) -/
theorem expiry_window_wrap_rule_false : ¬ expiry_window_wrap_statement := by
  intro h
  have := h 100 4294967196 (by decide)
  simp at this

/-- the wrap corner needs a best height within a year of 2^32; below it both rules agree -/
theorem expiry_window_wrap_partial (expiry best : UInt32) (hb : best.toNat + 52560 < 4294967296)
    (h : validateAccountExpiryWrap expiry best = true) :
    best.toNat + 144 ≤ expiry.toNat ∧ expiry.toNat ≤ best.toNat + 52560 := by
  have h1 : minAccountExpiry = 144 := by decide
  have h2 : maxAccountExpiry = 52560 := by decide
  simp only [validateAccountExpiryWrap, h1, h2, Bool.and_eq_true, Bool.not_eq_true', decide_eq_false_iff_not,
    UInt32.not_lt] at h
  have e1 : (best + UInt32.ofNat 144).toNat = best.toNat + 144 := by
    simp [UInt32.toNat_add]; omega
  have e2 : (best + UInt32.ofNat 52560).toNat = best.toNat + 52560 := by
    simp [UInt32.toNat_add]; omega
  obtain ⟨ha, hb'⟩ := h
  rw [UInt32.le_iff_toNat_le] at ha hb'
  omega

example : (4294000000 : UInt32).toNat + 52560 < 4294967296 ∧ validateAccountExpiryWrap 4294000200 4294000000 = true := by
  decide


/-! ## withdrawals and renewals -/

/-- **C07_withdraw_conserves**: an accepted withdrawal satisfies `ModifySpec` (see its definition: the account
outpoint is the only input; outputs = re-created account output + requested outputs verbatim; recorded value =
value of the re-created output = old − withdrawn − fee with fee = rate·W/1000 ≥ 253·W/1000, W the full weight of
the broadcast transaction; ≥ MinAccountValue; no dust; version not lowered; effects = [auctioneerModify?,
storeWrite, publish]); the account was open and a requested expiry lies in the window. -/
theorem C07_withdraw_conserves (so : ScriptOf) (hso : ScriptLen34 so) (a : Account) (outputs : List TxOut)
    (rate : Int) (best eh : UInt32) (nv : Nat) (f : Faults)
    (h : (withdraw so a outputs rate best eh nv f).refusal = none) :
    a.state = StateOpen ∧ a.version ≤ nv ∧
    (eh ≠ 0 → best.toNat + 144 ≤ eh.toNat ∧ eh.toNat ≤ best.toNat + 52560) ∧
    ModifySpec so a outputs rate (determineWitnessType a best) (if eh ≠ 0 then some eh else none) nv
      (withdraw so a outputs rate best eh nv f) := by
  obtain ⟨hs, hv, ne, v, hne, hvau, heq⟩ := withdraw_inv h
  rw [heq] at h ⊢
  have hspec := modify_spec hso (by decide : Action.withdraw ≠ .close) hvau h
  rcases optExpiry_ok hne with ⟨h0, hn⟩ | ⟨h0, hn, hval⟩
  · subst hn
    refine ⟨hs, hv, fun hx => absurd h0 hx, ?_⟩
    simpa [h0] using hspec
  · subst hn
    refine ⟨hs, hv, fun _ => expiry_window _ _ hval, ?_⟩
    simpa [h0] using hspec

/-- **C07_renew_conserves**: an accepted renewal satisfies `ModifySpec` with no requested outputs (new value = old −
fee), always on the cooperative path, and records the new expiry, which lies in the window. -/
theorem C07_renew_conserves (so : ScriptOf) (hso : ScriptLen34 so) (a : Account) (newExpiry : UInt32)
    (rate : Int) (best : UInt32) (nv : Nat) (f : Faults)
    (h : (renew so a newExpiry rate best nv f).refusal = none) :
    (a.state = StateOpen ∨ a.state = StateExpired) ∧ a.version ≤ nv ∧
    (best.toNat + 144 ≤ newExpiry.toNat ∧ newExpiry.toNat ≤ best.toNat + 52560) ∧
    ModifySpec so a [] rate (if a.version ≥ VersionTaprootEnabled then wt_muSig2Taproot else wt_multiSigWitness)
      (some newExpiry) nv (renew so a newExpiry rate best nv f) := by
  obtain ⟨hs, hv, hexp, v, hvau, heq⟩ := renew_inv h
  rw [heq] at h ⊢
  exact ⟨hs, hv, expiry_window _ _ hexp, modify_spec hso (by decide : Action.renew ≠ .close) hvau h⟩

/-! ## refusals -/

/-- **C07_refusals_no_effect**: if an operation leaves ANY effect (auctioneer request, store write or broadcast),
every check the property lists had passed.  Contrapositive: a request on an account in the wrong state, lowering
the version, with an expiry outside the window, leaving less than `MinAccountValue`, exceeding the auctioneer's
maximum, or creating a dust / negative output has an EMPTY effect trace (and is refused: an accepted operation
always writes and broadcasts, see the `…_conserves` theorems). -/
theorem C07_refusals_no_effect (so : ScriptOf) (a : Account) (best : UInt32) (f : Faults) :
    -- withdrawal
    (∀ outputs rate eh nv, (withdraw so a outputs rate best eh nv f).trace ≠ [] →
      a.state = StateOpen ∧ a.version ≤ nv ∧
      (eh ≠ 0 → best.toNat + 144 ≤ eh.toNat ∧ eh.toNat ≤ best.toNat + 52560) ∧
      (∃ v, valueAfterAccountUpdate a.value outputs (determineWitnessType a best) rate = .ok v ∧
        (MinAccountValue : Int) ≤ v) ∧
      (∀ o ∈ outputs, isDustOutput o = false ∧ 0 ≤ o.value)) ∧
    -- renewal
    (∀ newExpiry rate nv, (renew so a newExpiry rate best nv f).trace ≠ [] →
      (a.state = StateOpen ∨ a.state = StateExpired) ∧ a.version ≤ nv ∧
      (best.toNat + 144 ≤ newExpiry.toNat ∧ newExpiry.toNat ≤ best.toNat + 52560) ∧
      (∃ v, valueAfterAccountUpdate a.value []
          (if a.version ≥ VersionTaprootEnabled then wt_muSig2Taproot else wt_multiSigWitness) rate = .ok v ∧
        (MinAccountValue : Int) ≤ v)) ∧
    -- closure
    (∀ fe ws, (close so a fe ws best f).trace ≠ [] →
      ¬ (a.state = StatePendingClosed ∨ a.state = StateClosed) ∧
      ∃ outs, fe.closeOutputs ws a.value (determineWitnessType a best) = .ok outs ∧
        (∀ o ∈ outs, isDustOutput o = false ∧ 0 ≤ o.value) ∧ sumValues outs ≤ a.value) ∧
    -- deposit
    (∀ amount rate eh nv maxValue fd, (deposit so a amount rate best eh nv maxValue fd f).trace ≠ [] →
      a.state = StateOpen ∧ a.version ≤ nv ∧
      (eh ≠ 0 → best.toNat + 144 ≤ eh.toNat ∧ eh.toNat ≤ best.toNat + 52560) ∧
      (∃ maxV, maxValue = some maxV ∧ a.value + amount ≤ maxV) ∧
      ∃ ne tx, inputsForDeposit so a (createNewAccountOutput so a (a.value + amount) ne nv).1 amount
          (determineWitnessType a best) rate fd = .ok tx ∧
        (∀ o ∈ tx.outputs, isDustOutput o = false ∧ 0 ≤ o.value)) := by
  refine ⟨?_, ?_, ?_, ?_⟩
  · intro outputs rate eh nv h
    obtain ⟨hs, hv, ne, v, hne, hvau, heq⟩ := withdraw_trace_inv h
    rw [heq] at h
    obtain ⟨_, _, lock, _, hsan, _⟩ := spendAccount_trace_prepared h
    obtain ⟨_, _, hrange, _, hdust, _⟩ := sanityCheck_ok hsan
    obtain ⟨_, _, _, _, _, hmin⟩ := vau_ok hvau
    refine ⟨hs, hv, optExpiry_window hne expiry_window, ⟨v, hvau, hmin⟩, ?_⟩
    intro o ho
    have hm : o ∈ sortBy outLt ((createNewAccountOutput so a v ne nv).1 :: outputs) :=
      (sortBy_perm _ _).mem_iff.mpr (List.mem_cons_of_mem _ ho)
    exact ⟨hdust o hm, (hrange o hm).1⟩
  · intro newExpiry rate nv h
    obtain ⟨hs, hv, hexp, v, hvau, _⟩ := renew_trace_inv h
    obtain ⟨_, _, _, _, _, hmin⟩ := vau_ok hvau
    exact ⟨hs, hv, expiry_window _ _ hexp, v, hvau, hmin⟩
  · intro fe ws h
    obtain ⟨hs, outs, ho, heq⟩ := close_trace_inv h
    rw [heq] at h
    obtain ⟨_, _, lock, _, hsan, _⟩ := spendAccount_trace_prepared h
    obtain ⟨_, _, hrange, _, hdust, inT, w, hin, hle, _⟩ := sanityCheck_ok hsan
    have hin' : sanityInputs a (determineWitnessType a best) [a.txIn so] 0 0 = .ok (inT, w) := hin
    obtain ⟨hinT, _⟩ := sanityInputs_single hin'
    refine ⟨hs, outs, ho, ?_, ?_⟩
    · intro o hmem
      have hm : o ∈ sortBy outLt outs := (sortBy_perm _ _).mem_iff.mpr hmem
      exact ⟨hdust o hm, (hrange o hm).1⟩
    · have : sumValues (sortBy outLt outs) = sumValues outs := sumValues_perm (sortBy_perm _ _)
      have hle' : sumValues (sortBy outLt outs) ≤ inT := hle
      omega
  · intro amount rate eh nv maxValue fd h
    obtain ⟨hs, hv, maxV, ne, tx, hmax, hle, hne, htx, heq⟩ := deposit_trace_inv h
    rw [heq] at h
    obtain ⟨_, _, lock, _, hsan, _⟩ := spendAccount_trace_prepared h
    obtain ⟨_, _, hrange, _, hdust, _⟩ := sanityCheck_ok hsan
    exact ⟨hs, hv, optExpiry_window hne expiry_window, ⟨maxV, hmax, hle⟩, ne, tx, htx,
      fun o ho => ⟨hdust o ho, (hrange o ho).1⟩⟩

end Pool.C07
