import PoolProofs.C05Lemmas
/-! The `Sign` case of `handleServerMessage`: the interpreted regenerated program equals a hand-written
decision tree.  (Helper lemmas; headline theorems are in `PoolProofs/C05.lean`.) -/
set_option linter.unusedSimpArgs false
set_option linter.unusedVariables false
namespace Pool.C05
open Pool.Gen.C05

/-- observable result of the handler's Sign case: final manager state, chronological effect trace, and
whether it crashed (nil batch) -/
structure HOut where
  st : St
  trace : List Ev
  panicked : Bool
deriving Repr

/-- does the regenerated Sign case start with `batch := PendingBatch(); if batch == nil { reject; return }`? -/
def nilGuard : Bool :=
  handlerSignProg.take 2 ==
    [["call", "s.orderManager.PendingBatch", ""],
     ["ifnil", "batch", "s.sendRejectUnparsedBatch", "s.sendRejectUnparsedBatch()"]]

/-- hand-written reading of the `Sign` case -/
def handleSignSpec (s : St) (env : HEnv) : HOut :=
  match s.pending with
  | none =>
    if nilGuard then
      -- guarded tree: a reject naming the batch id of the message, nothing else
      { st := s, trace := [.sendReject], panicked := false }
    else
      -- unguarded tree, batch == nil: a parse error dereferences it in sendRejectBatch, a parse success
      -- in `batch.ServerNonces = …`
      { st := s, trace := [.parseSign], panicked := true }
  | some _ =>
    if !env.parseOk then { st := s, trace := [.parseSign, .sendReject], panicked := false } else
    let s1 := attachAux s env.nonces env.prev
    if !env.chanOk then { st := s1, trace := [.parseSign, .chanSetup, .sendReject], panicked := false } else
    match batchSign s1 env.faults with
    | (s2, .ok sigs nonces) =>
      if env.sendOk then
        { st := s2, trace := [.parseSign, .chanSetup, .batchSign true, .sendSign sigs nonces], panicked := false }
      else
        { st := s2, trace := [.parseSign, .chanSetup, .batchSign true, .sendSign sigs nonces, .sendReject],
          panicked := false }
    | (s2, .panic) => { st := s2, trace := [.parseSign, .chanSetup], panicked := true }
    | (s2, _) => { st := s2, trace := [.parseSign, .chanSetup, .batchSign false, .sendReject], panicked := false }

theorem attachAux_twice (p : Option Batch) (db : DB) (b : Batch) (ns : List Key) (pv : List Out)
    (hp : p = some b) :
    attachAux (attachAux ⟨p, db⟩ ns ((Option.map (·.prevOuts) p).getD []))
      ((Option.map (·.nonces) (attachAux ⟨p, db⟩ ns ((Option.map (·.prevOuts) p).getD [])).pending).getD []) pv
      = attachAux ⟨p, db⟩ ns pv := by
  subst hp; simp [attachAux]

/-- The interpreted regenerated Sign case equals the decision tree above: in particular `BatchSign` is
called strictly before `sendSignBatch`, `sendSignBatch` only on its success and with its results, and every
error path hands the auctioneer a reject and nothing else.  This obligation breaks when the statement order
of the Go source changes. -/
theorem handleSign_eq_spec (s : St) (env : HEnv) :
    (handleSign s env).st = (handleSignSpec s env).st ∧
    (handleSign s env).trace.reverse = (handleSignSpec s env).trace ∧
    (handleSign s env).panicked = (handleSignSpec s env).panicked := by
  obtain ⟨pending, db⟩ := s
  unfold handleSign handleSignWith handleSignSpec
  simp only [handlerSignProg, List.foldl]
  cases hp : pending with
  | none =>
    have hg : nilGuard = true ∨ nilGuard = false := by decide
    cases hpo : env.parseOk <;> rcases hg with hg | hg <;> simp [hsStmt, hpo, hg] <;> (revert hg; decide)
  | some b =>
    cases hpo : env.parseOk with
    | false => simp [hsStmt, hpo]
    | true =>
      have haux := attachAux_twice (some b) db b env.nonces env.prev rfl
      have hs1 : (attachAux ⟨some b, db⟩ env.nonces env.prev).pending.isNone = false := by
        simp [attachAux]
      cases hco : env.chanOk with
      | false => simp [hsStmt, hpo, hco, attachAux]
      | true =>
        have hpend := batchSign_pending (attachAux ⟨some b, db⟩ env.nonces env.prev) env.faults
        cases hbs : batchSign (attachAux ⟨some b, db⟩ env.nonces env.prev) env.faults with
        | mk s2 o =>
          have hp2 : s2.pending.isNone = false := by
            have : s2.pending = (attachAux ⟨some b, db⟩ env.nonces env.prev).pending := by
              rw [← hpend, hbs]
            rw [this]; exact hs1
          have hbs' : batchSign { pending := some { b with nonces := env.nonces, prevOuts := env.prev }, db := db }
              env.faults = (s2, o) := by
            simpa [attachAux] using hbs
          cases o with
          | ok sigs nonces =>
            cases hso : env.sendOk <;> simp [hsStmt, hpo, hco, attachAux, hbs', hso, hp2]
          | errSign e => simp [hsStmt, hpo, hco, attachAux, hbs', hp2]
          | errStore => simp [hsStmt, hpo, hco, attachAux, hbs', hp2]
          | panic => simp [hsStmt, hpo, hco, attachAux, hbs', hp2]

end Pool.C05
