import PoolProofs.C05Lemmas
/-!
The `Sign` case of `handleServerMessage`, order-tolerantly.

Instead of proving the regenerated program equal to one fixed decision tree (which any harmless reordering
of the Go statements would break), the trace properties are proved for **every** program that passes the
decidable structural check `safeSign`:

* every `BatchSign` call is immediately followed by `if err != nil { return s.sendRejectBatch(…) }`,
* `sendSignBatch(batch, sigs, nonces, …)` occurs only after such a checked `BatchSign`,
* the case ends with a `return`.

Where `ParseRPCSign`, the two assignments, `BatchChannelSetup`, logging etc. stand relative to these does not
matter.  The headline obligation is then `safeSign (handlerSignProg.map parseH) = true` by `decide`.
(Helper lemmas; headline theorems are in `PoolProofs/C05.lean`.)
-/
set_option linter.unusedSimpArgs false
set_option linter.unusedVariables false
namespace Pool.C05
open Pool.Gen.C05

/-- a batch without the volatile Sign-message data (`ServerNonces`, `PreviousOutputs`) -/
def Batch.core (b : Batch) : Batch := { b with nonces := [], prevOuts := [] }

/-! ### the structural check -/

inductive Abs | noSig | afterCall | signed | stopped | bad
deriving DecidableEq, Repr

def absStep : Abs → HStmt → Abs
  | .bad, _ => .bad
  | .stopped, _ => .stopped
  | .afterCall, .iferrReject => .signed
  | .afterCall, _ => .bad
  | _, .batchSign => .afterCall
  | .noSig, .sendSign => .bad
  | _, .ret => .stopped
  | a, _ => a

/-- the structural condition on the (parsed) Sign case -/
def safeSign (prog : List HStmt) : Bool := prog.foldl absStep .noSig == .stopped

theorem absStep_bad (prog : List HStmt) : prog.foldl absStep .bad = .bad := by
  induction prog with
  | nil => rfl
  | cons st rest ih => simpa [List.foldl, absStep] using ih

/-! ### trace predicates (traces are newest-first) -/

/-- outcome of the most recent `BatchSign` in a newest-first trace -/
def lastSign : List Ev → Option Bool
  | [] => none
  | .batchSign ok :: _ => some ok
  | .parseSign :: rest => lastSign rest
  | .chanSetup :: rest => lastSign rest
  | .sendSign _ _ _ :: rest => lastSign rest
  | .sendReject :: rest => lastSign rest

/-- every sign message is preceded by a `BatchSign` whose most recent outcome was success -/
def GoodTr : List Ev → Prop
  | [] => True
  | .sendSign _ _ _ :: pre => lastSign pre = some true ∧ GoodTr pre
  | _ :: pre => GoodTr pre

def NoFail (tr : List Ev) : Prop := Ev.batchSign false ∉ tr

/-- what a sign message carries: the results of one successful `BatchSign` of this handler invocation, run on
the handler's pending batch and database rows, and – as ghost – the staging area that `BatchSign` left -/
def Rel (s : St) (env : HEnv) (S : List Sig) (N : List Key) (g : Option Staged) : Prop :=
  ∃ s0 s1, s0.pending.map Batch.core = s.pending.map Batch.core ∧ s0.db.accts = s.db.accts ∧
    s0.db.orders = s.db.orders ∧ batchSign s0 env.faults = (s1, .ok S N) ∧ g = s1.db.staged

def RAll (s : St) (env : HEnv) (tr : List Ev) : Prop :=
  ∀ S N g, Ev.sendSign S N g ∈ tr → Rel s env S N g

def K (s : St) (x : HS) : Prop :=
  x.st.pending.map Batch.core = s.pending.map Batch.core ∧ x.st.db.accts = s.db.accts ∧
  x.st.db.orders = s.db.orders

def Q (s : St) (env : HEnv) (x : HS) : Prop := Rel s env x.sigs x.tnonces x.st.db.staged

def FailShape (x : HS) : Prop :=
  NoFail x.trace ∨ x.panicked = true ∨ ∃ tr', x.trace = .sendReject :: .batchSign false :: tr' ∧ NoFail tr'

def Phase (s : St) (env : HEnv) : Abs → HS → Prop
  | .noSig, _ => True
  | .afterCall, x => x.done = true ∨ x.err = true ∨ (lastSign x.trace = some true ∧ Q s env x)
  | .signed, x => x.done = true ∨ (lastSign x.trace = some true ∧ Q s env x)
  | .stopped, x => x.done = true
  | .bad, _ => False

structure Phi (s : St) (env : HEnv) (a : Abs) (x : HS) : Prop where
  good : GoodTr x.trace
  rall : RAll s env x.trace
  k : K s x
  live : x.done = false → NoFail x.trace ∨
    (a = .afterCall ∧ x.err = true ∧ ∃ tr', x.trace = .batchSign false :: tr' ∧ NoFail tr')
  dead : x.done = true → FailShape x
  phase : Phase s env a x

/-! ### frame lemmas -/

theorem batchSign_frame (s : St) (f : Faults) :
    (batchSign s f).1.db.accts = s.db.accts ∧ (batchSign s f).1.db.orders = s.db.orders := by
  cases h : batchSign s f with
  | mk s' o =>
    cases o with
    | ok S N =>
      obtain ⟨b, rows, _, _, hs', _⟩ := batchSign_ok s f s' S N h
      simp [hs']
    | errSign e => have := batchSign_not_ok_db s f s' _ h (by intro S N; simp); simp [this]
    | errStore => have := batchSign_not_ok_db s f s' _ h (by intro S N; simp); simp [this]
    | panic => have := batchSign_not_ok_db s f s' _ h (by intro S N; simp); simp [this]

theorem attachAux_core (s : St) (ns : List Key) (pv : List Out) :
    (attachAux s ns pv).pending.map Batch.core = s.pending.map Batch.core := by
  cases h : s.pending <;> simp [attachAux, h, Batch.core]

theorem phase_done (s : St) (env : HEnv) (a : Abs) (x : HS) (ha : a ≠ .bad) (hd : x.done = true) :
    Phase s env a x := by
  cases a <;> simp_all [Phase]

theorem noFail_cons (e : Ev) (tr : List Ev) (he : e ≠ .batchSign false) (h : NoFail tr) : NoFail (e :: tr) := by
  unfold NoFail at *
  simp only [List.mem_cons, not_or]
  exact ⟨fun h' => he h'.symm, h⟩

theorem rall_cons (s : St) (env : HEnv) (e : Ev) (tr : List Ev) (he : ∀ S N g, e ≠ .sendSign S N g)
    (h : RAll s env tr) : RAll s env (e :: tr) := by
  intro S N g hm
  simp only [List.mem_cons] at hm
  rcases hm with hm | hm
  · exact absurd hm.symm (he S N g)
  · exact h S N g hm

/-! ### the step lemma -/

theorem phi_step (s : St) (env : HEnv) (a : Abs) (x : HS) (st : HStmt)
    (h : Phi s env a x) (hb : absStep a st ≠ .bad) :
    Phi s env (absStep a st) (hStep env x st) := by
  have ha : a ≠ .bad := by
    intro h'; subst h'; simp [absStep] at hb
  by_cases hd : x.done = true
  · -- the handler has already returned: nothing changes
    have hx : hStep env x st = x := by simp [hStep, hd]
    rw [hx]
    exact ⟨h.good, h.rall, h.k, fun h' => by simp [hd] at h', h.dead, phase_done s env _ x hb hd⟩
  · have hdf : x.done = false := by simpa using hd
    have hlive := h.live hdf
    have hph := h.phase
    have hns : a ≠ .stopped := by
      intro h'; subst h'; simp [Phase, hdf] at hph
    obtain ⟨hk1, hk2, hk3⟩ := h.k
    -- facts available while running
    cases st with
    | pendingCall =>
      have hx : hStep env x .pendingCall = x := by simp [hStep, hdf]
      rw [hx]
      cases a <;> simp [absStep] at hb ⊢ <;>
        first | exact absurd rfl hns | exact ⟨h.good, h.rall, h.k, fun _ => by simpa using hlive, h.dead, h.phase⟩
    | skip =>
      have hx : hStep env x .skip = x := by simp [hStep, hdf]
      rw [hx]
      cases a <;> simp [absStep] at hb ⊢ <;>
        first | exact absurd rfl hns | exact ⟨h.good, h.rall, h.k, fun _ => by simpa using hlive, h.dead, h.phase⟩
    | ifnilBatch rej =>
      have hnf : NoFail x.trace := by
        cases a <;> simp [absStep] at hb <;> first | exact absurd rfl hns | simpa using hlive
      have haeq : absStep a (.ifnilBatch rej) = a := by cases a <;> simp [absStep] at hb ⊢ <;> exact absurd rfl hns
      rw [haeq]
      by_cases hp : x.st.pending.isSome = true
      · have hx : hStep env x (.ifnilBatch rej) = x := by simp [hStep, hdf, hp]
        rw [hx]; exact ⟨h.good, h.rall, h.k, h.live, h.dead, h.phase⟩
      · cases rej with
        | true =>
          have hx : hStep env x (.ifnilBatch true) = { x with trace := .sendReject :: x.trace, done := true } := by
            simp [hStep, hdf, hp]
          rw [hx]
          exact ⟨by simpa [GoodTr] using h.good, rall_cons s env _ _ (by intro S N g; simp) h.rall,
            ⟨hk1, hk2, hk3⟩, fun h' => by simp at h',
            fun _ => Or.inl (noFail_cons _ _ (by simp) hnf), phase_done s env a _ ha rfl⟩
        | false =>
          have hx : hStep env x (.ifnilBatch false) = { x with done := true } := by simp [hStep, hdf, hp]
          rw [hx]
          exact ⟨h.good, h.rall, ⟨hk1, hk2, hk3⟩, fun h' => by simp at h', fun _ => Or.inl hnf,
            phase_done s env a _ ha rfl⟩
    | parse =>
      have hnf : NoFail x.trace := by
        cases a <;> simp [absStep] at hb <;> first | exact absurd rfl hns | simpa using hlive
      have haeq : absStep a .parse = a := by cases a <;> simp [absStep] at hb ⊢ <;> exact absurd rfl hns
      rw [haeq]
      have hx : hStep env x .parse = { x with trace := .parseSign :: x.trace, err := !env.parseOk } := by
        simp [hStep, hdf]
      rw [hx]
      refine ⟨by simpa [GoodTr] using h.good, rall_cons s env _ _ (by intro S N g; simp) h.rall,
        ⟨hk1, hk2, hk3⟩, fun _ => Or.inl (noFail_cons _ _ (by simp) hnf), fun h' => by simp [hdf] at h', ?_⟩
      cases a <;> simp [absStep] at hb <;> first | exact absurd rfl hns | simp_all [Phase, lastSign, Q]
    | chanSetup =>
      have hnf : NoFail x.trace := by
        cases a <;> simp [absStep] at hb <;> first | exact absurd rfl hns | simpa using hlive
      have haeq : absStep a .chanSetup = a := by cases a <;> simp [absStep] at hb ⊢ <;> exact absurd rfl hns
      rw [haeq]
      have hx : hStep env x .chanSetup = { x with trace := .chanSetup :: x.trace, err := !env.chanOk } := by
        simp [hStep, hdf]
      rw [hx]
      refine ⟨by simpa [GoodTr] using h.good, rall_cons s env _ _ (by intro S N g; simp) h.rall,
        ⟨hk1, hk2, hk3⟩, fun _ => Or.inl (noFail_cons _ _ (by simp) hnf), fun h' => by simp [hdf] at h', ?_⟩
      cases a <;> simp [absStep] at hb <;> first | exact absurd rfl hns | simp_all [Phase, lastSign, Q]
    | assignNonces =>
      have hnf : NoFail x.trace := by
        cases a <;> simp [absStep] at hb <;> first | exact absurd rfl hns | simpa using hlive
      have haeq : absStep a .assignNonces = a := by cases a <;> simp [absStep] at hb ⊢ <;> exact absurd rfl hns
      rw [haeq]
      by_cases hp : x.st.pending.isNone = true
      · have hx : hStep env x .assignNonces = { x with done := true, panicked := true } := by
          simp [hStep, hdf, hp]
        rw [hx]
        exact ⟨h.good, h.rall, ⟨hk1, hk2, hk3⟩, fun h' => by simp at h', fun _ => Or.inr (Or.inl rfl),
          phase_done s env a _ ha rfl⟩
      · have hx : hStep env x .assignNonces =
            { x with st := attachAux x.st env.nonces ((x.st.pending.map (·.prevOuts)).getD []) } := by
          simp [hStep, hdf, hp]
        rw [hx]
        refine ⟨h.good, h.rall, ⟨by rw [attachAux_core]; exact hk1, hk2, hk3⟩,
          fun _ => Or.inl hnf, fun h' => by simp [hdf] at h', ?_⟩
        cases a <;> simp [absStep] at hb <;> first | exact absurd rfl hns | simp_all [Phase, Q, attachAux]
    | assignPrev =>
      have hnf : NoFail x.trace := by
        cases a <;> simp [absStep] at hb <;> first | exact absurd rfl hns | simpa using hlive
      have haeq : absStep a .assignPrev = a := by cases a <;> simp [absStep] at hb ⊢ <;> exact absurd rfl hns
      rw [haeq]
      by_cases hp : x.st.pending.isNone = true
      · have hx : hStep env x .assignPrev = { x with done := true, panicked := true } := by
          simp [hStep, hdf, hp]
        rw [hx]
        exact ⟨h.good, h.rall, ⟨hk1, hk2, hk3⟩, fun h' => by simp at h', fun _ => Or.inr (Or.inl rfl),
          phase_done s env a _ ha rfl⟩
      · have hx : hStep env x .assignPrev =
            { x with st := attachAux x.st ((x.st.pending.map (·.nonces)).getD []) env.prev } := by
          simp [hStep, hdf, hp]
        rw [hx]
        refine ⟨h.good, h.rall, ⟨by rw [attachAux_core]; exact hk1, hk2, hk3⟩,
          fun _ => Or.inl hnf, fun h' => by simp [hdf] at h', ?_⟩
        cases a <;> simp [absStep] at hb <;> first | exact absurd rfl hns | simp_all [Phase, Q, attachAux]
    | batchSign =>
      have hnf : NoFail x.trace := by
        cases a <;> simp [absStep] at hb <;> first | exact absurd rfl hns | simpa using hlive
      have haeq : absStep a .batchSign = .afterCall := by cases a <;> simp [absStep] at hb ⊢ <;> exact absurd rfl hns
      rw [haeq]
      have hfr := batchSign_frame x.st env.faults
      have hpd := batchSign_pending x.st env.faults
      cases hbs : batchSign x.st env.faults with
      | mk st' o =>
        rw [hbs] at hfr hpd
        have hk' : K s { x with st := st' } :=
          ⟨by simp only; rw [hpd]; exact hk1, by simp only; rw [hfr.1]; exact hk2,
           by simp only; rw [hfr.2]; exact hk3⟩
        cases o with
        | ok S N =>
          have hx : hStep env x .batchSign =
              { x with st := st', trace := .batchSign true :: x.trace, err := false, sigs := S, tnonces := N } := by
            simp [hStep, hdf, hbs]
          rw [hx]
          refine ⟨by simpa [GoodTr] using h.good, rall_cons s env _ _ (by intro S N g; simp) h.rall, hk',
            fun _ => Or.inl (noFail_cons _ _ (by simp) hnf), fun h' => by simp [hdf] at h', ?_⟩
          right; right
          exact ⟨rfl, x.st, st', hk1, hk2, hk3, hbs, rfl⟩
        | panic =>
          have hx : hStep env x .batchSign = { x with st := st', done := true, panicked := true } := by
            simp [hStep, hdf, hbs]
          rw [hx]
          exact ⟨h.good, h.rall, hk', fun h' => by simp at h', fun _ => Or.inr (Or.inl rfl), Or.inl rfl⟩
        | errSign e =>
          have hx : hStep env x .batchSign =
              { x with st := st', trace := .batchSign false :: x.trace, err := true, sigs := [], tnonces := [] } := by
            simp [hStep, hdf, hbs]
          rw [hx]
          exact ⟨by simpa [GoodTr] using h.good, rall_cons s env _ _ (by intro S N g; simp) h.rall, hk',
            fun _ => Or.inr ⟨rfl, rfl, x.trace, rfl, hnf⟩, fun h' => by simp [hdf] at h', Or.inr (Or.inl rfl)⟩
        | errStore =>
          have hx : hStep env x .batchSign =
              { x with st := st', trace := .batchSign false :: x.trace, err := true, sigs := [], tnonces := [] } := by
            simp [hStep, hdf, hbs]
          rw [hx]
          exact ⟨by simpa [GoodTr] using h.good, rall_cons s env _ _ (by intro S N g; simp) h.rall, hk',
            fun _ => Or.inr ⟨rfl, rfl, x.trace, rfl, hnf⟩, fun h' => by simp [hdf] at h', Or.inr (Or.inl rfl)⟩
    | sendSign =>
      -- only reachable in phase `signed`
      cases a <;> simp [absStep] at hb
      case stopped => exact absurd rfl hns
      case signed =>
        have hnf : NoFail x.trace := by simpa using hlive
        simp only [Phase, hdf, Bool.false_eq_true, false_or] at hph
        obtain ⟨hls, hq⟩ := hph
        have hx : hStep env x .sendSign =
            { x with trace := .sendSign x.sigs x.tnonces x.st.db.staged :: x.trace, err := !env.sendOk } := by
          simp [hStep, hdf]
        rw [hx]
        simp only [absStep]
        refine ⟨⟨hls, h.good⟩, ?_, ⟨hk1, hk2, hk3⟩, fun _ => Or.inl (noFail_cons _ _ (by simp) hnf),
          fun h' => by simp [hdf] at h', Or.inr ⟨by simpa [lastSign] using hls, hq⟩⟩
        intro S N g hm
        simp only [List.mem_cons] at hm
        rcases hm with hm | hm
        · cases hm; exact hq
        · exact h.rall S N g hm
    | iferrReject =>
      by_cases he : x.err = true
      · by_cases hp : x.st.pending.isNone = true
        · have hx : hStep env x .iferrReject = { x with done := true, panicked := true } := by
            simp [hStep, hdf, he, hp]
          rw [hx]
          exact ⟨h.good, h.rall, ⟨hk1, hk2, hk3⟩, fun h' => by simp at h', fun _ => Or.inr (Or.inl rfl),
            phase_done s env _ _ hb rfl⟩
        · have hx : hStep env x .iferrReject = { x with trace := .sendReject :: x.trace, done := true } := by
            simp [hStep, hdf, he, hp]
          rw [hx]
          refine ⟨by simpa [GoodTr] using h.good, rall_cons s env _ _ (by intro S N g; simp) h.rall,
            ⟨hk1, hk2, hk3⟩, fun h' => by simp at h', fun _ => ?_, phase_done s env _ _ hb rfl⟩
          rcases hlive with hnf | ⟨_, _, tr', htr, hnf⟩
          · exact Or.inl (noFail_cons _ _ (by simp) hnf)
          · exact Or.inr (Or.inr ⟨tr', by simp [htr], hnf⟩)
      · have hef : x.err = false := by simpa using he
        have hx : hStep env x .iferrReject = x := by simp [hStep, hdf, hef]
        rw [hx]
        have hnf : NoFail x.trace := by
          rcases hlive with hnf | ⟨_, he', _⟩
          · exact hnf
          · simp [hef] at he'
        refine ⟨h.good, h.rall, h.k, fun _ => Or.inl hnf, h.dead, ?_⟩
        cases a <;> simp [absStep] at hb ⊢ <;> first | exact absurd rfl hns | simp_all [Phase]
    | iferrReturn =>
      have hnf : NoFail x.trace := by
        cases a <;> simp [absStep] at hb <;> first | exact absurd rfl hns | simpa using hlive
      have haeq : absStep a .iferrReturn = a := by cases a <;> simp [absStep] at hb ⊢ <;> exact absurd rfl hns
      rw [haeq]
      by_cases he : x.err = true
      · have hx : hStep env x .iferrReturn = { x with done := true } := by simp [hStep, hdf, he]
        rw [hx]
        exact ⟨h.good, h.rall, ⟨hk1, hk2, hk3⟩, fun h' => by simp at h', fun _ => Or.inl hnf,
          phase_done s env a _ ha rfl⟩
      · have hx : hStep env x .iferrReturn = x := by simp [hStep, hdf, he]
        rw [hx]; exact ⟨h.good, h.rall, h.k, h.live, h.dead, h.phase⟩
    | ret =>
      have hnf : NoFail x.trace := by
        cases a <;> simp [absStep] at hb <;> first | exact absurd rfl hns | simpa using hlive
      have hx : hStep env x .ret = { x with done := true } := by simp [hStep, hdf]
      rw [hx]
      exact ⟨h.good, h.rall, ⟨hk1, hk2, hk3⟩, fun h' => by simp at h', fun _ => Or.inl hnf,
        phase_done s env _ _ hb rfl⟩

theorem phi_run (s : St) (env : HEnv) (prog : List HStmt) (a : Abs) (x : HS)
    (h : Phi s env a x) (hb : prog.foldl absStep a ≠ .bad) :
    Phi s env (prog.foldl absStep a) (prog.foldl (hStep env) x) := by
  induction prog generalizing a x with
  | nil => exact h
  | cons st rest ih =>
    simp only [List.foldl] at hb ⊢
    have hb1 : absStep a st ≠ .bad := by
      intro h'; rw [h', absStep_bad] at hb; exact hb rfl
    exact ih _ _ (phi_step s env a x st h hb1) hb

theorem phi_init (s : St) (env : HEnv) : Phi s env .noSig (hInit s) :=
  ⟨trivial, fun _ _ _ hm => by simp [hInit] at hm, ⟨rfl, rfl, rfl⟩,
   fun _ => Or.inl (by simp [NoFail, hInit]), fun h => by simp [hInit] at h, trivial⟩

/-- everything the invariant gives for a safe program -/
theorem safe_run (s : St) (env : HEnv) (prog : List HStmt) (hs : safeSign prog = true) :
    let h := handleSignParsed prog s env
    GoodTr h.trace ∧ RAll s env h.trace ∧ FailShape h ∧ h.done = true := by
  have hst : prog.foldl absStep .noSig = .stopped := by simpa [safeSign] using hs
  have hphi := phi_run s env prog .noSig (hInit s) (phi_init s env) (by rw [hst]; simp)
  rw [hst] at hphi
  have hd : (prog.foldl (hStep env) (hInit s)).done = true := hphi.phase
  exact ⟨hphi.good, hphi.rall, hphi.dead hd, hd⟩

theorem goodTr_split (tr post pre : List Ev) (S : List Sig) (N : List Key) (g : Option Staged)
    (h : GoodTr tr) (he : tr = post ++ Ev.sendSign S N g :: pre) : lastSign pre = some true := by
  induction post generalizing tr with
  | nil => subst he; exact h.1
  | cons e post ih =>
    subst he
    cases e <;> simp only [List.cons_append, GoodTr] at h
    · exact ih _ h rfl
    · exact ih _ h rfl
    · exact ih _ h rfl
    · exact ih _ h.2 rfl
    · exact ih _ h rfl

end Pool.C05
