import PoolProofs.C08Lemmas
import PoolProofs.C08I3Lemmas
import PoolProofs.C08I2Lemmas
import PoolProofs.C08I2Pres
/-!
# C08 — the stored account always matches a real output; lifecycle moves are legal

Headline theorems.  The model (`PoolModel/C08.lean`) is the per-account machine of the account manager; its
state switches are the tables regenerated from the Go source (`Pool.Gen.Lifecycle`), so every `decide` below
is re-checked against the current code.

* **I1** `C08_I1_all_histories` (induction over *all* op histories, incl. restarts at any position): the
  stored record – and the staged batch copy – describe an output of their latest transaction (or, while
  closing, an input it spends).
* **I4** `C08_I4_*`: every state change a handler / user action / batch can make lies in the documented
  lifecycle `Legal`; value-changing actions are accepted only on an open account (renewal / closure also on
  an expired one); `C08_closed_absorbing`: a closed account stays closed under every op of every history
  (environment assumptions A1/A2 as named hypotheses) and `C08_stale_batch_revives_closed` shows the
  hypothesis is needed.
* **I2** `C08_I2_resume_adequate`: for every state the regenerated `resumeAccount` clause arms the watcher
  the state waits for (the dynamic statement is evaluated by the Go oracle on the real registrations).
* **I3** `C08_I3_*`: a modification / closure appends the store write of the record carrying the
  transaction *before* its publication; the regenerated call order of `spendAccount` agrees.
-/
set_option linter.unusedSimpArgs false
set_option linter.unusedVariables false
namespace Pool.C08
open Pool.Gen

/-! ## I1 — record ↔ latest transaction, by induction over all histories -/

theorem C08_inv_init (k : Nat) : Inv1 (AState.init k) :=
  ⟨fun a h => by simp [AState.init] at h, fun a h => by simp [AState.init] at h,
   fun t h => by simp [AState.init] at h⟩

/-- one step of any op preserves I1 (for `recover`, the C20 op, under `OpOK`) -/
theorem C08_step_preserves_I1 (s : AState) (op : Op) (h : Inv1 s) (hop : OpOK s.key op) :
    Inv1 (step s op).1 := Inv1.step h op hop

/-- ops of the C08 alphabet: everything but the recovery op -/
def Op.plain : Op → Bool
  | .recover _ _ => false
  | _ => true

theorem opOK_plain (k : Nat) (op : Op) (h : op.plain = true) : OpOK k op := by
  cases op <;> simp [Op.plain] at h <;> trivial

/-- **C08 / I1 for all histories**: after every sequence of user actions, chain events, direct handler
calls, staged / completed / dropped batches, watch-matched calls and restarts (at any position, any number),
the stored record and the staged copy are consistent with their latest transaction. -/
theorem C08_I1_all_histories (s : AState) (ops : List Op) (h : Inv1 s) (hp : ∀ op ∈ ops, op.plain = true) :
    Inv1 (run s ops) := by
  induction ops generalizing s with
  | nil => exact h
  | cons op ops ih =>
    exact ih _ (Inv1.step h op (opOK_plain _ _ (hp op List.mem_cons_self)))
      (fun o ho => hp o (List.mem_cons_of_mem _ ho))

theorem C08_all_histories (k : Nat) (ops : List Op) (hp : ∀ op ∈ ops, op.plain = true) :
    Inv1 (run (AState.init k) ops) := C08_I1_all_histories _ ops (C08_inv_init k) hp

/-- a restart (new manager over the same store) at any reachable state preserves I1 -/
theorem C08_restart_preserves_I1 (s : AState) (feeOk : Bool) (f : Option (Nat × Nat)) (h : Inv1 s) :
    Inv1 (step s (.restart feeOk f)).1 := Inv1.step h _ trivial

/-- non-vacuity: a funded, confirmed, modified and restarted account satisfies the interesting clause -/
example :
    let s := run (AState.init 1) [.init 100000 1200 1 1000 (some (7, 1)), .conf 0 1003,
      .modify .deposit ⟨150000, true, 0, 1, 1000, 8, 0, true⟩, .restart true none]
    (s.acct.map (·.state)) = some .pendingUpdate ∧ (s.acct.map (·.outpoint)) = some ⟨8, 0⟩ := by
  decide

/-! ## I4 — lifecycle legality over the regenerated tables -/

/-- every transition of `HandleAccountConf` is in the documented lifecycle -/
theorem C08_I4_conf_legal (s t : State) (h : confNext s = some t) : Legal s t = true := by
  cases s <;> cases t <;> revert h <;> decide

/-- every transition of `HandleAccountExpiry` is in the documented lifecycle -/
theorem C08_I4_expiry_legal (s t : State) (h : expiryNext s = .to t) : Legal s t = true := by
  cases s <;> cases t <;> revert h <;> decide

/-- a spend that does not re-create the account output closes the account -/
theorem C08_I4_spend_closes : spendCloseState = .closed := by decide

/-- value-changing actions are accepted only on a confirmed open account; renewal and closure also on an
expired one; fee bumps only in pending states -/
theorem C08_I4_user_actions (s : State) :
    (accepts Lifecycle.acceptsDepositAccount s = true → s = .open_) ∧
    (accepts Lifecycle.acceptsWithdrawAccount s = true → s = .open_) ∧
    (accepts Lifecycle.acceptsRenewAccount s = true → s = .open_ ∨ s = .expired) ∧
    (accepts Lifecycle.acceptsCloseAccount s = true → s = .open_ ∨ s = .expired) ∧
    (accepts Lifecycle.acceptsBumpAccountFee s = true →
      s = .pendingOpen ∨ s = .pendingUpdate ∨ s = .pendingClosed) := by
  cases s <;> decide

/-- the user actions' target states are legal from every state in which they are accepted -/
theorem C08_I4_user_targets (s : State) :
    (accepts Lifecycle.acceptsDepositAccount s = true → Legal s .pendingUpdate = true) ∧
    (accepts Lifecycle.acceptsWithdrawAccount s = true → Legal s .pendingUpdate = true) ∧
    (accepts Lifecycle.acceptsRenewAccount s = true → Legal s .pendingUpdate = true) ∧
    (accepts Lifecycle.acceptsCloseAccount s = true → Legal s .pendingClosed = true) := by
  cases s <;> decide

/-- the batch storer only produces `pendingBatch` (output re-created, new outpoint) or `pendingClosed`
(output spent, outpoint kept); both are legal from the states the auctioneer matches (A2) and from the
states those reach through confirmations / expiry before the batch completes -/
theorem C08_I4_batch_targets :
    (∀ r ∈ Lifecycle.storerEnding, State.ofNat? r.2.1 = some (if r.2.2.1 then .pendingBatch else .pendingClosed)) ∧
    (∀ s ∈ [State.open_, .pendingBatch, .expired, .expiredPendingUpdate],
      Legal s .pendingBatch = true ∧ Legal s .pendingClosed = true) := by
  decide

/-- recovery and funding: `resumeAccount(StateInitiated)` only moves to `pendingOpen` or `canceled` -/
theorem C08_I4_initiated_targets : Legal .initiated .pendingOpen = true ∧ Legal .initiated .canceled = true := by
  decide

/-- **closed is absorbing**, table level: no handler, user action or resume clause changes a closed (or
canceled) account -/
theorem C08_closed_tables (s : State) (h : s = .closed ∨ s = .canceled) :
    confNext s = none ∧ (∀ t, expiryNext s ≠ .to t) ∧ resumeActs s = some [] ∧
    accepts Lifecycle.acceptsDepositAccount s = false ∧ accepts Lifecycle.acceptsWithdrawAccount s = false ∧
    accepts Lifecycle.acceptsRenewAccount s = false ∧ (s = .closed → accepts Lifecycle.acceptsCloseAccount s = false) := by
  rcases h with h | h <;> subst h <;> refine ⟨by decide, ?_, by decide, by decide, by decide, by decide, by decide⟩ <;>
    intro t <;> cases t <;> decide

/-- "the account is closed and no batch is staged for it" -/
def ClosedQuiet (s : AState) : Prop := (∃ a, s.acct = some a ∧ a.state = .closed) ∧ s.staged = none

/-- ops that cannot happen to a closed account under the environment assumptions: the auctioneer does not
stage a batch for it (A2), it is not re-created (`init` derives a fresh key) nor recovered over -/
def Op.afterClose : Op → Bool
  | .stage _ | .init _ _ _ _ _ | .recover _ _ => false
  | _ => true

theorem resumeRest_closed (s : AState) (a : Acct) (r : Bool) (h : a.state = .closed) :
    SameRec s (resumeRest s a r).1 := by
  unfold resumeRest
  have : resumeActs a.state = some [] := by rw [h]; decide
  rw [this]
  simp [rebroadcast, watchers]
  exact SameRec.refl s

theorem resume_closed (s : AState) (a : Acct) (r1 r2 f : Bool) (x : Option (Nat × Nat)) (h : a.state = .closed) :
    SameRec s (resume s a r1 r2 f x).1 := by
  unfold resume
  simp [h]
  exact resumeRest_closed s a r1 h

theorem closedQuiet_same {s s' : AState} (h : SameRec s s') (c : ClosedQuiet s) : ClosedQuiet s' := by
  obtain ⟨_, ha, hs, _⟩ := h
  exact ⟨by rw [ha]; exact c.1, by rw [hs]; exact c.2⟩

theorem closedQuiet_handleSpend (s : AState) (t : Tx) (h : Nat) (c : ClosedQuiet s) :
    ClosedQuiet (handleSpend s t h).1 := by
  obtain ⟨⟨a, ha, hst⟩, hq⟩ := c
  unfold handleSpend
  simp only [ha]
  have hco : completeOnly s = s := by simp [completeOnly, hq]
  split
  · exact ⟨⟨_, rfl, by simp [Acct.stored, spendCloseState_closed]⟩, hq⟩
  · split
    · rw [hco]; simp only [ha]
      split
      · exact closedQuiet_same (resume_closed s a _ _ _ _ hst) ⟨⟨a, ha, hst⟩, hq⟩
      · exact ⟨⟨_, rfl, by simp [Acct.stored, spendCloseState_closed]⟩, hq⟩
    · exact ⟨⟨a, ha, hst⟩, hq⟩

theorem closedQuiet_of (s' : AState) (a : Acct) (h1 : s'.acct = some a) (h2 : a.state = .closed)
    (h3 : s'.staged = none) : ClosedQuiet s' := ⟨⟨a, h1, h2⟩, h3⟩

theorem closedQuiet_setW {s : AState} (c : ClosedQuiet s) (w : Watch) : ClosedQuiet { s with w := w } :=
  ⟨c.1, c.2⟩

theorem closedQuiet_handleExpiry (s' : AState) (a : Acct) (h1 : s'.acct = some a) (h2 : a.state = .closed)
    (h3 : s'.staged = none) : ClosedQuiet (handleExpiry s') := by
  have hx := (C08_closed_tables .closed (Or.inl rfl)).2.1
  unfold handleExpiry
  rw [h1]
  simp only []
  cases hn : expiryNext a.state with
  | to t => rw [h2] at hn; exact absurd hn (hx t)
  | err => exact ⟨⟨a, h1, h2⟩, h3⟩
  | noop => exact ⟨⟨a, h1, h2⟩, h3⟩

/-- **C08 / closed is absorbing**, one step: under A1/A2 (nothing is staged for the account, no `stage`)
every op leaves a closed account closed – user actions are refused, confirmations / expiries / repeated
spend notifications, batch completions of other accounts, watch-matched calls and restarts do not move it. -/
theorem C08_closed_absorbing_step (s : AState) (op : Op) (c : ClosedQuiet s) (hop : op.afterClose = true) :
    ClosedQuiet (step s op).1 := by
  obtain ⟨⟨a, ha, hst⟩, hq⟩ := c
  have c : ClosedQuiet s := ⟨⟨a, ha, hst⟩, hq⟩
  cases op with
  | init v e ver h f => simp [Op.afterClose] at hop
  | stage g => simp [Op.afterClose] at hop
  | recover a k => simp [Op.afterClose] at hop
  | modify k m =>
    have := C08_closed_tables .closed (Or.inl rfl)
    cases k <;> simp [step, modify, ha, hst, this.2.2.2.1, this.2.2.2.2.1, this.2.2.2.2.2.1] <;> exact c
  | close h t ok sg =>
    have := C08_closed_tables .closed (Or.inl rfl)
    simp [step, close, ha, hst, this.2.2.2.2.2.2 rfl]; exact c
  | bump =>
    simp only [step, bump, ha]
    repeat' split
    all_goals exact c
  | conf pos h =>
    simp only [step]
    split
    · exact c
    · have hc := (C08_closed_tables .closed (Or.inl rfl)).1
      simp only [handleConf, ha, hst, hc]
      exact ⟨⟨a, by simp [ha], hst⟩, by simp [hq]⟩
  | confDirect h =>
    simp [step, handleConf, ha, hst, (C08_closed_tables .closed (Or.inl rfl)).1]; exact c
  | spend pos k h =>
    simp only [step]
    split
    · exact c
    · split
      · exact c
      · apply closedQuiet_setW
        apply closedQuiet_handleSpend
        exact closedQuiet_of _ a ha hst hq
  | consumeSpend pos =>
    simp only [step]
    split
    · exact c
    · exact closedQuiet_of _ a ha hst hq
  | spendH t h =>
    simp only [step]
    apply closedQuiet_setW
    exact closedQuiet_handleSpend s t h c
  | spendDirect k h =>
    simp only [step]
    split
    · exact c
    · exact closedQuiet_handleSpend s _ h c
  | block h =>
    simp only [step]
    split
    · split
      · exact closedQuiet_handleExpiry _ a ha hst hq
      · exact closedQuiet_of _ a ha hst hq
    · exact closedQuiet_of _ a ha hst hq
  | expiryDirect =>
    simp only [step]
    exact closedQuiet_handleExpiry s a ha hst hq
  | completeOnly => simp [step, completeOnly, hq]; exact c
  | dropStage => exact ⟨⟨a, ha, hst⟩, rfl⟩
  | watchMatched =>
    simp only [step, watchMatched, ha]
    exact closedQuiet_same (SameRec.trans (SameRec.trans (same_cancelSpend s) (same_cancelConf _))
      (resume_closed _ a _ _ _ _ hst)) c
  | restart feeOk f =>
    simp only [step, ha]
    exact closedQuiet_same (resume_closed _ a _ _ _ _ hst) (closedQuiet_of _ a rfl hst hq)
  | flush => exact closedQuiet_of _ a ha hst hq

/-- **C08 / closed is absorbing**, all histories -/
theorem C08_closed_absorbing (s : AState) (ops : List Op) (c : ClosedQuiet s)
    (hop : ∀ op ∈ ops, op.afterClose = true) : ClosedQuiet (run s ops) := by
  induction ops generalizing s with
  | nil => exact c
  | cons op ops ih =>
    exact ih _ (C08_closed_absorbing_step s op c (hop op List.mem_cons_self))
      (fun o ho => hop o (List.mem_cons_of_mem _ ho))

/-- the full statement without A1: "a closed account never changes again, whatever happens" -/
def C08_closed_full_statement : Prop :=
  ∀ (s : AState) (op : Op), (∃ a, s.acct = some a ∧ a.state = .closed) → op.afterClose = true →
    ∃ a, (step s op).1.acct = some a ∧ a.state = .closed

def staleWitness : AState :=
  let a : Acct := { state := .closed, outpoint := ⟨1, 0⟩, value := 0, expiry := 1200, version := 0, bk := 0,
                    heightHint := 1100, latestTx := none }
  { key := 1, acct := some a,
    staged := some { a with state := .pendingBatch, outpoint := ⟨2, 0⟩, value := 50000, bk := 1 } }

/-- … is false: a batch staged while the account was open and completed after it was closed (stale
staged copy, outside A1) overwrites the closed record – `MarkBatchComplete` applies the staged copy
unconditionally.  Replayed on the real code: corpus/C08/stale-staged-batch.json. -/
theorem C08_stale_batch_revives_closed : ¬ C08_closed_full_statement := by
  intro h
  obtain ⟨a, ha, hs⟩ := h staleWitness .completeOnly ⟨_, rfl, rfl⟩ rfl
  simp [step, completeOnly, staleWitness, write, Acct.stored] at ha
  subst ha
  simp at hs

/-- non-vacuity of `C08_closed_absorbing`: a closed, quiet state is reachable -/
example :
    let s := run (AState.init 1) [.init 100000 1200 0 1000 (some (7, 0)), .conf 0 1003,
      .close 1004 9 true true, .spend 0 .latest 1005]
    (s.acct.map (·.state)) = some .closed ∧ s.staged = none := by decide

/-! ## I2 — the regenerated resume / handler clauses arm the watcher the state waits for -/

def waitsForConf : State → Bool
  | .pendingOpen | .pendingUpdate | .pendingBatch | .expiredPendingUpdate => true
  | _ => false

/-- for every state: the clause of `resumeAccount` (used on restart, on watch-matched and when a spend
re-creates the output) registers the confirmation watcher if the state waits for a confirmation, the spend
(+ expiry) watcher if it waits for a spend; `HandleAccountConf` arms spend + expiry through
`handleStateOpen` after its store write. -/
theorem C08_I2_resume_adequate (s : State) :
    (waitsForConf s = true → ∃ acts, resumeActs s = some acts ∧ acts.contains "WatchAccountConf" = true) ∧
    (s = .open_ → ∃ acts, resumeActs s = some acts ∧ acts.contains "handleStateOpen" = true) ∧
    ((s = .expired ∨ s = .pendingClosed) →
      ∃ acts, resumeActs s = some acts ∧ acts.contains "WatchAccountSpend" = true) ∧
    Lifecycle.handleStateOpenCalls.contains "WatchAccountSpend" = true ∧
    Lifecycle.handleStateOpenCalls.contains "WatchAccountExpiration" = true ∧
    -- the confirmation handler writes the new state, then arms the watchers of an open account
    callsBefore Lifecycle.handleConfCalls "UpdateAccount" "handleStateOpen" = true ∧
    -- a matched account drops its old watchers before it is resumed (not as a restart, not as a recovery)
    callsBefore Lifecycle.watchMatchedAccountsCalls "CancelAccountSpend" "resumeAccount(false,false,0)" = true ∧
    callsBefore Lifecycle.watchMatchedAccountsCalls "CancelAccountConf" "resumeAccount(false,false,0)" = true ∧
    -- start-up resumes every account as a restart
    Lifecycle.startCalls.contains "resumeAccount(true,false,feeRate)" = true := by
  cases s <;> decide

/-- **I2 after a restart**: when the start-up resumption of the account succeeds, the account is watched for
the event its state waits for (`Adq`) – the new manager starts from an empty watcher registry -/
theorem C08_I2_restart (s : AState) (fee : Bool) (f : Option (Nat × Nat))
    (hok : (step s (.restart fee f)).2 = .ok) : Inv2 (step s (.restart fee f)).1 := by
  cases hacct : s.acct with
  | none =>
    simp only [step, hacct]
    intro a ha; simp at ha
  | some a =>
    simp only [step, hacct] at hok ⊢
    exact resume_inv2 _ a _ _ _ _ (fun _ => rfl) hok

/-- **I2 after WatchMatchedAccounts** (batch finalisation): both watchers are cancelled and re-armed -/
theorem C08_I2_watchMatched (s : AState) (hok : (step s .watchMatched).2 = .ok) :
    Inv2 (step s .watchMatched).1 := by
  simp only [step, watchMatched] at hok ⊢
  split
  · rename_i hn; simp only [hn] at hok; simp at hok
  · rename_i a ha
    simp only [ha] at hok
    have ha' : (cancelConf (cancelSpend s)).acct = some a := by
      rw [(same_cancelConf _).2.1, (same_cancelSpend _).2.1]; exact ha
    exact resume_inv2 _ a _ _ _ _ (fun _ => ha') hok

/-- **I2 after account creation** -/
theorem C08_I2_init (s : AState) (v e ver h : Nat) (f : Option (Nat × Nat))
    (hok : (step s (.init v e ver h f)).2 = .ok) : Inv2 (step s (.init v e ver h f)).1 := by
  simp only [step, initAccount] at hok ⊢
  exact resume_inv2 _ _ _ _ _ _ (fun hne => absurd rfl hne) hok

/-- **I2 is preserved by a confirmation handled in any state**, and established whenever the
confirmation moves the account (`handleStateOpen` arms spend + expiry) -/
theorem C08_I2_conf (s : AState) (h : Nat) (i2 : Inv2 s) : Inv2 (step s (.confDirect h)).1 :=
  handleConf_inv2 s h i2

/-- one step of any op preserves I2, given I1 and the environment conditions `EnvOK` (A3 for delivered
spends; a bare batch completion must find the staged copy watched – the open finding
`C08/complete-without-rewatch` is exactly the failure of that condition) -/
theorem C08_step_preserves_I2 (s : AState) (op : Op) (h1 : Inv1 s) (h2 : Inv2 s) (henv : EnvOK s op) :
    Inv2 (step s op).1 := Inv2.step h2 h1 op henv

/-- histories whose every step meets the environment conditions -/
def EnvHist : AState → List Op → Prop
  | _, [] => True
  | s, op :: ops => EnvOK s op ∧ op.plain = true ∧ EnvHist (step s op).1 ops

/-- **C08 / I1 ∧ I2 ∧ I3 for all histories** (joint induction: I2 and I3 use I1) -/
theorem C08_I1_I2_I3_all_histories (s : AState) (ops : List Op) (h1 : Inv1 s) (h2 : Inv2 s) (h3 : Inv3 s)
    (he : EnvHist s ops) : Inv1 (run s ops) ∧ Inv2 (run s ops) ∧ Inv3 (run s ops) := by
  induction ops generalizing s with
  | nil => exact ⟨h1, h2, h3⟩
  | cons op ops ih =>
    obtain ⟨henv, hp, hrest⟩ := he
    have hop := opOK_plain s.key op hp
    exact ih _ (Inv1.step h1 op hop) (Inv2.step h2 h1 op henv) (Inv3.step h3 h1 op hop) hrest

/-- **C08 / I2 for all histories**: after every history of user actions (accepted or refused), confirmations,
admissible spend notifications on any live watcher, direct handler calls in any state, blocks, staged /
finalised / dropped batches, watch-matched calls and restarts at any position, the stored account is watched
for the on-chain event its state is waiting for. -/
theorem C08_I2_all_histories (k : Nat) (ops : List Op) (he : EnvHist (AState.init k) ops) :
    Inv2 (run (AState.init k) ops) :=
  (C08_I1_I2_I3_all_histories _ ops (C08_inv_init k) (inv2_none _ rfl)
    ⟨rfl, fun a t h => by simp [AState.init] at h⟩ he).2.1

/-- non-vacuity of `EnvHist`: a history with funding, confirmation, renewal, expiry, closure and restarts -/
example : EnvHist (AState.init 1) [.init 100000 1200 0 1000 (some (7, 0)), .restart true none, .conf 0 1003,
    .modify .renew ⟨99000, true, 1300, 0, 1004, 8, 0, true⟩, .block 1400, .confDirect 1401, .restart true none,
    .close 1402 9 true true, .watchMatched] := by
  simp [EnvHist, EnvOK, Op.plain]

/-- non-vacuity: restart of an open account re-arms spend and expiry watchers -/
example :
    let s := (step (run (AState.init 1) [.init 100000 1200 0 1000 (some (7, 0)), .conf 0 1003]) (.restart true none)).1
    s.w.spendRegs.map (·.op) = [⟨7, 0⟩] ∧ s.w.expiry = some 1200 := by decide

/-- every site that can change the expiry an open account is tracked under has to re-register it: `RenewAccount`
does (regenerated call list); `handleStateOpen` does after every confirmation (see `C08_I2_resume_adequate`) -/
theorem C08_renew_rearms_expiry : Lifecycle.renewAccountCalls.contains "WatchAccountExpiration" = true := by
  decide

/-! ## I3 — the store write precedes the publication -/

/-- what the scan `chk` means: wherever a `publish t` occurs in the trace, an earlier effect is the store
write of a record whose latest transaction is `t` -/
theorem chk_spec (w : List Tx) (l : List Effect) (h : chk w l = true) (l1 l2 : List Effect) (t : Tx)
    (hl : l = l1 ++ Effect.publish t :: l2) : t ∈ w ∨ ∃ a, Effect.write a ∈ l1 ∧ a.latestTx = some t := by
  induction l1 generalizing w l with
  | nil =>
    subst hl
    simp [chk] at h
    exact Or.inl h.1
  | cons e l1 ih =>
    subst hl
    cases e with
    | write a =>
      simp only [List.cons_append, chk] at h
      rcases ih _ _ h rfl with hw | ⟨b, hb, hbt⟩
      · simp only [List.mem_append, Option.mem_toList] at hw
        rcases hw with hw | hw
        · exact Or.inr ⟨a, List.mem_cons_self, hw⟩
        · exact Or.inl hw
      · exact Or.inr ⟨b, List.mem_cons_of_mem _ hb, hbt⟩
    | publish t' =>
      simp only [List.cons_append, chk, Bool.and_eq_true] at h
      rcases ih _ _ h.2 rfl with hw | ⟨b, hb, hbt⟩
      · exact Or.inl hw
      · exact Or.inr ⟨b, List.mem_cons_of_mem _ hb, hbt⟩
    | fund o =>
      simp only [List.cons_append, chk] at h
      rcases ih _ _ h rfl with hw | ⟨b, hb, hbt⟩
      · exact Or.inl hw
      · exact Or.inr ⟨b, List.mem_cons_of_mem _ hb, hbt⟩

theorem C08_I3_init (k : Nat) : Inv3 (AState.init k) :=
  ⟨rfl, fun a t h => by simp [AState.init] at h⟩

/-- one step of any op preserves I3 (given I1, which the pending-open rebroadcast on restart needs) -/
theorem C08_step_preserves_I3 (s : AState) (op : Op) (h1 : Inv1 s) (h3 : Inv3 s) (hop : OpOK s.key op) :
    Inv3 (step s op).1 := Inv3.step h3 h1 op hop

theorem C08_I1_I3_all_histories (s : AState) (ops : List Op) (h1 : Inv1 s) (h3 : Inv3 s)
    (hp : ∀ op ∈ ops, op.plain = true) : Inv1 (run s ops) ∧ Inv3 (run s ops) := by
  induction ops generalizing s with
  | nil => exact ⟨h1, h3⟩
  | cons op ops ih =>
    have hop := opOK_plain s.key op (hp op List.mem_cons_self)
    exact ih _ (Inv1.step h1 op hop) (Inv3.step h3 h1 op hop) (fun o ho => hp o (List.mem_cons_of_mem _ ho))

/-- **C08 / I3 for all histories**: in the effect trace of every history (user actions, chain events,
batches, restarts anywhere) every `PublishTransaction` of a transaction is preceded by a store write of a
record whose latest transaction it is. -/
theorem C08_I3_all_histories (k : Nat) (ops : List Op) (hp : ∀ op ∈ ops, op.plain = true)
    (l1 l2 : List Effect) (t : Tx) (hl : (run (AState.init k) ops).trace = l1 ++ Effect.publish t :: l2) :
    ∃ a, Effect.write a ∈ l1 ∧ a.latestTx = some t := by
  have h := (C08_I1_I3_all_histories _ ops (C08_inv_init k) (C08_I3_init k) hp).2.ok
  rcases chk_spec [] _ h l1 l2 t hl with hw | hw
  · simp at hw
  · exact hw

/-- non-vacuity: a history with a rebroadcast on restart and a published closure -/
example :
    let s := run (AState.init 1) [.init 100000 1200 0 1000 (some (7, 0)), .restart true none, .conf 0 1003,
      .close 1004 9 true true, .restart true none]
    (s.trace.filter (fun e => match e with | .publish _ => true | _ => false)).length = 3 := by decide

/-- regenerated call order of `spendAccount`: sign, `UpdateAccount`, then `maybeBroadcastTx`; the multi-sig
branch of `HandleAccountSpend` completes the batch before resuming; the funding clause writes after
`SendOutputs` and the recovery clause never reaches `SendOutputs` unless the look-up found nothing (`[notLocated]`) -/
theorem C08_I3_call_order :
    -- sign, then write, then publish – and nothing is published before the write
    callsBefore Lifecycle.spendAccountCalls "signSpendTx" "UpdateAccount" = true ∧
    callsBefore Lifecycle.spendAccountCalls "UpdateAccount" "maybeBroadcastTx" = true ∧
    Lifecycle.spendAccountCalls.contains "PublishTransaction" = false ∧
    -- spends are classified expiry first, then multi-sig, anything else is refused; an expiry spend goes
    -- straight to the closing write
    Lifecycle.handleSpendKinds = [("expiry", "break"), ("multisig", "calls"), ("default", "return-error")] ∧
    -- the multi-sig branch commits the pending batch before it resumes the re-created account
    callsBefore Lifecycle.handleSpendMultisigCalls "PendingBatch" "MarkBatchComplete" = true ∧
    callsBefore Lifecycle.handleSpendMultisigCalls "MarkBatchComplete" "resumeAccount(false,false,0)" = true := by
  decide

/-- **staged copy follows the whole diff**: the optional attributes of a re-created account output – the
extended expiry and the upgraded version – are decided independently of each other (regenerated:
`storerOptionalExclusive = false`), so the staged record of a diff that carries both has the new expiry *and* the
new version, exactly what the batch verifier (C02/C03) derived the output script of the batch transaction from. -/
theorem C08_staged_copy_follows_diff (s : AState) (a : Acct) (g : StageArgs)
    (ha : s.acct = some a) (hend : g.ending = 0) :
    ∃ b, (stage s g).1.staged = some b ∧ (stage s g).2 = .ok ∧
      b.expiry = (if g.supportsExt && g.newExpiry != 0 then g.newExpiry else a.expiry) ∧
      b.version = (if g.supportsUpgrade && g.newVersion > a.version then g.newVersion else a.version) ∧
      b.outpoint = { txid := g.txid, idx := g.idx } ∧ b.bk = a.bk + 1 ∧ b.state = .pendingBatch := by
  have hx : Lifecycle.storerOptionalExclusive = false := by decide
  have hl : Lifecycle.storerEnding.lookup 0 = some (8, true, true) := by decide
  have h8 : State.ofNat? 8 = some .pendingBatch := by decide
  simp [stage, ha, hend, hl, hx, h8]

/-- non-vacuity: a version-0 account whose batch diff extends the expiry and upgrades to version 1 -/
example :
    let s := run (AState.init 1) [.init 100000 1200 0 1000 (some (7, 0)), .conf 0 1003]
    let g : StageArgs := { ending := 0, txid := 9, idx := 0, endBal := 50000, newExpiry := 5000, newVersion := 1,
                           supportsExt := true, supportsUpgrade := true, height := 1004 }
    ((stage s g).1.staged.map fun b => (b.expiry, b.version)) = some (5000, 1) := by decide

/-- a closure appends exactly: the write of the pending-closed record carrying the closing transaction,
then (if signed) its publication -/
theorem C08_I3_close_write_before_publish (s : AState) (a : Acct) (h txid : Nat) (sg : Bool)
    (ha : s.acct = some a) (hacc : accepts Lifecycle.acceptsCloseAccount a.state = true) :
    ∃ a' t, a'.latestTx = some t ∧ a'.state = .pendingClosed ∧
      (close s h txid true sg).1.trace =
        s.trace ++ [.write a'] ++ (if sg then [.publish t] else []) := by
  let t : Tx := { id := txid, spends := [a.outpoint], outs := [], signed := sg, wit := witnessType a h }
  refine ⟨{ a with value := 0, state := .pendingClosed, heightHint := h, latestTx := some t }, t, rfl, rfl, ?_⟩
  simp only [close, ha, hacc]
  cases sg <;> simp [maybeBroadcast, write, Acct.stored, t]

end Pool.C08
