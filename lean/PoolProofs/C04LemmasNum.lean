import PoolProofs.C04Lemmas

/-! Script-number lemmas for C04: explicit byte forms of `scriptNumBytes n` for every `n < 2^32`,
round trip through `makeScriptNum`, truthiness, lengths. -/
set_option linter.unusedSimpArgs false
namespace Pool.C04

theorem u8 (x : Nat) : (UInt8.ofNat x).toNat = x % 256 := by simp [UInt8.toNat_ofNat']

/-- explicit byte forms, by length class -/
theorem scriptNumBytes_form (n : Nat) (h : n < 2 ^ 32) :
    scriptNumBytes n =
      if n = 0 then []
      else if n < 128 then [UInt8.ofNat (n % 256)]
      else if n < 256 then [UInt8.ofNat (n % 256), 0]
      else if n < 32768 then [UInt8.ofNat (n % 256), UInt8.ofNat (n / 256 % 256)]
      else if n < 65536 then [UInt8.ofNat (n % 256), UInt8.ofNat (n / 256 % 256), 0]
      else if n < 8388608 then [UInt8.ofNat (n % 256), UInt8.ofNat (n / 256 % 256), UInt8.ofNat (n / 256 / 256 % 256)]
      else if n < 16777216 then
        [UInt8.ofNat (n % 256), UInt8.ofNat (n / 256 % 256), UInt8.ofNat (n / 256 / 256 % 256), 0]
      else if n < 2147483648 then
        [UInt8.ofNat (n % 256), UInt8.ofNat (n / 256 % 256), UInt8.ofNat (n / 256 / 256 % 256),
          UInt8.ofNat (n / 256 / 256 / 256 % 256)]
      else
        [UInt8.ofNat (n % 256), UInt8.ofNat (n / 256 % 256), UInt8.ofNat (n / 256 / 256 % 256),
          UInt8.ofNat (n / 256 / 256 / 256 % 256), 0] := by
  by_cases h0 : n = 0
  · simp [h0, scriptNumBytes]
  by_cases h1 : n < 256
  · have d1 : n / 256 = 0 := by omega
    by_cases hs : n < 128
    · have : ¬ (128 ≤ n % 256) := by omega
      simp [scriptNumBytes, leBytesAux, h0, d1, hs, u8, this]
    · have : 128 ≤ n % 256 := by omega
      simp [scriptNumBytes, leBytesAux, h0, d1, hs, h1, u8, this]
  by_cases h2 : n < 65536
  · have d1 : n / 256 ≠ 0 := by omega
    have d2 : n / 256 / 256 = 0 := by omega
    by_cases hs : n < 32768
    · have : ¬ (128 ≤ n / 256 % 256) := by omega
      have g : ¬ n < 128 := by omega
      simp [scriptNumBytes, leBytesAux, h0, d1, d2, hs, h1, g, u8, this]
    · have : 128 ≤ n / 256 % 256 := by omega
      have g : ¬ n < 128 := by omega
      simp [scriptNumBytes, leBytesAux, h0, d1, d2, hs, h1, h2, g, u8, this]
  by_cases h3 : n < 16777216
  · have d1 : n / 256 ≠ 0 := by omega
    have d2 : n / 256 / 256 ≠ 0 := by omega
    have d3 : n / 256 / 256 / 256 = 0 := by omega
    have g : ¬ n < 128 := by omega
    have g2 : ¬ n < 32768 := by omega
    by_cases hs : n < 8388608
    · have : ¬ (128 ≤ n / 256 / 256 % 256) := by omega
      simp [scriptNumBytes, leBytesAux, h0, d1, d2, d3, hs, h1, h2, g, g2, u8, this]
    · have : 128 ≤ n / 256 / 256 % 256 := by omega
      simp [scriptNumBytes, leBytesAux, h0, d1, d2, d3, hs, h1, h2, h3, g, g2, u8, this]
  · have d1 : n / 256 ≠ 0 := by omega
    have d2 : n / 256 / 256 ≠ 0 := by omega
    have d3 : n / 256 / 256 / 256 ≠ 0 := by omega
    have d4 : n / 256 / 256 / 256 / 256 = 0 := by omega
    have g : ¬ n < 128 := by omega
    have g2 : ¬ n < 32768 := by omega
    have g3 : ¬ n < 8388608 := by omega
    by_cases hs : n < 2147483648
    · have : ¬ (128 ≤ n / 256 / 256 / 256 % 256) := by omega
      simp [scriptNumBytes, leBytesAux, h0, d1, d2, d3, d4, hs, h1, h2, h3, g, g2, g3, u8, this]
    · have : 128 ≤ n / 256 / 256 / 256 % 256 := by omega
      simp [scriptNumBytes, leBytesAux, h0, d1, d2, d3, d4, hs, h1, h2, h3, g, g2, g3, u8, this]

theorem numOK_scriptNum (n : Nat) (h : n < 2 ^ 32) : NumOK (scriptNumBytes n) n := by
  rw [scriptNumBytes_form n h]
  by_cases h0 : n = 0
  · subst h0; exact ⟨by simp, by simp [makeScriptNum, checkMinimal, cltvMaxScriptNumLen], by simp [asBool]⟩
  simp only [h0, if_false]
  repeat' split
  all_goals
    refine ⟨by simp, ?_, ?_⟩
    · simp [makeScriptNum, checkMinimal, decodeLE, u8, cltvMaxScriptNumLen]
      repeat' split
      all_goals first | omega | (simp only [Except.ok.injEq]; omega)
    · simp [asBool, u8, h0]
      try omega

end Pool.C04
