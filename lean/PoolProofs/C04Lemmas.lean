import PoolModel.C04

/-! Helper lemmas for C04: the interpreter on the two account scripts (instruction level). -/
namespace Pool.C04

/-- the engine's view of `accountWitnessScript`: what `parseScript` yields (see `parse_accountWitnessScript`) -/
def accountInstrs (expiry : Nat) (tk ak : Bytes) : List Instr :=
  [.push tk, .checksigverify, .push ak, .checksig, .ifdup, .notif, .push (scriptNumBytes expiry), .cltv, .endif]

/-- the engine's view of the taproot expiry leaf -/
def taprootInstrs (expiry : Nat) (tkx : Bytes) : List Instr :=
  [.push tkx, .checksigverify, .push (scriptNumBytes expiry), .cltv]

/-- context under txscript.StandardVerifyFlags -/
def stdCtx (tap : Bool) (lockTime sequence : Nat) (sigOK : Bytes → Bytes → Bool) : Ctx :=
  { tapscript := tap, lockTime := lockTime, sequence := sequence, sigOK := sigOK }

/-- what the interpreter needs to know about the pushed expiry number -/
structure NumOK (N : Bytes) (e : Nat) : Prop where
  len : N.length ≤ 5
  dec : makeScriptNum N true cltvMaxScriptNumLen = .ok (e : Int)
  truthy : asBool N = decide (e ≠ 0)

theorem asBool_one : asBool [1] = true := by decide
theorem asBool_nil : asBool [] = false := rfl

/-- The CLTV opcode on a stack whose top is a well-formed number. -/
theorem opCLTV_num (c : Ctx) (N : Bytes) (e : Nat) (rest : List Bytes) (hN : NumOK N e) (hm : c.minimalData = true) :
    opCLTV c (N :: rest) =
      if cltvSatisfied c.lockTime c.sequence e then .ok (N :: rest) else .error .unsatisfiedLockTime := by
  simp [opCLTV, hm, hN.dec]
  intro h; omega

/-- final verdict of a witness-v0 script that ended with `top :: rest` on the stack -/
def v0Final (top : Bytes) (rest : List Bytes) : Except Err Unit :=
  if rest ≠ [] then .error .evalFalse else if asBool top then .ok () else .error .evalFalse

macro "run_simp" "[" ts:Lean.Parser.Tactic.simpLemma,* "]" : tactic =>
  `(tactic| simp [runScript, runInstrs, step, executing, opCheckSig, stdCtx, fromBool, asBool_one, asBool_nil,
      popIfBool, finalCheck, v0Final, $ts,*])

/-- Exact outcome (including the error code) of the p2wsh account script on any initial stack. -/
theorem p2wsh_run (lt sq : Nat) (sigOK : Bytes → Bytes → Bool) (e : Nat) (tk ak N : Bytes)
    (htk : tk.length ≤ 520) (hak : ak.length ≤ 520) (hN : NumOK N e) (stack : List Bytes) :
    runScript (stdCtx false lt sq sigOK)
      [.push tk, .checksigverify, .push ak, .checksig, .ifdup, .notif, .push N, .cltv, .endif] stack =
    match stack with
    | [] => .error .invalidStackOperation
    | [σt] =>
      if σt = [] then .error .checkSigVerify
      else if sigOK tk σt = false then .error .nullFail
      else .error .invalidStackOperation
    | σt :: σa :: rest =>
      if σt = [] then .error .checkSigVerify
      else if sigOK tk σt = false then .error .nullFail
      else if σa = [] then
        (if cltvSatisfied lt sq e then v0Final N rest else .error .unsatisfiedLockTime)
      else if sigOK ak σa = false then .error .nullFail
      else v0Final [1] rest := by
  have hNl : ¬ N.length > MaxScriptElementSize := by have := hN.len; simp [MaxScriptElementSize]; omega
  have htk' : ¬ tk.length > MaxScriptElementSize := by simp [MaxScriptElementSize]; omega
  have hak' : ¬ ak.length > MaxScriptElementSize := by simp [MaxScriptElementSize]; omega
  have hcl := fun rest => opCLTV_num (stdCtx false lt sq sigOK) N e rest hN rfl
  simp only [stdCtx] at hcl
  match stack with
  | [] => run_simp [htk']
  | [σt] =>
    cases σt with
    | nil => run_simp [htk']
    | cons t0 ts =>
      cases hvt : sigOK tk (t0 :: ts) <;> run_simp [htk', hak', hvt]
  | σt :: σa :: rest =>
    cases σt with
    | nil => run_simp [htk']
    | cons t0 ts =>
      cases hvt : sigOK tk (t0 :: ts) with
      | false => run_simp [htk', hvt]
      | true =>
        cases σa with
        | nil =>
          cases hc : cltvSatisfied lt sq e with
          | false => run_simp [htk', hak', hNl, hvt, hcl, hc]
          | true =>
            cases rest with
            | nil => cases hb : asBool N <;> run_simp [htk', hak', hNl, hvt, hcl, hc, hb]
            | cons r rs => run_simp [htk', hak', hNl, hvt, hcl, hc]
        | cons a0 as =>
          cases hva : sigOK ak (a0 :: as) with
          | false => run_simp [htk', hak', hvt, hva]
          | true =>
            cases rest with
            | nil => run_simp [htk', hak', hNl, hvt, hva]
            | cons r rs => run_simp [htk', hak', hNl, hvt, hva]

/-- final verdict of a tapscript leaf that ended with `top :: rest` on the stack -/
def tapFinal (top : Bytes) (rest : List Bytes) : Except Err Unit :=
  if rest ≠ [] then .error .cleanStack else if asBool top then .ok () else .error .evalFalse

/-- Exact outcome of the taproot expiry leaf on any initial stack. -/
theorem tap_run (lt sq : Nat) (sigOK : Bytes → Bytes → Bool) (e : Nat) (tkx N : Bytes)
    (htk : tkx.length = 32) (hN : NumOK N e) (stack : List Bytes) :
    runScript (stdCtx true lt sq sigOK) [.push tkx, .checksigverify, .push N, .cltv] stack =
    match stack with
    | [] => .error .invalidStackOperation
    | σt :: rest =>
      if σt = [] then .error .checkSigVerify
      else if schnorrSigLenOK σt = false then .error .taprootSigLen
      else if sigOK tkx σt = false then .error .nullFail
      else if cltvSatisfied lt sq e then tapFinal N rest else .error .unsatisfiedLockTime := by
  have hNl : ¬ N.length > MaxScriptElementSize := by have := hN.len; simp [MaxScriptElementSize]; omega
  have htk' : ¬ tkx.length > MaxScriptElementSize := by simp [MaxScriptElementSize]; omega
  have hne : tkx ≠ [] := by intro h; simp [h] at htk
  have h32 : ¬ MaxScriptElementSize < 32 := by decide
  have hcl := fun rest => opCLTV_num (stdCtx true lt sq sigOK) N e rest hN rfl
  simp only [stdCtx] at hcl
  match stack with
  | [] => run_simp [htk']
  | σt :: rest =>
    cases σt with
    | nil => run_simp [htk', htk, hne, h32]
    | cons t0 ts =>
      cases hl : schnorrSigLenOK (t0 :: ts) with
      | false => run_simp [htk', htk, hne, h32, hl]
      | true =>
        cases hvt : sigOK tkx (t0 :: ts) with
        | false => run_simp [htk', htk, hne, h32, hl, hvt]
        | true =>
          cases hc : cltvSatisfied lt sq e with
          | false => run_simp [htk', htk, hne, h32, hl, hvt, hNl, hcl, hc]
          | true =>
            cases rest with
            | nil => cases hb : asBool N <;> run_simp [htk', htk, hne, h32, hl, hvt, hNl, hcl, hc, hb, tapFinal]
            | cons r rs => run_simp [htk', htk, hne, h32, hl, hvt, hNl, hcl, hc, tapFinal]

end Pool.C04
