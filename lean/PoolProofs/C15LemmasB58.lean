import PoolProofs.C15Lemmas
import PoolModel.Dec.Base58
/-! base58: `Decode (Encode b) = b`. -/
namespace Pool.Dec

theorem alloc_ok_of_le {m n : Nat} (h : n ≤ m) : alloc m n = .ok () := by
  unfold alloc; rw [if_neg (by omega)]

theorem b58Index_char : ∀ d, d < 58 → b58Index (b58Char d) = some d := by
  have h : ∀ d ∈ List.range 58, b58Index (b58Char d) = some d := by decide
  intro d hd; exact h d (List.mem_range.2 hd)

theorem b58Char_ne_zero : ∀ d, 0 < d → d < 58 → b58Char d ≠ b58Char 0 := by
  have h : ∀ d ∈ List.range 58, 0 < d → b58Char d ≠ b58Char 0 := by decide
  intro d h0 hd; exact h d (List.mem_range.2 hd) h0

/-- digit values of `n` in radix `B`, most significant first -/
def valsF (B : Nat) : Nat → Nat → List Nat
  | 0, _ => []
  | fuel + 1, n => if n = 0 then [] else valsF B fuel (n / B) ++ [n % B]

theorem natDigits58F_eq (fuel n : Nat) : natDigits58F fuel n = (valsF 58 fuel n).map b58Char := by
  induction fuel generalizing n with
  | zero => rfl
  | succ f ih =>
    simp only [natDigits58F, valsF]
    split
    · rfl
    · rw [ih]; simp

theorem valsF_lt (B : Nat) (hB : 0 < B) (fuel n : Nat) : ∀ d ∈ valsF B fuel n, d < B := by
  induction fuel generalizing n with
  | zero => intro d hd; cases hd
  | succ f ih =>
    intro d hd
    simp only [valsF] at hd
    split at hd
    · cases hd
    · rcases List.mem_append.1 hd with h | h
      · exact ih _ d h
      · simp at h; subst h; exact Nat.mod_lt _ hB

theorem foldl58_append (xs : List Nat) (d acc : Nat) :
    (xs ++ [d]).foldl (fun a d => a * 58 + d) acc = xs.foldl (fun a d => a * 58 + d) acc * 58 + d := by
  simp [List.foldl_append]

theorem digitsValue_valsF (fuel n : Nat) (h : n ≤ fuel) : digitsValue (valsF 58 fuel n) = n := by
  unfold digitsValue
  induction fuel generalizing n with
  | zero => have : n = 0 := by omega
            subst this; rfl
  | succ f ih =>
    simp only [valsF]
    split
    · rename_i h0; subst h0; rfl
    · rename_i h0
      have hlt : n / 58 ≤ f := by
        have : n / 58 < n := Nat.div_lt_self (by omega) (by omega)
        omega
      rw [foldl58_append, ih (n / 58) hlt]
      omega

/-- the first digit of a non-zero number is non-zero -/
theorem valsF_head (fuel n : Nat) (h : n ≤ fuel) : valsF 58 fuel n = [] ∨ ∃ d ds, valsF 58 fuel n = d :: ds ∧ 0 < d := by
  induction fuel generalizing n with
  | zero => left; rfl
  | succ f ih =>
    simp only [valsF]
    split
    · left; rfl
    · rename_i h0
      right
      have hlt : n / 58 ≤ f := by
        have : n / 58 < n := Nat.div_lt_self (by omega) (by omega)
        omega
      rcases ih (n / 58) hlt with h' | ⟨d, ds, h', hd⟩
      · rw [h']
        refine ⟨n % 58, [], rfl, ?_⟩
        -- n / 58 = 0 or fuel exhausted is impossible here: valsF = [] with n/58 ≤ f means n/58 = 0
        have : n / 58 = 0 := by
          cases f with
          | zero => omega
          | succ f' =>
            simp only [valsF] at h'
            split at h'
            · assumption
            · simp at h'
        have : n < 58 := by
          rcases Nat.lt_or_ge n 58 with h | h
          · exact h
          · have := Nat.div_pos h (by omega : 0 < 58); omega
        rw [Nat.mod_eq_of_lt this]; omega
      · rw [h']; exact ⟨d, ds ++ [n % 58], rfl, hd⟩

theorem b58Digits_map (ds : List Nat) (h : ∀ d ∈ ds, d < 58) : b58Digits (ds.map b58Char) = some ds := by
  induction ds with
  | nil => rfl
  | cons d ds ih =>
    simp only [List.map_cons, b58Digits]
    rw [b58Index_char d (h d (by simp)), ih (fun x hx => h x (by simp [hx]))]

theorem b58Digits_ones (z : Nat) (rest : Bytes) (ds : List Nat) (h : b58Digits rest = some ds) :
    b58Digits (List.replicate z (b58Char 0) ++ rest) = some (List.replicate z 0 ++ ds) := by
  induction z with
  | zero => simpa using h
  | succ z ih =>
    simp only [List.replicate_succ, List.cons_append, b58Digits]
    rw [b58Index_char 0 (by omega), ih]

theorem digitsValue_zeros (z : Nat) (ds : List Nat) : digitsValue (List.replicate z 0 ++ ds) = digitsValue ds := by
  unfold digitsValue
  induction z with
  | zero => simp
  | succ z ih => simpa [List.replicate_succ] using ih

theorem leadingCount_replicate (c : UInt8) (z : Nat) (rest : Bytes) :
    leadingCount c (List.replicate z c ++ rest) = z + leadingCount c rest := by
  induction z with
  | zero => simp
  | succ z ih => simp [List.replicate_succ, leadingCount, ih]; omega

/-- bytes with their leading zero bytes removed -/
def strip (b : Bytes) : Bytes := b.drop (leadingCount 0 b)

theorem split_zeros (b : Bytes) : b = List.replicate (leadingCount 0 b) 0 ++ strip b := by
  unfold strip
  induction b with
  | nil => rfl
  | cons x xs ih =>
    simp only [leadingCount]
    split
    · rename_i h; subst h
      simp only [List.replicate_succ, List.cons_append, List.drop_succ_cons]
      rw [← ih]
    · simp

theorem strip_head (b : Bytes) : strip b = [] ∨ ∃ x xs, strip b = x :: xs ∧ x ≠ 0 := by
  unfold strip
  induction b with
  | nil => left; rfl
  | cons x xs ih =>
    simp only [leadingCount]
    split
    · simpa using ih
    · rename_i h; right; exact ⟨x, xs, by simp, h⟩

theorem beNat_zeros (z : Nat) (b : Bytes) : beNat (List.replicate z 0 ++ b) = beNat b := by
  rw [beNat_append]
  have : beNat (List.replicate z (0 : UInt8)) = 0 := by
    induction z with
    | zero => rfl
    | succ z ih =>
      have e : List.replicate (z + 1) (0 : UInt8) = [0] ++ List.replicate z 0 := rfl
      rw [e, beNat_append, ih]; simp [beNat]
  rw [this]; simp

theorem beNat_cons (x : UInt8) (xs : Bytes) : beNat (x :: xs) = x.toNat * 256 ^ xs.length + beNat xs := by
  have e : x :: xs = [x] ++ xs := rfl
  rw [e, beNat_append, beNat_single]

theorem beNat_lt (b : Bytes) : beNat b < 256 ^ b.length := by
  induction b with
  | nil => simp [beNat]
  | cons x xs ih =>
    rw [beNat_cons, List.length_cons, Nat.pow_succ]
    have hx : x.toNat < 256 := x.toNat_lt
    have : x.toNat * 256 ^ xs.length ≤ 255 * 256 ^ xs.length := Nat.mul_le_mul_right _ (by omega)
    omega

theorem beNat_pos_of_head (x : UInt8) (xs : Bytes) (h : x ≠ 0) : 0 < beNat (x :: xs) := by
  rw [beNat_cons]
  have hx : 0 < x.toNat := by
    rcases Nat.eq_zero_or_pos x.toNat with h0 | h0
    · exact absurd (UInt8.toNat_inj.1 (by simpa using h0)) h
    · exact h0
  have : 0 < 256 ^ xs.length := Nat.pow_pos (by omega)
  have := Nat.mul_pos hx this
  omega

/-- `big.Int.Bytes` of the value of bytes without a leading zero gives the bytes back -/
theorem natBytesF_beNat : ∀ (n : Nat) (b : Bytes), b.length = n → (b = [] ∨ ∃ x xs, b = x :: xs ∧ x ≠ 0) →
    ∀ f, beNat b < 256 ^ f → natBytesF f (beNat b) = b := by
  intro n
  induction n with
  | zero =>
    intro b hl _ f _
    have : b = [] := List.length_eq_zero_iff.1 hl
    subst this
    cases f <;> simp [natBytesF, beNat]
  | succ n ih =>
    intro b hl hh f hf
    rcases List.eq_nil_or_concat b with h | ⟨init, x, h⟩
    · subst h; simp at hl
    · rw [List.concat_eq_append] at h
      subst h
      have hlen : init.length = n := by simp at hl; omega
      have hval : beNat (init ++ [x]) = beNat init * 256 + x.toNat := by
        rw [beNat_append, beNat_single]; simp
      have hpos : 0 < beNat (init ++ [x]) := by
        rcases hh with h | ⟨y, ys, h, hy⟩
        · simp at h
        · rw [h]; exact beNat_pos_of_head y ys hy
      have hinit : init = [] ∨ ∃ y ys, init = y :: ys ∧ y ≠ 0 := by
        cases init with
        | nil => left; rfl
        | cons y ys =>
          right
          rcases hh with h | ⟨y', ys', h, hy⟩
          · simp at h
          · simp only [List.cons_append] at h
            injection h with h1 h2
            exact ⟨y, ys, rfl, by rw [h1]; exact hy⟩
      cases f with
      | zero => simp at hf; omega
      | succ f =>
        simp only [natBytesF]
        rw [if_neg (by omega)]
        have hx : x.toNat < 256 := x.toNat_lt
        have hdiv : beNat (init ++ [x]) / 256 = beNat init := by rw [hval]; omega
        have hmod : beNat (init ++ [x]) % 256 = x.toNat := by rw [hval]; omega
        rw [hdiv, hmod]
        have hf' : beNat init < 256 ^ f := by
          rw [Nat.pow_succ] at hf; rw [hval] at hf; omega
        rw [ih init hlen hinit f hf']
        simp

theorem natBytes_strip (b : Bytes) : natBytes (beNat b) = strip b := by
  have hb : beNat b = beNat (strip b) := by
    conv => lhs; rw [split_zeros b]
    exact beNat_zeros _ _
  unfold natBytes
  rw [hb]
  exact natBytesF_beNat _ (strip b) rfl (strip_head b) _ (Nat.lt_pow_self (by omega))

theorem leadingCount_zero_of_head (c : UInt8) (l : Bytes) (h : l = [] ∨ ∃ x xs, l = x :: xs ∧ x ≠ c) :
    leadingCount c l = 0 := by
  rcases h with h | ⟨x, xs, h, hx⟩
  · subst h; rfl
  · subst h; simp [leadingCount, hx]

/-- **base58 round trip**: `Decode (Encode b) = b` for every byte string (the `make` of Decode asks for
exactly `len b` bytes). -/
theorem b58_roundtrip (m : Nat) (b : Bytes) (hm : b.length ≤ m) : b58Decode m (b58Encode b) = .ok b := by
  unfold b58Decode b58Encode natDigits58
  rw [natDigits58F_eq]
  have hlt := valsF_lt 58 (by omega) (beNat b) (beNat b)
  have hd := b58Digits_ones (leadingCount 0 b) _ _ (b58Digits_map _ hlt)
  rw [hd]
  simp only
  rw [digitsValue_zeros, digitsValue_valsF _ _ (Nat.le_refl _), natBytes_strip]
  have hlc : leadingCount (b58Char 0) (List.replicate (leadingCount 0 b) (b58Char 0) ++ List.map b58Char (valsF 58 (beNat b) (beNat b)))
      = leadingCount 0 b := by
    rw [leadingCount_replicate]
    have : leadingCount (b58Char 0) (List.map b58Char (valsF 58 (beNat b) (beNat b))) = 0 := by
      apply leadingCount_zero_of_head
      rcases valsF_head (beNat b) (beNat b) (Nat.le_refl _) with h | ⟨d, ds, h, hd0⟩
      · left; rw [h]; rfl
      · right
        rw [h]
        refine ⟨b58Char d, ds.map b58Char, rfl, b58Char_ne_zero d hd0 (hlt d (by rw [h]; simp))⟩
    omega
  rw [hlc]
  have hsplit := split_zeros b
  have hlen : leadingCount 0 b + (strip b).length = b.length := by
    conv => rhs; rw [hsplit]
    simp
  rw [alloc_ok_of_le (by omega)]
  simp only
  rw [← hsplit]

end Pool.Dec
