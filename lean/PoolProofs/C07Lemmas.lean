import PoolModel.C07
/-! Helper lemmas for C07 (sorting is a permutation, sums, the loops of the model, `spendAccount`). -/
set_option linter.unusedSimpArgs false
set_option linter.unusedVariables false
namespace Pool.C07
open Pool.Gen.C07

/-! ### sorting -/

theorem insertBy_perm (lt : α → α → Bool) (x : α) (l : List α) : (insertBy lt x l).Perm (x :: l) := by
  induction l with
  | nil => simp [insertBy]
  | cons y ys ih =>
    simp only [insertBy]
    split
    · exact (List.Perm.cons y ih).trans (List.Perm.swap x y ys)
    · exact List.Perm.refl _

theorem sortBy_perm (lt : α → α → Bool) (l : List α) : (sortBy lt l).Perm l := by
  induction l with
  | nil => simp [sortBy]
  | cons x xs ih =>
    have : sortBy lt (x :: xs) = insertBy lt x (sortBy lt xs) := rfl
    rw [this]
    exact (insertBy_perm lt x _).trans (List.Perm.cons x ih)

theorem sum_map_perm {α} (f : α → Int) {l₁ l₂ : List α} (h : l₁.Perm l₂) : (l₁.map f).sum = (l₂.map f).sum := by
  induction h with
  | nil => rfl
  | cons x _ ih => simp [ih]
  | swap x y l => simp; omega
  | trans _ _ ih1 ih2 => exact ih1.trans ih2

theorem sum_map_perm_nat {α} (f : α → Nat) {l₁ l₂ : List α} (h : l₁.Perm l₂) : (l₁.map f).sum = (l₂.map f).sum := by
  induction h with
  | nil => rfl
  | cons x _ ih => simp [ih]
  | swap x y l => simp; omega
  | trans _ _ ih1 ih2 => exact ih1.trans ih2

theorem sumValues_perm {l₁ l₂ : List TxOut} (h : l₁.Perm l₂) : sumValues l₁ = sumValues l₂ :=
  sum_map_perm _ h

@[simp] theorem sumValues_cons (o : TxOut) (os : List TxOut) : sumValues (o :: os) = o.value + sumValues os := by
  simp [sumValues]

@[simp] theorem sumValues_nil : sumValues [] = 0 := rfl

/-! ### `locateScript` -/

theorem locateScript_some {s : Script} {os : List TxOut} {i : Nat} (h : locateScript s os = some i) :
    ∃ o, os[i]? = some o ∧ o.script = s := by
  induction os generalizing i with
  | nil => simp [locateScript] at h
  | cons o os ih =>
    simp only [locateScript] at h
    split at h
    · cases h; exact ⟨o, rfl, by assumption⟩
    · cases hl : locateScript s os with
      | none => simp [hl] at h
      | some j =>
        simp [hl] at h; subst h
        obtain ⟨o', h1, h2⟩ := ih hl
        exact ⟨o', by simpa using h1, h2⟩

theorem locateScript_isSome {s : Script} {os : List TxOut} {o : TxOut} (hm : o ∈ os) (hs : o.script = s) :
    ∃ i, locateScript s os = some i := by
  induction os with
  | nil => cases hm
  | cons x xs ih =>
    simp only [locateScript]
    split
    · exact ⟨0, rfl⟩
    · rcases List.mem_cons.mp hm with h | h
      · subst h; contradiction
      · obtain ⟨i, hi⟩ := ih h; exact ⟨i + 1, by simp [hi]⟩

/-- if only one output value carries the script, the located index holds exactly that output -/
theorem locateScript_unique {s : Script} {os : List TxOut} {i : Nat} {o₀ : TxOut}
    (h : locateScript s os = some i) (hu : ∀ o ∈ os, o.script = s → o = o₀) : os[i]? = some o₀ := by
  obtain ⟨o, h1, h2⟩ := locateScript_some h
  have : o ∈ os := List.mem_of_getElem? h1
  rw [h1, hu o this h2]

/-! ### `vauLoop` -/

theorem vauLoop_total {t : Twe} {tot : Int} {os : List TxOut} {t' : Twe} {tot' : Int}
    (h : vauLoop t tot os = .ok (t', tot')) : tot' = tot + sumValues os := by
  induction os generalizing t tot with
  | nil => simp [vauLoop] at h; simp [h.2]
  | cons o os ih =>
    simp only [vauLoop] at h
    split at h
    · cases h
    · split at h
      · cases h
      · have := ih h; simp [this]; omega

/-! ### `applyMods` -/

theorem applyMods_append (a : Account) (m1 m2 : List Modifier) :
    applyMods a (m1 ++ m2) = applyMods (applyMods a m1) m2 := by
  simp [applyMods, List.foldl_append]

end Pool.C07

namespace Pool.C07
open Pool.Gen.C07

/-! ### `spendAccount` -/

def Effect.isModify : Effect → Bool
  | .auctioneerModify .. => true
  | _ => false

theorem spendCommit_refusal {a : Account} {wt : Nat} {oi : Option Nat} {mods : List Modifier} {tx : Tx}
    {best : UInt32} {f : Faults} {r : Refusal} (h : (spendCommit a wt oi mods tx best f).refusal = some r) :
    r = .auctioneerFail ∨ r = .storeFail ∨ r = .publishFail := by
  unfold spendCommit at h
  simp only [] at h
  split at h
  · simp at h; exact Or.inl h.symm
  · split at h
    · simp at h; exact Or.inr (Or.inl h.symm)
    · split at h
      · simp at h; exact Or.inr (Or.inr h.symm)
      · simp at h

/-- a refusal of `spendAccount` other than an injected collaborator fault leaves no effect -/
theorem spendAccount_refusal_trace {so : ScriptOf} {a : Account} {action : Action} {tx : Tx} {wt : Nat}
    {mods : List Modifier} {best : UInt32} {f : Faults} {r : Refusal}
    (h : (spendAccount so a action tx wt mods best f).refusal = some r)
    (h1 : r ≠ .auctioneerFail) (h2 : r ≠ .storeFail) (h3 : r ≠ .publishFail) :
    (spendAccount so a action tx wt mods best f).trace = [] := by
  unfold spendAccount at h ⊢
  split
  · rfl
  · rename_i oi m t heq
    rw [heq] at h
    rcases spendCommit_refusal h with h | h | h <;> contradiction

/-- an accepted `spendCommit`: store write then broadcast, preceded by at most one auctioneer request -/
theorem spendCommit_ok {a : Account} {wt : Nat} {oi : Option Nat} {mods : List Modifier} {tx : Tx}
    {best : UInt32} {f : Faults} (h : (spendCommit a wt oi mods tx best f).refusal = none) :
    ∃ pre : List Effect,
      (spendCommit a wt oi mods tx best f).tx = some tx ∧
      (spendCommit a wt oi mods tx best f).account = some (applyMods a (mods ++ [.heightHint best, .latestTx])) ∧
      (spendCommit a wt oi mods tx best f).trace
        = pre ++ [.storeWrite (applyMods a (mods ++ [.heightHint best, .latestTx])), .publish tx] ∧
      pre.length = (if wt = wt_multiSigWitness ∨ wt = wt_muSig2Taproot then 1 else 0) ∧
      ∀ e ∈ pre, e.isModify = true := by
  unfold spendCommit at h ⊢
  simp only [] at h ⊢
  split at h
  · simp at h
  · split at h
    · simp at h
    · split at h
      · simp at h
      · rename_i h1 h2 h3
        simp only [h1, h2, h3, if_false]
        refine ⟨_, rfl, rfl, rfl, ?_, ?_⟩
        · by_cases hc : wt = wt_multiSigWitness ∨ wt = wt_muSig2Taproot
          · simp only [hc, decide_true, if_true]
            split <;> simp
          · simp [hc]
        · intro e he
          split at he
          · split at he <;> simp at he <;> subst he <;> rfl
          · simp at he

/-- what `spendPrepare` established when it succeeded -/
theorem spendPrepare_ok {so : ScriptOf} {a : Account} {action : Action} {tx : Tx} {wt : Nat}
    {mods : List Modifier} {best : UInt32} {oi : Option Nat} {mods' : List Modifier} {tx' : Tx}
    (h : spendPrepare so a action tx wt mods best = .ok (oi, mods', tx')) :
    ∃ lock : Nat, tx' = { tx with lockTime := lock } ∧
      ((action ≠ .close ∧ ∃ idx, locateScript ((applyMods a mods).output so).script tx.outputs = some idx ∧
          oi = some idx ∧ mods' = mods ++ [.outPoint idx]) ∨ (action = .close ∧ oi = none ∧ mods' = mods)) ∧
      (((wt = wt_expiryWitness ∨ wt = wt_expiryTaproot) ∧ action = .close ∧ lock = best.toNat) ∨
        ((wt = wt_multiSigWitness ∨ wt = wt_muSig2Taproot) ∧ lock = 0)) ∧
      sanityCheck a tx' wt = .ok () := by
  unfold spendPrepare at h
  simp only [] at h
  split at h
  · cases h
  · rename_i oi0 m0 hloc
    split at h
    · cases h
    · rename_i lock hlock
      split at h
      · cases h
      · rename_i hs
        simp only [Except.ok.injEq, Prod.mk.injEq] at h
        obtain ⟨h1, h2, h3⟩ := h
        subst h1 h2 h3
        refine ⟨lock, rfl, ?_, ?_, hs⟩
        · split at hloc
          · rename_i hne
            split at hloc
            · cases hloc
            · rename_i idx hl
              simp only [Except.ok.injEq, Prod.mk.injEq] at hloc
              exact Or.inl ⟨hne, idx, hl, hloc.1.symm, hloc.2.symm⟩
          · rename_i hc
            simp only [Except.ok.injEq, Prod.mk.injEq] at hloc
            exact Or.inr ⟨by simpa using hc, hloc.1.symm, hloc.2.symm⟩
        · split at hlock
          · rename_i hw
            split at hlock
            · cases hlock
            · rename_i hc
              simp only [Except.ok.injEq] at hlock
              exact Or.inl ⟨hw, by simpa using hc, hlock.symm⟩
          · split at hlock
            · rename_i hw
              simp only [Except.ok.injEq] at hlock
              exact Or.inr ⟨hw, hlock.symm⟩
            · cases hlock

/-- what an accepted `spendAccount` did -/
theorem spendAccount_ok {so : ScriptOf} {a : Account} {action : Action} {tx : Tx} {wt : Nat}
    {mods : List Modifier} {best : UInt32} {f : Faults}
    (h : (spendAccount so a action tx wt mods best f).refusal = none) :
    ∃ (mods' : List Modifier) (lock : Nat) (pre : List Effect),
      ((action ≠ .close ∧ ∃ idx, locateScript ((applyMods a mods).output so).script tx.outputs = some idx ∧
          mods' = mods ++ [.outPoint idx]) ∨ (action = .close ∧ mods' = mods)) ∧
      (((wt = wt_expiryWitness ∨ wt = wt_expiryTaproot) ∧ action = .close ∧ lock = best.toNat) ∨
        ((wt = wt_multiSigWitness ∨ wt = wt_muSig2Taproot) ∧ lock = 0)) ∧
      sanityCheck a { tx with lockTime := lock } wt = .ok () ∧
      (spendAccount so a action tx wt mods best f).tx = some { tx with lockTime := lock } ∧
      (spendAccount so a action tx wt mods best f).account
        = some (applyMods a (mods' ++ [.heightHint best, .latestTx])) ∧
      (spendAccount so a action tx wt mods best f).trace
        = pre ++ [.storeWrite (applyMods a (mods' ++ [.heightHint best, .latestTx])),
                  .publish { tx with lockTime := lock }] ∧
      pre.length = (if wt = wt_multiSigWitness ∨ wt = wt_muSig2Taproot then 1 else 0) ∧
      ∀ e ∈ pre, e.isModify = true := by
  unfold spendAccount at h ⊢
  split at h
  · simp [refuse] at h
  · rename_i oi m t heq
    obtain ⟨lock, ht, hloc, hlock, hs⟩ := spendPrepare_ok heq
    obtain ⟨pre, h1, h2, h3, h4, h5⟩ := spendCommit_ok h
    subst ht
    refine ⟨m, lock, pre, ?_, hlock, hs, h1, h2, h3, h4, h5⟩
    rcases hloc with ⟨hne, idx, hl, _, hm⟩ | ⟨hc, _, hm⟩
    · exact Or.inl ⟨hne, idx, hl, hm⟩
    · exact Or.inr ⟨hc, hm⟩

end Pool.C07

namespace Pool.C07
open Pool.Gen.C07

/-! ### `sanityCheckAccountSpendTx` -/

theorem checkOutputRange_ok {tot : Int} {os : List TxOut} (h : checkOutputRange tot os = .ok ()) :
    ∀ o ∈ os, 0 ≤ o.value ∧ o.value ≤ maxSatoshi := by
  induction os generalizing tot with
  | nil => intro o ho; cases ho
  | cons x xs ih =>
    simp only [checkOutputRange] at h
    split at h
    · cases h
    · split at h
      · cases h
      · split at h
        · cases h
        · intro o ho
          rcases List.mem_cons.mp ho with rfl | ho
          · constructor <;> omega
          · exact ih h o ho

theorem sanityCheck_ok {a : Account} {tx : Tx} {wt : Nat} (h : sanityCheck a tx wt = .ok ()) :
    tx.inputs ≠ [] ∧ tx.outputs ≠ [] ∧ (∀ o ∈ tx.outputs, 0 ≤ o.value ∧ o.value ≤ maxSatoshi) ∧
    hasDupInputs (tx.inputs.map (·.prev)) = false ∧ (∀ o ∈ tx.outputs, isDustOutput o = false) ∧
    ∃ inTotal w, sanityInputs a wt tx.inputs 0 0 = .ok (inTotal, w) ∧ sumValues tx.outputs ≤ inTotal ∧
      feeForWeight FeePerKwFloor (fullWeight tx w) ≤ inTotal - sumValues tx.outputs := by
  unfold sanityCheck at h
  split at h
  · cases h
  · rename_i h1
    split at h
    · cases h
    · rename_i h2
      split at h
      · cases h
      · rename_i h3
        split at h
        · cases h
        · rename_i h4
          split at h
          · cases h
          · rename_i h5
            split at h
            · cases h
            · rename_i inT w h6
              split at h
              · cases h
              · rename_i h7
                split at h
                · cases h
                · rename_i h8
                  refine ⟨by simpa using h1, by simpa using h2, checkOutputRange_ok h3, by simpa using h4, ?_,
                    inT, w, h6, by omega, by omega⟩
                  intro o ho
                  have := h5
                  simp only [List.any_eq_true, not_exists, not_and, Bool.not_eq_true] at this
                  exact this o ho

/-- the only input is the account's: input total = account value, witness = the account's estimate -/
theorem sanityInputs_single {so : ScriptOf} {a : Account} {wt : Nat} {x : Int} {w : Nat}
    (h : sanityInputs a wt [a.txIn so] 0 0 = .ok (x, w)) : x = a.value ∧ witnessSize wt = some w := by
  simp only [sanityInputs, Account.txIn, if_true] at h
  split at h
  · cases h
  · rename_i aw hw
    simp only [sanityInputs, Except.ok.injEq, Prod.mk.injEq] at h
    exact ⟨by omega, by rw [hw]; congr 1; omega⟩

/-! ### `valueAfterAccountUpdate` -/

theorem vau_ok {value : Int} {outs : List TxOut} {wt : Nat} {rate v : Int}
    (h : valueAfterAccountUpdate value outs wt rate = .ok v) :
    ∃ w t, witnessSize wt = some w ∧
      vauLoop ((({} : Twe).addWitnessInput w).addOutput baseAccountOutputSize) 0 outs = .ok (t, sumValues outs) ∧
      v = value - sumValues outs - feeForWeight rate t.weight ∧ (MinAccountValue : Int) ≤ v := by
  unfold valueAfterAccountUpdate at h
  split at h
  · cases h
  · rename_i t0 h0
    split at h
    · cases h
    · rename_i t tot hl
      simp only [] at h
      split at h
      · cases h
      · rename_i hmin
        simp only [Except.ok.injEq] at h
        unfold addBaseWeight at h0
        split at h0
        · cases h0
        · rename_i w hw
          simp only [Except.ok.injEq] at h0
          subst h0
          have htot := vauLoop_total hl
          simp only [Int.zero_add] at htot
          subst htot
          exact ⟨w, t, hw, hl, by omega, by omega⟩

end Pool.C07

namespace Pool.C07
open Pool.Gen.C07

/-! ### inversion of the four operations -/

theorem optExpiry_ok {eh best : UInt32} {ne : Option UInt32} (h : optExpiry eh best = .ok ne) :
    (eh = 0 ∧ ne = none) ∨ (eh ≠ 0 ∧ ne = some eh ∧ validateAccountExpiry eh best = .ok ()) := by
  unfold optExpiry at h
  split at h
  · rename_i hne
    split at h
    · cases h
    · rename_i hv
      simp only [Except.ok.injEq] at h
      exact Or.inr ⟨hne, h.symm, hv⟩
  · rename_i he
    simp only [Except.ok.injEq] at h
    exact Or.inl ⟨by simpa using he, h.symm⟩

theorem withdraw_inv {so : ScriptOf} {a : Account} {outputs : List TxOut} {rate : Int} {best eh : UInt32}
    {nv : Nat} {f : Faults} (h : (withdraw so a outputs rate best eh nv f).refusal = none) :
    a.state = StateOpen ∧ a.version ≤ nv ∧ ∃ ne v, optExpiry eh best = .ok ne ∧
      valueAfterAccountUpdate a.value outputs (determineWitnessType a best) rate = .ok v ∧
      (createNewAccountOutput so a v ne nv).1.script ∉ outputs.map (·.script) ∧
      withdraw so a outputs rate best eh nv f
        = spendAccount so a .withdraw (createSpendTx so a ((createNewAccountOutput so a v ne nv).1 :: outputs))
            (determineWitnessType a best) ((createNewAccountOutput so a v ne nv).2 ++ [.state StatePendingUpdate])
            best f := by
  unfold withdraw at h ⊢
  split at h
  · simp [refuse] at h
  · rename_i hs
    split at h
    · simp [refuse] at h
    · rename_i hv
      split at h
      · simp [refuse] at h
      · rename_i ne hne
        simp only [] at h
        split at h
        · simp [refuse] at h
        · rename_i v hvau
          split at h
          · simp [refuse] at h
          · rename_i hown
            have hfact : withdrawRefusesOwnScript = true := by decide
            refine ⟨by simpa using hs, by omega, ne, v, hne, hvau, ?_, ?_⟩
            · simp only [hfact, true_and, List.any_eq_true, decide_eq_true_eq, not_exists, not_and] at hown
              intro hm
              obtain ⟨o, ho, hs'⟩ := List.mem_map.mp hm
              exact hown o ho hs'
            · simp [hs, hv, hne, hvau]
              intro _ x hx hsx
              exact absurd ⟨hfact, List.any_eq_true.mpr ⟨x, hx, by simpa using hsx⟩⟩ hown

theorem renew_inv {so : ScriptOf} {a : Account} {newExpiry : UInt32} {rate : Int} {best : UInt32}
    {nv : Nat} {f : Faults} (h : (renew so a newExpiry rate best nv f).refusal = none) :
    (a.state = StateOpen ∨ a.state = StateExpired) ∧ a.version ≤ nv ∧
      validateAccountExpiry newExpiry best = .ok () ∧ ∃ v,
      valueAfterAccountUpdate a.value []
        (if a.version ≥ VersionTaprootEnabled then wt_muSig2Taproot else wt_multiSigWitness) rate = .ok v ∧
      renew so a newExpiry rate best nv f
        = spendAccount so a .renew (createSpendTx so a [(createNewAccountOutput so a v (some newExpiry) nv).1])
            (if a.version ≥ VersionTaprootEnabled then wt_muSig2Taproot else wt_multiSigWitness)
            ((createNewAccountOutput so a v (some newExpiry) nv).2 ++ [.state StatePendingUpdate]) best f := by
  unfold renew at h ⊢
  split at h
  · simp [refuse] at h
  · rename_i hs
    split at h
    · simp [refuse] at h
    · rename_i hexp
      split at h
      · simp [refuse] at h
      · rename_i hv
        simp only [] at h
        split at h
        · simp [refuse] at h
        · rename_i v hvau
          refine ⟨Decidable.not_not.mp hs, by omega, hexp, v, hvau, ?_⟩
          simp [hs, hv, hexp, hvau]

theorem close_inv {so : ScriptOf} {a : Account} {fe : FeeExpr} {ws : Bool → Script} {best : UInt32} {f : Faults}
    (h : (close so a fe ws best f).refusal = none) :
    (a.state = StateOpen ∨ a.state = StateExpired) ∧ ∃ outs,
      fe.closeOutputs ws a.value (determineWitnessType a best) = .ok outs ∧
      close so a fe ws best f
        = spendAccount so a .close (createSpendTx so a outs) (determineWitnessType a best)
            [.value 0, .state StatePendingClosed] best f := by
  unfold close at h ⊢
  split at h
  · simp [refuse] at h
  · rename_i hs
    simp only [] at h
    split at h
    · simp [refuse] at h
    · rename_i outs ho
      have hs' : a.state = StateOpen ∨ a.state = StateExpired := Decidable.of_not_not hs
      refine ⟨hs', outs, ho, ?_⟩
      simp [hs', ho]

theorem deposit_inv {so : ScriptOf} {a : Account} {amount rate : Int} {best eh : UInt32} {nv : Nat}
    {maxValue : Option Int} {fd : Option Funded} {f : Faults}
    (h : (deposit so a amount rate best eh nv maxValue fd f).refusal = none) :
    a.state = StateOpen ∧ a.version ≤ nv ∧ ∃ maxV ne tx, maxValue = some maxV ∧ a.value + amount ≤ maxV ∧
      (MinAccountValue : Int) ≤ a.value + amount ∧ optExpiry eh best = .ok ne ∧
      inputsForDeposit so a (createNewAccountOutput so a (a.value + amount) ne nv).1 amount
        (determineWitnessType a best) rate fd = .ok tx ∧
      deposit so a amount rate best eh nv maxValue fd f
        = spendAccount so a .deposit tx (determineWitnessType a best)
            ((createNewAccountOutput so a (a.value + amount) ne nv).2 ++ [.state StatePendingUpdate]) best f := by
  unfold deposit at h ⊢
  split at h
  · simp [refuse] at h
  · rename_i hs
    split at h
    · simp [refuse] at h
    · rename_i hv
      split at h
      · simp [refuse] at h
      · rename_i maxV
        simp only [] at h
        split at h
        · simp [refuse] at h
        · rename_i hmin
          split at h
          · simp [refuse] at h
          · rename_i hmax
            split at h
            · simp [refuse] at h
            · rename_i ne hne
              split at h
              · simp [refuse] at h
              · rename_i tx htx
                have hdm : depositChecksMin = true := by decide
                refine ⟨by simpa using hs, by omega, maxV, ne, tx, rfl, by omega, ?_, hne, htx, ?_⟩
                · simp only [hdm, true_and] at hmin; omega
                · simp [hs, hv, hmin, hmax, hne, htx]

end Pool.C07
