import PoolProofs.C06Lemmas
/-! The specification machine `Spec = (visible, staged?)` – the property's English text as a state machine –
and the proof that every operation of the database model refines it (`step_refines`). -/
set_option linter.unusedSimpArgs false
set_option linter.unusedVariables false
namespace Pool.C06

structure Spec where
  vis : Visible
  staged : Option Staged
deriving DecidableEq, Repr

/-- a database holding exactly the visible state `v`: nothing staged, empty event log -/
def ofVis (v : Visible) : DB :=
  { accounts := v.accounts, orders := v.orders, snaps := v.snaps, index := v.index }

def abs (db : DB) : Spec := ⟨vis db, staged db⟩

/-- can `PendingBatchSnapshot` be loaded: all orders of the staged snapshot still exist in the main bucket -/
def readable (v : Visible) (st : Staged) : Bool :=
  (keys st.snap.orders).all (fun n => (lookup n v.orders).isSome)

/-- the reconnect rule in words: discard iff the auctioneer finalised ANOTHER transaction (and the funding
artifacts of the staged one could be removed) -/
def discards (st : Staged) (rpc : Rpc) (removeOk : Bool) : Bool :=
  match rpc with
  | .finalized t => decide (st.snap.tx ≠ t) && removeOk
  | _ => false

/-- The specification.
* staging never touches `vis`; a successful call REPLACES `staged` by a value computed from `vis` and the
  call's arguments only; a failing call changes nothing;
* completing applies the staged value to `vis` (`applyStaged`) and empties `staged`; without a staged batch it
  changes nothing;
* discarding empties `staged`;
* direct updates act on `vis` as they would on a database with nothing staged, and leave `staged` alone;
* reopening changes nothing; the reconnect check can only discard. -/
def Spec.step (s : Spec) : Op → Spec
  | .stage a =>
    match stageOut s.vis.accounts s.vis.orders a with
    | .ok o => { s with staged := some ⟨a.batchId, o.pa, o.po, o.snap⟩ }
    | .error _ => s
  | .complete =>
    match s.staged with
    | some st => ⟨applyStaged st s.vis, none⟩
    | none => s
  | .spend =>
    match s.staged with
    | some st => if readable s.vis st then ⟨applyStaged st s.vis, none⟩ else s
    | none => s
  | .discard => { s with staged := none }
  | .reopen => s
  | .reconnect rpc rm =>
    match s.staged with
    | some st => if readable s.vis st && discards st rpc rm then { s with staged := none } else s
    | none => s
  | .accountSpend k w tx h =>
    -- = the spend clause (multi-sig only) followed by the direct account update that closes the account
    match lookup k s.vis.accounts with
    | none => s
    | some _ =>
      match w with
      | .unknown => s
      | .expiry => { s with vis := C06.vis (C06.step (ofVis s.vis) (.updateAccount k (closeMods tx h))).1 }
      | .multiSigRecreate =>
        match s.staged with
        | some st => if readable s.vis st then ⟨applyStaged st s.vis, none⟩ else s
        | none => s
      | .multiSig =>
        match s.staged with
        | some st =>
          if readable s.vis st then
            let s1 : Spec := ⟨applyStaged st s.vis, none⟩
            { s1 with vis := C06.vis (C06.step (ofVis s1.vis) (.updateAccount k (closeMods tx h))).1 }
          else s      -- loading the staged batch fails: the handler returns the error
        | none => { s with vis := C06.vis (C06.step (ofVis s.vis) (.updateAccount k (closeMods tx h))).1 }
  | .addAccount k a => { s with vis := C06.vis (C06.step (ofVis s.vis) (.addAccount k a)).1 }
  | .submitOrder n o => { s with vis := C06.vis (C06.step (ofVis s.vis) (.submitOrder n o)).1 }
  | .updateOrder n m => { s with vis := C06.vis (C06.step (ofVis s.vis) (.updateOrder n m)).1 }
  | .deleteOrder n => { s with vis := C06.vis (C06.step (ofVis s.vis) (.deleteOrder n)).1 }
  | .updateOrders ns ms => { s with vis := C06.vis (C06.step (ofVis s.vis) (.updateOrders ns ms)).1 }
  | .updateAccount k m => { s with vis := C06.vis (C06.step (ofVis s.vis) (.updateAccount k m)).1 }

def Spec.run (s : Spec) : List Op → Spec
  | [] => s
  | op :: ops => Spec.run (s.step op) ops

/-! ### helpers -/

theorem coh_direct {db : DB} (h : Coh db) {A' : List (Key × Acct)} {O' : List (Key × Ord)}
    (E' : List (Key × Evt)) (hA : (keys A').Nodup) (hO : (keys O').Nodup) (N' : List Key := db.noRefs) :
    Coh { db with accounts := A', orders := O', events := E', noRefs := N' } :=
  ⟨hA, hO, h.pend, h.idx⟩

theorem updateOrdersLoop_nodup {l : List (Key × List OMod)} {os : List (Key × Ord)} {ev os' ev'}
    (h : updateOrdersLoop l os ev = .ok (os', ev')) (hn : (keys os).Nodup) : (keys os').Nodup := by
  induction l generalizing os ev with
  | nil => simp [updateOrdersLoop] at h; obtain ⟨h1, _⟩ := h; subst h1; exact hn
  | cons p r ih =>
    obtain ⟨n, m⟩ := p
    simp only [updateOrdersLoop] at h
    cases hc : updateOrderCore os n m with
    | error e => simp [hc] at h
    | ok x => obtain ⟨o', e⟩ := x; simp only [hc] at h; exact ih h (keys_upsert_nodup hn)

/-- closed form of the direct order updates, events framed out -/
theorem updateOrdersTx_eq (ns : List Key) (ms : List (List OMod)) (db : DB) :
    updateOrdersTx ns ms db =
      match updateOrdersLoop (ns.zip ms) db.orders [] with
      | .error e => .error e
      | .ok (os, es) => .ok { db with orders := os, events := db.events ++ es,
                                      noRefs := db.noRefs.filter (fun k => !ns.contains k) } := by
  unfold updateOrdersTx
  rw [updateOrdersLoop_ev]
  cases updateOrdersLoop (ns.zip ms) db.orders [] with
  | error e => rfl
  | ok x => obtain ⟨os, es⟩ := x; rfl

/-! ### refinement, one operation at a time -/

theorem refines_addAccount (db : DB) (h : Coh db) (k : Key) (a : Acct) :
    abs (step db (.addAccount k a)).1 = (abs db).step (.addAccount k a) ∧ Coh (step db (.addAccount k a)).1 := by
  simp only [step, addAccountTx, Spec.step, abs, ofVis, vis]
  cases storeA a with
  | error e => exact ⟨rfl, h⟩
  | ok a' => exact ⟨rfl, coh_direct h db.events (keys_upsert_nodup h.accN) h.ordN⟩

theorem refines_submitOrder (db : DB) (h : Coh db) (n : Key) (o : Ord) :
    abs (step db (.submitOrder n o)).1 = (abs db).step (.submitOrder n o) ∧ Coh (step db (.submitOrder n o)).1 := by
  simp only [step, submitOrderTx, Spec.step, abs, ofVis, vis]
  cases lookup n db.orders with
  | some _ => exact ⟨rfl, h⟩
  | none => exact ⟨rfl, coh_direct h _ h.accN (keys_upsert_nodup h.ordN)⟩

theorem refines_deleteOrder (db : DB) (h : Coh db) (n : Key) :
    abs (step db (.deleteOrder n)).1 = (abs db).step (.deleteOrder n) ∧ Coh (step db (.deleteOrder n)).1 := by
  simp only [step, deleteOrderTx, Spec.step, abs, ofVis, vis]
  cases lookup n db.orders with
  | none => exact ⟨rfl, h⟩
  | some _ => exact ⟨rfl, coh_direct h _ h.accN (keys_erase_nodup h.ordN) _⟩

theorem refines_updateAccount (db : DB) (h : Coh db) (k : Key) (m : List AMod) :
    abs (step db (.updateAccount k m)).1 = (abs db).step (.updateAccount k m) ∧
      Coh (step db (.updateAccount k m)).1 := by
  simp only [step, updateAccountTx, Spec.step, abs, ofVis, vis]
  cases updateAccountCore db.accounts k m with
  | error e => exact ⟨rfl, h⟩
  | ok a =>
    simp only []
    cases storeA a with
    | error e => exact ⟨rfl, h⟩
    | ok a' => exact ⟨rfl, coh_direct h db.events (keys_upsert_nodup h.accN) h.ordN⟩

theorem refines_updateOrdersTx (db : DB) (h : Coh db) (ns : List Key) (ms : List (List OMod)) :
    abs (commit db (updateOrdersTx ns ms db)).1 =
        { abs db with vis := vis (commit (ofVis (vis db)) (updateOrdersTx ns ms (ofVis (vis db)))).1 } ∧
      Coh (commit db (updateOrdersTx ns ms db)).1 := by
  rw [updateOrdersTx_eq, updateOrdersTx_eq]
  simp only [ofVis, vis]
  cases hl : updateOrdersLoop (ns.zip ms) db.orders [] with
  | error e => exact ⟨rfl, h⟩
  | ok x =>
    obtain ⟨os, es⟩ := x
    exact ⟨rfl, coh_direct h _ h.accN (updateOrdersLoop_nodup hl h.ordN) _⟩

theorem refines_updateOrder (db : DB) (h : Coh db) (n : Key) (m : List OMod) :
    abs (step db (.updateOrder n m)).1 = (abs db).step (.updateOrder n m) ∧
      Coh (step db (.updateOrder n m)).1 := by
  simp only [step, updateOrderTx, Spec.step]
  exact refines_updateOrdersTx db h [n] [m]

theorem refines_updateOrders (db : DB) (h : Coh db) (ns : List Key) (ms : List (List OMod)) :
    abs (step db (.updateOrders ns ms)).1 = (abs db).step (.updateOrders ns ms) ∧
      Coh (step db (.updateOrders ns ms)).1 := by
  simp only [step, updateOrders, Spec.step]
  by_cases hl : ns.length ≠ ms.length
  · rw [if_pos hl, if_pos hl]; exact ⟨rfl, h⟩
  · rw [if_neg hl, if_neg hl]; exact refines_updateOrdersTx db h ns ms

theorem refines_stage (db : DB) (h : Coh db) (a : StageArgs) :
    abs (step db (.stage a)).1 = (abs db).step (.stage a) ∧ Coh (step db (.stage a)).1 := by
  simp only [step, Spec.step, abs, vis]
  rw [storePendingBatch_eq]
  cases ho : stageOut db.accounts db.orders a with
  | error e => exact ⟨rfl, h⟩
  | ok o =>
    obtain ⟨h1, _, _, h4, h5, h6, h7, h8, _, _⟩ := stageOut_ok ho
    refine ⟨rfl, ⟨h.accN, h.ordN, Or.inr ⟨⟨a.batchId, o.pa, o.po, o.snap⟩, ?_, ?_⟩, h.idx⟩⟩
    · exact ⟨h1, h4, h5, h6, h7, h8⟩
    · exact ⟨rfl, rfl, rfl, rfl⟩

theorem coh_complete {db : DB} (h : Coh db) {st : Staged} (hs : StagedOK st) :
    Coh { db with accounts := over st.accts db.accounts, orders := over st.orders db.orders,
                  pendingId := none, pendingAccts := none, pendingOrders := none, pendingSnap := none,
                  snaps := db.snaps ++ [st.snap], index := upsert st.id (db.snaps.length + 1) db.index,
                  noRefs := db.noRefs ++ (keys st.orders).filter (fun k => (lookup k db.orders).isNone) } := by
  refine ⟨keys_over_nodup h.accN, keys_over_nodup h.ordN, Or.inl ⟨rfl, rfl, rfl, rfl⟩, ?_⟩
  intro id seq hl
  simp only [] at hl
  rw [lookup_upsert] at hl
  by_cases hid : id = st.id
  · simp only [hid, if_true, Option.some.injEq] at hl
    subst hl
    refine ⟨by omega, st.snap, ?_, ?_⟩
    · simp
    · rw [hid]; exact hs.1
  · simp only [hid, if_false] at hl
    obtain ⟨h1, s, h2, h3⟩ := h.idx id seq hl
    refine ⟨h1, s, ?_, h3⟩
    simp only []
    have hlt : seq - 1 < db.snaps.length := by
      rcases Nat.lt_or_ge (seq - 1) db.snaps.length with hlt | hge
      · exact hlt
      · rw [List.getElem?_eq_none hge] at h2; cases h2
    rw [List.getElem?_append_left hlt]; exact h2

theorem refines_complete (db : DB) (h : Coh db) :
    abs (step db .complete).1 = (abs db).step .complete ∧ Coh (step db .complete).1 := by
  simp only [step, Spec.step, abs]
  rcases h.pend with hn | ⟨st, hs, hp⟩
  · rw [markBatchComplete_noPending hn.1]
    simp only [commit]
    rw [staged_of_noPending hn]; exact ⟨rfl, h⟩
  · rw [markBatchComplete_pending hp hs.2.2.2.1]
    simp only [commit]
    rw [staged_of_hasPending hp]
    exact ⟨rfl, coh_complete h hs⟩

theorem refines_spend (db : DB) (h : Coh db) :
    abs (step db .spend).1 = (abs db).step .spend ∧ Coh (step db .spend).1 := by
  simp only [step, Spec.step, abs]
  rw [spendPendingClause_eq]
  rcases h.pend with hn | ⟨st, hs, hp⟩
  · rw [hn.2.2.2]
    simp only [commit]
    rw [staged_of_noPending hn]; exact ⟨rfl, h⟩
  · rw [hp.2.2.2]
    simp only []
    rw [staged_of_hasPending hp]
    simp only []
    cases hr : snapReadable db st.snap with
    | false =>
      have hr' : readable (vis db) st = false := hr
      simp only [hr', Bool.false_eq_true, if_false, commit]
      rw [staged_of_hasPending hp]; exact ⟨rfl, h⟩
    | true =>
      have hr' : readable (vis db) st = true := hr
      simp only [hr', if_true]
      rw [markBatchComplete_pending hp hs.2.2.2.1]
      simp only [commit]
      exact ⟨rfl, coh_complete h hs⟩

theorem refines_discard (db : DB) (h : Coh db) :
    abs (step db .discard).1 = (abs db).step .discard ∧ Coh (step db .discard).1 :=
  ⟨rfl, ⟨h.accN, h.ordN, Or.inl ⟨rfl, rfl, rfl, rfl⟩, h.idx⟩⟩

/-- closed form of the reconnect check's effect on the database -/
theorem reconnect_db (rpc : Rpc) (rm : Bool) (db : DB) :
    (reconnect rpc rm db).1 =
      match db.pendingSnap with
      | some s =>
        (match rpc with
         | .finalized t =>
           if snapReadable db s = true ∧ s.tx ≠ t ∧ rm = true then (commit db (deletePendingBatchTx db)).1 else db
         | _ => db)
      | none => db := by
  unfold reconnect pendingBatchSnapshot
  cases db.pendingSnap with
  | none => simp [checkPendingBatch]
  | some s =>
    cases hr : snapReadable db s with
    | false => cases rpc <;> simp [checkPendingBatch, hr]
    | true =>
      cases rpc with
      | rpcErr b => cases b <;> simp [checkPendingBatch, hr]
      | malformed => simp [checkPendingBatch, hr]
      | finalized t =>
        by_cases ht : s.tx = t
        · simp [checkPendingBatch, ht, hr]
        · cases rm <;> simp [checkPendingBatch, ht, hr]

theorem refines_reconnect (db : DB) (h : Coh db) (rpc : Rpc) (rm : Bool) :
    abs (step db (.reconnect rpc rm)).1 = (abs db).step (.reconnect rpc rm) ∧
      Coh (step db (.reconnect rpc rm)).1 := by
  simp only [step, Spec.step, abs]
  rw [reconnect_db]
  rcases h.pend with hn | ⟨st, hs, hp⟩
  · simp only [hn.2.2.2]
    rw [staged_of_noPending hn]; exact ⟨rfl, h⟩
  · simp only [hp.2.2.2]
    rw [staged_of_hasPending hp]
    have hrd : snapReadable db st.snap = readable (vis db) st := rfl
    have hdis : Coh (commit db (deletePendingBatchTx db)).1 := (refines_discard db h).2
    cases rpc with
    | rpcErr b => exact ⟨by simp [discards, staged_of_hasPending hp], h⟩
    | malformed => exact ⟨by simp [discards, staged_of_hasPending hp], h⟩
    | finalized t =>
      by_cases hc : snapReadable db st.snap = true ∧ st.snap.tx ≠ t ∧ rm = true
      · obtain ⟨hc0, hc1, hc2⟩ := hc
        subst hc2
        have hd : (readable (vis db) st && discards st (.finalized t) true) = true := by
          rw [← hrd, hc0]; simp [discards, hc1]
        simp only [hc0, hc1, ne_eq, not_false_eq_true, and_self, if_true, hd]
        exact ⟨rfl, hdis⟩
      · simp only [hc, if_false]
        refine ⟨?_, h⟩
        have : (readable (vis db) st && discards st (.finalized t) rm) = false := by
          rw [← hrd]
          cases hr : snapReadable db st.snap with
          | false => rfl
          | true =>
            simp only [discards, Bool.true_and]
            by_cases ht : st.snap.tx = t
            · simp [ht]
            · cases rm
              · simp
              · exact absurd ⟨hr, ht, rfl⟩ hc
        simp [this, staged_of_hasPending hp]

theorem refines_accountSpend (db : DB) (h : Coh db) (k : Key) (w : Witness) (tx ht : Nat) :
    abs (step db (.accountSpend k w tx ht)).1 = (abs db).step (.accountSpend k w tx ht) ∧
      Coh (step db (.accountSpend k w tx ht)).1 := by
  simp only [step, handleAccountSpend, Spec.step, abs, vis]
  cases hl : lookup k db.accounts with
  | none => exact ⟨rfl, h⟩
  | some a =>
    cases w with
    | unknown => exact ⟨rfl, h⟩
    | expiry =>
      have := refines_updateAccount db h k (closeMods tx ht)
      simp only [step, Spec.step, abs, vis] at this
      exact this
    | multiSigRecreate =>
      have := refines_spend db h
      simp only [step, Spec.step, abs, vis] at this
      exact this
    | multiSig =>
      simp only []
      rw [spendPendingClause_eq]
      rcases h.pend with hn | ⟨st, hs, hp⟩
      · rw [hn.2.2.2, staged_of_noPending hn]
        simp only [commit]
        have h2 := refines_updateAccount db h k (closeMods tx ht)
        simp only [step, Spec.step, abs, vis, commit] at h2
        rw [staged_of_noPending hn] at h2
        exact h2
      · rw [hp.2.2.2, staged_of_hasPending hp]
        simp only []
        cases hr : snapReadable db st.snap with
        | false =>
          have hr' : readable ⟨db.accounts, db.orders, db.snaps, db.index⟩ st = false := hr
          simp only [hr', Bool.false_eq_true, if_false, commit]
          rw [staged_of_hasPending hp]; exact ⟨rfl, h⟩
        | true =>
          have hr' : readable ⟨db.accounts, db.orders, db.snaps, db.index⟩ st = true := hr
          simp only [hr', if_true]
          rw [markBatchComplete_pending hp hs.2.2.2.1]
          simp only [commit]
          have c1 := coh_complete h hs
          have h2 := refines_updateAccount _ c1 k (closeMods tx ht)
          simp only [step, Spec.step, abs, vis, commit] at h2
          exact h2

/-- every operation of the database model refines the specification and preserves coherence -/
theorem step_refines (db : DB) (h : Coh db) (op : Op) :
    abs (step db op).1 = (abs db).step op ∧ Coh (step db op).1 := by
  cases op with
  | addAccount k a => exact refines_addAccount db h k a
  | submitOrder n o => exact refines_submitOrder db h n o
  | stage a => exact refines_stage db h a
  | complete => exact refines_complete db h
  | discard => exact refines_discard db h
  | updateOrder n m => exact refines_updateOrder db h n m
  | deleteOrder n => exact refines_deleteOrder db h n
  | updateOrders ns ms => exact refines_updateOrders db h ns ms
  | updateAccount k m => exact refines_updateAccount db h k m
  | reopen => exact ⟨rfl, h⟩
  | spend => exact refines_spend db h
  | accountSpend k w tx ht => exact refines_accountSpend db h k w tx ht
  | reconnect rpc rm => exact refines_reconnect db h rpc rm

theorem run_refines (db : DB) (h : Coh db) (ops : List Op) :
    abs (run db ops) = (abs db).run ops ∧ Coh (run db ops) := by
  induction ops generalizing db with
  | nil => exact ⟨rfl, h⟩
  | cons op ops ih =>
    obtain ⟨h1, h2⟩ := step_refines db h op
    simp only [run, Spec.run]
    rw [← h1]
    exact ih _ h2

end Pool.C06
