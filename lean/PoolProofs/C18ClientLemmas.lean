import PoolModel.C18Client
import Mathlib.Tactic.Linarith
/-! Helper lemmas for the client bookkeeping theorems of C18 (repaired code, `Variant.fixed`). -/
namespace Pool.C18

/-- only transport errors (before the challenge / between challenge and subscribe / after the subscribe) hit
handshakes -/
def TransportOnly (l : List Beh) : Prop := ∀ b ∈ l, b = Beh.ok ∨ b = Beh.errBC ∨ b = Beh.errAC ∨ b = Beh.errMid

theorem TransportOnly.tail {b : Beh} {l : List Beh} (h : TransportOnly (b :: l)) : TransportOnly l :=
  fun x hx => h x (List.mem_cons_of_mem _ hx)

/-- the newest stream is alive and carries exactly one acknowledged subscription per map entry -/
structure Live (c : Client) : Prop where
  isOpen : c.isOpen = true
  alive : c.cur.alive = true
  perm : List.Perm c.cur.subs c.accts
  succ : c.cur.success = c.cur.subs
  nodup : c.accts.Nodup
  chaos : c.chaos = false
  fo : c.failOpen = 0

/-- what a successful (possibly nested-reconnecting) step guarantees -/
structure Post (c c' : Client) (extra : List Nat) : Prop where
  live : Live c'
  perm : List.Perm c'.accts (c.accts ++ extra)
  tr : TransportOnly c'.beh
  len : c'.beh.length ≤ c.beh.length
  str : c.streams.length ≤ c'.streams.length

abbrev hsF (pick : List Nat → List Nat) (n : Nat) := hsLevel Variant.fixed pick n

/-- statement proved by induction on the depth `n` -/
def PHs (pick : List Nat → List Nat) (n : Nat) : Prop :=
  ∀ (c : Client) (a : Nat), Live c → a ∉ c.accts → TransportOnly c.beh → c.beh.length ≤ n →
    ∃ c', hsF pick n c a = (c', .ok) ∧ Post c c' [a]

theorem setCur_fields (c : Client) (f : Stream → Stream) :
    (c.setCur f).accts = c.accts ∧ (c.setCur f).beh = c.beh ∧
    (c.setCur f).refuse = c.refuse ∧ (c.setCur f).attempts = c.attempts ∧ (c.setCur f).chaos = c.chaos ∧
    (c.setCur f).streams.length = c.streams.length ∧
    (c.setCur f).isOpen = c.isOpen ∧ (c.setCur f).mainErrs = c.mainErrs ∧ (c.setCur f).handlerRes = c.handlerRes ∧
    (c.setCur f).failOpen = c.failOpen := by
  unfold Client.setCur; split <;> simp_all

theorem closeStream_fields (c : Client) :
    c.closeStream.accts = c.accts ∧ c.closeStream.beh = c.beh ∧ c.closeStream.refuse = c.refuse ∧
    c.closeStream.attempts = c.attempts ∧ c.closeStream.chaos = c.chaos ∧
    c.closeStream.streams.length = c.streams.length ∧ c.closeStream.mainErrs = c.mainErrs ∧
    c.closeStream.handlerRes = c.handlerRes ∧ c.closeStream.failOpen = c.failOpen := by
  unfold Client.closeStream
  split
  · obtain ⟨h1, h2, h3, h4, h5, h6, _, h8, h9, h10⟩ := setCur_fields c (fun s => { s with alive := false })
    exact ⟨h1, h2, h3, h4, h5, h6, h8, h9, h10⟩
  · simp

/-- the re-subscription loop, given the handshake statement at the same depth -/
theorem loop_of_P (pick : List Nat → List Nat) (n : Nat) (hP : PHs pick n) :
    ∀ (ord : List Nat) (c : Client), Live c → ord.Nodup → (∀ a ∈ ord, a ∉ c.accts) → TransportOnly c.beh →
      c.beh.length ≤ n →
      ∃ c', c.resubLoop Variant.fixed (hsF pick n) ord = (c', .ok) ∧ Post c c' ord := by
  intro ord
  induction ord with
  | nil =>
    intro c hl _ _ ht _
    exact ⟨c, rfl, ⟨hl, by simp, ht, le_refl _, le_refl _⟩⟩
  | cons a rest ih =>
    intro c hl hnd hdis ht hlen
    have hnd' := List.nodup_cons.mp hnd
    obtain ⟨c1, h1, p1⟩ := hP c a hl (hdis a (by simp)) ht hlen
    have hdis1 : ∀ x ∈ rest, x ∉ c1.accts := by
      intro x hx hin
      have := p1.perm.subset hin
      simp only [List.mem_append, List.mem_singleton] at this
      rcases this with h | h
      · exact hdis x (by simp [hx]) h
      · subst h; exact hnd'.1 hx
    obtain ⟨c2, h2, p2⟩ := ih c1 p1.live hnd'.2 hdis1 p1.tr (le_trans p1.len hlen)
    refine ⟨c2, ?_, ⟨p2.live, ?_, p2.tr, le_trans p2.len p1.len, le_trans p1.str p2.str⟩⟩
    · simp only [Client.resubLoop, h1]; exact h2
    · have : List.Perm (c1.accts ++ rest) ((c.accts ++ [a]) ++ rest) := List.Perm.append_right _ p1.perm
      exact (p2.perm.trans this).trans (by simp)

/-- `HandleServerShutdown`, given the handshake statement at the same depth: whatever state the old stream is in, it
ends with a live stream carrying every account of the map exactly once -/
theorem hss_of_P (pick : List Nat → List Nat) (hpick : ∀ l, List.Perm (pick l) l) (n : Nat) (hP : PHs pick n)
    (c : Client) (hnd : c.accts.Nodup) (hch : c.chaos = false) (hfo : c.failOpen = 0) (ht : TransportOnly c.beh)
    (hlen : c.beh.length ≤ n) :
    ∃ c', c.handleShutdown Variant.fixed pick (hsF pick n) = (c', .ok) ∧ Live c' ∧
      List.Perm c'.accts c.accts ∧ TransportOnly c'.beh ∧ c'.beh.length ≤ c.beh.length ∧
      c.streams.length < c'.streams.length := by
  obtain ⟨ha, hb, _, _, hc, hsl, _, _, hf⟩ := closeStream_fields c
  have hf0 : c.closeStream.failOpen = 0 := by rw [hf]; exact hfo
  let c0 : Client := { c.closeStream.connectStream with accts := [] }
  have hl0 : Live c0 := by
    refine ⟨?_, ?_, ?_, ?_, ?_, ?_, ?_⟩ <;> simp [c0, Client.connectStream, Client.cur, hc, hch, hf0]
  have hbeh0 : c0.beh = c.beh := by simp [c0, Client.connectStream, hb, hf0]
  have hord : (pick c.accts).Nodup := (hpick _).nodup_iff.mpr hnd
  obtain ⟨c', h, p⟩ := loop_of_P pick n hP (pick c.accts) c0 hl0 hord (by simp [c0])
    (by rw [hbeh0]; exact ht) (by rw [hbeh0]; exact hlen)
  refine ⟨c', ?_, p.live, ?_, p.tr, by simpa [hbeh0] using p.len, ?_⟩
  · have e : (c.closeStream.connectStream).accts = c.accts := by simp [Client.connectStream, ha, hf0]
    have eo : ¬ ((!(c.closeStream.connectStream).isOpen) = true) := by simp [Client.connectStream, hf0]
    unfold Client.handleShutdown
    dsimp only
    rw [if_neg eo, e]
    have : ({ c.closeStream.connectStream with accts := [] } : Client).resubLoop Variant.fixed (hsF pick n)
        (pick c.accts) = (c', .ok) := h
    rw [this]
  · have := p.perm
    simp only [c0, List.nil_append] at this
    exact this.trans (hpick _)
  · have := p.str
    simp only [c0, Client.connectStream, hf0, if_true, List.length_cons, hsl] at this
    omega

theorem handlerLoop_ok (v : Variant) (hsd : Client → Client × HsRes) (fuel : Nat) (c c' : Client)
    (h : hsd c = (c', .ok)) :
    Client.handlerLoop v hsd fuel c = { c' with handlerRes := c'.handlerRes ++ [ErrClass.none_] } := by
  cases fuel <;> simp [Client.handlerLoop, Client.handlerRound, h]

/-- the state a handshake on a live stream starts from, after the map insertion and taking the next behaviour -/
theorem hs_unfold (v : Variant) (inl : Client → Client × HsRes) (c : Client) (a : Nat) (hl : Live c)
    (ha : a ∉ c.accts) :
    Client.connectAndAuth v inl c a =
      (let c1 : Client := { c with accts := c.accts ++ [a], beh := c.beh.tail }
       match c.beh.headD .ok with
       | .ok => (c1.setCur fun s => { s with subs := s.subs ++ [a], success := s.success ++ [a] }, .ok)
       | .errBC => if v.inlineOnError then inl c1.failStream else (c1.failStream, .errTransport)
       | .errAC =>
         if v.inlineOnError then inl (c1.setCur fun s => { s with subs := s.subs ++ [a], alive := false })
         else (c1.setCur fun s => { s with subs := s.subs ++ [a], alive := false }, .errTransport)
       | .errMid => inl c1.failStream
       | .reject => (c1.setCur fun s => { s with subs := s.subs ++ [a] }, .errRejected)
       | .shutBC => (c1, .errShutdown)
       | .shutAC => (c1.setCur fun s => { s with subs := s.subs ++ [a] }, .errShutdown)) := by
  obtain ⟨accts, isOpen, streams, attempts, mainErrs, handlerRes, refuse, beh, chaos⟩ := c
  have ho : isOpen = true := hl.isOpen
  subst ho
  have hal : (streams.headD ({ alive := false } : Stream)).alive = true := hl.alive
  have ha' : a ∉ accts := ha
  simp only [Client.connectAndAuth, ha', if_false, if_true, addAcct, Client.cur, hal, Bool.not_true,
    Bool.false_eq_true]
  cases beh.headD Beh.ok <;> rfl

/-- a handshake answered `ok` on a live stream -/
theorem hs_ok_post (c : Client) (a : Nat) (hl : Live c) (ha : a ∉ c.accts) (ht : TransportOnly c.beh) :
    Post c (({ c with accts := c.accts ++ [a], beh := c.beh.tail } : Client).setCur
      fun s => { s with subs := s.subs ++ [a], success := s.success ++ [a] }) [a] := by
  obtain ⟨s, ss, hs⟩ : ∃ s ss, c.streams = s :: ss := by
    cases hstr : c.streams with
    | nil => have := hl.alive; simp [Client.cur, hstr] at this
    | cons s ss => exact ⟨s, ss, rfl⟩
  have hp : List.Perm s.subs c.accts := by simpa [Client.cur, hs] using hl.perm
  have hsu : s.success = s.subs := by simpa [Client.cur, hs] using hl.succ
  have hal : s.alive = true := by simpa [Client.cur, hs] using hl.alive
  refine ⟨⟨?_, ?_, ?_, ?_, ?_, ?_, ?_⟩, ?_, ?_, ?_, ?_⟩
  · simp [Client.setCur, hs, hl.isOpen]
  · simp [Client.setCur, hs, Client.cur, hal]
  · simp only [Client.setCur, hs, Client.cur, List.headD_cons]; exact List.Perm.append_right _ hp
  · simp [Client.setCur, hs, Client.cur, hsu]
  · simp only [Client.setCur, hs]
    exact List.nodup_append.mpr ⟨hl.nodup, by simp, by
      intro x hx y hy; simp at hy; subst hy; intro e; subst e; exact ha hx⟩
  · simp [Client.setCur, hs, hl.chaos]
  · simp [Client.setCur, hs, hl.fo]
  · simp [Client.setCur, hs]
  · simp only [Client.setCur, hs]
    intro b hb; exact ht b (List.mem_of_mem_tail hb)
  · simp [Client.setCur, hs]
  · simp [Client.setCur, hs]

/-- **every handshake of the repaired client ends subscribed**, at any recursion depth that covers the script: a
transport error at any point of the handshake is absorbed by an inline reconnect that re-subscribes the whole map -/
theorem PHs_all (pick : List Nat → List Nat) (hpick : ∀ l, List.Perm (pick l) l) : ∀ n, PHs pick n := by
  intro n
  induction n with
  | zero =>
    intro c a hl ha ht hlen
    have hnil : c.beh = [] := List.eq_nil_of_length_eq_zero (Nat.le_zero.mp hlen)
    refine ⟨_, ?_, hs_ok_post c a hl ha ht⟩
    simp only [hsF, hsLevel]
    rw [hs_unfold _ _ c a hl ha]
    simp [hnil]
  | succ m ih =>
    intro c a hl ha ht hlen
    -- the state handed to the inline reconnect in the three fault cases
    have inl : ∀ c2 : Client, c2.accts = c.accts ++ [a] → c2.beh = c.beh.tail → c2.chaos = false →
        c2.failOpen = 0 → c.streams.length ≤ c2.streams.length → c.beh ≠ [] →
        ∃ c', c2.handleShutdown Variant.fixed pick (hsF pick m) = (c', .ok) ∧ Post c c' [a] := by
      intro c2 h1 h2 h3 hf2 h4 hne
      have hnd2 : c2.accts.Nodup := by
        rw [h1]
        exact List.nodup_append.mpr ⟨hl.nodup, by simp, by
          intro x hx y hy; simp at hy; subst hy; intro e; subst e; exact ha hx⟩
      have ht2 : TransportOnly c2.beh := by
        rw [h2]; intro b hb; exact ht b (List.mem_of_mem_tail hb)
      have hlen2 : c2.beh.length ≤ m := by
        rw [h2]
        cases hb : c.beh with
        | nil => exact absurd hb hne
        | cons b t => simp [hb] at hlen ⊢; omega
      obtain ⟨c', h, hl', hp', ht', hlen', hstr'⟩ := hss_of_P pick hpick m ih c2 hnd2 h3 hf2 ht2 hlen2
      refine ⟨c', h, ⟨hl', by rw [← h1]; exact hp', ht', ?_, by omega⟩⟩
      rw [h2] at hlen'
      exact le_trans hlen' (by simp)
    simp only [hsF, hsLevel]
    rw [hs_unfold _ _ c a hl ha]
    cases hb : c.beh with
    | nil => simp only [List.headD_nil]; exact ⟨_, rfl, by simpa [hb] using hs_ok_post c a hl ha ht⟩
    | cons b t =>
      have hne : c.beh ≠ [] := by simp [hb]
      have hbt := ht b (by simp [hb])
      simp only [List.headD_cons, List.tail_cons]
      rcases hbt with rfl | rfl | rfl | rfl
      · exact ⟨_, rfl, by simpa [hb] using hs_ok_post c a hl ha ht⟩
      · obtain ⟨h1, h2, _, _, h5, h6, _, _, _, h10⟩ :=
          setCur_fields ({ c with accts := c.accts ++ [a], beh := t } : Client) (fun s => { s with alive := false })
        obtain ⟨c', h, p⟩ := inl (({ c with accts := c.accts ++ [a], beh := t } : Client).failStream)
          h1 (by rw [Client.failStream, h2, hb]; rfl) (by rw [Client.failStream, h5]; exact hl.chaos)
          (by rw [Client.failStream, h10]; exact hl.fo) (by rw [Client.failStream, h6]) hne
        exact ⟨c', by simpa [Variant.fixed, hsF] using h, p⟩
      · obtain ⟨h1, h2, _, _, h5, h6, _, _, _, h10⟩ :=
          setCur_fields ({ c with accts := c.accts ++ [a], beh := t } : Client)
            (fun s => { s with subs := s.subs ++ [a], alive := false })
        obtain ⟨c', h, p⟩ := inl (({ c with accts := c.accts ++ [a], beh := t } : Client).setCur
            fun s => { s with subs := s.subs ++ [a], alive := false })
          h1 (by rw [h2, hb]; rfl) (by rw [h5]; exact hl.chaos) (by rw [h10]; exact hl.fo) (by rw [h6]) hne
        exact ⟨c', by simpa [Variant.fixed, hsF] using h, p⟩
      · obtain ⟨h1, h2, _, _, h5, h6, _, _, _, h10⟩ :=
          setCur_fields ({ c with accts := c.accts ++ [a], beh := t } : Client) (fun s => { s with alive := false })
        obtain ⟨c', h, p⟩ := inl (({ c with accts := c.accts ++ [a], beh := t } : Client).failStream)
          h1 (by rw [Client.failStream, h2, hb]; rfl) (by rw [Client.failStream, h5]; exact hl.chaos)
          (by rw [Client.failStream, h10]; exact hl.fo) (by rw [Client.failStream, h6]) hne
        exact ⟨c', h, p⟩

end Pool.C18
