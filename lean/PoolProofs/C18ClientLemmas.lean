import PoolModel.C18Client
import Mathlib.Tactic.Linarith
/-! Helper lemmas for the client bookkeeping theorems of C18 (repaired code, `Variant.fixed`). -/
namespace Pool.C18

/-- the property's fault model for a handshake: answered normally, hit by a transport error (before the challenge /
between challenge and subscribe / after the subscribe) or by a shutdown notice (before / after the challenge) -/
def FaultsOnly (l : List Beh) : Prop :=
  ∀ b ∈ l, b = Beh.ok ∨ b = Beh.errBC ∨ b = Beh.errAC ∨ b = Beh.errMid ∨ b = Beh.shutBC ∨ b = Beh.shutAC

theorem FaultsOnly.tail {b : Beh} {l : List Beh} (h : FaultsOnly (b :: l)) : FaultsOnly l :=
  fun x hx => h x (List.mem_cons_of_mem _ hx)

/-- the newest stream is alive and carries exactly one acknowledged subscription per map entry -/
structure Live (c : Client) : Prop where
  isOpen : c.isOpen = true
  alive : c.cur.alive = true
  perm : List.Perm c.cur.subs c.accts
  succ : c.cur.success = c.cur.subs
  nodup : c.accts.Nodup
  chaos : c.chaos = false

/-- what a successful (possibly nested-reconnecting) step guarantees -/
structure Post (c c' : Client) (extra : List Nat) : Prop where
  live : Live c'
  perm : List.Perm c'.accts (c.accts ++ extra)
  tr : FaultsOnly c'.beh
  len : c'.beh.length ≤ c.beh.length
  fo : c'.failOpen ≤ c.failOpen
  fb : c'.failBatch ≤ c.failBatch
  str : c.streams.length ≤ c'.streams.length

/-- what a step aborted by a shutdown notice guarantees: the map still knows every account (the re-connect that
starts over will subscribe them), and a behaviour of the script was consumed -/
structure Aborted (c c' : Client) (extra : List Nat) : Prop where
  nodup : c'.accts.Nodup
  perm : List.Perm c'.accts (c.accts ++ extra)
  chaos : c'.chaos = false
  fo : c'.failOpen ≤ c.failOpen
  fb : c'.failBatch ≤ c.failBatch
  tr : FaultsOnly c'.beh
  len : c'.beh.length < c.beh.length
  str : c.streams.length ≤ c'.streams.length

/-- what a step that failed because a stream open or a pending-batch check failed guarantees: the map still knows every
account, and one of the scripted failures was consumed -/
structure Failed (c c' : Client) (extra : List Nat) : Prop where
  nodup : c'.accts.Nodup
  perm : List.Perm c'.accts (c.accts ++ extra)
  chaos : c'.chaos = false
  fo : c'.failOpen ≤ c.failOpen
  fb : c'.failBatch ≤ c.failBatch
  used : c'.failOpen + c'.failBatch < c.failOpen + c.failBatch
  tr : FaultsOnly c'.beh
  len : c'.beh.length ≤ c.beh.length
  str : c.streams.length ≤ c'.streams.length

def IsConnFail (r : HsRes) : Prop := r = .errConnect ∨ r = .errBatch

/-- the three ways a handshake / a re-subscription loop can end inside the fault model -/
def Outcome (c c' : Client) (r : HsRes) (extra : List Nat) : Prop :=
  (r = .ok ∧ Post c c' extra) ∨ (r = .errShutdown ∧ Aborted c c' extra) ∨ (IsConnFail r ∧ Failed c c' extra)

abbrev hsF (pick : List Nat → List Nat) (n : Nat) := hsLevel Variant.fixed pick n

/-- statement proved by induction on the depth `n` -/
def PHs (pick : List Nat → List Nat) (n : Nat) : Prop :=
  ∀ (c : Client) (a : Nat), Live c → a ∉ c.accts → FaultsOnly c.beh → c.beh.length ≤ n →
    ∃ c' r, hsF pick n c a = (c', r) ∧ Outcome c c' r [a]

theorem setCur_fields (c : Client) (f : Stream → Stream) :
    (c.setCur f).accts = c.accts ∧ (c.setCur f).beh = c.beh ∧
    (c.setCur f).refuse = c.refuse ∧ (c.setCur f).attempts = c.attempts ∧ (c.setCur f).chaos = c.chaos ∧
    (c.setCur f).streams.length = c.streams.length ∧
    (c.setCur f).isOpen = c.isOpen ∧ (c.setCur f).mainErrs = c.mainErrs ∧ (c.setCur f).handlerRes = c.handlerRes ∧
    (c.setCur f).failOpen = c.failOpen ∧ (c.setCur f).failBatch = c.failBatch := by
  unfold Client.setCur; split <;> simp_all

theorem closeStream_fields (c : Client) :
    c.closeStream.accts = c.accts ∧ c.closeStream.beh = c.beh ∧ c.closeStream.refuse = c.refuse ∧
    c.closeStream.attempts = c.attempts ∧ c.closeStream.chaos = c.chaos ∧
    c.closeStream.streams.length = c.streams.length ∧ c.closeStream.mainErrs = c.mainErrs ∧
    c.closeStream.handlerRes = c.handlerRes ∧ c.closeStream.failOpen = c.failOpen ∧
    c.closeStream.failBatch = c.failBatch := by
  unfold Client.closeStream
  split
  · obtain ⟨h1, h2, h3, h4, h5, h6, _, h8, h9, h10, h11⟩ := setCur_fields c (fun s => { s with alive := false })
    exact ⟨h1, h2, h3, h4, h5, h6, h8, h9, h10, h11⟩
  · simp

theorem filter_not_contains_self {l rest : List Nat} (h : ∀ x ∈ rest, x ∉ l) :
    rest.filter (fun a => !l.contains a) = rest := by
  apply List.filter_eq_self.mpr
  intro x hx
  simp [h x hx]

/-- the re-subscription loop, given the handshake statement at the same depth -/
theorem loop_of_P (pick : List Nat → List Nat) (n : Nat) (hP : PHs pick n) :
    ∀ (ord : List Nat) (c : Client), Live c → ord.Nodup → (∀ a ∈ ord, a ∉ c.accts) → FaultsOnly c.beh →
      c.beh.length ≤ n →
      ∃ c' r, c.resubLoop Variant.fixed (hsF pick n) ord = (c', r) ∧ Outcome c c' r ord := by
  intro ord
  induction ord with
  | nil =>
    intro c hl _ _ ht _
    exact ⟨c, .ok, rfl, Or.inl ⟨rfl, ⟨hl, by simp, ht, le_refl _, le_refl _, le_refl _, le_refl _⟩⟩⟩
  | cons a rest ih =>
    intro c hl hnd hdis ht hlen
    have hnd' := List.nodup_cons.mp hnd
    obtain ⟨c1, r1, h1, o1⟩ := hP c a hl (hdis a (by simp)) ht hlen
    have hdis1 : ∀ p : List.Perm c1.accts (c.accts ++ [a]), ∀ x ∈ rest, x ∉ c1.accts := by
      intro p x hx hin
      have := p.subset hin
      simp only [List.mem_append, List.mem_singleton] at this
      rcases this with h | h
      · exact hdis x (by simp [hx]) h
      · subst h; exact hnd'.1 hx
    have hcomp : ∀ l : List Nat, List.Perm l (c1.accts ++ rest) → List.Perm c1.accts (c.accts ++ [a]) →
        List.Perm l (c.accts ++ a :: rest) := by
      intro l p2 p1
      have : List.Perm (c1.accts ++ rest) ((c.accts ++ [a]) ++ rest) := List.Perm.append_right _ p1
      exact (p2.trans this).trans (by simp)
    -- the loop stops at this handshake: keepSubscriptions(rest), return the error
    have stop : ∀ (nd : c1.accts.Nodup) (p : List.Perm c1.accts (c.accts ++ [a])),
        (keepAccts c1.accts rest).Nodup ∧ List.Perm (keepAccts c1.accts rest) (c.accts ++ a :: rest) := by
      intro nd p
      have hk : keepAccts c1.accts rest = c1.accts ++ rest := by
        unfold keepAccts; rw [filter_not_contains_self (hdis1 p)]
      rw [hk]
      exact ⟨List.nodup_append.mpr ⟨nd, hnd'.2, by intro x hx y hy e; subst e; exact hdis1 p x hy hx⟩,
        hcomp _ (List.Perm.refl _) p⟩
    rcases o1 with ⟨rfl, p1⟩ | ⟨rfl, a1⟩ | ⟨hr, f1⟩
    · obtain ⟨c2, r2, h2, o2⟩ := ih c1 p1.live hnd'.2 (hdis1 p1.perm) p1.tr (le_trans p1.len hlen)
      refine ⟨c2, r2, by simp only [Client.resubLoop, h1]; exact h2, ?_⟩
      rcases o2 with ⟨rfl, p2⟩ | ⟨rfl, a2⟩ | ⟨hr2, f2⟩
      · exact Or.inl ⟨rfl, ⟨p2.live, hcomp _ p2.perm p1.perm, p2.tr, le_trans p2.len p1.len, le_trans p2.fo p1.fo,
          le_trans p2.fb p1.fb, le_trans p1.str p2.str⟩⟩
      · exact Or.inr (Or.inl ⟨rfl, ⟨a2.nodup, hcomp _ a2.perm p1.perm, a2.chaos, le_trans a2.fo p1.fo,
          le_trans a2.fb p1.fb, a2.tr, lt_of_lt_of_le a2.len p1.len, le_trans p1.str a2.str⟩⟩)
      · exact Or.inr (Or.inr ⟨hr2, ⟨f2.nodup, hcomp _ f2.perm p1.perm, f2.chaos, le_trans f2.fo p1.fo,
          le_trans f2.fb p1.fb, by have := f2.used; have := p1.fo; have := p1.fb; omega, f2.tr,
          le_trans f2.len p1.len, le_trans p1.str f2.str⟩⟩)
    · obtain ⟨k1, k2⟩ := stop a1.nodup a1.perm
      exact ⟨{ c1 with accts := keepAccts c1.accts rest }, .errShutdown,
        by simp [Client.resubLoop, h1, Variant.fixed],
        Or.inr (Or.inl ⟨rfl, ⟨k1, k2, a1.chaos, a1.fo, a1.fb, a1.tr, a1.len, a1.str⟩⟩)⟩
    · obtain ⟨k1, k2⟩ := stop f1.nodup f1.perm
      refine ⟨{ c1 with accts := keepAccts c1.accts rest }, r1, ?_,
        Or.inr (Or.inr ⟨hr, ⟨k1, k2, f1.chaos, f1.fo, f1.fb, f1.used, f1.tr, f1.len, f1.str⟩⟩)⟩
      rcases hr with rfl | rfl <;> simp [Client.resubLoop, h1, Variant.fixed]

/-- how one `reconnect` attempt / a whole `HandleServerShutdown` can end, relative to the state it started from -/
def ROutcome (c c1 : Client) (r : HsRes) (strict : Bool) : Prop :=
  (r = .ok ∧ Live c1 ∧ List.Perm c1.accts c.accts ∧ FaultsOnly c1.beh ∧ c1.beh.length ≤ c.beh.length ∧
      c1.failOpen ≤ c.failOpen ∧ c1.failBatch ≤ c.failBatch ∧ c.streams.length < c1.streams.length) ∨
  (strict = false ∧ r = .errShutdown ∧ c1.accts.Nodup ∧ List.Perm c1.accts c.accts ∧ c1.chaos = false ∧
      c1.failOpen ≤ c.failOpen ∧ c1.failBatch ≤ c.failBatch ∧ FaultsOnly c1.beh ∧ c1.beh.length < c.beh.length ∧
      c.streams.length ≤ c1.streams.length) ∨
  (IsConnFail r ∧ c1.accts.Nodup ∧ List.Perm c1.accts c.accts ∧ c1.chaos = false ∧
      c1.failOpen ≤ c.failOpen ∧ c1.failBatch ≤ c.failBatch ∧
      c1.failOpen + c1.failBatch < c.failOpen + c.failBatch ∧ FaultsOnly c1.beh ∧ c1.beh.length ≤ c.beh.length ∧
      c.streams.length ≤ c1.streams.length)

/-- one `reconnect` attempt from any state: everything subscribed on a live new stream, or aborted by a shutdown
notice with the whole map kept, or failed at the stream open / the pending-batch check with the whole map kept -/
theorem once_of_P (pick : List Nat → List Nat) (hpick : ∀ l, List.Perm (pick l) l) (n : Nat) (hP : PHs pick n)
    (c : Client) (hnd : c.accts.Nodup) (hch : c.chaos = false) (ht : FaultsOnly c.beh) (hlen : c.beh.length ≤ n) :
    ∃ c1 r, c.reconnectOnce Variant.fixed pick (hsF pick n) = (c1, r) ∧ ROutcome c c1 r false := by
  obtain ⟨ha, hb, _, _, hc, hsl, _, _, hf, hfb⟩ := closeStream_fields c
  by_cases hfo0 : c.failOpen = 0
  · have hf0 : c.closeStream.failOpen = 0 := by rw [hf]; exact hfo0
    have eo : ¬ ((!(c.closeStream.connectStream).isOpen) = true) := by simp [Client.connectStream, hf0]
    have e : (c.closeStream.connectStream).accts = c.accts := by simp [Client.connectStream, ha, hf0]
    have ebeh : (c.closeStream.connectStream).beh = c.beh := by simp [Client.connectStream, hb, hf0]
    have efb : (c.closeStream.connectStream).failBatch = c.failBatch := by simp [Client.connectStream, hfb, hf0]
    have estr : (c.closeStream.connectStream).streams.length = c.streams.length + 1 := by
      simp [Client.connectStream, hf0, hsl]
    have ech : (c.closeStream.connectStream).chaos = false := by simp [Client.connectStream, hf0, hc, hch]
    have efo : (c.closeStream.connectStream).failOpen = 0 := by simp [Client.connectStream, hf0]
    by_cases hfb0 : c.failBatch = 0
    · have eb : ¬ ((c.closeStream.connectStream.failBatch != 0) = true) := by simp [efb, hfb0]
      let c0 : Client := { c.closeStream.connectStream with accts := [] }
      have hl0 : Live c0 := by
        refine ⟨?_, ?_, ?_, ?_, ?_, ?_⟩ <;> simp [c0, Client.connectStream, Client.cur, hc, hch, hf0]
      have hord : (pick c.accts).Nodup := (hpick _).nodup_iff.mpr hnd
      obtain ⟨c1, r, h, o⟩ := loop_of_P pick n hP (pick c.accts) c0 hl0 hord (by simp [c0])
        (by show FaultsOnly (c.closeStream.connectStream).beh; rw [ebeh]; exact ht)
        (by show (c.closeStream.connectStream).beh.length ≤ n; rw [ebeh]; exact hlen)
      refine ⟨c1, r, ?_, ?_⟩
      · unfold Client.reconnectOnce
        dsimp only
        rw [if_neg eo, if_neg eb, e]
        exact h
      · have pc : ∀ l : List Nat, List.Perm l (c0.accts ++ pick c.accts) → List.Perm l c.accts := by
          intro l p
          simp only [c0, List.nil_append] at p
          exact p.trans (hpick _)
        have b0 : c0.beh.length = c.beh.length := by show (c.closeStream.connectStream).beh.length = _; rw [ebeh]
        have fo0 : c0.failOpen = 0 := efo
        have fb0 : c0.failBatch = c.failBatch := efb
        have s0 : c0.streams.length = c.streams.length + 1 := estr
        rcases o with ⟨rfl, p⟩ | ⟨rfl, a1⟩ | ⟨hr, f1⟩
        · exact Or.inl ⟨rfl, p.live, pc _ p.perm, p.tr, by have := p.len; omega, by have := p.fo; omega,
            by have := p.fb; omega, by have := p.str; omega⟩
        · exact Or.inr (Or.inl ⟨rfl, rfl, a1.nodup, pc _ a1.perm, a1.chaos, by have := a1.fo; omega,
            by have := a1.fb; omega, a1.tr, by have := a1.len; omega, by have := a1.str; omega⟩)
        · exact Or.inr (Or.inr ⟨hr, f1.nodup, pc _ f1.perm, f1.chaos, by have := f1.fo; omega,
            by have := f1.fb; omega, by have := f1.used; omega, f1.tr, by have := f1.len; omega,
            by have := f1.str; omega⟩)
    · -- the pending-batch check on the new stream fails
      have eb : (c.closeStream.connectStream.failBatch != 0) = true := by simp [efb, hfb0]
      refine ⟨{ c.closeStream.connectStream with failBatch := c.closeStream.connectStream.failBatch - 1 }, .errBatch,
        ?_, Or.inr (Or.inr ⟨Or.inr rfl, by rw [e]; exact hnd, by rw [e], ech, by simp [efo],
          by simp only [efb]; omega, by simp only [efb, efo]; omega, by rw [ebeh]; exact ht, by rw [ebeh],
          by rw [estr]; omega⟩)⟩
      unfold Client.reconnectOnce
      dsimp only
      rw [if_neg eo, if_pos eb]
  · -- opening the new stream fails although the Terms probe succeeded
    have hfne : ¬ c.closeStream.failOpen = 0 := by rw [hf]; exact hfo0
    have eo : (!(c.closeStream.connectStream).isOpen) = true := by simp [Client.connectStream, hfne]
    refine ⟨c.closeStream.connectStream, .errConnect, ?_, Or.inr (Or.inr ⟨Or.inl rfl, ?_, ?_, ?_, ?_, ?_, ?_, ?_, ?_, ?_⟩)⟩
    · unfold Client.reconnectOnce
      dsimp only
      rw [if_pos eo]
    all_goals simp only [Client.connectStream, hfne, if_false]
    · exact ha ▸ hnd
    · rw [ha]
    · rw [hc]; exact hch
    · rw [hf]; omega
    · rw [hfb]
    · rw [hf, hfb]; omega
    · rw [hb]; exact ht
    · rw [hb]
    · rw [hsl]

/-- `HandleServerShutdown`, given the handshake statement at the same depth: whatever state the old stream is in, and
however many shutdown notices make it start over, it either ends with a live stream carrying every account of the map
exactly once, or fails at a stream open / pending-batch check with the whole map kept -/
theorem hss_of_P (pick : List Nat → List Nat) (hpick : ∀ l, List.Perm (pick l) l) (n : Nat) (hP : PHs pick n) :
    ∀ (fuel : Nat) (c : Client), c.accts.Nodup → c.chaos = false → FaultsOnly c.beh →
      c.beh.length ≤ n → c.beh.length ≤ fuel →
      ∃ c' r, c.handleShutdown Variant.fixed pick (hsF pick n) fuel = (c', r) ∧ ROutcome c c' r true := by
  intro fuel
  induction fuel with
  | zero =>
    intro c hnd hch ht hlen hfu
    obtain ⟨c1, r, honce, o⟩ := once_of_P pick hpick n hP c hnd hch ht hlen
    rcases o with ⟨rfl, h⟩ | ⟨_, rfl, _, _, _, _, _, _, hl1, _⟩ | ⟨hr, h⟩
    · exact ⟨c1, .ok, by simp [Client.handleShutdown, honce], Or.inl ⟨rfl, h⟩⟩
    · omega
    · refine ⟨c1, r, ?_, Or.inr (Or.inr ⟨hr, h⟩)⟩
      rcases hr with rfl | rfl <;> simp [Client.handleShutdown, honce]
  | succ f ih =>
    intro c hnd hch ht hlen hfu
    obtain ⟨c1, r, honce, o⟩ := once_of_P pick hpick n hP c hnd hch ht hlen
    rcases o with ⟨rfl, h⟩ | ⟨_, rfl, hnd1, hp1, hch1, hfo1, hfb1, ht1, hl1, hs1⟩ | ⟨hr, h⟩
    · exact ⟨c1, .ok, by simp [Client.handleShutdown, honce], Or.inl ⟨rfl, h⟩⟩
    · -- the reader of the new stream closed it and marked the re-connect dirty: start over
      obtain ⟨ga, gb, _, _, gc, gsl, _, _, gf, gfb⟩ := closeStream_fields c1
      obtain ⟨c', r', h, o'⟩ := ih c1.closeStream (by rw [ga]; exact hnd1) (by rw [gc]; exact hch1)
        (by rw [gb]; exact ht1) (by rw [gb]; omega) (by rw [gb]; omega)
      refine ⟨c', r', ?_, ?_⟩
      · rw [Client.handleShutdown, honce]
        simpa [Variant.fixed] using h
      · simp only [ROutcome, ga, gb, gf, gfb, gsl] at o'
        rcases o' with ⟨rfl, hl', hp', ht', hlen', hfo', hfb', hs'⟩ | ⟨hf', _⟩ | ⟨hr', hnd', hp', hch', hfo', hfb', hu', ht', hlen', hs'⟩
        · exact Or.inl ⟨rfl, hl', hp'.trans hp1, ht', by omega, by omega, by omega, by omega⟩
        · exact absurd hf' (by simp)
        · exact Or.inr (Or.inr ⟨hr', hnd', hp'.trans hp1, hch', by omega, by omega, by omega, ht', by omega, by omega⟩)
    · refine ⟨c1, r, ?_, Or.inr (Or.inr ⟨hr, h⟩)⟩
      rcases hr with rfl | rfl <;> simp [Client.handleShutdown, honce]

theorem handlerLoop_ok (v : Variant) (hsd : Client → Client × HsRes) (fuel : Nat) (c c' : Client)
    (h : hsd c = (c', .ok)) :
    Client.handlerLoop v hsd fuel c = { c' with handlerRes := c'.handlerRes ++ [ErrClass.none_] } := by
  cases fuel <;> simp [Client.handlerLoop, Client.handlerRound, h]

/-- the state a handshake on a live stream starts from, after the map insertion and taking the next behaviour -/
theorem hs_unfold (v : Variant) (inl : Client → Client × HsRes) (c : Client) (a : Nat) (hl : Live c)
    (ha : a ∉ c.accts) :
    Client.connectAndAuth v inl c a =
      (let c1 : Client := { c with accts := c.accts ++ [a], beh := c.beh.tail }
       match c.beh.headD .ok with
       | .ok => (c1.setCur fun s => { s with subs := s.subs ++ [a], success := s.success ++ [a] }, .ok)
       | .errBC => if v.inlineOnError then inl c1.failStream else (c1.failStream, .errTransport)
       | .errAC =>
         if v.inlineOnError then inl (c1.setCur fun s => { s with subs := s.subs ++ [a], alive := false })
         else (c1.setCur fun s => { s with subs := s.subs ++ [a], alive := false }, .errTransport)
       | .errMid => inl c1.failStream
       | .reject => (c1.setCur fun s => { s with subs := s.subs ++ [a] }, .errRejected)
       | .okShut =>
         ((c1.setCur fun s => { s with subs := s.subs ++ [a], success := s.success ++ [a] }).closeStream, .okDirty)
       | .shutBC => (c1, .errShutdown)
       | .shutAC => (c1.setCur fun s => { s with subs := s.subs ++ [a] }, .errShutdown)) := by
  obtain ⟨accts, isOpen, streams, attempts, mainErrs, handlerRes, refuse, beh, chaos⟩ := c
  have ho : isOpen = true := hl.isOpen
  subst ho
  have hal : (streams.headD ({ alive := false } : Stream)).alive = true := hl.alive
  have ha' : a ∉ accts := ha
  simp only [Client.connectAndAuth, ha', if_false, if_true, addAcct, Client.cur, hal, Bool.not_true,
    Bool.false_eq_true]
  cases beh.headD Beh.ok <;> rfl

/-- a handshake answered `ok` on a live stream -/
theorem hs_ok_post (c : Client) (a : Nat) (hl : Live c) (ha : a ∉ c.accts) (ht : FaultsOnly c.beh) :
    Post c (({ c with accts := c.accts ++ [a], beh := c.beh.tail } : Client).setCur
      fun s => { s with subs := s.subs ++ [a], success := s.success ++ [a] }) [a] := by
  obtain ⟨s, ss, hs⟩ : ∃ s ss, c.streams = s :: ss := by
    cases hstr : c.streams with
    | nil => have := hl.alive; simp [Client.cur, hstr] at this
    | cons s ss => exact ⟨s, ss, rfl⟩
  have hp : List.Perm s.subs c.accts := by simpa [Client.cur, hs] using hl.perm
  have hsu : s.success = s.subs := by simpa [Client.cur, hs] using hl.succ
  have hal : s.alive = true := by simpa [Client.cur, hs] using hl.alive
  refine ⟨⟨?_, ?_, ?_, ?_, ?_, ?_⟩, ?_, ?_, ?_, ?_, ?_, ?_⟩
  · simp [Client.setCur, hs, hl.isOpen]
  · simp [Client.setCur, hs, Client.cur, hal]
  · simp only [Client.setCur, hs, Client.cur, List.headD_cons]; exact List.Perm.append_right _ hp
  · simp [Client.setCur, hs, Client.cur, hsu]
  · simp only [Client.setCur, hs]
    exact List.nodup_append.mpr ⟨hl.nodup, by simp, by
      intro x hx y hy; simp at hy; subst hy; intro e; subst e; exact ha hx⟩
  · simp [Client.setCur, hs, hl.chaos]
  · simp [Client.setCur, hs]
  · simp only [Client.setCur, hs]
    intro b hb; exact ht b (List.mem_of_mem_tail hb)
  · simp [Client.setCur, hs]
  · simp [Client.setCur, hs]
  · simp [Client.setCur, hs]
  · simp [Client.setCur, hs]

/-- **every handshake of the repaired client ends inside the fault model as `Outcome` says**, at any recursion depth
that covers the script: a transport error at any point of the handshake is absorbed by an inline reconnect that
re-subscribes the whole map (and itself starts over on shutdown notices) – unless that reconnect fails at a stream
open / pending-batch check, which is passed on with the map kept; a shutdown notice on the handshake itself aborts it
with the account kept in the map -/
theorem PHs_all (pick : List Nat → List Nat) (hpick : ∀ l, List.Perm (pick l) l) : ∀ n, PHs pick n := by
  intro n
  induction n with
  | zero =>
    intro c a hl ha ht hlen
    have hnil : c.beh = [] := List.eq_nil_of_length_eq_zero (Nat.le_zero.mp hlen)
    refine ⟨_, .ok, ?_, Or.inl ⟨rfl, hs_ok_post c a hl ha ht⟩⟩
    simp only [hsF, hsLevel]
    rw [hs_unfold _ _ c a hl ha]
    simp [hnil]
  | succ m ih =>
    intro c a hl ha ht hlen
    have hnd1 : (c.accts ++ [a]).Nodup :=
      List.nodup_append.mpr ⟨hl.nodup, by simp, by
        intro x hx y hy; simp at hy; subst hy; intro e; subst e; exact ha hx⟩
    -- the state handed to the inline reconnect in the three transport-error cases
    have inl : ∀ c2 : Client, c2.accts = c.accts ++ [a] → c2.beh = c.beh.tail → c2.chaos = false →
        c2.failOpen = c.failOpen → c2.failBatch = c.failBatch → c.streams.length ≤ c2.streams.length → c.beh ≠ [] →
        ∃ c' r, c2.handleShutdown Variant.fixed pick (hsF pick m) (m + 1) = (c', r) ∧ Outcome c c' r [a] := by
      intro c2 h1 h2 h3 hf2 hfb2 h4 hne
      have hnd2 : c2.accts.Nodup := by rw [h1]; exact hnd1
      have ht2 : FaultsOnly c2.beh := by
        rw [h2]; intro b hb; exact ht b (List.mem_of_mem_tail hb)
      have hlt : c.beh.tail.length < c.beh.length := by
        cases hb : c.beh with
        | nil => exact absurd hb hne
        | cons b t => simp
      have hlen2 : c2.beh.length ≤ m := by rw [h2]; omega
      obtain ⟨c', r, h, o⟩ := hss_of_P pick hpick m ih (m + 1) c2 hnd2 h3 ht2 hlen2 (by omega)
      refine ⟨c', r, h, ?_⟩
      simp only [ROutcome, h1, h2, hf2, hfb2] at o
      rcases o with ⟨rfl, hl', hp', ht', hlen', hfo', hfb', hs'⟩ | ⟨hf, _⟩ | ⟨hr, hnd', hp', hch', hfo', hfb', hu', ht', hlen', hs'⟩
      · exact Or.inl ⟨rfl, ⟨hl', hp', ht', by omega, hfo', hfb', by omega⟩⟩
      · exact absurd hf (by simp)
      · exact Or.inr (Or.inr ⟨hr, ⟨hnd', hp', hch', hfo', hfb', hu', ht', by omega, by omega⟩⟩)
    simp only [hsF, hsLevel]
    rw [hs_unfold _ _ c a hl ha]
    cases hb : c.beh with
    | nil =>
      simp only [List.headD_nil]
      exact ⟨_, .ok, rfl, Or.inl ⟨rfl, by simpa [hb] using hs_ok_post c a hl ha ht⟩⟩
    | cons b t =>
      have hne : c.beh ≠ [] := by simp [hb]
      have hbt := ht b (by simp [hb])
      have htt : FaultsOnly t := fun x hx => ht x (by simp [hb, hx])
      simp only [List.headD_cons, List.tail_cons]
      rcases hbt with rfl | rfl | rfl | rfl | rfl | rfl
      · exact ⟨_, .ok, rfl, Or.inl ⟨rfl, by simpa [hb] using hs_ok_post c a hl ha ht⟩⟩
      · obtain ⟨h1, h2, _, _, h5, h6, _, _, _, h10, h11⟩ :=
          setCur_fields ({ c with accts := c.accts ++ [a], beh := t } : Client) (fun s => { s with alive := false })
        obtain ⟨c', r, h, o⟩ := inl (({ c with accts := c.accts ++ [a], beh := t } : Client).failStream)
          h1 (by rw [Client.failStream, h2, hb]; rfl) (by rw [Client.failStream, h5]; exact hl.chaos)
          (by rw [Client.failStream, h10]) (by rw [Client.failStream, h11]) (by rw [Client.failStream, h6]) hne
        exact ⟨c', r, by simpa [Variant.fixed, hsF] using h, o⟩
      · obtain ⟨h1, h2, _, _, h5, h6, _, _, _, h10, h11⟩ :=
          setCur_fields ({ c with accts := c.accts ++ [a], beh := t } : Client)
            (fun s => { s with subs := s.subs ++ [a], alive := false })
        obtain ⟨c', r, h, o⟩ := inl (({ c with accts := c.accts ++ [a], beh := t } : Client).setCur
            fun s => { s with subs := s.subs ++ [a], alive := false })
          h1 (by rw [h2, hb]; rfl) (by rw [h5]; exact hl.chaos) (by rw [h10]) (by rw [h11]) (by rw [h6]) hne
        exact ⟨c', r, by simpa [Variant.fixed, hsF] using h, o⟩
      · obtain ⟨h1, h2, _, _, h5, h6, _, _, _, h10, h11⟩ :=
          setCur_fields ({ c with accts := c.accts ++ [a], beh := t } : Client) (fun s => { s with alive := false })
        obtain ⟨c', r, h, o⟩ := inl (({ c with accts := c.accts ++ [a], beh := t } : Client).failStream)
          h1 (by rw [Client.failStream, h2, hb]; rfl) (by rw [Client.failStream, h5]; exact hl.chaos)
          (by rw [Client.failStream, h10]) (by rw [Client.failStream, h11]) (by rw [Client.failStream, h6]) hne
        exact ⟨c', r, by simpa [hsF] using h, o⟩
      · -- shutdown notice instead of the challenge
        refine ⟨_, .errShutdown, rfl, Or.inr (Or.inl ⟨rfl, ⟨hnd1, List.Perm.refl _, hl.chaos, le_refl _, le_refl _,
          htt, ?_, le_refl _⟩⟩)⟩
        simp [hb]
      · -- shutdown notice instead of the final answer
        obtain ⟨h1, h2, _, _, h5, h6, _, _, _, h10, h11⟩ :=
          setCur_fields ({ c with accts := c.accts ++ [a], beh := t } : Client)
            (fun s => { s with subs := s.subs ++ [a] })
        refine ⟨_, .errShutdown, rfl, Or.inr (Or.inl ⟨rfl, ⟨by rw [h1]; exact hnd1, by rw [h1],
          by rw [h5]; exact hl.chaos, by rw [h10], by rw [h11], by rw [h2]; exact htt, ?_, by rw [h6]⟩⟩)⟩
        rw [h2]; simp [hb]

theorem handlerLoop_fail (hsd : Client → Client × HsRes) (fuel : Nat) (c c1 : Client) (r : HsRes)
    (h : hsd c = (c1, r)) (hr : IsConnFail r) :
    Client.handlerLoop Variant.fixed hsd (fuel + 1) c =
      Client.handlerLoop Variant.fixed hsd fuel { c1 with handlerRes := c1.handlerRes ++ [ErrClass.other] } := by
  rcases hr with rfl | rfl <;> simp [Client.handlerLoop, Client.handlerRound, h, Variant.fixed]

/-- the main handler's retry loop (`serverHandler`): every failed round consumed a failing open / batch check, so with
fuel for all of them it ends with every account subscribed exactly once on a live stream -/
theorem handlerLoop_live (pick : List Nat → List Nat) (hpick : ∀ l, List.Perm (pick l) l) (D : Nat)
    (hP : PHs pick D) :
    ∀ (fuel : Nat) (c : Client), c.accts.Nodup → c.chaos = false → FaultsOnly c.beh → c.beh.length ≤ D →
      c.failOpen + c.failBatch ≤ fuel →
      ∃ c', Client.handlerLoop Variant.fixed
          (fun c => c.handleShutdown Variant.fixed pick (hsLevel Variant.fixed pick D) D) fuel c = c' ∧
        Live c' ∧ List.Perm c'.accts c.accts ∧ c.streams.length < c'.streams.length := by
  intro fuel
  induction fuel with
  | zero =>
    intro c hnd hch ht hlen hfu
    obtain ⟨c1, r, h, o⟩ := hss_of_P pick hpick D hP D c hnd hch ht hlen hlen
    simp only [hsF] at h
    rcases o with ⟨rfl, hl, hp, _, _, _, _, hs⟩ | ⟨hf, _⟩ | ⟨_, _, _, _, _, _, hu, _⟩
    · exact ⟨_, handlerLoop_ok _ _ _ c c1 h, ⟨hl.isOpen, hl.alive, hl.perm, hl.succ, hl.nodup, hl.chaos⟩, hp, hs⟩
    · exact absurd hf (by simp)
    · omega
  | succ f ih =>
    intro c hnd hch ht hlen hfu
    obtain ⟨c1, r, h, o⟩ := hss_of_P pick hpick D hP D c hnd hch ht hlen hlen
    simp only [hsF] at h
    rcases o with ⟨rfl, hl, hp, _, _, _, _, hs⟩ | ⟨hf, _⟩ | ⟨hr, hnd1, hp1, hch1, hfo1, hfb1, hu, ht1, hl1, hs1⟩
    · exact ⟨_, handlerLoop_ok _ _ _ c c1 h, ⟨hl.isOpen, hl.alive, hl.perm, hl.succ, hl.nodup, hl.chaos⟩, hp, hs⟩
    · exact absurd hf (by simp)
    · obtain ⟨c', h', hl', hp', hs'⟩ := ih { c1 with handlerRes := c1.handlerRes ++ [ErrClass.other] }
        hnd1 hch1 ht1 (by show c1.beh.length ≤ D; omega) (by show c1.failOpen + c1.failBatch ≤ f; omega)
      refine ⟨c', ?_, hl', hp'.trans hp1, by have : c1.streams.length < c'.streams.length := hs'; omega⟩
      rw [handlerLoop_fail _ f c c1 r h hr]
      exact h'

end Pool.C18
