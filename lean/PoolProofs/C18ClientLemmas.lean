import PoolModel.C18Client
import Mathlib.Tactic.Linarith
/-! Helper lemmas for the client bookkeeping theorems of C18. -/
namespace Pool.C18

def AllOk (l : List Beh) : Prop := ∀ b ∈ l, b = Beh.ok

theorem AllOk.headD {l : List Beh} (h : AllOk l) : l.headD .ok = .ok := by
  cases l with
  | nil => rfl
  | cons b t => exact h b (by simp)

theorem AllOk.tail {l : List Beh} (h : AllOk l) : AllOk l.tail := by
  intro b hb; exact h b (List.mem_of_mem_tail hb)

theorem isPerm_of_perm {a b : List Nat} (h : List.Perm a b) : isPerm a b = true := by
  simp [isPerm, h.length_eq, h.count_eq]

/-- a clean re-subscription loop (every handshake answered `ok`) on a live stream subscribes the given accounts in
order, each once, and returns nil -/
theorem resubLoop_clean : ∀ (ord : List Nat) (c : Client) (s : Stream) (ss : List Stream),
    c.streams = s :: ss → c.isOpen = true → s.alive = true → AllOk c.beh → ord.Nodup → (∀ a ∈ ord, a ∉ c.accts) →
    ∃ c', c.resubLoop ord = (c', .ok) ∧ c'.accts = c.accts ++ ord ∧
      c'.streams = { s with subs := s.subs ++ ord, success := s.success ++ ord } :: ss ∧
      c'.isOpen = true ∧ c'.attempts = c.attempts ∧ c'.mainErrs = c.mainErrs ∧ c'.handlerRes = c.handlerRes ∧
      c'.chaos = c.chaos ∧ c'.badOrder = c.badOrder ∧ c'.orders = c.orders ∧ AllOk c'.beh ∧ c'.refuse = c.refuse := by
  intro ord
  induction ord with
  | nil => intro c s ss hs _ _ hb _ _; exact ⟨c, rfl, by simp, by simp [hs], ‹_›, rfl, rfl, rfl, rfl, rfl, rfl, hb, rfl⟩
  | cons a rest ih =>
    intro c s ss hs ho ha hb hnd hdis
    have hna : a ∉ c.accts := hdis a (by simp)
    have hcur : c.cur = s := by simp [Client.cur, hs]
    -- one handshake
    let s1 : Stream := { s with subs := s.subs ++ [a], success := s.success ++ [a] }
    let c1 : Client := { c with accts := c.accts ++ [a], beh := List.tail c.beh, streams := s1 :: ss }
    have h1 : c.connectAndAuth a = (c1, .ok) := by
      simp only [Client.connectAndAuth, hna, if_false, ho, if_true, addAcct]
      have hh : c.beh.head?.getD Beh.ok = Beh.ok := by
        have := hb.headD; simpa [List.headD_eq_head?_getD] using this
      simp [Client.cur, hs, ha, hh, ho, Client.setCur, c1, s1]
    have hnd' := List.nodup_cons.mp hnd
    obtain ⟨c', hl, hacc, hstr, ho', hat, hm, hh, hch, hbo, hor, hbeh, hrf⟩ :=
      ih c1 { s with subs := s.subs ++ [a], success := s.success ++ [a] } ss rfl ho ha hb.tail hnd'.2
        (by
          intro x hx hin
          simp only [c1, List.mem_append, List.mem_singleton] at hin
          rcases hin with hin | hin
          · exact hdis x (by simp [hx]) hin
          · subst hin; exact hnd'.1 hx)
    refine ⟨c', ?_, ?_, ?_, ho', hat, hm, hh, hch, hbo, hor, hbeh, hrf⟩
    · simp only [Client.resubLoop, h1]; exact hl
    · simp [hacc, c1]
    · simp [hstr]

/-- `HandleServerShutdown` with a clean script: whatever the state of the old stream, one new stream is opened after
`refuse + 1` attempts and every account of the map is subscribed on it exactly once, in the iteration order -/
theorem handleShutdown_clean (c : Client) (ord : List Nat) (more : List (List Nat))
    (hord : c.orders = ord :: more) (hp : List.Perm ord c.accts) (hnd : c.accts.Nodup) (hb : AllOk c.beh) :
    ∃ c', c.handleShutdown = (c', .ok) ∧ c'.accts = ord ∧
      c'.cur = { subs := ord, success := ord, alive := true } ∧ c'.isOpen = true ∧
      c'.streams.length = c.streams.length + 1 ∧ c'.attempts = c.attempts + c.refuse + 1 ∧
      c'.mainErrs = c.mainErrs ∧ c'.handlerRes = c.handlerRes ∧ c'.chaos = c.chaos ∧ c'.badOrder = c.badOrder ∧
      c'.orders = more ∧ AllOk c'.beh := by
  have hbeh1 : (c.closeStream).beh = c.beh := by
    unfold Client.closeStream Client.setCur; split <;> (try split) <;> rfl
  have hacc1 : (c.closeStream).accts = c.accts := by
    unfold Client.closeStream Client.setCur; split <;> (try split) <;> rfl
  have hord1 : (c.closeStream).orders = c.orders := by
    unfold Client.closeStream Client.setCur; split <;> (try split) <;> rfl
  have hlen1 : (c.closeStream).streams.length = c.streams.length := by
    unfold Client.closeStream Client.setCur; split <;> (try split) <;> simp_all
  have hatt1 : (c.closeStream).attempts = c.attempts ∧ (c.closeStream).refuse = c.refuse ∧
      (c.closeStream).mainErrs = c.mainErrs ∧ (c.closeStream).handlerRes = c.handlerRes ∧
      (c.closeStream).chaos = c.chaos ∧ (c.closeStream).badOrder = c.badOrder := by
    unfold Client.closeStream Client.setCur; split <;> (try split) <;> simp
  obtain ⟨hatt, hrf, hme, hhr, hch, hbo⟩ := hatt1
  let c2 := c.closeStream.connectStream
  have hndo : ord.Nodup := hp.nodup_iff.mpr hnd
  obtain ⟨c', hl, hacc, hstr, ho', hat, hm, hh, hch', hbo', hor, hbeh, _⟩ :=
    resubLoop_clean ord { c2 with accts := [], orders := more } {} c.closeStream.streams
      (by simp [c2, Client.connectStream]) (by simp [c2, Client.connectStream]) rfl
      (by simpa [c2, Client.connectStream, hbeh1] using hb) hndo (by simp)
  refine ⟨c', ?_, by simpa using hacc, ?_, ho', ?_, ?_, ?_, ?_, ?_, ?_, ?_, hbeh⟩
  · simp only [Client.handleShutdown]
    have : (c.closeStream.connectStream).orders = ord :: more := by simp [Client.connectStream, hord1, hord]
    rw [this]
    have hp' : isPerm ord (c.closeStream.connectStream).accts = true := by
      apply isPerm_of_perm; simpa [Client.connectStream, hacc1] using hp
    simp only [hp', Bool.not_true, Bool.false_eq_true, if_false]
    exact hl
  · simp [Client.cur, hstr]
  · simp [hstr, hlen1]
  · simp [hat, c2, Client.connectStream, hatt, hrf]
  · simp [hm, c2, Client.connectStream, hme]
  · simp [hh, c2, Client.connectStream, hhr]
  · simp [hch', c2, Client.connectStream, hch]
  · simp [hbo', c2, Client.connectStream, hbo]
  · simp [hor]

/-- fields untouched by `setCur` -/
theorem setCur_fields (c : Client) (f : Stream → Stream) :
    (c.setCur f).accts = c.accts ∧ (c.setCur f).orders = c.orders ∧ (c.setCur f).beh = c.beh ∧
    (c.setCur f).refuse = c.refuse ∧ (c.setCur f).attempts = c.attempts ∧ (c.setCur f).chaos = c.chaos ∧
    (c.setCur f).badOrder = c.badOrder ∧ (c.setCur f).streams.length = c.streams.length ∧
    (c.setCur f).isOpen = c.isOpen ∧ (c.setCur f).mainErrs = c.mainErrs ∧ (c.setCur f).handlerRes = c.handlerRes := by
  unfold Client.setCur; split <;> simp_all

end Pool.C18
