import PoolProofs.C02SaneLemmas
import PoolProofs.BatchExamples
/-!
# C02 with input ranges instead of the overflow guard

`Sane env b` (see `C02SaneLemmas.lean`): units are uint32, self-funded balances in [0, 2^49] sat, execution base fee
in [0, 2^50], execution fee rate in [0, 4096] ppm, chain fee rate in [0, 2^32] sat/kw, fewer than 2^20 matches.
-/
namespace Pool.C02
open Pool.Batch

/-- the input ranges imply the overflow guard -/
theorem C02_noOverflow_of_sane {env : Env} {b : Batch} (h : Sane env b) : NoOverflow env b := noOverflow_of_sane h

/-- **C02 with input ranges instead of the overflow guard.** -/
theorem C02_accept_debits_exact_sane (env : Env) (b : Batch) (best : UInt32) (st : Tallies)
    (hs : Sane env b) (h : verify env Rules.fixed b best = .ok st) :
    (∀ d ∈ b.diffs, ChargedExactly env b best d) ∧ (b.diffs.map (·.acctKey)).Nodup :=
  C02_accept_debits_exact env b best st (noOverflow_of_sane hs) h

/-- non-vacuity: the example proposal is inside the ranges and accepted -/
example : Sane exEnv exBatch ∧ isOk (verify exEnv Rules.fixed exBatch 101) = true := by
  refine ⟨?_, by decide⟩
  unfold Sane
  decide

end Pool.C02
