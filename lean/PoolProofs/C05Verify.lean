import PoolProofs.C05
import PoolModel.Batch
/-!
# C05 over the real `batchVerifier.Verify` model

The C05 theorems hold for every verification predicate `verifyOk : St → Batch → Bool`.  Here the predicate is
instantiated with the model of `batchVerifier.Verify` that C01–C03 are proved about (`Pool.Batch.verify`,
`lean/PoolModel/Batch.lean`), through an arbitrary *concretisation* of the abstract C05 data:

* `env s`   what the verifier reads from the trader's store and wallet in manager state `s` (orders, accounts,
            node key, configured batch version, script oracles),
* `conc b`  the fields of `order.Batch` the verifier reads (versions, matched orders, clearing prices, diffs
            with balances, fee schedule, tx outputs) for the abstract batch `b`,
* `best`    the best height handed to `OrderMatchValidate`, `rules` the verifier rule set (pinned / repaired).

No property of the concretisation is needed: whatever it is, signatures are only ever released for a batch
whose concretisation the `Verify` model accepted in the state in which it was proposed.
-/
namespace Pool.C05

structure VerifyCtx where
  env : St → Pool.Batch.Env
  rules : Pool.Batch.Rules
  best : St → UInt32
  conc : Batch → Pool.Batch.Batch

/-- `verifyOk` := "`batchVerifier.Verify` (the C01–C03 model) returns nil" -/
def VerifyCtx.verifyOk (c : VerifyCtx) (s : St) (b : Batch) : Bool :=
  match Pool.Batch.verify (c.env s) c.rules (c.conc b) (c.best s) with
  | .ok _ => true
  | .error _ => false

theorem VerifyCtx.verifyOk_iff (c : VerifyCtx) (s : St) (b : Batch) :
    c.verifyOk s b = true ↔ ∃ t, Pool.Batch.verify (c.env s) c.rules (c.conc b) (c.best s) = .ok t := by
  unfold VerifyCtx.verifyOk
  cases Pool.Batch.verify (c.env s) c.rules (c.conc b) (c.best s) <;> simp

/-- **C05 with the real verifier model.**  In every history, every release of signatures was made for a batch
that `Pool.Batch.verify` accepted (returning the account tallies `t`) in the manager state `s0` in which it
was proposed, and consists of exactly the ideal signatures for that batch's diffs over its transaction. -/
theorem C05_sign_only_batches_Verify_accepted (c : VerifyCtx) (accts : List Acct) (orders : List Ord)
    (ops : List Op) (r : Release)
    (hr : r ∈ (grun c.verifyOk (initSt accts orders) ⟨none, none, []⟩ ops).2.log) :
    ∃ b s0 t, r.batch = some b ∧ r.verifiedAt = some s0 ∧
      Pool.Batch.verify (c.env s0) c.rules (c.conc b) (c.best s0) = .ok t ∧
      Forall2 (SigFor r.db b.tx r.prev) b.diffs r.sigs := by
  obtain ⟨b, s0, h1, h2, h3, h4⟩ := C05_sign_only_pending c.verifyOk accts orders ops r hr
  obtain ⟨t, ht⟩ := (c.verifyOk_iff s0 b).1 h3
  exact ⟨b, s0, t, h1, h2, ht, h4⟩

/-- a proposal the `Verify` model rejects never becomes the pending batch and never changes what is signed -/
theorem C05_Verify_rejected_changes_nothing (c : VerifyCtx) (s : St) (b : Batch) (e : Pool.Batch.Err)
    (h : Pool.Batch.verify (c.env s) c.rules (c.conc b) (c.best s) = .error e) :
    (validate c.verifyOk s b) = (s, some .verify) := by
  have : c.verifyOk s b = false := by unfold VerifyCtx.verifyOk; rw [h]
  simp [validate, this]

end Pool.C05
